"""C03 `probe`: regenerates coq/Gen/HlslOpTable.v from the HLSL backend of /repo's working tree.

One tiny WGSL compute program per (operator | builtin | conversion, scalar kind, shape):
    let a = ia[0]; let b = ib[0]; ...; o[0] = <op applied to a, b, c>;
compiled with hlsl.DefaultOptions (harness/cmd/hlsldrive), read with lib/hlslread.py.  The
statement that computes the result is `o.Store<N>(0, asuint(<template>))`; the template is an
expression over the operand variables a, b, c; every generated helper function it calls
(naga_div, naga_mod, naga_neg, naga_f2i32, naga_extractBits, ...) is taken from its parsed
definition.  For vector shapes the vector type names of width N inside the template / helpers
are erased to the scalar name, so that a component-wise template coincides with the scalar one
(the vector semantics of Hlsl/Ops.v is the component-wise lift).

Rows: (op, type key, shape, template, helpers).  Obligation (coq/Hlsl/OpTable.v):
every row is in the hand-written catalogue coq/Hlsl/Catalogue.v, each of whose entries has a
lemma for all operands in coq/Hlsl/CatalogueProofs.v (or is on the refuted / unmodelled lists)."""
import json
import os

import hlslread
import nagarun
import vcheck

SCALARS = ["i32", "u32", "f32", "bool"]
HNAME = {"i32": "int", "u32": "uint", "f32": "float", "bool": "bool"}


def wty(k, n):
    return k if n == 1 else "vec%d<%s>" % (n, k)


def storage_ty(k, n):
    # bools are not host-shareable: they travel as u32
    return wty("u32" if k == "bool" else k, n)


def probe_source(expr, operands, result, n):
    """operands: list of (name, kind) ; result kind; n = vector width (1 = scalar)"""
    src = ["@group(0) @binding(0) var<storage, read_write> o: array<%s, 2>;" % storage_ty(result[0], result[1])]
    body = []
    for i, (name, k, w) in enumerate(operands):
        src.append("@group(0) @binding(%d) var<storage, read_write> i%s: array<%s, 2>;" % (i + 1, name, storage_ty(k, w)))
        if k == "bool":
            zero = "0u" if w == 1 else "vec%d<u32>(0u)" % w
            body.append("let %s = i%s[0] != %s;" % (name, name, zero))
        else:
            body.append("let %s = i%s[0];" % (name, name))
    if result[0] == "bool":
        rw = result[1]
        one = "1u" if rw == 1 else "vec%d<u32>(1u)" % rw
        zero = "0u" if rw == 1 else "vec%d<u32>(0u)" % rw
        body.append("o[0] = select(%s, %s, %s);" % (zero, one, expr))
    else:
        body.append("o[0] = %s;" % expr)
    src.append("@compute @workgroup_size(1) fn main() { " + " ".join(body) + " }")
    return "\n".join(src)


def probes():
    """-> list of dict(op, ty, shape, src, bool_result)"""
    out = []

    def add(op, ty, n, expr, operands, result, shape=None):
        out.append({"op": op, "ty": ty, "shape": shape or ("s" if n == 1 else "v%d" % n),
                    "src": probe_source(expr, operands, result, n), "bool_result": result[0] == "bool", "n": n,
                    "operands": [o[0] for o in operands]})

    for n in (1, 2, 3, 4):
        for k in ("i32", "u32", "f32"):
            for op, sym in (("Add", "+"), ("Subtract", "-"), ("Multiply", "*"), ("Divide", "/"), ("Modulo", "%")):
                add(op, k, n, "a %s b" % sym, [("a", k, n), ("b", k, n)], (k, n))
            for op, sym in (("Equal", "=="), ("NotEqual", "!="), ("Less", "<"), ("LessEqual", "<="), ("Greater", ">"),
                            ("GreaterEqual", ">=")):
                add(op, k, n, "a %s b" % sym, [("a", k, n), ("b", k, n)], ("bool", n))
        for k in ("i32", "u32"):
            for op, sym in (("And", "&"), ("InclusiveOr", "|"), ("ExclusiveOr", "^")):
                add(op, k, n, "a %s b" % sym, [("a", k, n), ("b", k, n)], (k, n))
            add("ShiftLeft", k, n, "a << b", [("a", k, n), ("b", "u32", n)], (k, n))
            add("ShiftRight", k, n, "a >> b", [("a", k, n), ("b", "u32", n)], (k, n))
            add("BitwiseNot", k, n, "~a", [("a", k, n)], (k, n))
        for op, sym in (("And", "&"), ("InclusiveOr", "|"), ("Equal", "=="), ("NotEqual", "!=")):
            add(op, "bool", n, "a %s b" % sym, [("a", "bool", n), ("b", "bool", n)], ("bool", n))
        add("LogicalNot", "bool", n, "!a", [("a", "bool", n)], ("bool", n))
        add("Negate", "i32", n, "-a", [("a", "i32", n)], ("i32", n))
        add("Negate", "f32", n, "-a", [("a", "f32", n)], ("f32", n))
        for k in SCALARS:
            add("Select", k, n, "select(a, b, c)", [("a", k, n), ("b", k, n), ("c", "bool", n)], (k, n))
        if n > 1:
            for k in SCALARS:
                add("SelectScalarCond", k, n, "select(a, b, c)", [("a", k, n), ("b", k, n), ("c", "bool", 1)], (k, n))
        # math builtins
        for k in ("i32", "u32", "f32"):
            add("MathAbs", k, n, "abs(a)", [("a", k, n)], (k, n))
            add("MathMin", k, n, "min(a, b)", [("a", k, n), ("b", k, n)], (k, n))
            add("MathMax", k, n, "max(a, b)", [("a", k, n), ("b", k, n)], (k, n))
            add("MathClamp", k, n, "clamp(a, b, c)", [("a", k, n), ("b", k, n), ("c", k, n)], (k, n))
        add("MathSign", "i32", n, "sign(a)", [("a", "i32", n)], ("i32", n))
        add("MathSign", "f32", n, "sign(a)", [("a", "f32", n)], ("f32", n))
        for k in ("i32", "u32"):
            for op, fn in (("MathCountOneBits", "countOneBits"), ("MathReverseBits", "reverseBits"),
                           ("MathFirstLeadingBit", "firstLeadingBit"), ("MathFirstTrailingBit", "firstTrailingBit"),
                           ("MathCountLeadingZeros", "countLeadingZeros"), ("MathCountTrailingZeros", "countTrailingZeros")):
                add(op, k, n, "%s(a)" % fn, [("a", k, n)], (k, n))
            add("MathExtractBits", k, n, "extractBits(a, b, c)", [("a", k, n), ("b", "u32", 1), ("c", "u32", 1)], (k, n))
            add("MathInsertBits", k, n, "insertBits(a, b, c, d)",
                [("a", k, n), ("b", k, n), ("c", "u32", 1), ("d", "u32", 1)], (k, n))
        for op, fn in (("MathFloor", "floor"), ("MathCeil", "ceil"), ("MathTrunc", "trunc"), ("MathRound", "round"),
                       ("MathSqrt", "sqrt"), ("MathSaturate", "saturate"),
                       # no WGSL-side meaning in Base/F32.v: the template is pinned, not proved
                       ("MathFract", "fract"), ("MathInverseSqrt", "inverseSqrt"), ("MathExp", "exp"), ("MathExp2", "exp2"),
                       ("MathLog", "log"), ("MathLog2", "log2"), ("MathSin", "sin"), ("MathCos", "cos"), ("MathTan", "tan"),
                       ("MathAsin", "asin"), ("MathAcos", "acos"), ("MathAtan", "atan"), ("MathSinh", "sinh"),
                       ("MathCosh", "cosh"), ("MathTanh", "tanh"), ("MathRadians", "radians"), ("MathDegrees", "degrees")):
            add(op, "f32", n, "%s(a)" % fn, [("a", "f32", n)], ("f32", n))
        for op, fn in (("MathPow", "pow"), ("MathStep", "step"), ("MathAtan2", "atan2")):
            add(op, "f32", n, "%s(a, b)" % fn, [("a", "f32", n), ("b", "f32", n)], ("f32", n))
        for op, fn in (("MathFma", "fma"), ("MathMix", "mix"), ("MathSmoothStep", "smoothstep")):
            add(op, "f32", n, "%s(a, b, c)" % fn, [("a", "f32", n), ("b", "f32", n), ("c", "f32", n)], ("f32", n))
        # conversions and bitcasts
        for src_k in SCALARS:
            for dst_k in SCALARS:
                if src_k != dst_k:
                    add("As_%s" % dst_k, src_k, n, "%s(a)" % wty(dst_k, n), [("a", src_k, n)], (dst_k, n))
        for src_k in ("i32", "u32", "f32"):
            for dst_k in ("i32", "u32", "f32"):
                if src_k != dst_k:
                    add("Bitcast_%s" % dst_k, src_k, n, "bitcast<%s>(a)" % wty(dst_k, n), [("a", src_k, n)], (dst_k, n))
        if n > 1:
            for k in ("i32", "u32", "f32"):
                add("MathDot", k, n, "dot(a, b)", [("a", k, n), ("b", k, n)], (k, 1))
            add("RelationalAll", "bool", n, "all(a)", [("a", "bool", n)], ("bool", 1))
            add("RelationalAny", "bool", n, "any(a)", [("a", "bool", n)], ("bool", 1))
            add("MathLength", "f32", n, "length(a)", [("a", "f32", n)], ("f32", 1))
            add("MathDistance", "f32", n, "distance(a, b)", [("a", "f32", n), ("b", "f32", n)], ("f32", 1))
            add("MathNormalize", "f32", n, "normalize(a)", [("a", "f32", n)], ("f32", n))
            # scalar (op) vector broadcasting
            for k in ("i32", "u32", "f32"):
                for op, sym in (("Add", "+"), ("Multiply", "*"), ("Divide", "/")):
                    add(op + "VecScalar", k, n, "a %s b" % sym, [("a", k, n), ("b", k, 1)], (k, n))
                    add(op + "ScalarVec", k, n, "a %s b" % sym, [("a", k, 1), ("b", k, n)], (k, n))
    add("MathCross", "f32", 3, "cross(a, b)", [("a", "f32", 3), ("b", "f32", 3)], ("f32", 3))
    return out


def matrix_probes():
    out = []
    for c in (2, 3, 4):
        for r in (2, 3, 4):
            m = "mat%dx%d<f32>" % (c, r)
            decl = ["@group(0) @binding(1) var<storage, read_write> ia: array<%s, 2>;" % m]

            def prog(res_ty, extra_decl, lets, expr):
                return "\n".join(["@group(0) @binding(0) var<storage, read_write> o: array<%s, 2>;" % res_ty] + decl + extra_decl +
                                 ["@compute @workgroup_size(1) fn main() { let a = ia[0]; %s o[0] = %s; }" % (lets, expr)])
            shape = "c%dr%d" % (c, r)
            out.append({"op": "MulMatVec", "ty": "f32", "shape": shape, "n": 1, "bool_result": False, "matrix_result": False, "operands": ["a", "b"],
                        "src": prog("vec%d<f32>" % r, ["@group(0) @binding(2) var<storage, read_write> ib: array<vec%d<f32>, 2>;" % c],
                                    "let b = ib[0];", "a * b")})
            out.append({"op": "MulVecMat", "ty": "f32", "shape": shape, "n": 1, "bool_result": False, "matrix_result": False, "operands": ["a", "b"],
                        "src": prog("vec%d<f32>" % c, ["@group(0) @binding(2) var<storage, read_write> ib: array<vec%d<f32>, 2>;" % r],
                                    "let b = ib[0];", "b * a")})
            out.append({"op": "MulMatScalar", "ty": "f32", "shape": shape, "n": 1, "bool_result": False, "matrix_result": True, "operands": ["a", "b"],
                        "src": prog(m, ["@group(0) @binding(2) var<storage, read_write> ib: array<f32, 2>;"], "let b = ib[0];", "a * b")})
            out.append({"op": "MulScalarMat", "ty": "f32", "shape": shape, "n": 1, "bool_result": False, "matrix_result": True, "operands": ["a", "b"],
                        "src": prog(m, ["@group(0) @binding(2) var<storage, read_write> ib: array<f32, 2>;"], "let b = ib[0];", "b * a")})
            out.append({"op": "AddMat", "ty": "f32", "shape": shape, "n": 1, "bool_result": False, "matrix_result": True, "operands": ["a", "b"],
                        "src": prog(m, ["@group(0) @binding(2) var<storage, read_write> ib: array<%s, 2>;" % m], "let b = ib[0];", "a + b")})
            out.append({"op": "SubMat", "ty": "f32", "shape": shape, "n": 1, "bool_result": False, "matrix_result": True, "operands": ["a", "b"],
                        "src": prog(m, ["@group(0) @binding(2) var<storage, read_write> ib: array<%s, 2>;" % m], "let b = ib[0];", "a - b")})
            for k in (2, 3, 4):
                # a: mat KxR ... product a(c=k cols, r rows) * b(c cols, k rows) -> (c cols, r rows)
                ma = "mat%dx%d<f32>" % (k, r)
                mb = "mat%dx%d<f32>" % (c, k)
                mr = "mat%dx%d<f32>" % (c, r)
                out.append({"op": "MulMatMat", "ty": "f32", "shape": "c%dr%dk%d" % (c, r, k), "n": 1, "bool_result": False,
                            "matrix_result": True, "operands": ["a", "b"],
                            "src": "\n".join(["@group(0) @binding(0) var<storage, read_write> o: array<%s, 2>;" % mr,
                                              "@group(0) @binding(1) var<storage, read_write> ia: array<%s, 2>;" % ma,
                                              "@group(0) @binding(2) var<storage, read_write> ib: array<%s, 2>;" % mb,
                                              "@compute @workgroup_size(1) fn main() { let a = ia[0]; let b = ib[0]; o[0] = a * b; }"])})
    return out


# ------------------------------------------------------------------ template extraction

class ProbeError(Exception):
    pass


def calls_in(e, acc):
    if isinstance(e, list):
        if e and e[0] == "call":
            acc.append(e[1])
        for x in e:
            calls_in(x, acc)


def func_calls(f, acc):
    calls_in(f["body"], acc)


def erase_type(t, n):
    if n > 1 and t[0] == "vec" and t[2] == n:
        return ["scal", t[1]]
    if t[0] == "arr":
        return ["arr", erase_type(t[1], n), t[2]]
    return t


def erase(node, n):
    """erase vector types of width n to scalars inside expressions / statements"""
    if not isinstance(node, list) or not node:
        return node
    tag = node[0]
    if tag in ("cast", "ctor"):
        return [tag, erase_type(node[1], n)] + [erase(x, n) for x in node[2:]]
    if tag == "decl":
        return [tag, erase_type(node[1], n), node[2], erase(node[3], n)]
    if tag == "member" and n > 1 and isinstance(node[2], str) and node[2] in ("x" * n):
        # (e).xx..x splat of width n: a scalar stays a scalar
        if len(node[2]) == n:
            return erase(node[1], n)
    return [erase(x, n) if isinstance(x, list) else x for x in node]


def extract_template(p, ast):
    main = [f for f in ast["funcs"] if f["numthreads"] is not None]
    if len(main) != 1:
        raise ProbeError("no entry point")
    body = main[0]["body"]
    # operands are the WGSL lets a, b, c, d: naga must have kept their names
    declared = [st[2] for st in body if st[0] == "decl"]
    for nme in p["operands"]:
        if nme not in declared:
            raise ProbeError("operand %s was renamed or dropped" % nme)
    stores = [st for st in body if st[0] == "expr" and st[1][0] == "method" and st[1][1] == ["var", "o"]
              and st[1][2].startswith("Store")]
    blocks = [st for st in body if st[0] == "block"]
    if p.get("matrix_result"):
        if len(blocks) != 1:
            raise ProbeError("matrix result: expected one store block")
        d = blocks[0][1][0]
        if d[0] != "decl" or d[2] != "_value2":
            raise ProbeError("matrix result: unexpected store block")
        val = d[3]
        # the rows must be stored at row_stride * i: checked by the differential validation, not here
    else:
        if len(stores) != 1:
            raise ProbeError("expected exactly one Store to o, found %d" % len(stores))
        args = stores[0][1][3]
        if len(args) != 2 or args[0] != ["i", 0]:
            raise ProbeError("unexpected Store arguments")
        val = args[1]
        if val[0] != "call" or val[1] != "asuint" or len(val[2]) != 1:
            raise ProbeError("stored value is not asuint(...)")
        val = val[2][0]
    if p["bool_result"]:
        if val[0] != "cond":
            raise ProbeError("bool result not a ?:")
        one, zero = val[2], val[3]
        ok = (one in (["u", 1], ["member", ["u", 1], "x" * p["n"]]) and zero in (["u", 0], ["member", ["u", 0], "x" * p["n"]])) \
            if True else False
        if not ok:
            raise ProbeError("bool result wrapper changed: %r" % (val,))
        val = val[1]

    def free_vars(e, acc):
        if isinstance(e, list):
            if e and e[0] == "var":
                acc.add(e[1])
            for x in e:
                free_vars(x, acc)
    fv = set()
    free_vars(val, fv)
    if not fv <= set(p["operands"]):
        raise ProbeError("template mentions %s besides its operands" % sorted(fv - set(p["operands"])))
    # helpers, transitively, in file order
    needed = []
    acc = []
    calls_in(val, acc)
    by_name = {}
    for f in ast["funcs"]:
        by_name.setdefault(f["name"], []).append(f)
    work = list(acc)
    seen = set()
    while work:
        nme = work.pop()
        if nme in seen or nme not in by_name:
            continue
        seen.add(nme)
        for f in by_name[nme]:
            a2 = []
            func_calls(f, a2)
            work.extend(a2)
    helpers = [f for f in ast["funcs"] if f["name"] in seen]
    n = p["n"]
    val = erase(val, n)
    hs = []
    for f in helpers:
        hs.append({"name": f["name"], "ret": erase_type(f["ret"], n),
                   "params": [[q[0], erase_type(q[1], n), q[2], q[3]] for q in f["params"]],
                   "body": [erase(s, n) for s in f["body"]], "numthreads": None})
    return val, hs


# ------------------------------------------------------------------ Coq printing

def cq(s):
    return '"' + s.replace('"', '""') + '"'


KIND = {"int": "KInt", "uint": "KUint", "float": "KFloat", "bool": "KBool"}
UNOP = {"-": "UNeg", "!": "UNot", "~": "UBitNot", "+": "UPlus"}
BINOP = {"+": "BAdd", "-": "BSub", "*": "BMul", "/": "BDiv", "%": "BMod", "<<": "BShl", ">>": "BShr", "&": "BAnd", "|": "BOr",
         "^": "BXor", "&&": "BLAnd", "||": "BLOr", "==": "BEq", "!=": "BNe", "<": "BLt", "<=": "BLe", ">": "BGt", ">=": "BGe"}


def coq_type(t):
    k = t[0]
    if k == "void":
        return "TVoid"
    if k == "scal":
        return "(TScal %s)" % KIND[t[1]]
    if k == "vec":
        return "(TVec %s %d)" % (KIND[t[1]], t[2])
    if k == "mat":
        return "(TMat %s %d %d)" % (KIND[t[1]], t[2], t[3])
    if k == "named":
        return "(TNamed %s)" % cq(t[1])
    if k == "arr":
        return "(TArr %s %d)" % (coq_type(t[1]), t[2])
    if k == "buf":
        return "(TBuf %s)" % ("true" if t[1] else "false")
    raise ProbeError("type " + k)


def coq_list(xs):
    return "[" + "; ".join(xs) + "]"


def coq_expr(e):
    k = e[0]
    if k == "i":
        return "(ELitI %d)" % e[1]
    if k == "u":
        return "(ELitU %d)" % e[1]
    if k == "f":
        return "(ELitF %d)" % e[1]
    if k == "b":
        return "(ELitB %s)" % ("true" if e[1] else "false")
    if k == "var":
        return "(EVar %s)" % cq(e[1])
    if k == "un":
        return "(EUn %s %s)" % (UNOP[e[1]], coq_expr(e[2]))
    if k == "bin":
        return "(EBin %s %s %s)" % (BINOP[e[1]], coq_expr(e[2]), coq_expr(e[3]))
    if k == "cond":
        return "(ECond %s %s %s)" % (coq_expr(e[1]), coq_expr(e[2]), coq_expr(e[3]))
    if k == "cast":
        return "(ECast %s %s)" % (coq_type(e[1]), coq_expr(e[2]))
    if k == "ctor":
        return "(ECtor %s %s)" % (coq_type(e[1]), coq_list([coq_expr(x) for x in e[2]]))
    if k == "call":
        return "(ECall %s %s)" % (cq(e[1]), coq_list([coq_expr(x) for x in e[2]]))
    if k == "member":
        return "(EMember %s %s)" % (coq_expr(e[1]), cq(e[2]))
    if k == "index":
        return "(EIndex %s %s)" % (coq_expr(e[1]), coq_expr(e[2]))
    if k == "method":
        return "(EMethod %s %s %s)" % (coq_expr(e[1]), cq(e[2]), coq_list([coq_expr(x) for x in e[3]]))
    if k == "init":
        return "(EInit %s)" % coq_list([coq_expr(x) for x in e[1]])
    raise ProbeError("expr " + str(k))


def coq_opt(f, x):
    return "None" if x is None else "(Some %s)" % f(x)


def coq_stmt(s):
    k = s[0]
    if k == "decl":
        return "(SDecl %s %s %s)" % (coq_type(s[1]), cq(s[2]), coq_opt(coq_expr, s[3]))
    if k == "assign":
        return "(SAssign %s %s %s)" % ("None" if s[1] is None else "(Some %s)" % BINOP[s[1]], coq_expr(s[2]), coq_expr(s[3]))
    if k == "expr":
        return "(SExpr %s)" % coq_expr(s[1])
    if k == "return":
        return "(SReturn %s)" % coq_opt(coq_expr, s[1])
    raise ProbeError("helper statement " + k)


def coq_func(f):
    ps = coq_list(["(mkparam %s %s %s None)" % ("true" if q[0] else "false", coq_type(q[1]), cq(q[2])) for q in f["params"]])
    return "(mkfunc %s %s %s %s None)" % (cq(f["name"]), coq_type(f["ret"]), ps, coq_list([coq_stmt(s) for s in f["body"]]))


def run_probes(tools, plist):
    jobs = [{"id": i, "src": p["src"], "want": ["validate"], "opts": {}} for i, p in enumerate(plist)]
    res = nagarun.parallel_batches(tools["hlsldrive"], "compile", jobs, per_job_timeout=20.0, chunk=64)
    rows = []
    problems = []
    for i, p in enumerate(plist):
        r = res.get(i) or {}
        key = "%s/%s/%s" % (p["op"], p["ty"], p["shape"])
        if "hlsl" not in r:
            problems.append((key, "does not compile: %s" % (r.get("err") or r.get("hlsl_err") or r.get("panic") or r.get("crash"))))
            continue
        if r.get("validate"):
            problems.append((key, "validation: %s" % r["validate"][:1]))
            continue
        ast = hlslread.parse(r["hlsl"])
        try:
            if ast["out_of_fragment"]:
                raise ProbeError("unreadable output: %s" % ast["out_of_fragment"][:1])
            val, hs = extract_template(p, ast)
            rows.append((p, val, hs, r["hlsl"]))
        except ProbeError as e:
            problems.append((key, str(e)))
    return rows, problems


def gen_hlsloptable(gen, tools):
    """gen: the gen.py module (write/HEADER helpers)"""
    plist = probes() + matrix_probes()
    rows, problems = run_probes(tools, plist)
    lines = ["From Coq Require Import List ZArith String.", "Import ListNotations.", "Require Import Naga.Hlsl.Syntax.",
             "Open Scope string_scope.", "Open Scope Z_scope.", "",
             "(* (operator, operand type key, shape, template over a b c d, helper functions as emitted) *)",
             "Record row := mkrow { r_op : string; r_ty : string; r_shape : string; r_template : expr; r_helpers : list func }.",
             "", "Definition table : list row := ["]
    body = []
    for p, val, hs, _txt in rows:
        body.append("  mkrow %s %s %s\n    %s\n    %s" % (cq(p["op"]), cq(p["ty"]), cq(p["shape"]), coq_expr(val),
                                                        coq_list([coq_func(f) for f in hs])))
    lines.append(";\n".join(body))
    lines.append("].")
    lines.append("")
    lines.append("(* probes whose output could not be read back as `o.Store(0, asuint(template))`: must stay empty *)")
    lines.append("Definition unreadable : list (string * string) := [")
    lines.append(";\n".join("  (%s, %s)" % (cq(k), cq(w[:200])) for k, w in problems))
    lines.append("].")
    os.makedirs(os.path.join(vcheck.BUILD, "c03"), exist_ok=True)
    with open(os.path.join(vcheck.BUILD, "c03", "optable_rows.json"), "w") as f:
        json.dump([{"op": p["op"], "ty": p["ty"], "shape": p["shape"], "template": val, "helpers": hs, "src": p["src"], "hlsl": txt}
                   for p, val, hs, txt in rows] + [{"problem": k, "why": w} for k, w in problems], f)
    return [gen.write("Gen/HlslOpTable.v", "\n".join(lines) + "\n")]
