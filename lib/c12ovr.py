"""C12: programs with `override` declarations, pipeline-constant value maps and operation histories for the
pipeline-constant monitors of checks/c12.py (harness/cmd/histdrive pconst).

An operation is what histdrive pconst understands:
  {"t": backend, "via": ""}                       plain back end (no constants)
  {"t": "msl"|"glsl", "via": "opt", "pc": MAP}    Compile with Options.PipelineConstants = MAP
  {"via": "po", "pc": MAP, "then": [backends]}    ir.CloneModuleForOverrides + ir.ProcessOverrides(MAP), then the
                                                  back ends on the processed clone
MAP values are JSON numbers or the strings "nan" / "inf" / "-inf"."""
import re

BACKENDS = ["spv", "hlsl", "msl", "glsl", "dxil"]

OVR_RE = re.compile(r"(?:@id\(\s*(\d+)\s*\)\s*)?\boverride\s+([A-Za-z_]\w*)\s*(?::\s*([A-Za-z_]\w*))?\s*(=[^;]*)?;")


def strip_comments(src):
    src = re.sub(r"/\*.*?\*/", " ", src, flags=re.S)
    return re.sub(r"//[^\n]*", "", src)


def overrides_of(src):
    """[{name, id (str|None), ty (str|None), default (bool)}] in declaration order."""
    out = []
    for m in OVR_RE.finditer(strip_comments(src)):
        out.append({"id": m.group(1), "name": m.group(2), "ty": m.group(3), "default": m.group(4) is not None})
    return out


# two value sets that differ from each other and from every default used below / in the corpus
VALUES = {
    "bool": (1, 0), "i32": (-3, 5), "u32": (2, 6), "f32": (7, 1.25), "f16": (3, 0.5), None: (3, 4),
}


def value(ov, which):
    return VALUES.get(ov["ty"], VALUES[None])[which]


def key_of(ov, by_id):
    return ov["id"] if (by_id and ov["id"] is not None) else ov["name"]


def value_maps(ovs):
    """[(tag, map)]: by name, by id, partial (two kinds), empty, unmatched key, NaN."""
    req = [o for o in ovs if not o["default"]]
    opt = [o for o in ovs if o["default"]]
    maps = [
        ("by-name", {key_of(o, False): value(o, 0) for o in ovs}),
        ("by-id", {key_of(o, True): value(o, 1) for o in ovs}),
        ("partial-required", {key_of(o, True): value(o, 0) for o in (req or ovs[:1])}),
        ("partial-defaulted", {key_of(o, False): value(o, 1) for o in (opt or ovs[-1:])}),
        ("empty", {}),
        ("unmatched", {"__no_such_override__": 1}),
        ("nan", {key_of(o, False): "nan" for o in ovs}),
    ]
    seen, out = set(), []
    for tag, m in maps:
        k = repr(sorted(m.items()))
        if k in seen and tag not in ("empty",):
            continue
        seen.add(k)
        out.append((tag, m))
    return out


def op_plain(t):
    return {"t": t, "via": ""}


def op_opt(t, pc):
    return {"t": t, "via": "opt", "pc": pc}


def op_po(pc, then):
    return {"t": "", "via": "po", "pc": pc, "then": list(then)}


def op_text(op):
    if op["via"] == "opt":
        return "%s.Compile(PipelineConstants=%s)" % (op["t"], op["pc"])
    if op["via"] == "po":
        return "ProcessOverrides(Clone(m), %s) then %s" % (op["pc"], "+".join(op["then"]) or "-")
    return op["t"]


def op_label(op):
    return op["t"] + "+pc" if op["via"] == "opt" else ("po" if op["via"] == "po" else op["t"])


def systematic_history(ovs):
    """Every pipeline-constant operation with every value map, each followed by plain back ends (so that a value that
    leaks from one operation into the module / a later operation is seen by the very next steps), and each
    constant-taking operation a second time with other values."""
    maps = value_maps(ovs)
    a = maps[0][1]
    b = maps[1][1]
    ops = []
    for tag, m in maps:
        ops += [op_opt("msl", m), op_plain("msl"), op_opt("glsl", m), op_plain("glsl")]
    ops += [op_opt("msl", b), op_opt("msl", a), op_opt("glsl", b), op_opt("glsl", a)]
    for i, (tag, m) in enumerate(maps):
        then = BACKENDS if i < 2 else BACKENDS[i % 5:] + BACKENDS[:i % 5][:2]
        ops += [op_po(m, then), op_plain("msl"), op_plain("spv")]
    ops += [op_opt("msl", a), op_opt("glsl", a), op_po(b, list(reversed(BACKENDS))), op_plain("hlsl"), op_plain("dxil"), op_plain("msl")]
    return ops


def random_history(ovs, rng, length):
    maps = value_maps(ovs)
    ops = []
    for _ in range(length):
        r = rng.below(10)
        m = maps[rng.below(len(maps))][1]
        if r < 3:
            ops.append(op_opt("msl", m))
        elif r < 5:
            ops.append(op_opt("glsl", m))
        elif r < 7:
            k = 1 + rng.below(len(BACKENDS))
            ops.append(op_po(m, rng.shuffle(BACKENDS)[:k]))
        else:
            ops.append(op_plain((BACKENDS + ["spvd"])[rng.below(len(BACKENDS) + 1)]))
    return ops


# ------------------------------------------------------------------ generated programs

TYPES = ["bool", "i32", "u32", "f32"]
DEFAULTS = {"bool": ["true", "false"], "i32": ["-2", "11", "0"], "u32": ["3u", "1u", "9u"], "f32": ["2.0", "0.5", "-1.5"]}


def as_f32(name, ty):
    if ty == "f32":
        return name
    if ty == "bool":
        return "select(0.0, 1.0, %s)" % name
    return "f32(%s)" % name


def gen_program(rng, idx):
    """A compute (or vertex+fragment) shader whose overrides (bool/i32/u32/f32, with and without default, with and
    without @id, one derived from another) are used in: arithmetic, a global initialiser, a workgroup size, a
    workgroup array length, conditions of if / loop bounds (nested blocks), arguments and results of calls, return
    values."""
    n = 2 + rng.below(4)
    decls, ovs = [], []
    for i in range(n):
        ty = TYPES[(idx + i + rng.below(2)) % 4]
        name = "o%d_%s" % (i, ty)
        has_def = rng.chance(1, 2)
        has_id = rng.chance(1, 3)
        d = ""
        if has_id:
            d += "@id(%d) " % (10 * idx % 50 + i * 7)
        d += "override %s: %s" % (name, ty)
        if has_def:
            ds = DEFAULTS[ty]
            d += " = %s" % ds[rng.below(len(ds))]
        decls.append(d + ";")
        ovs.append((name, ty))
    fl = [o for o in ovs if o[1] == "f32"]
    us = [o for o in ovs if o[1] == "u32"]
    bs = [o for o in ovs if o[1] == "bool"]
    if fl and rng.chance(1, 2):
        decls.append("override derived = 2.0 * %s;" % fl[0][0])
        ovs.append(("derived", "f32"))
    some = ovs[rng.below(len(ovs))]
    lines = list(decls)
    use_wg = bool(us) and rng.chance(1, 2)
    use_arr = bool(us) and rng.chance(1, 2)
    if rng.chance(2, 3):
        lines.append("var<private> gp: f32 = %s * 10.0;" % (fl[0][0] if fl else as_f32(*some)))
    else:
        lines.append("var<private> gp: f32 = 1.0;")
    if use_arr:
        lines.append("var<workgroup> wbuf: array<f32, %s>;" % us[-1][0])
    lines.append("@group(0) @binding(0) var<storage, read_write> data: array<f32>;")
    total = " + ".join(as_f32(nm, ty) for nm, ty in ovs)
    cond = bs[0][0] if bs else "%s > 0.5" % as_f32(*some)
    bound = us[0][0] if us else "3u"
    helper = rng.below(3)
    if helper == 0:       # loop + if nested, early return inside a nested block
        lines.append("""fn helper(x: f32, k: u32) -> f32 {
    var acc = x;
    for (var i = 0u; i < k; i = i + 1u) {
        if (%s) { acc = acc * (%s); } else { acc = acc + %s; }
        if (acc > 1000.0) { return acc; }
    }
    return acc + %s;
}""" % (cond, total, as_f32(*some), as_f32(*ovs[0])))
    elif helper == 1:     # switch + nested block + call in nested block
        lines.append("""fn leaf(a: f32, b: f32) -> f32 { return a * b + %s; }
fn helper(x: f32, k: u32) -> f32 {
    var acc = x;
    switch (k) {
        case 0u: { acc = leaf(acc, %s); }
        case 1u, 2u: { { acc = acc - %s; } }
        default: { if (%s) { acc = leaf(%s, acc); } }
    }
    return acc;
}""" % (as_f32(*some), as_f32(*ovs[0]), total, cond, as_f32(*ovs[-1])))
    else:                 # straight-line: top-level call, top-level return of an override expression
        lines.append("""fn leaf(a: f32) -> f32 { return a + %s; }
fn helper(x: f32, k: u32) -> f32 {
    let y = leaf(x * %s);
    let z = leaf(y + f32(k));
    return z * (%s);
}""" % (as_f32(*some), as_f32(*ovs[0]), total))
    if idx % 4 == 3:
        lines.append("""@vertex fn vs(@builtin(vertex_index) i: u32) -> @builtin(position) vec4<f32> {
    return vec4<f32>(helper(f32(i), %s), gp, 0.0, 1.0);
}
@fragment fn fs(@location(0) c: vec4<f32>) -> @location(0) vec4<f32> {
    var o = c;
    if (%s) { o = o * helper(c.x, 2u); }
    return o + vec4<f32>(%s);
}""" % (bound, cond, as_f32(*some)))
    else:
        wg = "%s, 1, 1" % us[0][0] if use_wg else "1"
        body = ["    let v = helper(data[gid.x] + gp, %s);" % bound]
        if use_arr:
            body.append("    wbuf[0] = v;")
        body.append("    if (v > %s) {" % as_f32(*ovs[0]))
        body.append("        data[gid.x] = helper(v, %s + 1u)%s;" % (bound, " + wbuf[0]" if use_arr else ""))
        body.append("    } else {")
        body.append("        loop { data[gid.x] = data[gid.x] + %s; if (data[gid.x] > 8.0) { break; } }" % as_f32(*some))
        body.append("    }")
        lines.append("@compute @workgroup_size(%s)\nfn main(@builtin(global_invocation_id) gid: vec3<u32>) {\n%s\n}" % (wg, "\n".join(body)))
    return "gen/ovr%03d.wgsl" % idx, "\n".join(lines) + "\n"
