"""Small hand-written WGSL compute programs for the C01 differential validation (lib/spvcheck.py):
control flow (loops with continue / break-if, switch, early return), helper calls with pointer
arguments, struct / array / matrix / vector access, every operator x type, atomics, workgroup
and private variables.  A tag "finding:<key>" marks a single-purpose program written to expose one recorded
finding: every disagreement on it is attributed to that finding.  Conventions: entry point `main`, @workgroup_size(1); every index that
comes from input data is reduced into range (`& 3u`, `% n`) so that the programs are defined for
all inputs, except where noted.  (name, tags, source)"""

HDR_I = """@group(0) @binding(0) var<storage,read_write> o: array<i32>;
@group(0) @binding(1) var<storage> a: array<i32>;
"""
HDR_U = """@group(0) @binding(0) var<storage,read_write> o: array<u32>;
@group(0) @binding(1) var<storage> a: array<u32>;
"""
HDR_F = """@group(0) @binding(0) var<storage,read_write> o: array<f32>;
@group(0) @binding(1) var<storage> a: array<f32>;
"""

PROGRAMS = [
("loop_continue", ["loop", "continue"], HDR_I + """
@compute @workgroup_size(1) fn main() {
  var acc = 0;
  for (var k = 0; k < 4; k++) {
    if (a[k] == 2) { continue; }
    if (a[k] == 3) { acc += 100; continue; }
    acc += a[k] & 15;
    o[k] = acc;
  }
  o[3] = acc;
}"""),
("while_break", ["loop", "break"], HDR_I + """
@compute @workgroup_size(1) fn main() {
  var n = a[0] & 7;
  var s = 0;
  while (n > 0) {
    s += n;
    if (s > 9) { o[1] = n; break; }
    n -= 1;
  }
  o[0] = s; o[2] = n;
}"""),
("loop_breakif", ["loop", "continuing"], HDR_I + """
@compute @workgroup_size(1) fn main() {
  var k = 0; var s = 1;
  loop {
    if ((a[k & 3] & 1) == 1) { s = s * 3; continue; }
    s = s + 2;
    continuing { k = k + 1; o[k & 3] = s; break if k >= (a[1] & 7); }
  }
  o[0] = s + k;
}"""),
("nested_loops", ["loop", "continue", "break"], HDR_I + """
@compute @workgroup_size(1) fn main() {
  var t = 0;
  for (var x = 0; x < 4; x++) {
    for (var y = 0; y < 4; y++) {
      if (y == (a[0] & 3)) { continue; }
      if (x == (a[1] & 3)) { break; }
      t += x * 4 + y;
    }
    o[x] = t;
  }
}"""),
("switch_basic", ["switch"], HDR_I + """
@compute @workgroup_size(1) fn main() {
  for (var k = 0; k < 4; k++) {
    switch (a[k]) {
      case 0: { o[k] = 10; }
      case 1, 2: { o[k] = 20; }
      default: { o[k] = 30; }
      case 3: { o[k] = 40; }
      case -1: { o[k] = 50; }
    }
  }
}"""),
("switch_in_loop", ["switch", "loop", "continue"], HDR_U + """
@compute @workgroup_size(1) fn main() {
  var s = 0u;
  for (var k = 0u; k < 4u; k++) {
    switch (a[k] & 3u) {
      case 0u: { continue; }
      case 1u: { s += 1u; break; }
      case 2u: { s += 10u; if (a[0] > 5u) { break; } s += 100u; }
      default: { s += 1000u; }
    }
    o[k] = s;
  }
  o[0] = s;
}"""),
("helper_ptr", ["call", "ptr"], HDR_I + """
fn bump(p: ptr<function, i32>, d: i32) -> i32 { let old = *p; *p = *p + d; return old; }
fn twice(p: ptr<function, i32>) { let x = bump(p, 1); let y = bump(p, x); *p = *p + y; }
@compute @workgroup_size(1) fn main() {
  var v = a[0];
  o[0] = bump(&v, a[1]);
  o[1] = v;
  twice(&v);
  o[2] = v;
}"""),
("helper_ptr_struct", ["call", "ptr", "struct"], """struct P { x: i32, y: vec2<i32>, z: array<i32, 3> }
@group(0) @binding(0) var<storage,read_write> o: array<i32>;
@group(0) @binding(1) var<storage> a: array<i32>;
fn upd(p: ptr<function, P>, k: i32) { (*p).x += k; (*p).y.y = (*p).x * 2; (*p).z[k & 1] = 7; }
fn sum(p: P) -> i32 { return p.x + p.y.x + p.y.y + p.z[0] + p.z[1] + p.z[2]; }
@compute @workgroup_size(1) fn main() {
  var p: P;
  p.x = a[0]; p.y = vec2<i32>(a[1], a[2]); p.z = array<i32, 3>(1, 2, 3);
  upd(&p, a[3]);
  o[0] = sum(p); o[1] = p.y.y; o[2] = p.z[0]; o[3] = p.z[1];
}"""),
("helper_returns", ["call", "return"], HDR_I + """
fn pick(x: i32) -> i32 {
  if (x < 0) { return -1; }
  for (var k = 0; k < 8; k++) { if (k * k >= x) { return k; } }
  return 99;
}
fn mk(x: i32) -> vec3<i32> { return vec3<i32>(x, x + 1, pick(x)); }
@compute @workgroup_size(1) fn main() {
  let v = mk(a[0] & 63);
  o[0] = v.x; o[1] = v.y; o[2] = v.z; o[3] = pick(a[1]);
}"""),
("early_return_store", ["return", "if"], HDR_I + """
@compute @workgroup_size(1) fn main() {
  o[0] = 1;
  if (a[0] > 0) {
    o[1] = 2;
    if (a[1] > 0) { o[2] = 3; return; }
    o[2] = 4;
  } else {
    o[1] = 5;
  }
  o[3] = 6;
}"""),
("struct_array_access", ["struct", "array", "dynamic"], """struct In { k: u32, v: vec4<f32>, t: array<vec2<i32>, 3> }
struct Out { s: i32, w: array<f32, 4>, q: vec2<i32> }
@group(0) @binding(0) var<storage,read_write> o: array<Out>;
@group(0) @binding(1) var<storage> a: array<In>;
@compute @workgroup_size(1) fn main() {
  let n = min(arrayLength(&a), arrayLength(&o));
  for (var k = 0u; k < n; k++) {
    let e = a[k];
    o[k].s = e.t[e.k % 3u].x + e.t[2].y;
    o[k].w[e.k & 3u] = e.v[e.k & 3u] + e.v.w;
    o[k].q = a[k].t[(e.k + 1u) % 3u];
  }
}"""),
("matrix_ops", ["matrix"], """struct M { m: mat3x3<f32>, n: mat2x4<f32>, v: vec3<f32>, w: vec4<f32>, k: u32 }
@group(0) @binding(0) var<storage,read_write> o: array<vec4<f32>>;
@group(0) @binding(1) var<storage> a: M;
@compute @workgroup_size(1) fn main() {
  let j = a.k % 3u;
  o[0] = vec4<f32>(a.m[j], a.m[2][j]);
  var t = a.m;
  t[1] = a.v;
  t[j][2] = 5.0;
  o[1] = vec4<f32>(t[1].zyx, t[j].z);
  o[2] = vec4<f32>(a.n[0].wz, a.n[1].x, a.m[j].y);
  o[3] = vec4<f32>(a.n[1]);
}"""),
("matrix_mul_exact", ["matrix", "mul"], """struct M { m: mat2x2<f32>, n: mat2x2<f32>, v: vec2<f32> }
@group(0) @binding(0) var<storage,read_write> o: array<vec2<f32>>;
@group(0) @binding(1) var<storage> a: M;
@compute @workgroup_size(1) fn main() {
  o[0] = a.m * a.v;
  o[1] = a.v * a.m;
  let p = a.m * a.n;
  o[2] = p[0]; o[3] = p[1];
  let q = a.m * 2.0f; o[4] = q[1];
  let r = 0.5f * a.n; o[5] = r[0];
  let s = a.m + a.n; o[6] = s[1];
  let d = a.m - a.n; o[7] = d[0];
}"""),
("vector_swizzle", ["vector", "dynamic"], """@group(0) @binding(0) var<storage,read_write> o: array<vec4<i32>>;
@group(0) @binding(1) var<storage> a: array<vec4<i32>>;
@compute @workgroup_size(1) fn main() {
  var v = a[0];
  let k = u32(a[1].x) & 3u;
  v.y = v.x + v.w;
  v[k] = 9;
  o[0] = v.wzyx;
  o[1] = vec4<i32>(v.xy, a[1].zw);
  o[2] = vec4<i32>(a[1][k], v.zz, a[0][(k + 1u) & 3u]);
  let w = a[1].xyz * 2 + vec3<i32>(1, 2, 3);
  o[3] = vec4<i32>(w, -w.y);
}"""),
("local_array_dynamic", ["array", "dynamic", "local"], HDR_I + """
@compute @workgroup_size(1) fn main() {
  var t: array<i32, 4>;
  for (var k = 0; k < 4; k++) { t[k] = a[k] + k; }
  t[a[0] & 3] = -5;
  let c = array<i32, 4>(10, 20, 30, 40);
  o[0] = t[a[1] & 3]; o[1] = c[a[2] & 3]; o[2] = t[3] + c[0];
  var u = t; u[1] = 77; o[3] = u[a[3] & 3] + t[1];
}"""),
("int_ops_i32", ["binary", "i32"], HDR_I + """
@compute @workgroup_size(1) fn main() {
  let x = a[0]; let y = a[1];
  o[0] = x + y; o[1] = x - y; o[2] = x * y; o[3] = x / y; o[4] = x % y;
  o[5] = x & y; o[6] = x | y; o[7] = x ^ y; o[8] = ~x; o[9] = -x;
  o[10] = select(0, 1, x < y); o[11] = select(0, 1, x <= y); o[12] = select(0, 1, x > y);
  o[13] = select(0, 1, x >= y); o[14] = select(0, 1, x == y); o[15] = select(0, 1, x != y);
  o[16] = x << (u32(y) & 31u); o[17] = x >> (u32(y) & 31u);
  o[18] = abs(x); o[19] = min(x, y); o[20] = max(x, y); o[21] = sign(x);
  o[22] = clamp(x, min(y, a[2]), max(y, a[2]));
}"""),
("int_ops_u32", ["binary", "u32"], HDR_U + """
@compute @workgroup_size(1) fn main() {
  let x = a[0]; let y = a[1];
  o[0] = x + y; o[1] = x - y; o[2] = x * y; o[3] = x / y; o[4] = x % y;
  o[5] = x & y; o[6] = x | y; o[7] = x ^ y; o[8] = ~x;
  o[10] = select(0u, 1u, x < y); o[11] = select(0u, 1u, x <= y); o[12] = select(0u, 1u, x > y);
  o[13] = select(0u, 1u, x >= y); o[14] = select(0u, 1u, x == y); o[15] = select(0u, 1u, x != y);
  o[16] = x << (y & 31u); o[17] = x >> (y & 31u);
  o[19] = min(x, y); o[20] = max(x, y);
  o[22] = clamp(x, min(y, a[2]), max(y, a[2]));
}"""),
("float_ops", ["binary", "f32"], HDR_F + """
@compute @workgroup_size(1) fn main() {
  let x = a[0]; let y = a[1];
  o[0] = x + y; o[1] = x - y; o[2] = x * y; o[3] = x / y; o[4] = -x;
  o[5] = select(0.0, 1.0, x < y); o[6] = select(0.0, 1.0, x <= y); o[7] = select(0.0, 1.0, x > y);
  o[8] = select(0.0, 1.0, x >= y); o[9] = select(0.0, 1.0, x == y);
  o[10] = abs(x); o[11] = floor(x); o[12] = ceil(x); o[13] = trunc(x); o[14] = sqrt(abs(x));
  o[15] = fma(x, y, a[2]);
}"""),
("float_minmax", ["math", "f32"], HDR_F + """
@compute @workgroup_size(1) fn main() {
  let x = a[0]; let y = a[1];
  o[0] = min(x, y); o[1] = max(x, y); o[2] = clamp(x, min(y, a[2]), max(y, a[2]));
  o[3] = saturate(x); o[4] = sign(x); o[5] = select(0.0, 1.0, x != y);
}"""),
("float_round", ["math", "f32", "round", "finding:spv-round-not-roundeven"], HDR_F + """
@compute @workgroup_size(1) fn main() { o[0] = round(a[0]); o[1] = round(a[1]); }"""),
("bool_ops", ["bool"], HDR_U + """
@compute @workgroup_size(1) fn main() {
  let p = a[0] > 2u; let q = (a[1] & 1u) == 1u;
  o[0] = select(0u, 1u, p && q); o[1] = select(0u, 1u, p || q); o[2] = select(0u, 1u, !p);
  o[3] = select(0u, 1u, p == q); o[4] = select(0u, 1u, p != q); o[5] = select(0u, 1u, p & q); o[6] = select(0u, 1u, p | q);
  o[7] = select(a[2], a[3], q); o[8] = u32(p); o[9] = select(0u, 1u, bool(a[2]));
  let bv = vec3<bool>(p, q, a[2] == 0u);
  o[10] = select(0u, 1u, all(bv)); o[11] = select(0u, 1u, any(bv));
  let sv = select(vec3<u32>(1u, 2u, 3u), vec3<u32>(4u, 5u, 6u), bv);
  o[12] = sv.x; o[13] = sv.y; o[14] = sv.z;
  let sw = select(vec2<u32>(7u, 8u), vec2<u32>(a[0], a[1]), p);
  o[15] = sw.x + sw.y;
}"""),
("short_circuit", ["bool", "shortcircuit"], HDR_I + """
@compute @workgroup_size(1) fn main() {
  var n = 0;
  if (a[0] != 0 && 100 / a[0] > 3) { n += 1; }
  if (a[1] == 0 || a[2] / a[1] == 1) { n += 10; }
  o[0] = n;
}"""),
("conversions", ["as"], """struct I { i: i32, u: u32, f: f32, g: f32 }
struct O { a: u32, b: i32, c: f32, d: f32, e: u32, f: i32, g: f32, h: u32, i: i32, j: i32, k: f32, l: f32 }
@group(0) @binding(0) var<storage,read_write> o: O;
@group(0) @binding(1) var<storage> a: I;
@compute @workgroup_size(1) fn main() {
  o.a = u32(a.i); o.b = i32(a.u); o.c = f32(a.i); o.d = f32(a.u);
  o.e = bitcast<u32>(a.f); o.f = bitcast<i32>(a.f); o.g = bitcast<f32>(a.u);
  o.h = u32(a.i != 0); o.i = i32(a.f > 0.0); o.j = select(0, 1, bool(a.f));
  o.k = f32(a.u > 7u); o.l = bitcast<f32>(a.i);
}"""),
("f2i_in_range", ["as", "f32"], """@group(0) @binding(0) var<storage,read_write> o: array<i32>;
@group(0) @binding(1) var<storage> a: array<f32>;
@compute @workgroup_size(1) fn main() {
  let x = clamp(a[0], -1000000.0, 1000000.0);
  if (x == x) { o[0] = i32(x); o[1] = i32(u32(abs(x))); }
}"""),
("f2i_raw", ["as", "f32", "f2i", "finding:spv-f2i-unclamped:i32"], """@group(0) @binding(0) var<storage,read_write> o: array<i32>;
@group(0) @binding(1) var<storage> a: array<f32>;
@compute @workgroup_size(1) fn main() { o[0] = i32(a[0]); }"""),
("f2u_raw", ["as", "f32", "f2u", "finding:spv-f2i-unclamped:u32"], """@group(0) @binding(0) var<storage,read_write> o: array<u32>;
@group(0) @binding(1) var<storage> a: array<f32>;
@compute @workgroup_size(1) fn main() { o[0] = u32(a[0]); }"""),
("bit_builtins", ["math", "bits"], HDR_U + """
@compute @workgroup_size(1) fn main() {
  let x = a[0];
  o[0] = countOneBits(x); o[1] = reverseBits(x);
  o[2] = firstTrailingBit(x); o[3] = firstLeadingBit(x);
  o[4] = u32(firstLeadingBit(i32(x))); o[5] = u32(countOneBits(i32(x)));
  o[6] = extractBits(x, a[1] & 15u, a[2] & 15u); o[7] = u32(extractBits(i32(x), a[1] & 15u, a[2] & 15u));
  o[8] = insertBits(x, a[3], a[1] & 15u, a[2] & 15u);
}"""),
("clz_ctz", ["math", "bits", "clz", "finding:spv-clz-is-msb-index:u32"], HDR_U + """
@compute @workgroup_size(1) fn main() {
  o[0] = countLeadingZeros(a[0]); o[1] = countTrailingZeros(a[0]);
  o[2] = u32(countLeadingZeros(i32(a[0]))); o[3] = u32(countTrailingZeros(i32(a[0])));
}"""),
("bits_unclamped", ["math", "bits", "extract", "finding:spv-bitfield-unclamped:extractBits:u32"], HDR_U + """
@compute @workgroup_size(1) fn main() {
  o[0] = extractBits(a[0], a[1], a[2]); o[1] = insertBits(a[0], a[3], a[1], a[2]);
}"""),
("vec_int_ops", ["vector", "i32"], """@group(0) @binding(0) var<storage,read_write> o: array<vec3<i32>>;
@group(0) @binding(1) var<storage> a: array<vec3<i32>>;
@compute @workgroup_size(1) fn main() {
  let x = a[0]; let y = a[1];
  o[0] = x + y; o[1] = x - y; o[2] = x * y; o[3] = x / y; o[4] = x % y;
  o[5] = x & y; o[6] = (x | y) ^ vec3<i32>(1); o[7] = -x + ~y;
  o[8] = select(x, y, x < y); o[9] = select(x, y, x >= y);
  o[10] = x * 3 + 2 * y; o[11] = x / 2 + 7 % y;
  o[12] = vec3<i32>(dot(x, y), abs(x.x), min(x.y, y.z));
  o[13] = max(x, y) - min(x, y); o[14] = abs(x) + sign(y);
  o[15] = x << (vec3<u32>(y) & vec3<u32>(31u)); o[16] = x >> (vec3<u32>(y) & vec3<u32>(31u));
}"""),
("vec_uint_ops", ["vector", "u32"], """@group(0) @binding(0) var<storage,read_write> o: array<vec2<u32>>;
@group(0) @binding(1) var<storage> a: array<vec2<u32>>;
@compute @workgroup_size(1) fn main() {
  let x = a[0]; let y = a[1];
  o[0] = x + y; o[1] = x - y; o[2] = x * y; o[3] = x / y; o[4] = x % y;
  o[5] = select(x, y, x < y); o[6] = select(x, y, x == y);
  o[7] = vec2<u32>(dot(x, y), countOneBits(x.x));
  o[8] = x >> (y & vec2<u32>(31u)); o[9] = clamp(x, min(y, a[2]), max(y, a[2]));
}"""),
("vec_float_ops", ["vector", "f32"], """@group(0) @binding(0) var<storage,read_write> o: array<vec4<f32>>;
@group(0) @binding(1) var<storage> a: array<vec4<f32>>;
@compute @workgroup_size(1) fn main() {
  let x = a[0]; let y = a[1];
  o[0] = x + y; o[1] = x - y; o[2] = x * y; o[3] = x / y;
  o[4] = x * 2.0; o[5] = 0.5 * y; o[6] = x + 1.0; o[7] = 1.0 - y; o[8] = x / 4.0;
  o[9] = select(x, y, x < y); o[10] = floor(x) + ceil(y); o[11] = abs(x) - trunc(y);
  o[12] = vec4<f32>(dot(x.xy, y.xy), x.z, y.w, 0.0);
  o[13] = fma(x, y, a[2]); o[14] = -x;
}"""),
("shifts_masked", ["shift"], HDR_U + """
@compute @workgroup_size(1) fn main() {
  o[0] = a[0] << (a[1] % 32u); o[1] = a[0] >> (a[1] % 32u);
  o[2] = u32(i32(a[0]) >> (a[1] % 32u)); o[3] = u32(i32(a[0]) << (a[1] % 32u));
  o[4] = a[0] << 31u; o[5] = a[0] >> 1u;
}"""),
("shifts_raw", ["shift", "shift_raw", "finding:spv-shift-unmasked:u32:<<"], HDR_U + """
@compute @workgroup_size(1) fn main() { o[0] = a[0] << a[1]; o[1] = a[0] >> a[1]; o[2] = u32(i32(a[0]) >> a[1]); }"""),
("atomics_storage", ["atomic"], """struct A { c: atomic<u32>, d: atomic<i32>, r: array<u32, 8> }
@group(0) @binding(0) var<storage,read_write> o: A;
@group(0) @binding(1) var<storage> a: array<u32>;
@compute @workgroup_size(1) fn main() {
  o.r[0] = atomicAdd(&o.c, a[0]); o.r[1] = atomicMax(&o.c, a[1]); o.r[2] = atomicExchange(&o.c, a[2]);
  o.r[3] = atomicLoad(&o.c);
  o.r[4] = u32(atomicMin(&o.d, i32(a[0]))); o.r[5] = u32(atomicSub(&o.d, 5)); o.r[6] = u32(atomicAnd(&o.d, i32(a[1])));
  o.r[7] = u32(atomicOr(&o.d, 1)) + u32(atomicXor(&o.d, i32(a[2])));
}"""),
("workgroup_barrier", ["workgroup", "barrier", "atomic"], HDR_U + """
var<workgroup> w: array<u32, 4>;
var<workgroup> cnt: atomic<u32>;
@compute @workgroup_size(1) fn main(@builtin(local_invocation_id) lid: vec3<u32>) {
  w[lid.x] = a[0];
  atomicAdd(&cnt, a[1]);
  workgroupBarrier();
  o[0] = w[0] + w[1] + w[3]; o[1] = atomicLoad(&cnt); storageBarrier();
  o[2] = lid.x + lid.y;
}"""),
("private_stored", ["private"], HDR_I + """
var<private> p: i32;
var<private> q: vec2<i32>;
fn inc() { p = p + 1; q.y = q.y + p; }
@compute @workgroup_size(1) fn main() {
  p = a[0]; q = vec2<i32>(1, 2);
  inc(); inc();
  o[0] = p; o[1] = q.x; o[2] = q.y;
}"""),
("private_init", ["private", "private_init", "finding:spv-private-init-dropped"], HDR_I + """
var<private> p: i32 = 3;
@compute @workgroup_size(1) fn main() { o[0] = p + a[0]; }"""),
("module_const_composite", ["const", "finding:spv-module-composite-constant-null"], HDR_I + """
const K = vec4<i32>(7, 65535, -1, 32);
const A = array<i32, 2>(5, 6);
@compute @workgroup_size(1) fn main() { let v = K; o[0] = v.y + a[0]; o[1] = K[u32(a[1]) % 4u]; o[2] = A[u32(a[1]) % 2u]; }"""),
("switch_all_break", ["switch", "finding:spv-switch-all-break-merge-unreachable"], HDR_U + """
@compute @workgroup_size(1) fn main() {
  switch a[0] { case 0u: { o[0] = 1u; break; } default: { o[0] = 2u; break; } }
  o[1] = 5u;
}"""),
("private_zero", ["private", "private_zero", "finding:spv-private-not-zeroed"], HDR_I + """
var<private> p: i32;
@compute @workgroup_size(1) fn main() { o[0] = p + a[0]; }"""),
("array_length", ["arraylength", "struct"], """struct B { n: u32, data: array<vec2<u32>> }
@group(0) @binding(0) var<storage,read_write> o: B;
@group(0) @binding(1) var<storage> a: array<u32>;
@compute @workgroup_size(1) fn main() {
  o.n = arrayLength(&o.data) * 10u + arrayLength(&a);
  for (var k = 0u; k < arrayLength(&o.data); k++) { o.data[k] = vec2<u32>(k, a[k % arrayLength(&a)]); }
}"""),
("compound_assign", ["compound"], HDR_I + """
@compute @workgroup_size(1) fn main() {
  var x = a[0];
  x += a[1]; o[0] = x; x -= 3; o[1] = x; x *= a[2]; o[2] = x; x /= a[3]; o[3] = x; x %= 7; o[4] = x;
  x &= 0xff; o[5] = x; x |= 0x100; o[6] = x; x ^= a[0]; o[7] = x; x <<= 2u; o[8] = x; x >>= 1u; o[9] = x;
  x++; o[10] = x; x--; x--; o[11] = x;
  o[a[1] & 3] += 1000;
  var v = vec2<i32>(a[0], a[1]); v.x += 1; v *= 2; o[12] = v.x + v.y;
}"""),
("builtins_ids", ["builtin"], HDR_U + """
@compute @workgroup_size(1) fn main(@builtin(global_invocation_id) gid: vec3<u32>, @builtin(workgroup_id) wid: vec3<u32>,
        @builtin(num_workgroups) nwg: vec3<u32>, @builtin(local_invocation_index) li: u32) {
  o[0] = gid.x + 10u * gid.y + 100u * gid.z; o[1] = wid.x + wid.z; o[2] = nwg.x * nwg.y * nwg.z; o[3] = li + a[gid.x & 3u];
}"""),
("uniform_struct", ["uniform", "struct"], """struct U { s: f32, v: vec3<f32>, m: mat4x4<f32>, arr: array<vec4<i32>, 3>, k: u32 }
@group(0) @binding(0) var<storage,read_write> o: array<vec4<f32>>;
@group(0) @binding(1) var<uniform> u: U;
@compute @workgroup_size(1) fn main() {
  o[0] = u.m[u.k & 3u] + vec4<f32>(u.v, u.s);
  o[1] = vec4<f32>(u.arr[u.k % 3u]);
  o[2] = u.m * vec4<f32>(1.0, 0.0, 0.0, 0.0);
}"""),
("uniform_mat2", ["uniform", "matrix", "std140"], """struct U { m: mat2x2<f32>, n: mat3x2<f32>, a: array<mat2x2<f32>, 2> }
@group(0) @binding(0) var<storage,read_write> o: array<vec2<f32>>;
@group(0) @binding(1) var<uniform> u: U;
@compute @workgroup_size(1) fn main() {
  o[0] = u.m[1]; o[1] = u.n[2]; o[2] = u.a[1][0]; let t = u.m; o[3] = t[0];
}"""),
("if_else_phi", ["if"], HDR_I + """
@compute @workgroup_size(1) fn main() {
  var x: i32; var y = 5;
  if (a[0] > a[1]) { x = 1; if (a[2] > 0) { y = 6; } } else if (a[0] == a[1]) { x = 2; } else { x = 3; y = a[3]; }
  o[0] = x; o[1] = y;
  let z = select(x, y, a[2] > a[3]); o[2] = z;
}"""),
("loop_var_decl", ["loop", "loop_var_decl", "finding:spv-local-var-not-zeroed"], HDR_I + """
@compute @workgroup_size(1) fn main() {
  for (var k = 0; k < 4; k++) { var x: i32; x += 1; o[k] = x; }
}"""),
("loop_call_cond", ["loop", "call"], HDR_I + """
fn lim(x: i32) -> i32 { return (x & 3) + 1; }
fn body(k: i32, s: ptr<function, i32>) -> bool { *s = *s + k; return *s > 4; }
@compute @workgroup_size(1) fn main() {
  var s = 0; var k = 0;
  while (k < lim(a[0])) { if (body(k, &s)) { break; } k++; }
  o[0] = s; o[1] = k;
}"""),
("int_edge", ["i32", "edge"], HDR_I + """
@compute @workgroup_size(1) fn main() {
  let m = a[0];
  o[0] = -m; o[1] = abs(m); o[2] = m / -1; o[3] = m % -1; o[4] = m / 0; o[5] = m % 0; o[6] = m * -1; o[7] = m - 1;
  o[8] = a[1] / a[2]; o[9] = a[1] % a[2];
}"""),
("deep_pointer_chain", ["ptr", "struct", "array"], """struct In { g: array<array<vec3<i32>, 2>, 3> }
struct S { h: array<In, 2>, t: i32 }
@group(0) @binding(0) var<storage,read_write> o: S;
@group(0) @binding(1) var<storage> a: array<u32>;
fn f(p: ptr<function, array<i32, 4>>, k: u32) -> i32 { (*p)[k] = (*p)[k] * 2; return (*p)[(k + 1u) & 3u]; }
@compute @workgroup_size(1) fn main() {
  let i = a[0] & 1u; let j = a[1] % 3u; let k = a[2] & 1u; let c = a[3] % 3u;
  o.h[i].g[j][k][c] = 42;
  o.h[1u - i].g[j][k] = vec3<i32>(1, 2, 3);
  var loc = array<i32, 4>(5, 6, 7, 8);
  o.t = f(&loc, a[0] & 3u) + loc[a[0] & 3u] + o.h[i].g[j][k][c];
}"""),
("spill_dominance", ["spill", "dynamic", "finding:spv-spill-store-not-dominating"], HDR_I + """
@compute @workgroup_size(1) fn main() {
  let t = array<i32, 4>(a[0], a[1], a[2], a[3]);
  if (a[0] > 0) { o[0] = t[a[1] & 3]; }
  o[1] = t[a[2] & 3];
}"""),
("let_ptr", ["ptr", "let"], HDR_I + """
@compute @workgroup_size(1) fn main() {
  var t = array<i32, 4>(1, 2, 3, 4);
  let p = &t[a[0] & 3];
  *p = *p + 10;
  let q = &o[1];
  *q = t[0] + t[1] + t[2] + t[3];
  o[0] = *p;
}"""),
# several entry points in one module sharing helpers: what an entry point uses (zero-initialised workgroup variables,
# interface lists) is computed per entry point; a LATER entry point reaches the workgroup variable only through a helper
# that an EARLIER one already walked (every entry point is run, see checks/c01.py)
("multi_ep_diamond_workgroup", ["multi-ep", "workgroup", "call"], HDR_U + """
var<workgroup> wg: array<u32, 4>;
var<workgroup> wt: u32;
fn leaf(k: u32) -> u32 { wg[k & 3u] += 1u; wt += 2u; return wg[k & 3u] + wt; }
fn side_a(k: u32) -> u32 { return leaf(k) + 1u; }
fn side_b(k: u32) -> u32 { return leaf(k + 1u) * 2u; }
@compute @workgroup_size(1) fn pass_a() { o[0] = side_a(a[0]); o[1] = side_b(a[1]); }
@compute @workgroup_size(1) fn pass_b() { o[2] = side_b(a[2]); }
@compute @workgroup_size(1) fn pass_c() { o[3] = side_a(a[3]) + wt; }
"""),
("multi_ep_chain_workgroup", ["multi-ep", "workgroup", "call"], HDR_U + """
var<workgroup> wg: u32;
var<workgroup> pv: vec2<u32>;
fn leaf(k: u32) -> u32 { wg += k; pv.y += 1u; return wg + pv.y + pv.x; }
fn mid(k: u32) -> u32 { return leaf(k) + 1u; }
fn top_a(k: u32) -> u32 { return mid(k) + leaf(k); }
fn top_b(k: u32) -> u32 { var s = 0u; for (var i = 0u; i < 2u; i = i + mid(k) - mid(k) + 1u) { s += 1u; } return s + mid(k); }
@compute @workgroup_size(1) fn pass_a() { o[0] = top_a(a[0] & 7u); }
@compute @workgroup_size(1) fn pass_b() { o[1] = top_b(a[1] & 7u); }
@compute @workgroup_size(1) fn pass_c() { o[2] = mid(a[2] & 7u); }
"""),
]
