"""C05 validation programs: small WGSL compute shaders exercising the statement and memory forms of the GLSL
backend.  Each entry: (name, source, modes) where modes lists the input modes it tolerates without reaching
GLSL-undefined behaviour: "small" (ints in [-9,12], floats k/4), "boundary" (0, +-1, INT_MIN, INT_MAX, UINT_MAX,
31, subnormals, NaN, inf, random).  Runtime arrays have 8 elements; every index is reduced modulo a constant."""

HDR = """
@group(0) @binding(0) var<storage, read_write> oi: array<i32>;
@group(0) @binding(1) var<storage, read_write> ou: array<u32>;
@group(0) @binding(2) var<storage, read_write> of_: array<f32>;
@group(0) @binding(3) var<storage, read> ii: array<i32>;
@group(0) @binding(4) var<storage, read> iu: array<u32>;
@group(0) @binding(5) var<storage, read> if_: array<f32>;
"""

P = []


def prog(name, body, modes=("small",), hdr=HDR):
    P.append((name, hdr + body, tuple(modes)))


prog("loop_continue_continuing", """
@compute @workgroup_size(1)
fn main() {
  var acc = 0;
  for (var i = 0; i < 8; i++) {
    if (ii[i] < 0) { continue; }
    if (i == 6) { break; }
    acc += ii[i] * i;
  }
  oi[0] = acc;
  var k = 0u;
  var t = 0u;
  loop {
    if (k >= 5u) { break; }
    if ((k & 1u) == 1u) { k += 1u; continue; }
    t += iu[k];
    k += 1u;
    continuing { ou[0] += 1u; }
  }
  ou[1] = t;
}
""", ("small", "boundary"))

prog("loop_break_if", """
@compute @workgroup_size(1)
fn main() {
  var n = 0u;
  var s = 0;
  loop {
    s += ii[n % 8u];
    if (s > 1000) { break; }
    continuing {
      n += 1u;
      oi[n % 8u] = s;
      break if n >= 6u;
    }
  }
  oi[7] = s;
  ou[0] = n;
}
""", ("small", "boundary"))

prog("nested_loops", """
@compute @workgroup_size(1)
fn main() {
  var total = 0u;
  for (var i = 0u; i < 4u; i++) {
    var j = 0u;
    while (j < 4u) {
      j++;
      if (((i + j) & 1u) == 0u) { continue; }
      if (iu[(i * 2u + j) % 8u] == 3u) { break; }
      total += i * 10u + j;
    }
    ou[i] = total;
  }
  ou[4] = total;
}
""", ("small", "boundary"))

prog("switch_in_loop_continue", """
@compute @workgroup_size(1)
fn main() {
  var acc = 0;
  for (var i = 0; i < 8; i++) {
    switch ii[i] & 3 {
      case 0: { continue; }
      case 1: { acc += 1; }
      case 2, 3: { acc += 10; if (i == 5) { break; } acc += 100; }
      default: { acc += 1000; }
    }
    acc += 10000;
  }
  oi[0] = acc;
}
""", ("small", "boundary"))

prog("single_body_switch_continue", """
@compute @workgroup_size(1)
fn main() {
  var acc = 0u;
  for (var i = 0u; i < 8u; i++) {
    switch iu[i] {
      default: {
        if ((iu[i] & 1u) == 1u) { continue; }
        acc += 1u;
        if (i == 6u) { break; }
        acc += 16u;
      }
    }
    acc += 256u;
  }
  ou[0] = acc;
}
""", ("small", "boundary"))

prog("nested_single_body_switches", """
@compute @workgroup_size(1)
fn main() {
  var acc = 0u;
  for (var i = 0u; i < 8u; i++) {
    switch i {
      default: {
        acc += 1u;
        switch iu[i] {
          default: {
            if ((iu[i] & 1u) == 0u) { continue; }
            acc += 16u;
          }
        }
        acc += 256u;
      }
    }
    acc += 4096u;
  }
  ou[0] = acc;
}
""", ("small", "boundary"))

prog("normal_switch_inside_single_body_switch", """
@compute @workgroup_size(1)
fn main() {
  var acc = 0u;
  for (var i = 0u; i < 8u; i++) {
    switch i {
      default: {
        switch iu[i] & 3u {
          case 1u: { continue; }
          case 2u: { acc += 1u; }
          default: { acc += 16u; }
        }
        acc += 256u;
      }
    }
    acc += 4096u;
  }
  ou[0] = acc;
}
""", ("small", "boundary"))

prog("switch_selectors", """
fn classify(x: i32) -> i32 {
  switch x {
    case -1: { return 11; }
    case 0, 1: { return 22; }
    case 2, default: { return 33; }
    case 5: { return 44; }
  }
}
fn classify_u(x: u32) -> u32 {
  var r = 0u;
  switch x {
    case 0u: { r = 1u; }
    case 4294967295u: { r = 2u; }
    case 3u, 7u: { r = 3u; }
    default: { r = 4u; }
  }
  return r;
}
@compute @workgroup_size(1)
fn main() {
  for (var i = 0u; i < 8u; i++) {
    oi[i] = classify(ii[i]);
    ou[i] = classify_u(iu[i]);
  }
}
""", ("small", "boundary"))

prog("helper_pointer_args", """
fn bump(p: ptr<function, i32>, by: i32) -> i32 {
  let old = *p;
  *p = old + by;
  return old;
}
fn twice(p: ptr<function, i32>, q: ptr<function, i32>) {
  let a = bump(p, 3);
  let b = bump(q, a);
  *p = *p + b;
}
fn swap(a: ptr<function, vec2<i32>>, i: u32) {
  let t = (*a)[i];
  (*a)[i] = (*a)[1u - i];
  (*a)[1u - i] = t + 1;
}
@compute @workgroup_size(1)
fn main() {
  var x = ii[0];
  var y = ii[1];
  twice(&x, &y);
  oi[0] = x;
  oi[1] = y;
  twice(&y, &x);
  oi[2] = x;
  oi[3] = y;
  var v = vec2<i32>(ii[2], ii[3]);
  swap(&v, iu[0] & 1u);
  oi[4] = v.x;
  oi[5] = v.y;
}
""", ("small", "boundary"))

prog("pointer_to_member_args", """
struct S { a: i32, b: vec3<i32>, c: array<i32, 3> }
fn inc(p: ptr<function, i32>) { *p += 1; }
fn addv(p: ptr<function, vec3<i32>>, k: i32) { (*p).y += k; (*p).z = (*p).x; }
fn fill(p: ptr<function, array<i32, 3>>, k: i32) { for (var i = 0; i < 3; i++) { (*p)[i] = k + i; } }
@compute @workgroup_size(1)
fn main() {
  var s: S;
  s.a = ii[0];
  s.b = vec3<i32>(ii[1], ii[2], ii[3]);
  inc(&s.a);
  addv(&s.b, ii[4]);
  fill(&s.c, ii[5]);
  inc(&s.c[1]);
  oi[0] = s.a; oi[1] = s.b.x; oi[2] = s.b.y; oi[3] = s.b.z; oi[4] = s.c[0]; oi[5] = s.c[1]; oi[6] = s.c[2];
}
""", ("small", "boundary"))

prog("nested_storage_stores", """
struct Inner { v: vec3<f32>, w: f32, m: mat3x3<f32>, arr: array<vec2<i32>, 3> }
struct Outer { n: u32, inner: Inner, items: array<Inner, 2>, tail: array<vec4<u32>> }
@group(1) @binding(0) var<storage, read_write> o: Outer;
@compute @workgroup_size(1)
fn main() {
  let k = iu[0] % 3u;
  o.inner.v.y = if_[0];
  o.inner.m[k][2u - k] = if_[1];
  o.inner.m[1] = vec3<f32>(if_[2], if_[3], if_[4]);
  o.inner.arr[k].y = ii[0];
  o.items[k & 1u].arr[2].x = ii[1];
  o.items[1].v = o.inner.v * 2.0;
  o.items[0] = o.items[1];
  o.items[0].w = o.inner.m[k][1];
  o.tail[arrayLength(&o.tail) - 1u].z = o.n + arrayLength(&o.tail);
  o.tail[k] = vec4<u32>(iu[1], iu[2], iu[3], k);
  let whole = o.inner;
  o.items[1].m = whole.m;
  o.n = u32(whole.arr[1].x) + 7u;
}
""", ("small",))

prog("uniform_buffer", """
struct Light { pos: vec4<f32>, color: vec3<f32>, power: f32 }
struct Params { count: u32, scale: vec2<f32>, lights: array<Light, 2>, table: array<vec4<i32>, 3>, m: mat4x4<f32> }
@group(1) @binding(0) var<uniform> params: Params;
@group(1) @binding(1) var<uniform> single: vec4<u32>;
@compute @workgroup_size(1)
fn main() {
  let i = params.count & 1u;
  of_[0] = params.lights[i].pos.y * params.scale.x + params.lights[1u - i].power;
  of_[1] = params.lights[i].color.z;
  oi[0] = params.table[params.count % 3u][params.count & 3u];
  let col = params.m[params.count & 3u];
  of_[2] = col.x + col.w;
  let v = params.m * params.lights[0].pos;
  of_[3] = v.x; of_[4] = v.y; of_[5] = v.z; of_[6] = v.w;
  ou[0] = single.x + single[params.count & 3u];
}
""", ("small",))

prog("shared_and_private", """
var<workgroup> tile: array<u32, 8>;
var<workgroup> wsum: u32;
var<private> counter: i32 = 5;
var<private> pv: vec2<f32>;
fn tick() -> i32 { counter += 2; return counter; }
@compute @workgroup_size(4, 2, 1)
fn main(@builtin(local_invocation_index) li: u32, @builtin(global_invocation_id) gid: vec3<u32>,
        @builtin(workgroup_id) wid: vec3<u32>, @builtin(num_workgroups) nwg: vec3<u32>,
        @builtin(local_invocation_id) lid: vec3<u32>) {
  tile[li] = iu[li] + 1u;
  workgroupBarrier();
  wsum = tile[0] + tile[7 - li];
  storageBarrier();
  ou[0] = wsum;
  ou[1] = gid.x + 10u * gid.y + 100u * gid.z;
  ou[2] = wid.x + 10u * wid.y + 100u * wid.z;
  ou[3] = nwg.x + 10u * nwg.y + 100u * nwg.z;
  ou[4] = lid.x + lid.y + lid.z + li;
  oi[0] = tick();
  oi[1] = tick() + counter;
  pv.y = if_[0];
  of_[0] = pv.x + pv.y;
}
""", ("small", "boundary"))

prog("large_workgroup_array_zero_init", """
var<workgroup> big: array<u32, 300>;
var<workgroup> grid: array<array<i32, 260>, 2>;
@compute @workgroup_size(1)
fn main() {
  big[iu[0] % 300u] = 7u;
  grid[1][iu[1] % 260u] = -3;
  var s = 0u; var t = 0;
  for (var i = 0u; i < 300u; i++) { s += big[i]; }
  for (var j = 0u; j < 260u; j++) { t += grid[1][j] + grid[0][j]; }
  ou[0] = s; oi[0] = t;
}
""", ("small", "boundary"))

prog("multi_entry_points", """
var<private> ga: i32 = 1;
var<private> gb: u32 = 2u;
var<workgroup> wa: array<i32, 4>;
@group(1) @binding(0) var<storage, read_write> extra: array<i32>;
fn leaf(x: i32) -> i32 { ga += x; return ga * 2; }
fn mid(x: i32) -> i32 { return leaf(x + 1) + leaf(x); }
fn other(x: u32) -> u32 { gb = gb * x + 1u; return gb; }
fn unused_helper(x: i32) -> i32 { return x - 1; }
@compute @workgroup_size(1)
fn first() { oi[0] = mid(ii[0]); }
@compute @workgroup_size(2)
fn second(@builtin(local_invocation_index) li: u32) { ou[0] = other(iu[0]) + other(3u); wa[li] = 4; extra[0] = wa[li] + leaf(2); }
@compute @workgroup_size(1)
fn third() { of_[0] = if_[0] + 1.5; }
@compute @workgroup_size(1)
fn fourth() { oi[1] = ga + unused_helper(ii[1]); }
""", ("small", "boundary"))

prog("ops_i32", """
@compute @workgroup_size(1)
fn main() {
  let a = ii[0]; let b = ii[1];
  let nz = select(b, 3, b == 0 || b == -1);
  let sh = iu[0] & 31u;
  oi[0] = a + b; oi[1] = a - b; oi[2] = a * b;
  oi[3] = (a & 0xffff) / abs(nz);
  oi[4] = (a & 0xffff) % max(abs(nz), 1);
  oi[5] = a & b; oi[6] = a | b; oi[7] = a ^ b;
  ou[0] = u32(a << sh); ou[1] = u32(a >> sh); ou[2] = u32(~a); ou[3] = u32(-a);
  ou[4] = select(0u, 1u, a < b) | select(0u, 2u, a <= b) | select(0u, 4u, a > b) | select(0u, 8u, a >= b)
        | select(0u, 16u, a == b) | select(0u, 32u, a != b);
  ou[5] = u32(min(a, b)); ou[6] = u32(max(a, b)); ou[7] = u32(clamp(a, min(b, 5), max(b, 5)));
}
""", ("small", "boundary"))

prog("ops_i32_more", """
@compute @workgroup_size(1)
fn main() {
  let a = ii[0];
  oi[0] = abs(a); oi[1] = sign(a); oi[2] = countOneBits(a); oi[3] = reverseBits(a);
  oi[4] = firstLeadingBit(a); oi[5] = firstTrailingBit(a);
  oi[6] = extractBits(a, iu[0], iu[1]); oi[7] = insertBits(a, ii[1], iu[2], iu[3]);
}
""", ("small", "boundary"))

prog("ops_u32", """
@compute @workgroup_size(1)
fn main() {
  let a = iu[0]; let b = iu[1];
  let nz = select(b, 3u, b == 0u);
  let sh = iu[2] & 31u;
  ou[0] = a + b; ou[1] = a - b; ou[2] = a * b; ou[3] = a / nz; ou[4] = a % nz;
  ou[5] = (a & b) + (a | b) * 3u + (a ^ b) * 5u;
  ou[6] = (a << sh) ^ (a >> sh) ^ ~a;
  ou[7] = select(0u, 1u, a < b) | select(0u, 2u, a <= b) | select(0u, 4u, a > b) | select(0u, 8u, a >= b)
        | select(0u, 16u, a == b) | select(0u, 32u, a != b);
  oi[0] = i32(min(a, b)); oi[1] = i32(max(a, b)); oi[2] = i32(clamp(a, min(b, 5u), max(b, 5u)));
  oi[3] = i32(countOneBits(a)); oi[4] = i32(reverseBits(a)); oi[5] = i32(firstLeadingBit(a));
  oi[6] = i32(firstTrailingBit(a)); oi[7] = i32(extractBits(a, iu[3], iu[4]) + insertBits(a, b, iu[5], iu[6]));
}
""", ("small", "boundary"))

prog("ops_f32", """
@compute @workgroup_size(1)
fn main() {
  let a = if_[0]; let b = if_[1];
  of_[0] = a + b; of_[1] = a - b; of_[2] = a * b; of_[3] = a / 4.0; of_[4] = -a;
  of_[5] = abs(a) + floor(b) * 2.0 + ceil(b) * 4.0 + trunc(a) * 8.0;
  of_[6] = min(a, b) + max(a, b) * 2.0 + clamp(a, -1.0, 2.5);
  of_[7] = sign(a) + saturate(b) + round(a * 2.0) + sqrt(16.0 * abs(b) * abs(b)) + fma(a, 2.0, b);
  ou[0] = select(0u, 1u, a < b) | select(0u, 2u, a <= b) | select(0u, 4u, a > b) | select(0u, 8u, a >= b)
        | select(0u, 16u, a == b) | select(0u, 32u, a != b);
}
""", ("small",))

prog("float_compare_boundary", """
@compute @workgroup_size(1)
fn main() {
  for (var i = 0u; i < 7u; i++) {
    let a = if_[i]; let b = if_[i + 1u];
    ou[i] = select(0u, 1u, a < b) | select(0u, 2u, a <= b) | select(0u, 4u, a > b) | select(0u, 8u, a >= b)
          | select(0u, 16u, a == b) | select(0u, 32u, a != b);
    of_[i] = select(abs(a), -b, a < b);
    oi[i] = bitcast<i32>(max(a, 0.0)) ^ bitcast<i32>(floor(b));
  }
}
""", ("small", "boundary"))

prog("conversions", """
@compute @workgroup_size(1)
fn main() {
  let a = ii[0]; let u = iu[0]; let f = if_[0];
  ou[0] = u32(a); oi[0] = i32(u); of_[0] = f32(a); of_[1] = f32(u);
  oi[1] = i32(clamp(f, -1000.0, 1000.0)); ou[1] = u32(clamp(f, 0.0, 1000.0));
  ou[2] = select(0u, 1u, bool(a)) | select(0u, 2u, bool(u)) | select(0u, 4u, bool(f));
  oi[2] = i32(a > 0) + i32(u > 3u) * 2; ou[3] = u32(a < 0); of_[2] = f32(u == 0u);
  ou[4] = bitcast<u32>(a); oi[3] = bitcast<i32>(u); of_[3] = bitcast<f32>(a & 0x3fffffff); of_[4] = bitcast<f32>(u & 0x3fffffffu);
  oi[4] = bitcast<i32>(f); ou[5] = bitcast<u32>(f);
  let v = vec3<i32>(a, -a, 7);
  let vu = vec3<u32>(v); let vf = vec3<f32>(v); let vb = vec3<bool>(v);
  ou[6] = vu.x + vu.y + vu.z; of_[5] = vf.x + vf.y + vf.z; ou[7] = u32(vb.x) + u32(vb.y) * 2u + u32(vb.z) * 4u;
  let w = bitcast<vec2<u32>>(vec2<i32>(a, 1)); oi[5] = i32(w.x + w.y);
}
""", ("small", "boundary"))

prog("vectors_swizzles", """
@compute @workgroup_size(1)
fn main() {
  var v = vec4<i32>(ii[0], ii[1], ii[2], ii[3]);
  let w = v.wzyx + v.xxyy * 2;
  v.y = w.z;
  v[iu[0] & 3u] = 42;
  let p = v.xy; let q = vec3<i32>(p, 5).zxy;
  oi[0] = v.x; oi[1] = v.y; oi[2] = v.z; oi[3] = v.w; oi[4] = q.x + q.y * 10 + q.z * 100;
  oi[5] = w[iu[1] & 3u];
  let f = vec3<f32>(if_[0], if_[1], if_[2]);
  let g = f * 2.0 + vec3<f32>(1.0) - f.zyx / 4.0;
  of_[0] = g.x; of_[1] = g.y; of_[2] = g.z; of_[3] = dot(f, g);
  oi[6] = dot(v.xyz, vec3<i32>(1, 2, 3)); ou[0] = dot(vec2<u32>(iu[2], iu[3]), vec2<u32>(3u, 5u));
  let s = vec3<u32>(7u) << vec3<u32>(1u, 2u, 3u);
  ou[1] = s.x + s.y + s.z;
  let neg = -v; oi[7] = neg.x + neg.w;
}
""", ("small", "boundary"))

prog("vector_compare_select_scalar_cond", """
@compute @workgroup_size(1)
fn main() {
  let a = vec3<i32>(ii[0], ii[1], ii[2]); let b = vec3<i32>(ii[3], ii[4], ii[5]);
  let lt = a < b; let eq = a == b; let ge = a >= b;
  ou[0] = u32(lt.x) + u32(lt.y) * 2u + u32(lt.z) * 4u + u32(eq.x) * 8u + u32(ge.y) * 16u;
  ou[1] = u32(all(lt)) + u32(any(lt)) * 2u + u32(all(!lt)) * 4u + u32(any(lt & ge)) * 8u + u32(all(lt | ge)) * 16u;
  let r = select(a, b, ii[6] > 0);
  oi[0] = r.x; oi[1] = r.y; oi[2] = r.z;
  let fa = vec2<f32>(if_[0], if_[1]); let fb = vec2<f32>(if_[2], if_[3]);
  let fl = fa <= fb; let fn_ = fa != fb;
  ou[2] = u32(fl.x) + u32(fl.y) * 2u + u32(fn_.x) * 4u + u32(fn_.y) * 8u;
  let ua = vec4<u32>(iu[0], iu[1], iu[2], iu[3]);
  let ug = ua > vec4<u32>(3u);
  ou[3] = u32(ug.x) + u32(ug.y) * 2u + u32(ug.z) * 4u + u32(ug.w) * 8u;
  let m = min(a, b) + max(a, b) * 2 + clamp(a, vec3<i32>(-2), vec3<i32>(3)) + abs(b);
  oi[3] = m.x; oi[4] = m.y; oi[5] = m.z;
}
""", ("small", "boundary"))

prog("logical_short_circuit", """
fn side(p: ptr<function, u32>, r: bool) -> bool { *p += 1u; return r; }
@compute @workgroup_size(1)
fn main() {
  var calls = 0u;
  let a = ii[0] > 0; let b = ii[1] > 0;
  let x = a && side(&calls, b);
  let y = a || side(&calls, !b);
  let z = (a && b) || (!a && !b);
  ou[0] = calls; ou[1] = u32(x) + u32(y) * 2u + u32(z) * 4u + u32(a != b) * 8u + u32(a & b) * 16u + u32(a | b) * 32u;
  if (a && (ii[2] != 0) && (ii[3] / select(ii[2], 1, ii[2] == 0 || ii[2] == -1) > -100)) { ou[2] = 1u; } else { ou[2] = 2u; }
}
""", ("small", "boundary"))

prog("array_length", """
struct Dyn { head: vec2<u32>, items: array<vec2<i32>> }
@group(1) @binding(0) var<storage, read_write> d: Dyn;
@group(1) @binding(1) var<storage, read> e: array<vec4<f32>>;
fn last_index() -> u32 { return arrayLength(&d.items) - 1u; }
@compute @workgroup_size(1)
fn main() {
  ou[0] = arrayLength(&d.items); ou[1] = arrayLength(&e); ou[2] = arrayLength(&oi) + arrayLength(&iu);
  d.items[last_index()].y = i32(arrayLength(&e));
  d.head.x = last_index();
  for (var i = 0u; i < arrayLength(&d.items); i++) { d.items[i].x += i32(i); }
}
""", ("small", "boundary"))

prog("local_arrays_by_value", """
struct Pair { a: array<i32, 3>, b: vec2<u32> }
fn sum3(x: array<i32, 3>) -> i32 { var t = x; t[0] = t[0] * 2; return t[0] + t[1] + t[2]; }
fn make(k: i32) -> Pair { var p: Pair; p.a = array<i32, 3>(k, k + 1, k + 2); p.b = vec2<u32>(u32(k), 9u); return p; }
@compute @workgroup_size(1)
fn main() {
  var a = array<i32, 4>(ii[0], ii[1], ii[2], ii[3]);
  var b = a;
  b[iu[0] & 3u] = 100;
  a[(iu[0] + 1u) & 3u] = -100;
  oi[0] = a[0] + a[1] * 3 + a[2] * 5 + a[3] * 7; oi[1] = b[0] + b[1] * 3 + b[2] * 5 + b[3] * 7;
  var p = make(ii[4]);
  let q = p;
  p.a[1] = 50;
  oi[2] = sum3(p.a); oi[3] = sum3(q.a); oi[4] = p.a[0];
  var grid: array<array<i32, 2>, 3>;
  for (var i = 0; i < 3; i++) { for (var j = 0; j < 2; j++) { grid[i][j] = i * 10 + j + ii[5]; } }
  let row = grid[iu[1] % 3u];
  oi[5] = row[0] + row[1] * 100; oi[6] = grid[2][iu[2] & 1u];
  ou[0] = q.b.x + q.b.y;
}
""", ("small", "boundary"))

prog("const_tables", """
const TABLE = array<i32, 5>(3, -1, 4, -1, 5);
const SCALE: f32 = 2.5;
const K: u32 = 7u;
const V = vec3<u32>(1u, 2u, 3u);
var<private> lut: array<u32, 4> = array<u32, 4>(10u, 20u, 30u, 40u);
@compute @workgroup_size(1)
fn main() {
  var acc = 0;
  for (var i = 0u; i < 8u; i++) { acc += TABLE[(iu[i] + i) % 5u] * i32(i + 1u); }
  oi[0] = acc; oi[1] = TABLE[K % 5u];
  of_[0] = SCALE * if_[0] + f32(K);
  ou[0] = V[iu[0] % 3u] + K * V.z; ou[1] = lut[iu[1] & 3u]; lut[1] = K; ou[2] = lut[iu[2] & 1u];
  ou[3] = (K + iu[3]) % K;
}
""", ("small", "boundary"))

prog("atomics", """
struct Counters { hits: atomic<u32>, low: atomic<i32>, plain: u32 }
@group(1) @binding(0) var<storage, read_write> c: Counters;
var<workgroup> wc: atomic<u32>;
@compute @workgroup_size(1)
fn main() {
  let old = atomicAdd(&c.hits, iu[0]);
  atomicMax(&c.low, ii[0]);
  let m = atomicMin(&c.low, ii[1]);
  let x = atomicXor(&c.hits, 0xffu);
  let init = iu[1];
  atomicStore(&wc, init);
  let a = atomicAnd(&wc, iu[2]);
  let o = atomicOr(&wc, 1u);
  let e = atomicExchange(&wc, 9u);
  let s = atomicSub(&c.hits, 1u);
  ou[0] = old; ou[1] = x; ou[2] = a; ou[3] = o; ou[4] = e; ou[5] = atomicLoad(&wc); ou[6] = s; oi[0] = m; oi[1] = atomicLoad(&c.low);
  c.plain = atomicLoad(&c.hits);
}
""", ("small", "boundary"))

prog("early_returns", """
fn find(limit: i32) -> i32 {
  for (var i = 0; i < 8; i++) {
    for (var j = 0; j < 8; j++) {
      if (ii[i] + ii[j] == limit) { return i * 8 + j; }
      if (j > i) { break; }
    }
    switch ii[i] & 1 {
      case 1: { if (ii[i] > 6) { return -2; } }
      default: { }
    }
  }
  return -1;
}
fn guard(x: u32) -> u32 { if (x == 0u) { return 1u; } else if (x < 4u) { return x * 2u; } return x; }
@compute @workgroup_size(1)
fn main() {
  oi[0] = find(ii[0] + ii[1]); oi[1] = find(1000); oi[2] = find(ii[7] * 2);
  ou[0] = guard(iu[0]) + guard(iu[1]) * 100u;
  if (ii[0] > 5) { oi[3] = 1; return; }
  oi[3] = 2;
}
""", ("small", "boundary"))

prog("temporaries_across_iterations", """
@compute @workgroup_size(1)
fn main() {
  var prev = 0;
  for (var i = 0u; i < 8u; i++) {
    let cur = ii[i];
    let d = cur - prev;
    let both = d * d + cur;
    oi[i] = both + d;
    prev = cur;
    { let cur2 = both * 2; ou[i] = u32(cur2); }
  }
}
""", ("small", "boundary"))

prog("compound_assignment", """
@compute @workgroup_size(1)
fn main() {
  var a = ii[0]; var u = iu[0]; var f = if_[0];
  a += 3; a -= ii[1]; a *= 5; a /= 2; a &= 0xff; a |= 0x100; a ^= ii[2]; a++;
  u += 3u; u *= iu[1]; u %= 1000u; u <<= 3u; u >>= 1u; u--; u |= 1u;
  f += 1.5; f *= 2.0; f -= 0.25; f /= 2.0;
  oi[0] = a; ou[0] = u; of_[0] = f;
  var v = vec2<i32>(ii[3], ii[4]); v += vec2<i32>(1, 2); v *= 3; v.x -= 1;
  oi[1] = v.x; oi[2] = v.y;
  oi[ii[5] & 7] += 11; ou[iu[2] & 3u] *= 2u;
}
""", ("small",))

prog("matrices", """
struct M { a: mat2x2<f32>, b: mat3x3<f32>, c: mat4x3<f32>, d: mat2x4<f32> }
@group(1) @binding(0) var<storage, read_write> m: M;
@compute @workgroup_size(1)
fn main() {
  let v2 = vec2<f32>(if_[0], if_[1]); let v3 = vec3<f32>(if_[2], if_[3], if_[4]); let v4 = vec4<f32>(if_[5], if_[6], if_[7], 1.0);
  let r2 = m.a * v2; let l2 = v2 * m.a;
  of_[0] = r2.x; of_[1] = r2.y; of_[2] = l2.x; of_[3] = l2.y;
  let r3 = m.b * v3; of_[4] = r3.x + r3.y * 2.0 + r3.z * 4.0;
  let r43 = m.c * v4; of_[5] = r43.x + r43.y + r43.z;
  let r24 = m.d * v2; of_[6] = r24.x + r24.w;
  let two = if_[1] * 0.0 + 2.0; let sq = m.a * m.a; let sc = m.a * two; let ad = m.a + sq - sc;
  m.a = ad;
  m.b[1] = v3; m.b[2][0] = if_[0];
  var loc = mat2x2<f32>(v2, vec2<f32>(1.0, 2.0));
  loc[1][0] = 8.0;
  let col = loc[iu[0] & 1u];
  of_[7] = col.x + col.y + loc[0][iu[1] & 1u];
}
""", ("small",))

prog("globals_via_helpers", """
struct State { pos: vec2<i32>, steps: u32 }
var<private> st: State;
var<private> trace: array<i32, 4>;
fn step_(dx: i32, dy: i32) { st.pos += vec2<i32>(dx, dy); trace[st.steps & 3u] = st.pos.x * 10 + st.pos.y; st.steps++; }
fn run(n: u32) { for (var i = 0u; i < n; i++) { step_(ii[i & 7u], i32(i)); if (st.pos.x > 50) { return; } } }
@compute @workgroup_size(1)
fn main() {
  st.pos = vec2<i32>(1, 1);
  run(iu[0] % 7u);
  oi[0] = st.pos.x; oi[1] = st.pos.y; ou[0] = st.steps;
  for (var i = 0u; i < 4u; i++) { oi[2u + i] = trace[i]; }
}
""", ("small", "boundary"))

prog("glsl_reserved_names", """
struct input { sample: i32, texture: i32 }
fn mod(a: i32, b: i32) -> i32 { return a * 2 + b; }
fn lessThan(a: i32) -> i32 { return a + 7; }
fn abs_(x: i32) -> i32 { return x + 1; }
fn main_(x: i32) -> i32 { return x - 1; }
@compute @workgroup_size(1)
fn main() {
  var sample = ii[0];
  let uint = ii[1];
  var vec3_ = mod(sample, uint) + lessThan(uint);
  var common: input;
  common.sample = abs_(vec3_); common.texture = main_(uint);
  let out = common.sample + common.texture;
  var glx = out; glx += 1;
  var flat = glx * 2; var smooth = flat + 1; var shared_ = smooth;
  oi[0] = vec3_; oi[1] = out; oi[2] = shared_;
}
""", ("small", "boundary"))

prog("while_complex_conditions", """
@compute @workgroup_size(1)
fn main() {
  var i = 0u; var s = 0;
  while (i < 8u && s < 20) { s += (ii[i] & 0xff) % 7; i++; }
  oi[0] = s; ou[0] = i;
  var j = 0u;
  while (true) { if (j >= 3u) { break; } j += 1u; loop { if (j > 1u) { break; } j += 2u; } }
  ou[1] = j;
}
""", ("small",))

# ---- programs expected to expose known findings (each keyed separately) ----
prog("finding_select_vector_condition", """
@compute @workgroup_size(1)
fn main() {
  let a = vec3<i32>(ii[0], ii[1], ii[2]); let b = vec3<i32>(ii[3], ii[4], ii[5]);
  let r = select(a, b, a < b);
  oi[0] = r.x; oi[1] = r.y; oi[2] = r.z;
}
""", ("small",))

prog("finding_matrix_times_abstract_scalar", """
struct M { a: mat2x2<f32> }
@group(1) @binding(0) var<storage, read_write> m: M;
@compute @workgroup_size(1)
fn main() { let sc = m.a * 2.0; m.a = sc; }
""", ("small",))

prog("finding_abs_u32", """
@compute @workgroup_size(1)
fn main() { ou[0] = abs(iu[0]); }
""", ("small",))

prog("finding_count_zeros", """
@compute @workgroup_size(1)
fn main() {
  for (var i = 0u; i < 8u; i++) {
    oi[i] = countLeadingZeros(ii[i]) * 100 + countTrailingZeros(ii[i]);
  }
}
""", ("zeros_and_negatives",))

prog("finding_count_zeros_u32", """
@compute @workgroup_size(1)
fn main() {
  for (var i = 0u; i < 8u; i++) {
    ou[i] = countLeadingZeros(iu[i]) * 100u + countTrailingZeros(iu[i] | 1u);
  }
}
""", ("small",))

prog("finding_const_logical_fold", """
const YES: bool = true;
const NO: bool = false;
@compute @workgroup_size(1)
fn main() {
  ou[0] = select(1u, 2u, YES && YES);
  ou[1] = select(1u, 2u, NO || YES);
  ou[2] = select(1u, 2u, true && YES);
  ou[3] = select(1u, 2u, (YES && YES) && (iu[0] < 100u));
}
""", ("small",))

# ---- layout probes (block layouts compared with the IR's offsets; no execution needed) ----
LAYOUT = []


def layout(name, src):
    LAYOUT.append((name, src))


layout("layout_plain", """
struct A { a: f32, b: vec3<f32>, c: vec2<i32>, d: mat3x3<f32>, e: array<vec3<u32>, 2>, f: u32 }
struct B { x: A, y: array<A, 2>, z: vec4<f32>, w: array<vec2<f32>> }
@group(0) @binding(0) var<storage, read_write> sb: B;
@group(0) @binding(1) var<uniform> ub: A;
@compute @workgroup_size(1) fn main() { sb.z.x = ub.a + sb.x.a; }
""")
layout("layout_mat2_uniform", """
struct U { m: mat2x2<f32>, k: f32 }
@group(0) @binding(0) var<uniform> u: U;
@group(0) @binding(1) var<storage, read_write> o: array<f32>;
@compute @workgroup_size(1) fn main() { o[0] = u.m[1].x + u.k; }
""")
layout("layout_mat_cx2_uniform", """
struct U { m: mat3x2<f32>, n: mat4x2<f32>, k: f32 }
@group(0) @binding(0) var<uniform> u: U;
@group(0) @binding(1) var<storage, read_write> o: array<f32>;
@compute @workgroup_size(1) fn main() { o[0] = u.m[2].y + u.n[3].x + u.k; }
""")
layout("layout_align_size_attrs", """
struct S { @size(16) a: f32, @align(32) b: f32, c: vec2<f32> }
@group(0) @binding(0) var<storage, read_write> s: S;
@compute @workgroup_size(1) fn main() { s.c.x = s.a + s.b; }
""")
layout("layout_vec3_then_scalar_uniform", """
struct U { a: vec3<f32>, b: f32, c: array<vec4<f32>, 2>, d: vec3<i32>, e: i32 }
@group(0) @binding(0) var<uniform> u: U;
@group(0) @binding(1) var<storage, read_write> o: array<f32>;
@compute @workgroup_size(1) fn main() { o[0] = u.a.x + u.b + u.c[1].y + f32(u.d.z + u.e); }
""")
layout("layout_struct_in_uniform_array", """
struct E { p: vec2<f32>, q: f32 }
struct U { items: array<E, 3>, last: f32 }
@group(0) @binding(0) var<uniform> u: U;
@group(0) @binding(1) var<storage, read_write> o: array<f32>;
@compute @workgroup_size(1) fn main() { o[0] = u.items[2].q + u.last; }
""")
layout("layout_nested_struct_storage", """
struct In { a: vec2<f32>, b: f32 }
struct Out { i: In, f: f32, arr: array<In, 2>, g: f32 }
@group(0) @binding(0) var<storage, read_write> s: Out;
@compute @workgroup_size(1) fn main() { s.g = s.i.b + s.f + s.arr[1].b; }
""")


# statement forms with inlined operator operands (lib/opforms.py): atomic statements whose index and value operands are
# operator expressions used once (a `%` pasted into a format string, missing parentheses, an operand evaluated twice ...)
import opforms as _opforms
for _n, _s in _opforms.programs():
    P.append((_n, _s, ("small", "boundary")))
