"""C05 probe: one tiny WGSL compute program per (operator, scalar kind, shape); compile it to GLSL,
read back the statement that computes the result `r` with the operands abstracted as the variables
a, b, c, d, and write coq/Gen/GlslOpTable.v (re-generated from /repo on every run)."""
import glslcorr
import glslread

KINDS = {"i32": "int", "u32": "uint", "f32": "float", "bool": "bool"}


def wty(kind, n):
    return kind if n == 1 else "vec%d<%s>" % (n, kind)


def storage_ty(kind):
    return "u32" if kind == "bool" else kind


def load(name, kind, n, idx):
    """WGSL let-binding of operand `name` of (kind, shape n) from buffer i<kind>"""
    st = storage_ty(kind)
    buf = "in_" + st
    if n == 1:
        e = "%s[%d]" % (buf, idx)
        if kind == "bool":
            e = "(%s != 0u)" % e
    else:
        comps = ["%s[%d]" % (buf, idx * 4 + k) for k in range(n)]
        if kind == "bool":
            comps = ["(%s != 0u)" % c for c in comps]
        e = "vec%d<%s>(%s)" % (n, kind, ", ".join(comps))
    return "  let %s = %s;\n" % (name, e)


# (op name, [operand kinds relative to K], wgsl expression, result kind or None for K, kinds it applies to, shapes)
def probes():
    P = []
    ALLN = (1, 2, 3, 4)
    INT = ("i32", "u32")
    NUM = ("i32", "u32", "f32")

    def add(op, kinds, operands, expr, res=None, shapes=ALLN, res_scalar=False):
        for k in kinds:
            for n in shapes:
                P.append({"op": op, "kind": k, "n": n, "operands": [(nm, (k if ok == "K" else ok), (1 if scalar else n))
                                                                    for nm, ok, scalar in operands],
                          "expr": expr, "res": (k if res is None else res), "res_n": 1 if res_scalar else n})

    ab = [("a", "K", False), ("b", "K", False)]
    a1 = [("a", "K", False)]
    for op, sym in (("add", "+"), ("sub", "-"), ("mul", "*"), ("div", "/")):
        add(op, NUM, ab, "a %s b" % sym)
    add("rem", INT, ab, "a % b")
    for op, sym in (("and", "&"), ("or", "|"), ("xor", "^")):
        add(op, INT, ab, "a %s b" % sym)
    add("and", ("bool",), ab, "a & b")
    add("or", ("bool",), ab, "a | b")
    # (a && b, a || b lower to if-statements over a local, not to an expression: covered by whole programs)
    add("shl", INT, [("a", "K", False), ("b", "u32", False)], "a << b")
    add("shr", INT, [("a", "K", False), ("b", "u32", False)], "a >> b")
    for op, sym in (("eq", "=="), ("ne", "!="), ("lt", "<"), ("le", "<="), ("gt", ">"), ("ge", ">=")):
        add(op, NUM, ab, "a %s b" % sym, res="bool")
    add("eq", ("bool",), ab, "a == b", res="bool")
    add("ne", ("bool",), ab, "a != b", res="bool")
    add("neg", ("i32", "f32"), a1, "-a")
    add("lognot", ("bool",), a1, "!a")
    add("bitnot", INT, a1, "~a")
    add("select", ("i32", "u32", "f32", "bool"), [("a", "K", False), ("b", "K", False), ("c", "bool", False)], "select(a, b, c)")
    add("select_scalar_cond", ("i32", "u32", "f32"), [("a", "K", False), ("b", "K", False), ("c", "bool", True)],
        "select(a, b, c)", shapes=(2, 3, 4))
    add("all", ("bool",), a1, "all(a)", shapes=(2, 3, 4), res_scalar=True)
    add("any", ("bool",), a1, "any(a)", shapes=(2, 3, 4), res_scalar=True)
    add("abs", NUM, a1, "abs(a)")
    add("sign", ("i32", "f32"), a1, "sign(a)")
    add("min", NUM, ab, "min(a, b)")
    add("max", NUM, ab, "max(a, b)")
    add("clamp", NUM, [("a", "K", False), ("b", "K", False), ("c", "K", False)], "clamp(a, b, c)")
    for f in ("floor", "ceil", "trunc", "round", "sqrt", "saturate"):
        add(f, ("f32",), a1, "%s(a)" % f)
    add("fma", ("f32",), [("a", "K", False), ("b", "K", False), ("c", "K", False)], "fma(a, b, c)")
    add("dot", NUM, ab, "dot(a, b)", shapes=(2, 3, 4), res_scalar=True)
    for f in ("countOneBits", "reverseBits", "firstLeadingBit", "firstTrailingBit", "countLeadingZeros",
              "countTrailingZeros"):
        add(f, INT, a1, "%s(a)" % f)
    add("extractBits", INT, [("a", "K", False), ("b", "u32", True), ("c", "u32", True)], "extractBits(a, b, c)")
    add("insertBits", INT, [("a", "K", False), ("b", "K", False), ("c", "u32", True), ("d", "u32", True)],
        "insertBits(a, b, c, d)")
    for src in ("i32", "u32", "f32", "bool"):
        for dst in ("i32", "u32", "f32", "bool"):
            if src == dst:
                continue
            for n in ALLN:
                P.append({"op": "convert_to_" + dst, "kind": src, "n": n, "operands": [("a", src, n)],
                          "expr": "%s(a)" % wty(dst, n), "res": dst, "res_n": n})
    for src in ("i32", "u32", "f32"):
        for dst in ("i32", "u32", "f32"):
            if src == dst:
                continue
            for n in ALLN:
                P.append({"op": "bitcast_to_" + dst, "kind": src, "n": n, "operands": [("a", src, n)],
                          "expr": "bitcast<%s>(a)" % wty(dst, n), "res": dst, "res_n": n})
    return P


def program(p):
    src = ["@group(0) @binding(0) var<storage, read_write> out_i32: array<i32>;",
           "@group(0) @binding(1) var<storage, read_write> out_u32: array<u32>;",
           "@group(0) @binding(2) var<storage, read_write> out_f32: array<f32>;",
           "@group(0) @binding(3) var<storage, read_write> in_i32: array<i32>;",
           "@group(0) @binding(4) var<storage, read_write> in_u32: array<u32>;",
           "@group(0) @binding(5) var<storage, read_write> in_f32: array<f32>;",
           "@compute @workgroup_size(1)", "fn main() {"]
    body = ""
    for i, (nm, k, n) in enumerate(p["operands"]):
        body += load(nm, k, n, i)
    body += "  let r = %s;\n" % p["expr"]
    rk, rn = p["res"], p["res_n"]
    ob = "out_" + storage_ty(rk)
    for c in range(rn):
        e = "r" if rn == 1 else "r[%d]" % c
        if rk == "bool":
            e = "select(0u, 1u, %s)" % e
        body += "  %s[%d] = %s;\n" % (ob, c, e)
    return "\n".join(src) + "\n" + body + "}\n"


def find_decl(stmts, name):
    for s in stmts:
        if s[0] == "decl" and s[2] == name:
            return s
    return None


# ---- JSON AST -> Coq term text (Glsl/Syntax.v constructors)
def coq_string(s):
    return '"' + s.replace('"', '""') + '"'


def coq_ty(t):
    k = {"int": "KInt", "uint": "KUint", "float": "KFloat", "bool": "KBool"}
    if t[0] == "s":
        return "(TScalar %s)" % k[t[1]]
    if t[0] == "v":
        return "(TVec %s %d)" % (k[t[1]], t[2])
    if t[0] == "m":
        return "(TMat %d %d)" % (t[1], t[2])
    if t[0] == "st":
        return "(TStruct %s)" % coq_string(t[1])
    if t[0] == "arr":
        return "(TArr %s %s)" % (coq_ty(t[1]), "None" if t[2] is None else "(Some %d)" % t[2])
    if t[0] == "void":
        return "TVoid"
    raise ValueError(t)


UN = {"-": "UNeg", "+": "UPlus", "!": "ULogNot", "~": "UBitNot"}
BIN = {"+": "BAdd", "-": "BSub", "*": "BMul", "/": "BDiv", "%": "BMod", "<<": "BShl", ">>": "BShr", "&": "BAnd",
       "|": "BOr", "^": "BXor", "&&": "BLAnd", "||": "BLOr", "==": "BEq", "!=": "BNe", "<": "BLt", "<=": "BLe",
       ">": "BGt", ">=": "BGe"}


def coq_expr(e):
    t = e[0]
    if t == "int":
        return "(EInt %d)" % e[1]
    if t == "uint":
        return "(EUint %d)" % e[1]
    if t == "float":
        return "(EFloat %d)" % e[1]
    if t == "bool":
        return "(EBool %s)" % ("true" if e[1] else "false")
    if t == "var":
        return "(EVar %s)" % coq_string(e[1])
    if t == "un":
        return "(EUn %s %s)" % (UN[e[1]], coq_expr(e[2]))
    if t == "bin":
        return "(EBin %s %s %s)" % (BIN[e[1]], coq_expr(e[2]), coq_expr(e[3]))
    if t == "cond":
        return "(ECond %s %s %s)" % (coq_expr(e[1]), coq_expr(e[2]), coq_expr(e[3]))
    if t == "call":
        return "(ECall %s [%s])" % (coq_string(e[1]), "; ".join(coq_expr(x) for x in e[2]))
    if t == "ctor":
        return "(ECtor %s [%s])" % (coq_ty(e[1]), "; ".join(coq_expr(x) for x in e[2]))
    if t == "field":
        return "(EField %s %s)" % (coq_expr(e[1]), coq_string(e[2]))
    if t == "index":
        return "(EIndex %s %s)" % (coq_expr(e[1]), coq_expr(e[2]))
    if t == "length":
        return "(ELength %s)" % coq_expr(e[1])
    raise ValueError(e)


def free_vars(e, acc):
    if e[0] == "var":
        acc.add(e[1])
    for x in e[1:]:
        if isinstance(x, list):
            if x and isinstance(x[0], str) and x[0] in glslread.EXPR_TAGS:
                free_vars(x, acc)
            else:
                for y in x:
                    if isinstance(y, list) and y and isinstance(y[0], str) and y[0] in glslread.EXPR_TAGS:
                        free_vars(y, acc)
    return acc


def run_probes(tools, opts_list=None):
    """-> (rows, problems). rows: dict(op, kind, n, version, expr(json), decl_ty, text-level info)."""
    P = probes()
    opts_list = opts_list or [{"version": 430}, {"version": 310}]
    jobs = []
    for oi, o in enumerate(opts_list):
        for pi, p in enumerate(P):
            jobs.append({"id": oi * 100000 + pi, "src": program(p), "opts": o})
    res = glslcorr.compile_jobs(tools, jobs, want=("validate",), chunk=512, workers=2)
    rows, problems = [], []
    for j in jobs:
        oi, pi = divmod(j["id"], 100000)
        p = P[pi]
        key = "%s/%s/%d/%s" % (p["op"], p["kind"], p["n"], opts_list[oi]["version"])
        r = res.get(j["id"])
        if not r or "eps" not in r or not r["eps"] or "text" not in r["eps"][0]:
            problems.append((key, "compile", (r or {}).get("err") or ((r or {}).get("eps") or [{}])[0].get("err") or str(r)[:200]))
            continue
        if r.get("validate"):
            problems.append((key, "validate", str(r["validate"])[:200]))
            continue
        st, parsed = glslcorr.read_glsl(r["eps"][0]["text"])
        if st != "ok":
            problems.append((key, "read:" + st, parsed))
            continue
        mains = [f for f in parsed["ast"]["funcs"] if f["name"] == "main"]
        d = find_decl(mains[0]["body"], "r") if mains else None
        if d is None or d[3] is None:
            problems.append((key, "shape", "no declaration of r"))
            continue
        fv = free_vars(d[3], set())
        names = {nm for nm, _, _ in p["operands"]}
        if not fv <= names:
            problems.append((key, "shape", "template mentions %s" % sorted(fv - names)))
            continue
        # operand declarations must bind the operand names (the abstraction is by name)
        ok = all(find_decl(mains[0]["body"], nm) is not None for nm in names)
        if not ok:
            problems.append((key, "shape", "operand not bound by name"))
            continue
        rows.append({"op": p["op"], "kind": p["kind"], "n": p["n"], "es": bool(parsed["meta"]["es"]),
                     "version": parsed["meta"]["version"], "expr": d[3], "decl_ty": d[1], "probe": p,
                     "funcs": [f["name"] for f in parsed["ast"]["funcs"]]})
    return rows, problems


def write_table(rows):
    """rows of the two profiles are merged: profile field 0 = desktop only, 1 = ES only, 2 = both"""
    out = ["From Coq Require Import List ZArith String.", "Import ListNotations.",
           "Require Import Naga.Glsl.Syntax.", "Open Scope string_scope.", "Open Scope Z_scope.", "",
           "(* (operator, scalar kind of the first operand, shape 1..4, profile (0 desktop, 1 ES, 2 both),",
           "    declared type of the result, template) *)",
           "Definition table : list (string * string * nat * nat * gty * expr) := ["]
    merged = {}
    order = []
    for r in rows:
        k = (r["op"], r["kind"], r["n"], coq_ty(r["decl_ty"]), coq_expr(r["expr"]))
        if k not in merged:
            merged[k] = set()
            order.append(k)
        merged[k].add(bool(r["es"]))
    lines = []
    for k in order:
        prof = 2 if merged[k] == {True, False} else (1 if merged[k] == {True} else 0)
        lines.append("  (%s, %s, %d%%nat, %d%%nat, %s,\n    %s)" % (coq_string(k[0]), coq_string(k[1]), k[2], prof, k[3], k[4]))
    out.append(";\n".join(lines))
    out.append("].")
    return "\n".join(out) + "\n", len(lines)
