"""C04 whole-program validation corpus: small WGSL compute programs written for the differential
check (irrun on the IR vs mslrun on the emitted MSL).  Each entry: name -> dict(src=..., mode=input
mode, rt=runtime array length).  Indices are in bounds by construction (the hostile-index programs
for the bounds-check policies are in POLICY below)."""

P = {}


def prog(name, src, mode="pool", rt=4, finding=None):
    """finding: the program exists to exhibit ONE recorded defect that shows under several option sets: a value
    disagreement on it is keyed prog:<name>:<finding> instead of prog:<name>:<buffer policy of the option set>"""
    P[name] = {"src": src, "mode": mode, "rt": rt}
    if finding:
        P[name]["finding"] = finding


prog("loop_continue_continuing", """
@group(0) @binding(0) var<storage, read_write> o: array<i32, 8>;
@group(0) @binding(1) var<storage, read> inp: array<i32, 4>;
@compute @workgroup_size(1)
fn main() {
  var i: i32 = 0;
  var acc: i32 = inp[0];
  loop {
    if (i >= 6) { break; }
    if (i == 2) { continue; }
    acc = acc * 3 + inp[i & 3];
    o[i] = acc;
    continuing { i = i + 1; acc = acc - 1; }
  }
  o[7] = acc;
}
""")

prog("loop_break_if", """
@group(0) @binding(0) var<storage, read_write> o: array<u32, 4>;
@group(0) @binding(1) var<uniform> n: u32;
@compute @workgroup_size(1)
fn main() {
  var i: u32 = 0u;
  var s: u32 = 1u;
  loop {
    s = s * 2u + i;
    continuing { i = i + 1u; break if i >= (n & 7u); }
  }
  o[0] = s; o[1] = i;
}
""")

prog("switch_in_loop", """
@group(0) @binding(0) var<storage, read_write> o: array<i32, 8>;
@group(0) @binding(1) var<storage, read> inp: array<i32, 4>;
@compute @workgroup_size(1)
fn main() {
  var acc: i32 = 0;
  for (var i: i32 = 0; i < 6; i = i + 1) {
    switch (i) {
      case 0: { acc = acc + inp[0]; }
      case 1, 3: { acc = acc - inp[1]; continue; }
      case 4: { break; }
      default: { acc = acc ^ inp[2]; }
    }
    o[i] = acc;
  }
  o[7] = acc;
}
""")

prog("switch_u32_default_first", """
@group(0) @binding(0) var<storage, read_write> o: array<u32, 4>;
@group(0) @binding(1) var<uniform> sel: u32;
@compute @workgroup_size(1)
fn main() {
  var r: u32 = 9u;
  switch (sel & 3u) {
    default: { r = 100u; }
    case 1u: { r = 11u; }
    case 2u: { r = 22u; }
  }
  o[0] = r;
}
""")

prog("nested_loops_return", """
@group(0) @binding(0) var<storage, read_write> o: array<i32, 4>;
@group(0) @binding(1) var<uniform> lim: vec2<i32>;
fn find(a: i32, b: i32) -> i32 {
  var c: i32 = 0;
  for (var i: i32 = 0; i < 4; i++) {
    for (var j: i32 = 0; j < 4; j++) {
      c += 1;
      if (i == (a & 3) && j == (b & 3)) { return c; }
    }
  }
  return -1;
}
@compute @workgroup_size(1)
fn main() { o[0] = find(lim.x, lim.y); o[1] = find(lim.y, lim.x); }
""")

prog("while_loop", """
@group(0) @binding(0) var<storage, read_write> o: array<u32, 2>;
@group(0) @binding(1) var<uniform> x: u32;
@compute @workgroup_size(1)
fn main() {
  var v: u32 = x;
  var steps: u32 = 0u;
  while (v != 0u && steps < 40u) { v = v >> 1u; steps++; }
  o[0] = steps; o[1] = v;
}
""")

prog("helper_pointer_args", """
@group(0) @binding(0) var<storage, read_write> o: array<i32, 4>;
@group(0) @binding(1) var<uniform> u: vec4<i32>;
fn bump(p: ptr<function, i32>, q: i32) -> i32 { *p = *p + q; return *p * 2; }
fn swap(a: ptr<function, i32>, b: ptr<function, i32>) { let t = *a; *a = *b; *b = t; }
fn sum3(v: ptr<function, array<i32, 3>>) -> i32 { return (*v)[0] + (*v)[1] + (*v)[2]; }
@compute @workgroup_size(1)
fn main() {
  var x: i32 = u.x; var y: i32 = u.y;
  let r = bump(&x, u.z);
  swap(&x, &y);
  var arr: array<i32, 3> = array<i32, 3>(x, y, r);
  o[0] = x; o[1] = y; o[2] = r; o[3] = sum3(&arr);
}
""")

prog("helper_private_global", """
var<private> counter: i32 = 5;
var<private> table: array<u32, 4> = array<u32, 4>(3u, 1u, 4u, 1u);
@group(0) @binding(0) var<storage, read_write> o: array<i32, 4>;
@group(0) @binding(1) var<uniform> k: u32;
fn next() -> i32 { counter = counter + 1; return counter; }
fn look(i: u32) -> u32 { return table[i & 3u]; }
@compute @workgroup_size(1)
fn main() {
  let a = next(); let b = next();
  table[1] = k;
  o[0] = a; o[1] = b; o[2] = i32(look(k)); o[3] = i32(look(1u)) + counter;
}
""")

prog("storage_pointer_param", """
struct S { a: i32, b: vec2<u32>, c: array<i32, 3> }
@group(0) @binding(0) var<storage, read_write> s: S;
fn touch(p: ptr<storage, S, read_write>, v: i32) { (*p).a = (*p).a + v; (*p).c[1] = v; }
@compute @workgroup_size(1)
fn main() { touch(&s, 7); s.b.y = u32(s.a); }
""")

prog("nested_struct_array_vec3", """
struct Inner { a: vec3<f32>, b: f32, c: array<i32, 3> }
struct Outer { x: i32, v: vec3<f32>, arr: array<Inner, 2>, y: u32, w: vec3<u32>, z: f32 }
@group(0) @binding(0) var<storage, read_write> s: Outer;
@group(0) @binding(1) var<storage, read_write> o: array<f32, 8>;
@compute @workgroup_size(1)
fn main() {
  let t = s.arr[1];
  s.arr[0].a = t.a * 2.0;
  s.arr[0].c[2] = t.c[0] + s.x;
  s.arr[1].b = s.v.y;
  s.v.z = t.b;
  s.w = vec3<u32>(s.y, 2u, 3u);
  s.z = s.arr[0].a.y;
  o[0] = s.arr[0].a.x; o[1] = s.arr[0].a.z; o[2] = f32(s.arr[0].c[2]); o[3] = s.v.x; o[4] = f32(s.w.x);
}
""", mode="finite")

prog("matrix_members", """
struct M { a: mat3x3<f32>, b: mat2x2<f32>, c: mat4x3<f32>, d: mat2x4<f32>, e: f32 }
@group(0) @binding(0) var<storage, read_write> m: M;
@group(0) @binding(1) var<storage, read_write> o: array<f32, 16>;
@compute @workgroup_size(1)
fn main() {
  let col = m.a[1];
  m.a[2] = col;
  m.a[0][1] = m.e;
  m.b = m.b * m.b;
  let v = m.c * vec4<f32>(1.0, 2.0, 0.0, 1.0);
  let w = vec3<f32>(1.0, 0.0, 2.0) * m.c;
  m.d[1] = w;
  o[0] = col.x; o[1] = m.a[2][2]; o[2] = v.x; o[3] = v.z; o[4] = w.w; o[5] = m.b[1][0];
  let t = m.a * col;
  o[6] = t.y;
  let sc = m.b * m.e;
  o[7] = sc[0][1];
  let ad = m.b + m.b;
  o[8] = ad[1][1];
}
""", mode="finite")

prog("uniform_buffer_struct", """
struct U { k: vec4<u32>, m2: mat2x2<f32>, z: i32, arr: array<vec4<f32>, 2>, w: vec3<i32> }
@group(0) @binding(0) var<uniform> u: U;
@group(0) @binding(1) var<storage, read_write> o: array<i32, 8>;
@compute @workgroup_size(1)
fn main() {
  o[0] = i32(u.k.z) + u.z;
  o[1] = i32(u.m2[1].x);
  o[2] = i32(u.arr[1].w);
  o[3] = u.w.y;
  o[4] = i32(u.arr[u.k.x & 1u].x);
}
""", mode="finite")

prog("workgroup_vars", """
var<workgroup> wg: array<u32, 4>;
var<workgroup> flag: i32;
struct W { a: vec3<f32>, n: u32 }
var<workgroup> ws: W;
@group(0) @binding(0) var<storage, read_write> o: array<u32, 8>;
@group(0) @binding(1) var<uniform> k: u32;
@compute @workgroup_size(1)
fn main(@builtin(local_invocation_id) lid: vec3<u32>) {
  o[0] = wg[1] + u32(flag) + ws.n;
  wg[k & 3u] = k;
  flag = 3;
  ws.n = wg[0] + 1u;
  workgroupBarrier();
  o[1] = wg[k & 3u]; o[2] = u32(flag); o[3] = ws.n; o[4] = lid.x;
}
""")

prog("runtime_array_struct_tail", """
struct H { count: u32, pad: vec3<f32>, items: array<vec3<i32>> }
@group(0) @binding(0) var<storage, read_write> h: H;
@group(0) @binding(1) var<storage, read_write> out: array<u32>;
@compute @workgroup_size(1)
fn main() {
  let n = arrayLength(&h.items);
  let m = arrayLength(&out);
  h.count = n;
  for (var i = 0u; i < n; i++) { h.items[i] = h.items[i] + vec3<i32>(i32(i)); }
  out[0] = n; out[m - 1u] = m;
}
""", rt=3)

prog("runtime_array_of_structs", """
struct P { pos: vec3<f32>, id: u32, vel: vec2<f32> }
@group(0) @binding(0) var<storage, read_write> ps: array<P>;
@compute @workgroup_size(1)
fn main(@builtin(global_invocation_id) gid: vec3<u32>) {
  let n = arrayLength(&ps);
  let i = gid.x % n;
  var p = ps[i];
  p.pos = p.pos + vec3<f32>(p.vel, 1.0);
  p.id = p.id + n;
  ps[i] = p;
  ps[(i + 1u) % n].vel.y = p.pos.x;
}
""", mode="finite", rt=3)

prog("int_ops_scalar", """
@group(0) @binding(0) var<storage, read_write> o: array<i32, 24>;
@group(0) @binding(1) var<uniform> u: vec4<i32>;
@compute @workgroup_size(1)
fn main() {
  let a = u.x; let b = u.y; let c = u.z;
  o[0] = a + b; o[1] = a - b; o[2] = a * b; o[3] = a / b; o[4] = a % b; o[5] = -a;
  o[6] = a & b; o[7] = a | b; o[8] = a ^ b; o[9] = ~a; o[10] = a << u32(c); o[11] = a >> u32(c);
  o[12] = abs(a); o[13] = min(a, b); o[14] = max(a, b); o[15] = clamp(a, min(b, c), max(b, c)); o[16] = sign(a);
  o[17] = select(a, b, a < b); o[18] = i32(a == b) + i32(a != b) * 2 + i32(a <= b) * 4 + i32(a > b) * 8 + i32(a >= b) * 16;
  o[19] = countOneBits(a) + countLeadingZeros(b) * 64 + countTrailingZeros(c) * 4096;
  o[20] = reverseBits(a); o[21] = firstLeadingBit(a); o[22] = firstTrailingBit(b);
  o[23] = extractBits(a, u32(b), u32(c)) + insertBits(a, b, u32(c), u32(u.w));
}
""")

prog("uint_ops_scalar", """
@group(0) @binding(0) var<storage, read_write> o: array<u32, 24>;
@group(0) @binding(1) var<uniform> u: vec4<u32>;
@compute @workgroup_size(1)
fn main() {
  let a = u.x; let b = u.y; let c = u.z;
  o[0] = a + b; o[1] = a - b; o[2] = a * b; o[3] = a / b; o[4] = a % b;
  o[6] = a & b; o[7] = a | b; o[8] = a ^ b; o[9] = ~a; o[10] = a << c; o[11] = a >> c;
  o[12] = abs(a); o[13] = min(a, b); o[14] = max(a, b); o[15] = clamp(a, min(b, c), max(b, c));
  o[17] = select(a, b, a < b); o[18] = u32(a == b) + u32(a != b) * 2u + u32(a <= b) * 4u + u32(a > b) * 8u + u32(a >= b) * 16u;
  o[19] = countOneBits(a) + countLeadingZeros(b) * 64u + countTrailingZeros(c) * 4096u;
  o[20] = reverseBits(a); o[22] = firstTrailingBit(b);
  o[23] = extractBits(a, b, c) + insertBits(a, b, c, u.w);
}
""")

prog("int_ops_vector", """
@group(0) @binding(0) var<storage, read_write> o: array<vec3<i32>, 12>;
@group(0) @binding(1) var<storage, read_write> p: array<vec4<u32>, 8>;
struct U { a: vec3<i32>, b: vec3<i32>, c: vec4<u32>, d: vec4<u32> }
@group(0) @binding(2) var<uniform> u: U;
@compute @workgroup_size(1)
fn main() {
  let a = u.a; let b = u.b; let c = u.c; let d = u.d;
  o[0] = a + b; o[1] = a - b; o[2] = a * b; o[3] = a / b; o[4] = a % b; o[5] = -a;
  o[6] = abs(a); o[7] = min(a, b); o[8] = select(a, b, a < b); o[9] = a << vec3<u32>(c.xyz); o[10] = a * 3; o[11] = sign(a) + (a >> vec3<u32>(1u));
  p[0] = c + d; p[1] = c * d; p[2] = c / d; p[3] = c % d; p[4] = c >> d; p[5] = max(c, d); p[6] = ~c ^ d; p[7] = countOneBits(c) + firstTrailingBit(d);
}
""")

prog("float_ops", """
@group(0) @binding(0) var<storage, read_write> o: array<f32, 24>;
@group(0) @binding(1) var<uniform> u: vec4<f32>;
@compute @workgroup_size(1)
fn main() {
  let a = u.x; let b = u.y; let c = u.z;
  o[0] = a + b; o[1] = a - b; o[2] = a * b; o[3] = a / b; o[4] = -a;
  o[5] = abs(a); o[6] = min(a, b); o[7] = max(a, b); o[8] = floor(a); o[9] = ceil(a); o[10] = trunc(b);
  o[11] = sqrt(abs(c)); o[12] = fma(a, b, c); o[13] = select(a, b, a < b);
  o[14] = f32(a == b) + f32(a != b) * 2.0 + f32(a <= b) * 4.0 + f32(a > b) * 8.0 + f32(a >= b) * 16.0;
  o[15] = saturate(a); o[16] = clamp(a, min(b, c), max(b, c));
  let v = u.xyz * 2.0 + vec3<f32>(1.0, 2.0, 3.0);
  o[17] = v.x; o[18] = v.z; o[19] = bitcast<f32>(bitcast<u32>(a) ^ 0x80000000u);
}
""")

prog("conversions", """
@group(0) @binding(0) var<storage, read_write> o: array<u32, 16>;
struct U { i: i32, u: u32, f: f32, g: f32 }
@group(0) @binding(1) var<uniform> x: U;
@compute @workgroup_size(1)
fn main() {
  o[0] = u32(x.i); o[1] = u32(i32(x.u)); o[2] = bitcast<u32>(f32(x.i)); o[3] = bitcast<u32>(f32(x.u));
  o[4] = u32(bool(x.i)); o[5] = u32(bool(x.u)); o[6] = u32(bool(x.f)); o[7] = bitcast<u32>(f32(x.i > 0));
  o[8] = bitcast<u32>(x.f); o[9] = bitcast<u32>(bitcast<i32>(x.g)); o[10] = u32(i32(x.u > 3u));
  let v = vec2<i32>(vec2<u32>(x.u, 7u)); o[11] = u32(v.x + v.y);
  let w = vec3<f32>(vec3<i32>(x.i, 2, 3)); o[12] = bitcast<u32>(w.x);
}
""")

prog("float_to_int_inrange", """
@group(0) @binding(0) var<storage, read_write> o: array<i32, 8>;
@group(0) @binding(1) var<uniform> f: vec4<f32>;
@compute @workgroup_size(1)
fn main() {
  o[0] = i32(f.x); o[1] = i32(f.y * 0.5); o[2] = i32(u32(abs(f.z))); let v = vec2<i32>(f.zw); o[3] = v.x; o[4] = v.y;
}
""", mode="finite")

prog("vector_compose_swizzle", """
@group(0) @binding(0) var<storage, read_write> o: array<vec4<f32>, 6>;
@group(0) @binding(1) var<uniform> u: vec4<f32>;
@compute @workgroup_size(1)
fn main() {
  let a = u.xy; let b = u.zw;
  o[0] = vec4<f32>(a, b); o[1] = vec4<f32>(b.y, a, 1.0); o[2] = u.wzyx; o[3] = vec4<f32>(u.x);
  var v = u; v.y = 9.0; v[2] = v.x; o[4] = v;
  o[5] = vec4<f32>(vec3<f32>(a, 2.0).zyx, dot(a, b));
}
""", mode="finite")

prog("vec_select_any_all", """
@group(0) @binding(0) var<storage, read_write> o: array<vec4<i32>, 4>;
struct U { a: vec4<i32>, b: vec4<i32> }
@group(0) @binding(1) var<uniform> u: U;
@compute @workgroup_size(1)
fn main() {
  let c = u.a < u.b;
  o[0] = select(u.a, u.b, c);
  o[1] = vec4<i32>(i32(any(c)), i32(all(c)), i32(any(!c)), i32(all(c | (u.a == u.b))));
  o[2] = select(u.a, u.b, u.a.x < u.b.x);
  o[3] = vec4<i32>(c & (u.a != u.b));
}
""")

prog("local_arrays_structs", """
struct T { a: i32, b: array<u32, 3>, c: vec2<f32> }
@group(0) @binding(0) var<storage, read_write> o: array<u32, 8>;
@group(0) @binding(1) var<uniform> k: vec4<u32>;
@compute @workgroup_size(1)
fn main() {
  var t: T;
  var arr = array<u32, 4>(1u, 2u, 3u, 4u);
  t.a = i32(k.x); t.b[k.y % 3u] = k.z; t.c = vec2<f32>(1.0, 2.0);
  arr[k.w & 3u] = t.b[1];
  let copy = t;
  t.b[0] = 77u;
  o[0] = u32(copy.a); o[1] = copy.b[0] + copy.b[1] + copy.b[2]; o[2] = arr[0] + arr[1] * 10u + arr[2] * 100u + arr[3] * 1000u;
  o[3] = t.b[0]; o[4] = u32(copy.c.y);
  var z: array<vec2<i32>, 2>;
  z[1].y = 5; o[5] = u32(z[1].y + z[0].x);
}
""")

prog("constants_and_zero_values", """
const K: i32 = 7;
const V = vec3<u32>(1u, 2u, 3u);
const A = array<i32, 3>(10, 20, 30);
struct S { a: i32, b: vec2<f32> }
@group(0) @binding(0) var<storage, read_write> o: array<i32, 8>;
@group(0) @binding(1) var<uniform> k: u32;
@compute @workgroup_size(1)
fn main() {
  var a = A;
  let s = S();
  let z = vec3<i32>();
  o[0] = K + i32(V.y); o[1] = a[k % 3u]; o[2] = s.a + z.y + i32(s.b.x); o[3] = i32(V[k % 3u]);
  let arr0 = array<u32, 2>();
  o[4] = i32(arr0[1]);
}
""")

prog("atomics", """
struct A { c: atomic<u32>, s: atomic<i32>, arr: array<atomic<u32>, 2> }
@group(0) @binding(0) var<storage, read_write> a: A;
@group(0) @binding(1) var<storage, read_write> o: array<u32, 8>;
var<workgroup> wa: atomic<i32>;
@compute @workgroup_size(1)
fn main() {
  o[0] = atomicAdd(&a.c, 5u); o[1] = atomicLoad(&a.c);
  atomicStore(&a.arr[1], 9u);
  o[2] = u32(atomicSub(&a.s, 3)); o[3] = u32(atomicMax(&a.s, 7)); o[4] = atomicExchange(&a.arr[0], 4u);
  o[5] = atomicAnd(&a.c, 6u) + atomicOr(&a.c, 8u) + atomicXor(&a.c, 1u) + atomicMin(&a.c, 3u);
  atomicStore(&wa, 2); o[6] = u32(atomicAdd(&wa, 3)) + u32(atomicLoad(&wa));
}
""")

prog("short_circuit", """
@group(0) @binding(0) var<storage, read_write> o: array<i32, 4>;
@group(0) @binding(1) var<uniform> u: vec4<i32>;
@compute @workgroup_size(1)
fn main() {
  let a = u.x; let b = u.y;
  var n: i32 = 0;
  if (a > 0 && (b / a) > 1) { n = 1; }
  if (a == 0 || (b % a) == 0) { n = n + 2; }
  o[0] = n; o[1] = i32(a < b && b < u.z || u.w == 0);
}
""")

prog("compound_assign_incdec", """
@group(0) @binding(0) var<storage, read_write> o: array<i32, 8>;
@group(0) @binding(1) var<uniform> u: vec4<i32>;
@compute @workgroup_size(1)
fn main() {
  var a = u.x; var v = u.yzw;
  a += u.y; a -= 3; a *= u.z; a /= u.w; a %= 7; a &= 0xff; a |= 0x100; a ^= u.x; a <<= 2u; a >>= 1u; a++; a--;
  v += vec3<i32>(1); v *= 2; v.x -= 5;
  o[0] = a; o[1] = v.x; o[2] = v.y; o[3] = v.z;
  o[4] += a; o[5]++;
}
""")

prog("multiple_entry_points", """
@group(0) @binding(0) var<storage, read_write> a: array<u32, 4>;
@group(0) @binding(3) var<storage, read_write> b: array<u32, 4>;
@group(1) @binding(0) var<uniform> k: u32;
fn f(x: u32) -> u32 { return x * 3u + k; }
@compute @workgroup_size(1)
fn first() { a[0] = f(a[1]); }
@compute @workgroup_size(2, 1, 1)
fn second(@builtin(global_invocation_id) gid: vec3<u32>, @builtin(workgroup_id) wid: vec3<u32>, @builtin(num_workgroups) nw: vec3<u32>, @builtin(local_invocation_index) li: u32) {
  b[gid.x & 3u] = f(wid.x) + nw.x + li; a[3] = b[0];
}
""")

prog("reserved_names", """
struct thread_ { device_: i32, kernel: u32, constant: vec2<f32>, metal: f32 }
@group(0) @binding(0) var<storage, read_write> threadgroup: thread_;
@group(0) @binding(1) var<uniform> half: u32;
fn using_(namespace_: u32) -> u32 { var template: u32 = namespace_ + 1u; return template; }
@compute @workgroup_size(1)
fn main() { threadgroup.kernel = using_(half); threadgroup.device_ = i32(threadgroup.constant.y); threadgroup.metal = 2.0; }
""", mode="finite")

prog("array_of_arrays_and_mats", """
struct S { g: array<array<i32, 2>, 3>, ms: array<mat2x2<f32>, 2>, t: f32 }
@group(0) @binding(0) var<storage, read_write> s: S;
@group(0) @binding(1) var<uniform> k: vec2<u32>;
@compute @workgroup_size(1)
fn main() {
  let i = k.x % 3u; let j = k.y & 1u;
  s.g[i][j] = s.g[(i + 1u) % 3u][1u - j] + 1;
  let row = s.g[2];
  s.g[0] = row;
  s.ms[j][1] = s.ms[1u - j][0] * 2.0;
  s.t = s.ms[0][1][1];
}
""", mode="finite")

prog("vec3_arrays_stride", """
struct S { a: array<vec3<f32>, 3>, b: array<vec3<u32>, 2>, c: vec3<i32>, d: i32, e: array<f32, 3> }
@group(0) @binding(0) var<storage, read_write> s: S;
@compute @workgroup_size(1)
fn main() {
  s.a[2] = s.a[0] + s.a[1];
  s.b[1].z = s.b[0].x;
  s.d = s.c.z;
  s.e[1] = s.a[2].z;
  s.c = vec3<i32>(s.b[1]);
}
""", mode="finite")

prog("loop_var_shadow_and_blocks", """
@group(0) @binding(0) var<storage, read_write> o: array<i32, 8>;
@group(0) @binding(1) var<uniform> n: i32;
@compute @workgroup_size(1)
fn main() {
  var x: i32 = n;
  { var x: i32 = 3; x = x + n; o[0] = x; }
  for (var i: i32 = 0; i < 3; i++) { var y: i32 = i; y = y + x; o[1 + i] = y; }
  if (x > 0) { let x = 2; o[4] = x; } else if (x < -5) { o[4] = -1; } else { o[4] = 0; }
  o[5] = x;
}
""")

prog("discarded_call_results_and_void", """
@group(0) @binding(0) var<storage, read_write> o: array<u32, 4>;
@group(0) @binding(1) var<uniform> k: u32;
var<private> g: u32;
fn side(v: u32) -> u32 { g = g + v; return g; }
fn setit(v: u32) { g = v; }
@compute @workgroup_size(1)
fn main() {
  setit(k);
  _ = side(2u);
  let a = side(3u);
  side(4u);
  o[0] = a; o[1] = g;
}
""")

prog("value_arrays_dynamic_index", """
const T = array<i32, 4>(11, 22, 33, 44);
struct S { rows: array<array<u32, 2>, 3>, k: vec2<u32> }
@group(0) @binding(0) var<storage, read_write> s: S;
@group(0) @binding(1) var<storage, read_write> o: array<i32, 8>;
fn pick(a: array<i32, 4>, i: u32) -> i32 { return a[i]; }
@compute @workgroup_size(1)
fn main() {
  let i = s.k.x & 3u; let j = s.k.y & 1u;
  let rows = s.rows;                 // by-value copy of a nested array
  let row = rows[i % 3u];
  o[0] = T[i]; o[1] = pick(T, 3u - i); o[2] = i32(row[j]); o[3] = i32(rows[(i + 1u) % 3u][1u - j]);
  let local = array<vec2<i32>, 2>(vec2<i32>(1, 2), vec2<i32>(3, 4));
  o[4] = local[j].y; o[5] = local[1u - j][j];
}
""")

prog("compose_repeated_vector", """
@group(0) @binding(0) var<storage, read_write> o: array<vec4<f32>, 2>;
@group(0) @binding(1) var<uniform> u: vec2<f32>;
@compute @workgroup_size(1)
fn main() { let v = u; o[0] = vec4<f32>(v, v); }
""", mode="finite")

prog("pointers_switch_bools_mixed", """struct In { a: vec3<f32>, t: f32 }
struct Mid { i: In, j: In, k: vec3<u32> }
struct S { m: Mid, tail: vec3<f32> }
@group(0) @binding(0) var<storage, read_write> s: S;
@group(0) @binding(1) var<storage, read_write> o: array<i32>;
@group(0) @binding(2) var<uniform> u: vec4<i32>;
var<private> garr: array<vec2<i32>, 3>;
fn setc(p: ptr<function, vec3<f32>>, v: f32) { (*p).y = v; (*p)[2] = v * 2.0; }
fn bumpm(p: ptr<function, In>) { (*p).t = (*p).t + 1.0; (*p).a.x = 5.0; }
fn gsum(i: u32) -> i32 { return garr[i % 3u].x + garr[(i + 1u) % 3u].y; }
@compute @workgroup_size(1)
fn main() {
  var loc: In = s.m.j;
  setc(&loc.a, 3.0);
  bumpm(&loc);
  s.m.i = loc;
  let p = &s.m.k;
  (*p).y = 9u;
  let q = &s.m.j.a;
  (*q).z = (*q).x;
  garr[1] = vec2<i32>(u.x, u.y);
  garr[2].y = u.z;
  o[0] = gsum(u32(u.w));
  switch (u.x) {
    case -2147483648: { o[1] = 1; }
    case -1: { o[1] = 2; }
    case 2147483647: { o[1] = 3; }
    default: { o[1] = 4; }
  }
  var b: bool = u.y > 0;
  var bv: vec3<bool> = vec3<bool>(b, !b, u.z == 0);
  bv.y = b && bv.z;
  o[2] = i32(bv.x) + 2 * i32(bv.y) + 4 * i32(bv[2]);
  var i: i32 = 0;
  loop {
    var t: i32 = i * 2;
    if (t > 6) { break; }
    switch (t) { case 2: { i += 2; continue; } default: {} }
    o[3] += t;
    continuing { i += 1; break if i > 5; }
  }
  o[4] = i; o[5] = -2147483647 - 1; o[6] = i32(arrayLength(&o)) ;
}
""", mode="finite", rt=8)

prog("packed_vec3_expressions", """struct P { a: vec3<f32>, s: f32, b: vec3<f32>, t: f32, c: vec3<i32>, d: i32, m: mat3x3<f32> }
@group(0) @binding(0) var<storage, read_write> p: P;
@group(0) @binding(1) var<storage, read_write> o: array<vec4<f32>, 12>;
fn len2(v: vec3<f32>) -> f32 { return dot(v, v); }
fn twice(v: ptr<function, vec3<f32>>) { *v = *v * 2.0; }
@compute @workgroup_size(1)
fn main() {
  o[0] = vec4<f32>(p.m * p.a, 0.0);
  o[1] = vec4<f32>(p.a * p.m, 1.0);
  o[2] = vec4<f32>(p.a + p.b, len2(p.a));
  o[3] = vec4<f32>(p.a.zyx, p.b.y);
  o[4] = vec4<f32>(select(p.a, p.b, p.a < p.b), f32(all(p.a == p.b)));
  var t = p.b; twice(&t); p.a = t;
  p.b = -p.a;
  p.b.x = p.a[1];
  o[5] = vec4<f32>(vec3<f32>(p.c) * 0.5, f32(p.d));
  p.c = p.c + vec3<i32>(p.d);
  p.c.z = p.c.x * 2;
  o[6] = vec4<f32>(min(p.a, p.b), max(p.a.x, p.s));
  o[7] = vec4<f32>(p.m[1] * p.t, p.m[2].y);
  let mm = p.m * p.m;
  o[8] = vec4<f32>(mm[0], mm[2][2]);
  p.m[0] = p.a;
  o[9] = vec4<f32>(abs(p.a) + floor(p.b), fma(p.s, p.t, p.a.x));
  o[10] = vec4<f32>(clamp(p.a, p.b, p.b + vec3<f32>(1.0)), 2.0);
}
""", mode="finite")

prog("runtime_array_pointer_param", """
@group(0) @binding(0) var<storage, read_write> data: array<u32>;
@group(0) @binding(1) var<storage, read_write> o: array<u32, 4>;
fn get(p: ptr<storage, array<u32>, read_write>, i: u32) -> u32 { return (*p)[i]; }
fn put(p: ptr<storage, array<u32>, read_write>, i: u32, v: u32) { (*p)[i] = v; }
@compute @workgroup_size(1)
fn main() { o[0] = get(&data, 0u); o[1] = get(&data, 2u); put(&data, 1u, 77u); o[2] = arrayLength(&data); }
""", rt=4)

# shapes the generated family (lib/mslgen.py) showed to matter, pinned down deterministically
prog("switch_case_tail_if", """
@group(0) @binding(0) var<storage, read_write> o: array<u32, 8>;
@group(0) @binding(1) var<uniform> u: vec4<u32>;
@compute @workgroup_size(1)
fn main() {
  for (var i: u32 = 0u; i < 4u; i++) {
    switch (i + u.x) % 4u {
      case 0u: {
        o[i] += 1u;
        if (u.y & 1u) == 0u { o[4] += 10u; break; }
      }
      case 1u, 2u: {
        o[i] += 100u;
        if (u.z & 1u) == 0u { o[5] += 1u; } else { o[5] += 7u; continue; }
      }
      default: { o[i] += 1000u; }
    }
    o[6] += i;
  }
}
""")

prog("continuing_only_helper", """
@group(0) @binding(0) var<storage, read_write> o: array<u32, 4>;
@group(0) @binding(1) var<storage, read_write> ticks: array<u32, 2>;
fn tick(k: u32) -> u32 { ticks[0] += k; ticks[1] += 1u; return k + 1u; }
fn spin(n: u32) -> u32 {
  var k: u32 = 0u;
  var acc: u32 = 0u;
  loop {
    acc += k * 3u;
    continuing { k = tick(k); break if k >= n; }
  }
  return acc;
}
@compute @workgroup_size(1)
fn main() { o[0] = spin(3u); o[1] = spin((o[2] & 3u) + 1u); }
""")

prog("value_matrix_dynamic_column", """
@group(0) @binding(0) var<storage, read_write> o: array<vec4<f32>, 6>;
@group(0) @binding(1) var<uniform> u: vec4<u32>;
fn col(m: mat4x2<f32>, i: u32) -> vec2<f32> { let c = m[i % 4u]; return c; }
@compute @workgroup_size(1)
fn main() {
  let a = mat4x2<f32>(vec2<f32>(1.0, 2.0), vec2<f32>(3.0, 4.0), vec2<f32>(5.0, 6.0), vec2<f32>(7.0, 8.0));
  let b = mat3x2<f32>(vec2<f32>(9.0, 10.0), vec2<f32>(11.0, 12.0), vec2<f32>(13.0, 14.0));
  let d = mat4x3<f32>(vec3<f32>(1.5), vec3<f32>(2.5), vec3<f32>(3.5), vec3<f32>(4.5));
  for (var i: u32 = 0u; i < 4u; i++) {
    let ca = a[i];
    let cb = b[(i + u.x) % 3u];
    let cd = d[(i + u.y) % 4u];
    let cc = col(a, i + u.z);
    o[i] = vec4<f32>(ca, cb);
    o[4][i] = cd.z;
    o[5][i] = cc.y;
  }
  var vm = mat3x2<f32>(vec2<f32>(1.0), vec2<f32>(2.0), vec2<f32>(3.0));
  vm[u.w % 3u] = vec2<f32>(20.0, 21.0);
  let lastc = vm[2];
  o[5].x = lastc.y;
}
""")

prog("array_constructor_repeated_component", """
struct S { a: array<f32, 3>, k: u32 }
@group(0) @binding(0) var<storage, read_write> o: array<f32, 12>;
@group(0) @binding(1) var<uniform> u: vec4<f32>;
fn sum(a: array<f32, 3>) -> f32 { return a[0] + a[1] * 2.0 + a[2] * 4.0; }
@compute @workgroup_size(1)
fn main() {
  let x = u.x + 1.0;
  let arr = array<f32, 3>(x, x, x);
  let nested = array<array<f32, 3>, 2>(arr, arr);
  let v = vec3<f32>(x, x, x);
  let m = mat2x3<f32>(v, v);
  let s = S(array<f32, 3>(x, x, x), 3u);
  o[0] = arr[0]; o[1] = arr[1]; o[2] = arr[2];
  o[3] = nested[1][2];
  o[4] = sum(arr);
  o[5] = v.z;
  o[6] = m[1].y;
  o[7] = s.a[2];
  o[8] = sum(array<f32, 3>(u.y, u.y, u.y));
}
""", mode="finite")

# found by the generated family (lib/mslgen.py): a C++ conditional expression emitted without enclosing parentheses
prog("select_scalar_operand", """
@group(0) @binding(0) var<storage, read_write> o: array<f32, 4>;
@group(0) @binding(1) var<uniform> u: vec4<f32>;
@compute @workgroup_size(1)
fn main() {
  let c = u.x < u.y;
  o[0] = u.z + select(u.w, 2.0, c);
  o[1] = -select(u.w, u.z, c);
  o[2] = select(u.x, u.y, c) * 3.0;
  o[3] = select(u.x, u.y, c);
}
""", mode="finite", finding="ternary-operand")

prog("rzsw_value_index_operand", """
@group(0) @binding(0) var<storage, read_write> o: array<u32, 4>;
@group(0) @binding(1) var<uniform> ix: vec4<u32>;
@compute @workgroup_size(1)
fn main() {
  let v = vec4<u32>(10u, 20u, 30u, 40u) + ix;
  let i = ix.x % 4u;
  o[0] = 5u ^ v[i];
  o[1] = v[i];
  let m = mat3x3<f32>(vec3<f32>(1.0, 2.0, 3.0), vec3<f32>(4.0, 5.0, 6.0), vec3<f32>(7.0, 8.0, 9.0));
  let col = m[i % 3u];
  o[2] = select(7u, 9u, col.z < 6.5);
  o[3] = u32(col.y);
}
""", finding="ternary-operand")

# ---------------------------------------------------------------- bounds-check policies: hostile indices
# Programs use the macros
#   @LOAD{dst|array|index|length|zero}      dst = array[index]
#   @STORE{array|index|length|value}        array[index] = value
#   @LOAD2{dst|array|i|leni|mid|j|lenj|zero}    dst = array[i]mid[j]   (mid: empty or a member path like .k)
#   @STORE2{array|i|leni|mid|j|lenj|value}
# expanded three ways: "hostile" (plain indexing: the program given to naga with the policy selected),
# "restrict" / "rzsw" (the policy written out explicitly: the reference, run by irrun).


def expand(src, variant):
    import re

    def split(body):
        return [x.strip() for x in body.split("|")]

    def load(m):
        dst, arr, i, n, zero = split(m.group(1))
        if variant == "hostile":
            return "%s = %s[%s];" % (dst, arr, i)
        if variant == "restrict":
            return "%s = %s[min(u32(%s), (%s) - 1u)];" % (dst, arr, i, n)
        return "if (u32(%s) < (%s)) { %s = %s[%s]; } else { %s = %s; }" % (i, n, dst, arr, i, dst, zero)

    def store(m):
        arr, i, n, val = split(m.group(1))
        if variant == "hostile":
            return "%s[%s] = %s;" % (arr, i, val)
        if variant == "restrict":
            return "%s[min(u32(%s), (%s) - 1u)] = %s;" % (arr, i, n, val)
        return "if (u32(%s) < (%s)) { %s[%s] = %s; }" % (i, n, arr, i, val)

    def load2(m):
        dst, arr, i, ni, mid, j, nj, zero = split(m.group(1))
        if variant == "hostile":
            return "%s = %s[%s]%s[%s];" % (dst, arr, i, mid, j)
        if variant == "restrict":
            return "%s = %s[min(u32(%s), (%s) - 1u)]%s[min(u32(%s), (%s) - 1u)];" % (dst, arr, i, ni, mid, j, nj)
        return "if (u32(%s) < (%s) && u32(%s) < (%s)) { %s = %s[%s]%s[%s]; } else { %s = %s; }" % (i, ni, j, nj, dst, arr, i, mid, j, dst, zero)

    def store2(m):
        arr, i, ni, mid, j, nj, val = split(m.group(1))
        if variant == "hostile":
            return "%s[%s]%s[%s] = %s;" % (arr, i, mid, j, val)
        if variant == "restrict":
            return "%s[min(u32(%s), (%s) - 1u)]%s[min(u32(%s), (%s) - 1u)] = %s;" % (arr, i, ni, mid, j, nj, val)
        return "if (u32(%s) < (%s) && u32(%s) < (%s)) { %s[%s]%s[%s] = %s; }" % (i, ni, j, nj, arr, i, mid, j, val)

    src = re.sub(r"@LOAD2\{([^}]*)\}", load2, src)
    src = re.sub(r"@STORE2\{([^}]*)\}", store2, src)
    src = re.sub(r"@LOAD\{([^}]*)\}", load, src)
    src = re.sub(r"@STORE\{([^}]*)\}", store, src)
    return src


# statement forms with inlined operator operands (lib/opforms.py): atomic statements whose index and value operands are
# operator expressions used once
import opforms as _opforms
for _n, _s in _opforms.programs(workgroup_array=False):
    prog(_n, _s, mode="pool", rt=4)

POLICY = {}


def pol(name, src, kind="index", rt=3):
    """kind: which policy governs the accesses ("index": function/private/workgroup + fixed-size;
    "buffer": storage/uniform)"""
    POLICY[name] = {"src": src, "kind": kind, "rt": rt}


pol("fixed_array_in_storage", """
struct S { a: array<i32, 4>, v: vec4<f32>, m: mat3x2<f32> }
@group(0) @binding(0) var<storage, read_write> s: S;
@group(0) @binding(1) var<storage, read_write> o: array<i32, 8>;
@group(0) @binding(2) var<uniform> ix: vec4<u32>;
@compute @workgroup_size(1)
fn main() {
  var x: i32; var f: f32; var g: f32;
  @LOAD{x|s.a|ix.x|4u|0}
  @STORE{s.a|ix.y|4u|x + 1}
  @LOAD{f|s.v|ix.z|4u|0.0}
  @STORE{s.v|ix.w|4u|f + 1.0}
  @LOAD2{g|s.m|ix.x|3u||ix.y|2u|0.0}
  @STORE2{s.m|ix.z|3u||ix.w|2u|g + 2.0}
  o[0] = x; o[1] = i32(f); o[2] = i32(g);
}
""", kind="buffer")

pol("local_and_private_arrays", """
var<private> pa: array<u32, 3> = array<u32, 3>(5u, 6u, 7u);
@group(0) @binding(0) var<storage, read_write> o: array<u32, 8>;
@group(0) @binding(1) var<uniform> ix: vec4<i32>;
fn pick(p: ptr<function, array<u32, 4>>, i: i32) -> u32 { var r: u32; @LOAD{r|(*p)|i|4u|0u} return r; }
@compute @workgroup_size(1)
fn main() {
  var la = array<u32, 4>(1u, 2u, 3u, 4u);
  var v = vec3<u32>(10u, 20u, 30u);
  var a: u32; var b: u32; var c: u32;
  @LOAD{a|la|ix.x|4u|0u}
  @STORE{la|ix.y|4u|a + 100u}
  @LOAD{b|pa|ix.z|3u|0u}
  @STORE{pa|ix.w|3u|b + 200u}
  @LOAD{c|v|ix.x|3u|0u}
  @STORE{v|ix.y|3u|c + 300u}
  o[0] = a; o[1] = b; o[2] = c; o[3] = la[0] + la[1] + la[2] + la[3]; o[4] = pa[0] + pa[1] + pa[2]; o[5] = v.x + v.y + v.z;
  o[6] = pick(&la, ix.z);
}
""", kind="index")

pol("workgroup_array", """
var<workgroup> w: array<i32, 5>;
@group(0) @binding(0) var<storage, read_write> o: array<i32, 4>;
@group(0) @binding(1) var<uniform> ix: vec4<u32>;
@compute @workgroup_size(1)
fn main() {
  var a: i32;
  @STORE{w|ix.x|5u|7}
  @LOAD{a|w|ix.y|5u|0}
  o[0] = a; o[1] = w[0] + w[1] + w[2] + w[3] + w[4];
}
""", kind="index")

pol("runtime_array_struct_member", """
struct H { n: u32, items: array<vec2<i32>> }
@group(0) @binding(0) var<storage, read_write> h: H;
@group(0) @binding(1) var<storage, read_write> o: array<i32, 4>;
@group(0) @binding(2) var<uniform> ix: vec4<u32>;
@compute @workgroup_size(1)
fn main() {
  var a: vec2<i32>;
  @LOAD{a|h.items|ix.x|arrayLength(&h.items)|vec2<i32>()}
  @STORE{h.items|ix.y|arrayLength(&h.items)|a + vec2<i32>(1)}
  o[0] = a.x; o[1] = a.y;
}
""", kind="buffer")

pol("runtime_array_global", """
@group(0) @binding(0) var<storage, read_write> data: array<u32>;
@group(0) @binding(1) var<storage, read_write> o: array<u32, 4>;
@group(0) @binding(2) var<uniform> ix: vec4<u32>;
@compute @workgroup_size(1)
fn main() {
  var a: u32;
  @LOAD{a|data|ix.x|arrayLength(&data)|0u}
  @STORE{data|ix.y|arrayLength(&data)|a + 1u}
  o[0] = a;
}
""", kind="buffer")

pol("nested_chain_dynamic", """
struct E { k: array<i32, 3>, v: vec3<f32> }
struct S { es: array<E, 2> }
@group(0) @binding(0) var<storage, read_write> s: S;
@group(0) @binding(1) var<storage, read_write> o: array<i32, 4>;
@group(0) @binding(2) var<uniform> ix: vec4<u32>;
@compute @workgroup_size(1)
fn main() {
  var a: i32; var f: f32;
  @LOAD2{a|s.es|ix.x|2u|.k|ix.y|3u|0}
  @STORE2{s.es|ix.z|2u|.k|ix.w|3u|a + 5}
  @LOAD2{f|s.es|ix.y|2u|.v|ix.x|3u|0.0}
  @STORE2{s.es|ix.w|2u|.v|ix.z|3u|f + 1.0}
  o[0] = a; o[1] = i32(f);
}
""", kind="buffer")

pol("pointer_argument_chain", """
@group(0) @binding(0) var<storage, read_write> o: array<i32, 4>;
@group(0) @binding(1) var<uniform> ix: vec4<u32>;
fn poke(p: ptr<function, array<i32, 3>>, i: u32, v: i32) { @STORE{(*p)|i|3u|v} }
fn peek(p: ptr<function, array<i32, 3>>, i: u32) -> i32 { var r: i32; @LOAD{r|(*p)|i|3u|0} return r; }
@compute @workgroup_size(1)
fn main() {
  var a = array<i32, 3>(1, 2, 3);
  poke(&a, ix.x, 9);
  o[0] = peek(&a, ix.y); o[1] = a[0] + a[1] * 10 + a[2] * 100;
}
""", kind="index")
