"""C06: Gen/FoldTables.v -- every switch statement of the constant folder's leaf functions
(wgsl/internal/lower/lower.go), regenerated from the Go source on every run through
harness/cmd/goextract (funcsrc).  The obligations over it are in coq/Fold/FoldGen.v."""
import re

FOLD_FUNCS = [
    ("foldBinaryLiterals", None), ("tryFoldBinaryOp", "Lowerer"), ("tryFoldUnaryOp", "Lowerer"),
    ("evalConstantBinaryExpr", "Lowerer"), ("evalConstU32Expr", "Lowerer"),
    ("makeIntLiteral", None), ("literalToI64", None),
    ("foldMin", "Lowerer"), ("foldMax", "Lowerer"), ("foldClamp", "Lowerer"), ("foldAbs", "Lowerer"), ("foldSign", "Lowerer"),
    ("concretizeShiftRight", "Lowerer"), ("scalarValueToLiteral", None),
]


def go_switches(body):
    """All `switch ... {` statements of a go/printer-formatted function body in source order:
       [(header, [(case labels, statements joined by ' ; ')...])...].  Failure returns are
       normalised to FAIL so that sibling functions with different result types compare."""
    lines = body.split("\n")
    out = []
    for i, line in enumerate(lines):
        m = re.match(r"^(\t*)switch (.*) \{$", line)
        if not m:
            continue
        ind, header = m.group(1), m.group(2)
        cases = []
        cur = None
        j = i + 1
        while j < len(lines) and lines[j] != ind + "}":
            ln = lines[j]
            cm = re.match(r"^" + ind + r"(case (.*)|default):$", ln)
            if cm:
                cur = [cm.group(2) if cm.group(2) is not None else "default", []]
                cases.append(cur)
            elif cur is not None and ln.strip() and not ln.strip().startswith("//"):
                t = re.sub(r"^return (nil|0), false$", "FAIL", ln.strip())
                cur[1].append(t)
            j += 1
        out.append((header, [(c[0], " ; ".join(c[1])) for c in cases]))
    return out


def function_text(body):
    """the statements of a function body outside any switch, comments and blank lines removed"""
    return [ln.strip() for ln in body.split("\n") if ln.strip() and not ln.strip().startswith("//")]


def generate(gen, tools):
    reqs = [{"kind": "funcsrc", "file": "wgsl/internal/lower/lower.go", "name": n, **({"recv": r} if r else {})} for n, r in FOLD_FUNCS]
    bodies = gen.extract(tools, reqs)
    cs = gen.coq_string
    out = ["From Coq Require Import List String.", "Import ListNotations.", "Open Scope string_scope.", "",
           "(* every switch statement of the named functions of wgsl/internal/lower/lower.go, in source order:",
           "   (function, [(switch header, [(case labels, statements)])]) *)",
           "Definition go_fold_switches : list (string * list (string * list (string * string))) := ["]
    rows = []
    for (name, _), body in zip(FOLD_FUNCS, bodies):
        sw = go_switches(body)
        srows = ["    (%s, [%s])" % (cs(h), "; ".join("(%s, %s)" % (cs(a), cs(b)) for a, b in cases)) for h, cases in sw]
        rows.append("  (%s, [\n%s])" % (cs(name), ";\n".join(srows)))
    out.append(";\n".join(rows))
    out.append("].\n")
    out.append("(* the same functions as statement lists (comments and blank lines removed) *)")
    out.append("Definition go_fold_bodies : list (string * list string) := [")
    out.append(";\n".join("  (%s, [%s])" % (cs(name), "; ".join(cs(t) for t in function_text(body)))
                          for (name, _), body in zip(FOLD_FUNCS, bodies)))
    out.append("].")
    return [gen.write("Gen/FoldTables.v", "\n".join(out) + "\n")]
