"""C13: small WGSL programs that exercise what the IR passes touch (unused
functions/globals/constants/types, helpers shared by entry points, early returns,
loops/switch/continuing, name clashes between caller and callee locals, struct
locals accessed by field, locals stored on one path only, dead stores).
All are compute shaders whose results land in storage buffers, so that the
reference interpreter observes every effect."""

HDR = """struct Buf { data: array<u32, 8> }
@group(0) @binding(0) var<storage, read_write> buf: Buf;
"""
HDRI = """struct BufI { data: array<i32, 8> }
@group(0) @binding(0) var<storage, read_write> buf: BufI;
"""
HDRF = """struct BufF { data: array<f32, 8> }
@group(0) @binding(0) var<storage, read_write> buf: BufF;
"""

PROGRAMS = [
# a scalar local assigned in an if-branch whose LAST statement is a switch with C-style `break;` in every clause, read after
# the if (the branch falls through: a `break` leaves the switch only) - both arms, with and without an else, nested in a loop
("if_branch_ends_in_switch_with_breaks", HDR + """
@compute @workgroup_size(1) fn main() {
  var x = buf.data[0];
  let c = buf.data[1];
  let s = buf.data[2];
  if (c > 2u) { switch (s) { case 0u: { x = x + 1u; break; } case 1u, 2u: { x = x * 3u; break; } default: { x = 7u; break; } } }
  buf.data[4] = x;
  var y = buf.data[3];
  if (c > 5u) { y = y + 100u; } else { y = y + 1u; switch (s) { case 0u: { y = y + 10u; break; } default: { break; } } }
  buf.data[5] = y;
  buf.data[6] = x + y;
}
"""),
("if_branch_ends_in_switch_with_return_and_break", HDRI + """
fn pick(c: i32, s: i32, x0: i32) -> i32 {
  var x = x0;
  if (c > 0) { x = x + 1; switch (s) { case 0: { x = x + 10; break; } case 1: { return -1; } default: { x = x - 2; break; } } }
  return x;
}
@compute @workgroup_size(1) fn main() {
  buf.data[4] = pick(buf.data[0], buf.data[1], buf.data[2]);
  buf.data[5] = pick(buf.data[1], buf.data[0], buf.data[3]);
  var t = buf.data[2];
  if (buf.data[0] > 1) { switch (buf.data[1]) { case 0: { t = 11; break; } default: { t = t + 5; break; } } }
  buf.data[6] = t;
}
"""),
("unused_fn_global", HDR + """
@group(0) @binding(1) var<storage, read_write> other: Buf;
var<private> counter: u32 = 3u;
const K: u32 = 5u;
const UNUSEDK: u32 = 7u;
fn unused_fn(y: u32) -> u32 { return y * 2u + other.data[0]; }
fn bump() { counter = counter + K; }
@compute @workgroup_size(1) fn main() {
  bump();
  buf.data[1] = buf.data[0] + counter;
}
"""),
("global_only_via_callee", HDR + """
@group(0) @binding(1) var<storage, read_write> side: Buf;
var<private> acc: u32 = 1u;
fn deep() -> u32 { return side.data[2] + acc; }
fn mid(x: u32) -> u32 { acc = acc + x; return deep() * 2u; }
@compute @workgroup_size(1) fn main() {
  buf.data[0] = mid(buf.data[1]);
}
"""),
("two_entry_points_shared_helper", HDR + """
@group(0) @binding(1) var<storage, read_write> b2: Buf;
fn sq(x: u32) -> u32 { return x * x; }
fn only_b(x: u32) -> u32 { return x + b2.data[1]; }
@compute @workgroup_size(1) fn ep_a() { buf.data[0] = sq(buf.data[1]) + 1u; }
@compute @workgroup_size(1) fn ep_b() { b2.data[0] = sq(only_b(buf.data[2])); }
"""),
("unused_types_consts", HDR + """
struct Unused { a: vec3<f32>, b: mat2x2<f32> }
struct Used { x: u32, y: u32 }
const C1: u32 = 11u;
const C2 = 13;
const C3: vec2<u32> = vec2<u32>(1u, 2u);
const DEAD: array<u32, 3> = array<u32, 3>(4u, 5u, 6u);
@compute @workgroup_size(1) fn main() {
  var u: Used = Used(C1, C3.y);
  u.y = u.y + u32(C2);
  buf.data[0] = u.x + u.y;
}
"""),
("dead_expressions", HDR + """
@compute @workgroup_size(1) fn main() {
  let a = buf.data[0];
  let b = a * 3u + 1u;
  _ = b * 7u;
  _ = select(1u, 2u, a > 3u);
  let c = select(b, a, (a & 1u) == 0u);
  buf.data[1] = c;
  buf.data[2] = select(5u, 9u, c > b);
}
"""),
("select_three_operands", HDRI + """
@compute @workgroup_size(1) fn main() {
  let x = buf.data[0];
  let y = buf.data[1];
  let unused1 = x + y;
  let cond = x < y;
  let unused2 = x - y;
  let acc = x * 2;
  let unused3 = y * 2;
  let rej = y * 3;
  buf.data[2] = select(rej, acc, cond);
  buf.data[3] = select(acc, rej, !cond);
}
"""),
("early_return_in_loop", HDR + """
fn find(limit: u32) -> u32 {
  var i: u32 = 0u;
  loop {
    if (i >= limit) { break; }
    if (buf.data[i & 7u] == 3u) { return i + 100u; }
    i = i + 1u;
  }
  return 7u;
}
@compute @workgroup_size(1) fn main() {
  buf.data[7] = find(buf.data[0] & 7u);
}
"""),
("early_return_in_if", HDR + """
fn clampish(x: u32) -> u32 {
  if (x > 10u) { return 10u; }
  if (x < 2u) { return 2u; }
  return x;
}
@compute @workgroup_size(1) fn main() {
  buf.data[1] = clampish(buf.data[0]);
  buf.data[2] = clampish(buf.data[1] + 20u);
}
"""),
("void_early_return", HDR + """
fn maybe_store(i: u32) {
  if (i > 2u) { return; }
  buf.data[i] = 41u;
}
@compute @workgroup_size(1) fn main() {
  maybe_store(buf.data[7] & 3u);
  buf.data[6] = 1u;
}
"""),
("return_in_switch", HDRI + """
fn pick(k: i32) -> i32 {
  switch (k) {
    case 0: { return 10; }
    case 1, 2: { return 20; }
    default: { }
  }
  return k + 1;
}
@compute @workgroup_size(1) fn main() {
  buf.data[1] = pick(buf.data[0] & 3);
}
"""),
("callee_locals_same_names", HDR + """
fn f(x: u32) -> u32 {
  var t: u32 = x;
  var i: u32 = 0u;
  t = t + 1u;
  i = t * 2u;
  return i;
}
@compute @workgroup_size(1) fn main() {
  var t: u32 = buf.data[0];
  var i: u32 = 5u;
  let r = f(t);
  t = t + i;
  buf.data[1] = r + t + i;
}
"""),
("call_in_loop_local_init", HDR + """
fn count_up(x: u32) -> u32 {
  var n: u32 = 0u;
  n = n + x + 1u;
  return n;
}
@compute @workgroup_size(1) fn main() {
  var s: u32 = 0u;
  for (var k: u32 = 0u; k < 3u; k = k + 1u) {
    s = s + count_up(k);
  }
  buf.data[0] = s;
}
"""),
("call_in_loop_zero_local", HDR + """
fn accum(x: u32) -> u32 {
  var n: u32;
  n = n + x;
  return n;
}
@compute @workgroup_size(1) fn main() {
  var s: u32 = 0u;
  for (var k: u32 = 1u; k < 4u; k = k + 1u) {
    s = s * 10u + accum(k);
  }
  buf.data[0] = s;
}
"""),
("aggregate_arg_then_store", """
struct V { data: array<vec4<u32>, 2> }
@group(0) @binding(0) var<storage, read_write> buf: V;
fn g(v: vec4<u32>) -> u32 {
  buf.data[0] = vec4<u32>(9u, 9u, 9u, 9u);
  return v.x + v.y;
}
@compute @workgroup_size(1) fn main() {
  let r = g(buf.data[0]);
  buf.data[1] = vec4<u32>(r, 0u, 0u, 0u);
}
"""),
("nested_helpers", HDR + """
fn a(x: u32) -> u32 { return x + 1u; }
fn b(x: u32) -> u32 { return a(x) * a(x + 1u); }
fn c(x: u32) -> u32 { return b(a(x)) + b(x); }
@compute @workgroup_size(1) fn main() { buf.data[0] = c(buf.data[1] & 15u); }
"""),
("pointer_arg", HDR + """
fn inc(p: ptr<function, u32>, by: u32) { *p = *p + by; }
@compute @workgroup_size(1) fn main() {
  var x: u32 = buf.data[0];
  inc(&x, 2u);
  inc(&x, buf.data[1]);
  buf.data[2] = x;
}
"""),
("switch_loop_continuing", HDRI + """
@compute @workgroup_size(1) fn main() {
  var acc: i32 = 0;
  var i: i32 = 0;
  loop {
    if (i >= 5) { break; }
    switch (i) {
      case 0: { acc = acc + 1; }
      case 1: { acc = acc + 10; continue; }
      case 2, 3: { acc = acc + 100; }
      default: { acc = acc + 1000; }
    }
    acc = acc + buf.data[i & 7];
    continuing { i = i + 1; }
  }
  buf.data[7] = acc;
}
"""),
("break_if_continuing", HDR + """
@compute @workgroup_size(1) fn main() {
  var i: u32 = 0u;
  var s: u32 = 0u;
  loop {
    s = s + buf.data[i & 7u];
    continuing {
      i = i + 1u;
      break if i >= 4u;
    }
  }
  buf.data[7] = s;
}
"""),
("struct_local_fields", HDRF + """
struct P { a: f32, b: f32, c: vec2<f32> }
@compute @workgroup_size(1) fn main() {
  var p: P;
  p.a = buf.data[0];
  p.b = buf.data[1] + 1.0;
  p.c = vec2<f32>(p.a, p.b);
  p.a = p.c.y * 2.0;
  buf.data[2] = p.a + p.b;
  buf.data[3] = p.c.x;
}
"""),
("struct_ctor_store_then_fields", HDR + """
struct Q { x: u32, y: u32 }
@compute @workgroup_size(1) fn main() {
  var q: Q = Q(buf.data[0], 2u);
  buf.data[1] = q.x + q.y;
}
"""),
("loop_carried_local_only_in_body", HDR + """
@compute @workgroup_size(1) fn main() {
  var n: u32;
  var i: u32 = 0u;
  loop {
    if (i >= 3u) { break; }
    n = n + buf.data[i];
    buf.data[4u + i] = n;
    continuing { i = i + 1u; }
  }
}
"""),
("nested_call_result_chain", HDR + """
fn inc(x: u32) -> u32 { return x + 1u; }
@compute @workgroup_size(1) fn main() { buf.data[0] = inc(inc(buf.data[1])); }
"""),
("struct_local_whole_copy", HDR + """
struct Q { x: u32, y: u32 }
@compute @workgroup_size(1) fn main() {
  var q: Q = Q(buf.data[0], 2u);
  var r: Q = q;
  q.x = 50u;
  r.y = r.y + q.x;
  buf.data[1] = r.x;
  buf.data[2] = r.y;
  buf.data[3] = q.x;
}
"""),
("local_stored_one_path", HDR + """
@compute @workgroup_size(1) fn main() {
  var v: u32 = 7u;
  if (buf.data[0] > 3u) { v = buf.data[1]; }
  buf.data[2] = v;
  var w: u32;
  if (buf.data[0] > 5u) { w = 1u; } else { if (buf.data[1] > 5u) { w = 2u; } }
  buf.data[3] = w;
}
"""),
("store_then_conditional_store", HDR + """
@compute @workgroup_size(1) fn main() {
  var v: u32;
  v = buf.data[0];
  if (buf.data[1] > 3u) { v = v + 10u; }
  buf.data[2] = v;
  var w: u32;
  w = buf.data[3];
  switch (buf.data[4] & 3u) {
    case 0u: { w = 100u; }
    case 1u: { w = w + 1u; }
    default: { }
  }
  buf.data[5] = w;
}
"""),
("store_then_conditional_const", HDR + """
@compute @workgroup_size(1) fn main() {
  var x: u32;
  x = buf.data[0];
  if (buf.data[1] > 3u) { x = 50u; }
  buf.data[2] = x;
  var y: u32;
  y = buf.data[3] + 1u;
  switch (buf.data[4] & 1u) {
    case 0u: { y = 60u; }
    default: { }
  }
  buf.data[5] = y;
}
"""),
("store_then_store_in_nested_block", HDRI + """
@compute @workgroup_size(1) fn main() {
  var a: i32;
  a = buf.data[0];
  {
    if (a > 2) { a = a - 2; } else { if (a < 1) { a = 9; } }
  }
  buf.data[1] = a;
}
"""),
("local_in_loop_mem2reg", HDR + """
@compute @workgroup_size(1) fn main() {
  var s: u32 = 0u;
  var last: u32 = 99u;
  for (var i: u32 = 0u; i < 4u; i = i + 1u) {
    if ((buf.data[i] & 1u) == 1u) { last = i; s = s + buf.data[i]; }
  }
  buf.data[6] = s;
  buf.data[7] = last;
}
"""),
("dead_stores", HDR + """
@compute @workgroup_size(1) fn main() {
  var d: u32 = 1u;
  d = buf.data[0];
  d = d + 1u;
  var e: u32 = d;
  e = 5u;
  var unused: u32 = buf.data[3] * 2u;
  unused = unused + 1u;
  buf.data[1] = e + d;
}
"""),
("store_through_pointer_call", HDR + """
fn set(p: ptr<function, u32>) { *p = 77u; }
fn get(p: ptr<function, u32>) -> u32 { return *p; }
@compute @workgroup_size(1) fn main() {
  var x: u32 = 1u;
  x = buf.data[0];
  set(&x);
  var y: u32 = 2u;
  y = buf.data[1];
  buf.data[2] = get(&y) + x;
}
"""),
("private_global_helper_writes", HDR + """
var<private> state: u32 = 1u;
fn step() -> u32 { state = state * 3u + 1u; return state; }
@compute @workgroup_size(1) fn main() {
  let a = step();
  let b = step();
  buf.data[0] = a;
  buf.data[1] = b;
  buf.data[2] = state;
}
"""),
("workgroup_var", HDR + """
var<workgroup> wg: array<u32, 4>;
fn fill(k: u32) { wg[k & 3u] = k * 2u; }
@compute @workgroup_size(1) fn main() {
  fill(buf.data[0]);
  fill(buf.data[0] + 1u);
  workgroupBarrier();
  buf.data[1] = wg[0] + wg[1] + wg[2] + wg[3];
}
"""),
("vector_math_helpers", HDRF + """
fn lerp2(a: vec2<f32>, b: vec2<f32>, t: f32) -> vec2<f32> { return a + (b - a) * t; }
@compute @workgroup_size(1) fn main() {
  let a = vec2<f32>(buf.data[0], buf.data[1]);
  let b = vec2<f32>(2.0, 4.0);
  let r = lerp2(a, b, 0.5);
  buf.data[2] = r.x;
  buf.data[3] = r.y;
}
"""),
("array_local_dynamic_index", HDR + """
@compute @workgroup_size(1) fn main() {
  var arr: array<u32, 4> = array<u32, 4>(1u, 2u, 3u, 4u);
  let k = buf.data[0] & 3u;
  arr[k] = arr[k] + 10u;
  buf.data[1] = arr[0] + arr[1] * 10u + arr[2] * 100u + arr[3] * 1000u;
}
"""),
("atomic_counter", """
struct A { c: atomic<u32>, out: array<u32, 4> }
@group(0) @binding(0) var<storage, read_write> a: A;
fn next() -> u32 { return atomicAdd(&a.c, 1u); }
@compute @workgroup_size(1) fn main() {
  let i = next();
  let j = next();
  a.out[i & 3u] = j;
}
"""),
("uniform_and_storage", """
struct U { scale: u32, bias: u32 }
struct S { v: array<u32, 4> }
@group(0) @binding(0) var<uniform> u: U;
@group(0) @binding(1) var<storage, read_write> s: S;
@group(0) @binding(2) var<uniform> unused_u: U;
fn apply(x: u32) -> u32 { return x * u.scale + u.bias; }
@compute @workgroup_size(1) fn main(@builtin(global_invocation_id) gid: vec3<u32>) {
  let i = gid.x & 3u;
  s.v[i] = apply(s.v[i]);
}
"""),
("multiple_returns_nested_loop", HDR + """
fn search() -> u32 {
  for (var i: u32 = 0u; i < 3u; i = i + 1u) {
    for (var j: u32 = 0u; j < 3u; j = j + 1u) {
      if (buf.data[i + j] == 2u) { return i * 10u + j; }
    }
  }
  return 99u;
}
@compute @workgroup_size(1) fn main() { buf.data[7] = search(); }
"""),
("helper_with_let_names", HDR + """
fn h(x: u32) -> u32 { let tmp = x * 2u; let res = tmp + 1u; return res; }
@compute @workgroup_size(1) fn main() {
  let tmp = buf.data[0];
  let res = h(tmp) + h(tmp + 1u);
  buf.data[1] = res + tmp;
}
"""),
("bool_locals_and_logic", HDR + """
fn both(a: bool, b: bool) -> bool { return a && b; }
@compute @workgroup_size(1) fn main() {
  var f: bool = buf.data[0] > 1u;
  var g: bool = false;
  if (f) { g = buf.data[1] > 1u; }
  buf.data[2] = select(0u, 1u, both(f, g));
  buf.data[3] = select(0u, 1u, f || g);
}
"""),
("matrix_local", HDRF + """
@compute @workgroup_size(1) fn main() {
  var m: mat2x2<f32> = mat2x2<f32>(1.0, 2.0, 3.0, 4.0);
  m[1] = vec2<f32>(buf.data[0], 1.0);
  let v = m * vec2<f32>(1.0, 2.0);
  buf.data[1] = v.x;
  buf.data[2] = v.y;
}
"""),
("void_helper_tail_switch", HDR + """
fn classify(k: u32) {
  switch (k) {
    case 0u: { buf.data[1] = 10u; }
    default: { buf.data[1] = 20u; }
  }
}
@compute @workgroup_size(1) fn main() {
  classify(buf.data[0] & 1u);
  buf.data[2] = 1u;
}
"""),
("switch_case_break_before_store", HDR + """
@compute @workgroup_size(1) fn main() {
  let a = buf.data[0];
  var v: u32 = a + 1u;
  switch ((buf.data[1] | 2u) & 2u) {
    case 2u: { if ((a | 1u) != 0u) { break; } v = 7u; }
    default: { v = a; }
  }
  buf.data[2] = v;
  var w: u32 = a + 2u;
  switch (buf.data[3] & 1u) {
    case 0u: { break; }
    default: { w = 9u; }
  }
  buf.data[4] = w;
}
"""),
("dead_pointee_type_in_lowering", HDR + """
@compute @workgroup_size(1) fn main() {
  var m: mat2x2<f32>;
  let p: ptr<function, vec2<f32>> = &m[1];
  buf.data[0] = 1u;
}
"""),
("dead_pointer_type_chain", HDR + """
fn unused_fn(p: ptr<function, vec4<i32>>) -> i32 { return (*p).x; }
@compute @workgroup_size(1) fn main() { buf.data[0] = 1u; }
"""),
("call_only_in_continuing", HDR + """
@group(0) @binding(1) var<storage, read_write> ticks: Buf;
fn other(x: u32) -> u32 { return x * 3u; }
fn advance(i: u32) -> u32 { ticks.data[0] = ticks.data[0] + i; return i + 1u; }
fn step2(i: u32) -> u32 { ticks.data[1] = ticks.data[1] + 1u; return i + 2u; }
@compute @workgroup_size(1) fn main() {
  var s: u32 = 0u;
  for (var i: u32 = 0u; i < 4u; i = advance(i)) { s = s + buf.data[i]; }
  var k: u32 = 0u;
  loop {
    if (k >= 6u) { break; }
    s = s + other(k);
    continuing { k = step2(k); }
  }
  buf.data[7] = s;
}
"""),
("switch_multi_selector_call_in_case", HDR + """
fn twice(x: u32) -> u32 { return x * 2u; }
fn bump(x: u32) -> u32 { buf.data[6] = buf.data[6] + 1u; return x + 1u; }
@compute @workgroup_size(1) fn main() {
  let x = buf.data[7];
  switch (x & 1u) {
    case 0u, 1u: { buf.data[0] = buf.data[0] + twice(x) + 1u; }
    default: { }
  }
  switch (x & 1u) {
    case 1u, 0u: { buf.data[1] = bump(x); }
    default: { }
  }
  switch (x & 3u) {
    case 2u: { buf.data[2] = twice(buf.data[2] + 1u); }
    case 3u, default: { buf.data[3] = buf.data[3] + 10u; }
  }
  switch (x & 3u) {
    case 0u, 1u, 2u, 3u: { buf.data[4] = 7u; }
    default: { buf.data[5] = bump(buf.data[5]); }
  }
}
"""),
# CompactUnused removes `dead0`/`dead1` and the globals `unused_a`/`unused_b`: every later function and global handle
# shifts, and the shifted handles sit in a `continuing` block, in switch case bodies (one of them with fall-through
# selectors), in a nested block and in the LAST function / LAST global (remapStmtFuncHandles, globalRemap)
("shifted_handles_in_continuing_and_cases", HDR + """
@group(0) @binding(1) var<storage, read_write> unused_a: Buf;
@group(0) @binding(2) var<storage, read_write> ticks: Buf;
var<private> unused_b: u32 = 9u;
var<private> last_global: u32 = 1u;
fn dead0(x: u32) -> u32 { unused_a.data[0] = x; return x + 100u; }
fn advance(i: u32) -> u32 { ticks.data[0] = ticks.data[0] + i; return i + 1u; }
fn dead1(x: u32) -> u32 { unused_b = x; return dead0(x); }
fn in_case(x: u32) -> u32 { ticks.data[1] = ticks.data[1] + 1u; return x * 2u; }
fn in_block(x: u32) -> u32 { return x + last_global; }
fn last_fn(x: u32) -> u32 { last_global = last_global + x; return last_global; }
@compute @workgroup_size(1) fn main() {
  var s: u32 = 0u;
  for (var i: u32 = 0u; i < 3u; i = advance(i)) { s = s + buf.data[i]; }
  var k: u32 = 0u;
  loop {
    if (k >= 4u) { break; }
    switch (k) {
      case 0u, 1u: { buf.data[3] = buf.data[3] + in_case(k); }
      case 2u: { { buf.data[4] = buf.data[4] + in_block(k); } }
      default: { buf.data[5] = buf.data[5] + last_fn(k); }
    }
    continuing { k = last_fn(k); }
  }
  buf.data[7] = s;
  buf.data[6] = last_global;
}
"""),
# InlineUserFunctions: statement kinds remapInlineStatementHandles does not renumber (Passes/InlineStale.v; recorded
# findings inline:unremapped:*).  The reference interpreter does not model these statements: structural evidence only.
("inline_callee_compare_exchange", """@group(0) @binding(0) var<storage, read_write> a: atomic<u32>;
@group(0) @binding(1) var<storage, read_write> out: array<u32, 4>;
fn helper(x: u32, y: u32) -> u32 {
  let cmp = x + 1u;
  let r = atomicCompareExchangeWeak(&a, cmp, y);
  return r.old_value;
}
@compute @workgroup_size(1) fn main() {
  let p = out[0];
  let q = out[1];
  let z = p * 3u;
  out[2] = helper(p, q);
  out[3] = z;
}
"""),
("inline_callee_workgroup_uniform_load", """var<workgroup> w: u32;
@group(0) @binding(1) var<storage, read_write> out: array<u32, 4>;
fn helper(x: u32) -> u32 {
  let v = workgroupUniformLoad(&w);
  return v + x;
}
@compute @workgroup_size(1) fn main() {
  let p = out[0];
  let q = out[1] + p;
  w = q;
  out[2] = helper(p);
}
"""),
# InlineUserFunctions: the initialiser of a callee local is the LAST handle of the callee's arena (Init remap boundary),
# once read and once in a local that is never read
("inline_local_init_last_handle", HDR + """
fn helper(x: u32) -> u32 {
  let y = x + 1u;
  var t: u32 = 7u;
  t = t + y;
  return t;
}
fn late_init(x: u32) -> u32 {
  let y = x * 2u;
  var last: u32 = 9u;
  return y;
}
fn reads_late(x: u32) -> u32 {
  let y = x * 3u;
  var last: u32 = 11u;
  return y + last;
}
@compute @workgroup_size(1) fn main() {
  buf.data[0] = helper(buf.data[1]);
  buf.data[2] = late_init(buf.data[3]);
  buf.data[4] = reads_late(buf.data[5]);
}
"""),
("override_free_constants_chain", HDR + """
const A: u32 = 2u;
const B: u32 = A * 3u;
const C: u32 = B + A;
const UNUSED_CHAIN: u32 = C * C;
var<private> init_from_const: u32 = C;
@compute @workgroup_size(1) fn main() { buf.data[0] = init_from_const + B; }
"""),
]
