"""C04 differential machinery: WGSL program -> (IR dump, MSL text under option sets) via
harness/cmd/msldrive; inputs generated from the IR types; `irrun` on the IR vs `mslrun` on
the parsed MSL; comparison of final storage-buffer contents; C++-layout-vs-IR-offset check."""
import json
import os

import gen
import mslread
import nagarun
import vcheck

M32 = 1 << 32

# option sets (see harness/cmd/msldrive): every one of them must preserve meaning
OPTSETS = {
    "default": {"name": "default"},
    "v12_restrict": {"name": "v12_restrict", "lang": [1, 2], "index": "restrict", "buffer": "restrict"},
    "v20_unchecked": {"name": "v20_unchecked", "lang": [2, 0], "index": "unchecked", "buffer": "unchecked", "loop_bound": False},
    "v23_mixed": {"name": "v23_mixed", "lang": [2, 3], "index": "restrict", "buffer": "rzsw", "loop_bound": False},
    "v24_rzsw": {"name": "v24_rzsw", "lang": [2, 4], "index": "rzsw", "buffer": "rzsw", "loop_bound": True},
    "v30_mixed2": {"name": "v30_mixed2", "lang": [3, 0], "index": "rzsw", "buffer": "restrict"},
    "v31_nozero": {"name": "v31_nozero", "lang": [3, 1], "zero_wg": False},
}
CHECKED = {"default": ("rzsw", "rzsw"), "v12_restrict": ("restrict", "restrict"), "v23_mixed": ("restrict", "rzsw"),
           "v24_rzsw": ("rzsw", "rzsw"), "v30_mixed2": ("rzsw", "restrict"), "v31_nozero": ("rzsw", "rzsw")}

BUILTIN_ATTR = {
    "BuiltinGlobalInvocationID": "thread_position_in_grid",
    "BuiltinLocalInvocationID": "thread_position_in_threadgroup",
    "BuiltinLocalInvocationIndex": "thread_index_in_threadgroup",
    "BuiltinWorkGroupID": "threadgroup_position_in_grid",
    "BuiltinNumWorkGroups": "threadgroups_per_grid",
}

I32_POOL = [0, 1, 2, 3, 5, 7, 31, 32, 33, 0x7FFFFFFF, 0x80000000, 0x80000001, 0xFFFFFFFF, 0xFFFFFFFE, 0xFFFFFFE0, 100, 0x12345678, 0xFFFF0000]
F32_POOL = [0x00000000, 0x80000000, 0x3F800000, 0xBF800000, 0x3F000000, 0xBF000000, 0x40200000, 0xC0200000, 0x3FC00000,
            0x40400000, 0x00000001, 0x80000001, 0x007FFFFF, 0x7F7FFFFF, 0xFF7FFFFF, 0x7F800000, 0xFF800000, 0x7FC00000,
            0x4F000000, 0xCF000000, 0x4F800000, 0x4EFFFFFF, 0x4B000000, 0x4B000001, 0x3EAAAAAB, 0x42F60000, 0xC2F60000]


F32_SMALL = [0x00000000, 0x3F800000, 0xBF800000, 0x40000000, 0x40400000, 0x40800000, 0x3F000000, 0xC0A00000, 0x41200000, 0x40200000, 0xC0200000, 0x3FC00000]


class Enums:
    def __init__(self, tools):
        res = gen.extract(tools, [{"kind": "consts", "file": f} for f in gen.IR_ENUM_FILES])
        self.by_type = {}
        for consts in res:
            for n, v, t in consts:
                if t and v.lstrip("-").isdigit():
                    self.by_type.setdefault(t, {})[int(v)] = n

    def name(self, ty, n):
        return self.by_type.get(ty, {}).get(n, "?%s" % n)


class IrTypes:
    """Walks the reflection dump of ir.Module types."""
    def __init__(self, ir, enums):
        self.ir = ir
        self.types = ir["Types"]
        self.enums = enums

    def inner(self, h):
        return self.types[h]["Inner"]

    def scalar_kind(self, s):
        k = self.enums.name("ScalarKind", s["Kind"])
        w = s["Width"]
        if k == "ScalarSint" and w == 4:
            return "i"
        if k == "ScalarUint" and w == 4:
            return "u"
        if k == "ScalarFloat" and w == 4:
            return "f"
        if k == "ScalarBool":
            return "b"
        return None

    def supported(self, h, depth=0):
        t = self.inner(h)
        k = t["_t"]
        if k in ("ScalarType", "AtomicType"):
            return self.scalar_kind(t if k == "ScalarType" else t["Scalar"]) in ("i", "u", "f")
        if k == "VectorType":
            return self.scalar_kind(t["Scalar"]) in ("i", "u", "f")
        if k == "MatrixType":
            return self.scalar_kind(t["Scalar"]) == "f"
        if k == "ArrayType":
            return self.supported(t["Base"], depth + 1)
        if k == "StructType":
            return all(self.supported(m["Type"], depth + 1) for m in t["Members"])
        return False

    def is_runtime(self, h):
        t = self.inner(h)
        if t["_t"] == "ArrayType":
            return t["Size"]["Constant"] is None
        if t["_t"] == "StructType" and t["Members"]:
            return self.is_runtime(t["Members"][-1]["Type"])
        return False

    def gen_scalar(self, kind, rng, mode):
        """mode: pool (boundary values + random), finite (floats small and exact, ints from the pool),
        small (ints < 4, floats small), zero"""
        if mode == "zero":
            bits = 0
        elif kind == "f":
            if mode in ("finite", "small"):
                bits = rng.choice(F32_SMALL)
            else:
                bits = rng.choice(F32_POOL) if rng.chance(3, 4) else rng.below(M32)
        else:
            if mode == "small":
                bits = rng.below(4)
            else:
                bits = rng.choice(I32_POOL) if rng.chance(3, 4) else rng.below(M32)
        return {kind: bits}

    def gen_value(self, h, rng, mode="pool", rt_len=3):
        t = self.inner(h)
        k = t["_t"]
        if k == "ScalarType":
            return self.gen_scalar(self.scalar_kind(t), rng, mode)
        if k == "AtomicType":
            return self.gen_scalar(self.scalar_kind(t["Scalar"]), rng, mode)
        if k == "VectorType":
            sk = self.scalar_kind(t["Scalar"])
            return {"vec": [self.gen_scalar(sk, rng, mode) for _ in range(t["Size"])]}
        if k == "MatrixType":
            fm = mode if mode == "zero" else "finite"
            return {"mat": [{"vec": [self.gen_scalar("f", rng, fm) for _ in range(t["Rows"])]} for _ in range(t["Columns"])]}
        if k == "ArrayType":
            n = t["Size"]["Constant"]
            if n is None:
                n = rt_len
            return {"arr": [self.gen_value(t["Base"], rng, mode, rt_len) for _ in range(n)]}
        if k == "StructType":
            return {"st": [self.gen_value(m["Type"], rng, mode, rt_len) for m in t["Members"]]}
        raise ValueError("unsupported type " + k)

    def byte_size(self, h, rt_len):
        """bytes of a buffer of this type holding rt_len elements in its runtime-sized array (if any)"""
        t = self.inner(h)
        k = t["_t"]
        if k == "ArrayType":
            n = t["Size"]["Constant"]
            return t["Stride"] * (rt_len if n is None else n)
        if k == "StructType":
            if self.is_runtime(h):
                last = t["Members"][-1]
                return last["Offset"] + self.byte_size(last["Type"], rt_len)
            return t["Span"]
        if k in ("ScalarType", "AtomicType"):
            return 4
        if k == "VectorType":
            return 4 * t["Size"]
        if k == "MatrixType":
            rows = t["Rows"]
            return t["Columns"] * 4 * (4 if rows == 3 else rows)
        return 0


def canon(v):
    """canonical form of a value for comparison: every NaN pattern -> 0x7FC00000"""
    if isinstance(v, dict):
        if "f" in v:
            b = v["f"]
            if (b & 0x7F800000) == 0x7F800000 and (b & 0x007FFFFF) != 0:
                b = 0x7FC00000
            return {"f": b}
        return {k: canon(x) for k, x in v.items()}
    if isinstance(v, list):
        return [canon(x) for x in v]
    return v


def has_nan_input(v):
    if isinstance(v, dict):
        if "f" in v:
            b = v["f"]
            return (b & 0x7F800000) == 0x7F800000 and (b & 0x007FFFFF) != 0
        return any(has_nan_input(x) for x in v.values())
    if isinstance(v, list):
        return any(has_nan_input(x) for x in v)
    return False


def first_diff(a, b, path=""):
    if type(a) != type(b):
        return path or "."
    if isinstance(a, dict):
        if set(a) != set(b):
            return path or "."
        for k in a:
            d = first_diff(a[k], b[k], path + "." + k)
            if d:
                return d
        return None
    if isinstance(a, list):
        if len(a) != len(b):
            return path + "(len %d vs %d)" % (len(a), len(b))
        for i, (x, y) in enumerate(zip(a, b)):
            d = first_diff(x, y, "%s[%d]" % (path, i))
            if d:
                return d
        return None
    return None if a == b else "%s: %r vs %r" % (path, a, b)


def compile_programs(tools, programs, optsets, want_ir=True):
    """programs: list of (name, src).  Returns dict name -> msldrive result."""
    jobs = [{"id": n, "src": s, "want": ["ir"] if want_ir else [], "data": {"optsets": [OPTSETS[o] if isinstance(o, str) else o for o in optsets]}}
            for n, s in programs]
    return nagarun.parallel_batches(tools["msldrive"], "compile", jobs, per_job_timeout=30.0, chunk=16)


def used_globals(ir, fn):
    """handles of global variables referenced by a function (transitively through calls)"""
    seen = set()
    done = set()

    def walk_fn(f, key):
        if key in done:
            return
        done.add(key)
        for e in f["Expressions"]:
            k = e["Kind"]
            if k["_t"] == "ExprGlobalVariable":
                seen.add(k["Variable"])
        def walk_block(b):
            for s in b or []:
                k = s["Kind"]
                if k["_t"] == "StmtCall":
                    walk_fn(ir["Functions"][k["Function"]], k["Function"])
                for fld in ("Body", "Accept", "Reject", "Continuing", "Block"):
                    if isinstance(k.get(fld), list):
                        walk_block(k[fld])
                if k["_t"] == "StmtSwitch":
                    for c in k["Cases"]:
                        walk_block(c["Body"])
        walk_block(f["Body"])
    walk_fn(fn, "ep")
    return seen


class Plan:
    """Everything needed to run one entry point of one compiled program on both sides."""
    def __init__(self, enums, ir, ep_index, slot_map=None):
        self.ir = ir
        self.T = IrTypes(ir, enums)
        self.enums = enums
        self.ep_index = ep_index
        self.ep = ir["EntryPoints"][ep_index]
        self.why = None
        if enums.name("ShaderStage", self.ep["Stage"]) != "StageCompute":
            self.why = "not a compute entry point"
            return
        self.builtin_args = []
        for a in self.ep["Function"]["Arguments"]:
            b = a["Binding"]
            if not b or b["_t"] != "BuiltinBinding":
                self.why = "entry point argument without builtin binding (struct argument)"
                return
            bn = enums.name("BuiltinValue", b["Builtin"])
            if bn not in BUILTIN_ATTR:
                self.why = "builtin " + bn
                return
            self.builtin_args.append(bn)
        self.globals = []       # (handle, space name, binding or None, type)
        used = used_globals(ir, self.ep["Function"])
        buf = []
        for h, g in enumerate(ir["GlobalVariables"]):
            sp = enums.name("AddressSpace", g["Space"])
            self.globals.append((h, sp, g["Binding"], g["Type"]))
            if sp in ("SpaceStorage", "SpaceUniform") and g["Binding"]:
                buf.append((g["Binding"]["Group"], g["Binding"]["Binding"], h))
                if h in used and not self.T.supported(g["Type"]):
                    self.why = "buffer type outside the value fragment (f16/i64/...)"
                    return
            elif sp in ("SpaceHandle", "SpacePushConstant", "SpaceImmediate") and h in used:
                self.why = "uses a %s global" % sp
                return
        self.used = used
        # expected Metal slot of every buffer: explicit map or sequential in (group, binding) order
        self.slot = {}
        if slot_map is not None:
            self.slot = dict(slot_map)
        else:
            # naga: all bound buffers sorted by (group, binding) get consecutive indices; two globals with the same
            # (group, binding) (used by different entry points) share the index of the LAST of them
            last = {}
            for i, (g_, b_, h) in enumerate(sorted(buf)):
                last[(g_, b_)] = i
            for (g_, b_, h) in buf:
                self.slot[h] = last[(g_, b_)]

    def builtin_values(self, k):
        wg = self.ep.get("Workgroup") or [1, 1, 1]
        u = lambda x: {"u": x % M32}
        return {
            "BuiltinGlobalInvocationID": {"vec": [u(k * wg[0]), u(0), u(0)]},
            "BuiltinLocalInvocationID": {"vec": [u(0), u(0), u(0)]},
            "BuiltinLocalInvocationIndex": u(0),
            "BuiltinWorkGroupID": {"vec": [u(k), u(0), u(0)]},
            "BuiltinNumWorkGroups": {"vec": [u(4), u(1), u(1)]},
        }

    def make_input(self, rng, mode="pool", rt_len=3, k=0):
        gl = []
        for h, sp, b, ty in self.globals:
            if sp in ("SpaceStorage", "SpaceUniform") and h in self.used:
                gl.append(self.T.gen_value(ty, rng, mode, rt_len))
            else:
                gl.append(None)
        return {"globals": gl, "rt_len": rt_len, "k": k}

    def ir_request(self, inp, fuel):
        bv = self.builtin_values(inp["k"])
        gl = inp["globals"]
        for h, sp, b, ty in self.globals:
            # a runtime-sized buffer the entry point never touches still needs a length on the IR side (irrun cannot
            # zero-initialise a runtime-sized array): zeros of the run's rt_len
            if gl[h] is None and sp == "SpaceStorage" and self.T.is_runtime(ty) and self.T.supported(ty):
                if gl is inp["globals"]:
                    gl = list(gl)
                gl[h] = self.T.gen_value(ty, None, "zero", inp["rt_len"])
        return {"ir": self.ir, "ep": self.ep_index, "globals": gl, "args": [bv[b] for b in self.builtin_args], "fuel": fuel}

    def msl_request(self, ast, ep_name, inp, fuel):
        bv = self.builtin_values(inp["k"])
        buffers = {}
        sizes = {}
        for h, sp, b, ty in self.globals:
            if inp["globals"][h] is not None:
                if h not in self.slot:
                    continue
                buffers[str(self.slot[h])] = inp["globals"][h]
            if sp in ("SpaceStorage", "SpaceUniform"):
                sizes["size%d" % h] = self.T.byte_size(ty, inp["rt_len"])
        return {"mode": "run", "ast": ast, "ep": ep_name, "buffers": buffers, "sizes": sizes,
                "builtins": {BUILTIN_ATTR[k]: v for k, v in bv.items()}, "fuel": fuel}

    def storage_handles(self):
        return [h for h, sp, b, ty in self.globals if sp == "SpaceStorage" and h in self.used and h in self.slot]


def ast_for_model(prog):
    return {k: prog[k] for k in ("structs", "typedefs", "consts", "funcs")}


def entry_names(info):
    """msl TranslationInfo dump -> {wgsl name: msl name}"""
    out = {}
    for pair in (info or {}).get("EntryPointNames") or []:
        out[pair[0]] = pair[1]
    return out


# ------------------------------------------------------------------ layout

def check_layout(T, ir, ast, layout, plan, ep_fn):
    """Walk IR buffer types and the MSL parameter types of the entry point in parallel; compare
    every member offset, struct span and array stride.  Returns list of mismatch strings."""
    structs = {s["name"]: s for s in layout.get("structs", [])}
    typedefs = {t[0]: t[1] for t in layout.get("typedefs", [])}
    ast_structs = {s["name"]: s for s in ast["structs"]}
    ast_typedefs = {t["name"]: t["ty"] for t in ast["typedefs"]}
    bad = []
    checked = [0]

    def resolve(ty):
        n = 0
        while ty[0] == "n" and ty[1] in ast_typedefs and n < 8:
            ty = ast_typedefs[ty[1]]
            n += 1
        return ty

    def walk(h, mty, where):
        t = T.inner(h)
        k = t["_t"]
        m = resolve(mty)
        if k == "StructType":
            if m[0] != "n" or m[1] not in ast_structs or m[1] not in structs or structs[m[1]].get("size") is None:
                bad.append("%s: IR struct has no MSL struct" % where)
                return
            lay = structs[m[1]]
            real = [x for x in lay["members"] if not x[0].startswith("_pad")]
            amem = [x for x in ast_structs[m[1]]["members"] if not x[0].startswith("_pad")]
            if len(real) != len(t["Members"]):
                bad.append("%s: member count %d vs %d" % (where, len(t["Members"]), len(real)))
                return
            for im, lm, am in zip(t["Members"], real, amem):
                checked[0] += 1
                if im["Offset"] != lm[1]:
                    bad.append("%s.%s: IR offset %d, C++ offset %d" % (where, im["Name"], im["Offset"], lm[1]))
                walk(im["Type"], am[1], where + "." + im["Name"])
            if not T.is_runtime(h) and t["Span"] != lay["size"]:
                bad.append("%s: IR span %d, C++ sizeof %d" % (where, t["Span"], lay["size"]))
        elif k == "ArrayType":
            # MSL: wrapper struct {T inner[n]} or typedef T name[1]
            if mty[0] == "n" and mty[1] in ast_typedefs:
                es = typedefs.get(mty[1])
                et = resolve(mty)
                if et[0] != "a":
                    bad.append("%s: typedef is not an array" % where)
                    return
                elem = et[1]
            elif m[0] == "n" and m[1] in ast_structs:
                mem = [x for x in ast_structs[m[1]]["members"]]
                if len(mem) != 1 or mem[0][1][0] != "a":
                    bad.append("%s: IR array is not an array wrapper in MSL" % where)
                    return
                lay = structs[m[1]]
                es = lay["members"][0][3]
                elem = mem[0][1][1]
                n = t["Size"]["Constant"]
                if n is not None and mem[0][1][2] != n:
                    bad.append("%s: array length %s vs %s" % (where, n, mem[0][1][2]))
            elif m[0] == "a":
                bad.append("%s: bare array member" % where)
                return
            else:
                bad.append("%s: IR array has no MSL array" % where)
                return
            checked[0] += 1
            if es != t["Stride"]:
                bad.append("%s: IR stride %d, C++ element size %s" % (where, t["Stride"], es))
            walk(t["Base"], elem, where + "[]")
        else:
            # leaves: scalar, vector, matrix, atomic -- size consistency is implied by the offsets/strides around them
            pass

    params = {p["name"]: p for p in ep_fn["params"]}
    by_slot = {}
    for p in ep_fn["params"]:
        if p["attr"] and p["attr"][0] == "buffer":
            by_slot[p["attr"][1]] = p
    for h, sp, b, ty in plan.globals:
        if h in plan.used and h in plan.slot and plan.slot[h] in by_slot and sp in ("SpaceStorage", "SpaceUniform"):
            walk(ty, by_slot[plan.slot[h]]["ty"], ir["GlobalVariables"][h]["Name"])
    return bad, checked[0]


# ------------------------------------------------------------------ batched execution of the two interpreters

def run_models_parallel(exe, requests, workers=6, timeout=400):
    """run_model over chunks in parallel processes; returns results in request order.
    A chunk whose process dies is re-run request by request so that one bad request cannot hide the others."""
    from concurrent.futures import ThreadPoolExecutor
    if not requests:
        return []
    workers = max(1, min(workers, len(requests)))
    idx = list(range(len(requests)))
    parts = [idx[i::workers] for i in range(workers)]
    out = [None] * len(requests)

    def work(part):
        try:
            rs = vcheck.run_model(exe, [requests[i] for i in part], timeout=timeout)
            for i, r in zip(part, rs):
                out[i] = r
        except Exception as e:
            for i in part:
                try:
                    out[i] = vcheck.run_model(exe, [requests[i]], timeout=40)[0]
                except Exception as e2:
                    out[i] = {"ok": False, "kind": "crash", "msg": str(e2)[-300:]}

    with ThreadPoolExecutor(workers) as ex:
        list(ex.map(work, parts))
    return out


def binding_optset(ir, enums, name, fake=False):
    """An option set with a per-entry-point resource map: buffer (group, binding) -> slot 3 + 2*rank (reverse handle
    order), sizes buffer in slot 30.  With fake=True only the first buffer is mapped and FakeMissingBindings is on."""
    bufs = []
    for h, g in enumerate(ir["GlobalVariables"]):
        sp = enums.name("AddressSpace", g["Space"])
        if sp in ("SpaceStorage", "SpaceUniform") and g["Binding"]:
            bufs.append((h, g["Binding"]["Group"], g["Binding"]["Binding"], sp == "SpaceStorage"))
    slots = {}
    res = []
    for rank, (h, grp, b, mut) in enumerate(reversed(bufs)):
        if fake and rank > 0:
            continue
        slots[h] = 3 + 2 * rank
        res.append([grp, b, 3 + 2 * rank, mut])
    m = {}
    for ep in ir["EntryPoints"]:
        m[ep["Name"]] = {"res": res, "sizes": 30}
    o = {"name": name, "map": m, "lang": [2, 2]}
    if fake:
        o["fake"] = True
    return o, slots


def ir_features(ir):
    """expression/statement kinds and math functions used anywhere in the module (for choosing inputs)"""
    feats = set()

    def walk_fn(f):
        for e in f["Expressions"]:
            k = e["Kind"]
            feats.add(k["_t"])
            if k["_t"] == "ExprMath":
                feats.add("Math:%s" % k["Fun"])
            if k["_t"] == "ExprAs" and k.get("Convert") is not None:
                feats.add("As:%s" % k["Kind"])
    for f in ir["Functions"]:
        walk_fn(f)
    for ep in ir["EntryPoints"]:
        walk_fn(ep["Function"])
    return feats
