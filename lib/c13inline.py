"""C13 — tie between the Gallina model of ir.InlineUserFunctions (coq/Passes/Inline.v, tool `inlinemodel` =
coq/Extract/InlineExtract.v) and the Go pass: for every program on which passdrive ran pass "inline",
model("inline", BEFORE) must print the same canonical module (Passes/Show.v) as model("id", Go's AFTER);
where Go returns an error (or panics) the model must say "unsupported", and only there."""
import json

import c13lib as L


def run_tie(ctx, exe, usable, passes_of, vkey, workers):
    """exe: ocamlbuild.build("inlinemodel"); usable: name -> passdrive result (r["before"], r["passes"]["inline"] with
    optional "before"/"after"/"same"/"err"/"panic"); passes_of(name) -> pass list; vkey(kind, pass, name, detail) -> key.
    -> (stats, broken): stats = {"compared", "model_equal", "model_unsupported", "model_out_of_fragment", "call_sites",
    "simple_call_sites", "modules_with_call_sites", "go_errors", "keys": {name: violation key},
    "stale": {name: [statement kinds]} (inlined callee statements whose operands Go does not renumber)};
    broken = {name: description of the first difference}.  Reports nothing itself: the caller does."""
    stats = {"compared": 0, "model_equal": 0, "model_unsupported": 0, "model_out_of_fragment": 0,
             "call_sites": 0, "simple_call_sites": 0, "modules_with_call_sites": 0, "go_errors": 0,
             "changed_by_go": 0, "keys": {}, "stale": {}}
    broken = {}
    jobs, meta = [], []
    for name, r in usable.items():
        if "inline" not in passes_of(name):
            continue
        pr = (r.get("passes") or {}).get("inline") or {}
        before = pr.get("before", r.get("before"))
        if before is None:
            continue
        if L.out_of_model_fragment(before):
            stats["model_out_of_fragment"] += 1
            continue
        goerr = pr.get("err") or pr.get("panic")
        if goerr is None and "after" not in pr and not pr.get("same"):
            continue                                    # passdrive produced nothing for this pass
        after = before if goerr is not None else pr.get("after", before)
        jobs.append({"pass": "inline", "ir": L.raw(before, True)})
        jobs.append({"pass": "id", "ir": L.raw(after, True)})
        jobs.append({"pass": "inline_class", "ir": L.raw(before, True)})
        meta.append((name, goerr, bool(pr.get("same"))))
    out = L.run_model_parallel(exe, jobs, workers=workers, lazy=True)

    def bad(name, detail, desc):
        broken[name] = desc
        stats["keys"][name] = vkey("model", "inline", name, detail)

    for i, (name, goerr, same) in enumerate(meta):
        a, b, c = out[3 * i], out[3 * i + 1], out[3 * i + 2]
        stats["compared"] += 1
        if not same and goerr is None:
            stats["changed_by_go"] += 1
        if c.get("ok") and c.get("call_sites") is not None:
            stats["call_sites"] += c["call_sites"]
            stats["simple_call_sites"] += c["simple_call_sites"]
            stats["modules_with_call_sites"] += 1 if c["call_sites"] else 0
            if c.get("stale") and not same and goerr is None:
                # Passes/InlineStale.v: callee statements whose operands the pass leaves in the callee's numbering
                stats["stale"][name] = sorted(set(c["stale"]))
        if goerr is None and isinstance(a, L.Lazy) and isinstance(b, L.Lazy) and a.text == b.text \
                and a.text.startswith('{"ok":true,"show"'):
            stats["model_equal"] += 1
            continue
        if not a.get("ok") or not b.get("ok"):
            bad(name, "tool", "model tool failed: %s / %s" % (a.get("err") or a.get("msg"), b.get("err") or b.get("msg")))
            continue
        uns = a.get("unsupported")
        if goerr is not None:
            stats["go_errors"] += 1
            if uns is not None:
                stats["model_unsupported"] += 1
            else:
                bad(name, "go-error", "Go fails (%s) where the model produces a module" % str(goerr)[:200])
            continue
        if uns is not None:
            stats["model_unsupported"] += 1
            bad(name, "unsupported:" + uns, "the model says unsupported (%s) where Go produces a module" % uns)
            continue
        if a["show"] == b["show"]:
            stats["model_equal"] += 1
            continue
        d = L.first_diff(a["show"], b["show"]) or ("?", None, None)
        bad(name, d[0], "first difference at %s: model %s, Go %s" % (d[0], json.dumps(d[1])[:200], json.dumps(d[2])[:200]))
    return stats, broken
