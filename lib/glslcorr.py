"""C05 machinery shared by checks/c05.py and gen.py (probe): compile WGSL to GLSL through
harness/cmd/glsldrive, read the text with glslread, build inputs, run the IR reference
interpreter (irrun) and the GLSL interpreter (glslrun), compare final buffer contents, and
compute std140/std430 layouts of the emitted blocks."""
import json
import os

import glslread
import nagarun
import vcheck

_ENUMS = {}


def enums(tools):
    """ir enum tables {TypeName: {value: ConstName}} read from the Go const blocks."""
    key = tools["goextract"]
    if key in _ENUMS:
        return _ENUMS[key]
    import gen
    res = gen.extract(tools, [{"kind": "consts", "file": f} for f in gen.IR_ENUM_FILES])
    out = {}
    for consts in res:
        for n, v, t in consts:
            if t and v.lstrip("-").isdigit():
                out.setdefault(t, {})[int(v)] = n
    _ENUMS[key] = out
    return out


# ---------------------------------------------------------------- IR types and values

BOUNDARY_I = [0, 1, 0xFFFFFFFF, 0x80000000, 0x7FFFFFFF, 31, 32, 2, 3, 7, 0xFFFFFFFE, 0x80000001, 100, 65535]
BOUNDARY_F = [0x00000000, 0x80000000, 0x3F800000, 0xBF800000, 0x40000000, 0x3F000000, 0x40490FDB, 0x00000001,
              0x007FFFFF, 0x00800000, 0x7F7FFFFF, 0x7F800000, 0xFF800000, 0x7FC00000, 0x4B000000, 0x3FC00000,
              0x40200000, 0xC0200000, 0x41200000, 0x42C80000]


class TypeInfo:
    def __init__(self, ir, en):
        self.ir = ir
        self.types = ir["Types"]
        self.en = en

    def kind(self, scalar):
        return self.en["ScalarKind"][scalar["Kind"]], scalar["Width"]

    def inner(self, h):
        return self.types[h]["Inner"]

    def supported(self, h, depth=0):
        t = self.inner(h)
        tt = t["_t"]
        if tt in ("ScalarType", "AtomicType"):
            s = t if tt == "ScalarType" else t["Scalar"]
            k, w = self.kind(s)
            return (k in ("ScalarSint", "ScalarUint", "ScalarFloat") and w == 4) or k == "ScalarBool"
        if tt == "VectorType":
            k, w = self.kind(t["Scalar"])
            return (k in ("ScalarSint", "ScalarUint", "ScalarFloat") and w == 4) or k == "ScalarBool"
        if tt == "MatrixType":
            k, w = self.kind(t["Scalar"])
            return k == "ScalarFloat" and w == 4
        if tt == "ArrayType":
            return self.supported(t["Base"], depth + 1)
        if tt == "StructType":
            return all(self.supported(m["Type"], depth + 1) for m in t["Members"])
        return False

    def scalar_value(self, s, pick):
        k, w = self.kind(s)
        if k == "ScalarSint":
            return {"i": pick("i")}
        if k == "ScalarUint":
            return {"u": pick("u")}
        if k == "ScalarFloat":
            return {"f": pick("f")}
        return {"b": bool(pick("b"))}

    def value(self, h, pick, rtlen=4):
        """value of IR type h; pick(kind) supplies scalar bit patterns; runtime arrays get rtlen elements"""
        t = self.inner(h)
        tt = t["_t"]
        if tt == "ScalarType":
            return self.scalar_value(t, pick)
        if tt == "AtomicType":
            return self.scalar_value(t["Scalar"], pick)
        if tt == "VectorType":
            return {"vec": [self.scalar_value(t["Scalar"], pick) for _ in range(t["Size"])]}
        if tt == "MatrixType":
            return {"mat": [{"vec": [self.scalar_value(t["Scalar"], pick) for _ in range(t["Rows"])]}
                            for _ in range(t["Columns"])]}
        if tt == "ArrayType":
            n = t["Size"]["Constant"]
            if n is None:
                n = rtlen
            return {"arr": [self.value(t["Base"], pick, rtlen) for _ in range(n)]}
        if tt == "StructType":
            return {"st": [self.value(m["Type"], pick, rtlen) for m in t["Members"]]}
        raise ValueError("unsupported type " + tt)


def make_picker(rng, mode):
    """mode: 'small' (values that keep arithmetic away from GLSL-undefined cases), 'boundary', 'zero'"""
    def pick(kind):
        if mode == "zero":
            return 0
        if kind == "b":
            return rng.below(2)
        if mode == "small":
            if kind == "i":
                return rng.range(0, 9) if rng.chance(3, 4) else (-rng.range(1, 9)) & 0xFFFFFFFF
            if kind == "u":
                return rng.range(0, 12)
            # small floats with exact arithmetic: k/4 for k in -40..40
            import struct
            return struct.unpack("<I", struct.pack("<f", rng.range(-40, 40) / 4.0))[0]
        if kind in ("i", "u"):
            return rng.choice(BOUNDARY_I) if rng.chance(2, 3) else rng.below(1 << 32)
        return rng.choice(BOUNDARY_F) if rng.chance(2, 3) else rng.below(1 << 32)
    return pick


# ---------------------------------------------------------------- compile + read

def compile_jobs(tools, jobs, want=("ir", "validate"), **kw):
    """jobs: [{"id", "src", "opts"}] -> {id: result}; by default asks for the IR dump and the validator's verdict"""
    js = [{"id": j["id"], "src": j["src"], "want": list(want), "opts": j.get("opts", {})} for j in jobs]
    kw.setdefault("chunk", 64)
    kw.setdefault("workers", 2)
    return nagarun.parallel_batches(tools["glsldrive"], "compile", js, per_job_timeout=30.0, **kw)


def read_glsl(text):
    """-> ("ok", parsed) | ("oof", reason) | ("bad", reason)"""
    try:
        return "ok", glslread.parse(text)
    except glslread.OutOfFragment as e:
        return "oof", str(e)
    except glslread.ReadError as e:
        return "bad", str(e)
    except glslread.IllFormed as e:
        return "illformed", str(e)
    except RecursionError:
        return "oof", "nesting too deep for the reader"


# ---------------------------------------------------------------- one differential case

def block_of_global(info_uniforms, g):
    """GLSL block name of IR global g (by its resource binding), from TranslationInfo.Uniforms"""
    b = g.get("Binding")
    if b is None:
        return None
    for u in info_uniforms:
        ub = u["Binding"]
        if ub["Group"] == b["Group"] and ub["Binding"] == b["Binding"]:
            return u["BlockName"]
    return None


def build_case(ir, en, ep_index, parsed, info, rng, mode, rtlen):
    """-> (irrun input, glslrun input, [(global index, block name)] compared) or raises ValueError(reason)"""
    ti = TypeInfo(ir, en)
    pick = make_picker(rng, mode)
    spaces = en["AddressSpace"]
    glob_vals = []
    buffers = {}
    compared = []
    uniforms = info.get("Uniforms") or []
    declared = {b["name"] for b in parsed["meta"]["blocks"]}
    readonly = {b["name"] for b in parsed["meta"]["blocks"] if b["readonly"]}
    for gi, g in enumerate(ir["GlobalVariables"]):
        sp = spaces[g["Space"]]
        if sp in ("SpaceStorage", "SpaceUniform"):
            if not ti.supported(g["Type"]):
                raise ValueError("buffer type outside the value model")
            v = ti.value(g["Type"], pick, rtlen)
            glob_vals.append(v)
            blk = block_of_global(uniforms, g)
            if blk is not None and blk in declared:
                buffers[blk] = v
                if sp == "SpaceStorage" and blk not in readonly:
                    compared.append((gi, blk))
        else:
            glob_vals.append(None)
    ep = ir["EntryPoints"][ep_index]
    args = []
    builtins = {}
    bnames = en["BuiltinValue"]
    wg = ep.get("Workgroup") or [1, 1, 1]
    lid = [0, 0, 0]
    wid = [rng.below(3), rng.below(2), rng.below(2)]
    nwg = [wid[0] + 1 + rng.below(2), wid[1] + 1, wid[2] + 1]
    gid = [wid[k] * max(1, wg[k]) + lid[k] for k in range(3)]

    def uvec(l):
        return {"vec": [{"u": x} for x in l]}
    vals = {"BuiltinGlobalInvocationID": ("gl_GlobalInvocationID", uvec(gid)),
            "BuiltinLocalInvocationID": ("gl_LocalInvocationID", uvec(lid)),
            "BuiltinWorkGroupID": ("gl_WorkGroupID", uvec(wid)),
            "BuiltinNumWorkGroups": ("gl_NumWorkGroups", uvec(nwg)),
            "BuiltinLocalInvocationIndex": ("gl_LocalInvocationIndex", {"u": 0})}
    for a in ep["Function"]["Arguments"]:
        b = a.get("Binding")
        if not b or b.get("_t") != "BuiltinBinding":
            raise ValueError("entry point argument that is not a built-in")
        bn = bnames.get(b["Builtin"])
        if bn not in vals:
            raise ValueError("built-in " + str(bn))
        args.append(vals[bn][1])
    for bn, (gl, v) in vals.items():
        if gl in parsed["meta"]["builtins"]:
            builtins[gl] = v
    irin = {"ir": ir, "ep": ep_index, "globals": glob_vals, "args": args, "fuel": 200000}
    glin = {"ast": parsed["ast"], "buffers": buffers, "builtins": builtins, "shared_zero": False, "fuel": 400000}
    return irin, glin, compared


def classify_fail(msg):
    for p, k in (("UB: ", "ub"), ("TYPE: ", "type"), ("OOF: ", "oof"), ("HARNESS: ", "harness")):
        if msg.startswith(p):
            return k
    return "other"


# ---------------------------------------------------------------- std140 / std430 layout (OpenGL 4.6, 7.6.2.2)

def round_up(x, a):
    return (x + a - 1) // a * a


def glsl_layout(ty, structs, std140):
    """(alignment, size, detail) of a GLSL type under std140/std430; detail: for structs the member offsets,
    for arrays (stride, elem detail), for matrices the column stride."""
    tag = ty[0]
    if tag == "s":
        return 4, 4, None
    if tag == "v":
        n = ty[2]
        a = 8 if n == 2 else 16
        return a, 4 * n, None
    if tag == "m":
        c, r = ty[1], ty[2]
        # rule 5: a column-major matrix is stored as an array of C column vectors of R components (rule 4)
        va = 8 if r == 2 else 16
        stride = va
        if std140:
            stride = round_up(stride, 16)
        return stride, stride * c, ("mat", stride)
    if tag == "arr":
        ea, es, ed = glsl_layout(ty[1], structs, std140)
        stride = round_up(es, ea)
        a = ea
        if std140:
            a = round_up(a, 16)
            stride = round_up(stride, 16)
        n = ty[2]
        return a, (stride * n if n is not None else 0), ("arr", stride, ed)
    if tag == "st":
        ms = structs[ty[1]]
        off = 0
        amax = 0
        offs = []
        for name, mt in ms:
            a, s, d = glsl_layout(mt, structs, std140)
            off = round_up(off, a)
            offs.append((name, off, s, d, mt))
            off += s
            amax = max(amax, a)
        if std140:
            amax = round_up(amax, 16)
        return amax, round_up(off, amax), ("st", offs)
    raise ValueError("layout of type " + str(ty))


def wgsl_default(ti, h):
    """(align, size) of IR type h under the WGSL default layout rules (no @align/@size attributes)"""
    t = ti.inner(h)
    tt = t["_t"]
    if tt in ("ScalarType", "AtomicType"):
        return 4, 4
    if tt == "VectorType":
        n = t["Size"]
        return (8 if n == 2 else 16), 4 * n
    if tt == "MatrixType":
        va, vs = (8, 8) if t["Rows"] == 2 else (16, 12 if t["Rows"] == 3 else 16)
        return va, t["Columns"] * round_up(vs, va)
    if tt == "ArrayType":
        a, sz = wgsl_default(ti, t["Base"])
        n = t["Size"]["Constant"]
        return a, round_up(sz, a) * (n if n is not None else 1)
    if tt == "StructType":
        off, amax = 0, 1
        for m in t["Members"]:
            a, sz = wgsl_default(ti, m["Type"])
            off = round_up(off, a) + sz
            amax = max(amax, a)
        return amax, round_up(off, amax)
    raise ValueError(tt)


def uses_layout_attributes(ti, h):
    """does IR type h (or a type inside it) deviate from the WGSL default layout, i.e. use @align/@size/@stride?"""
    t = ti.inner(h)
    tt = t["_t"]
    if tt == "ArrayType":
        a, sz = wgsl_default(ti, t["Base"])
        return t["Stride"] != round_up(sz, a) or uses_layout_attributes(ti, t["Base"])
    if tt == "StructType":
        off = 0
        for m in t["Members"]:
            a, sz = wgsl_default(ti, m["Type"])
            off = round_up(off, a)
            if m["Offset"] != off or uses_layout_attributes(ti, m["Type"]):
                return True
            off += sz
        return t["Span"] != wgsl_default(ti, h)[1] and not (
            t["Members"] and ti.inner(t["Members"][-1]["Type"])["_t"] == "ArrayType"
            and ti.inner(t["Members"][-1]["Type"])["Size"]["Constant"] is None)
    return False


def ir_layout_mismatches(ti, h, ty, structs, std140, path="", out=None):
    """compare the IR's Offset/Stride of type h with the GLSL layout of the emitted type ty;
    entries (path, description, cause) with cause in matCx2-std140 | explicit-attributes | other"""
    if out is None:
        out = []
    t = ti.inner(h)
    tt = t["_t"]
    a, s, d = glsl_layout(ty, structs, std140)
    if tt == "StructType":
        if ty[0] != "st" or d is None:
            out.append((path, "struct emitted as " + str(ty[0]), "other"))
            return out
        offs = d[1]
        if len(offs) != len(t["Members"]):
            out.append((path, "member count %d vs %d" % (len(t["Members"]), len(offs)), "other"))
            return out
        cause = "explicit-attributes" if uses_layout_attributes(ti, h) else "other"
        for m, (name, off, sz, dd, mt) in zip(t["Members"], offs):
            n0 = len(out)
            ir_layout_mismatches(ti, m["Type"], mt, structs, std140, path + "." + name, out)
            if m["Offset"] != off:
                inner_cause = out[n0][2] if len(out) > n0 else None
                prev_mat = any(c == "matCx2-std140" for _, _, c in out)
                out.append((path + "." + name, "offset IR %d vs GLSL %d" % (m["Offset"], off),
                            "matCx2-std140" if prev_mat and cause == "other" else cause))
        # (the struct's own size matters only through array strides and following members' offsets)
    elif tt == "ArrayType":
        if ty[0] != "arr":
            out.append((path, "array emitted as " + str(ty[0]), "other"))
            return out
        n0 = len(out)
        ir_layout_mismatches(ti, t["Base"], ty[1], structs, std140, path + "[]", out)
        if t["Stride"] != d[1]:
            if len(out) > n0:
                cause = out[n0][2]            # consequence of a mismatch inside the element
            else:
                cause = "explicit-attributes" if uses_layout_attributes(ti, h) else "other"
            out.append((path + "[]", "array stride IR %d vs GLSL %d" % (t["Stride"], d[1]), cause))
    elif tt == "MatrixType":
        if ty[0] != "m":
            out.append((path, "matrix emitted as " + str(ty[0]), "other"))
            return out
        # WGSL: column stride = roundUp(alignOf(vecR), sizeOf(vecR)): 8 for R=2, 16 for R=3,4
        wg = 8 if t["Rows"] == 2 else 16
        if wg != d[1]:
            out.append((path, "matrix column stride WGSL %d vs GLSL %d" % (wg, d[1]),
                        "matCx2-std140" if (std140 and t["Rows"] == 2) else "other"))
    return out
