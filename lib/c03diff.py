"""C03 differential validation: IR (irrun, coq/IR/Sem.v) vs emitted HLSL (hlslrun, coq/Hlsl/Sem.v).

For a WGSL program: compile with harness/cmd/hlsldrive under an option set, read the HLSL
text (lib/hlslread.py), build inputs for every resource (boundary pool), run both
interpreters on the same inputs and compare the final contents of every storage buffer
byte for byte (bytes of the WGSL layout: offsets / strides / spans of the IR types)."""
import json
import os
import re

import hlslread
import nagarun
import vcheck

M32 = 0xFFFFFFFF


# ------------------------------------------------------------------ enums (regenerated from /repo by gen.py `irenums`)

_ENUMS = None


def enums():
    global _ENUMS
    if _ENUMS is None:
        s = open(os.path.join(vcheck.COQ, "Gen", "IrEnums.v")).read()
        out = {}
        for m in re.finditer(r'\("(\w+)", \[(.*?)\]\)', s, re.S):
            out[m.group(1)] = {name: int(v) for v, name in re.findall(r'\((-?\d+), "(\w+)"\)', m.group(2))}
        _ENUMS = out
    return _ENUMS


def enum(ty, name):
    return enums()[ty][name]


def reset_enums():
    global _ENUMS
    _ENUMS = None


# ------------------------------------------------------------------ values and the WGSL byte layout

INT_POOL = [0, 1, 2, 3, 5, 7, 31, 32, 33, 0x7FFFFFFF, 0x80000000, 0xFFFFFFFF, 0xFFFFFFFE, 0x80000001, 100, 0x12345678]
FLOAT_POOL = [0x00000000, 0x80000000, 0x3F800000, 0xBF800000, 0x3F000000, 0x3FC00000, 0x40200000, 0xC0200000,
              0x40400000, 0x42C80000, 0x4E6E6B28, 0x4F000000, 0xCF000000, 0x4F800000, 0x4F32D05E,
              0x00000001, 0x807FFFFF, 0x7F7FFFFF, 0x7F800000, 0xFF800000, 0x7FC00000, 0x41200000, 0xC1200000]
SPECIAL_FLOATS = {0x7F800000, 0xFF800000, 0x7FC00000}


def align_of_rows(rows):
    return 8 if rows == 2 else 16


class Types:
    def __init__(self, ir):
        self.types = ir["Types"]
        e = enums()["ScalarKind"]
        self.kind_name = {e["ScalarSint"]: "i", e["ScalarUint"]: "u", e["ScalarFloat"]: "f", e["ScalarBool"]: "b"}

    def inner(self, th):
        return self.types[th]["Inner"]

    def scalar_tag(self, s):
        if s["Width"] != 4 and self.kind_name.get(s["Kind"]) != "b":
            raise Unsupported("scalar width %d" % s["Width"])
        k = self.kind_name.get(s["Kind"])
        if k is None:
            raise Unsupported("scalar kind")
        return k

    def gen(self, th, rng, mode, runtime_len=3):
        """a value of type th; mode: 'pool' (boundary values), 'small' (small in-range numbers), 'zero'"""
        t = self.inner(th)
        k = t["_t"]
        if k == "ScalarType":
            return self.gen_scalar(self.scalar_tag(t), rng, mode)
        if k == "AtomicType":
            return self.gen_scalar(self.scalar_tag(t["Scalar"]), rng, mode)
        if k == "VectorType":
            return {"vec": [self.gen_scalar(self.scalar_tag(t["Scalar"]), rng, mode) for _ in range(t["Size"])]}
        if k == "MatrixType":
            tag = self.scalar_tag(t["Scalar"])
            return {"mat": [{"vec": [self.gen_scalar(tag, rng, mode, exact=True) for _ in range(t["Rows"])]}
                            for _ in range(t["Columns"])]}
        if k == "ArrayType":
            n = t["Size"]["Constant"]
            if n is None:
                n = runtime_len
            return {"arr": [self.gen(t["Base"], rng, mode, runtime_len) for _ in range(n)]}
        if k == "StructType":
            return {"st": [self.gen(m["Type"], rng, mode, runtime_len) for m in t["Members"]]}
        raise Unsupported("type " + k)

    @staticmethod
    def gen_scalar(tag, rng, mode, exact=False):
        if mode == "zero":
            return {"b": False} if tag == "b" else {tag: 0}
        if tag == "b":
            return {"b": bool(rng.below(2))}
        if tag == "f":
            if mode == "small" or exact:
                # small integers and halves: sums and products stay exact
                return {"f": float_bits(rng.choice([0.0, 1.0, 2.0, 3.0, -1.0, -2.0, 0.5, 1.5, -0.5, 4.0, 8.0]))}
            return {"f": rng.choice(FLOAT_POOL)}
        if mode == "small":
            return {tag: rng.below(4)}
        r = rng.below(10)
        if r < 7:
            return {tag: rng.choice(INT_POOL)}
        if r < 9:
            return {tag: rng.below(64)}
        return {tag: rng.next() & M32}

    def put(self, th, v, out, off, mask):
        t = self.inner(th)
        k = t["_t"]
        if k in ("ScalarType", "AtomicType"):
            bits = v.get("i", v.get("u", v.get("f")))
            if bits is None:
                raise Unsupported("bool in a buffer")
            put32(out, off, bits, mask)
        elif k == "VectorType":
            for i, c in enumerate(v["vec"]):
                put32(out, off + 4 * i, c.get("i", c.get("u", c.get("f"))), mask)
        elif k == "MatrixType":
            stride = align_of_rows(t["Rows"])
            for j, col in enumerate(v["mat"]):
                for i, c in enumerate(col["vec"]):
                    put32(out, off + stride * j + 4 * i, c["f"], mask)
        elif k == "ArrayType":
            for i, e in enumerate(v["arr"]):
                self.put(t["Base"], e, out, off + t["Stride"] * i, mask)
        elif k == "StructType":
            for m, e in zip(t["Members"], v["st"]):
                self.put(m["Type"], e, out, off + m["Offset"], mask)
        else:
            raise Unsupported("type " + k)

    def size(self, th, v):
        t = self.inner(th)
        k = t["_t"]
        if k in ("ScalarType", "AtomicType"):
            return 4
        if k == "VectorType":
            return 4 * t["Size"]
        if k == "MatrixType":
            return align_of_rows(t["Rows"]) * t["Columns"]
        if k == "ArrayType":
            return t["Stride"] * len(v["arr"])
        if k == "StructType":
            ms = t["Members"]
            if ms and self.inner(ms[-1]["Type"])["_t"] == "ArrayType" and self.inner(ms[-1]["Type"])["Size"]["Constant"] is None:
                return ms[-1]["Offset"] + self.size(ms[-1]["Type"], v["st"][-1])
            return t["Span"]
        raise Unsupported("type " + k)

    def to_bytes(self, th, v):
        n = self.size(th, v)
        out = [0] * n
        mask = [0] * n
        self.put(th, v, out, 0, mask)
        return out, mask


def put32(out, off, bits, mask):
    if off + 4 > len(out):
        raise Unsupported("layout: value does not fit its span")
    for i in range(4):
        out[off + i] = (bits >> (8 * i)) & 0xFF
        mask[off + i] = 1


def float_bits(x):
    import struct
    return struct.unpack("<I", struct.pack("<f", x))[0]


class Unsupported(Exception):
    pass


def has_special_float(v):
    if isinstance(v, dict):
        if "f" in v and v["f"] in SPECIAL_FLOATS:
            return True
        return any(has_special_float(x) for x in v.values())
    if isinstance(v, list):
        return any(has_special_float(x) for x in v)
    return False


def despecial(v):
    """same value with NaN / infinities replaced by finite numbers"""
    if isinstance(v, dict):
        if "f" in v and v["f"] in SPECIAL_FLOATS:
            return {"f": {0x7F800000: 0x4E6E6B28, 0xFF800000: 0xCE6E6B28, 0x7FC00000: 0x3FC00000}[v["f"]]}
        return {k: despecial(x) for k, x in v.items()}
    if isinstance(v, list):
        return [despecial(x) for x in v]
    return v


# ------------------------------------------------------------------ compiling and reading

OPTION_SETS = {
    "default51": {"sm": 51},
    "sm60": {"sm": 60},
    "sm66": {"sm": 66},
    "norestrict": {"sm": 51, "restrict_indexing": False},
    "nobound": {"sm": 60, "force_loop_bounding": False},
    "nozero": {"sm": 51, "zero_init_workgroup": False},
    "bare": {"sm": 60, "restrict_indexing": False, "force_loop_bounding": False, "zero_init_workgroup": False},
}

BUILTIN_SEMANTIC = {
    "BuiltinGlobalInvocationID": "SV_DispatchThreadID",
    "BuiltinLocalInvocationID": "SV_GroupThreadID",
    "BuiltinLocalInvocationIndex": "SV_GroupIndex",
    "BuiltinWorkGroupID": "SV_GroupID",
}


PROGRAM_OBSERVERS = []


class Program:
    """one compiled (wgsl, option set): IR dump, HLSL text, HLSL AST"""
    def __init__(self, name, optname, res):
        self.name = name
        self.optname = optname
        self.res = res
        self.ir = res.get("ir")
        self.hlsl = res.get("hlsl")
        self.ast = hlslread.parse(self.hlsl) if self.hlsl is not None else None
        for ob in PROGRAM_OBSERVERS:          # (checks/c03.py: recogniser of the control-flow encodings, lib/cfskel.py)
            ob(self)
        self.types = Types(self.ir) if self.ir else None

    def compute_entry_points(self):
        if not self.ir:
            return []
        st = enum("ShaderStage", "StageCompute")
        return [(i, ep) for i, ep in enumerate(self.ir["EntryPoints"]) if ep["Stage"] == st]

    def hlsl_entry_name(self, ir_name):
        for k, v in (self.res.get("hlsl_info") or {}).get("EntryPointNames") or []:
            if k == ir_name:
                return v
        return ir_name


def register_key(space_letter, binding):
    k = "%s%d" % (space_letter, binding["Binding"])
    if binding["Group"] != 0:
        k += ",space%d" % binding["Group"]
    return k


def make_inputs(prog, epi, ep, rng, mode):
    """-> dict(ir_globals=[value|None...], buffers={reg: bytes}, cbuffers={reg: value}, masks={reg: mask},
              storage=[(global index, reg, type handle)], args=[...], builtins={...})"""
    T = prog.types
    sp = enums()["AddressSpace"]
    rw_mode = {v: k for k, v in enums().get("StorageAccessMode", {}).items()}
    ir_globals = []
    buffers, cbuffers, storage = {}, {}, []
    runtime_len = 2 + rng.below(4)
    for gi, g in enumerate(prog.ir["GlobalVariables"]):
        if g["Space"] == sp["SpaceStorage"]:
            if g["Binding"] is None:
                raise Unsupported("storage variable without binding")
            v = T.gen(g["Type"], rng, mode, runtime_len)
            read_only = rw_mode.get(g["Access"]) == "StorageRead"
            reg = register_key("t" if read_only else "u", g["Binding"])
            b, _m = T.to_bytes(g["Type"], v)
            buffers[reg] = b
            storage.append((gi, reg, g["Type"], read_only))
            ir_globals.append(v)
        elif g["Space"] == sp["SpaceUniform"]:
            if g["Binding"] is None:
                raise Unsupported("uniform variable without binding")
            v = T.gen(g["Type"], rng, mode, runtime_len)
            cbuffers[register_key("b", g["Binding"])] = v
            ir_globals.append(v)
        elif g["Space"] in (sp["SpaceWorkGroup"], sp["SpacePrivate"]):
            ir_globals.append(None)
        else:
            raise Unsupported("global in address space %d" % g["Space"])
    # entry point arguments
    bv = {v: k for k, v in enums()["BuiltinValue"].items()}
    wg = ep["Workgroup"]
    wgid = [rng.below(3), rng.below(2), 0]
    lid = [0, 0, 0]
    gid = [wgid[i] * max(1, wg[i]) + lid[i] for i in range(3)]

    def uvec(l):
        return {"vec": [{"u": x} for x in l]}
    vals = {"BuiltinGlobalInvocationID": uvec(gid), "BuiltinLocalInvocationID": uvec(lid),
            "BuiltinLocalInvocationIndex": {"u": 0}, "BuiltinWorkGroupID": uvec(wgid)}
    args = []
    builtins = {"SV_GroupThreadID": uvec(lid)}
    for a in ep["Function"]["Arguments"]:
        b = a["Binding"]
        if not b or b.get("_t") != "BuiltinBinding":
            raise Unsupported("entry point argument without builtin binding")
        name = bv.get(b["Builtin"])
        if name not in vals:
            raise Unsupported("entry point builtin " + str(name))
        args.append(vals[name])
        builtins[BUILTIN_SEMANTIC[name]] = vals[name]
    return {"ir_globals": ir_globals, "buffers": buffers, "cbuffers": cbuffers, "storage": storage,
            "args": args, "builtins": builtins}


def ir_job(prog, epi, inp, fuel):
    return {"ir": prog.ir, "ep": epi, "globals": inp["ir_globals"], "args": inp["args"], "fuel": fuel}


def hlsl_job(prog, ep, inp, fuel):
    ast = {k: prog.ast[k] for k in ("structs", "typedefs", "globals", "funcs")}
    return {"ast": ast, "ep": prog.hlsl_entry_name(ep["Name"]), "fuel": fuel, "buffers": inp["buffers"],
            "cbuffers": inp["cbuffers"], "builtins": inp["builtins"]}


def compare(prog, inp, ir_res, hl_res):
    """-> (verdict, detail).  verdicts: agree | mismatch | hlsl_ub | out_of_fragment | ir_undefined | fuel"""
    if not ir_res.get("ok"):
        return "ir_undefined", ir_res.get("kind", "") + ":" + ir_res.get("msg", "")[:80]
    if not hl_res.get("ok"):
        kind, msg = hl_res.get("kind"), hl_res.get("msg", "")
        if kind == "outoffuel":
            return "fuel", ""
        if kind == "fail" and msg.startswith("UB:"):
            if "index out of bounds" in msg and not OPTION_SETS.get(prog.optname, {}).get("restrict_indexing", True):
                # RestrictIndexing switched off: an out-of-range index of the WGSL program (which the IR reference does not
                # notice when the element is never loaded) is intentionally left unprotected by this option set
                return "ir_undefined", "index out of bounds with RestrictIndexing off"
            return "hlsl_ub", msg
        return "out_of_fragment", (kind or "") + ":" + msg[:100]
    T = prog.types
    for gi, reg, th, read_only in inp["storage"]:
        want, mask = T.to_bytes(th, ir_res["globals"][gi])
        got = hl_res["buffers"].get(reg)
        if got is None:
            return "mismatch", "buffer %s absent from the HLSL run (register mapping)" % reg
        if len(got) != len(want):
            return "mismatch", "buffer %s: length %d vs %d" % (reg, len(got), len(want))
        for i in range(0, len(want), 4):
            if any(mask[i:i + 4]) and want[i:i + 4] != got[i:i + 4]:
                w = sum(want[i + k] << (8 * k) for k in range(4))
                g = sum(got[i + k] << (8 * k) for k in range(4))
                return "mismatch", "buffer %s (global %d %s) byte offset %d: WGSL/IR 0x%08X, HLSL 0x%08X" % (
                    reg, gi, prog.ir["GlobalVariables"][gi]["Name"], i, w, g)
    return "agree", ""


# ------------------------------------------------------------------ batch validation

def run_models_parallel(exe, jobs, workers=None, timeout=1800):
    """run a generic extracted tool over many jobs, split over processes"""
    from concurrent.futures import ThreadPoolExecutor
    if not jobs:
        return []
    workers = workers or max(1, min(vcheck.NCPU, 8))
    n = len(jobs)
    size = max(1, (n + workers - 1) // workers)
    parts = [jobs[i:i + size] for i in range(0, n, size)]
    with ThreadPoolExecutor(len(parts)) as ex:
        res = list(ex.map(lambda p: vcheck.run_model(exe, p, timeout=timeout), parts))
    out = []
    for r in res:
        out.extend(r)
    return out


IR_FUEL = 4000
HLSL_FUEL = 40000


def validate(tools, irrun, hlslrun, programs, optnames, n_inputs, rng, want_validate=True, ref_sources=None, fix_input=None):
    """programs: [(name, wgsl)].  Returns (stats, records) where records are dicts with verdict != agree.
    ref_sources: {name: wgsl} - the IR reference of that program is taken from THIS source (same declarations; e.g. the
    bounds-check policy written out in WGSL) instead of from the program itself; fix_input(name, prog, inp, k) may
    overwrite generated inputs (hostile indices)."""
    stats = {"programs": 0, "compiled": 0, "entry_points": 0, "hlsl_entry_points_parsed": 0, "runs": 0, "agree": 0,
             "mismatch": 0, "hlsl_ub": 0, "out_of_fragment": 0, "ir_undefined": 0, "fuel": 0, "special_float_only": 0,
             "not_compiled": 0, "reader_out_of_fragment_items": 0, "inputs_unsupported": 0}
    jobs = []
    for pi, (name, src) in enumerate(programs):
        for on in optnames:
            jobs.append({"id": "%d/%s" % (pi, on), "src": src, "want": ["ir", "validate"], "opts": OPTION_SETS[on]})
    for pi, (name, src) in enumerate(programs):
        if ref_sources and name in ref_sources:
            jobs.append({"id": "%d/__ref" % pi, "src": ref_sources[name], "want": ["ir", "validate"], "opts": OPTION_SETS[optnames[0]]})
    res = nagarun.parallel_batches(tools["hlsldrive"], "compile", jobs, per_job_timeout=30.0, chunk=16)
    progs = {}
    refs = {}
    records = []
    oof_reasons = {}
    for pi, (name, src) in enumerate(programs):
        stats["programs"] += 1
        for on in optnames:
            r = res.get("%d/%s" % (pi, on)) or {}
            if "hlsl" not in r or r.get("validate"):
                stats["not_compiled"] += 1
                continue
            stats["compiled"] += 1
            try:
                progs[(pi, on)] = Program(name, on, r)
            except Exception as e:           # reader crash = reader bug: surface it
                records.append({"verdict": "reader_crash", "program": name, "opt": on, "detail": repr(e), "src": src,
                                "hlsl": r.get("hlsl")})
    # inputs from the first option set's IR (the IR handed to the backend is the same for every option set)
    ir_jobs, ir_keys = [], []
    hl_jobs, hl_keys = [], []
    inputs = {}
    for pi, (name, src) in enumerate(programs):
        base = None
        for on in optnames:
            if (pi, on) in progs:
                base = progs[(pi, on)]
                break
        if base is None:
            continue
        for epi, ep in base.compute_entry_points():
            stats["entry_points"] += 1
            for k in range(n_inputs):
                mode = ["pool", "small", "pool", "small", "pool"][k % 5]
                try:
                    inp = make_inputs(base, epi, ep, rng.fork("%s/%d/%d" % (name, epi, k)), mode)
                except Unsupported as e:
                    stats["inputs_unsupported"] += 1
                    oof_reasons["inputs: " + str(e)] = oof_reasons.get("inputs: " + str(e), 0) + 1
                    break
                if fix_input is not None:
                    fix_input(name, base, inp, k)
                inputs[(pi, epi, k)] = inp
                refprog = base
                if ref_sources and name in ref_sources:
                    rr = res.get("%d/__ref" % pi) or {}
                    if "ir" not in rr or rr.get("validate"):
                        stats["not_compiled"] += 1
                        records.append({"verdict": "reference_rejected", "program": name, "detail": str(rr.get("err") or rr.get("validate"))[:300],
                                        "src": ref_sources[name]})
                        del inputs[(pi, epi, k)]
                        break
                    if pi not in refs:
                        refs[pi] = Program(name + "/ref", optnames[0], {"ir": rr["ir"]})
                    refprog = refs[pi]
                ir_jobs.append(ir_job(refprog, epi, inp, IR_FUEL))
                ir_keys.append((pi, epi, k))
            for on in optnames:
                pr = progs.get((pi, on))
                if pr is None:
                    continue
                hname = pr.hlsl_entry_name(ep["Name"])
                if hname in hlslread.entry_points(pr.ast):
                    stats["hlsl_entry_points_parsed"] += 1
                stats["reader_out_of_fragment_items"] += len(pr.ast["out_of_fragment"])
                for k in range(n_inputs):
                    if (pi, epi, k) in inputs:
                        hl_jobs.append(hlsl_job(pr, ep, inputs[(pi, epi, k)], HLSL_FUEL))
                        hl_keys.append((pi, on, epi, k))
    ir_res = dict(zip(ir_keys, run_models_parallel(irrun, ir_jobs)))
    hl_res = dict(zip(hl_keys, run_models_parallel(hlslrun, hl_jobs)))
    retry = []
    samples = []
    for (pi, on, epi, k), hr in hl_res.items():
        pr = progs[(pi, on)]
        inp = inputs[(pi, epi, k)]
        irr = ir_res[(pi, epi, k)]
        stats["runs"] += 1
        verdict, detail = compare(pr, inp, irr, hr)
        if verdict in ("mismatch", "hlsl_ub") and has_special_float([inp["ir_globals"], inp["cbuffers"]]):
            retry.append((pi, on, epi, k, verdict, detail))
            continue
        stats[verdict] += 1
        if verdict == "agree":
            changed = any(hr["buffers"].get(reg) != inp["buffers"].get(reg) for _gi, reg, _th, _ro in inp["storage"])
            stats["agree_and_wrote_memory"] = stats.get("agree_and_wrote_memory", 0) + (1 if changed else 0)
            if changed and len(samples) < 3 and k == 0:
                samples.append({"program": pr.name, "options": pr.optname, "entry_point": pr.ir["EntryPoints"][epi]["Name"],
                                "input_globals": json.dumps(inp["ir_globals"])[:300],
                                "final_buffers_head": {reg: hr["buffers"][reg][:16] for _gi, reg, _th, _ro in inp["storage"][:2]}})
        if verdict == "out_of_fragment":
            oof_reasons[detail[:90]] = oof_reasons.get(detail[:90], 0) + 1
        if verdict in ("mismatch", "hlsl_ub"):
            records.append(record(pr, programs[pi][1], epi, k, inp, verdict, detail, irr, hr))
        elif verdict != "agree":
            records.append({"verdict": verdict, "program": pr.name, "opt": pr.optname, "ep": epi, "input": k, "detail": detail})
    # WGSL does not define results that depend on NaN / infinity: re-run those inputs with finite floats
    if retry:
        r_ir, r_hl, meta = [], [], []
        for pi, on, epi, k, verdict, detail in retry:
            pr = progs[(pi, on)]
            inp = dict(inputs[(pi, epi, k)])
            inp["ir_globals"] = despecial(inp["ir_globals"])
            inp["cbuffers"] = despecial(inp["cbuffers"])
            bufs = {}
            for gi, reg, th, ro in inp["storage"]:
                bufs[reg], _m = pr.types.to_bytes(th, inp["ir_globals"][gi])
            inp["buffers"] = bufs
            ep = pr.ir["EntryPoints"][epi]
            r_ir.append(ir_job(refs.get(pi, pr), epi, inp, IR_FUEL))
            r_hl.append(hlsl_job(pr, ep, inp, HLSL_FUEL))
            meta.append((pi, on, epi, k, inp, verdict, detail))
        ir2 = run_models_parallel(irrun, r_ir)
        hl2 = run_models_parallel(hlslrun, r_hl)
        for (pi, on, epi, k, inp, v0, d0), irr, hr in zip(meta, ir2, hl2):
            pr = progs[(pi, on)]
            verdict, detail = compare(pr, inp, irr, hr)
            if verdict == "agree":
                stats["special_float_only"] += 1
                continue
            stats[verdict] += 1
            if verdict in ("mismatch", "hlsl_ub"):
                records.append(record(pr, programs[pi][1], epi, k, inp, verdict, detail, irr, hr))
    stats["out_of_fragment_reasons"] = dict(sorted(oof_reasons.items(), key=lambda x: -x[1])[:12])
    stats["samples"] = samples
    return stats, records


def record(pr, src, epi, k, inp, verdict, detail, irr, hr):
    return {"verdict": verdict, "program": pr.name, "opt": pr.optname, "ep": epi, "input": k, "detail": detail, "src": src,
            "hlsl": pr.hlsl, "inputs": {"globals": inp["ir_globals"], "args": inp["args"]},
            "ir_result": irr if not irr.get("ok") else {"ok": True}, "hlsl_result": {k2: v for k2, v in hr.items() if k2 != "globals"}}
