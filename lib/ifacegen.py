"""C17: generator of WGSL modules whose interface is known by construction.

A generated module has 1-4 entry points of mixed stages, 0-3 helper functions
forming a call DAG, and up to 8 resources (uniform / storage buffers, textures,
samplers, storage textures, workgroup and private variables).  Every function
body *uses* the resources assigned to it, so the set of resources an entry
point reaches through calls is known (`truth["eps"][i]["uses"]`).  Entry-point
inputs/outputs are bare parameters, IO structs or a mix, with every builtin
that is legal for the stage, locations 0-15, interpolation qualifiers,
@invariant and @blend_src.

The ground truth returned next to the source is what the WGSL text *says*
(attribute values as written), independent of naga."""

# builtin name -> (stage, direction, wgsl type, SPIR-V BuiltIn number [Vulkan 15.9 / SPIR-V 3.21],
#                  HLSL semantic, MSL attribute, is it an integer/bool type)
BUILTINS = {
    ("vertex", "in"): [("vertex_index", "u32", 42, "SV_VertexID", "vertex_id"),
                       ("instance_index", "u32", 43, "SV_InstanceID", "instance_id")],
    ("vertex", "out"): [("position", "vec4<f32>", 0, "SV_Position", "position")],
    ("fragment", "in"): [("position", "vec4<f32>", 15, "SV_Position", "position"),
                         ("front_facing", "bool", 17, "SV_IsFrontFace", "front_facing"),
                         ("sample_index", "u32", 18, "SV_SampleIndex", "sample_id"),
                         ("sample_mask", "u32", 20, "SV_Coverage", "sample_mask")],
    ("fragment", "out"): [("frag_depth", "f32", 22, "SV_Depth", "depth(any)"),
                          ("sample_mask", "u32", 20, "SV_Coverage", "sample_mask")],
    ("compute", "in"): [("local_invocation_id", "vec3<u32>", 27, "SV_GroupThreadID", "thread_position_in_threadgroup"),
                        ("local_invocation_index", "u32", 29, "SV_GroupIndex", "thread_index_in_threadgroup"),
                        ("global_invocation_id", "vec3<u32>", 28, "SV_DispatchThreadID", "thread_position_in_grid"),
                        ("workgroup_id", "vec3<u32>", 26, "SV_GroupID", "threadgroup_position_in_grid"),
                        ("num_workgroups", "vec3<u32>", 24, None, "threadgroups_per_grid")],
}

FLOAT_TYPES = ["f32", "vec2<f32>", "vec3<f32>", "vec4<f32>"]
INT_TYPES = ["i32", "u32", "vec2<i32>", "vec4<u32>", "vec3<i32>"]

STAGE_SUFFIX = {"vertex": "vs", "fragment": "fs", "compute": "cs"}


def is_int(t):
    return "i32" in t or "u32" in t


def zero_of(t):
    if t == "bool":
        return "false"
    return "%s()" % t


def to_f32(expr, t):
    """an f32 expression that depends on expr of type t"""
    if t == "bool":
        return "select(0.0, 1.0, %s)" % expr
    if t in ("f32",):
        return expr
    if t in ("i32", "u32"):
        return "f32(%s)" % expr
    return "f32(%s.x)" % expr


def from_f32(expr, t):
    if t == "f32":
        return expr
    if t in ("i32", "u32"):
        return "%s(%s)" % (t, expr)
    if t == "bool":
        return "(%s > 0.0)" % expr
    base = "f32" if "f32" in t else ("i32" if "i32" in t else "u32")
    inner = expr if base == "f32" else "%s(%s)" % (base, expr)
    return "%s(%s)" % (t, inner)


class Gen:
    def __init__(self, rng, idx):
        self.r = rng
        self.idx = idx
        self.decls = []
        self.truth = {"resources": [], "eps": []}
        self.enable = []

    # ------------------------------------------------------------- resources
    def resources(self):
        r = self.r
        n = r.range(0, 7)
        kinds = []
        for _ in range(n):
            kinds.append(r.choice(["ubuf_struct", "ubuf_vec", "sro", "srw", "tex", "samp", "stex", "wg", "priv", "sro_struct"]))
        # a texture needs a sampler to be sampled: make sure at least one exists when a texture does
        if "tex" in kinds and "samp" not in kinds:
            kinds.append("samp")
        keys = set()
        res = []
        big_group = r.chance(1, 12)
        for i, k in enumerate(kinds):
            name = "g" + k[0] + "abcdefghijklmnop"[i] + "x"
            e = {"name": name, "kind": k, "group": None, "binding": None, "handle": i}
            if k not in ("wg", "priv"):
                while True:
                    g = r.range(0, 3) if not (big_group and r.chance(1, 3)) else r.choice([255, 256, 300])
                    b = r.range(0, 15) if r.chance(7, 8) else r.choice([16, 31, 100, 255])
                    if (g, b) not in keys:
                        keys.add((g, b))
                        break
                e["group"], e["binding"] = g, b
            res.append(e)
        self.res = res
        if any(e["kind"] == "ubuf_struct" for e in res) or any(e["kind"] == "sro_struct" for e in res):
            self.decls.append("struct UB { v: vec4<f32>, w: vec4<f32>, }")
        for e in res:
            at = "" if e["group"] is None else "@group(%d) @binding(%d) " % (e["group"], e["binding"])
            k = e["kind"]
            if k == "ubuf_struct":
                d = "%svar<uniform> %s: UB;" % (at, e["name"])
            elif k == "ubuf_vec":
                d = "%svar<uniform> %s: vec4<f32>;" % (at, e["name"])
            elif k == "sro":
                d = "%svar<storage, read> %s: array<u32>;" % (at, e["name"])
            elif k == "sro_struct":
                d = "%svar<storage> %s: UB;" % (at, e["name"])
            elif k == "srw":
                d = "%svar<storage, read_write> %s: array<u32>;" % (at, e["name"])
            elif k == "tex":
                d = "%svar %s: texture_2d<f32>;" % (at, e["name"])
            elif k == "samp":
                d = "%svar %s: sampler;" % (at, e["name"])
            elif k == "stex":
                d = "%svar %s: texture_storage_2d<rgba8unorm, write>;" % (at, e["name"])
            elif k == "wg":
                d = "var<workgroup> %s: array<u32, 4>;" % e["name"]
            else:
                d = "var<private> %s: f32;" % e["name"]
            self.decls.append(d)
            self.truth["resources"].append(dict(e))

    def legal_stages(self, e):
        k = e["kind"]
        if k == "wg":
            return {"compute"}
        if k in ("srw", "stex"):
            return {"fragment", "compute"}
        return {"vertex", "fragment", "compute"}

    def use_stmt(self, e, samplers):
        """statement using resource e on `acc` (a var of type vec4<f32>); returns (text, extra resources used);
        texture/sampler pairings are recorded in self.cur_pairs"""
        k, n = e["kind"], e["name"]
        if k == "ubuf_struct":
            return "acc = acc + %s.v;" % n, []
        if k == "ubuf_vec":
            return "acc = acc + %s;" % n, []
        if k == "sro":
            return "acc.x = acc.x + f32(%s[0]);" % n, []
        if k == "sro_struct":
            return "acc = acc + %s.w;" % n, []
        if k == "srw":
            return "%s[0] = u32(acc.x);" % n, []
        if k == "tex":
            if samplers and self.r.chance(3, 4):
                s = self.r.choice(samplers)
                self.cur_pairs.add((n, s["name"]))
                return "acc = acc + textureSampleLevel(%s, %s, vec2<f32>(0.5), 0.0);" % (n, s["name"]), [s]
            self.cur_pairs.add((n, None))
            return "acc = acc + textureLoad(%s, vec2<i32>(0), 0);" % n, []
        if k == "samp":
            texs = [x for x in self.res if x["kind"] == "tex"]
            if texs:
                t = self.r.choice(texs)
                self.cur_pairs.add((t["name"], n))
                return "acc = acc + textureSampleLevel(%s, %s, vec2<f32>(0.25), 0.0);" % (t["name"], n), [t]
            return None, []
        if k == "stex":
            return "textureStore(%s, vec2<i32>(0), acc);" % n, []
        if k == "wg":
            return "%s[0] = u32(acc.y); acc.z = f32(%s[1]);" % (n, n), []
        return "%s = %s + 1.0; acc.w = %s;" % (n, n, n), []

    def pick_uses(self, stages, maxn):
        """resources usable in all of `stages`; returns (statements, set of resource names)"""
        r = self.r
        cands = [e for e in self.res if stages <= self.legal_stages(e)]
        samplers = [e for e in cands if e["kind"] == "samp"]
        k = r.range(0, min(maxn, len(cands)))
        chosen = r.shuffle(cands)[:k]
        stmts, used = [], set()
        self.cur_pairs = set()
        for e in chosen:
            s, extra = self.use_stmt(e, samplers)
            if s is None:
                continue
            stmts.append(s)
            used.add(e["name"])
            for x in extra:
                used.add(x["name"])
        return stmts, used

    def wrap(self, stmt):
        """put a statement (a resource use or a call) at some nesting depth: the call graph and the set of
        used globals must be found through Block / If / Switch / Loop bodies and continuing blocks"""
        r = self.r
        c = r.below(10)
        self.nwrap = getattr(self, "nwrap", 0) + 1
        k = "k%d" % self.nwrap
        if c < 4:
            return stmt
        if c == 4:
            return "if (acc.x >= -1.0) { %s }" % stmt
        if c == 5:
            return "if (acc.x < -1.0) { acc.x = 0.0; } else { { %s } }" % stmt
        if c == 6:
            return "var %s = 0; loop { if (%s >= 1) { break; } %s continuing { %s = %s + 1; } }" % (k, k, stmt, k, k)
        if c == 7:
            return "var %s = 0; loop { if (%s >= 1) { break; } continuing { %s = %s + 1; %s } }" % (k, k, k, k, stmt)
        if c == 8:
            return "switch (i32(acc.x)) { case 7: { acc.x = 1.0; } default: { %s } }" % stmt
        return "for (var %s = 0; %s < 1; %s = %s + 1) { if (acc.x > -5.0) { %s } }" % (k, k, k, k, stmt)

    # ------------------------------------------------------------- helpers
    def helpers(self):
        r = self.r
        n = r.range(0, 3)
        self.help = []
        for i in range(n):
            stages = r.choice([{"vertex", "fragment", "compute"}, {"vertex", "fragment", "compute"}, {"fragment", "compute"}, {"compute"}])
            callees = [h for h in self.help if stages <= h["stages"] and r.chance(1, 2)]
            stmts, used = self.pick_uses(stages, 3)
            name = "hf" + "abc"[i] + "x"
            body = ["var acc = a0;"] + [self.wrap(x) for x in stmts] + [self.wrap("acc = %s(acc);" % h["name"]) for h in callees] + ["return acc;"]
            self.decls.append("fn %s(a0: vec4<f32>) -> vec4<f32> { %s }" % (name, " ".join(body)))
            reach = set(used)
            pairs = set(self.cur_pairs)
            for h in callees:
                reach |= h["reach"]
                pairs |= h["pairs"]
            self.help.append({"name": name, "stages": stages, "reach": reach, "direct": used, "calls": [h["name"] for h in callees],
                              "pairs": pairs})

    # ------------------------------------------------------------- IO
    def interp(self, t):
        """(attribute text, kind, sampling) for a user IO of type t; kind in flat/linear/perspective"""
        r = self.r
        if is_int(t):
            if r.chance(1, 6):
                return "", "flat", "center"            # WGSL default for integers (naga applies it)
            return "@interpolate(flat) ", "flat", "center"
        c = r.below(9)
        if c < 3:
            return "", "perspective", "center"
        if c == 3:
            return "@interpolate(flat) ", "flat", "center"
        kind = r.choice(["perspective", "linear"])
        samp = r.choice(["center", "centroid", "sample", None])
        if samp is None:
            return "@interpolate(%s) " % kind, kind, "center"
        return "@interpolate(%s, %s) " % (kind, samp), kind, samp

    def attrs(self, *parts):
        """the attributes of one declaration, in either textual order (WGSL gives the order no meaning)"""
        parts = [p for p in parts if p]
        if len(parts) > 1 and self.r.chance(1, 2):
            parts = parts[::-1]
        return "".join(parts)

    def locations(self, n, pool=16):
        return sorted(self.r.shuffle(list(range(pool)))[:n])

    def make_inputs(self, stage, epname, varyings=None):
        """returns (params text list, struct decls, io truth list, statements folding inputs into acc)"""
        r = self.r
        ios = []
        bl = [b for b in BUILTINS[(stage, "in")] if r.chance(1, 2)]
        if stage == "compute" and not bl and r.chance(1, 2):
            bl = [BUILTINS[(stage, "in")][2]]
        items = []
        for (bn, bt, num, sem, mattr) in bl:
            items.append({"dir": "in", "builtin": bn, "spv_builtin": num, "type": bt, "attr": "@builtin(%s) " % bn,
                          "hlsl": sem, "msl": mattr})
        if stage == "vertex":
            for loc in self.locations(r.range(0, 4)):
                t = r.choice(FLOAT_TYPES + INT_TYPES)
                items.append({"dir": "in", "loc": loc, "type": t, "attr": "@location(%d) " % loc, "kind": None})
        elif stage == "fragment":
            if varyings is not None:
                for v in varyings:
                    if r.chance(3, 4):
                        items.append(dict(v, dir="in"))
            else:
                for loc in self.locations(r.range(0, 4)):
                    t = r.choice(FLOAT_TYPES + INT_TYPES)
                    a, kind, samp = self.interp(t)
                    items.append({"dir": "in", "loc": loc, "type": t, "attr": self.attrs("@location(%d) " % loc, a), "kind": kind, "samp": samp})
        items = r.shuffle(items)
        mode = r.choice(["bare", "bare", "struct", "struct", "mixed", "two_structs"]) if items else "bare"
        params, decls, stmts = [], [], []
        groups = []
        if mode == "bare" or len(items) < 2:
            groups = [("bare", items)]
        elif mode == "struct":
            groups = [("struct", items)]
        elif mode == "mixed":
            k = r.range(1, len(items) - 1)
            groups = [("struct", items[:k]), ("bare", items[k:])]
            if r.chance(1, 2):
                groups.reverse()
        else:
            k = r.range(1, len(items) - 1)
            groups = [("struct", items[:k]), ("struct", items[k:])]
        fi = 0
        shapes = []
        for gi, (gk, its) in enumerate(groups):
            if not its:
                continue
            if gk == "bare":
                for it in its:
                    nm = "p%d" % fi
                    fi += 1
                    params.append("%s%s: %s" % (it["attr"], nm, it["type"]))
                    stmts.append("acc.x = acc.x + %s;" % to_f32(nm, it["type"]))
                    shapes.append("bare-" + ("loc" if "loc" in it else "builtin"))
            else:
                sn = "In%s%d" % (epname.capitalize(), gi)
                members = []
                pn = "s%d" % gi
                for it in its:
                    nm = "m%d" % fi
                    fi += 1
                    members.append("%s%s: %s," % (it["attr"], nm, it["type"]))
                    stmts.append("acc.y = acc.y + %s;" % to_f32("%s.%s" % (pn, nm), it["type"]))
                decls.append("struct %s { %s }" % (sn, " ".join(members)))
                params.append("%s: %s" % (pn, sn))
                shapes.append("struct-" + "".join(sorted(set("L" if "loc" in it else "B" for it in its))))
        for it in items:
            ios.append(it)
        return params, decls, ios, stmts, shapes

    def make_outputs(self, stage, epname):
        """returns (return type text, struct decls, io truth, return statement builder, varyings for a following fragment)"""
        r = self.r
        if stage == "compute":
            return "", [], [], "return;", None
        if stage == "vertex":
            inv = r.chance(1, 4)
            posattr = self.attrs("@builtin(position) ", "@invariant " if inv else "")
            pos = {"dir": "out", "builtin": "position", "spv_builtin": 0, "type": "vec4<f32>", "invariant": inv,
                   "hlsl": "SV_Position", "msl": "position"}
            if r.chance(1, 4):
                return " -> %svec4<f32>" % posattr, [], [pos], "return acc;", []
            locs = []
            for loc in self.locations(r.range(0, 4)):
                t = r.choice(FLOAT_TYPES + INT_TYPES)
                a, kind, samp = self.interp(t)
                locs.append({"dir": "out", "loc": loc, "type": t, "attr": self.attrs("@location(%d) " % loc, a), "kind": kind, "samp": samp})
            sn = "Out%s" % epname.capitalize()
            members = [("pos", posattr, "vec4<f32>", pos)] + [("o%d" % i, l["attr"], l["type"], l) for i, l in enumerate(locs)]
            members = r.shuffle(members)
            decls = ["struct %s { %s }" % (sn, " ".join("%s%s: %s," % (a, n, t) for n, a, t, _ in members))]
            sets = []
            for n, a, t, it in members:
                sets.append("o.%s = %s;" % (n, "acc" if t == "vec4<f32>" and n == "pos" else from_f32("acc.x", t)))
            ret = "var o: %s; %s return o;" % (sn, " ".join(sets))
            return " -> %s" % sn, decls, [it for _, _, _, it in members], ret, locs
        # fragment
        c = r.below(8)
        if c == 0:
            return "", [], [], "return;", None
        if c <= 2:
            loc = r.range(0, 7)
            it = {"dir": "out", "loc": loc, "type": "vec4<f32>", "kind": None}
            return " -> @location(%d) vec4<f32>" % loc, [], [it], "return acc;", None
        if c == 3:
            it = {"dir": "out", "builtin": "frag_depth", "spv_builtin": 22, "type": "f32", "hlsl": "SV_Depth", "msl": "depth(any)"}
            return " -> @builtin(frag_depth) f32", [], [it], "return acc.x;", None
        sn = "Out%s" % epname.capitalize()
        members = []
        if c == 4:
            if "enable dual_source_blending;" not in self.enable:
                self.enable.append("enable dual_source_blending;")
            members.append(("c0", self.attrs("@location(0) ", "@blend_src(0) "), "vec4<f32>", {"dir": "out", "loc": 0, "type": "vec4<f32>", "kind": None, "blend_src": 0}))
            members.append(("c1", self.attrs("@location(0) ", "@blend_src(1) "), "vec4<f32>", {"dir": "out", "loc": 0, "type": "vec4<f32>", "kind": None, "blend_src": 1}))
        else:
            for i, loc in enumerate(self.locations(r.range(1, 3), 8)):
                t = r.choice(["vec4<f32>", "f32", "vec4<u32>", "vec4<i32>", "vec2<f32>"])
                members.append(("c%d" % i, "@location(%d) " % loc, t, {"dir": "out", "loc": loc, "type": t, "kind": None}))
            for (bn, bt, num, sem, mattr) in BUILTINS[("fragment", "out")]:
                if r.chance(1, 3):
                    members.append(("b" + bn[0], "@builtin(%s) " % bn, bt,
                                    {"dir": "out", "builtin": bn, "spv_builtin": num, "type": bt, "hlsl": sem, "msl": mattr}))
        members = r.shuffle(members)
        decls = ["struct %s { %s }" % (sn, " ".join("%s%s: %s," % (a, n, t) for n, a, t, _ in members))]
        sets = ["o.%s = %s;" % (n, "acc" if t == "vec4<f32>" else from_f32("acc.x", t)) for n, a, t, it in members]
        return " -> %s" % sn, decls, [it for _, _, _, it in members], "var o: %s; %s return o;" % (sn, " ".join(sets)), None

    # ------------------------------------------------------------- entry points
    def entry_points(self):
        r = self.r
        n = r.range(1, 4)
        stages = [r.choice(["vertex", "fragment", "compute"]) for _ in range(n)]
        # pair a fragment after a vertex now and then so interpolation qualifiers are shared
        last_varyings = None
        for i, st in enumerate(stages):
            name = "ep%s%sx" % ("abcd"[i], st[0])
            ins_params, in_decls, in_ios, in_stmts, shapes = self.make_inputs(
                st, name, varyings=last_varyings if (st == "fragment" and last_varyings and r.chance(2, 3)) else None)
            ret_t, out_decls, out_ios, ret_stmt, varyings = self.make_outputs(st, name)
            if st == "vertex":
                last_varyings = varyings
            stmts, used = self.pick_uses({st}, 4)
            callees = [h for h in self.help if st in h["stages"] and r.chance(1, 2)]
            reach = set(used)
            pairs = set(self.cur_pairs)
            for h in callees:
                reach |= h["reach"]
                pairs |= h["pairs"]
            wg = None
            attr = "@" + st
            if st == "compute":
                dims = r.range(1, 3)
                wg = [r.choice([1, 2, 4, 8, 16, 64]) if d < dims else 1 for d in range(3)]
                # keep the product within the usual limit of 256 invocations
                while wg[0] * wg[1] * wg[2] > 256:
                    wg[r.below(3)] = 1
                attr += " @workgroup_size(%s)" % ", ".join(str(x) for x in wg[:dims])
            body = (["var acc = vec4<f32>(0.0);"] + in_stmts + [self.wrap(x) for x in stmts] +
                    [self.wrap("acc = %s(acc);" % h["name"]) for h in callees] + [ret_stmt])
            self.decls += in_decls + out_decls
            self.decls.append("%s fn %s(%s)%s { %s }" % (attr, name, ", ".join(ins_params), ret_t, " ".join(body)))
            self.truth["eps"].append({"name": name, "stage": st, "workgroup": wg, "inputs": in_ios, "outputs": out_ios,
                                      "uses": sorted(reach), "direct": sorted(used), "calls": [h["name"] for h in callees],
                                      "input_shapes": shapes, "pairs": sorted(pairs, key=lambda p: (p[0], p[1] or ""))})

    def build(self):
        self.resources()
        self.helpers()
        self.entry_points()
        src = "\n".join(self.enable + self.decls) + "\n"
        self.truth["helpers"] = [{"name": h["name"], "direct": sorted(h["direct"]), "calls": h["calls"]} for h in self.help]
        return src, self.truth


def generate(rng, idx):
    return Gen(rng, idx).build()


# ---------------------------------------------------------------- probes for attribute spellings
# WGSL allows any const-expression of integer type as the argument of @group/@binding/@location/
# @workgroup_size (WGSL 12.*: "must be a const-expression that resolves to an i32 or u32").
def attribute_form_probes():
    forms = [("decimal", "2", ""), ("suffix-u", "2u", ""), ("suffix-i", "2i", ""), ("hex", "0x2", ""),
             ("const-ident", "K", "const K = 2;"), ("const-typed", "KU", "const KU: u32 = 2u;"),
             ("const-expr", "1 + 1", "")]
    out = []
    for tag, text, pre in forms:
        out.append(("group-binding:" + tag,
                    "%s\n@group(%s) @binding(%s) var<uniform> gux: vec4<f32>;\n@fragment fn epafx() -> @location(0) vec4<f32> { return gux; }\n" % (pre, text, text),
                    {"kind": "resource", "name": "gux", "group": 2, "binding": 2}))
        out.append(("location:" + tag,
                    "%s\n@fragment fn epafx(@location(%s) p0: vec4<f32>) -> @location(%s) vec4<f32> { return p0; }\n" % (pre, text, text),
                    {"kind": "location", "in": 2, "out": 2}))
        out.append(("workgroup-size:" + tag,
                    "%s\n@compute @workgroup_size(%s, %s) fn epacx() { }\n" % (pre, text, text),
                    {"kind": "workgroup", "size": [2, 2, 1]}))
    return out
