"""C16: op-sequence correspondence between the extracted namer model
(coq/Namer/Namer.v via build/bin/namer_model) and the real namers of the three
text backends (harness/cmd/namerdrive through the `verif` hooks).

Labels are lists of code points.  Observable compared: the exact spelling of
every issued name, position by position."""
import json
import os
import re

import vcheck

BACKENDS = ("hlsl", "msl", "glsl")

HELPER_WORDS = [
    "naga_div", "_naga_div", "naga_mod", "naga_modf", "naga_frexp", "_naga_abs", "naga_neg", "naga_f2i32", "_naga_f2i32",
    "naga_extractBits", "__dynamic_buffer_offsets", "_naga_sampler_heap", "nagaSamplerHeap", "NagaBufferLength",
    "_e1", "_e12", "_e", "e1", "type_1", "type", "local", "local_1", "loop_bound", "loop_init", "should_continue",
    "main", "main_", "main_1", "gl_Position", "gl_foo", "gl_", "gl", "metal", "member", "member_1", "param", "unnamed",
    "unnamed_1", "varyings", "oob", "DefaultConstructible", "_tmp", "_tmp_return", "_group_0_binding_1_fs",
    "_group_0_binding_0_cs", "_vs2fs_location0", "_fs2p_location0", "_p2vs_location1", "ConstructFoo", "Foo", "ZeroValueFoo",
    "FragmentInput_fs", "VertexOutput_vs", "fsInput", "fsOutput", "_pad3", "arg0", "ret", "function", "global", "const_type",
    "M_PI", "M_PI_2", "M_PI_4", "M_SQRT1", "M_SQRT1_2", "M_PI_F", "_buffer_sizes", "_mslBufferSizes", "phony", "texture1d",
    "TEXTURE2D", "Texture2D", "texture2D", "ASM", "Asm", "Pass", "TECHNIQUE", "decl", "Decl", "textureCUBE", "uint", "uInt",
]

UNICODE_WORDS = ["é", "été", "π", "Δx", "変数", "a変", "x͂", "𝒳", "𝒳1", "ß_", "_é_", "é__é", "éé", "ａ", "ǅ", "ⅷ", "a‍b", "￿", "\U0010ffff"]
ODD = ["", "_", "__", "___", "_1", "1", "12", "1_", "1a", "12ab", "9__a", "a__b", "a___b", "__a", "a_", "a__", "_a_", "a_1", "a_1_",
       "a1", "a1_", "a_01", "a_0", "a_00", "x_10", "x_9", ":1", ":a", "a:b", "a::b", "vec3<f32>", "array<vec4<f32>, 4>", "a,b", "a b",
       " a", "a-b", "a.b", "$", "a$", "1:2", ":", "::", ":_", "_:", "<", "a<", "<1>", "\x00", "a\x00b", "\t", "1é", "é1", ":é", "é:", "_é"]


def load_tables():
    """keyword tables as regenerated into coq/Gen/Keywords.v (words are in the comments)"""
    p = os.path.join(vcheck.COQ, "Gen", "Keywords.v")
    src = open(p, encoding="utf-8").read()
    tabs = {}
    for m in re.finditer(r"Definition (\w+) : list \(list Z\) := \[\n(.*?)\]\.\n", src, re.S):
        words = []
        for row in m.group(2).split("\n"):
            mm = re.match(r"\s*\[([0-9; ]*)\]", row)
            if mm:
                words.append("".join(chr(int(x)) for x in mm.group(1).split(";") if x.strip()))
        tabs[m.group(1)] = words
    return tabs


def variants(rng, w):
    k = rng.below(14)
    if k == 0:
        return w.upper()
    if k == 1:
        return w.lower()
    if k == 2:
        return w.swapcase()
    if k == 3:
        return w.capitalize()
    if k == 4:
        return w + "_"
    if k == 5:
        return w + "__"
    if k == 6:
        return w + "_%d" % rng.below(12)
    if k == 7:
        return w + "%d" % rng.below(10)
    if k == 8:
        return "_" + w
    if k == 9:
        return "%d" % rng.below(100) + w
    if k == 10:
        return w + "_" + rng.choice(["a", "1", "é", "_"]) if w else w
    if k == 11:
        return w + rng.choice([":", "<", ">", ",", " ", "é"]) + w
    return w


def random_label(rng):
    alpha = ["a", "b", "Z", "_", "_", "1", "0", ":", "<", ",", " ", "é", "𝒳", "-"]
    return "".join(rng.choice(alpha) for _ in range(rng.below(7)))


def gen_sequences(rng, n, tables):
    kw = {"hlsl": tables["hlsl_keywords"] + tables["hlsl_ci_keywords"] + tables["hlsl_helpers"],
          "msl": tables["msl_keywords"], "glsl": tables["glsl_keywords"]}
    allkw = sorted(set(kw["hlsl"]) | set(kw["msl"]) | set(kw["glsl"]))
    jobs = []
    for i in range(n):
        backend = BACKENDS[i % 3]
        r = rng.fork("seq%d" % i)
        # a small working set of labels so that collisions are frequent
        ws = []
        for _ in range(2 + r.below(7)):
            k = r.below(10)
            if k < 3:
                w = r.choice(kw[backend])
            elif k == 3:
                w = r.choice(allkw)
            elif k < 6:
                w = r.choice(HELPER_WORDS)
            elif k == 6:
                w = r.choice(UNICODE_WORDS)
            elif k == 7:
                w = r.choice(ODD)
            else:
                w = random_label(r)
            if r.chance(1, 2):
                w = variants(r, w)
            ws.append(w)
            # often add a sibling that sanitizes to the same base
            if r.chance(1, 3):
                ws.append(variants(r, w))
        ops = []
        depth = 0
        for _ in range(1 + r.below(40)):
            k = r.below(20)
            if k == 0 and backend == "hlsl":
                ops.append(["r", [ord(c) for c in r.choice(ws)]])
            elif k == 1:
                ops.append(["{"])
                depth += 1
            elif k == 2:
                ops.append(["}"])       # may be unmatched (model: no-op)
                depth -= 1
            else:
                ops.append(["c", [ord(c) for c in r.choice(ws)]])
        jobs.append({"backend": backend, "ops": ops})
    return jobs


def cps_ok(ops):
    """only valid Unicode scalar values travel (Go string(rune) would replace others)"""
    for o in ops:
        if len(o) > 1:
            for c in o[1]:
                if c < 0 or c > 0x10FFFF or 0xD800 <= c <= 0xDFFF:
                    return False
    return True


def run_impl(tools, jobs):
    gj = [{"id": i, "data": j} for i, j in enumerate(jobs)]
    rc, res, se = vcheck.jsonl_tool(tools["namerdrive"], ["run"], gj, timeout=900)
    out = {}
    for r in res:
        out[r["id"]] = r
    return [out.get(i) for i in range(len(jobs))]


def compare(tools, exe, jobs):
    """returns (n_compared, mismatches, stats)"""
    jobs = [j for j in jobs if cps_ok(j["ops"])]
    model = vcheck.run_model(exe, jobs)
    impl = run_impl(tools, jobs)
    mism = []
    stats = {"sequences": len(jobs), "calls": 0, "collision_suffix": 0, "escaped_first": 0, "namespaces": 0,
             "non_ascii_labels": 0, "hlsl_prefixes_nonempty": 0}
    distinct = set()
    for j, m, r in zip(jobs, model, impl):
        distinct.add(json.dumps(j, sort_keys=True))
        if r is None or "out" not in r or "out" not in m:
            mism.append({"job": j, "model": m, "impl": r, "what": "no result (%s)" % ((r or {}).get("panic") or (r or {}).get("err") or m.get("err"))})
            continue
        if r.get("prefixes"):
            stats["hlsl_prefixes_nonempty"] += 1
            mism.append({"job": j, "model": m, "impl": r, "what": "hlsl newNamer has reservedPrefixes %r (model: none)" % r["prefixes"]})
            continue
        for o, a in zip(j["ops"], r["out"]):
            if o[0] == "c":
                stats["calls"] += 1
                s = "".join(chr(c) for c in a)
                if re.search(r"_\d+$", s):
                    stats["collision_suffix"] += 1
                elif s.endswith("_"):
                    stats["escaped_first"] += 1
                if any(c > 127 for c in o[1]):
                    stats["non_ascii_labels"] += 1
            elif o[0] == "{":
                stats["namespaces"] += 1
        if m["out"] != r["out"]:
            k = next(i for i, (a, b) in enumerate(zip(m["out"], r["out"])) if a != b)
            def show(x):
                return None if x is None else "".join(chr(c) for c in x)
            mism.append({"job": j, "model": m, "impl": r,
                         "what": "%s op %d %r: model %r, naga %r" % (j["backend"], k,
                                 (j["ops"][k][0], show(j["ops"][k][1]) if len(j["ops"][k]) > 1 else None),
                                 show(m["out"][k]), show(r["out"][k]))})
    stats["distinct_sequences"] = len(distinct)
    return len(jobs), mism, stats
