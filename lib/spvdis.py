"""Minimal SPIR-V word-stream reader (same physical layout as coq/Spv/Binary.v) + a debugging disassembler.
Opcode numbers/names: SPIR-V 1.6 specification (independent of naga's spirv.go)."""
import struct, sys

NAMES = {0:"Nop",1:"Undef",3:"Source",5:"Name",6:"MemberName",7:"String",8:"Line",10:"Extension",11:"ExtInstImport",12:"ExtInst",14:"MemoryModel",
15:"EntryPoint",16:"ExecutionMode",17:"Capability",19:"TypeVoid",20:"TypeBool",21:"TypeInt",22:"TypeFloat",23:"TypeVector",24:"TypeMatrix",
25:"TypeImage",26:"TypeSampler",27:"TypeSampledImage",28:"TypeArray",29:"TypeRuntimeArray",30:"TypeStruct",32:"TypePointer",33:"TypeFunction",
41:"ConstantTrue",42:"ConstantFalse",43:"Constant",44:"ConstantComposite",46:"ConstantNull",54:"Function",55:"FunctionParameter",56:"FunctionEnd",
57:"FunctionCall",59:"Variable",61:"Load",62:"Store",63:"CopyMemory",65:"AccessChain",66:"InBoundsAccessChain",68:"ArrayLength",71:"Decorate",
72:"MemberDecorate",77:"VectorExtractDynamic",78:"VectorInsertDynamic",79:"VectorShuffle",80:"CompositeConstruct",81:"CompositeExtract",
82:"CompositeInsert",83:"CopyObject",84:"Transpose",109:"ConvertFToU",110:"ConvertFToS",111:"ConvertSToF",112:"ConvertUToF",113:"UConvert",
114:"SConvert",115:"FConvert",116:"QuantizeToF16",124:"Bitcast",126:"SNegate",127:"FNegate",128:"IAdd",129:"FAdd",130:"ISub",131:"FSub",
132:"IMul",133:"FMul",134:"UDiv",135:"SDiv",136:"FDiv",137:"UMod",138:"SRem",139:"SMod",140:"FRem",141:"FMod",142:"VectorTimesScalar",
143:"MatrixTimesScalar",144:"VectorTimesMatrix",145:"MatrixTimesVector",146:"MatrixTimesMatrix",147:"OuterProduct",148:"Dot",154:"Any",155:"All",
156:"IsNan",157:"IsInf",164:"LogicalEqual",165:"LogicalNotEqual",166:"LogicalOr",167:"LogicalAnd",168:"LogicalNot",169:"Select",170:"IEqual",
171:"INotEqual",172:"UGreaterThan",173:"SGreaterThan",174:"UGreaterThanEqual",175:"SGreaterThanEqual",176:"ULessThan",177:"SLessThan",
178:"ULessThanEqual",179:"SLessThanEqual",180:"FOrdEqual",181:"FUnordEqual",182:"FOrdNotEqual",183:"FUnordNotEqual",184:"FOrdLessThan",
185:"FUnordLessThan",186:"FOrdGreaterThan",187:"FUnordGreaterThan",188:"FOrdLessThanEqual",189:"FUnordLessThanEqual",190:"FOrdGreaterThanEqual",
191:"FUnordGreaterThanEqual",194:"ShiftRightLogical",195:"ShiftRightArithmetic",196:"ShiftLeftLogical",197:"BitwiseOr",198:"BitwiseXor",
199:"BitwiseAnd",200:"Not",201:"BitFieldInsert",202:"BitFieldSExtract",203:"BitFieldUExtract",204:"BitReverse",205:"BitCount",224:"ControlBarrier",
225:"MemoryBarrier",227:"AtomicLoad",228:"AtomicStore",229:"AtomicExchange",230:"AtomicCompareExchange",232:"AtomicIIncrement",233:"AtomicIDecrement",
234:"AtomicIAdd",235:"AtomicISub",236:"AtomicSMin",237:"AtomicUMin",238:"AtomicSMax",239:"AtomicUMax",240:"AtomicAnd",241:"AtomicOr",242:"AtomicXor",
245:"Phi",246:"LoopMerge",247:"SelectionMerge",248:"Label",249:"Branch",250:"BranchConditional",251:"Switch",252:"Kill",253:"Return",
254:"ReturnValue",255:"Unreachable",400:"CopyLogical"}

# opcodes with (result type, result id) as their first two operands / with only a result id first
HAS_TYPE_AND_RESULT = set([1,12,41,42,43,44,46,54,55,57,59,61,65,66,68,77,78,79,80,81,82,83,84] + list(range(109,125)) + list(range(126,206)) +
                          [227,229,230,231] + list(range(232,243)) + [245, 400])
RESULT_ONLY = set([7, 11, 19,20,21,22,23,24,25,26,27,28,29,30,31,32,33, 248])


def words_of_bytes(b):
    return list(struct.unpack("<%dI" % (len(b) // 4), b))


def decode(words):
    """-> (header words, [(opcode, [operand words])]) ; raises ValueError on a malformed stream."""
    if len(words) < 5:
        raise ValueError("short header")
    out = []
    i = 5
    while i < len(words):
        wc = words[i] >> 16
        op = words[i] & 0xFFFF
        if wc == 0 or i + wc > len(words):
            raise ValueError("bad word count at %d" % i)
        out.append((op, words[i + 1:i + wc]))
        i += wc
    return words[:5], out


def lit_string(ws):
    b = b"".join(struct.pack("<I", w) for w in ws)
    n = b.find(b"\0")
    return b[:n].decode("utf-8", "replace"), (n // 4) + 1


def result_id(op, ops):
    if op in HAS_TYPE_AND_RESULT:
        return ops[1]
    if op in RESULT_ONLY:
        return ops[0]
    return None


def disasm(words):
    _h, ins = decode(words)
    lines = []
    for op, ops in ins:
        nm = NAMES.get(op, "Op%d" % op)
        if op in HAS_TYPE_AND_RESULT:
            lines.append("%%%d = Op%s %%%d %s" % (ops[1], nm, ops[0], " ".join(str(x) for x in ops[2:])))
        elif op in RESULT_ONLY:
            lines.append("%%%d = Op%s %s" % (ops[0], nm, " ".join(str(x) for x in ops[1:])))
        elif op == 15:
            s, n = lit_string(ops[2:])
            lines.append("OpEntryPoint %d %%%d \"%s\" %s" % (ops[0], ops[1], s, ops[2 + n:]))
        else:
            lines.append("Op%s %s" % (nm, " ".join(str(x) for x in ops)))
    return "\n".join(lines)


if __name__ == "__main__":
    print(disasm(words_of_bytes(open(sys.argv[1], "rb").read())))
