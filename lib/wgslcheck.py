"""Tie between the verified WGSL type checker (coq/Wgsl/Typecheck.v, extracted as tool `wgslcheck`) and
lib/wgslgen.py / naga.

  accept_leg   (C08): every program of the typed generator must be ACCEPTED by `wgsl_check` (the programs naga is
               asked to accept are then valid WGSL by the checker whose soundness w.r.t. Wgsl/Sem.v is proved in
               Wgsl/TypecheckProofs.v, not merely "valid by construction of a Python generator").
  mutation_leg (C11-flavoured): AST-level ill-typing edits of generated programs that `wgsl_check` rejects with the
               expected rule are rendered and given to naga: for the classes naga diagnoses (C11's list, plus the
               builtin arity diagnostics of lower.go) naga must reject them; for every other WGSL rule the outcome is
               only counted (evidence `open_questions`): naga has no type checker for them.
"""
import copy

import nagarun
import vcheck
import wgslgen


# ------------------------------------------------------------------ AST plumbing

def norm(x):
    """AST as coq/Wgsl/Decode.v reads it: a vector bitcast carries its full target type in the generator's AST
    (`"t": ["vec", n, s]`), Wgsl/Sem.wexpr only the scalar kind (the width is that of the operand)."""
    if isinstance(x, dict):
        y = {k: norm(v) for k, v in x.items()}
        if y.get("e") == "bitcast" and isinstance(y.get("t"), list):
            y["t"] = y["t"][2]
        return y
    if isinstance(x, list):
        return [norm(v) for v in x]
    return x


EXPR_KIDS = {"un": ["a"], "bin": ["a", "b"], "idx": ["a", "i"], "mem": ["a"], "swz": ["a"], "conv": ["a"], "bitcast": ["a"],
             "addr": ["a"], "deref": ["a"], "arraylen": ["a"]}


def sub_exprs(e):
    """(holder, key) slots of the direct sub-expressions of e"""
    k = e["e"]
    if k in ("call", "builtin", "cons"):
        return [(e["args"], i) for i in range(len(e["args"]))]
    return [(e, f) for f in EXPR_KIDS.get(k, [])]


def all_exprs(holder, key, out):
    e = holder[key]
    out.append((holder, key))
    for h, k in sub_exprs(e):
        all_exprs(h, k, out)


def stmt_expr_slots(s):
    k = s["s"]
    out = []
    if k in ("let", "var", "return"):
        if s.get("e") is not None:
            out.append((s, "e"))
    elif k in ("assign", "compound"):
        out += [(s, "l"), (s, "e")]
    elif k in ("incr", "decr"):
        out.append((s, "l"))
    elif k in ("if", "while"):
        out.append((s, "c"))
    elif k == "switch":
        out.append((s, "e"))
    elif k == "loop":
        if s.get("break_if") is not None:
            out.append((s, "break_if"))
    elif k == "for":
        if s.get("c") is not None:
            out.append((s, "c"))
    elif k == "callstmt":
        out += [(s["args"], i) for i in range(len(s["args"]))]
    return out


def stmt_blocks(s):
    """(block list, tag) of the nested blocks of s"""
    k = s["s"]
    if k == "if":
        return [(s["then"], "if"), (s["else"], "if")]
    if k == "switch":
        return [(c["body"], "switch") for c in s["cases"]]
    if k == "loop":
        return [(s["body"], "loop"), (s["cont"], "cont")]
    if k in ("for", "while"):
        return [(s["body"], "loop")]
    if k == "block":
        return [(s["body"], "block")]
    return []


def walk(block, ctx, out):
    """out: list of (block, index, ctx); ctx = dict(fn, in_loop, in_switch, in_cont, depth)"""
    for i, s in enumerate(block):
        out.append((block, i, ctx))
        for b, tag in stmt_blocks(s):
            c = dict(ctx, depth=ctx["depth"] + 1)
            if tag == "loop":
                c.update(in_loop=True, in_switch=False, in_cont=False)
            elif tag == "cont":
                c.update(in_loop=False, in_switch=False, in_cont=True)
            elif tag == "switch":
                c.update(in_switch=True)
            walk(b, c, out)
        if s["s"] == "for":
            for k in ("init", "upd"):
                if s.get(k) is not None:
                    pass


def functions(prog):
    return list(prog["funcs"]) + [prog["entry"]]


def all_stmts(prog):
    out = []
    for f in functions(prog):
        walk(f["body"], dict(fn=f, in_loop=False, in_switch=False, in_cont=False, depth=0), out)
    return out


def all_expr_slots(prog):
    """(holder, key, fn) for every expression node in function bodies"""
    out = []
    for block, i, ctx in all_stmts(prog):
        s = block[i]
        slots = list(stmt_expr_slots(s))
        if s["s"] == "for":
            for k in ("init", "upd"):
                if s.get(k) is not None:
                    slots += stmt_expr_slots(s[k])
        if s["s"] == "switch":
            for c in s["cases"]:
                slots += [(c["sel"], j) for j, x in enumerate(c["sel"]) if x != "default"]
        for h, k in slots:
            acc = []
            all_exprs(h, k, acc)
            out += [(hh, kk, ctx["fn"]) for hh, kk in acc]
    return out


def histogram(prog, hist):
    for block, i, _ctx in all_stmts(prog):
        hist["s:" + block[i]["s"]] = hist.get("s:" + block[i]["s"], 0) + 1
    for h, k, _f in all_expr_slots(prog):
        e = h[k]
        tag = "e:" + e["e"]
        if e["e"] in ("bin", "un"):
            tag += ":" + e["op"]
        elif e["e"] == "builtin":
            tag += ":" + e["f"]
        hist[tag] = hist.get(tag, 0) + 1
    for g in prog["globals"]:
        hist["g:" + g["space"]] = hist.get("g:" + g["space"], 0) + 1
    hist["fn"] = hist.get("fn", 0) + len(prog["funcs"])
    hist["struct"] = hist.get("struct", 0) + len(prog["structs"])
    hist["const"] = hist.get("const", 0) + len(prog["consts"])


# ------------------------------------------------------------------ mutations

def lit(t, v):
    return {"e": "lit", "t": t, "v": v}


def other_scalar(t):
    return "u32" if t == "i32" else "i32"


def lit_not_of(t):
    """a literal whose type differs from t (any type)"""
    return lit("u32", 1) if t == "i32" else lit("i32", 1)


def zero_of(t):
    if isinstance(t, str):
        return lit(t, False if t == "bool" else 0)
    return {"e": "cons", "t": t, "args": []}


def var(n):
    return {"e": "var", "n": n}


TRUE = {"e": "lit", "t": "bool", "v": True}


def sized(t):
    return not (isinstance(t, list) and (t[0] == "ptr" or wgslgen.unsized(t)))


class Mut:
    """one ill-typing edit: `apply(prog, rng)` edits prog (a private deep copy) in place and returns a short site
    description, or None when the program has no applicable site"""
    def __init__(self, name, rules, strict, apply):
        self.name, self.rules, self.strict, self.apply = name, set(rules), strict, apply


def _lets(prog, pred):
    return [(b, i, c) for b, i, c in all_stmts(prog) if b[i]["s"] == "let" and pred(b[i])]


def m_assign_to_let(form):
    def go(prog, rng):
        ok = (lambda s: s["t"] in ("i32", "u32")) if form != "assign" else (lambda s: sized(s["t"]))
        sites = _lets(prog, ok)
        if not sites:
            return None
        b, i, c = rng.choice(sites)
        s = b[i]
        if form == "assign":
            new = {"s": "assign", "l": var(s["n"]), "e": copy.deepcopy(s["e"])}
        elif form == "compound":
            new = {"s": "compound", "op": "+", "l": var(s["n"]), "e": lit(s["t"], 1)}
        else:
            new = {"s": "incr", "l": var(s["n"])}
        b.insert(i + 1, new)
        return "%s after let %s in %s" % (form, s["n"], c["fn"]["n"])
    return go


def m_assign_to_param(prog, rng):
    sites = [(f, p) for f in prog["funcs"] for p in f["params"] if sized(p["t"])]
    if not sites:
        return None
    f, p = rng.choice(sites)
    f["body"].insert(0, {"s": "assign", "l": var(p["n"]), "e": zero_of(p["t"])})
    return "parameter %s of %s" % (p["n"], f["n"])


def m_jump_outside(kind, nested):
    def go(prog, rng):
        f = rng.choice(functions(prog))
        j = {"s": kind}
        s = {"s": "if", "c": copy.deepcopy(TRUE), "then": [j], "else": []} if nested else j
        if nested:
            f["body"].insert(0, s)
        elif f.get("ret") is None:
            f["body"].append(s)
        else:
            return None
        return "%s at the top of %s" % (kind, f["n"])
    return go


def m_jump_in_continuing(kind):
    def go(prog, rng):
        sites = [(b, i, c) for b, i, c in all_stmts(prog) if b[i]["s"] == "loop"]
        if not sites:
            return None
        b, i, c = rng.choice(sites)
        j = {"s": kind}
        if kind == "return":
            if c["fn"].get("ret") is not None:
                return None
            j["e"] = None
        b[i]["cont"].append({"s": "if", "c": copy.deepcopy(TRUE), "then": [j], "else": []})
        return "%s in a continuing block of %s" % (kind, c["fn"]["n"])
    return go


def _expr_sites(prog, pred):
    return [(h, k, f) for h, k, f in all_expr_slots(prog) if pred(h[k])]


def m_builtin_arity(few):
    def go(prog, rng):
        sites = _expr_sites(prog, lambda e: e["e"] == "builtin" and len(e["args"]) >= 1)
        if not sites:
            return None
        h, k, f = rng.choice(sites)
        e = h[k]
        if few:
            e["args"].pop()
        else:
            e["args"].append(copy.deepcopy(e["args"][-1]))
        return "%s with %d arguments in %s" % (e["f"], len(e["args"]), f["n"])
    return go


def _call_sites(prog):
    out = [(h[k], f) for h, k, f in _expr_sites(prog, lambda e: e["e"] == "call")]
    out += [(b[i], c["fn"]) for b, i, c in all_stmts(prog) if b[i]["s"] == "callstmt"]
    return out


def m_call_arity(few):
    def go(prog, rng):
        sites = [(e, f) for e, f in _call_sites(prog) if (len(e["args"]) >= 1 or not few)]
        if not sites:
            return None
        e, f = rng.choice(sites)
        if few:
            e["args"].pop()
        else:
            e["args"].append(lit("i32", 1))
        return "call of %s with %d arguments in %s" % (e["f"], len(e["args"]), f["n"])
    return go


def m_call_arg_type(prog, rng):
    sigs = {f["n"]: f for f in prog["funcs"]}
    sites = []
    for e, f in _call_sites(prog):
        ps = sigs.get(e["f"], {}).get("params", [])
        for j, p in enumerate(ps):
            if j < len(e["args"]):
                sites.append((e, j, p["t"], f))
    if not sites:
        return None
    e, j, t, f = rng.choice(sites)
    e["args"][j] = lit_not_of(t)
    return "argument %d of %s in %s" % (j, e["f"], f["n"])


def m_operand_type(prog, rng):
    ops = ("+", "-", "*", "/", "%", "&", "|", "^", "==", "!=", "<", "<=", ">", ">=")
    sites = _expr_sites(prog, lambda e: e["e"] == "bin" and e["op"] in ops and e["b"]["e"] == "lit" and e["b"]["t"] in ("i32", "u32"))
    if not sites:
        return None
    h, k, f = rng.choice(sites)
    e = h[k]
    e["b"] = lit(other_scalar(e["b"]["t"]), 1)
    return "right operand of %s in %s" % (e["op"], f["n"])


def m_shift_amount_type(prog, rng):
    sites = _expr_sites(prog, lambda e: e["e"] == "bin" and e["op"] in ("<<", ">>"))
    if not sites:
        return None
    h, k, f = rng.choice(sites)
    h[k]["b"] = lit("i32", 1)
    return "shift amount in %s" % f["n"]


def m_negate_u32(prog, rng):
    sites = _expr_sites(prog, lambda e: e["e"] == "lit" and e["t"] == "u32")
    # not the selector literals of switch clauses and not array indices of module-scope buffers (still fine) -- any site
    sites = [(h, k, f) for h, k, f in sites if not (isinstance(h, list) and any(x == "default" for x in h))]
    if not sites:
        return None
    h, k, f = rng.choice(sites)
    h[k] = {"e": "un", "op": "-", "a": h[k]}
    return "negated u32 literal in %s" % f["n"]


def m_cond_not_bool(prog, rng):
    sites = [(b, i, c) for b, i, c in all_stmts(prog) if b[i]["s"] in ("if", "while")]
    if not sites:
        return None
    b, i, c = rng.choice(sites)
    b[i]["c"] = lit("i32", 1)
    return "%s condition in %s" % (b[i]["s"], c["fn"]["n"])


def m_var_init_type(prog, rng):
    sites = [(b, i, c) for b, i, c in all_stmts(prog) if b[i]["s"] == "var" and b[i].get("e") is not None]
    if not sites:
        return None
    b, i, c = rng.choice(sites)
    b[i]["e"] = lit_not_of(b[i]["t"])
    return "initialiser of var %s in %s" % (b[i]["n"], c["fn"]["n"])


def m_assign_types(prog, rng):
    sites = [(b, i, c) for b, i, c in all_stmts(prog) if b[i]["s"] == "assign" and b[i]["l"]["e"] == "var"]
    if not sites:
        return None
    b, i, c = rng.choice(sites)
    # the declared type of the variable decides which literal is of another type
    n = b[i]["l"]["n"]
    t = None
    for bb, ii, cc in all_stmts(prog):
        if cc["fn"] is c["fn"] and bb[ii]["s"] == "var" and bb[ii]["n"] == n:
            t = bb[ii]["t"]
    for g in prog["globals"]:
        if g["n"] == n:
            t = g["t"]
    if t is None:
        return None
    b[i]["e"] = lit_not_of(t)
    return "assignment to %s in %s" % (n, c["fn"]["n"])


def m_return_type(prog, rng):
    sites = [f for f in prog["funcs"] if f.get("ret") is not None and f["body"] and f["body"][-1]["s"] == "return"]
    if not sites:
        return None
    f = rng.choice(sites)
    f["body"][-1]["e"] = lit_not_of(f["ret"])
    return "return value of %s" % f["n"]


def m_return_value_in_void(prog, rng):
    f = prog["entry"]
    f["body"].append({"s": "return", "e": lit("i32", 1)})
    return "return 1 in %s" % f["n"]


def m_missing_return(prog, rng):
    sites = [f for f in prog["funcs"] if f.get("ret") is not None and f["body"] and f["body"][-1]["s"] == "return"]
    if not sites:
        return None
    f = rng.choice(sites)
    f["body"].pop()
    return "last return of %s deleted" % f["n"]


def m_unknown_ident(prog, rng):
    sites = _expr_sites(prog, lambda e: e["e"] == "var")
    if not sites:
        return None
    h, k, f = rng.choice(sites)
    h[k]["n"] = h[k]["n"] + "_undeclared"
    return "identifier %s in %s" % (h[k]["n"], f["n"])


def m_unknown_function(prog, rng):
    sites = _call_sites(prog)
    if not sites:
        return None
    e, f = rng.choice(sites)
    e["f"] = e["f"] + "_undeclared"
    return "call of %s in %s" % (e["f"], f["n"])


def m_unknown_member(prog, rng):
    sites = _expr_sites(prog, lambda e: e["e"] == "mem")
    if not sites:
        return None
    h, k, f = rng.choice(sites)
    h[k]["m"] = 99
    h[k]["name"] = "m99"
    return "member m99 in %s" % f["n"]


def m_unknown_type(prog, rng):
    sites = [(b, i, c) for b, i, c in all_stmts(prog) if b[i]["s"] == "var"]
    if not sites:
        return None
    b, i, c = rng.choice(sites)
    b[i]["t"] = ["struct", "S_undeclared"]
    b[i]["e"] = None
    return "type of var %s in %s" % (b[i]["n"], c["fn"]["n"])


def m_swizzle_width(prog, rng):
    sites = _expr_sites(prog, lambda e: e["e"] == "swz" and e["a"] == {"e": "var", "n": "gid"})
    sites = [(h, k, f) for h, k, f in sites if f is prog["entry"]]
    if not sites:
        return None
    h, k, f = rng.choice(sites)
    h[k]["p"] = [3] if len(h[k]["p"]) == 1 else h[k]["p"][:-1] + [3]
    return "gid.w in %s" % f["n"]


def m_index_type(prog, rng):
    sites = _expr_sites(prog, lambda e: e["e"] == "idx")
    if not sites:
        return None
    h, k, f = rng.choice(sites)
    h[k]["i"] = lit("f32", 0x3F800000)
    return "f32 index in %s" % f["n"]


def m_switch_case_type(prog, rng):
    sites = [(b, i, c) for b, i, c in all_stmts(prog) if b[i]["s"] == "switch"]
    sites = [(b, i, c) for b, i, c in sites if any(x != "default" for cs in b[i]["cases"] for x in cs["sel"])]
    if not sites:
        return None
    b, i, c = rng.choice(sites)
    for cs in b[i]["cases"]:
        for j, x in enumerate(cs["sel"]):
            if x != "default":
                cs["sel"][j] = lit(other_scalar(x["t"]), x["v"])
                return "case selector type in %s" % c["fn"]["n"]


def m_switch_duplicate(prog, rng):
    sites = [(b, i, c) for b, i, c in all_stmts(prog) if b[i]["s"] == "switch"]
    sites = [(b, i, c) for b, i, c in sites if any(x != "default" for cs in b[i]["cases"] for x in cs["sel"])]
    if not sites:
        return None
    b, i, c = rng.choice(sites)
    for cs in b[i]["cases"]:
        for x in cs["sel"]:
            if x != "default":
                cs["sel"].append(copy.deepcopy(x))
                return "duplicated case selector in %s" % c["fn"]["n"]


def m_switch_no_default(prog, rng):
    sites = [(b, i, c) for b, i, c in all_stmts(prog) if b[i]["s"] == "switch"]
    if not sites:
        return None
    b, i, c = rng.choice(sites)
    s = b[i]
    keep = []
    for cs in s["cases"]:
        cs["sel"] = [x for x in cs["sel"] if x != "default"]
        if cs["sel"]:
            keep.append(cs)
    if not keep:
        return None
    s["cases"] = keep
    return "default clause deleted in %s" % c["fn"]["n"]


def m_assign_readonly(prog, rng):
    gs = [g for g in prog["globals"] if g["space"] in ("storage_r", "uniform") and sized(g["t"])]
    if not gs:
        return None
    g = rng.choice(gs)
    f = prog["entry"]
    f["body"].insert(0, {"s": "assign", "l": var(g["n"]), "e": zero_of(g["t"])})
    return "store to %s (%s)" % (g["n"], g["space"])


def m_redeclaration(prog, rng):
    sites = _lets(prog, lambda s: True)
    if not sites:
        return None
    b, i, c = rng.choice(sites)
    b.insert(i + 1, copy.deepcopy(b[i]))
    return "let %s declared twice in %s" % (b[i]["n"], c["fn"]["n"])


def m_addr_of_let(prog, rng):
    sites = _lets(prog, lambda s: sized(s["t"]))
    if not sites:
        return None
    b, i, c = rng.choice(sites)
    s = b[i]
    b.insert(i + 1, {"s": "let", "n": s["n"] + "_q", "t": ["ptr", "function", s["t"]], "e": {"e": "addr", "a": var(s["n"])}})
    return "&%s in %s" % (s["n"], c["fn"]["n"])


def m_deref_non_pointer(prog, rng):
    sites = _lets(prog, lambda s: sized(s["t"]))
    if not sites:
        return None
    b, i, c = rng.choice(sites)
    s = b[i]
    b.insert(i + 1, {"s": "let", "n": s["n"] + "_q", "t": s["t"], "e": {"e": "deref", "a": var(s["n"])}})
    return "*%s in %s" % (s["n"], c["fn"]["n"])


def m_void_call_in_expr(prog, rng):
    vs = [f for f in prog["funcs"] if f.get("ret") is None and not f["params"]]
    if not vs:
        return None
    v = vs[0]
    f = prog["entry"]
    f["body"].append({"s": "let", "n": "x_void", "t": "i32", "e": {"e": "call", "f": v["n"], "args": []}})
    return "value of %s() in %s" % (v["n"], f["n"])


MUTATIONS = [
    # the classes naga diagnoses (C11's list; builtin arity: explicit diagnostics "math function requires at least N
    # arguments", "select() requires exactly 3 arguments", "relational function requires exactly 1 argument")
    Mut("unknown_ident", ["UnknownIdent"], True, m_unknown_ident),
    Mut("unknown_function", ["UnknownFunction"], True, m_unknown_function),
    Mut("unknown_member", ["MemberIndex"], True, m_unknown_member),
    Mut("unknown_type", ["VarType", "UnknownStruct"], True, m_unknown_type),
    Mut("call_arity_few", ["CallArity"], True, m_call_arity(True)),
    Mut("call_arity_many", ["CallArity"], True, m_call_arity(False)),
    Mut("call_arg_type", ["CallArgTypes"], True, m_call_arg_type),
    Mut("swizzle_width", ["SwizzleComponent"], True, m_swizzle_width),
    Mut("builtin_arity_few", ["BuiltinArity"], True, m_builtin_arity(True)),
    # WGSL rules for which naga has no diagnostic: counted, never an alarm
    Mut("builtin_arity_many", ["BuiltinArity"], False, m_builtin_arity(False)),
    Mut("assign_to_let", ["AssignToNonRef"], False, m_assign_to_let("assign")),
    Mut("compound_assign_to_let", ["AssignToNonRef"], False, m_assign_to_let("compound")),
    Mut("increment_let", ["AssignToNonRef"], False, m_assign_to_let("incr")),
    Mut("assign_to_param", ["AssignToNonRef"], False, m_assign_to_param),
    Mut("assign_readonly", ["AssignReadOnly"], False, m_assign_readonly),
    Mut("break_outside_loop", ["BreakOutsideLoop"], False, m_jump_outside("break", False)),
    Mut("break_outside_loop_nested", ["BreakOutsideLoop"], False, m_jump_outside("break", True)),
    Mut("continue_outside_loop", ["ContinueOutsideLoop"], False, m_jump_outside("continue", True)),
    Mut("continue_in_continuing", ["ContinueInContinuing"], False, m_jump_in_continuing("continue")),
    Mut("break_in_continuing", ["BreakInContinuing"], False, m_jump_in_continuing("break")),
    Mut("return_in_continuing", ["ReturnInContinuing"], False, m_jump_in_continuing("return")),
    Mut("operand_type", ["OperandTypes"], False, m_operand_type),
    Mut("shift_amount_type", ["OperandTypes"], False, m_shift_amount_type),
    Mut("negate_u32", ["OperandTypes"], False, m_negate_u32),
    Mut("cond_not_bool", ["ConditionNotBool"], False, m_cond_not_bool),
    Mut("var_init_type", ["VarInitType"], False, m_var_init_type),
    Mut("assign_types", ["AssignTypes"], False, m_assign_types),
    Mut("return_type", ["ReturnType"], False, m_return_type),
    Mut("return_value_in_void", ["ReturnType"], False, m_return_value_in_void),
    Mut("missing_return", ["MissingReturn"], False, m_missing_return),
    Mut("index_type", ["IndexType"], False, m_index_type),
    Mut("switch_case_type", ["SwitchCaseType"], False, m_switch_case_type),
    Mut("switch_duplicate", ["SwitchDuplicate"], False, m_switch_duplicate),
    Mut("switch_no_default", ["SwitchDefault"], False, m_switch_no_default),
    Mut("redeclaration", ["Redeclaration"], False, m_redeclaration),
    Mut("addr_of_let", ["AddrOfNonRef"], False, m_addr_of_let),
    Mut("deref_non_pointer", ["DerefNonPointer"], False, m_deref_non_pointer),
    Mut("void_call_in_expr", ["CallNoResult"], False, m_void_call_in_expr),
]


# ------------------------------------------------------------------ legs

def build_checker():
    import ocamlbuild
    return ocamlbuild.build("wgslcheck")


def run_checker(exe, asts):
    return vcheck.run_model(exe, [{"ast": norm(a)} for a in asts]) if asts else []


def accept_leg(ctx, named_asts):
    """named_asts: [(name, ast, src)] of the typed generator.  Every one must be accepted by wgsl_check."""
    exe = build_checker()
    res = run_checker(exe, [a for _n, a, _s in named_asts])
    st = {"programs": len(named_asts), "accepted": 0, "rejected": 0, "decode_errors": 0, "rejections": {}}
    hist = {}
    for (name, ast, src), r in zip(named_asts, res):
        if not r.get("ok"):
            st["decode_errors"] += 1
            ctx.violation("the AST of generated program %s does not decode in coq/Wgsl/Decode.v: %s" % (name, r.get("msg")),
                          files={"program.wgsl": src}, found_input=False, key="wgslcheck:decode",
                          broken="lib/wgslgen.py AST vs coq/Wgsl/Decode.v")
            continue
        if r["valid"]:
            st["accepted"] += 1
            histogram(ast, hist)
        else:
            st["rejected"] += 1
            k = r["rule"]
            st["rejections"][k] = st["rejections"].get(k, 0) + 1
            # either the generator emits an invalid program (then naga's acceptance of it is no evidence for C08)
            # or the checker is wrong: both break the tie; the program is not a failing input of the PROPERTY
            ctx.violation("program %s of the typed generator (valid by construction) is rejected by the verified type checker "
                          "Wgsl/Typecheck.wgsl_check: rule %s at %s" % (name, r["rule"], r["where"]),
                          files={"program.wgsl": src}, found_input=False, key="wgslcheck:generator-rejected:" + r["rule"],
                          broken="lib/wgslgen.py (validity by construction) vs coq/Wgsl/Typecheck.v")
    st["construct_histogram"] = dict(sorted(hist.items()))
    ctx.cov["wgsl_check_accept"] = st
    return st


def rejected_by_naga(r):
    """(verdict, detail): 'rejected' = an error from parse / lower / validate and no output; 'accepted' = a backend
    produced output; 'no-output' = the front end accepts, the requested backend fails; 'crash' = panic / process death"""
    if r is None:
        return "crash", "no result"
    if "crash" in r or "panic" in r:
        return "crash", str(r.get("panic") or r.get("crash"))[:200]
    if r.get("stage"):
        return "rejected", "%s: %s" % (r["stage"], str(r.get("err"))[:160])
    if r.get("validate"):
        return "rejected", "validate: %s" % str(r["validate"])[:160]
    if "spv" in r:
        return "accepted", ""
    return "no-output", str(r.get("spv_err"))[:160]


def mutation_leg(ctx, tools, n_programs, per_mutation):
    """Every mutation at `per_mutation` seeded sites in each of n_programs generated programs."""
    exe = build_checker()
    rng = ctx.rng.fork("wgslcheck-mutations")
    cases = []
    base_asts = []
    for i in range(n_programs):
        for attempt in range(4):
            ast, src = wgslgen.generate(rng.fork("base%d.%d" % (i, attempt)), {})
            break
        base_asts.append((ast, src))
        for m in MUTATIONS:
            # the diagnosed classes get four times as many sites (they decide violations)
            for k in range(per_mutation * (4 if m.strict else 1)):
                a2 = copy.deepcopy(ast)
                site = m.apply(a2, rng.fork("m%d.%s.%d" % (i, m.name, k)))
                if site is None:
                    continue
                try:
                    text = wgslgen.render(a2)
                except Exception:
                    continue
                cases.append({"mut": m, "ast": a2, "src": text, "site": site, "base": i})
    # distinct sources only
    seen = set()
    uniq = []
    for c in cases:
        if c["src"] not in seen:
            seen.add(c["src"])
            uniq.append(c)
    cases = uniq
    base_res = run_checker(exe, [a for a, _s in base_asts])
    base_ok = [bool(r.get("ok") and r.get("valid")) for r in base_res]
    res = run_checker(exe, [c["ast"] for c in cases])
    jobs = [{"id": j, "src": c["src"], "want": ["validate", "spv"]} for j, c in enumerate(cases)]
    jobs += [{"id": len(cases) + i, "src": s, "want": ["validate", "spv"]} for i, (_a, s) in enumerate(base_asts)]
    nres = nagarun.parallel_batches(tools["nagadrive"], "compile", jobs, per_job_timeout=30.0, chunk=100)
    base_naga_ok = [rejected_by_naga(nres.get(len(cases) + i))[0] == "accepted" for i in range(len(base_asts))]
    table = {}
    st = {"base_programs": len(base_asts), "base_accepted_by_checker": sum(base_ok), "base_accepted_by_naga": sum(base_naga_ok),
          "mutants": len(cases), "checker_rejects_with_expected_rule": 0, "checker_rejects_with_other_rule": 0,
          "checker_accepts_mutant": 0, "strict_compared": 0, "open_questions": 0}
    other = {}
    reported = set()
    for j, (c, r) in enumerate(zip(cases, res)):
        m = c["mut"]
        row = table.setdefault(m.name, {"rule": sorted(m.rules), "diagnosed_class": m.strict, "mutants": 0, "naga_rejects": 0,
                                        "naga_accepts": 0, "naga_front_end_accepts_backend_fails": 0, "naga_crashes": 0})
        if not (base_ok[c["base"]] and base_naga_ok[c["base"]]):
            continue
        if not r.get("ok"):
            continue
        if r["valid"]:
            st["checker_accepts_mutant"] += 1
            other.setdefault(m.name + ":accepted", c["site"])
            continue
        if r["rule"] not in m.rules:
            st["checker_rejects_with_other_rule"] += 1
            other.setdefault("%s:%s" % (m.name, r["rule"]), c["site"])
            continue
        st["checker_rejects_with_expected_rule"] += 1
        row["mutants"] += 1
        verdict, detail = rejected_by_naga(nres.get(j))
        row[{"rejected": "naga_rejects", "accepted": "naga_accepts", "no-output": "naga_front_end_accepts_backend_fails",
             "crash": "naga_crashes"}[verdict]] += 1
        if m.strict:
            st["strict_compared"] += 1
            if verdict != "rejected":
                key = "wgslcheck:%s:%s" % (m.name, verdict)
                if key not in reported:
                    reported.add(key)
                    ctx.violation("an ill-typed program (rule %s of Wgsl/Typecheck.v broken by the edit `%s`: %s) of a class naga "
                                  "diagnoses is not rejected: %s %s" % (r["rule"], m.name, c["site"], verdict, detail),
                                  files={"program.wgsl": c["src"], "base.wgsl": base_asts[c["base"]][1]}, key=key)
        elif verdict != "rejected":
            st["open_questions"] += 1
    st["unexpected_checker_verdicts"] = other
    st["by_mutation"] = table
    ctx.cov["wgsl_check_mutations"] = st
    # a mutant built to break exactly one rule that the checker accepts, or rejects for another reason: the edit
    # generator and the checker disagree about WGSL (no failing input of the property)
    if st["checker_accepts_mutant"]:
        ctx.violation("wgsl_check ACCEPTS %d programs built to be ill-typed: %s" % (st["checker_accepts_mutant"], sorted(other.items())[:6]),
                      found_input=False, key="wgslcheck:mutant-accepted", broken="lib/wgslcheck.py edits vs coq/Wgsl/Typecheck.v")
    return st
