From Coq Require Import ZArith List Lia Bool Arith.
Import ListNotations.
Open Scope Z_scope.

(* ---------- shared ---------- *)
Inductive binop := Add | Mul | Lt.
Definition bin (o:binop) (a b:Z) : Z :=
  match o with Add => (a+b) mod 4294967296 | Mul => (a*b) mod 4294967296
             | Lt => if a <? b then 1 else 0 end.
Definition binop_eqb (a b:binop) : bool :=
  match a, b with Add,Add | Mul,Mul | Lt,Lt => true | _,_ => false end.
Lemma binop_eqb_eq a b : binop_eqb a b = true -> a = b.
Proof. destruct a, b; simpl; congruence. Qed.

Inductive outcome := ONormal | OBreak.
Definition vars := list Z.
Fixpoint set_nth (l:vars) (n:nat) (z:Z) : option vars :=
  match l, n with
  | [], _ => None
  | _ :: t, O => Some (z :: t)
  | h :: t, S n' => match set_nth t n' z with Some t' => Some (h :: t') | None => None end
  end.
Definition pmap := nat -> option Z.
Definition upd (m:pmap) (k:nat) (v:Z) : pmap := fun k' => if Nat.eqb k' k then Some v else m k'.

(* ---------- source: arena IR with Emit ---------- *)
Inductive sexpr := SLit (z:Z) | SLoad (v:nat) | SBin (o:binop) (a b:nat).
Inductive sstmt :=
| SEmit (lo n:nat)                 (* handles lo .. lo+n-1 *)
| SStore (v:nat) (h:nat)
| SIf (c:nat) (a b: list sstmt)
| SLoop (body: list sstmt)
| SBreak.
Definition arena := list sexpr.

Definition suse (A:arena) (c:pmap) (h:nat) : option Z :=
  match nth_error A h with
  | Some (SLit z) => Some z
  | Some _ => c h
  | None => None
  end.
Definition semit1 (A:arena) (vs:vars) (c:pmap) (h:nat) : option pmap :=
  match nth_error A h with
  | Some (SLoad v) => match nth_error vs v with Some z => Some (upd c h z) | None => None end
  | Some (SBin o a b) =>
      match suse A c a, suse A c b with
      | Some x, Some y => Some (upd c h (bin o x y)) | _, _ => None end
  | _ => None
  end.
Fixpoint semit (A:arena) (vs:vars) (c:pmap) (lo n:nat) : option pmap :=
  match n with O => Some c
  | S n' => match semit1 A vs c lo with Some c' => semit A vs c' (S lo) n' | None => None end end.

Definition sstate := (vars * pmap)%type.
Definition sstep (rec : list sstmt -> sstate -> option (outcome * sstate))
                 (A:arena) (s:sstmt) (st:sstate) : option (outcome * sstate) :=
  let '(vs, c) := st in
  match s with
  | SEmit lo n => match semit A vs c lo n with Some c' => Some (ONormal, (vs, c')) | None => None end
  | SStore v h => match suse A c h with
                  | Some z => match set_nth vs v z with Some vs' => Some (ONormal, (vs', c)) | None => None end
                  | None => None end
  | SIf ch a b => match suse A c ch with
                  | Some z => if z =? 0 then rec b st else rec a st
                  | None => None end
  | SLoop body => match rec body st with
                  | Some (ONormal, st') => rec [SLoop body] st'
                  | Some (OBreak, st') => Some (ONormal, st')
                  | None => None end
  | SBreak => Some (OBreak, st)
  end.
Fixpoint sblock (fuel:nat) (A:arena) (ss:list sstmt) (st:sstate) : option (outcome * sstate) :=
  match fuel with O => None | S f =>
    match ss with
    | [] => Some (ONormal, st)
    | s :: rest => match sstep (sblock f A) A s st with
                   | Some (ONormal, st') => sblock f A rest st'
                   | r => r end
    end end.

(* ---------- target: tree expressions with temporaries ---------- *)
Inductive texpr := TLit (z:Z) | TTmp (n:nat) | TVar (v:nat) | TBin (o:binop) (a b:texpr).
Inductive tstmt :=
| TLet (n:nat) (e:texpr)
| TAssign (v:nat) (e:texpr)
| TIf (e:texpr) (a b:list tstmt)
| TLoop (body:list tstmt)
| TBreak.
Fixpoint teval (vs:vars) (t:pmap) (e:texpr) : option Z :=
  match e with
  | TLit z => Some z
  | TTmp n => t n
  | TVar v => nth_error vs v
  | TBin o a b => match teval vs t a, teval vs t b with
                  | Some x, Some y => Some (bin o x y) | _, _ => None end
  end.
Definition tstate := (vars * pmap)%type.
Definition tstep (rec : list tstmt -> tstate -> option (outcome * tstate))
                 (s:tstmt) (st:tstate) : option (outcome * tstate) :=
  let '(vs, t) := st in
  match s with
  | TLet n e => match teval vs t e with Some z => Some (ONormal, (vs, upd t n z)) | None => None end
  | TAssign v e => match teval vs t e with
                   | Some z => match set_nth vs v z with Some vs' => Some (ONormal, (vs', t)) | None => None end
                   | None => None end
  | TIf e a b => match teval vs t e with
                 | Some z => if z =? 0 then rec b st else rec a st
                 | None => None end
  | TLoop body => match rec body st with
                  | Some (ONormal, st') => rec [TLoop body] st'
                  | Some (OBreak, st') => Some (ONormal, st')
                  | None => None end
  | TBreak => Some (OBreak, st)
  end.
Fixpoint tblock (fuel:nat) (ts:list tstmt) (st:tstate) : option (outcome * tstate) :=
  match fuel with O => None | S f =>
    match ts with
    | [] => Some (ONormal, st)
    | s :: rest => match tstep (tblock f) s st with
                   | Some (ONormal, st') => tblock f rest st'
                   | r => r end
    end end.


(* fuel monotonicity *)
Definition extends {S R} (r1 r2 : list S -> R -> option (outcome * R)) : Prop :=
  forall l s x, r1 l s = Some x -> r2 l s = Some x.
Lemma tstep_mono r1 r2 s st x : extends r1 r2 -> tstep r1 s st = Some x -> tstep r2 s st = Some x.
Proof.
  intros E. destruct st as [vs t]. destruct s; cbn [tstep]; auto.
  - destruct (teval vs t e); auto. destruct (z =? 0); apply E.
  - destruct (r1 body (vs, t)) as [[[|] st1]|] eqn:E1; try discriminate.
    + rewrite (E _ _ _ E1). apply E.
    + rewrite (E _ _ _ E1). auto.
Qed.
Lemma tblock_mono : forall f, extends (tblock f) (tblock (S f)).
Proof.
  induction f as [|f IH]; intros l s x H; [discriminate|].
  cbn [tblock] in H. change (tblock (S (S f)) l s) with
    (match l with [] => Some (ONormal, s) | s0 :: rest =>
       match tstep (tblock (S f)) s0 s with Some (ONormal, st') => tblock (S f) rest st' | r => r end end).
  destruct l as [|s0 rest]; auto.
  destruct (tstep (tblock f) s0 s) as [[[|] st1]|] eqn:E1; try discriminate.
  - rewrite (tstep_mono _ _ _ _ _ IH E1). apply IH. exact H.
  - rewrite (tstep_mono _ _ _ _ _ IH E1). exact H.
Qed.
Lemma tblock_mono_le f g l s x : (f <= g)%nat -> tblock f l s = Some x -> tblock g l s = Some x.
Proof. induction 1; auto. intros H0. apply tblock_mono. auto. Qed.

(* ---------- the checker ---------- *)
Fixpoint texpr_eqb (a b:texpr) : bool :=
  match a, b with
  | TLit x, TLit y => x =? y
  | TTmp x, TTmp y => Nat.eqb x y
  | TVar x, TVar y => Nat.eqb x y
  | TBin o a1 a2, TBin p b1 b2 => binop_eqb o p && texpr_eqb a1 b1 && texpr_eqb a2 b2
  | _, _ => false
  end.
Lemma texpr_eqb_eq a : forall b, texpr_eqb a b = true -> a = b.
Proof.
  induction a; destruct b; simpl; try congruence; intros H.
  - apply Z.eqb_eq in H; congruence.
  - apply Nat.eqb_eq in H; congruence.
  - apply Nat.eqb_eq in H; congruence.
  - apply andb_prop in H as [H H2]. apply andb_prop in H as [H0 H1].
    apply binop_eqb_eq in H0. f_equal; auto.
Qed.

(* pure = reads no memory *)
Fixpoint pure (e:texpr) : bool :=
  match e with TVar _ => false | TBin _ a b => pure a && pure b | _ => true end.
(* all temporaries of e are < bound *)
Fixpoint tmps_lt (bound:nat) (e:texpr) : bool :=
  match e with TTmp n => Nat.ltb n bound | TBin _ a b => tmps_lt bound a && tmps_lt bound b | _ => true end.

Definition renv := nat -> option texpr.
Definition rupd (r:renv) (h:nat) (e:texpr) : renv := fun h' => if Nat.eqb h' h then Some e else r h'.
Definition repr (A:arena) (r:renv) (h:nat) : option texpr :=
  match nth_error A h with Some (SLit z) => Some (TLit z) | Some _ => r h | None => None end.

(* Emit of one handle against the head of the target list.
   [next] = first temporary not yet used; target temporaries must be issued in increasing order. *)
Definition chk_emit1 (A:arena) (r:renv) (next:nat) (h:nat) (ts:list tstmt)
  : option (renv * nat * list tstmt) :=
  match r h with Some _ => None (* already in scope: emitted twice *) | None =>
  match nth_error A h with
  | Some (SLoad v) =>
      match ts with
      | TLet n (TVar v') :: ts' =>
          if Nat.eqb n next && Nat.eqb v v' then Some (rupd r h (TTmp n), S next, ts') else None
      | _ => None end
  | Some (SBin o a b) =>
      match repr A r a, repr A r b with
      | Some ea, Some eb =>
          let tree := TBin o ea eb in
          match ts with
          | TLet n e :: ts' =>
              if Nat.eqb n next && texpr_eqb e tree then Some (rupd r h (TTmp n), S next, ts')
              else Some (rupd r h tree, next, ts)      (* not baked: inlined *)
          | _ => Some (rupd r h tree, next, ts)
          end
      | _, _ => None end
  | _ => None
  end end.
Fixpoint chk_emit (A:arena) (r:renv) (next:nat) (lo n:nat) (ts:list tstmt)
  : option (renv * nat * list tstmt) :=
  match n with O => Some (r, next, ts)
  | S n' => match chk_emit1 A r next lo ts with
            | Some (r', next', ts') => chk_emit A r' next' (S lo) n' ts'
            | None => None end end.

(* returns the next-temporary counter after the block (temporaries are never reused) *)
Fixpoint chk_block (fuel:nat) (A:arena) (r:renv) (next:nat) (ss:list sstmt) (ts:list tstmt) : option nat :=
  match fuel with O => None | S f =>
  match ss with
  | [] => match ts with [] => Some next | _ => None end
  | SEmit lo n :: ss' =>
      match chk_emit A r next lo n ts with
      | Some (r', next', ts') => chk_block f A r' next' ss' ts'
      | None => None end
  | SStore v h :: ss' =>
      match ts, repr A r h with
      | TAssign v' e :: ts', Some eh =>
          if Nat.eqb v v' && texpr_eqb e eh then chk_block f A r next ss' ts' else None
      | _, _ => None end
  | SIf c a b :: ss' =>
      match ts, repr A r c with
      | TIf e ta tb :: ts', Some ec =>
          if texpr_eqb e ec then
            match chk_block f A r next a ta with
            | Some n1 => match chk_block f A r n1 b tb with
                         | Some n2 => chk_block f A r n2 ss' ts'
                         | None => None end
            | None => None end
          else None
      | _, _ => None end
  | SLoop body :: ss' =>
      match ts with
      | TLoop tbody :: ts' =>
          match chk_block f A r next body tbody with
          | Some n1 => chk_block f A r n1 ss' ts'
          | None => None end
      | _ => None end
  | SBreak :: ss' =>
      match ts with TBreak :: ts' => chk_block f A r next ss' ts' | _ => None end
  end end.

(* ---------- the invariant ---------- *)
Definition Inv (A:arena) (r:renv) (next:nat) (c t:pmap) : Prop :=
  forall h e, r h = Some e ->
    pure e = true /\ tmps_lt next e = true /\
    exists v, c h = Some v /\ forall vs, teval vs t e = Some v.

Lemma teval_upd_fresh vs t e n z bound :
  tmps_lt bound e = true -> (bound <= n)%nat -> teval vs (upd t n z) e = teval vs t e.
Proof.
  induction e; simpl; intros H Hn; auto.
  - unfold upd. apply Nat.ltb_lt in H. destruct (Nat.eqb n0 n) eqn:E; auto.
    apply Nat.eqb_eq in E. lia.
  - apply andb_prop in H as [H1 H2]. rewrite IHe1, IHe2; auto.
Qed.
Lemma tmps_lt_mono e a b : tmps_lt a e = true -> (a <= b)%nat -> tmps_lt b e = true.
Proof.
  induction e; simpl; intros H L; auto.
  - apply Nat.ltb_lt in H. apply Nat.ltb_lt. lia.
  - apply andb_prop in H as [H1 H2]. rewrite IHe1, IHe2; auto.
Qed.
Lemma teval_pure vs vs' t e : pure e = true -> teval vs t e = teval vs' t e.
Proof.
  induction e; simpl; intros H; auto; try discriminate.
  apply andb_prop in H as [H1 H2]. rewrite (IHe1 H1), (IHe2 H2). reflexivity.
Qed.

(* repr of an in-scope / literal handle evaluates to what the source would use *)
Lemma repr_sound A r next c t h e :
  Inv A r next c t -> repr A r h = Some e ->
  pure e = true /\ tmps_lt next e = true /\
  exists v, suse A c h = Some v /\ forall vs, teval vs t e = Some v.
Proof.
  unfold repr, suse. intros HI H. destruct (nth_error A h) as [[z|v|o a b]|] eqn:E; try discriminate.
  - inversion H; subst. simpl. repeat split; auto. exists z. split; auto.
  - apply HI in H. exact H.
  - apply HI in H. exact H.
Qed.

(* one emitted handle *)
Lemma chk_emit1_sound A r next h ts r' next' ts' vs c t c' :
  chk_emit1 A r next h ts = Some (r', next', ts') ->
  Inv A r next c t ->
  semit1 A vs c h = Some c' ->
  (next <= next')%nat /\
  exists pre t', ts = pre ++ ts' /\ (length pre <= 1)%nat /\
    (forall f rest o st, tblock f (ts' ++ rest) (vs, t') = Some (o, st) ->
                         tblock (S f) (pre ++ ts' ++ rest) (vs, t) = Some (o, st)) /\
    Inv A r' next' c' t' /\
    (forall n, (n < next)%nat -> t' n = t n).
Proof.
  unfold chk_emit1, semit1. intros HC HI HS.
  destruct (r h) eqn:Erh; try discriminate.
  destruct (nth_error A h) as [[z|v|o a b]|] eqn:EA; try discriminate.
  - (* load: always baked *)
    destruct ts as [|[n e| | | |] ts0]; try discriminate.
    destruct e; try discriminate.
    destruct (Nat.eqb n next && Nat.eqb v v0) eqn:Eb; try discriminate.
    apply andb_prop in Eb as [En Ev]. apply Nat.eqb_eq in En, Ev. subst n v0.
    inversion HC; subst r' next' ts'; clear HC.
    destruct (nth_error vs v) as [z|] eqn:Ez; try discriminate. inversion HS; subst c'; clear HS.
    split; [lia|]. exists [TLet next (TVar v)], (upd t next z).
    split; [reflexivity|]. split; [simpl; lia|]. split; [|split].
    + intros f rest o st H. cbn [app]. cbn [tblock tstep teval]. rewrite Ez. exact H.
    + intros h' e' H'. unfold rupd in H'. destruct (Nat.eqb h' h) eqn:Eh.
      * inversion H'; subst e'. simpl. rewrite Nat.ltb_lt. repeat split; auto.
        exists z. unfold upd. rewrite Eh. split; auto. intros _. rewrite Nat.eqb_refl. reflexivity.
      * destruct (HI _ _ H') as (P & L & v' & Cv & Tv). repeat split; auto.
        { eapply tmps_lt_mono; eauto. }
        exists v'. unfold upd at 1. rewrite Eh. split; auto.
        intros vs0. erewrite teval_upd_fresh; eauto.
    + intros n Hn. unfold upd. destruct (Nat.eqb n next) eqn:E; auto. apply Nat.eqb_eq in E. lia.
  - (* binary: baked or inlined *)
    destruct (repr A r a) as [ea|] eqn:Ea; try discriminate.
    destruct (repr A r b) as [eb|] eqn:Eb; try discriminate.
    destruct (repr_sound _ _ _ _ _ _ _ HI Ea) as (Pa & La & va & Ua & Ta).
    destruct (repr_sound _ _ _ _ _ _ _ HI Eb) as (Pb & Lb & vb & Ub & Tb).
    rewrite Ua, Ub in HS. inversion HS; subst c'; clear HS.
    assert (Inl : forall nx, (next <= nx)%nat ->
              Inv A (rupd r h (TBin o ea eb)) nx (upd c h (bin o va vb)) t).
    { intros nx Hnx h' e' H'. unfold rupd in H'. destruct (Nat.eqb h' h) eqn:Eh.
      - inversion H'; subst e'. simpl. rewrite Pa, Pb.
        rewrite (tmps_lt_mono _ _ _ La Hnx), (tmps_lt_mono _ _ _ Lb Hnx).
        repeat split; auto. exists (bin o va vb). unfold upd. rewrite Eh. split; auto.
        intros vs0. rewrite Ta, Tb. reflexivity.
      - destruct (HI _ _ H') as (P & L & v' & Cv & Tv). repeat split; auto.
        { eapply tmps_lt_mono; eauto. }
        exists v'. unfold upd. rewrite Eh. split; auto. }
    assert (Skip : ts' = ts -> next' = next -> r' = rupd r h (TBin o ea eb) ->
       (next <= next')%nat /\
       exists pre t', ts = pre ++ ts' /\ (length pre <= 1)%nat /\
        (forall f rest o0 st, tblock f (ts' ++ rest) (vs, t') = Some (o0, st) ->
                         tblock (S f) (pre ++ ts' ++ rest) (vs, t) = Some (o0, st)) /\
        Inv A r' next' (upd c h (bin o va vb)) t' /\ (forall n, (n < next)%nat -> t' n = t n)).
    { intros -> -> ->. split; [lia|]. exists [], t. split; [reflexivity|]. split; [simpl; lia|].
      split; [|split; [apply Inl; lia | auto]].
      intros f rest o0 st H. cbn [app].
      apply tblock_mono. exact H. }
    destruct ts as [|[n e| | | |] ts0];
      try (inversion HC; subst; apply Skip; reflexivity).
    destruct (Nat.eqb n next && texpr_eqb e (TBin o ea eb)) eqn:Ebk.
    + apply andb_prop in Ebk as [En Ee]. apply Nat.eqb_eq in En. apply texpr_eqb_eq in Ee. subst n e.
      inversion HC; subst r' next' ts'; clear HC.
      split; [lia|]. exists [TLet next (TBin o ea eb)], (upd t next (bin o va vb)).
      split; [reflexivity|]. split; [simpl; lia|]. split; [|split].
      * intros f rest o0 st H. cbn [app]. cbn [tblock tstep teval]. rewrite Ta, Tb. exact H.
      * intros h' e' H'. unfold rupd in H'. destruct (Nat.eqb h' h) eqn:Eh.
        -- inversion H'; subst e'. simpl. rewrite Nat.ltb_lt. repeat split; auto.
           exists (bin o va vb). unfold upd. rewrite Eh. split; auto. intros _. rewrite Nat.eqb_refl. reflexivity.
        -- destruct (HI _ _ H') as (P & L & v' & Cv & Tv). repeat split; auto.
           { eapply tmps_lt_mono; eauto. }
           exists v'. unfold upd at 1. rewrite Eh. split; auto.
           intros vs0. erewrite teval_upd_fresh; eauto.
      * intros n Hn. unfold upd. destruct (Nat.eqb n next) eqn:E; auto. apply Nat.eqb_eq in E. lia.
    + inversion HC; subst. apply Skip; reflexivity.
Qed.

(* ---------- range of emitted handles ---------- *)
Lemma chk_emit_sound A : forall n r next lo ts r' next' ts' vs c t c',
  chk_emit A r next lo n ts = Some (r', next', ts') ->
  Inv A r next c t ->
  semit A vs c lo n = Some c' ->
  (next <= next')%nat /\
  exists k t',
    (forall f rest o st, tblock f (ts' ++ rest) (vs, t') = Some (o, st) ->
                         tblock (k + f) (ts ++ rest) (vs, t) = Some (o, st)) /\
    (exists pre, ts = pre ++ ts') /\
    Inv A r' next' c' t' /\
    (forall m, (m < next)%nat -> t' m = t m) /\
    (forall h e, r h = Some e -> c' h = c h /\ r' h = Some e).
Proof.
  induction n as [|n IH]; intros r next lo ts r' next' ts' vs c t c' HC HI HS.
  - simpl in *. inversion HC; inversion HS; subst. split; [lia|].
    exists O, t. split; [intros; simpl; auto|]. split; [exists []; reflexivity|].
    split; [exact HI|]. split; auto.
  - simpl in HC, HS.
    destruct (chk_emit1 A r next lo ts) as [[[r1 next1] ts1]|] eqn:E1; try discriminate.
    destruct (semit1 A vs c lo) as [c1|] eqn:S1; try discriminate.
    destruct (chk_emit1_sound _ _ _ _ _ _ _ _ _ _ _ _ E1 HI S1)
      as (L1 & pre & t1 & Hts & _ & K1 & I1 & P1).
    destruct (IH _ _ _ _ _ _ _ _ _ _ _ HC I1 HS) as (L2 & k & t2 & K2 & (pre2 & Hts2) & I2 & P2 & F2).
    split; [lia|]. exists (S k), t2. split; [|split; [|split; [|split]]]; auto.
    + intros f rest o st H. apply K2 in H. subst ts.
      rewrite <- app_assoc. replace (S k + f)%nat with (S (k + f)) by lia. apply K1. exact H.
    + exists (pre ++ pre2). subst. rewrite app_assoc. reflexivity.
    + intros m Hm. rewrite P2 by lia. apply P1. exact Hm.
    + intros h e Hr.
      (* handle in scope before is untouched by emit1 *)
      assert (Hne : Nat.eqb h lo = false).
      { destruct (Nat.eqb h lo) eqn:E; auto. apply Nat.eqb_eq in E. subst h.
        unfold chk_emit1 in E1. rewrite Hr in E1. discriminate. }
      assert (Hr1 : r1 h = Some e /\ c1 h = c h).
      { clear Hts Hts2 K1 K2. unfold chk_emit1 in E1. destruct (r lo); try discriminate.
        unfold semit1 in S1.
        destruct (nth_error A lo) as [[z|v|o a b]|]; try discriminate.
        - destruct ts as [|[n0 e0| | | |] ?]; try discriminate. destruct e0; try discriminate.
          destruct (Nat.eqb n0 next && Nat.eqb v v0); try discriminate. inversion E1; subst.
          destruct (nth_error vs v); try discriminate. inversion S1; subst.
          unfold rupd, upd. rewrite Hne. auto.
        - destruct (repr A r a); try discriminate. destruct (repr A r b); try discriminate.
          destruct (suse A c a); try discriminate. destruct (suse A c b); try discriminate.
          inversion S1; subst.
          destruct ts as [|[n0 e0| | | |] ?];
            try (inversion E1; subst; unfold rupd, upd; rewrite Hne; auto; fail).
          destruct (Nat.eqb n0 next && texpr_eqb e0 (TBin o t0 t3));
            inversion E1; subst; unfold rupd, upd; rewrite Hne; auto. }
      destruct Hr1 as [Hr1 Hc1]. destruct (F2 _ _ Hr1) as [Fc Fr]. split; [congruence|auto].
Qed.

(* frame: an invariant over r survives anything that keeps r's cache entries and low temporaries *)
Lemma Inv_frame A r next next' c t c' t' :
  Inv A r next c t -> (next <= next')%nat ->
  (forall m, (m < next)%nat -> t' m = t m) ->
  (forall h e, r h = Some e -> c' h = c h) ->
  Inv A r next' c' t'.
Proof.
  intros HI L P F h e Hr. destruct (HI _ _ Hr) as (Pu & Lt & v & Cv & Tv).
  repeat split; auto. { eapply tmps_lt_mono; eauto. }
  exists v. split; [rewrite (F _ _ Hr); auto|].
  intros vs. rewrite <- (Tv vs). clear - Lt P.
  induction e; simpl in *; auto.
  - apply P. apply Nat.ltb_lt. exact Lt.
  - apply andb_prop in Lt as [L1 L2]. rewrite IHe1, IHe2; auto.
Qed.


Lemma chk_emit1_next_le A r k lo l r' k' l' : chk_emit1 A r k lo l = Some (r', k', l') -> (k <= k')%nat.
Proof.
  unfold chk_emit1. destruct (r lo); try discriminate.
  destruct (nth_error A lo) as [[|?|? ? ?]|]; try discriminate.
  - destruct l as [|[? e0| | | |] ?]; try discriminate. destruct e0; try discriminate.
    destruct (_ && _); intros H; inversion H; lia.
  - destruct (repr A r a); try discriminate. destruct (repr A r b); try discriminate.
    destruct l as [|[? e0| | | |] ?]; try (intros H; inversion H; lia).
    destruct (_ && _); intros H; inversion H; lia.
Qed.
Lemma chk_emit_next_le A : forall n r k lo l r' k' l', chk_emit A r k lo n l = Some (r', k', l') -> (k <= k')%nat.
Proof.
  induction n; intros r k lo l r' k' l' H; simpl in H; [inversion H; lia|].
  destruct (chk_emit1 A r k lo l) as [[[rb nb] lb]|] eqn:E1; try discriminate.
  apply chk_emit1_next_le in E1. apply IHn in H. lia.
Qed.
Lemma chk_block_next_le : forall fuel A r k ss ts k', chk_block fuel A r k ss ts = Some k' -> (k <= k')%nat.
Proof.
  induction fuel as [|fu IH]; intros A r k ss ts k' H; [discriminate|].
  destruct ss as [|s1 l1]; cbn [chk_block] in H.
  - destruct ts; inversion H; lia.
  - destruct s1.
    + destruct (chk_emit A r k lo n ts) as [[[ra na] la]|] eqn:E; try discriminate.
      apply IH in H. apply chk_emit_next_le in E. lia.
    + destruct ts as [|[ | ? ?| | | ] ?]; try discriminate.
      destruct (repr A r h); try discriminate. destruct (_ && _); try discriminate.
      eapply IH; eauto.
    + destruct ts as [|[ | |? ? ?| | ] ?]; try discriminate.
      destruct (repr A r c); try discriminate. destruct (texpr_eqb _ _); try discriminate.
      destruct (chk_block fu A r k a a0) eqn:Ea; try discriminate.
      destruct (chk_block fu A r n b b0) eqn:Eb; try discriminate.
      apply IH in H. apply IH in Ea. apply IH in Eb. lia.
    + destruct ts as [|[ | | |?| ] ?]; try discriminate.
      destruct (chk_block fu A r k body body0) eqn:Ea; try discriminate.
      apply IH in H. apply IH in Ea. lia.
    + destruct ts as [|[ | | | | ] ?]; try discriminate. eapply IH; eauto.
Qed.

(* ---------- block-level simulation ---------- *)
Definition Post (r:renv) (next next':nat) (c t c' t':pmap) : Prop :=
  (next <= next')%nat /\ (forall m, (m < next)%nat -> t' m = t m) /\
  (forall h e, r h = Some e -> c' h = c h).

Definition Sim (A:arena) (r:renv) (next next':nat) (ss:list sstmt) (ts:list tstmt) : Prop :=
  forall sf vs c t o vs' c', Inv A r next c t ->
  sblock sf A ss (vs, c) = Some (o, (vs', c')) ->
  exists tf t', tblock tf ts (vs, t) = Some (o, (vs', t')) /\ Post r next next' c t c' t'.

(* run a nested block then the rest, both simulated *)
Lemma seq_sim A r n0 n1 n2 br tbr ss' ts' :
  Sim A r n0 n1 br tbr -> Sim A r n1 n2 ss' ts' -> (n1 <= n2)%nat ->
  forall sf vs c t o vs' c', Inv A r n0 c t ->
    match sblock sf A br (vs, c) with
    | Some (ONormal, st') => sblock sf A ss' st'
    | r0 => r0 end = Some (o, (vs', c')) ->
    exists tf t', match tblock tf tbr (vs, t) with
                  | Some (ONormal, st') => tblock tf ts' st'
                  | r0 => r0 end = Some (o, (vs', t')) /\ Post r n0 n2 c t c' t'.
Proof.
  intros S1 S2 L12 sf vs c t o vs' c' HI Hrun.
  destruct (sblock sf A br (vs, c)) as [[[|] [vs1 c1]]|] eqn:Sb; try discriminate.
  - destruct (S1 _ _ _ _ _ _ _ HI Sb) as (tf1 & t1 & HT1 & (L1 & P1 & F1)).
    assert (I2 : Inv A r n1 c1 t1) by (eapply Inv_frame; eauto).
    destruct (S2 _ _ _ _ _ _ _ I2 Hrun) as (tf2 & t2 & HT2 & (L2 & P2 & F2)).
    exists (Nat.max tf1 tf2), t2. split.
    + rewrite (tblock_mono_le _ _ _ _ _ (Nat.le_max_l tf1 tf2) HT1).
      apply (tblock_mono_le _ _ _ _ _ (Nat.le_max_r tf1 tf2) HT2).
    + repeat split; [lia| |].
      * intros m Hm. rewrite P2 by lia. apply P1. lia.
      * intros h e Hr. rewrite (F2 _ _ Hr). apply (F1 _ _ Hr).
  - inversion Hrun; subst.
    destruct (S1 _ _ _ _ _ _ _ HI Sb) as (tf1 & t1 & HT1 & (L1 & P1 & F1)).
    exists tf1, t1. rewrite HT1. split; auto. repeat split; auto. lia.
Qed.


Lemma sloop_not_break A body : forall sf st st', sblock sf A [SLoop body] st <> Some (OBreak, st').
Proof.
  induction sf as [|sf IH]; intros [vs c] st' H; [discriminate|].
  cbn [sblock sstep] in H.
  destruct (sblock sf A body (vs, c)) as [[[|] st1]|]; try discriminate.
  - destruct (sblock sf A [SLoop body] st1) as [[[|] st2]|] eqn:E; try discriminate.
    + destruct sf; discriminate.
    + eapply IH; eauto.
  - destruct sf; discriminate.
Qed.

(* the loop lemma: if the body simulates, so does the loop followed by the rest *)
Lemma loop_sim A r n0 n1 body tbody :
  Sim A r n0 n1 body tbody ->
  forall sf vs c t vs' c' o, Inv A r n0 c t ->
    sblock sf A [SLoop body] (vs, c) = Some (o, (vs', c')) ->
    exists tf t', tblock tf [TLoop tbody] (vs, t) = Some (o, (vs', t')) /\ Post r n0 n1 c t c' t'.
Proof.
  intros SB. induction sf as [|sf IHsf]; intros vs c t vs' c' o HI HS; [discriminate|].
  cbn [sblock sstep] in HS.
  destruct (sblock sf A body (vs, c)) as [[[|] [vs1 c1]]|] eqn:Sb; try discriminate.
  - (* body finished normally: iterate *)
    destruct (SB _ _ _ _ _ _ _ HI Sb) as (tf1 & t1 & HT1 & (L1 & P1 & F1)).
    assert (I1 : Inv A r n0 c1 t1) by (eapply Inv_frame; eauto).
    destruct (sblock sf A [SLoop body] (vs1, c1)) as [[[|] [vs2 c2]]|] eqn:S2; try discriminate.
    + destruct (IHsf _ _ _ _ _ _ I1 S2) as (tf2 & t2 & HT2 & (L2 & P2 & F2)).
      destruct sf as [|sf']; [discriminate|]. simpl in HS. inversion HS; subst.
      exists (S (Nat.max tf1 tf2)), t2. split.
      * pose proof (tblock_mono_le _ _ _ _ _ (Nat.le_max_l tf1 tf2) HT1) as M1.
        pose proof (tblock_mono_le _ _ _ _ _ (Nat.le_max_r tf1 tf2) HT2) as M2.
        remember (Nat.max tf1 tf2) as g. destruct g as [|g0]; [discriminate|].
        remember (S g0) as g1. cbn [tblock tstep]. rewrite M1, M2. subst g1. reflexivity.
      * repeat split; auto.
        -- intros m Hm. rewrite P2 by lia. apply P1. lia.
        -- intros h e Hr. rewrite (F2 _ _ Hr). apply (F1 _ _ Hr).
    + exfalso. eapply sloop_not_break; eauto.
  - (* body broke out *)
    destruct (SB _ _ _ _ _ _ _ HI Sb) as (tf1 & t1 & HT1 & HP).
    destruct sf as [|sf']; [discriminate|]. simpl in HS. inversion HS; subst.
    exists (S tf1), t1. split; auto.
    destruct tf1 as [|g0]; [discriminate|]. remember (S g0) as g.
    cbn [tblock tstep]. rewrite HT1. subst g. reflexivity.
Qed.

Theorem chk_block_sound : forall fuel A r next ss ts next',
  chk_block fuel A r next ss ts = Some next' -> Sim A r next next' ss ts.
Proof.
  induction fuel as [|fuel IH]; intros A r next ss ts next' HC; [discriminate|].
  destruct ss as [|s ss'].
  - simpl in HC. destruct ts; try discriminate. inversion HC; subst.
    intros [|sf] vs c t o vs' c' HI HS; [discriminate|]. simpl in HS. inversion HS; subst.
    exists 1%nat, t. split; [reflexivity|]. repeat split; auto.
  - destruct s as [lo n|v h|ch a b|body|].
    + (* Emit *)
      cbn [chk_block] in HC.
      destruct (chk_emit A r next lo n ts) as [[[r1 next1] ts1]|] eqn:E1; try discriminate.
      intros [|sf] vs c t o vs' c' HI HS; [discriminate|].
      cbn [sblock sstep] in HS.
      destruct (semit A vs c lo n) as [c1|] eqn:S1; try discriminate.
      destruct (chk_emit_sound _ _ _ _ _ _ _ _ _ _ _ _ _ E1 HI S1)
        as (L1 & k & t1 & K1 & _ & I1 & P1 & F1).
      destruct (IH _ _ _ _ _ _ HC _ _ _ _ _ _ _ I1 HS) as (tf & t' & HT & (L2 & P2 & F2)).
      exists (k + tf)%nat, t'. split.
      * specialize (K1 tf [] o (vs', t')). rewrite !app_nil_r in K1. apply K1. exact HT.
      * repeat split; [lia| |].
        -- intros m Hm. rewrite P2 by lia. apply P1. exact Hm.
        -- intros h e Hr. destruct (F1 _ _ Hr) as [Fc Fr]. rewrite (F2 _ _ Fr). exact Fc.
    + (* Store *)
      cbn [chk_block] in HC.
      destruct ts as [|[ | v' e| | | ] ts']; try discriminate.
      destruct (repr A r h) as [eh|] eqn:Er; try discriminate.
      destruct (Nat.eqb v v' && texpr_eqb e eh) eqn:Eb; try discriminate.
      apply andb_prop in Eb as [Ev Ee]. apply Nat.eqb_eq in Ev. apply texpr_eqb_eq in Ee. subst v' e.
      intros [|sf] vs c t o vs' c' HI HS; [discriminate|].
      cbn [sblock sstep] in HS.
      destruct (repr_sound _ _ _ _ _ _ _ HI Er) as (_ & _ & z & Uz & Tz).
      rewrite Uz in HS. destruct (set_nth vs v z) as [vs1|] eqn:Es; try discriminate.
      destruct (IH _ _ _ _ _ _ HC _ _ _ _ _ _ _ HI HS) as (tf & t' & HT & HP).
      exists (S tf), t'. split; auto.
      cbn [tblock tstep]. rewrite Tz, Es. exact HT.
    + (* If *)
      cbn [chk_block] in HC.
      destruct ts as [|[ | |e ta tb| | ] ts']; try discriminate.
      destruct (repr A r ch) as [ec|] eqn:Er; try discriminate.
      destruct (texpr_eqb e ec) eqn:Ee; try discriminate. apply texpr_eqb_eq in Ee. subst e.
      destruct (chk_block fuel A r next a ta) as [n1|] eqn:Ca; try discriminate.
      destruct (chk_block fuel A r n1 b tb) as [n2|] eqn:Cb; try discriminate.
      pose proof (chk_block_next_le _ _ _ _ _ _ _ Ca) as La.
      pose proof (chk_block_next_le _ _ _ _ _ _ _ Cb) as Lb.
      pose proof (chk_block_next_le _ _ _ _ _ _ _ HC) as Lc.
      intros [|sf] vs c t o vs' c' HI HS; [discriminate|].
      cbn [sblock sstep] in HS.
      destruct (repr_sound _ _ _ _ _ _ _ HI Er) as (_ & _ & z & Uz & Tz).
      rewrite Uz in HS.
      destruct (z =? 0) eqn:Ez.
      * (* else arm: checked from n1 to n2; weaken the start of the invariant *)
        assert (I1 : Inv A r n1 c t) by (eapply Inv_frame; eauto).
        destruct (seq_sim _ _ _ _ _ _ _ _ _ (IH _ _ _ _ _ _ Cb) (IH _ _ _ _ _ _ HC) Lc _ _ _ _ _ _ _ I1 HS)
          as (tf & t' & HT & (L & P & F)).
        exists (S tf), t'. split.
        -- cbn [tblock tstep]. rewrite Tz, Ez. exact HT.
        -- repeat split; [lia| |auto]. intros m Hm. apply P. lia.
      * (* then arm: checked from next to n1; the rest is checked from n2 >= n1 *)
        assert (S2 : Sim A r n1 next' ss' ts').
        { intros sf0 vs0 c0 t0 o0 vs0' c0' HI0 HS0.
          assert (I2 : Inv A r n2 c0 t0) by (eapply Inv_frame; eauto).
          destruct (IH _ _ _ _ _ _ HC _ _ _ _ _ _ _ I2 HS0) as (tf & t' & HT & (L & P & F)).
          exists tf, t'. split; auto. repeat split; [lia| |auto]. intros m Hm. apply P. lia. }
        destruct (seq_sim _ _ _ _ _ _ _ _ _ (IH _ _ _ _ _ _ Ca) S2 ltac:(lia) _ _ _ _ _ _ _ HI HS)
          as (tf & t' & HT & HP).
        exists (S tf), t'. split; auto. cbn [tblock tstep]. rewrite Tz, Ez. exact HT.
    + (* Loop *)
      cbn [chk_block] in HC.
      destruct ts as [|[ | | |tbody| ] ts']; try discriminate.
      destruct (chk_block fuel A r next body tbody) as [n1|] eqn:Cb; try discriminate.
      pose proof (chk_block_next_le _ _ _ _ _ _ _ Cb) as Lb.
      pose proof (chk_block_next_le _ _ _ _ _ _ _ HC) as Lc.
      pose proof (loop_sim _ _ _ _ _ _ (IH _ _ _ _ _ _ Cb)) as LS.
      intros [|sf] vs c t o vs' c' HI HS; [discriminate|].
      cbn [sblock] in HS.
      destruct (sstep (sblock sf A) A (SLoop body) (vs, c)) as [[[|] [vs1 c1]]|] eqn:E1; try discriminate.
      * (* the loop terminated normally; then the rest runs *)
        assert (Hsf : exists sf0, sf = S sf0).
        { destruct sf; [discriminate|eauto]. }
        destruct Hsf as [sf0 ->].
        assert (HL : sblock (S (S sf0)) A [SLoop body] (vs, c) = Some (ONormal, (vs1, c1))).
        { remember (S sf0) as g. cbn [sblock]. rewrite E1. subst g. reflexivity. }
        destruct (LS _ _ _ _ _ _ _ HI HL) as (tf1 & t1 & HT1 & (L1 & P1 & F1)).
        assert (I1 : Inv A r n1 c1 t1) by (eapply Inv_frame; eauto).
        destruct (IH _ _ _ _ _ _ HC _ _ _ _ _ _ _ I1 HS) as (tf2 & t2 & HT2 & (L2 & P2 & F2)).
        (* extract the step from the singleton-block run *)
        destruct tf1 as [|g]; [discriminate|]. cbn [tblock] in HT1.
        destruct (tstep (tblock g) (TLoop tbody) (vs, t)) as [[[|] st1]|] eqn:ET; try discriminate.
        destruct g as [|g']; [discriminate|]. cbn [tblock] in HT1. inversion HT1; subst st1; clear HT1.
        exists (S (Nat.max (S g') tf2)), t2. split.
        -- remember (Nat.max (S g') tf2) as G.
           assert (EX : extends (tblock (S g')) (tblock G)).
           { intros l s0 x Hx. eapply tblock_mono_le; [|exact Hx]. subst G. apply Nat.le_max_l. }
           cbn [tblock]. rewrite (tstep_mono _ _ _ _ _ EX ET).
           eapply tblock_mono_le; [|exact HT2]. subst G. apply Nat.le_max_r.
        -- repeat split; [lia| |].
           ++ intros m Hm. rewrite P2 by lia. apply P1. lia.
           ++ intros h e Hr. rewrite (F2 _ _ Hr). apply (F1 _ _ Hr).
      * (* sstep of a loop never yields Break *)
        exfalso. cbn [sstep] in E1.
        destruct (sblock sf A body (vs, c)) as [[[|] st1]|]; try discriminate.
        destruct (sblock sf A [SLoop body] st1) as [[[|] st2]|] eqn:E2; try discriminate.
        eapply sloop_not_break; eauto.
    + (* Break *)
      cbn [chk_block] in HC.
      destruct ts as [|[ | | | | ] ts']; try discriminate.
      intros [|sf] vs c t o vs' c' HI HS; [discriminate|].
      cbn [sblock sstep] in HS. inversion HS; subst.
      exists 1%nat, t. split; [reflexivity|].
      pose proof (chk_block_next_le _ _ _ _ _ _ _ HC). repeat split; auto.
Qed.
Print Assumptions chk_block_sound.
