From Coq Require Import ZArith Lia Bool.
From Coq Require Import ZifyBool.
Open Scope Z_scope.
Ltac Zify.zify_post_hook ::= Z.to_euclidean_division_equations.

Definition M := 4294967296.
Definition Hf := 2147483648.
Definition wrap (z:Z) := z mod M.
Definition sgn (w:Z) := if w <? Hf then w else w - M.

Definition wgsl_div_i32 (a b : Z) : Z :=
  let sa := sgn a in let sb := sgn b in
  if sb =? 0 then a else if (sa =? -Hf) && (sb =? -1) then a else wrap (Z.quot sa sb).
Definition spv_sdiv (a b : Z) : option Z :=
  let sa := sgn a in let sb := sgn b in
  if sb =? 0 then None else if (sa =? -Hf) && (sb =? -1) then None else Some (wrap (Z.quot sa sb)).
Definition spv_ieq (a b : Z) : bool := a =? b.
Definition spv_select (c:bool) (x y : Z) := if c then x else y.
Definition naga_div (a b : Z) : option Z :=
  let sel := orb (spv_ieq b 0) (andb (spv_ieq a 2147483648) (spv_ieq b 4294967295)) in
  spv_sdiv a (spv_select sel 1 b).

Lemma wrap_sgn a : 0 <= a < M -> wrap (sgn a) = a.
Proof. unfold wrap, sgn, M, Hf. intros. destruct (a <? 2147483648) eqn:E; lia. Qed.

Ltac no_if t := lazymatch t with context [if _ then _ else _] => fail | _ => idtac end.
Ltac atom_cases :=
  repeat (match goal with
  | |- context [?x =? ?y] => no_if x; no_if y; destruct (Z.eqb_spec x y)
  | |- context [?x <? ?y] => no_if x; no_if y; destruct (Z.ltb_spec x y)
  end; cbn [orb andb negb]; cbv iota).

Lemma naga_div_correct : forall a b, 0 <= a < M -> 0 <= b < M ->
  naga_div a b = Some (wgsl_div_i32 a b).
Proof.
  intros a b Ha Hb.
  unfold naga_div, wgsl_div_i32, spv_sdiv, spv_select, spv_ieq, sgn, wrap, M, Hf in *.
  atom_cases; try (exfalso; lia); try reflexivity; f_equal; try lia.
Qed.
Print Assumptions naga_div_correct.
