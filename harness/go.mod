module verifharness

go 1.25

require github.com/gogpu/naga v0.0.0

replace github.com/gogpu/naga => /repo
