package common

import (
	"fmt"
	"math"
	"reflect"
	"sort"
)

// Dump converts any Go value into JSON-encodable data by reflection:
// struct -> {"_t": type name, field: ...}; interface -> dump of dynamic value;
// pointer -> dump of pointee or nil; slice/array -> list; map -> list of
// [key, value] sorted by printed key; floats -> {"f": bits} so NaN/inf survive.
func Dump(v any) any {
	return dumpValue(reflect.ValueOf(v), 0)
}

func dumpValue(v reflect.Value, depth int) any {
	if depth > 200 {
		return "<<too deep>>"
	}
	if !v.IsValid() {
		return nil
	}
	switch v.Kind() {
	case reflect.Interface:
		if v.IsNil() {
			return nil
		}
		e := v.Elem()
		// a named non-struct type behind an interface (ir.LiteralI32, ir.SwitchValueU32, ...)
		// would lose its identity: wrap it as {"_t": name, "v": value}
		if k := e.Kind(); k != reflect.Struct && k != reflect.Pointer && e.Type().PkgPath() != "" {
			return map[string]any{"_t": e.Type().Name(), "v": dumpValue(e, depth+1)}
		}
		return dumpValue(e, depth+1)
	case reflect.Pointer:
		if v.IsNil() {
			return nil
		}
		return dumpValue(v.Elem(), depth+1)
	case reflect.Struct:
		t := v.Type()
		m := map[string]any{"_t": t.Name()}
		for i := 0; i < t.NumField(); i++ {
			f := t.Field(i)
			if !f.IsExported() {
				continue
			}
			m[f.Name] = dumpValue(v.Field(i), depth+1)
		}
		return m
	case reflect.Slice:
		if v.IsNil() {
			return []any{}
		}
		fallthrough
	case reflect.Array:
		if v.Type().Elem().Kind() == reflect.Uint8 {
			// byte strings as list of ints
			out := make([]any, v.Len())
			for i := range out {
				out[i] = v.Index(i).Uint()
			}
			return out
		}
		out := make([]any, v.Len())
		for i := range out {
			out[i] = dumpValue(v.Index(i), depth+1)
		}
		return out
	case reflect.Map:
		type kv struct {
			k string
			v any
			kd any
		}
		var kvs []kv
		it := v.MapRange()
		for it.Next() {
			kd := dumpValue(it.Key(), depth+1)
			kvs = append(kvs, kv{fmt.Sprint(kd), dumpValue(it.Value(), depth+1), kd})
		}
		sort.Slice(kvs, func(i, j int) bool { return kvs[i].k < kvs[j].k })
		out := make([]any, len(kvs))
		for i, e := range kvs {
			out[i] = []any{e.kd, e.v}
		}
		return out
	case reflect.Bool:
		return v.Bool()
	case reflect.Int, reflect.Int8, reflect.Int16, reflect.Int32, reflect.Int64:
		return v.Int()
	case reflect.Uint, reflect.Uint8, reflect.Uint16, reflect.Uint32, reflect.Uint64, reflect.Uintptr:
		u := v.Uint()
		if u > 1<<53 {
			return map[string]any{"u64": fmt.Sprint(u)}
		}
		return u
	case reflect.Float32:
		return map[string]any{"f32": math.Float32bits(float32(v.Float()))}
	case reflect.Float64:
		return map[string]any{"f64": fmt.Sprint(math.Float64bits(v.Float()))}
	case reflect.String:
		return v.String()
	case reflect.Func, reflect.Chan, reflect.UnsafePointer:
		return "<<func>>"
	}
	return fmt.Sprint(v.Interface())
}
