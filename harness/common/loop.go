// Package common: shared pieces of the verification harness tools.
package common

import (
	"bufio"
	"crypto/sha256"
	"encoding/hex"
	"encoding/json"
	"fmt"
	"os"
	"runtime/debug"
	"syscall"
)

// cpuMillis is the process's user+system CPU time so far; maxRSSKiB its peak resident set.
func cpuMillis() (int64, int64) {
	var ru syscall.Rusage
	if err := syscall.Getrusage(syscall.RUSAGE_SELF, &ru); err != nil {
		return 0, 0
	}
	ms := ru.Utime.Sec*1000 + int64(ru.Utime.Usec)/1000 + ru.Stime.Sec*1000 + int64(ru.Stime.Usec)/1000
	return ms, ru.Maxrss
}

// Job is one unit of work read from stdin (one JSON object per line).
type Job struct {
	ID   any            `json:"id"`
	Src  string         `json:"src"`
	Hex  string         `json:"hex"` // source given as hex bytes (arbitrary, maybe invalid UTF-8)
	Want []string       `json:"want"`
	Opts map[string]any `json:"opts"`
	Data map[string]any `json:"data"` // free-form payload for tool-specific modes
}

// Source returns the WGSL source of the job.
func (j *Job) Source() string {
	if j.Hex != "" {
		b, _ := hex.DecodeString(j.Hex)
		return string(b)
	}
	return j.Src
}

// Wants reports whether the job asked for output k.
func (j *Job) Wants(k string) bool {
	for _, w := range j.Want {
		if w == k {
			return true
		}
	}
	return false
}

func (j *Job) OptBool(k string, def bool) bool {
	if v, ok := j.Opts[k]; ok {
		if b, ok := v.(bool); ok {
			return b
		}
	}
	return def
}

func (j *Job) OptInt(k string, def int) int {
	if v, ok := j.Opts[k]; ok {
		if f, ok := v.(float64); ok {
			return int(f)
		}
	}
	return def
}

func (j *Job) OptString(k string, def string) string {
	if v, ok := j.Opts[k]; ok {
		if s, ok := v.(string); ok {
			return s
		}
	}
	return def
}

// Mode handles one job and fills res.
type Mode func(j *Job, res map[string]any)

// Main runs the JSON-lines loop: argv[1] selects the mode; every job runs
// under recover(), a panic is reported as {"panic": "...", "stack": "..."}.
func Main(modes map[string]Mode) {
	if len(os.Args) < 2 {
		fmt.Fprintln(os.Stderr, "usage: <tool> <mode>   (jobs as JSON lines on stdin)")
		os.Exit(2)
	}
	mode, ok := modes[os.Args[1]]
	if !ok {
		fmt.Fprintln(os.Stderr, "unknown mode", os.Args[1])
		os.Exit(2)
	}
	in := bufio.NewReaderSize(os.Stdin, 1<<20)
	out := bufio.NewWriterSize(os.Stdout, 1<<20)
	defer out.Flush()
	dec := json.NewDecoder(in)
	enc := json.NewEncoder(out)
	for dec.More() {
		var j Job
		if err := dec.Decode(&j); err != nil {
			fmt.Fprintln(os.Stderr, "bad job:", err)
			os.Exit(2)
		}
		c0, _ := cpuMillis()
		res := runJob(mode, &j)
		c1, rss := cpuMillis()
		res["id"] = j.ID
		res["cpu_ms"] = c1 - c0
		res["maxrss_kib"] = rss
		if j.OptBool("digest", false) {
			// metamorphic comparisons only need to know whether two outputs are identical
			for k, v := range res {
				if k != "stack" {
					res[k] = digestOnly(v)
				}
			}
		}
		if j.OptBool("sizes_only", false) {
			// resource probing: the caller wants to know how much was produced, not what
			for k, v := range res {
				if k != "stack" {
					res[k] = sizesOnly(v)
				}
			}
		}
		if err := enc.Encode(res); err != nil {
			fmt.Fprintln(os.Stderr, "encode:", err)
			os.Exit(2)
		}
		out.Flush()
	}
}

func digestOnly(v any) any {
	switch x := v.(type) {
	case string:
		if len(x) > 256 {
			return map[string]any{"sha256": hex.EncodeToString(func() []byte { h := sha256.Sum256([]byte(x)); return h[:] }()), "len": len(x)}
		}
	case map[string]any:
		for k, e := range x {
			x[k] = digestOnly(e)
		}
	}
	return v
}

func sizesOnly(v any) any {
	switch x := v.(type) {
	case string:
		if len(x) > 4096 {
			return map[string]any{"len": len(x)}
		}
	case map[string]any:
		for k, e := range x {
			x[k] = sizesOnly(e)
		}
	}
	return v
}

func runJob(mode Mode, j *Job) (res map[string]any) {
	res = map[string]any{}
	defer func() {
		if r := recover(); r != nil {
			res["panic"] = fmt.Sprint(r)
			res["stack"] = string(debug.Stack())
		}
	}()
	mode(j, res)
	return res
}
