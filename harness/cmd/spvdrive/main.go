// spvdrive: compiles WGSL to SPIR-V with the full spirv.Options surface (C02).
//
//	spvdrive compile {"id":..,"src":..,"opts":{
//	    "version": 0x0103 (major<<8|minor), "debug": bool, "force_point_size": bool,
//	    "adjust_coordinate_space": bool, "force_loop_bounding": bool (default true),
//	    "ray_query_init_tracking": bool (default true), "use_storage_io16": bool (default true),
//	    "bounds_image_load": 0|1|2, "bounds_image_store": 0|1|2, "bounds_index": 0|1|2,
//	    "caps_available": [capability numbers] (absent = unrestricted),
//	    "extra_caps": [capability numbers]}}
//	-> {"stage","err"} | {"spv_err"} | {"words":[...]}  (+ "validate": [...] when want has "validate")
//
// Every job runs under recover().
package main

import (
	"encoding/binary"

	"verifharness/common"

	"github.com/gogpu/naga"
	"github.com/gogpu/naga/spirv"
)

func main() {
	common.Main(map[string]common.Mode{"compile": doCompile})
}

func optList(j *common.Job, k string) ([]int, bool) {
	v, ok := j.Opts[k]
	if !ok {
		return nil, false
	}
	l, ok := v.([]any)
	if !ok {
		return nil, false
	}
	out := make([]int, 0, len(l))
	for _, x := range l {
		if f, ok := x.(float64); ok {
			out = append(out, int(f))
		}
	}
	return out, true
}

func doCompile(j *common.Job, res map[string]any) {
	src := j.Source()
	ast, err := naga.Parse(src)
	if err != nil {
		res["stage"] = "parse"
		res["err"] = err.Error()
		return
	}
	mod, err := naga.LowerWithSource(ast, src)
	if err != nil {
		res["stage"] = "lower"
		res["err"] = err.Error()
		return
	}
	if j.Wants("validate") {
		verrs, err := naga.Validate(mod)
		if err != nil {
			res["validate_err"] = err.Error()
		}
		vs := []string{}
		for _, e := range verrs {
			vs = append(vs, e.Error())
		}
		res["validate"] = vs
	}
	o := spirv.DefaultOptions()
	if v := j.OptInt("version", 0); v != 0 {
		o.Version = spirv.Version{Major: uint8(v >> 8), Minor: uint8(v & 0xff)}
	}
	o.Debug = j.OptBool("debug", false)
	o.ForcePointSize = j.OptBool("force_point_size", false)
	o.AdjustCoordinateSpace = j.OptBool("adjust_coordinate_space", false)
	o.ForceLoopBounding = j.OptBool("force_loop_bounding", o.ForceLoopBounding)
	o.RayQueryInitTracking = j.OptBool("ray_query_init_tracking", o.RayQueryInitTracking)
	o.UseStorageInputOutput16 = j.OptBool("use_storage_io16", o.UseStorageInputOutput16)
	o.BoundsCheckPolicies.ImageLoad = spirv.BoundsCheckPolicy(j.OptInt("bounds_image_load", 0))
	o.BoundsCheckPolicies.ImageStore = spirv.BoundsCheckPolicy(j.OptInt("bounds_image_store", 0))
	o.BoundsCheckPolicies.Index = spirv.BoundsCheckPolicy(j.OptInt("bounds_index", 0))
	if l, ok := optList(j, "caps_available"); ok {
		o.CapabilitiesAvailable = map[spirv.Capability]struct{}{}
		for _, c := range l {
			o.CapabilitiesAvailable[spirv.Capability(c)] = struct{}{}
		}
	}
	if l, ok := optList(j, "extra_caps"); ok {
		for _, c := range l {
			o.Capabilities = append(o.Capabilities, spirv.Capability(c))
		}
	}
	b, err := naga.GenerateSPIRV(mod, o)
	if err != nil {
		res["spv_err"] = err.Error()
		return
	}
	if len(b)%4 != 0 {
		res["spv_err"] = "output length is not a multiple of 4"
		res["odd_len"] = len(b)
		return
	}
	words := make([]uint32, len(b)/4)
	for i := range words {
		words[i] = binary.LittleEndian.Uint32(b[4*i:])
	}
	res["words"] = words
}
