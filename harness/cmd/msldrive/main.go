// msldrive: compile WGSL with gogpu/naga (current working tree, tag verif) to MSL
// under a list of msl.Options sets (C04/C15).
//
//	msldrive compile  {"id":..,"src":..,"want":["ir"],"data":{"optsets":[{"name":..,"lang":[2,1],"index":"rzsw"|"restrict"|"unchecked",
//	       "buffer":..,"zero_wg":bool,"loop_bound":bool,"fake":bool,"map":{"<ep>":{"res":[[group,binding,slot,mutable]...],"sizes":slot}}}]}}
//	  -> {"ir": <dump>, "validate":[..], "msl": {"<name>": {"text":..,"info":..} | {"err":..}}}
//
// Every job runs under recover().
package main

import (
	"fmt"

	"verifharness/common"

	"github.com/gogpu/naga"
	"github.com/gogpu/naga/ir"
	"github.com/gogpu/naga/msl"
)

type job = common.Job

func main() {
	common.Main(map[string]common.Mode{"compile": doCompile})
}

func policy(v any, def msl.BoundsCheckPolicy) msl.BoundsCheckPolicy {
	s, _ := v.(string)
	switch s {
	case "rzsw":
		return msl.BoundsCheckReadZeroSkipWrite
	case "restrict":
		return msl.BoundsCheckRestrict
	case "unchecked":
		return msl.BoundsCheckUnchecked
	}
	return def
}

func boolOf(m map[string]any, k string, def bool) bool {
	if v, ok := m[k]; ok {
		if b, ok := v.(bool); ok {
			return b
		}
	}
	return def
}

func u8(v any) uint8 {
	f, _ := v.(float64)
	return uint8(f)
}

func optionsOf(m map[string]any) msl.Options {
	o := msl.DefaultOptions()
	if l, ok := m["lang"].([]any); ok && len(l) == 2 {
		o.LangVersion = msl.Version{Major: u8(l[0]), Minor: u8(l[1])}
	}
	o.BoundsCheckPolicies.Index = policy(m["index"], o.BoundsCheckPolicies.Index)
	o.BoundsCheckPolicies.Buffer = policy(m["buffer"], o.BoundsCheckPolicies.Buffer)
	o.ZeroInitializeWorkgroupMemory = boolOf(m, "zero_wg", o.ZeroInitializeWorkgroupMemory)
	o.ForceLoopBounding = boolOf(m, "loop_bound", o.ForceLoopBounding)
	o.FakeMissingBindings = boolOf(m, "fake", o.FakeMissingBindings)
	if pm, ok := m["map"].(map[string]any); ok {
		o.PerEntryPointMap = map[string]msl.EntryPointResources{}
		for ep, v := range pm {
			e, _ := v.(map[string]any)
			r := msl.EntryPointResources{Resources: map[ir.ResourceBinding]msl.BindTarget{}}
			if rs, ok := e["res"].([]any); ok {
				for _, x := range rs {
					t, _ := x.([]any)
					if len(t) < 4 {
						continue
					}
					slot := u8(t[2])
					mut, _ := t[3].(bool)
					g, _ := t[0].(float64)
					b, _ := t[1].(float64)
					r.Resources[ir.ResourceBinding{Group: uint32(g), Binding: uint32(b)}] = msl.BindTarget{Buffer: &slot, Mutable: mut}
				}
			}
			if s, ok := e["sizes"]; ok {
				sl := u8(s)
				r.SizesBuffer = &sl
			}
			o.PerEntryPointMap[ep] = r
		}
	}
	return o
}

func doCompile(j *job, res map[string]any) {
	src := j.Source()
	ast, err := naga.Parse(src)
	if err != nil {
		res["stage"] = "parse"
		res["err"] = err.Error()
		return
	}
	mod, err := naga.LowerWithSource(ast, src)
	if err != nil {
		res["stage"] = "lower"
		res["err"] = err.Error()
		return
	}
	if j.Wants("ir") {
		res["ir"] = common.Dump(mod)
	}
	verrs, err := naga.Validate(mod)
	if err != nil {
		res["validate_err"] = err.Error()
	}
	vs := []string{}
	for _, e := range verrs {
		vs = append(vs, e.Error())
	}
	res["validate"] = vs
	outs := map[string]any{}
	sets, _ := j.Data["optsets"].([]any)
	for _, s := range sets {
		m, _ := s.(map[string]any)
		name, _ := m["name"].(string)
		func() {
			defer func() {
				if r := recover(); r != nil {
					outs[name] = map[string]any{"panic": fmt.Sprint(r)}
				}
			}()
			text, info, err := msl.Compile(mod, optionsOf(m))
			if err != nil {
				outs[name] = map[string]any{"err": err.Error()}
			} else {
				outs[name] = map[string]any{"text": text, "info": common.Dump(info)}
			}
		}()
	}
	res["msl"] = outs
}
