// ovrdrive: observes how gogpu/naga (current /repo working tree) resolves
// pipeline-overridable constants (property C14).
//
//	ovrdrive resolve {"id":..,"src":WGSL,"data":{"consts":[[key,"<float64 bits, decimal>"]...],
//	                                             "paths":["po","backends","glsl","msl","canon"],
//	                                             "subst": WGSL of the substituted-constant reference (form family)}}
//
// Result (all floats as bit patterns; no message strings are compared by the check):
//
//	lowered   what lowering produced: overrides (name, id, type, init tree), global
//	          variable initialiser trees, workgroup sizes
//	po        ir.CloneModuleForOverrides + ir.ProcessOverrides(map): error flag, or the
//	          literal each override became, each global initialiser, workgroup sizes,
//	          the named `let` expressions of every entry point (resolved trees), and
//	          whether the reflection dump of the caller's module is unchanged
//	glsl/msl  Compile with the PipelineConstants option: error flag / text, and whether
//	          the caller's module is unchanged
//	subst     (when data.subst is given) the reference program through every back end, and the
//	          comparison of its handle-free canonical function bodies (canon.go) with those of
//	          the module ProcessOverrides produced
package main

import (
	"encoding/hex"
	"fmt"
	"math"
	"reflect"
	"sort"
	"strconv"

	"verifharness/common"

	"github.com/gogpu/naga"
	"github.com/gogpu/naga/glsl"
	"github.com/gogpu/naga/hlsl"
	"github.com/gogpu/naga/ir"
	"github.com/gogpu/naga/msl"
	"github.com/gogpu/naga/spirv"
)

type job = common.Job

func main() {
	common.Main(map[string]common.Mode{"resolve": doResolve, "goconv": doGoConv})
}

// ---------------------------------------------------------------- projections

func scalarName(m *ir.Module, th ir.TypeHandle) string {
	if int(th) >= len(m.Types) {
		return "?"
	}
	if st, ok := m.Types[th].Inner.(ir.ScalarType); ok {
		switch st.Kind {
		case ir.ScalarBool:
			return "bool"
		case ir.ScalarSint:
			return fmt.Sprintf("i%d", int(st.Width)*8)
		case ir.ScalarUint:
			return fmt.Sprintf("u%d", int(st.Width)*8)
		case ir.ScalarFloat:
			return fmt.Sprintf("f%d", int(st.Width)*8)
		}
		return fmt.Sprintf("scalar%d", st.Kind)
	}
	return fmt.Sprintf("%T", m.Types[th].Inner)
}

func litJSON(v ir.LiteralValue) map[string]any {
	switch x := v.(type) {
	case ir.LiteralBool:
		b := 0
		if bool(x) {
			b = 1
		}
		return map[string]any{"k": "lit", "t": "bool", "v": b}
	case ir.LiteralI32:
		return map[string]any{"k": "lit", "t": "i32", "v": uint32(int32(x))}
	case ir.LiteralU32:
		return map[string]any{"k": "lit", "t": "u32", "v": uint32(x)}
	case ir.LiteralF32:
		return map[string]any{"k": "lit", "t": "f32", "v": math.Float32bits(float32(x))}
	case ir.LiteralF64:
		return map[string]any{"k": "lit", "t": "f64", "v": strconv.FormatUint(math.Float64bits(float64(x)), 10)}
	case ir.LiteralAbstractInt:
		return map[string]any{"k": "lit", "t": "aint", "v": strconv.FormatInt(int64(x), 10)}
	case ir.LiteralAbstractFloat:
		return map[string]any{"k": "lit", "t": "afloat", "v": strconv.FormatUint(math.Float64bits(float64(x)), 10)}
	}
	return map[string]any{"k": "lit", "t": fmt.Sprintf("%T", v)}
}

// number of constants of the module before ProcessOverrides appended one per override
// (constant nOrigConsts+i is the one created for override i)
var nOrigConsts = 1 << 30

// tree of an expression of an arena; consts resolved through module constants' Init.
func exprTree(m *ir.Module, arena []ir.Expression, h ir.ExpressionHandle, global bool, depth int) any {
	if depth > 64 {
		return map[string]any{"k": "deep"}
	}
	if int(h) >= len(arena) {
		return map[string]any{"k": "oob"}
	}
	switch k := arena[h].Kind.(type) {
	case ir.Literal:
		return litJSON(k.Value)
	case ir.ExprOverride:
		return map[string]any{"k": "ovr", "h": int(k.Override)}
	case ir.ExprConstant:
		r := map[string]any{"k": "const", "h": int(k.Constant), "ovr": int(k.Constant) - nOrigConsts}
		if int(k.Constant) < len(m.Constants) {
			c := &m.Constants[k.Constant]
			r["name"] = c.Name
			r["init"] = exprTree(m, m.GlobalExpressions, c.Init, true, depth+1)
		}
		return r
	case ir.ExprBinary:
		return map[string]any{"k": "bin", "op": int(k.Op), "l": exprTree(m, arena, k.Left, global, depth+1), "r": exprTree(m, arena, k.Right, global, depth+1)}
	case ir.ExprUnary:
		return map[string]any{"k": "un", "op": int(k.Op), "e": exprTree(m, arena, k.Expr, global, depth+1)}
	case ir.ExprZeroValue:
		return map[string]any{"k": "zero"}
	case ir.ExprAs:
		return map[string]any{"k": "as", "e": exprTree(m, arena, k.Expr, global, depth+1)}
	case ir.ExprLoad:
		return map[string]any{"k": "load"}
	}
	return map[string]any{"k": fmt.Sprintf("%T", arena[h].Kind)}
}

func overridesJSON(m *ir.Module) []any {
	out := make([]any, 0, len(m.Overrides))
	for i := range m.Overrides {
		ov := &m.Overrides[i]
		r := map[string]any{"name": ov.Name, "ty": scalarName(m, ov.Ty)}
		if ov.ID != nil {
			r["id"] = int(*ov.ID)
		} else {
			r["id"] = nil
		}
		if ov.Init != nil {
			r["init"] = exprTree(m, m.GlobalExpressions, *ov.Init, true, 0)
		} else {
			r["init"] = nil
		}
		out = append(out, r)
	}
	return out
}

func globalsJSON(m *ir.Module) []any {
	out := make([]any, 0, len(m.GlobalVariables))
	for i := range m.GlobalVariables {
		gv := &m.GlobalVariables[i]
		r := map[string]any{"name": gv.Name, "ty": scalarName(m, gv.Type)}
		if gv.InitExpr != nil {
			r["init"] = exprTree(m, m.GlobalExpressions, *gv.InitExpr, true, 0)
		} else {
			r["init"] = nil
		}
		out = append(out, r)
	}
	return out
}

func workgroupsJSON(m *ir.Module) []any {
	out := make([]any, 0, len(m.EntryPoints))
	for i := range m.EntryPoints {
		ep := &m.EntryPoints[i]
		out = append(out, map[string]any{"name": ep.Name, "wg": []uint32{ep.Workgroup[0], ep.Workgroup[1], ep.Workgroup[2]}})
	}
	return out
}

// named expressions (`let` bindings) of each entry point / function, sorted by name.
func namedJSON(m *ir.Module) []any {
	out := []any{}
	add := func(fname string, fn *ir.Function) {
		type ne struct {
			n string
			h ir.ExpressionHandle
		}
		var ns []ne
		for h, n := range fn.NamedExpressions {
			ns = append(ns, ne{n, h})
		}
		sort.Slice(ns, func(i, j int) bool {
			if ns[i].n != ns[j].n {
				return ns[i].n < ns[j].n
			}
			return ns[i].h < ns[j].h
		})
		for _, e := range ns {
			out = append(out, map[string]any{"fn": fname, "name": e.n, "tree": exprTree(m, fn.Expressions, e.h, false, 0)})
		}
		// local variable initialisers too (`var x = e;`)
		for i := range fn.LocalVars {
			lv := &fn.LocalVars[i]
			if lv.Init != nil {
				out = append(out, map[string]any{"fn": fname, "name": "var:" + lv.Name, "tree": exprTree(m, fn.Expressions, *lv.Init, false, 0)})
			}
		}
	}
	for i := range m.EntryPoints {
		add(m.EntryPoints[i].Name, &m.EntryPoints[i].Function)
	}
	for i := range m.Functions {
		add(m.Functions[i].Name, &m.Functions[i])
	}
	return out
}

// resolved constants created for overrides by ProcessOverrides: the LAST constant
// carrying each override's name whose Init is a literal.
func resolvedJSON(m *ir.Module, nOrigConsts int) []any {
	out := make([]any, 0, len(m.Overrides))
	for i := range m.Overrides {
		ci := nOrigConsts + i
		if ci >= len(m.Constants) {
			out = append(out, nil)
			continue
		}
		c := &m.Constants[ci]
		out = append(out, map[string]any{"name": c.Name, "ty": scalarName(m, c.Type), "val": exprTree(m, m.GlobalExpressions, c.Init, true, 0)})
	}
	return out
}

// statement classes of the module's function bodies whose storage
// CloneModuleForOverrides may or may not share with the caller's module
func stmtClasses(m *ir.Module) map[string]int {
	c := map[string]int{"nested": 0, "call_args": 0, "ptr": 0, "expr_ptr": 0}
	var walk func(b ir.Block, top bool)
	walk = func(b ir.Block, top bool) {
		if !top {
			c["nested"] += len(b)
		}
		for i := range b {
			switch k := b[i].Kind.(type) {
			case ir.StmtBlock:
				walk(k.Block, false)
			case ir.StmtIf:
				walk(k.Accept, false)
				walk(k.Reject, false)
			case ir.StmtSwitch:
				for j := range k.Cases {
					walk(k.Cases[j].Body, false)
				}
			case ir.StmtLoop:
				walk(k.Body, false)
				walk(k.Continuing, false)
				if k.BreakIf != nil {
					c["ptr"]++
				}
			case ir.StmtCall:
				c["call_args"] += len(k.Arguments)
				if k.Result != nil {
					c["ptr"]++
				}
			case ir.StmtReturn:
				if k.Value != nil {
					c["ptr"]++
				}
			case ir.StmtAtomic:
				if k.Result != nil {
					c["ptr"]++
				}
				if x, ok := k.Fun.(ir.AtomicExchange); ok && x.Compare != nil {
					c["ptr"]++
				}
			case ir.StmtImageStore:
				if k.ArrayIndex != nil {
					c["ptr"]++
				}
			}
		}
	}
	// pointees of *ExpressionHandle fields of EXPRESSIONS (the arena is copied by value,
	// the pointees stay shared with the caller's module)
	exprs := func(fn *ir.Function) {
		for i := range fn.Expressions {
			switch k := fn.Expressions[i].Kind.(type) {
			case ir.ExprImageSample:
				if k.ArrayIndex != nil || k.Offset != nil || k.DepthRef != nil {
					c["expr_ptr"]++
				}
			case ir.ExprImageLoad:
				if k.ArrayIndex != nil || k.Sample != nil || k.Level != nil {
					c["expr_ptr"]++
				}
			case ir.ExprImageQuery:
				if q, ok := k.Query.(ir.ImageQuerySize); ok && q.Level != nil {
					c["expr_ptr"]++
				}
			}
		}
	}
	for i := range m.EntryPoints {
		walk(m.EntryPoints[i].Function.Body, true)
		exprs(&m.EntryPoints[i].Function)
	}
	for i := range m.Functions {
		walk(m.Functions[i].Body, true)
		exprs(&m.Functions[i])
	}
	return c
}

func constsOf(j *job) (map[string]float64, error) {
	out := map[string]float64{}
	raw, ok := j.Data["consts"]
	if !ok || raw == nil {
		return out, nil
	}
	lst, ok := raw.([]any)
	if !ok {
		return nil, fmt.Errorf("consts: not a list")
	}
	for _, e := range lst {
		p, ok := e.([]any)
		if !ok || len(p) != 2 {
			return nil, fmt.Errorf("consts: bad pair")
		}
		k, _ := p[0].(string)
		s, _ := p[1].(string)
		bits, err := strconv.ParseUint(s, 10, 64)
		if err != nil {
			return nil, err
		}
		out[k] = math.Float64frombits(bits)
	}
	return out, nil
}

func wantsPath(j *job, p string) bool {
	raw, ok := j.Data["paths"]
	if !ok {
		return true
	}
	lst, _ := raw.([]any)
	for _, e := range lst {
		if s, _ := e.(string); s == p {
			return true
		}
	}
	return false
}

func lowerSrc(src string) (*ir.Module, string, error) {
	ast, err := naga.Parse(src)
	if err != nil {
		return nil, "parse", err
	}
	mod, err := naga.LowerWithSource(ast, src)
	if err != nil {
		return nil, "lower", err
	}
	return mod, "", nil
}

// first difference between two reflection dumps: the chain of struct type names /
// field names leading to it (no indices), e.g. "Module.Functions/Function.Body/Statement.Kind/StmtReturn.Value"
func firstDiff(a, b any, path string) string {
	switch x := a.(type) {
	case map[string]any:
		y, ok := b.(map[string]any)
		if !ok {
			return path
		}
		tn, _ := x["_t"].(string)
		keys := make([]string, 0, len(x))
		for k := range x {
			keys = append(keys, k)
		}
		sort.Strings(keys)
		for _, k := range keys {
			if d := firstDiff(x[k], y[k], path+"/"+tn+"."+k); d != "" {
				return d
			}
		}
		if len(x) != len(y) {
			return path + "/" + tn
		}
		return ""
	case []any:
		y, ok := b.([]any)
		if !ok {
			return path
		}
		for i := range x {
			if i >= len(y) {
				return path + "[len]"
			}
			if d := firstDiff(x[i], y[i], path); d != "" {
				return d
			}
		}
		if len(x) != len(y) {
			return path + "[len]"
		}
		return ""
	default:
		if !reflect.DeepEqual(a, b) {
			return path
		}
		return ""
	}
}

// runs f on a freshly lowered module and reports whether that module (the caller's
// original) is unchanged afterwards
func withFresh(src string, out map[string]any, f func(mod *ir.Module)) {
	mod, _, err := lowerSrc(src)
	if err != nil {
		out["err"] = err.Error()
		return
	}
	before := common.Dump(mod)
	func() {
		defer func() {
			if r := recover(); r != nil {
				out["panic"] = fmt.Sprint(r)
			}
		}()
		f(mod)
	}()
	after := common.Dump(mod)
	d := firstDiff(before, after, "")
	out["orig_unchanged"] = d == ""
	if d != "" {
		out["orig_diff"] = d
	}
}

// set per job: return the SPIR-V binary (hex) next to its length
var wantSpvBytes bool

func compileAll(mod *ir.Module, out map[string]any) {
	func() {
		defer func() {
			if r := recover(); r != nil {
				out["backend_panic"] = fmt.Sprint(r)
			}
		}()
		o := glsl.DefaultOptions()
		if len(mod.EntryPoints) > 0 {
			o.EntryPoint = mod.EntryPoints[0].Name
		}
		if s, _, err := glsl.Compile(mod, o); err != nil {
			out["glsl_err"] = err.Error()
		} else {
			out["glsl"] = s
		}
		if s, _, err := msl.Compile(mod, msl.DefaultOptions()); err != nil {
			out["msl_err"] = err.Error()
		} else {
			out["msl"] = s
		}
		if s, _, err := hlsl.Compile(mod, hlsl.DefaultOptions()); err != nil {
			out["hlsl_err"] = err.Error()
		} else {
			out["hlsl"] = s
		}
		if b, err := naga.GenerateSPIRV(mod, spirv.DefaultOptions()); err != nil {
			out["spv_err"] = err.Error()
		} else {
			out["spv_len"] = len(b)
			if wantSpvBytes {
				out["spv"] = hex.EncodeToString(b)
			}
		}
	}()
}

func doResolve(j *job, res map[string]any) {
	src := j.Source()
	mod, stage, err := lowerSrc(src)
	if err != nil {
		res["stage"] = stage
		res["err"] = err.Error()
		return
	}
	consts, err := constsOf(j)
	if err != nil {
		res["stage"] = "job"
		res["err"] = err.Error()
		return
	}
	nOrigConsts = 1 << 30
	wantSpvBytes = wantsPath(j, "canon")
	res["lowered"] = map[string]any{
		"overrides": overridesJSON(mod), "globals": globalsJSON(mod), "workgroups": workgroupsJSON(mod),
		"named": namedJSON(mod), "stmt_classes": stmtClasses(mod),
	}

	var poCanon any
	if wantsPath(j, "po") {
		po := map[string]any{}
		withFresh(src, po, func(m *ir.Module) {
			clone := ir.CloneModuleForOverrides(m)
			nc := len(clone.Constants)
			perr := ir.ProcessOverrides(clone, ir.PipelineConstants(consts))
			if perr != nil {
				po["err"] = perr.Error()
				return
			}
			nOrigConsts = nc
			po["resolved"] = resolvedJSON(clone, nc)
			po["globals"] = globalsJSON(clone)
			po["workgroups"] = workgroupsJSON(clone)
			po["named"] = namedJSON(clone)
			nOrigConsts = 1 << 30
			if wantsPath(j, "canon") {
				poCanon = canonModule(clone)
				if wantsPath(j, "canon-dump") {
					po["canon"] = poCanon
				}
			}
			if wantsPath(j, "backends") {
				b := map[string]any{}
				compileAll(clone, b)
				po["backends"] = b
			}
		})
		res["po"] = po
	}
	// the substituted-constant reference: the WGSL program in which every override
	// declaration was replaced by a `const` of the value it must take (form family)
	if sub, ok := j.Data["subst"].(string); ok && sub != "" {
		sr := map[string]any{}
		smod, sstage, serr := lowerSrc(sub)
		if serr != nil {
			sr["stage"] = sstage
			sr["err"] = serr.Error()
		} else {
			sc := canonModule(smod)
			if wantsPath(j, "canon-dump") {
				sr["canon"] = sc
			}
			if poCanon != nil {
				sr["canon_vs_po"] = compareCanon(sc, poCanon)
			}
			b := map[string]any{}
			compileAll(smod, b)
			sr["backends"] = b
		}
		res["subst"] = sr
	}
	if wantsPath(j, "glsl") {
		g := map[string]any{}
		withFresh(src, g, func(m *ir.Module) {
			o := glsl.DefaultOptions()
			if len(m.EntryPoints) > 0 {
				o.EntryPoint = m.EntryPoints[0].Name
			}
			o.PipelineConstants = ir.PipelineConstants(consts)
			s, _, gerr := glsl.Compile(m, o)
			if gerr != nil {
				g["err"] = gerr.Error()
			} else {
				g["text"] = s
			}
		})
		res["glsl"] = g
	}
	if wantsPath(j, "msl") {
		g := map[string]any{}
		withFresh(src, g, func(m *ir.Module) {
			o := msl.DefaultOptions()
			o.PipelineConstants = consts
			s, _, gerr := msl.Compile(m, o)
			if gerr != nil {
				g["err"] = gerr.Error()
			} else {
				g["text"] = s
			}
		})
		res["msl"] = g
	}
}

// goconv: what THIS Go toolchain/architecture does for the float64 -> integer
// conversions the override evaluator relies on (implementation-defined when out of
// range); the Coq model's conversion functions are compared with this on every run.
func doGoConv(j *job, res map[string]any) {
	raw, _ := j.Data["bits"].([]any)
	out := []any{}
	for _, e := range raw {
		s, _ := e.(string)
		bits, _ := strconv.ParseUint(s, 10, 64)
		f := math.Float64frombits(bits)
		out = append(out, map[string]any{
			"bits":   s,
			"i32":    uint32(int32(f)),
			"u32":    uint32(f),
			"i64not": strconv.FormatUint(math.Float64bits(float64(^int64(f))), 10),
			"f32":    math.Float32bits(float32(f)),
			"eq1":    f == 1.0,
			"eq0":    f == 0,
		})
	}
	res["conv"] = out
}
