// canon.go: handle-free canonical form of the function bodies of a module (C14 form family).
//
// Every statement and expression struct is walked by reflection: a field of type
// ir.ExpressionHandle (also behind a pointer, in a slice, or inside a nested struct such as
// SampleLevelGradient or AtomicExchange) is replaced by the canonical tree of the expression
// it designates; type / constant / override / global-variable / function handles are
// replaced by what they designate (structure, name).  Two modules whose function bodies
// have the same canonical form differ only in arena numbering.  Because the walk is by
// reflection, an operand field that a remapping routine forgets is still compared.
//
// Normalisations (both sides): Emit statements list the trees of the emitted expressions
// minus the kinds that need no emit (literal, constant, override, zero value, argument,
// global / local variable); empty Emits are dropped and adjacent Emits merged.  A resolved
// override (ExprConstant created by ProcessOverrides) and a WGSL `const` render alike:
// name + type + initialiser tree.
package main

import (
	"fmt"
	"reflect"
	"sort"

	"verifharness/common"

	"github.com/gogpu/naga/ir"
)

var (
	tExprH   = reflect.TypeOf(ir.ExpressionHandle(0))
	tTypeH   = reflect.TypeOf(ir.TypeHandle(0))
	tConstH  = reflect.TypeOf(ir.ConstantHandle(0))
	tOvrH    = reflect.TypeOf(ir.OverrideHandle(0))
	tGlobalH = reflect.TypeOf(ir.GlobalVariableHandle(0))
	tFuncH   = reflect.TypeOf(ir.FunctionHandle(0))
	tBlock   = reflect.TypeOf(ir.Block(nil))
	tStmts   = reflect.TypeOf([]ir.Statement(nil))
)

type canonizer struct {
	m     *ir.Module
	fn    *ir.Function
	types map[ir.TypeHandle]any
	// ordinal of a result-like expression among the expressions of the same Go type
	ord map[ir.ExpressionHandle]int
}

func (c *canonizer) typ(h ir.TypeHandle, depth int) any {
	if v, ok := c.types[h]; ok {
		return v
	}
	if int(h) >= len(c.m.Types) || depth > 40 {
		return map[string]any{"_t": "Type", "oob": int(h)}
	}
	t := &c.m.Types[h]
	c.types[h] = map[string]any{"_t": "Type", "recursive": int(h)}
	r := map[string]any{"_t": "Type", "Name": t.Name, "Inner": c.val(reflect.ValueOf(t.Inner), depth+1)}
	c.types[h] = r
	return r
}

func needsNoEmit(k ir.ExpressionKind) bool {
	switch k.(type) {
	case ir.Literal, ir.ExprConstant, ir.ExprOverride, ir.ExprZeroValue,
		ir.ExprFunctionArgument, ir.ExprGlobalVariable, ir.ExprLocalVariable:
		return true
	}
	return false
}

func (c *canonizer) expr(h ir.ExpressionHandle, depth int) any {
	if depth > 48 {
		return "<<deep>>"
	}
	if int(h) >= len(c.fn.Expressions) {
		return map[string]any{"_t": "oob-expression"}
	}
	k := c.fn.Expressions[h].Kind
	if k == nil {
		return nil
	}
	r := c.val(reflect.ValueOf(k), depth+1)
	if m, ok := r.(map[string]any); ok {
		if o, ok := c.ord[h]; ok {
			m["#"] = o
		}
		if int(h) < len(c.fn.ExpressionTypes) {
			tr := c.fn.ExpressionTypes[h]
			if tr.Handle != nil && int(*tr.Handle) < len(c.m.Types) {
				m["ty"] = c.val(reflect.ValueOf(c.m.Types[*tr.Handle].Inner), depth+1)
			} else if tr.Value != nil {
				m["ty"] = c.val(reflect.ValueOf(tr.Value), depth+1)
			} else {
				m["ty"] = nil
			}
		}
	}
	return r
}

func (c *canonizer) globalExpr(h ir.ExpressionHandle, depth int) any {
	if int(h) >= len(c.m.GlobalExpressions) || depth > 48 {
		return map[string]any{"_t": "oob-global-expression"}
	}
	saved := c.fn
	g := &ir.Function{Expressions: c.m.GlobalExpressions}
	c.fn = g
	r := c.expr(h, depth+1)
	c.fn = saved
	return r
}

func (c *canonizer) val(v reflect.Value, depth int) any {
	if depth > 64 {
		return "<<deep>>"
	}
	if !v.IsValid() {
		return nil
	}
	t := v.Type()
	switch t {
	case tExprH:
		return c.expr(ir.ExpressionHandle(v.Uint()), depth+1)
	case tTypeH:
		return c.typ(ir.TypeHandle(v.Uint()), 0)
	case tConstH:
		h := int(v.Uint())
		if h >= len(c.m.Constants) {
			return map[string]any{"_t": "oob-constant"}
		}
		k := &c.m.Constants[h]
		return map[string]any{"_t": "Const", "Name": k.Name, "Type": c.typ(k.Type, 0), "Init": c.globalExpr(k.Init, depth+1)}
	case tOvrH:
		h := int(v.Uint())
		if h >= len(c.m.Overrides) {
			return map[string]any{"_t": "oob-override"}
		}
		return map[string]any{"_t": "Override", "Name": c.m.Overrides[h].Name}
	case tGlobalH:
		h := int(v.Uint())
		if h >= len(c.m.GlobalVariables) {
			return map[string]any{"_t": "oob-global"}
		}
		return map[string]any{"_t": "Global", "Name": c.m.GlobalVariables[h].Name}
	case tFuncH:
		h := int(v.Uint())
		if h >= len(c.m.Functions) {
			return map[string]any{"_t": "oob-function"}
		}
		return map[string]any{"_t": "Function", "Name": c.m.Functions[h].Name}
	case tBlock, tStmts:
		return c.block(v.Interface())
	}
	switch v.Kind() {
	case reflect.Interface:
		if v.IsNil() {
			return nil
		}
		e := v.Elem()
		if k := e.Kind(); k != reflect.Struct && k != reflect.Pointer && e.Type().PkgPath() != "" {
			return map[string]any{"_t": e.Type().Name(), "v": c.val(e, depth+1)}
		}
		return c.val(e, depth+1)
	case reflect.Pointer:
		if v.IsNil() {
			return nil
		}
		return c.val(v.Elem(), depth+1)
	case reflect.Struct:
		if ec, ok := v.Interface().(ir.ExprConstant); ok && int(ec.Constant) < len(c.m.Constants) {
			// a constant whose initialiser is a literal IS that literal (the front end inlines
			// some uses of a `const`, ProcessOverrides keeps the reference)
			k := &c.m.Constants[ec.Constant]
			if int(k.Init) < len(c.m.GlobalExpressions) {
				if lit, ok := c.m.GlobalExpressions[k.Init].Kind.(ir.Literal); ok {
					return c.val(reflect.ValueOf(lit), depth+1)
				}
			}
		}
		m := map[string]any{"_t": t.Name()}
		for i := 0; i < t.NumField(); i++ {
			f := t.Field(i)
			if !f.IsExported() {
				continue
			}
			m[f.Name] = c.val(v.Field(i), depth+1)
		}
		return m
	case reflect.Slice, reflect.Array:
		out := make([]any, v.Len())
		for i := range out {
			out[i] = c.val(v.Index(i), depth+1)
		}
		return out
	}
	return common.Dump(v.Interface())
}

func (c *canonizer) block(b any) any {
	var stmts []ir.Statement
	switch x := b.(type) {
	case ir.Block:
		stmts = x
	case []ir.Statement:
		stmts = x
	}
	out := []any{}
	var pending []any // trees of the current run of Emit statements
	flush := func() {
		if len(pending) > 0 {
			out = append(out, map[string]any{"_t": "StmtEmit", "Emitted": pending})
			pending = nil
		}
	}
	for i := range stmts {
		if e, ok := stmts[i].Kind.(ir.StmtEmit); ok {
			if e.Range.End < e.Range.Start || int(e.Range.End) > len(c.fn.Expressions) {
				flush()
				out = append(out, map[string]any{"_t": "StmtEmit", "bad-range": true})
				continue
			}
			for h := e.Range.Start; h < e.Range.End; h++ {
				if needsNoEmit(c.fn.Expressions[h].Kind) {
					continue
				}
				pending = append(pending, c.expr(h, 0))
			}
			continue
		}
		flush()
		if stmts[i].Kind == nil {
			out = append(out, nil)
			continue
		}
		out = append(out, c.val(reflect.ValueOf(stmts[i].Kind), 0))
	}
	flush()
	return out
}

func (c *canonizer) function(name string, fn *ir.Function) any {
	c.fn = fn
	c.ord = map[ir.ExpressionHandle]int{}
	counts := map[reflect.Type]int{}
	for h := range fn.Expressions {
		switch fn.Expressions[h].Kind.(type) {
		case ir.ExprCallResult, ir.ExprAtomicResult, ir.ExprWorkGroupUniformLoadResult, ir.ExprRayQueryProceedResult,
			ir.ExprSubgroupBallotResult, ir.ExprSubgroupOperationResult:
			t := reflect.TypeOf(fn.Expressions[h].Kind)
			c.ord[ir.ExpressionHandle(h)] = counts[t]
			counts[t]++
		}
	}
	r := map[string]any{"_t": "Function", "Name": name}
	r["Arguments"] = c.val(reflect.ValueOf(fn.Arguments), 0)
	r["Result"] = c.val(reflect.ValueOf(fn.Result), 0)
	r["LocalVars"] = c.val(reflect.ValueOf(fn.LocalVars), 0)
	type ne struct {
		n string
		h ir.ExpressionHandle
	}
	var ns []ne
	for h, n := range fn.NamedExpressions {
		ns = append(ns, ne{n, h})
	}
	sort.Slice(ns, func(i, j int) bool {
		if ns[i].n != ns[j].n {
			return ns[i].n < ns[j].n
		}
		return ns[i].h < ns[j].h
	})
	named := []any{}
	for _, e := range ns {
		named = append(named, map[string]any{"_t": "Named", "Name": e.n, "Expr": c.expr(e.h, 0)})
	}
	r["Named"] = named
	r["Body"] = c.block(fn.Body)
	// expressions no Emit covers although they need one (a back end may never evaluate them)
	covered := make([]bool, len(fn.Expressions))
	var walk func(b ir.Block)
	walk = func(b ir.Block) {
		for i := range b {
			switch k := b[i].Kind.(type) {
			case ir.StmtEmit:
				for h := k.Range.Start; h < k.Range.End && int(h) < len(covered); h++ {
					covered[h] = true
				}
			case ir.StmtBlock:
				walk(k.Block)
			case ir.StmtIf:
				walk(k.Accept)
				walk(k.Reject)
			case ir.StmtSwitch:
				for j := range k.Cases {
					walk(k.Cases[j].Body)
				}
			case ir.StmtLoop:
				walk(k.Body)
				walk(k.Continuing)
			}
		}
	}
	walk(fn.Body)
	un := []any{}
	for h := range fn.Expressions {
		if covered[h] || needsNoEmit(fn.Expressions[h].Kind) {
			continue
		}
		if _, isResult := c.ord[ir.ExpressionHandle(h)]; isResult {
			continue
		}
		un = append(un, c.expr(ir.ExpressionHandle(h), 0))
	}
	r["Unemitted"] = un
	return r
}

func canonModule(m *ir.Module) (res any) {
	defer func() {
		if r := recover(); r != nil {
			res = map[string]any{"panic": fmt.Sprint(r)}
		}
	}()
	c := &canonizer{m: m, types: map[ir.TypeHandle]any{}}
	out := []any{}
	for i := range m.EntryPoints {
		ep := &m.EntryPoints[i]
		f := c.function(ep.Name, &ep.Function).(map[string]any)
		f["Stage"] = int(ep.Stage)
		f["Workgroup"] = []uint32{ep.Workgroup[0], ep.Workgroup[1], ep.Workgroup[2]}
		out = append(out, f)
	}
	for i := range m.Functions {
		out = append(out, c.function(m.Functions[i].Name, &m.Functions[i]))
	}
	gl := []any{}
	for i := range m.GlobalVariables {
		gv := &m.GlobalVariables[i]
		g := map[string]any{"_t": "GlobalVariable", "Name": gv.Name, "Type": c.typ(gv.Type, 0), "Space": common.Dump(gv.Space),
			"Binding": common.Dump(gv.Binding)}
		if gv.InitExpr != nil {
			g["InitExpr"] = c.globalExpr(*gv.InitExpr, 0)
		}
		gl = append(gl, g)
	}
	return map[string]any{"functions": out, "globals": gl}
}

// ---------------------------------------------------------------- comparison (done here: the canonical forms are large)

func briefCanon(x any, depth int) string {
	switch v := x.(type) {
	case map[string]any:
		t, _ := v["_t"].(string)
		if t == "Type" || depth > 3 {
			if t == "" {
				return "{..}"
			}
			return t
		}
		keys := make([]string, 0, len(v))
		for k := range v {
			if k != "_t" && k != "ty" {
				keys = append(keys, k)
			}
		}
		sort.Strings(keys)
		s := t + "("
		for i, k := range keys {
			if i > 0 {
				s += ", "
			}
			s += k + "=" + briefCanon(v[k], depth+1)
		}
		return s + ")"
	case []any:
		s := "["
		for i, e := range v {
			if i >= 6 {
				s += ", ..."
				break
			}
			if i > 0 {
				s += ", "
			}
			s += briefCanon(e, depth+1)
		}
		return s + "]"
	}
	return fmt.Sprint(x)
}

// first difference of two canonical forms: path of struct type.field names (no indices) and a description
func canonDiff(a, b any, path string) (string, string, bool) {
	switch x := a.(type) {
	case map[string]any:
		y, ok := b.(map[string]any)
		if !ok {
			return path, briefCanon(a, 0) + " vs " + briefCanon(b, 0), true
		}
		tn, _ := x["_t"].(string)
		tm, _ := y["_t"].(string)
		if tn != tm {
			return path, briefCanon(a, 0) + " vs " + briefCanon(b, 0), true
		}
		keys := make([]string, 0, len(x))
		for k := range x {
			keys = append(keys, k)
		}
		for k := range y {
			if _, ok := x[k]; !ok {
				keys = append(keys, k)
			}
		}
		sort.Strings(keys)
		for _, k := range keys {
			xv, okx := x[k]
			yv, oky := y[k]
			if !okx || !oky {
				return path + "/" + tn + "." + k, "field missing", true
			}
			if p, d, diff := canonDiff(xv, yv, path+"/"+tn+"."+k); diff {
				return p, d, true
			}
		}
		return "", "", false
	case []any:
		y, ok := b.([]any)
		if !ok {
			return path, briefCanon(a, 0) + " vs " + briefCanon(b, 0), true
		}
		for i := range x {
			if i >= len(y) {
				break
			}
			if p, d, diff := canonDiff(x[i], y[i], path); diff {
				return p, d, true
			}
		}
		if len(x) != len(y) {
			return path + "[len]", fmt.Sprintf("%d vs %d elements", len(x), len(y)), true
		}
		return "", "", false
	default:
		if !reflect.DeepEqual(a, b) {
			return path, briefCanon(a, 0) + " vs " + briefCanon(b, 0), true
		}
		return "", "", false
	}
}

func stripEmits(c any) any {
	switch v := c.(type) {
	case map[string]any:
		out := make(map[string]any, len(v))
		for k, e := range v {
			if k == "Unemitted" {
				continue
			}
			out[k] = stripEmits(e)
		}
		return out
	case []any:
		out := make([]any, 0, len(v))
		for _, e := range v {
			if m, ok := e.(map[string]any); ok {
				if t, _ := m["_t"].(string); t == "StmtEmit" {
					continue
				}
			}
			out = append(out, stripEmits(e))
		}
		return out
	}
	return c
}

func countUnemitted(c any) int {
	m, ok := c.(map[string]any)
	if !ok {
		return -1
	}
	fs, _ := m["functions"].([]any)
	n := 0
	for _, f := range fs {
		if fm, ok := f.(map[string]any); ok {
			if u, ok := fm["Unemitted"].([]any); ok {
				n += len(u)
			}
		}
	}
	return n
}

// compareCanon: reference (substituted program) vs a resolved module
func compareCanon(ref, got any) map[string]any {
	out := map[string]any{"unemitted_ref": countUnemitted(ref), "unemitted": countUnemitted(got)}
	if p, d, diff := canonDiff(ref, got, ""); diff {
		out["diff"] = []string{p, d}
	}
	if p, d, diff := canonDiff(stripEmits(ref), stripEmits(got), ""); diff {
		out["diff_noemit"] = []string{p, d}
	}
	return out
}
