// ifacedrive: compiles WGSL through naga with caller-supplied binding options
// for every back end (C17: resource bindings and stage interfaces).
//
//	ifacedrive compile {"id":..,"src":..,"want":["ir","spv","hlsl","msl","glsl"],"opts":{
//	   "spv":  [{"tag":"v13","version":0x0103,"force_point_size":false}, ...]   one output per entry
//	   "hlsl": [{"tag":"t","binding_map":[[group,binding,space,register],...] | null,
//	             "fake":bool, "shader_model": int (optional)}, ...]
//	   "msl":  [{"tag":"t","per_ep":{"<ep name>":{"resources":[[group,binding,buffer,texture,sampler]...],   slot -1 = unset
//	                                              "sizes_buffer": n (optional)}} | null, "fake":bool}, ...]
//	   "glsl": [{"tag":"t","version":[major,minor,es],"binding_map":[[group,binding,slot],...] | null,
//	             "sampler_base":n,"texture_base":n,"uniform_base":n,"storage_base":n,"entry_points":[names] (default all)}, ...]}}
//	-> {"stage","err"} on front-end failure, else
//	   {"ir":dump, "validate":[...],
//	    "spv":  {tag: {"words":[...]} | {"err":..}},
//	    "hlsl": {tag: {"text":..,"info":dump} | {"err":..}},
//	    "msl":  {tag: {"text":..,"info":dump} | {"err":..}},
//	    "glsl": {tag: {ep: {"text":..,"info":dump} | {"err":..}}}}
//
// Every job runs under recover().
package main

import (
	"encoding/binary"

	"verifharness/common"

	"github.com/gogpu/naga"
	"github.com/gogpu/naga/glsl"
	"github.com/gogpu/naga/hlsl"
	"github.com/gogpu/naga/ir"
	"github.com/gogpu/naga/msl"
	"github.com/gogpu/naga/spirv"
)

func main() {
	common.Main(map[string]common.Mode{"compile": doCompile})
}

func asList(v any) []any {
	l, _ := v.([]any)
	return l
}

func asMap(v any) map[string]any {
	m, _ := v.(map[string]any)
	return m
}

func asInt(v any) int {
	f, _ := v.(float64)
	return int(f)
}

func asBool(v any, def bool) bool {
	if b, ok := v.(bool); ok {
		return b
	}
	return def
}

func asStr(v any) string {
	s, _ := v.(string)
	return s
}

func ints(v any) []int {
	var out []int
	for _, x := range asList(v) {
		out = append(out, asInt(x))
	}
	return out
}

func doCompile(j *common.Job, res map[string]any) {
	src := j.Source()
	ast, err := naga.Parse(src)
	if err != nil {
		res["stage"] = "parse"
		res["err"] = err.Error()
		return
	}
	mod, err := naga.LowerWithSource(ast, src)
	if err != nil {
		res["stage"] = "lower"
		res["err"] = err.Error()
		return
	}
	if j.Wants("ir") {
		res["ir"] = common.Dump(mod)
	}
	if j.Wants("validate") {
		verrs, err := naga.Validate(mod)
		if err != nil {
			res["validate_err"] = err.Error()
		}
		vs := []string{}
		for _, e := range verrs {
			vs = append(vs, e.Error())
		}
		res["validate"] = vs
	}
	if j.Wants("spv") {
		outs := map[string]any{}
		for _, c := range asList(j.Opts["spv"]) {
			cfg := asMap(c)
			outs[asStr(cfg["tag"])] = runSpv(mod, cfg)
		}
		res["spv"] = outs
	}
	if j.Wants("hlsl") {
		outs := map[string]any{}
		for _, c := range asList(j.Opts["hlsl"]) {
			cfg := asMap(c)
			outs[asStr(cfg["tag"])] = protect(func() any { return runHlsl(mod, cfg) })
		}
		res["hlsl"] = outs
	}
	if j.Wants("msl") {
		outs := map[string]any{}
		for _, c := range asList(j.Opts["msl"]) {
			cfg := asMap(c)
			outs[asStr(cfg["tag"])] = protect(func() any { return runMsl(mod, cfg) })
		}
		res["msl"] = outs
	}
	if j.Wants("glsl") {
		outs := map[string]any{}
		for _, c := range asList(j.Opts["glsl"]) {
			cfg := asMap(c)
			outs[asStr(cfg["tag"])] = runGlsl(mod, cfg)
		}
		res["glsl"] = outs
	}
}

// protect turns a panic of one back end into {"panic": ...} so the others still report.
func protect(f func() any) (out any) {
	defer func() {
		if r := recover(); r != nil {
			out = map[string]any{"panic": common.Dump(r)}
		}
	}()
	return f()
}

func runSpv(mod *ir.Module, cfg map[string]any) any {
	return protect(func() any {
		o := spirv.DefaultOptions()
		if v := asInt(cfg["version"]); v != 0 {
			o.Version = spirv.Version{Major: uint8(v >> 8), Minor: uint8(v & 0xff)}
		}
		o.ForcePointSize = asBool(cfg["force_point_size"], false)
		b, err := naga.GenerateSPIRV(mod, o)
		if err != nil {
			return map[string]any{"err": err.Error()}
		}
		if len(b)%4 != 0 {
			return map[string]any{"err": "output length is not a multiple of 4"}
		}
		words := make([]uint32, len(b)/4)
		for i := range words {
			words[i] = binary.LittleEndian.Uint32(b[4*i:])
		}
		return map[string]any{"words": words}
	})
}

func runHlsl(mod *ir.Module, cfg map[string]any) any {
	o := hlsl.DefaultOptions()
	o.FakeMissingBindings = asBool(cfg["fake"], true)
	if sm, ok := cfg["shader_model"]; ok {
		o.ShaderModel = hlsl.ShaderModel(asInt(sm))
	}
	if bm, ok := cfg["binding_map"]; ok && bm != nil {
		o.BindingMap = map[hlsl.ResourceBinding]hlsl.BindTarget{}
		for _, e := range asList(bm) {
			t := ints(e)
			if len(t) != 4 {
				continue
			}
			o.BindingMap[hlsl.ResourceBinding{Group: uint32(t[0]), Binding: uint32(t[1])}] =
				hlsl.BindTarget{Space: uint8(t[2]), Register: uint32(t[3])}
		}
	} else if ok {
		o.BindingMap = nil
	}
	if sb, ok := cfg["sampler_buffer_map"]; ok && sb != nil {
		o.SamplerBufferBindingMap = map[uint32]hlsl.BindTarget{}
		for _, e := range asList(sb) {
			t := ints(e)
			if len(t) != 3 {
				continue
			}
			o.SamplerBufferBindingMap[uint32(t[0])] = hlsl.BindTarget{Space: uint8(t[1]), Register: uint32(t[2])}
		}
	}
	if fe, ok := cfg["fragment_ep"].(string); ok && fe != "" {
		// Options.FragmentEntryPoint: vertex outputs the named fragment entry point does not consume are stripped
		for i := range mod.EntryPoints {
			if mod.EntryPoints[i].Name == fe {
				o.FragmentEntryPoint = &hlsl.FragmentEntryPoint{Module: mod, Function: &mod.EntryPoints[i].Function}
			}
		}
	}
	s, info, err := hlsl.Compile(mod, o)
	if err != nil {
		return map[string]any{"err": err.Error()}
	}
	return map[string]any{"text": s, "info": common.Dump(info)}
}

func slot(v int) *uint8 {
	if v < 0 {
		return nil
	}
	u := uint8(v)
	return &u
}

func runMsl(mod *ir.Module, cfg map[string]any) any {
	o := msl.DefaultOptions()
	o.FakeMissingBindings = asBool(cfg["fake"], false)
	if pe, ok := cfg["per_ep"]; ok && pe != nil {
		o.PerEntryPointMap = map[string]msl.EntryPointResources{}
		for name, v := range asMap(pe) {
			m := asMap(v)
			r := msl.EntryPointResources{Resources: map[ir.ResourceBinding]msl.BindTarget{}}
			for _, e := range asList(m["resources"]) {
				t := ints(e)
				if len(t) != 5 {
					continue
				}
				bt := msl.BindTarget{Buffer: slot(t[2]), Texture: slot(t[3])}
				if t[4] >= 0 {
					bt.Sampler = &msl.BindSamplerTarget{Slot: uint8(t[4])}
				}
				r.Resources[ir.ResourceBinding{Group: uint32(t[0]), Binding: uint32(t[1])}] = bt
			}
			if sb, ok := m["sizes_buffer"]; ok {
				r.SizesBuffer = slot(asInt(sb))
			}
			o.PerEntryPointMap[name] = r
		}
	}
	s, info, err := msl.Compile(mod, o)
	if err != nil {
		return map[string]any{"err": err.Error()}
	}
	return map[string]any{"text": s, "info": common.Dump(info)}
}

func runGlsl(mod *ir.Module, cfg map[string]any) any {
	outs := map[string]any{}
	names := []string{}
	if l, ok := cfg["entry_points"]; ok && l != nil {
		for _, n := range asList(l) {
			names = append(names, asStr(n))
		}
	} else {
		for _, ep := range mod.EntryPoints {
			names = append(names, ep.Name)
		}
	}
	for _, name := range names {
		name := name
		outs[name] = protect(func() any {
			o := glsl.DefaultOptions()
			o.EntryPoint = name
			if v := ints(cfg["version"]); len(v) == 3 {
				o.LangVersion = glsl.Version{Major: uint8(v[0]), Minor: uint8(v[1]), ES: v[2] != 0}
			}
			o.SamplerBindingBase = uint32(asInt(cfg["sampler_base"]))
			o.TextureBindingBase = uint32(asInt(cfg["texture_base"]))
			o.UniformBindingBase = uint32(asInt(cfg["uniform_base"]))
			o.StorageBindingBase = uint32(asInt(cfg["storage_base"]))
			if bm, ok := cfg["binding_map"]; ok && bm != nil {
				o.BindingMap = map[glsl.BindingMapKey]uint8{}
				for _, e := range asList(bm) {
					t := ints(e)
					if len(t) != 3 {
						continue
					}
					o.BindingMap[glsl.BindingMapKey{Group: uint32(t[0]), Binding: uint32(t[1])}] = uint8(t[2])
				}
			}
			s, info, err := glsl.Compile(mod, o)
			if err != nil {
				return map[string]any{"err": err.Error()}
			}
			return map[string]any{"text": s, "info": common.Dump(info)}
		})
	}
	return outs
}
