// parsedrive: runs the WGSL lexer and parser of gogpu/naga (current /repo working tree, tag verif)
// through the public API and the existing hooks wgsl.VerifTokenize / (*wgsl.Module).VerifInner.
//
//	parsedrive parse {"id":..,"src"|"hex":..}
//
// Result: {"toks":[[kind,lexeme,line,column]..], "ast": reflection dump of the parser.Module without
// Span fields and without the per-kind lists, "proj": "" if those lists are the projections of Declarations} or {"toks":.., "err": text of the error returned by Parse (it carries the number of
// recorded errors and line/column of the first one)} or {"lexerr":..}.
package main

import (
	"reflect"

	"verifharness/common"

	"github.com/gogpu/naga/wgsl"
)

func main() {
	common.Main(map[string]common.Mode{"parse": doParse})
}

func stripSpans(v any) any {
	switch x := v.(type) {
	case map[string]any:
		delete(x, "Span")
		for k, e := range x {
			x[k] = stripSpans(e)
		}
		return x
	case []any:
		for i, e := range x {
			x[i] = stripSpans(e)
		}
		return x
	}
	return v
}

// projections checks, by pointer identity, that every per-kind list of parser.Module (Functions, Structs,
// GlobalVars, Constants, Aliases, Overrides) is the sub-list of Declarations of that dynamic type, in order;
// returns the name of the first list for which this fails ("" if none).
func projections(m any) string {
	v := reflect.ValueOf(m)
	for v.Kind() == reflect.Pointer || v.Kind() == reflect.Interface {
		if v.IsNil() {
			return "nil module"
		}
		v = v.Elem()
	}
	decls := v.FieldByName("Declarations")
	if !decls.IsValid() {
		return "Declarations"
	}
	for _, p := range [][2]string{{"Functions", "FunctionDecl"}, {"Structs", "StructDecl"}, {"GlobalVars", "VarDecl"},
		{"Constants", "ConstDecl"}, {"Aliases", "AliasDecl"}, {"Overrides", "OverrideDecl"}} {
		f := v.FieldByName(p[0])
		if !f.IsValid() {
			return p[0]
		}
		k := 0
		for i := 0; i < decls.Len(); i++ {
			d := decls.Index(i).Elem() // dynamic value (a pointer)
			if d.Kind() != reflect.Pointer || d.Type().Elem().Name() != p[1] {
				continue
			}
			if k >= f.Len() || f.Index(k).Pointer() != d.Pointer() {
				return p[0]
			}
			k++
		}
		if k != f.Len() {
			return p[0]
		}
	}
	return ""
}

func doParse(j *common.Job, res map[string]any) {
	src := j.Source()
	lt, err := wgsl.VerifTokenize(src)
	if err != nil {
		res["lexerr"] = err.Error()
		return
	}
	out := make([][]any, len(lt))
	for i, t := range lt {
		out[i] = []any{t.Kind, t.Lexeme, t.Line, t.Column}
	}
	res["toks"] = out
	toks, err := wgsl.NewLexer(src).Tokenize()
	if err != nil {
		res["lexerr"] = err.Error()
		return
	}
	m, err := wgsl.NewParser(toks).Parse()
	if err != nil {
		res["err"] = err.Error()
		return
	}
	inner := m.VerifInner()
	res["proj"] = projections(inner)
	d := stripSpans(common.Dump(inner))
	if dm, ok := d.(map[string]any); ok {
		for _, k := range []string{"Functions", "Structs", "GlobalVars", "Constants", "Aliases", "Overrides"} {
			delete(dm, k)
		}
	}
	res["ast"] = d
}
