// namerdrive (C16): drives the real namers of the three text backends through the
// `verif` hooks (hlsl|msl|glsl).VerifNamerRun with operation sequences given as JSON
// lines and prints the issued names, so that they can be compared with the
// extracted Coq model (coq/Namer/Namer.v) spelling by spelling.
//
//	namerdrive run  {"id":..,"data":{"backend":"hlsl|msl|glsl","ops":[["c",[cp..]],["r",[cp..]],["{"],["}"]]}}
//	  -> {"id":..,"out":[[cp..] | null, ...], "prefixes": "..."}      (cp = Unicode code points)
//
// Labels travel as code-point lists; they are turned into Go strings rune by rune
// (valid scalar values only; the generator never sends surrogates).
package main

import (
	"strings"

	"verifharness/common"

	"github.com/gogpu/naga/glsl"
	"github.com/gogpu/naga/hlsl"
	"github.com/gogpu/naga/msl"
)

func main() {
	common.Main(map[string]common.Mode{"run": doRun})
}

func label(v any) string {
	var b strings.Builder
	if l, ok := v.([]any); ok {
		for _, c := range l {
			if f, ok := c.(float64); ok {
				b.WriteRune(rune(int32(f)))
			}
		}
	}
	return b.String()
}

func doRun(j *common.Job, res map[string]any) {
	backend, _ := j.Data["backend"].(string)
	raw, _ := j.Data["ops"].([]any)
	ops := make([]string, 0, len(raw)+1)
	isCall := make([]bool, 0, len(raw))
	for _, o := range raw {
		l, _ := o.([]any)
		kind := ""
		if len(l) > 0 {
			kind, _ = l[0].(string)
		}
		switch kind {
		case "c", "r":
			var lab any
			if len(l) > 1 {
				lab = l[1]
			}
			ops = append(ops, kind+label(lab))
			isCall = append(isCall, kind == "c")
		case "{", "}":
			ops = append(ops, kind)
			isCall = append(isCall, false)
		default:
			res["err"] = "bad op"
			return
		}
	}
	var out []string
	switch backend {
	case "hlsl":
		out = hlsl.VerifNamerRun(append(ops, "?prefixes"))
		res["prefixes"] = out[len(out)-1]
		out = out[:len(out)-1]
	case "msl":
		out = msl.VerifNamerRun(ops)
	case "glsl":
		out = glsl.VerifNamerRun(ops)
	default:
		res["err"] = "bad backend"
		return
	}
	names := make([]any, len(out))
	for i, s := range out {
		if !isCall[i] {
			names[i] = nil
			continue
		}
		cps := make([]int, 0, len(s))
		for _, r := range s {
			cps = append(cps, int(r))
		}
		names[i] = cps
	}
	res["out"] = names
}
