// hlsldrive (property C03): compile WGSL to HLSL with a chosen hlsl.Options set.
//
//	hlsldrive compile {"id":..,"src":..,"opts":{"sm":51|60|..,"restrict_indexing":bool,"force_loop_bounding":bool,
//	                   "zero_init_workgroup":bool}, "want":["ir"]}
//	  -> {"hlsl": text, "hlsl_info": dump, "ir": dump (the module handed to hlsl.Compile, dumped BEFORE the backend ran),
//	      "validate": [...]} or {"stage": "parse"|"lower", "err": ...} / {"hlsl_err": ...}
//
// Every job runs under recover().
package main

import (
	"verifharness/common"

	"github.com/gogpu/naga"
	"github.com/gogpu/naga/hlsl"
)

func main() {
	common.Main(map[string]common.Mode{"compile": doCompile})
}

func smOf(v int) hlsl.ShaderModel {
	switch v {
	case 50:
		return hlsl.ShaderModel5_0
	case 51:
		return hlsl.ShaderModel5_1
	case 60:
		return hlsl.ShaderModel6_0
	case 61:
		return hlsl.ShaderModel6_1
	case 62:
		return hlsl.ShaderModel6_2
	case 63:
		return hlsl.ShaderModel6_3
	case 64:
		return hlsl.ShaderModel6_4
	case 65:
		return hlsl.ShaderModel6_5
	case 66:
		return hlsl.ShaderModel6_6
	case 67:
		return hlsl.ShaderModel6_7
	}
	return hlsl.ShaderModel5_1
}

func doCompile(j *common.Job, res map[string]any) {
	src := j.Source()
	ast, err := naga.Parse(src)
	if err != nil {
		res["stage"] = "parse"
		res["err"] = err.Error()
		return
	}
	mod, err := naga.LowerWithSource(ast, src)
	if err != nil {
		res["stage"] = "lower"
		res["err"] = err.Error()
		return
	}
	if j.Wants("validate") {
		verrs, err := naga.Validate(mod)
		if err != nil {
			res["validate_err"] = err.Error()
		}
		vs := []string{}
		for _, e := range verrs {
			vs = append(vs, e.Error())
		}
		res["validate"] = vs
	}
	if j.Wants("ir") {
		res["ir"] = common.Dump(mod)
	}
	o := hlsl.DefaultOptions()
	o.ShaderModel = smOf(j.OptInt("sm", 51))
	o.RestrictIndexing = j.OptBool("restrict_indexing", o.RestrictIndexing)
	o.ForceLoopBounding = j.OptBool("force_loop_bounding", o.ForceLoopBounding)
	o.ZeroInitializeWorkgroupMemory = j.OptBool("zero_init_workgroup", o.ZeroInitializeWorkgroupMemory)
	o.FakeMissingBindings = j.OptBool("fake_missing_bindings", o.FakeMissingBindings)
	if ep := j.OptString("entry_point", ""); ep != "" {
		o.EntryPoint = ep
	}
	s, info, err := hlsl.Compile(mod, o)
	if err != nil {
		res["hlsl_err"] = err.Error()
		return
	}
	res["hlsl"] = s
	res["hlsl_info"] = common.Dump(info)
	if j.Wants("ir_after") {
		res["ir_after"] = common.Dump(mod)
	}
}
