// passdrive: applies naga's IR-to-IR passes (current /repo working tree, tag
// verif) to WGSL programs and reports the IR before and after (C13).
//
//	passdrive run  {"id":..,"src":..,"data":{"passes":[name..]}}
//
// For every requested pass P the module is lowered afresh, P is applied, the
// reflection dump is taken (AFTER), P is applied again (AFTER2).  Result:
//
//	{"before": dump, "before_raw": dump, "before_raw_fin": dump,
//	 "validate_before": [...],
//	 "passes": {name: {"after": dump | "same": true, "after2_same": bool, "after2": dump?,
//	                    "after_fin": dump (raw passes: AFTER followed by the lowerer's finish step),
//	                    "before": dump (only if the module this pass was applied to differs from the first lowering),
//	                    "err": "...", "validate": [...]}}}
//
// Pass names.  On the lowered module (what naga.Lower returns):
//
//	compact_unused compact_types reorder_types compact_constants
//	compact_expressions dedup_emits inline            (ir/compact.go, ir/inline.go)
//	unused_pipeline   = CompactUnused; CompactConstants; CompactExpressions; CompactTypes; ReorderTypes
//	dxil_prepare dxil sroa mem2reg dce dxil_opt       (package dxil through verif_hooks_c13.go)
//	stage:sroa stage:mem2reg stage:dce                 one pass of runOptPasses applied to the module the
//	                                                   preceding stages of dxil.Compile produce (its own "before" is reported)
//
// On the raw module (lowering stopped before its trailing passes, through
// wgsl.VerifLowerRaw): raw:compact_constants raw:compact_expressions
// raw:compact_types raw:reorder_types raw:dedup_emits raw:lower_pipeline.
package main

import (
	"bytes"
	"encoding/json"
	"strings"

	"verifharness/common"

	"github.com/gogpu/naga"
	"github.com/gogpu/naga/dxil"
	"github.com/gogpu/naga/ir"
	"github.com/gogpu/naga/wgsl"
)

type job = common.Job

func main() {
	common.Main(map[string]common.Mode{"run": doRun})
}

// applyPass runs pass `name` on m (in place where the pass is in place);
// returns the resulting module.
func applyPass(name string, m *ir.Module) (*ir.Module, error) {
	switch name {
	case "compact_unused":
		ir.CompactUnused(m)
	case "compact_types":
		ir.CompactTypes(m)
	case "reorder_types":
		ir.ReorderTypes(m)
	case "compact_constants":
		ir.CompactConstants(m)
	case "compact_expressions":
		ir.CompactExpressions(m)
	case "dedup_emits":
		ir.DeduplicateEmits(m)
	case "inline":
		if err := ir.InlineUserFunctions(m, nil); err != nil {
			return nil, err
		}
	case "unused_pipeline":
		ir.CompactUnused(m)
		ir.CompactConstants(m)
		ir.CompactExpressions(m)
		ir.CompactTypes(m)
		ir.ReorderTypes(m)
	case "lower_pipeline":
		ir.CompactConstants(m)
		ir.CompactExpressions(m)
		ir.CompactTypes(m)
		ir.ReorderTypes(m)
		ir.DeduplicateEmits(m)
	case "dxil_prepare":
		return dxil.VerifPrepareModule(m)
	case "dxil":
		return dxil.VerifPrepareAndOptimize(m, dxil.DefaultOptions())
	case "dxil_opt":
		if err := dxil.VerifRunOptPasses(m); err != nil {
			return nil, err
		}
	case "sroa", "mem2reg", "dce":
		if err := dxil.VerifRunPass(m, name); err != nil {
			return nil, err
		}
	default:
		return nil, errUnknown(name)
	}
	return m, nil
}

type errUnknown string

func (e errUnknown) Error() string { return "unknown pass " + string(e) }

func marshal(v any) []byte {
	b, err := json.Marshal(v)
	if err != nil {
		return []byte("\"<<marshal error: " + err.Error() + ">>\"")
	}
	return b
}

func validate(m *ir.Module) []string {
	verrs, err := naga.Validate(m)
	vs := []string{}
	if err != nil {
		vs = append(vs, "error: "+err.Error())
	}
	for _, e := range verrs {
		vs = append(vs, e.Error())
	}
	return vs
}

func doRun(j *job, res map[string]any) {
	src := j.Source()
	var passes []string
	if ps, ok := j.Data["passes"].([]any); ok {
		for _, p := range ps {
			if s, ok := p.(string); ok {
				passes = append(passes, s)
			}
		}
	}
	lower := func() (*ir.Module, error) {
		ast, err := naga.Parse(src)
		if err != nil {
			return nil, err
		}
		return naga.LowerWithSource(ast, src)
	}
	lowerRaw := func() (*ir.Module, func(), error) {
		ast, err := naga.Parse(src)
		if err != nil {
			return nil, nil, err
		}
		return wgsl.VerifLowerRaw(ast, src)
	}

	base, err := lower()
	if err != nil {
		res["stage"] = "lower"
		res["err"] = err.Error()
		return
	}
	beforeJS := marshal(common.Dump(base))
	res["before"] = json.RawMessage(beforeJS)
	res["validate_before"] = validate(base)

	var rawJS []byte
	wantRaw := false
	for _, p := range passes {
		if strings.HasPrefix(p, "raw:") {
			wantRaw = true
		}
	}
	if wantRaw {
		rm, fin, err := lowerRaw()
		if err != nil {
			res["raw_err"] = err.Error()
			wantRaw = false
		} else {
			rawJS = marshal(common.Dump(rm))
			res["before_raw"] = json.RawMessage(rawJS)
			func() {
				defer func() {
					if r := recover(); r != nil {
						res["raw_fin_panic"] = sprint(r)
					}
				}()
				fin()
				res["before_raw_fin"] = json.RawMessage(marshal(common.Dump(rm)))
			}()
		}
	}

	out := map[string]any{}
	res["passes"] = out
	for _, p := range passes {
		pr := map[string]any{}
		out[p] = pr
		func() {
			defer func() {
				if r := recover(); r != nil {
					pr["panic"] = sprint(r)
				}
			}()
			raw := strings.HasPrefix(p, "raw:")
			name := strings.TrimPrefix(p, "raw:")
			var m *ir.Module
			var fin func()
			var cmp []byte
			if strings.HasPrefix(p, "stage:") {
				name = strings.TrimPrefix(p, "stage:")
				m0, err := lower()
				if err != nil {
					pr["err"] = err.Error()
					return
				}
				m, err = dxil.VerifPrepareModule(m0)
				if err != nil {
					pr["err"] = "prepare: " + err.Error()
					return
				}
				for _, st := range []string{"sroa", "mem2reg", "dce"} {
					if st == name {
						break
					}
					if err := dxil.VerifRunPass(m, st); err != nil {
						pr["err"] = st + ": " + err.Error()
						return
					}
				}
				cmp = marshal(common.Dump(m))
				pr["before"] = json.RawMessage(cmp)
			} else if raw {
				if !wantRaw {
					pr["err"] = "raw lowering unavailable"
					return
				}
				var err error
				m, fin, err = lowerRaw()
				if err != nil {
					pr["err"] = err.Error()
					return
				}
				// BEFORE is the dump of the very module the pass is applied to: two lowerings of one source
				// need not be identical (the lowerer names unused let bindings in map iteration order)
				cmp = marshal(common.Dump(m))
				if !bytes.Equal(cmp, rawJS) {
					pr["before"] = json.RawMessage(cmp)
				}
			} else {
				var err error
				m, err = lower()
				if err != nil {
					pr["err"] = err.Error()
					return
				}
				cmp = marshal(common.Dump(m))
				if !bytes.Equal(cmp, beforeJS) {
					pr["before"] = json.RawMessage(cmp)
				}
			}
			m1, err := applyPass(name, m)
			if err != nil {
				pr["err"] = err.Error()
				return
			}
			a1 := marshal(common.Dump(m1))
			if bytes.Equal(a1, cmp) {
				pr["same"] = true
			} else {
				pr["after"] = json.RawMessage(a1)
			}
			if !raw {
				pr["validate"] = validate(m1)
			}
			// second application (idempotence)
			func() {
				defer func() {
					if r := recover(); r != nil {
						pr["panic2"] = sprint(r)
					}
				}()
				m2, err := applyPass(name, m1)
				if err != nil {
					pr["err2"] = err.Error()
					return
				}
				a2 := marshal(common.Dump(m2))
				if bytes.Equal(a2, a1) {
					pr["after2_same"] = true
				} else {
					pr["after2_same"] = false
					pr["after2"] = json.RawMessage(a2)
				}
			}()
			if raw {
				// finish on a module that saw the pass exactly once
				m3, fin3, err := lowerRaw()
				_ = fin
				if err != nil {
					pr["err"] = err.Error()
					return
				}
				if _, err := applyPass(name, m3); err != nil {
					pr["err"] = err.Error()
					return
				}
				fin3()
				pr["after_fin"] = json.RawMessage(marshal(common.Dump(m3)))
				pr["validate"] = validate(m3)
			}
		}()
	}
}

func sprint(r any) string {
	if e, ok := r.(error); ok {
		return e.Error()
	}
	if s, ok := r.(string); ok {
		return s
	}
	b, _ := json.Marshal(r)
	return string(b)
}
