// c11drive: for property C11 — runs every public front-end entry of gogpu/naga
// (current working tree, tag verif) on a source text and reports, per stage,
// whether it was rejected, the reported line:column (the public observable:
// the "L:C:" / "line L, column C" part of the error text) and whether any
// stage produced output.
//
//	c11drive diag {"id":..,"src":..} ->
//	  {"stage": "parse"|"lower"|"validate"|"spirv"|"" (accepted),
//	   "err": text (for humans; never compared), "pos": [line, col] | null,
//	   "compile_rejected": bool, "compile_bytes": n, "compile_err": text, "compile_pos": [l,c]|null,
//	   "outputs": {"spv": n, "hlsl": n, "msl": n, "glsl": n}   (sizes of outputs produced by the step-by-step API) }
package main

import (
	"bytes"
	"crypto/sha1"
	"encoding/hex"
	"regexp"
	"strconv"

	"verifharness/common"

	"github.com/gogpu/naga"
	"github.com/gogpu/naga/glsl"
	"github.com/gogpu/naga/hlsl"
	"github.com/gogpu/naga/msl"
	"github.com/gogpu/naga/spirv"
	"github.com/gogpu/naga/wgsl"
)

func main() {
	common.Main(map[string]common.Mode{"diag": doDiag, "lex": doLex})
}

var reParse = regexp.MustCompile(`line (-?\d+), column (-?\d+)`)
var reLower = regexp.MustCompile(`^(?:[a-zA-Z ]*: )*?(-?\d+):(-?\d+): `)

func position(msg string) any {
	if m := reLower.FindStringSubmatch(msg); m != nil {
		l, _ := strconv.Atoi(m[1])
		c, _ := strconv.Atoi(m[2])
		return []int{l, c}
	}
	if m := reParse.FindStringSubmatch(msg); m != nil {
		l, _ := strconv.Atoi(m[1])
		c, _ := strconv.Atoi(m[2])
		return []int{l, c}
	}
	return nil
}

// fingerprint of the real lexer's token stream (lexemes and positions), so that the
// generator's by-construction token positions are checked on every program
func lexFingerprint(src string, res map[string]any) {
	toks, err := wgsl.VerifTokenize(src)
	if err != nil {
		res["lex_err"] = err.Error()
		return
	}
	var buf bytes.Buffer
	n := 0
	for _, t := range toks {
		if t.Name == "EOF" {
			res["eof_pos"] = []int{t.Line, t.Column}
			continue
		}
		n++
		buf.WriteString(t.Lexeme)
		buf.WriteByte(0)
		buf.WriteString(strconv.Itoa(t.Line))
		buf.WriteByte(':')
		buf.WriteString(strconv.Itoa(t.Column))
		buf.WriteByte(1)
	}
	sum := sha1.Sum(buf.Bytes())
	res["ntok"] = n
	res["lex_fp"] = hex.EncodeToString(sum[:])
}

func doLex(j *common.Job, res map[string]any) {
	toks, err := wgsl.VerifTokenize(j.Source())
	if err != nil {
		res["lex_err"] = err.Error()
		return
	}
	out := make([][]any, 0, len(toks))
	for _, t := range toks {
		out = append(out, []any{t.Lexeme, t.Name, t.Line, t.Column})
	}
	res["toks"] = out
}

func doDiag(j *common.Job, res map[string]any) {
	src := j.Source()
	lexFingerprint(src, res)
	// 1. the one-call API
	func() {
		defer func() {
			if r := recover(); r != nil {
				res["compile_panic"] = true
			}
		}()
		b, err := naga.Compile(src)
		res["compile_bytes"] = len(b)
		res["compile_rejected"] = err != nil
		if err != nil {
			res["compile_err"] = err.Error()
			res["compile_pos"] = position(err.Error())
		}
	}()
	// 2. the step-by-step API
	outs := map[string]int{}
	res["outputs"] = outs
	res["stage"] = ""
	ast, err := naga.Parse(src)
	if err != nil {
		res["stage"] = "parse"
		res["err"] = err.Error()
		res["pos"] = position(err.Error())
		res["ast_nonnil"] = ast != nil
		return
	}
	mod, err := naga.LowerWithSource(ast, src)
	if err != nil {
		res["stage"] = "lower"
		res["err"] = err.Error()
		res["pos"] = position(err.Error())
		res["mod_nonnil"] = mod != nil
		return
	}
	verrs, verr := naga.Validate(mod)
	if verr != nil || len(verrs) > 0 {
		res["stage"] = "validate"
		if verr != nil {
			res["err"] = verr.Error()
		} else {
			res["err"] = verrs[0].Error()
		}
		res["pos"] = position(res["err"].(string))
		// a caller that skips Validate: do the back ends still emit?
	}
	if b, err := naga.GenerateSPIRV(mod, spirv.DefaultOptions()); err == nil {
		outs["spv"] = len(b)
	} else if res["stage"] == "" {
		res["stage"] = "spirv"
		res["err"] = err.Error()
		res["pos"] = position(err.Error())
	}
	if j.Wants("text") {
		func() {
			defer func() { recover() }()
			if s, _, err := hlsl.Compile(mod, hlsl.DefaultOptions()); err == nil {
				outs["hlsl"] = len(s)
			}
		}()
		func() {
			defer func() { recover() }()
			if s, _, err := msl.Compile(mod, msl.DefaultOptions()); err == nil {
				outs["msl"] = len(s)
			}
		}()
		func() {
			defer func() { recover() }()
			n := 0
			for _, ep := range mod.EntryPoints {
				o := glsl.DefaultOptions()
				o.EntryPoint = ep.Name
				if s, _, err := glsl.Compile(mod, o); err == nil {
					n += len(s)
				}
			}
			if n > 0 {
				outs["glsl"] = n
			}
		}()
	}
}
