// spvextract: reads spirv/internal/codegen/writer.go and block.go of the naga tree given
// as argv[1] with go/ast and prints, as one JSON object, what the C02 proofs are tied to:
//
//	build_order   the section slices in the order Build() writes them
//	header_order  the five header words in the order Build() writes them
//	bound_rhs     right-hand side of `b.bound = ...` in Build()
//	appends       [method, field, opcode] for every `b.<field> = append(b.<field>, ...Build(<opcode>)...)`
//	              and `inst := ...Build(<opcode>); b.<field> = &inst` in a *ModuleBuilder method
//	func_appends  [method, opcode] for every b.funcAppend(...Build(<opcode>)...)
//	src           normalised source text of AllocID, Consume, ToInstructions, Push, WriteTo, versionToWord
package main

import (
	"bytes"
	"encoding/json"
	"fmt"
	"go/ast"
	"go/parser"
	"go/printer"
	"go/token"
	"os"
	"path/filepath"
	"strings"
)

var fset = token.NewFileSet()

func src(n ast.Node) string {
	var b bytes.Buffer
	printer.Fprint(&b, fset, n)
	return b.String()
}

func norm(s string) string {
	return strings.Join(strings.Fields(s), " ")
}

func recvName(fd *ast.FuncDecl) string {
	if fd.Recv == nil || len(fd.Recv.List) == 0 {
		return ""
	}
	t := fd.Recv.List[0].Type
	if st, ok := t.(*ast.StarExpr); ok {
		t = st.X
	}
	if id, ok := t.(*ast.Ident); ok {
		return id.Name
	}
	return ""
}

// opcode argument of the first `.Build(x)` call inside n ("" if none)
func buildOpcode(n ast.Node) string {
	res := ""
	ast.Inspect(n, func(m ast.Node) bool {
		if res != "" {
			return false
		}
		if c, ok := m.(*ast.CallExpr); ok {
			if sel, ok := c.Fun.(*ast.SelectorExpr); ok && sel.Sel.Name == "Build" && len(c.Args) == 1 {
				res = src(c.Args[0])
				return false
			}
		}
		return true
	})
	return res
}

func fail(f string, a ...any) {
	fmt.Fprintf(os.Stderr, "spvextract: "+f+"\n", a...)
	os.Exit(3)
}

func main() {
	root := os.Args[1]
	out := map[string]any{}
	srcs := map[string]string{}
	var appends, funcAppends [][]string
	for _, rel := range []string{"spirv/internal/codegen/writer.go", "spirv/internal/codegen/block.go"} {
		f, err := parser.ParseFile(fset, filepath.Join(root, rel), nil, 0)
		if err != nil {
			fail("parse %s: %v", rel, err)
		}
		for _, d := range f.Decls {
			fd, ok := d.(*ast.FuncDecl)
			if !ok || fd.Body == nil {
				continue
			}
			rn := recvName(fd)
			key := fd.Name.Name
			if rn != "" {
				key = rn + "." + key
			}
			switch key {
			case "ModuleBuilder.AllocID", "FunctionBuilder.Consume", "FunctionBuilder.ToInstructions", "Block.Push",
				"Instruction.WriteTo", "versionToWord", "NewBlock", "makeLabelInstruction":
				srcs[key] = norm(src(fd.Body))
			}
			if rn != "ModuleBuilder" {
				continue
			}
			if fd.Name.Name == "Build" {
				var order, header []string
				bound := ""
				writing := false
				ast.Inspect(fd.Body, func(n ast.Node) bool {
					switch x := n.(type) {
					case *ast.AssignStmt:
						if len(x.Lhs) == 1 && src(x.Lhs[0]) == "b.bound" {
							bound = src(x.Rhs[0])
						}
					case *ast.CallExpr:
						fn := src(x.Fun)
						if fn == "binary.LittleEndian.PutUint32" && len(x.Args) == 2 {
							header = append(header, norm(src(x.Args[1])))
							writing = true
						}
						if (fn == "writeInstructions" || fn == "writeInstruction") && len(x.Args) == 3 && writing {
							order = append(order, strings.TrimPrefix(strings.TrimPrefix(src(x.Args[2]), "*"), "b."))
						}
					}
					return true
				})
				out["build_order"] = order
				out["header_order"] = header
				out["bound_rhs"] = bound
				continue
			}
			// appends to section slices
			var pending = map[string]string{} // local var -> opcode (inst := b.ib.Build(OpX))
			ast.Inspect(fd.Body, func(n ast.Node) bool {
				switch x := n.(type) {
				case *ast.AssignStmt:
					if len(x.Lhs) == 1 && len(x.Rhs) == 1 {
						lhs := src(x.Lhs[0])
						if id, ok := x.Lhs[0].(*ast.Ident); ok {
							if op := buildOpcode(x.Rhs[0]); op != "" {
								pending[id.Name] = op
							}
						}
						if strings.HasPrefix(lhs, "b.") {
							field := strings.TrimPrefix(lhs, "b.")
							if c, ok := x.Rhs[0].(*ast.CallExpr); ok && src(c.Fun) == "append" && len(c.Args) >= 2 && src(c.Args[0]) == lhs {
								for _, a := range c.Args[1:] {
									op := buildOpcode(a)
									if op == "" {
										if id, ok := a.(*ast.Ident); ok {
											op = pending[id.Name]
										}
									}
									if op == "" {
										op = "?" + norm(src(a))
									}
									appends = append(appends, []string{fd.Name.Name, field, op})
								}
							} else if u, ok := x.Rhs[0].(*ast.UnaryExpr); ok && u.Op == token.AND {
								if id, ok := u.X.(*ast.Ident); ok && pending[id.Name] != "" {
									appends = append(appends, []string{fd.Name.Name, field, pending[id.Name]})
								}
							}
						}
					}
				case *ast.CallExpr:
					if src(x.Fun) == "b.funcAppend" && len(x.Args) == 1 {
						op := buildOpcode(x.Args[0])
						if op == "" {
							if id, ok := x.Args[0].(*ast.Ident); ok {
								op = pending[id.Name]
							}
						}
						if op == "" {
							op = "?" + norm(src(x.Args[0]))
						}
						funcAppends = append(funcAppends, []string{fd.Name.Name, op})
					}
				}
				return true
			})
		}
	}
	out["appends"] = appends
	out["func_appends"] = funcAppends
	out["src"] = srcs
	json.NewEncoder(os.Stdout).Encode(out)
}
