// histdrive pconst: C12 monitors for the operations that take pipeline constants, on modules
// that declare `override`s.
//
//	histdrive pconst {"id","src","data":{"ops":[op..],"repeat":K,"heal":bool}}
//
//	op = {"t": target, "via": "" | "opt" | "po", "pc": {key: number | "nan" | "inf" | "-inf"} | null, "then": [target..]}
//	  via ""    the plain back end `t` (no constants), as in mode perm
//	  via "opt" msl.Compile / glsl.Compile (every entry point) with Options.PipelineConstants = pc
//	  via "po"  clone := ir.CloneModuleForOverrides(mod); ir.ProcessOverrides(clone, pc); then every back end of
//	            `then` (no constants) on the processed clone, in that order
//
// All ops run in the given order on ONE module.  After every call: (a) deep digest of the caller's module
// (and, for "po", of the processed clone across the back ends that follow), (b) deep digest of the Options
// value including the PipelineConstants map / of the constants map handed to ProcessOverrides, (c) the output is
// compared with the output of the same operation on a freshly lowered module (for "po": ProcessOverrides run
// IN PLACE on a freshly lowered module, then that one back end alone), (d) that reference is computed K times
// on fresh modules before the history and once more after it, and must be the same every time.
// Observables: digests of output bytes / translation info / processed module; failures are "ERR"/"PANIC".
package main

import (
	"fmt"
	"math"
	"regexp"
	"sort"
	"strconv"
	"strings"

	"github.com/gogpu/naga/glsl"
	"github.com/gogpu/naga/ir"
	"github.com/gogpu/naga/msl"
)

type pcOp struct {
	T    string
	Via  string
	PC   map[string]float64 // nil = absent
	Then []string
}

func parsePC(v any) map[string]float64 {
	m, ok := v.(map[string]any)
	if !ok {
		return nil
	}
	out := make(map[string]float64, len(m))
	for k, x := range m {
		switch y := x.(type) {
		case float64:
			out[k] = y
		case string:
			f, err := strconv.ParseFloat(y, 64)
			if err != nil {
				f = math.NaN()
			}
			out[k] = f
		}
	}
	return out
}

func parseOps(j *job) []pcOp {
	var ops []pcOp
	xs, _ := j.Data["ops"].([]any)
	for _, x := range xs {
		m, ok := x.(map[string]any)
		if !ok {
			continue
		}
		op := pcOp{}
		op.T, _ = m["t"].(string)
		op.Via, _ = m["via"].(string)
		op.PC = parsePC(m["pc"])
		if ts, ok := m["then"].([]any); ok {
			for _, t := range ts {
				if s, ok := t.(string); ok {
					op.Then = append(op.Then, s)
				}
			}
		}
		ops = append(ops, op)
	}
	return ops
}

// pcText: canonical text of a constants map (part of the identity of an operation).
func pcText(pc map[string]float64) string {
	if pc == nil {
		return "-"
	}
	ks := make([]string, 0, len(pc))
	for k := range pc {
		ks = append(ks, k)
	}
	sort.Strings(ks)
	var sb strings.Builder
	sb.WriteString("{")
	for i, k := range ks {
		if i > 0 {
			sb.WriteString(",")
		}
		fmt.Fprintf(&sb, "%s=%x", k, math.Float64bits(pc[k]))
	}
	sb.WriteString("}")
	return sb.String()
}

func copyPC(pc map[string]float64) map[string]float64 {
	if pc == nil {
		return nil
	}
	out := make(map[string]float64, len(pc))
	for k, v := range pc {
		out[k] = v
	}
	return out
}

// label of an operation for keys: what was called, not with which values.
func (op pcOp) label() string {
	switch op.Via {
	case "opt":
		return op.T + "+pc"
	case "po":
		return "po"
	}
	return op.T
}

// runOpt: msl / glsl with Options.PipelineConstants = pc.  Returns the output digest and whether the Options value
// (incl. the map) is the same after the call.
func runOpt(target string, mod *ir.Module, pc map[string]float64) (out string, optsSame bool) {
	optsSame = true
	defer func() {
		if r := recover(); r != nil {
			out = "PANIC"
		}
	}()
	switch target {
	case "msl":
		o := msl.DefaultOptions()
		o.PipelineConstants = copyPC(pc)
		ob := hashValue(o)
		s, info, err := msl.Compile(mod, o)
		optsSame = ob == hashValue(o) && pcText(o.PipelineConstants) == pcText(pc)
		if err != nil {
			return "ERR", optsSame
		}
		return digest([]byte(s)) + "/" + hashValue(info), optsSame
	case "glsl":
		var parts []string
		for i := range mod.EntryPoints {
			o := glsl.DefaultOptions()
			o.EntryPoint = mod.EntryPoints[i].Name
			o.PipelineConstants = ir.PipelineConstants(copyPC(pc))
			ob := hashValue(o)
			s, info, err := glsl.Compile(mod, o)
			if ob != hashValue(o) || pcText(o.PipelineConstants) != pcText(pc) {
				optsSame = false
			}
			if err != nil {
				parts = append(parts, "ERR")
				continue
			}
			parts = append(parts, digest([]byte(s))+"/"+hashValue(info))
		}
		return strings.Join(parts, ","), optsSame
	}
	return "ERR:no-constants-option:" + target, true
}

// process: ir.ProcessOverrides under recover(); class "" on success.
func process(m *ir.Module, pc map[string]float64) (class string) {
	defer func() {
		if r := recover(); r != nil {
			class = "PANIC"
		}
	}()
	if err := ir.ProcessOverrides(m, ir.PipelineConstants(pc)); err != nil {
		return "ERR"
	}
	return ""
}

func cloneForOverrides(m *ir.Module) (c *ir.Module) {
	defer func() {
		if r := recover(); r != nil {
			c = nil
		}
	}()
	return ir.CloneModuleForOverrides(m)
}

var digitsRe = regexp.MustCompile(`\[\d+\]`)

// site: the place of a module difference without indices ("module.EntryPoints[].Function.Body[].Kind.Value").
func site(path string) string {
	if i := strings.Index(path, ": "); i >= 0 {
		path = path[:i]
	}
	return digitsRe.ReplaceAllString(path, "[]")
}

func sitesOf(paths []string) []string {
	seen := map[string]bool{}
	var out []string
	for _, p := range paths {
		s := site(p)
		if !seen[s] {
			seen[s] = true
			out = append(out, s)
		}
	}
	sort.Strings(out)
	return out
}

var nestedRe = regexp.MustCompile(`\.(Body|Continuing|Accept|Reject|Block|Cases)\[\]`)

// mutationClass names WHERE a caller's module was written, coarsely enough to be stable across programs:
//
//	nested-block       inside a block nested in an if/switch/loop/block statement of a function body
//	call-arguments     the Arguments slice of a top-level call statement
//	statement-pointer  any other field of a top-level statement (the top-level Body slice of a clone is a copy,
//	                   so such a write went through a pointer field: Return.Value, Call.Result, Atomic.Result, ...)
//	other:<site>       anywhere else (arenas, globals, overrides, ...)
func mutationClass(site string) string {
	s := strings.TrimPrefix(site, "module.")
	fn := ""
	switch {
	case strings.HasPrefix(s, "Functions[]."):
		fn = s[len("Functions[]."):]
	case strings.HasPrefix(s, "EntryPoints[].Function."):
		fn = s[len("EntryPoints[].Function."):]
	default:
		return "other:" + s
	}
	if !strings.HasPrefix(fn, "Body[].") {
		return "other:" + s
	}
	rest := fn[len("Body[]"):]
	switch {
	case nestedRe.MatchString(rest):
		return "nested-block"
	case strings.Contains(rest, ".Kind.Arguments[]"):
		return "call-arguments"
	}
	return "statement-pointer"
}

func classesOf(paths []string) []string {
	seen := map[string]bool{}
	var out []string
	for _, p := range paths {
		c := mutationClass(site(p))
		if !seen[c] {
			seen[c] = true
			out = append(out, c)
		}
	}
	sort.Strings(out)
	return out
}

func doPConst(j *job, res map[string]any) {
	src := j.Source()
	ops := parseOps(j)
	repeat := dataInt(j, "repeat", 2)
	if repeat < 1 {
		repeat = 1
	}
	heal := dataBool(j, "heal")
	ref, cls := lower(src)
	if ref == nil {
		res["frontend"] = cls
		return
	}
	pristine := hashValue(ref)
	res["overrides"] = len(ref.Overrides)
	mod, _ := lower(src)
	if mod == nil || hashValue(mod) != pristine {
		res["lower_unstable"] = diffValues(ref, mod, 6)
		return
	}
	var bad, steps []any
	unstableSeen := map[string]bool{}

	// reference of one operation: on a freshly lowered module, K times
	refOut := map[string]string{}
	type refRun struct {
		key string
		run func(m *ir.Module) string
	}
	var refRuns []refRun
	reference := func(key string, run func(m *ir.Module) string) string {
		if r, ok := refOut[key]; ok {
			return r
		}
		refRuns = append(refRuns, refRun{key, run})
		first := ""
		for r := 0; r < repeat; r++ {
			m, _ := lower(src)
			if m == nil {
				first = "ERR:lower"
				break
			}
			o := run(m)
			if r == 0 {
				first = o
			} else if o != first && !unstableSeen[key] {
				unstableSeen[key] = true
				bad = append(bad, map[string]any{"kind": "unstable", "op": key, "label": strings.SplitN(key, " ", 2)[0]})
			}
		}
		refOut[key] = first
		return first
	}
	// in-place ProcessOverrides on a fresh module, then one back end (or none: digest of the processed module)
	poRef := func(pc map[string]float64, then string) string {
		key := "po " + pcText(pc) + " " + then
		if then != "" {
			key = "po>" + then + " " + pcText(pc)
		}
		return reference(key, func(m *ir.Module) string {
			if c := process(m, copyPC(pc)); c != "" {
				return c
			}
			if then == "" {
				return hashValue(m)
			}
			o, _ := runTarget(then, m, nil)
			return o
		})
	}

	probed := map[string]bool{}
	checkModule := func(si int, label string, before string) bool {
		after := hashValue(mod)
		if after == before {
			return true
		}
		paths := diffValues(ref, mod, 400)
		ent := map[string]any{"step": si, "label": label, "kind": "module-mutated", "classes": classesOf(paths), "sites": sitesOf(paths)}
		byClass := map[string][]string{}
		for _, p := range paths {
			if c := mutationClass(site(p)); len(byClass[c]) < 4 {
				byClass[c] = append(byClass[c], p)
			}
		}
		ent["class_paths"] = byClass
		if len(paths) > 12 {
			paths = paths[:12]
		}
		ent["paths"] = paths
		if heal && !probed[label] {
			// consequence (once per kind of operation): which plain back ends now give another output on the altered module
			probed[label] = true
			var changed []string
			for _, u := range allTargets {
				want := reference(u+" -", func(m *ir.Module) string { o, _ := runTarget(u, m, nil); return o })
				if o, _ := runTarget(u, mod, nil); o != want {
					changed = append(changed, u)
				}
			}
			ent["outputs_changed_afterwards"] = changed
		}
		if heal {
			mod, _ = lower(src)
		}
		bad = append(bad, ent)
		return false
	}

	// All references are computed BEFORE the history runs (in the order of the operations) and once more AFTER it in
	// reverse order: a reference that changes is state kept by the process (package-level variables, caches), which a
	// fresh module does not reset.
	for _, op := range ops {
		switch op.Via {
		case "":
			t := op.T
			reference(t+" -", func(m *ir.Module) string { o, _ := runTarget(t, m, nil); return o })
		case "opt":
			t, pc := op.T, op.PC
			reference(op.label()+" "+pcText(pc), func(m *ir.Module) string { o, _ := runOpt(t, m, pc); return o })
		case "po":
			poRef(op.PC, "")
			for _, t := range op.Then {
				poRef(op.PC, t)
			}
		}
	}
	for si, op := range ops {
		before := hashValue(mod)
		intact := before == pristine
		switch op.Via {
		case "":
			want := reference(op.T+" -", func(m *ir.Module) string { o, _ := runTarget(op.T, m, nil); return o })
			out, _ := runTarget(op.T, mod, nil)
			steps = append(steps, map[string]any{"label": op.T, "out": out, "ref": want, "intact_before": intact})
			if out != want {
				bad = append(bad, map[string]any{"step": si, "label": op.T, "kind": "output-differs", "module_intact_before": intact})
			}
			checkModule(si, op.T, before)
		case "opt":
			label := op.label()
			want := reference(label+" "+pcText(op.PC), func(m *ir.Module) string { o, _ := runOpt(op.T, m, op.PC); return o })
			out, same := runOpt(op.T, mod, op.PC)
			steps = append(steps, map[string]any{"label": label, "pc": pcText(op.PC), "out": out, "ref": want, "intact_before": intact})
			if !same {
				bad = append(bad, map[string]any{"step": si, "label": label, "kind": "options-mutated"})
			}
			if out != want {
				bad = append(bad, map[string]any{"step": si, "label": label, "kind": "output-differs", "module_intact_before": intact})
			}
			checkModule(si, label, before)
		case "po":
			clone := cloneForOverrides(mod)
			if clone == nil {
				steps = append(steps, map[string]any{"label": "po", "out": "PANIC:clone"})
				bad = append(bad, map[string]any{"step": si, "label": "clone", "kind": "panic"})
				continue
			}
			if !checkModule(si, "clone", before) { // CloneModuleForOverrides itself wrote the original
				before = hashValue(mod)
				intact = before == pristine
			}
			pc := copyPC(op.PC)
			want := poRef(op.PC, "")
			c := process(clone, pc)
			out := c
			if c == "" {
				out = hashValue(clone)
			}
			steps = append(steps, map[string]any{"label": "po", "pc": pcText(op.PC), "out": out, "ref": want, "intact_before": intact})
			if pcText(pc) != pcText(op.PC) {
				bad = append(bad, map[string]any{"step": si, "label": "po", "kind": "constants-mutated"})
			}
			if out != want {
				// the processed clone of a (possibly earlier-used) module differs from in-place processing of a fresh module
				ent := map[string]any{"step": si, "label": "po", "kind": "output-differs", "module_intact_before": intact}
				if c == "" {
					if m2, _ := lower(src); m2 != nil && process(m2, copyPC(op.PC)) == "" {
						p := diffValues(m2, clone, 12)
						ent["paths"] = p
						ent["sites"] = sitesOf(p)
					}
				}
				bad = append(bad, ent)
			}
			ok := checkModule(si, "po", before)
			if !ok && heal {
				// the clone shares storage with the module that was just replaced; keep using it (that is what a caller would do)
				before = hashValue(mod)
			}
			if c != "" {
				continue
			}
			for _, t := range op.Then {
				label := "po>" + t
				wantT := poRef(op.PC, t)
				cb := hashValue(clone)
				mb := hashValue(mod)
				outT, _ := runTarget(t, clone, nil)
				steps = append(steps, map[string]any{"label": label, "pc": pcText(op.PC), "out": outT, "ref": wantT, "intact_before": mb == pristine})
				if outT != wantT {
					bad = append(bad, map[string]any{"step": si, "label": label, "kind": "output-differs", "module_intact_before": mb == pristine,
						"clone_as_processed": cb == out})
				}
				if hashValue(clone) != cb {
					bad = append(bad, map[string]any{"step": si, "label": label, "kind": "processed-module-mutated"})
				}
				checkModule(si, label, mb)
			}
		}
	}
	for i := len(refRuns) - 1; i >= 0; i-- {
		rr := refRuns[i]
		if unstableSeen[rr.key] {
			continue
		}
		m, _ := lower(src)
		if m == nil {
			continue
		}
		if o := rr.run(m); o != refOut[rr.key] {
			bad = append(bad, map[string]any{"kind": "process-state", "op": rr.key, "label": strings.SplitN(rr.key, " ", 2)[0]})
		}
	}
	res["steps"] = steps
	res["bad"] = bad
	res["options_mutated"] = optionsMutated()
}
