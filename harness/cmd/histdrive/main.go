// histdrive: monitors for property C12 on the real implementation (current
// /repo working tree, tag verif). JSON-lines tool (package common):
//
//	histdrive outputs     {"id","src","data":{"targets":[..],"repeat":K}}
//	    every target compiled K times, each time on a freshly lowered module;
//	    reports the digest of each target's output, whether the K runs agree,
//	    and whether the module was left unchanged by each call.
//	histdrive history     {"id","data":{"programs":[src..],"seq":[i | -1 ..],"debug":bool}}
//	    one reused spirv.Backend; step i>=0 = Compile(program i) on a fresh
//	    module, -1 = explicit Reset(); each output is compared with a fresh
//	    backend on a freshly lowered module.
//	histdrive perm        {"id","src","data":{"order":[targets..],"heal":bool}}
//	    the targets run in that order on ONE module; each output compared with
//	    the same target on a freshly lowered module; deep digest of the module
//	    before/after every call; first differing paths when it changed.
//	histdrive concurrent  {"id","data":{"programs":[src..],"mode":"separate"|"shared","targets":[..],"n":N,"rounds":R}}
//	    reference outputs computed sequentially, then the same work on N
//	    goroutines (separate: each goroutine owns its program: parse, lower and
//	    all targets incl. a private reused spirv.Backend; shared: one module per
//	    round, one goroutine per target), outputs compared.  Build with -race.
//	histdrive pconst      {"id","src","data":{"ops":[..],"repeat":K,"heal":bool}}
//	    histories of the operations that take pipeline constants on ONE module with
//	    overrides (msl/glsl with Options.PipelineConstants, CloneModuleForOverrides +
//	    ProcessOverrides followed by back ends, plain back ends): see pconst.go.
//
// Targets: spv, spvd (debug names), hlsl, msl, glsl (all entry points), dxil.
// Observables are digests of output bytes (and of the reflection dump of the
// translation info); error texts are reduced to "ERR"/"PANIC" classes.
package main

import (
	"crypto/sha256"
	"encoding/hex"
	"fmt"
	"math"
	"reflect"
	"sort"
	"strings"
	"sync"

	"verifharness/common"

	"github.com/gogpu/naga"
	"github.com/gogpu/naga/dxil"
	"github.com/gogpu/naga/glsl"
	"github.com/gogpu/naga/hlsl"
	"github.com/gogpu/naga/ir"
	"github.com/gogpu/naga/msl"
	"github.com/gogpu/naga/spirv"
	"github.com/gogpu/naga/wgsl"
)

type job = common.Job

func main() {
	common.Main(map[string]common.Mode{
		"outputs": doOutputs, "history": doHistory, "perm": doPerm, "concurrent": doConcurrent, "pconst": doPConst,
	})
}

var allTargets = []string{"spv", "spvd", "hlsl", "msl", "glsl", "dxil"}

// ------------------------------------------------------------------ running naga

func lower(src string) (m *ir.Module, class string) {
	defer func() {
		if r := recover(); r != nil {
			m, class = nil, "PANIC:frontend"
		}
	}()
	ast, err := naga.Parse(src)
	if err != nil {
		return nil, "ERR:parse"
	}
	mod, err := naga.LowerWithSource(ast, src)
	if err != nil {
		return nil, "ERR:lower"
	}
	return mod, ""
}

// warnDigest: digest of the warnings (message, span) returned by the lowerer, in the order returned.
func warnDigest(src string) (out string) {
	defer func() {
		if r := recover(); r != nil {
			out = "PANIC"
		}
	}()
	ast, err := naga.Parse(src)
	if err != nil {
		return "ERR"
	}
	r, err := wgsl.LowerWithWarnings(ast, src)
	if err != nil {
		return "ERR"
	}
	return fmt.Sprintf("%d/%s", len(r.Warnings), hashValue(r.Warnings))
}

func spvOptions(debug bool) spirv.Options {
	o := spirv.DefaultOptions()
	o.Debug = debug
	return o
}

func digest(b []byte) string {
	h := sha256.Sum256(b)
	return fmt.Sprintf("%d:%s", len(b), hex.EncodeToString(h[:12]))
}

// a back end must not alter the options object it is given either (maps and pointers inside
// Options are shared with the caller): digests before/after every call.
var (
	optMu      sync.Mutex
	optMutated = map[string]int{}
)

func noteOptions(target, before, after string) {
	if before != after {
		optMu.Lock()
		optMutated[target]++
		optMu.Unlock()
	}
}

func optionsMutated() []string {
	optMu.Lock()
	defer optMu.Unlock()
	var out []string
	for t := range optMutated {
		out = append(out, t)
	}
	sort.Strings(out)
	return out
}

// runTarget runs one backend on mod and returns the digest of its observable
// result ("ERR"/"PANIC" for failures; messages are not observables).
// be may carry a reusable SPIR-V backend for spv/spvd.
func runTarget(target string, mod *ir.Module, be *spirv.Backend) (out string, detail string) {
	defer func() {
		if r := recover(); r != nil {
			out, detail = "PANIC", fmt.Sprint(r)
		}
	}()
	switch target {
	case "spv", "spvd":
		b := be
		if b == nil {
			b = spirv.NewBackend(spvOptions(target == "spvd"))
		}
		bin, err := b.Compile(mod)
		if err != nil {
			return "ERR", err.Error()
		}
		return digest(bin), ""
	case "hlsl":
		o := hlsl.DefaultOptions()
		ob := hashValue(o)
		s, info, err := hlsl.Compile(mod, o)
		noteOptions("hlsl", ob, hashValue(o))
		if err != nil {
			return "ERR", err.Error()
		}
		return digest([]byte(s)) + "/" + hashValue(info), ""
	case "msl":
		o := msl.DefaultOptions()
		ob := hashValue(o)
		s, info, err := msl.Compile(mod, o)
		noteOptions("msl", ob, hashValue(o))
		if err != nil {
			return "ERR", err.Error()
		}
		return digest([]byte(s)) + "/" + hashValue(info), ""
	case "glsl":
		var parts []string
		for i := range mod.EntryPoints {
			o := glsl.DefaultOptions()
			o.EntryPoint = mod.EntryPoints[i].Name
			ob := hashValue(o)
			s, info, err := glsl.Compile(mod, o)
			noteOptions("glsl", ob, hashValue(o))
			if err != nil {
				parts = append(parts, "ERR")
				detail += err.Error() + "; "
				continue
			}
			parts = append(parts, digest([]byte(s))+"/"+hashValue(info))
		}
		return strings.Join(parts, ","), detail
	case "dxil":
		o := dxil.DefaultOptions()
		ob := hashValue(o)
		bin, err := dxil.Compile(mod, o)
		noteOptions("dxil", ob, hashValue(o))
		if err != nil {
			return "ERR", err.Error()
		}
		return digest(bin), ""
	}
	return "ERR:unknown-target", target
}

// ------------------------------------------------------------------ deep digest / diff of Go values

// hashValue: digest of an arbitrary Go value by reflection, following
// pointers, including unexported fields; map entries sorted by key digest;
// floats by bit pattern; nil slice == empty slice is NOT assumed (len only).
func hashValue(v any) string {
	h := sha256.New()
	var w walker
	w.h = func(s string) { h.Write([]byte(s)); h.Write([]byte{0}) }
	w.walk(reflect.ValueOf(v), 0)
	return hex.EncodeToString(h.Sum(nil)[:12])
}

type walker struct {
	h func(string)
}

func (w *walker) walk(v reflect.Value, depth int) {
	if depth > 400 {
		w.h("<deep>")
		return
	}
	if !v.IsValid() {
		w.h("<nil>")
		return
	}
	switch v.Kind() {
	case reflect.Interface:
		if v.IsNil() {
			w.h("<nil-iface>")
			return
		}
		w.h("i:" + v.Elem().Type().String())
		w.walk(v.Elem(), depth+1)
	case reflect.Pointer:
		if v.IsNil() {
			w.h("<nil-ptr>")
			return
		}
		w.h("&")
		w.walk(v.Elem(), depth+1)
	case reflect.Struct:
		w.h("{" + v.Type().String())
		for i := 0; i < v.NumField(); i++ {
			w.walk(v.Field(i), depth+1)
		}
		w.h("}")
	case reflect.Slice, reflect.Array:
		w.h(fmt.Sprintf("[%d", v.Len()))
		for i := 0; i < v.Len(); i++ {
			w.walk(v.Index(i), depth+1)
		}
		w.h("]")
	case reflect.Map:
		type ent struct{ k, v string }
		var es []ent
		it := v.MapRange()
		for it.Next() {
			es = append(es, ent{subDigest(it.Key()), subDigest(it.Value())})
		}
		sort.Slice(es, func(i, j int) bool {
			if es[i].k != es[j].k {
				return es[i].k < es[j].k
			}
			return es[i].v < es[j].v
		})
		w.h(fmt.Sprintf("m%d", len(es)))
		for _, e := range es {
			w.h(e.k)
			w.h(e.v)
		}
	case reflect.Bool:
		w.h(fmt.Sprint(v.Bool()))
	case reflect.Int, reflect.Int8, reflect.Int16, reflect.Int32, reflect.Int64:
		w.h(fmt.Sprint(v.Int()))
	case reflect.Uint, reflect.Uint8, reflect.Uint16, reflect.Uint32, reflect.Uint64, reflect.Uintptr:
		w.h(fmt.Sprint(v.Uint()))
	case reflect.Float32:
		w.h(fmt.Sprintf("f%x", math.Float32bits(float32(v.Float()))))
	case reflect.Float64:
		w.h(fmt.Sprintf("d%x", math.Float64bits(v.Float())))
	case reflect.Complex64, reflect.Complex128:
		c := v.Complex()
		w.h(fmt.Sprintf("c%x,%x", math.Float64bits(real(c)), math.Float64bits(imag(c))))
	case reflect.String:
		w.h("s" + v.String())
	default: // func, chan, unsafe pointer: identity is not an observable
		w.h("<" + v.Kind().String() + ">")
	}
}

func subDigest(v reflect.Value) string {
	h := sha256.New()
	var w walker
	w.h = func(s string) { h.Write([]byte(s)); h.Write([]byte{0}) }
	w.walk(v, 0)
	return hex.EncodeToString(h.Sum(nil)[:12])
}

// diffValues lists (up to limit) paths at which a and b differ.
func diffValues(a, b any, limit int) []string {
	var out []string
	diffWalk(reflect.ValueOf(a), reflect.ValueOf(b), "module", &out, limit, 0)
	return out
}

func leafText(v reflect.Value) string {
	if !v.IsValid() {
		return "<invalid>"
	}
	switch v.Kind() {
	case reflect.Bool, reflect.Int, reflect.Int8, reflect.Int16, reflect.Int32, reflect.Int64,
		reflect.Uint, reflect.Uint8, reflect.Uint16, reflect.Uint32, reflect.Uint64, reflect.String:
		return fmt.Sprintf("%v", v)
	case reflect.Float32, reflect.Float64:
		return fmt.Sprintf("%v", v.Float())
	}
	s := fmt.Sprintf("%s#%s", v.Type().String(), subDigest(v))
	return s
}

func diffWalk(a, b reflect.Value, path string, out *[]string, limit, depth int) {
	if len(*out) >= limit || depth > 400 {
		return
	}
	add := func(what string) { *out = append(*out, path+": "+what) }
	if a.IsValid() != b.IsValid() {
		add("presence differs")
		return
	}
	if !a.IsValid() {
		return
	}
	if a.Type() != b.Type() {
		add(fmt.Sprintf("type %s -> %s", a.Type(), b.Type()))
		return
	}
	switch a.Kind() {
	case reflect.Interface, reflect.Pointer:
		if a.IsNil() || b.IsNil() {
			if a.IsNil() != b.IsNil() {
				add("nil-ness differs")
			}
			return
		}
		if a.Kind() == reflect.Interface && a.Elem().Type() != b.Elem().Type() {
			add(fmt.Sprintf("%s -> %s", a.Elem().Type(), b.Elem().Type()))
			return
		}
		diffWalk(a.Elem(), b.Elem(), path, out, limit, depth+1)
	case reflect.Struct:
		for i := 0; i < a.NumField(); i++ {
			diffWalk(a.Field(i), b.Field(i), path+"."+a.Type().Field(i).Name, out, limit, depth+1)
		}
	case reflect.Slice, reflect.Array:
		if a.Len() != b.Len() {
			add(fmt.Sprintf("len %d -> %d", a.Len(), b.Len()))
		}
		n := a.Len()
		if b.Len() < n {
			n = b.Len()
		}
		for i := 0; i < n; i++ {
			diffWalk(a.Index(i), b.Index(i), fmt.Sprintf("%s[%d]", path, i), out, limit, depth+1)
		}
	case reflect.Map:
		if subDigest(a) != subDigest(b) {
			add(fmt.Sprintf("map contents differ (len %d -> %d)", a.Len(), b.Len()))
		}
	case reflect.Func, reflect.Chan, reflect.UnsafePointer:
	default:
		if leafText(a) != leafText(b) {
			add(leafText(a) + " -> " + leafText(b))
		}
	}
}

// ------------------------------------------------------------------ helpers on job data

func dataStrings(j *job, k string) []string {
	var out []string
	if xs, ok := j.Data[k].([]any); ok {
		for _, x := range xs {
			if s, ok := x.(string); ok {
				out = append(out, s)
			}
		}
	}
	return out
}

func dataInts(j *job, k string) []int {
	var out []int
	if xs, ok := j.Data[k].([]any); ok {
		for _, x := range xs {
			if f, ok := x.(float64); ok {
				out = append(out, int(f))
			}
		}
	}
	return out
}

func dataInt(j *job, k string, def int) int {
	if f, ok := j.Data[k].(float64); ok {
		return int(f)
	}
	return def
}

func dataBool(j *job, k string) bool {
	b, _ := j.Data[k].(bool)
	return b
}

func targetsOf(j *job) []string {
	t := dataStrings(j, "targets")
	if len(t) == 0 {
		return allTargets
	}
	return t
}

// ------------------------------------------------------------------ outputs

func doOutputs(j *job, res map[string]any) {
	src := j.Source()
	repeat := dataInt(j, "repeat", 1)
	ref, cls := lower(src)
	if ref == nil {
		res["frontend"] = cls
		return
	}
	refHash := hashValue(ref)
	res["module"] = refHash
	outs := map[string]any{}
	var unstable, mutated, lowerUnstable []string
	mutPaths := map[string]any{}
	for _, t := range targetsOf(j) {
		first := ""
		if t == "warn" {
			// front-end diagnostics (wgsl.LowerWithWarnings): part of the compiler's observable result
			for r := 0; r < repeat; r++ {
				o := warnDigest(src)
				if r == 0 {
					first = o
				} else if o != first {
					unstable = append(unstable, t)
					break
				}
			}
			outs[t] = first
			continue
		}
		for r := 0; r < repeat; r++ {
			m, _ := lower(src)
			if m == nil {
				lowerUnstable = append(lowerUnstable, "lowering failed on repetition")
				break
			}
			before := hashValue(m)
			if before != refHash && len(lowerUnstable) == 0 {
				lowerUnstable = append(lowerUnstable, diffValues(ref, m, 6)...)
			}
			o, _ := runTarget(t, m, nil)
			if after := hashValue(m); after != before {
				if _, seen := mutPaths[t]; !seen {
					mutated = append(mutated, t)
					m2, _ := lower(src)
					mutPaths[t] = diffValues(m2, m, 8)
				}
			}
			if r == 0 {
				first = o
			} else if o != first {
				unstable = append(unstable, t)
				break
			}
		}
		outs[t] = first
	}
	res["outs"] = outs
	res["unstable"] = unstable
	res["mutated"] = mutated
	res["mutated_paths"] = mutPaths
	res["lower_unstable"] = lowerUnstable
	res["options_mutated"] = optionsMutated()
}

// ------------------------------------------------------------------ history on one reused spirv.Backend

// spvCompile runs a (possibly reused) SPIR-V backend and returns the raw bytes.
func spvCompile(mod *ir.Module, be *spirv.Backend) (bin []byte, class string) {
	defer func() {
		if r := recover(); r != nil {
			bin, class = nil, "PANIC"
		}
	}()
	out, err := be.Compile(mod)
	if err != nil {
		return nil, "ERR"
	}
	return out, ""
}

func spvDigest(bin []byte, class string) string {
	if class != "" {
		return class
	}
	return digest(bin)
}

// versionWord: SPIR-V header word 1 (0x00MMmm00), 0 if absent.
func versionWord(bin []byte) uint32 {
	if len(bin) < 8 {
		return 0
	}
	return uint32(bin[4]) | uint32(bin[5])<<8 | uint32(bin[6])<<16 | uint32(bin[7])<<24
}

func firstDiffWord(a, b []byte) int {
	n := len(a)
	if len(b) < n {
		n = len(b)
	}
	for i := 0; i+4 <= n; i += 4 {
		if a[i] != b[i] || a[i+1] != b[i+1] || a[i+2] != b[i+2] || a[i+3] != b[i+3] {
			return i / 4
		}
	}
	return n / 4
}

func doHistory(j *job, res map[string]any) {
	progs := dataStrings(j, "programs")
	seq := dataInts(j, "seq")
	debug := dataBool(j, "debug")
	be := spirv.NewBackend(spvOptions(debug))
	var steps []any
	var bad []any
	configured := versionWord(func() []byte { // version word of the configured options
		v := spvOptions(debug).Version
		return []byte{0, 0, 0, 0, 0, v.Minor, v.Major, 0}
	}())
	leaked := uint32(0)
	for si, pi := range seq {
		if pi < 0 {
			be.Reset()
			steps = append(steps, map[string]any{"op": "reset"})
			continue
		}
		if pi >= len(progs) {
			continue
		}
		m, cls := lower(progs[pi])
		if m == nil {
			steps = append(steps, map[string]any{"op": "skip", "why": cls})
			continue
		}
		before := hashValue(m)
		bin, c1 := spvCompile(m, be)
		after := hashValue(m)
		mf, _ := lower(progs[pi])
		fbin, c2 := spvCompile(mf, spirv.NewBackend(spvOptions(debug)))
		out, fresh := spvDigest(bin, c1), spvDigest(fbin, c2)
		st := map[string]any{"op": "compile", "prog": pi, "out": out, "fresh": fresh}
		if out != fresh {
			ent := map[string]any{"step": si, "prog": pi, "kind": "output-differs", "out": out, "fresh": fresh,
				"first_diff_word": firstDiffWord(bin, fbin), "version_reused": versionWord(bin), "version_fresh": versionWord(fbin)}
			// Is the difference fully explained by a leaked target version (Options.Version raised by an
			// earlier compilation and never restored)? Re-run a fresh backend configured with the
			// highest version the reused backend has emitted so far.
			if leaked != 0 {
				o := spvOptions(debug)
				o.Version = spirv.Version{Major: uint8(leaked >> 16), Minor: uint8(leaked >> 8)}
				m3, _ := lower(progs[pi])
				b3, c3 := spvCompile(m3, spirv.NewBackend(o))
				ent["explained_by_version"] = spvDigest(b3, c3) == out
				ent["leaked_version"] = leaked
			}
			bad = append(bad, ent)
		}
		if before != after {
			bad = append(bad, map[string]any{"step": si, "prog": pi, "kind": "module-mutated", "paths": diffValues(mf, m, 8)})
		}
		if v := versionWord(bin); v > configured && v > leaked {
			leaked = v
		}
		steps = append(steps, st)
	}
	res["steps"] = steps
	res["bad"] = bad
}

// ------------------------------------------------------------------ permutation of backends on one module

func doPerm(j *job, res map[string]any) {
	src := j.Source()
	order := dataStrings(j, "order")
	heal := dataBool(j, "heal")
	ref, cls := lower(src)
	if ref == nil {
		res["frontend"] = cls
		return
	}
	pristine := hashValue(ref)
	mod, _ := lower(src)
	if hashValue(mod) != pristine {
		res["lower_unstable"] = diffValues(ref, mod, 6)
		return
	}
	refOut := map[string]string{}
	for _, t := range order {
		if _, ok := refOut[t]; !ok {
			m, _ := lower(src)
			refOut[t], _ = runTarget(t, m, nil)
		}
	}
	var bad []any
	var steps []any
	for si, t := range order {
		before := hashValue(mod)
		out, _ := runTarget(t, mod, nil)
		after := hashValue(mod)
		steps = append(steps, map[string]any{"target": t, "out": out, "ref": refOut[t], "intact_before": before == pristine})
		if out != refOut[t] {
			bad = append(bad, map[string]any{"step": si, "target": t, "kind": "output-differs", "module_intact_before": before == pristine})
		}
		if after != before {
			ent := map[string]any{"step": si, "target": t, "kind": "module-mutated", "paths": diffValues(ref, mod, 10)}
			// consequence: which other targets now give different output on the altered module
			// (probed only when the module is replaced afterwards, since the probes may alter it further)
			var changed []string
			if heal {
				for _, u := range allTargets {
					if u == t {
						continue
					}
					r, ok := refOut[u]
					if !ok {
						m, _ := lower(src)
						r, _ = runTarget(u, m, nil)
						refOut[u] = r
					}
					if o, _ := runTarget(u, mod, nil); o != r {
						changed = append(changed, u)
					}
				}
			}
			ent["outputs_changed_afterwards"] = changed
			bad = append(bad, ent)
			if heal {
				mod, _ = lower(src)
			}
		}
	}
	res["steps"] = steps
	res["bad"] = bad
	res["options_mutated"] = optionsMutated()
}

// ------------------------------------------------------------------ concurrency

type unit struct {
	prog   int
	target string
}

func doConcurrent(j *job, res map[string]any) {
	progs := dataStrings(j, "programs")
	mode, _ := j.Data["mode"].(string)
	targets := targetsOf(j)
	n := dataInt(j, "n", 8)
	rounds := dataInt(j, "rounds", 1)
	var mu sync.Mutex
	var bad []any
	report := func(e map[string]any) {
		mu.Lock()
		bad = append(bad, e)
		mu.Unlock()
	}
	units := 0
	// The concurrent phase runs FIRST, in a process that has compiled nothing yet: lazily filled
	// package-level tables and caches are then written concurrently (and seen by the race detector);
	// the sequential reference is computed afterwards.
	switch mode {
	case "separate":
		// goroutine g owns programs g, g+n, ...: full pipeline (parse, lower, every target) with
		// private reused SPIR-V backends.  Reference = the very same per-goroutine work run alone.
		work := func(g int) map[unit]string {
			got := map[unit]string{}
			bes := map[string]*spirv.Backend{"spv": spirv.NewBackend(spvOptions(false)), "spvd": spirv.NewBackend(spvOptions(true))}
			for pi := g % len(progs); pi < len(progs); pi += n {
				for _, t := range targets {
					m, cls := lower(progs[pi])
					if m == nil {
						got[unit{pi, t}] = "frontend:" + cls
						continue
					}
					got[unit{pi, t}], _ = runTarget(t, m, bes[t])
				}
			}
			return got
		}
		conc := make([][]map[unit]string, rounds)
		for r := 0; r < rounds; r++ {
			conc[r] = make([]map[unit]string, n)
			var wg sync.WaitGroup
			for g := 0; g < n; g++ {
				wg.Add(1)
				go func(g int) {
					defer wg.Done()
					conc[r][g] = work(g)
				}(g)
			}
			wg.Wait()
		}
		for g := 0; g < n; g++ {
			alone := work(g)
			for r := 0; r < rounds; r++ {
				for u, o := range conc[r][g] {
					if o != alone[u] {
						report(map[string]any{"kind": "output-differs", "prog": u.prog, "target": u.target, "mode": mode})
					}
				}
			}
		}
		units = rounds * len(progs) * len(targets)
	case "shared":
		// one module per (round, program); one goroutine per target, all started together
		type obs struct {
			u unit
			o string
		}
		var seen []obs
		for r := 0; r < rounds; r++ {
			for pi, src := range progs {
				m, _ := lower(src)
				if m == nil {
					continue
				}
				before := hashValue(m)
				start := make(chan struct{})
				outs := make([]string, len(targets))
				var wg sync.WaitGroup
				for ti, t := range targets {
					wg.Add(1)
					go func(ti int, t string) {
						defer wg.Done()
						<-start
						outs[ti], _ = runTarget(t, m, nil)
					}(ti, t)
				}
				close(start)
				wg.Wait()
				units += len(targets)
				for ti, t := range targets {
					seen = append(seen, obs{unit{pi, t}, outs[ti]})
				}
				if after := hashValue(m); after != before {
					mf, _ := lower(src)
					report(map[string]any{"kind": "module-mutated", "prog": pi, "mode": mode, "paths": diffValues(mf, m, 6)})
				}
			}
		}
		ref := map[unit]string{}
		for _, ob := range seen {
			r, ok := ref[ob.u]
			if !ok {
				m, _ := lower(progs[ob.u.prog])
				r, _ = runTarget(ob.u.target, m, nil)
				ref[ob.u] = r
			}
			if ob.o != r {
				report(map[string]any{"kind": "output-differs", "prog": ob.u.prog, "target": ob.u.target, "mode": mode})
			}
		}
	}
	res["units"] = units
	res["bad"] = bad
	res["options_mutated"] = optionsMutated()
}
