// layoutdrive: compiles generated WGSL (type trees used by storage/uniform/workgroup
// variables) with the current /repo tree and returns what C07 compares:
//
//	layoutdrive compile {"id":..,"src":..,"opts":{"glsl":[430,3100,330]}} ->
//	  types   : reflection dump of ir.Module.Types after lowering (Offset/Span/Stride)
//	  globals : reflection dump of ir.Module.GlobalVariables
//	  typesize: ir.TypeSize(module, h) for every type handle
//	  spv     : hex of the SPIR-V binary
//	  hlsl, msl: text
//	  glsl    : {"<version>": text | {"err":..}} for each requested version
//	           (encoded major*100+minor, +10000 for ES)
//
// Every job runs under recover().
package main

import (
	"encoding/hex"
	"fmt"

	"verifharness/common"

	"github.com/gogpu/naga"
	"github.com/gogpu/naga/glsl"
	"github.com/gogpu/naga/hlsl"
	"github.com/gogpu/naga/ir"
	"github.com/gogpu/naga/msl"
	"github.com/gogpu/naga/spirv"
)

func main() {
	common.Main(map[string]common.Mode{"compile": doCompile})
}

func doCompile(j *common.Job, res map[string]any) {
	src := j.Source()
	ast, err := naga.Parse(src)
	if err != nil {
		res["stage"] = "parse"
		res["err"] = err.Error()
		return
	}
	mod, err := naga.LowerWithSource(ast, src)
	if err != nil {
		res["stage"] = "lower"
		res["err"] = err.Error()
		return
	}
	res["types"] = common.Dump(mod.Types)
	res["globals"] = common.Dump(mod.GlobalVariables)
	ts := make([]uint32, len(mod.Types))
	for h := range mod.Types {
		ts[h] = ir.TypeSize(mod, ir.TypeHandle(h))
	}
	res["typesize"] = ts
	if verrs, err := naga.Validate(mod); err != nil {
		res["validate_err"] = err.Error()
	} else if len(verrs) > 0 {
		res["validate_err"] = verrs[0].Error()
	}
	if b, err := naga.GenerateSPIRV(mod, spirv.DefaultOptions()); err != nil {
		res["spv_err"] = err.Error()
	} else {
		res["spv"] = hex.EncodeToString(b)
	}
	if s, _, err := hlsl.Compile(mod, hlsl.DefaultOptions()); err != nil {
		res["hlsl_err"] = err.Error()
	} else {
		res["hlsl"] = s
	}
	if s, _, err := msl.Compile(mod, msl.DefaultOptions()); err != nil {
		res["msl_err"] = err.Error()
	} else {
		res["msl"] = s
	}
	versions := []int{430}
	if v, ok := j.Opts["glsl"].([]any); ok {
		versions = versions[:0]
		for _, x := range v {
			if f, ok := x.(float64); ok {
				versions = append(versions, int(f))
			}
		}
	}
	outs := map[string]any{}
	for _, v := range versions {
		o := glsl.DefaultOptions()
		es := v >= 10000
		n := v % 10000
		o.LangVersion = glsl.Version{Major: uint8(n / 100), Minor: uint8(n % 100), ES: es}
		if len(mod.EntryPoints) > 0 {
			o.EntryPoint = mod.EntryPoints[0].Name
		}
		s, _, err := glsl.Compile(mod, o)
		if err != nil {
			outs[fmt.Sprint(v)] = map[string]any{"err": err.Error()}
		} else {
			outs[fmt.Sprint(v)] = s
		}
	}
	res["glsl"] = outs
}
