// nagadrive: runs gogpu/naga (current /repo working tree, tag verif) on jobs
// given as JSON lines on stdin and prints one JSON result per line.
//
//	nagadrive tokens    {"id":..,"src":..}            -> runes, tokens
//	nagadrive compile   {"id":..,"src":..,"want":[..],"opts":{..}} -> per-stage errors, IR dump, outputs
//
// Every job runs under recover(); a panic is reported as {"panic": "..."}.
package main

import (
	"encoding/hex"
	"unicode/utf8"

	"verifharness/common"

	"github.com/gogpu/naga"
	"github.com/gogpu/naga/dxil"
	"github.com/gogpu/naga/glsl"
	"github.com/gogpu/naga/hlsl"
	"github.com/gogpu/naga/ir"
	"github.com/gogpu/naga/msl"
	"github.com/gogpu/naga/spirv"
	"github.com/gogpu/naga/wgsl"
)

type job = common.Job

func main() {
	common.Main(map[string]common.Mode{"tokens": doTokens, "compile": doCompile})
}

var Dump = common.Dump

func doTokens(j *job, res map[string]any) {
	src := j.Source()
	// decoded runes with byte widths (Go's utf8 decoder: invalid byte = U+FFFD width 1)
	var runes [][2]int
	for i := 0; i < len(src); {
		r, sz := utf8.DecodeRuneInString(src[i:])
		runes = append(runes, [2]int{int(r), sz})
		i += sz
	}
	res["runes"] = runes
	toks, err := wgsl.VerifTokenize(src)
	if err != nil {
		res["err"] = err.Error()
		return
	}
	tl := make([][]any, len(toks))
	for i, t := range toks {
		var cps []int
		for _, r := range t.Lexeme {
			cps = append(cps, int(r))
		}
		tl[i] = []any{t.Kind, cps, t.Line, t.Column, len(t.Lexeme), t.Name}
	}
	res["toks"] = tl
}

func errPos(err error) any {
	return err.Error()
}

func doCompile(j *job, res map[string]any) {
	src := j.Source()
	ast, err := naga.Parse(src)
	if err != nil {
		res["stage"] = "parse"
		res["err"] = errPos(err)
		return
	}
	if j.Wants("ast") {
		res["ast"] = Dump(ast.VerifInner())
	}
	mod, err := naga.LowerWithSource(ast, src)
	if err != nil {
		res["stage"] = "lower"
		res["err"] = errPos(err)
		return
	}
	if j.Wants("ir") {
		res["ir"] = Dump(mod)
	}
	if j.Wants("validate") {
		verrs, err := naga.Validate(mod)
		if err != nil {
			res["validate_err"] = err.Error()
		}
		var vs []string
		for _, e := range verrs {
			vs = append(vs, e.Error())
		}
		res["validate"] = vs
	}
	if j.Wants("spv") {
		o := spirv.DefaultOptions()
		o.Debug = j.OptBool("spv_debug", false)
		if v := j.OptInt("spv_version", 0); v != 0 {
			o.Version = spirv.Version{Major: uint8(v >> 8), Minor: uint8(v & 0xff)}
		}
		b, err := naga.GenerateSPIRV(mod, o)
		if err != nil {
			res["spv_err"] = err.Error()
		} else {
			res["spv"] = hex.EncodeToString(b)
		}
	}
	if j.Wants("hlsl") {
		o := hlsl.DefaultOptions()
		s, info, err := hlsl.Compile(mod, o)
		if err != nil {
			res["hlsl_err"] = err.Error()
		} else {
			res["hlsl"] = s
			res["hlsl_info"] = Dump(info)
		}
	}
	if j.Wants("msl") {
		o := msl.DefaultOptions()
		s, info, err := msl.Compile(mod, o)
		if err != nil {
			res["msl_err"] = err.Error()
		} else {
			res["msl"] = s
			res["msl_info"] = Dump(info)
		}
	}
	if j.Wants("msl_vpt") {
		// MSL with the vertex-pulling transform: one vertex buffer whose attributes cover every @location input of every
		// vertex entry point (format chosen from the input's type)
		o := msl.DefaultOptions()
		o.VertexPullingTransform = true
		attrs, stride := vptAttributes(mod)
		if len(attrs) > 0 {
			o.VertexBufferMappings = []msl.VertexBufferMapping{{ID: 1, Stride: stride, StepMode: msl.VertexStepModeByVertex, Attributes: attrs}}
			s, info, err := msl.Compile(mod, o)
			if err != nil {
				res["msl_vpt_err"] = err.Error()
			} else {
				res["msl_vpt"] = s
				res["msl_vpt_info"] = Dump(info)
			}
		}
	}
	if j.Wants("glsl") {
		outs := map[string]any{}
		for _, ep := range mod.EntryPoints {
			o := glsl.DefaultOptions()
			o.EntryPoint = ep.Name
			s, info, err := glsl.Compile(mod, o)
			if err != nil {
				outs[ep.Name] = map[string]any{"err": err.Error()}
			} else {
				outs[ep.Name] = map[string]any{"text": s, "info": Dump(info)}
			}
		}
		res["glsl"] = outs
	}
	if j.Wants("dxil") {
		b, err := dxil.Compile(mod, dxil.DefaultOptions())
		if err != nil {
			res["dxil_err"] = err.Error()
		} else {
			res["dxil"] = hex.EncodeToString(b)
		}
	}
	if j.Wants("ir_after") {
		res["ir_after"] = Dump(mod)
	}
	_ = ir.Module{}
}


// vptAttributes lists one attribute per distinct @location of the vertex-stage inputs of mod.
func vptAttributes(mod *ir.Module) ([]msl.AttributeMapping, uint32) {
	var attrs []msl.AttributeMapping
	seen := map[uint32]bool{}
	var off uint32
	add := func(b ir.Binding, ty ir.TypeHandle) {
		lb, ok := b.(ir.LocationBinding)
		if !ok || seen[lb.Location] || int(ty) >= len(mod.Types) {
			return
		}
		kind, n := ir.ScalarFloat, 1
		switch t := mod.Types[ty].Inner.(type) {
		case ir.ScalarType:
			kind = t.Kind
		case ir.VectorType:
			kind, n = t.Scalar.Kind, int(t.Size)
		default:
			return
		}
		var f msl.VertexFormat
		switch kind {
		case ir.ScalarSint:
			f = []msl.VertexFormat{msl.VertexFormatSint32, msl.VertexFormatSint32x2, msl.VertexFormatSint32x3, msl.VertexFormatSint32x4}[n-1]
		case ir.ScalarUint:
			f = []msl.VertexFormat{msl.VertexFormatUint32, msl.VertexFormatUint32x2, msl.VertexFormatUint32x3, msl.VertexFormatUint32x4}[n-1]
		default:
			f = []msl.VertexFormat{msl.VertexFormatFloat32, msl.VertexFormatFloat32x2, msl.VertexFormatFloat32x3, msl.VertexFormatFloat32x4}[n-1]
		}
		seen[lb.Location] = true
		attrs = append(attrs, msl.AttributeMapping{ShaderLocation: lb.Location, Offset: off, Format: f})
		off += 16
	}
	for _, ep := range mod.EntryPoints {
		if ep.Stage != ir.StageVertex {
			continue
		}
		for _, a := range ep.Function.Arguments {
			if a.Binding != nil {
				add(*a.Binding, a.Type)
				continue
			}
			if int(a.Type) < len(mod.Types) {
				if st, ok := mod.Types[a.Type].Inner.(ir.StructType); ok {
					for _, m := range st.Members {
						if m.Binding != nil {
							add(*m.Binding, m.Type)
						}
					}
				}
			}
		}
	}
	if off == 0 {
		off = 16
	}
	return attrs, off
}
