// nagadrive: runs gogpu/naga (current /repo working tree, tag verif) on jobs
// given as JSON lines on stdin and prints one JSON result per line.
//
//	nagadrive tokens    {"id":..,"src":..}            -> runes, tokens
//	nagadrive compile   {"id":..,"src":..,"want":[..],"opts":{..}} -> per-stage errors, IR dump, outputs
//
// Every job runs under recover(); a panic is reported as {"panic": "..."}.
package main

import (
	"bufio"
	"encoding/hex"
	"encoding/json"
	"fmt"
	"os"
	"runtime/debug"
	"unicode/utf8"

	"github.com/gogpu/naga"
	"github.com/gogpu/naga/glsl"
	"github.com/gogpu/naga/hlsl"
	"github.com/gogpu/naga/ir"
	"github.com/gogpu/naga/msl"
	"github.com/gogpu/naga/spirv"
	"github.com/gogpu/naga/wgsl"
)

type job struct {
	ID   any            `json:"id"`
	Src  string         `json:"src"`
	Hex  string         `json:"hex"` // source given as hex bytes (arbitrary, maybe invalid UTF-8)
	Want []string       `json:"want"`
	Opts map[string]any `json:"opts"`
}

func (j *job) source() string {
	if j.Hex != "" {
		b, _ := hex.DecodeString(j.Hex)
		return string(b)
	}
	return j.Src
}

func main() {
	if len(os.Args) < 2 {
		fmt.Fprintln(os.Stderr, "usage: nagadrive <mode>")
		os.Exit(2)
	}
	mode := os.Args[1]
	in := bufio.NewReaderSize(os.Stdin, 1<<20)
	out := bufio.NewWriterSize(os.Stdout, 1<<20)
	defer out.Flush()
	dec := json.NewDecoder(in)
	enc := json.NewEncoder(out)
	for dec.More() {
		var j job
		if err := dec.Decode(&j); err != nil {
			fmt.Fprintln(os.Stderr, "bad job:", err)
			os.Exit(2)
		}
		res := runJob(mode, &j)
		res["id"] = j.ID
		if err := enc.Encode(res); err != nil {
			fmt.Fprintln(os.Stderr, "encode:", err)
			os.Exit(2)
		}
	}
}

func runJob(mode string, j *job) (res map[string]any) {
	res = map[string]any{}
	defer func() {
		if r := recover(); r != nil {
			res["panic"] = fmt.Sprint(r)
			res["stack"] = string(debug.Stack())
		}
	}()
	switch mode {
	case "tokens":
		doTokens(j, res)
	case "compile":
		doCompile(j, res)
	default:
		res["error"] = "unknown mode " + mode
	}
	return res
}

func doTokens(j *job, res map[string]any) {
	src := j.source()
	// decoded runes with byte widths (Go's utf8 decoder: invalid byte = U+FFFD width 1)
	var runes [][2]int
	for i := 0; i < len(src); {
		r, sz := utf8.DecodeRuneInString(src[i:])
		runes = append(runes, [2]int{int(r), sz})
		i += sz
	}
	res["runes"] = runes
	toks, err := wgsl.VerifTokenize(src)
	if err != nil {
		res["err"] = err.Error()
		return
	}
	tl := make([][]any, len(toks))
	for i, t := range toks {
		var cps []int
		for _, r := range t.Lexeme {
			cps = append(cps, int(r))
		}
		tl[i] = []any{t.Kind, cps, t.Line, t.Column, len(t.Lexeme), t.Name}
	}
	res["toks"] = tl
}

func optBool(o map[string]any, k string, def bool) bool {
	if v, ok := o[k]; ok {
		if b, ok := v.(bool); ok {
			return b
		}
	}
	return def
}

func optInt(o map[string]any, k string, def int) int {
	if v, ok := o[k]; ok {
		if f, ok := v.(float64); ok {
			return int(f)
		}
	}
	return def
}

func wants(j *job, k string) bool {
	for _, w := range j.Want {
		if w == k {
			return true
		}
	}
	return false
}

func errPos(err error) any {
	return err.Error()
}

func doCompile(j *job, res map[string]any) {
	src := j.source()
	ast, err := naga.Parse(src)
	if err != nil {
		res["stage"] = "parse"
		res["err"] = errPos(err)
		return
	}
	if wants(j, "ast") {
		res["ast"] = Dump(ast.VerifInner())
	}
	mod, err := naga.LowerWithSource(ast, src)
	if err != nil {
		res["stage"] = "lower"
		res["err"] = errPos(err)
		return
	}
	if wants(j, "ir") {
		res["ir"] = Dump(mod)
	}
	if wants(j, "validate") {
		verrs, err := naga.Validate(mod)
		if err != nil {
			res["validate_err"] = err.Error()
		}
		var vs []string
		for _, e := range verrs {
			vs = append(vs, e.Error())
		}
		res["validate"] = vs
	}
	if wants(j, "spv") {
		o := spirv.DefaultOptions()
		o.Debug = optBool(j.Opts, "spv_debug", false)
		if v := optInt(j.Opts, "spv_version", 0); v != 0 {
			o.Version = spirv.Version{Major: uint8(v >> 8), Minor: uint8(v & 0xff)}
		}
		b, err := naga.GenerateSPIRV(mod, o)
		if err != nil {
			res["spv_err"] = err.Error()
		} else {
			res["spv"] = hex.EncodeToString(b)
		}
	}
	if wants(j, "hlsl") {
		o := hlsl.DefaultOptions()
		s, info, err := hlsl.Compile(mod, o)
		if err != nil {
			res["hlsl_err"] = err.Error()
		} else {
			res["hlsl"] = s
			res["hlsl_info"] = Dump(info)
		}
	}
	if wants(j, "msl") {
		o := msl.DefaultOptions()
		s, info, err := msl.Compile(mod, o)
		if err != nil {
			res["msl_err"] = err.Error()
		} else {
			res["msl"] = s
			res["msl_info"] = Dump(info)
		}
	}
	if wants(j, "glsl") {
		outs := map[string]any{}
		for _, ep := range mod.EntryPoints {
			o := glsl.DefaultOptions()
			o.EntryPoint = ep.Name
			s, info, err := glsl.Compile(mod, o)
			if err != nil {
				outs[ep.Name] = map[string]any{"err": err.Error()}
			} else {
				outs[ep.Name] = map[string]any{"text": s, "info": Dump(info)}
			}
		}
		res["glsl"] = outs
	}
	if wants(j, "ir_after") {
		res["ir_after"] = Dump(mod)
	}
	_ = ir.Module{}
}
