// acceptdrive (C08): runs every acceptance-relevant stage of gogpu/naga on one
// WGSL program and reports, per stage and per backend option set, whether the
// program was accepted.
//
//	acceptdrive run  {"id":..,"src":..,"want":["ir","validate","compile"],
//	                  "data":{"sets":[{"backend":"spv","name":"spv1.3","version":[1,3],...}, ...],
//	                          "pipeline_constants": {"name": 1.5}}}
//
// Result: {"stage": "parse"|"lower", "err": ...} for a front-end rejection, else
//
//	"eps": [[name, stage number]...], "ir": dump, "validate": [{Message, Function, Statement, Expression}],
//	"compile_err": error of naga.Compile (one-call API, validation enabled) or absent,
//	"sets": {name: {"*" or entry point: {"ok": true, "len": n} | {"err": "..."} | {"panic": "..."}}}
//
// Every backend call runs under its own recover() so that a panic in one option
// set does not hide the others.  The module is lowered afresh for every backend
// call: backends may mutate the module (override processing).
package main

import (
	"fmt"
	"runtime"
	"sort"
	"strings"

	"verifharness/common"

	"github.com/gogpu/naga"
	"github.com/gogpu/naga/glsl"
	"github.com/gogpu/naga/hlsl"
	"github.com/gogpu/naga/ir"
	"github.com/gogpu/naga/msl"
	"github.com/gogpu/naga/spirv"
)

type job = common.Job

func main() {
	common.Main(map[string]common.Mode{"run": doRun})
}

func num(m map[string]any, k string, def int) int {
	if v, ok := m[k]; ok {
		if f, ok := v.(float64); ok {
			return int(f)
		}
	}
	return def
}

func boolean(m map[string]any, k string, def bool) bool {
	if v, ok := m[k]; ok {
		if b, ok := v.(bool); ok {
			return b
		}
	}
	return def
}

func str(m map[string]any, k string, def string) string {
	if v, ok := m[k]; ok {
		if s, ok := v.(string); ok {
			return s
		}
	}
	return def
}

func ints(m map[string]any, k string) []int {
	v, ok := m[k].([]any)
	if !ok {
		return nil
	}
	var out []int
	for _, x := range v {
		if f, ok := x.(float64); ok {
			out = append(out, int(f))
		}
	}
	return out
}

func lower(src string) (*ir.Module, string, error) {
	ast, err := naga.Parse(src)
	if err != nil {
		return nil, "parse", err
	}
	mod, err := naga.LowerWithSource(ast, src)
	if err != nil {
		return nil, "lower", err
	}
	return mod, "", nil
}

func guarded(f func() (int, error)) (res map[string]any) {
	defer func() {
		if r := recover(); r != nil {
			res = map[string]any{"panic": fmt.Sprint(r) + " @ " + panicSite()}
		}
	}()
	n, err := f()
	if err != nil {
		return map[string]any{"err": err.Error()}
	}
	return map[string]any{"ok": true, "len": n}
}

// panicSite names the innermost naga function on the stack of a recovered panic
// (the site of the crash), so that different crashes get different keys.
func panicSite() string {
	pcs := make([]uintptr, 64)
	n := runtime.Callers(3, pcs)
	frames := runtime.CallersFrames(pcs[:n])
	for {
		f, more := frames.Next()
		if strings.Contains(f.Function, "github.com/gogpu/naga") {
			fn := f.Function
			if i := strings.LastIndex(fn, "/"); i >= 0 {
				fn = fn[i+1:]
			}
			return fn
		}
		if !more {
			break
		}
	}
	return "?"
}

func pipelineConstants(j *job) ir.PipelineConstants {
	pc, ok := j.Data["pipeline_constants"].(map[string]any)
	if !ok {
		return nil
	}
	out := ir.PipelineConstants{}
	for k, v := range pc {
		if f, ok := v.(float64); ok {
			out[k] = f
		}
	}
	return out
}

// fresh module for a backend call; overrides resolved first when the job carries
// pipeline constants or the set asks for it (as a host application must do before
// handing a module with overrides to a backend).
func freshModule(src string, j *job, set map[string]any) (*ir.Module, error) {
	mod, _, err := lower(src)
	if err != nil {
		return nil, err
	}
	if boolean(set, "process_overrides", false) {
		if err := ir.ProcessOverrides(mod, pipelineConstants(j)); err != nil {
			return nil, fmt.Errorf("process overrides: %w", err)
		}
	}
	return mod, nil
}

func runSet(src string, j *job, set map[string]any, eps []ir.EntryPoint) map[string]any {
	out := map[string]any{}
	switch str(set, "backend", "") {
	case "spv":
		out["*"] = guarded(func() (int, error) {
			mod, err := freshModule(src, j, set)
			if err != nil {
				return 0, err
			}
			o := spirv.DefaultOptions()
			if v := ints(set, "version"); len(v) == 2 {
				o.Version = spirv.Version{Major: uint8(v[0]), Minor: uint8(v[1])}
			}
			o.Debug = boolean(set, "debug", o.Debug)
			o.ForceLoopBounding = boolean(set, "force_loop_bounding", o.ForceLoopBounding)
			o.AdjustCoordinateSpace = boolean(set, "adjust_coordinate_space", o.AdjustCoordinateSpace)
			o.ForcePointSize = boolean(set, "force_point_size", o.ForcePointSize)
			o.Validation = boolean(set, "validation", o.Validation)
			o.UseStorageInputOutput16 = boolean(set, "use_storage_input_output_16", o.UseStorageInputOutput16)
			b, err := naga.GenerateSPIRV(mod, o)
			return len(b), err
		})
	case "hlsl":
		one := func(ep string) map[string]any {
			return guarded(func() (int, error) {
				mod, err := freshModule(src, j, set)
				if err != nil {
					return 0, err
				}
				o := hlsl.DefaultOptions()
				o.ShaderModel = hlsl.ShaderModel(num(set, "shader_model", int(o.ShaderModel)))
				o.FakeMissingBindings = boolean(set, "fake_missing_bindings", o.FakeMissingBindings)
				o.ZeroInitializeWorkgroupMemory = boolean(set, "zero_initialize_workgroup_memory", o.ZeroInitializeWorkgroupMemory)
				o.RestrictIndexing = boolean(set, "restrict_indexing", o.RestrictIndexing)
				o.ForceLoopBounding = boolean(set, "force_loop_bounding", o.ForceLoopBounding)
				o.EntryPoint = ep
				s, _, err := hlsl.Compile(mod, o)
				return len(s), err
			})
		}
		if boolean(set, "per_ep", false) {
			for _, ep := range eps {
				out[ep.Name] = one(ep.Name)
			}
		} else {
			out["*"] = one("")
		}
	case "msl":
		out["*"] = guarded(func() (int, error) {
			mod, err := freshModule(src, j, set)
			if err != nil {
				return 0, err
			}
			o := msl.DefaultOptions()
			if v := ints(set, "version"); len(v) == 2 {
				o.LangVersion = msl.Version{Major: uint8(v[0]), Minor: uint8(v[1])}
			}
			o.FakeMissingBindings = boolean(set, "fake_missing_bindings", o.FakeMissingBindings)
			o.ZeroInitializeWorkgroupMemory = boolean(set, "zero_initialize_workgroup_memory", o.ZeroInitializeWorkgroupMemory)
			o.ForceLoopBounding = boolean(set, "force_loop_bounding", o.ForceLoopBounding)
			if pc := pipelineConstants(j); pc != nil && !boolean(set, "process_overrides", false) {
				o.PipelineConstants = pc
			}
			s, _, err := msl.Compile(mod, o)
			return len(s), err
		})
	case "glsl":
		for _, ep := range eps {
			name := ep.Name
			out[name] = guarded(func() (int, error) {
				mod, err := freshModule(src, j, set)
				if err != nil {
					return 0, err
				}
				o := glsl.DefaultOptions()
				if v := ints(set, "version"); len(v) == 2 {
					o.LangVersion = glsl.Version{Major: uint8(v[0]), Minor: uint8(v[1]), ES: boolean(set, "es", false)}
				}
				o.ForceHighPrecision = boolean(set, "force_high_precision", o.ForceHighPrecision)
				o.EntryPoint = name
				if pc := pipelineConstants(j); pc != nil && !boolean(set, "process_overrides", false) {
					o.PipelineConstants = pc
				}
				s, _, err := glsl.Compile(mod, o)
				return len(s), err
			})
		}
	default:
		out["*"] = map[string]any{"err": "acceptdrive: unknown backend"}
	}
	return out
}

// features: the module properties the applicability rules of option sets look at
// (computed here so that the caller does not need the full IR dump for them).
func features(mod *ir.Module) []string {
	set := map[string]bool{}
	for _, t := range mod.Types {
		switch t.Inner.(type) {
		case ir.AtomicType:
			set["atomics"] = true
		case ir.RayQueryType, ir.AccelerationStructureType:
			set["ray_query"] = true
		}
	}
	var walk func(b ir.Block)
	walk = func(b ir.Block) {
		for i := range b {
			switch k := b[i].Kind.(type) {
			case ir.StmtAtomic, ir.StmtImageAtomic:
				set["atomics"] = true
			case ir.StmtRayQuery:
				set["ray_query"] = true
			case ir.StmtBlock:
				walk(k.Block)
			case ir.StmtIf:
				walk(k.Accept)
				walk(k.Reject)
			case ir.StmtSwitch:
				for _, c := range k.Cases {
					walk(c.Body)
				}
			case ir.StmtLoop:
				walk(k.Body)
				walk(k.Continuing)
			}
		}
	}
	for i := range mod.Functions {
		walk(mod.Functions[i].Body)
	}
	for i := range mod.EntryPoints {
		walk(mod.EntryPoints[i].Function.Body)
	}
	if len(mod.Overrides) > 0 {
		set["overrides"] = true
		for _, o := range mod.Overrides {
			if o.Init == nil {
				set["override_without_default"] = true
			}
		}
	}
	out := []string{}
	for k := range set {
		out = append(out, k)
	}
	sort.Strings(out)
	return out
}

func doRun(j *job, res map[string]any) {
	src := j.Source()
	mod, stage, err := lower(src)
	if err != nil {
		res["stage"] = stage
		res["err"] = err.Error()
		return
	}
	var eps [][]any
	for _, ep := range mod.EntryPoints {
		eps = append(eps, []any{ep.Name, int(ep.Stage)})
	}
	res["eps"] = eps
	res["features"] = features(mod)
	if j.Wants("ir") {
		res["ir"] = common.Dump(mod)
	}
	if j.Wants("validate") {
		verrs, err := naga.Validate(mod)
		if err != nil {
			res["validate_err"] = err.Error()
		}
		vs := []any{}
		for _, e := range verrs {
			m := map[string]any{"Message": e.Message, "Function": e.Function, "Statement": e.Statement}
			if e.Expression != nil {
				m["Expression"] = int(*e.Expression)
			}
			vs = append(vs, m)
		}
		res["validate"] = vs
		if len(vs) > 0 && j.Wants("ir_if_invalid") && !j.Wants("ir") {
			res["ir"] = common.Dump(mod)
		}
	}
	if j.Wants("compile") {
		r := guarded(func() (int, error) {
			b, err := naga.Compile(src)
			return len(b), err
		})
		res["compile"] = r
	}
	sets, _ := j.Data["sets"].([]any)
	outs := map[string]any{}
	for _, s := range sets {
		set, ok := s.(map[string]any)
		if !ok {
			continue
		}
		outs[str(set, "name", "?")] = runSet(src, j, set, mod.EntryPoints)
	}
	res["sets"] = outs
}
