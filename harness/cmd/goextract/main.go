// goextract: the translator's front half (DESIGN section 7). Reads Go source
// files of /repo's current working tree with go/ast and prints, as JSON, the
// finite tables the Coq development is regenerated from:
//
//	{"kind":"consts","file":F}                      all constants of const blocks, iota evaluated: [[name, value]...]
//	{"kind":"map","file":F,"name":V}                 composite-literal map var: [[key-src, value-src]...]
//	{"kind":"list","file":F,"name":V}                composite-literal slice var: [elem-src...]
//	{"kind":"fields","file":F,"name":T}              struct type field list: [[name, type-src]...]
//	{"kind":"funcsrc","file":F,"name":Fn,"recv":R}   source text of a function body
//	{"kind":"switchmap","file":F,"name":Fn,"recv":R} flat `switch x { case A: return B }` tables: [[case-src, result-src]...]
//	{"kind":"rangesites","dir":D}                    every `for ... range <expr>` with position, expr source and body source
//	{"kind":"assigns","file":F,"name":Fn,"recv":R}   assignment LHS / clear() / delete targets in a function body
//	{"kind":"unicode_letters"}                       Go's unicode.Letter table as [[lo,hi,stride]...]
//
// Input: a JSON list of such requests on stdin; paths relative to the repo
// root given as argv[1]. Output: JSON list of results in the same order.
package main

import (
	"bytes"
	"encoding/json"
	"fmt"
	"go/ast"
	"go/constant"
	"go/parser"
	"go/printer"
	"go/token"
	"os"
	"path/filepath"
	"sort"
	"strconv"
	"strings"
	"unicode"
)

type req struct {
	Kind string `json:"kind"`
	File string `json:"file"`
	Dir  string `json:"dir"`
	Name string `json:"name"`
	Recv string `json:"recv"`
}

var fset = token.NewFileSet()
var root string
var cache = map[string]*ast.File{}

func parse(rel string) *ast.File {
	if f, ok := cache[rel]; ok {
		return f
	}
	f, err := parser.ParseFile(fset, filepath.Join(root, rel), nil, parser.ParseComments)
	if err != nil {
		fail("parse %s: %v", rel, err)
	}
	cache[rel] = f
	return f
}

func fail(format string, a ...any) {
	fmt.Fprintf(os.Stderr, "goextract: "+format+"\n", a...)
	os.Exit(3)
}

func src(n ast.Node) string {
	var b bytes.Buffer
	printer.Fprint(&b, fset, n)
	return b.String()
}

func main() {
	root = os.Args[1]
	var reqs []req
	if err := json.NewDecoder(os.Stdin).Decode(&reqs); err != nil {
		fail("bad request: %v", err)
	}
	out := make([]any, len(reqs))
	for i, r := range reqs {
		out[i] = handle(r)
	}
	json.NewEncoder(os.Stdout).Encode(out)
}

func handle(r req) any {
	switch r.Kind {
	case "consts":
		return consts(parse(r.File))
	case "map":
		return mapLit(parse(r.File), r.Name)
	case "list":
		return listLit(parse(r.File), r.Name)
	case "fields":
		return fields(parse(r.File), r.Name)
	case "funcsrc":
		fd := findFunc(parse(r.File), r.Name, r.Recv)
		if fd == nil {
			return map[string]any{"missing": r.Name}
		}
		return src(fd.Body)
	case "switchmap":
		return switchMap(parse(r.File), r.Name, r.Recv)
	case "assigns":
		return assigns(parse(r.File), r.Name, r.Recv)
	case "rangesites":
		return rangeSites(r.Dir)
	case "unicode_letters":
		return unicodeLetters()
	}
	fail("unknown kind %q", r.Kind)
	return nil
}

// ---------------------------------------------------------------- consts

func consts(f *ast.File) any {
	env := map[string]constant.Value{}
	var out [][]any
	for _, d := range f.Decls {
		gd, ok := d.(*ast.GenDecl)
		if !ok || gd.Tok != token.CONST {
			continue
		}
		var prev []ast.Expr
		var prevType string
		for iota, s := range gd.Specs {
			vs := s.(*ast.ValueSpec)
			vals := vs.Values
			typ := ""
			if vs.Type != nil {
				typ = src(vs.Type)
			}
			if len(vals) == 0 {
				vals = prev
				if typ == "" {
					typ = prevType
				}
			} else {
				prev = vals
				prevType = typ
			}
			for k, n := range vs.Names {
				if k >= len(vals) {
					continue
				}
				v := eval(vals[k], env, int64(iota))
				if v == nil {
					continue
				}
				env[n.Name] = v
				out = append(out, []any{n.Name, v.ExactString(), typ})
			}
		}
	}
	return out
}

func eval(e ast.Expr, env map[string]constant.Value, iota int64) constant.Value {
	switch x := e.(type) {
	case *ast.BasicLit:
		return constant.MakeFromLiteral(x.Value, x.Kind, 0)
	case *ast.Ident:
		if x.Name == "iota" {
			return constant.MakeInt64(iota)
		}
		if x.Name == "true" {
			return constant.MakeBool(true)
		}
		if x.Name == "false" {
			return constant.MakeBool(false)
		}
		if v, ok := env[x.Name]; ok {
			return v
		}
		return nil
	case *ast.ParenExpr:
		return eval(x.X, env, iota)
	case *ast.CallExpr: // conversion T(x)
		if len(x.Args) == 1 {
			return eval(x.Args[0], env, iota)
		}
		return nil
	case *ast.UnaryExpr:
		v := eval(x.X, env, iota)
		if v == nil {
			return nil
		}
		return constant.UnaryOp(x.Op, v, 0)
	case *ast.BinaryExpr:
		a := eval(x.X, env, iota)
		b := eval(x.Y, env, iota)
		if a == nil || b == nil {
			return nil
		}
		if x.Op == token.SHL || x.Op == token.SHR {
			n, _ := constant.Uint64Val(b)
			return constant.Shift(a, x.Op, uint(n))
		}
		if x.Op == token.QUO && a.Kind() == constant.Int && b.Kind() == constant.Int {
			return constant.BinaryOp(a, token.QUO_ASSIGN, b)
		}
		return constant.BinaryOp(a, x.Op, b)
	}
	return nil
}

// ---------------------------------------------------------------- literals

func findVar(f *ast.File, name string) ast.Expr {
	for _, d := range f.Decls {
		gd, ok := d.(*ast.GenDecl)
		if !ok || gd.Tok != token.VAR {
			continue
		}
		for _, s := range gd.Specs {
			vs := s.(*ast.ValueSpec)
			for k, n := range vs.Names {
				if n.Name == name && k < len(vs.Values) {
					return vs.Values[k]
				}
			}
		}
	}
	return nil
}

func unq(s string) string {
	if u, err := strconv.Unquote(s); err == nil {
		return u
	}
	return s
}

func mapLit(f *ast.File, name string) any {
	e := findVar(f, name)
	cl, ok := e.(*ast.CompositeLit)
	if !ok {
		return map[string]any{"missing": name}
	}
	var out [][]string
	for _, el := range cl.Elts {
		kv, ok := el.(*ast.KeyValueExpr)
		if !ok {
			continue
		}
		out = append(out, []string{unq(src(kv.Key)), unq(src(kv.Value))})
	}
	return out
}

func listLit(f *ast.File, name string) any {
	e := findVar(f, name)
	cl, ok := e.(*ast.CompositeLit)
	if !ok {
		return map[string]any{"missing": name}
	}
	var out []string
	for _, el := range cl.Elts {
		out = append(out, unq(src(el)))
	}
	return out
}

func fields(f *ast.File, name string) any {
	var out [][]string
	ast.Inspect(f, func(n ast.Node) bool {
		ts, ok := n.(*ast.TypeSpec)
		if !ok || ts.Name.Name != name {
			return true
		}
		st, ok := ts.Type.(*ast.StructType)
		if !ok {
			return false
		}
		for _, fl := range st.Fields.List {
			t := src(fl.Type)
			if len(fl.Names) == 0 {
				out = append(out, []string{t, t})
			}
			for _, n := range fl.Names {
				out = append(out, []string{n.Name, t})
			}
		}
		return false
	})
	if out == nil {
		return map[string]any{"missing": name}
	}
	return out
}

func recvName(fd *ast.FuncDecl) string {
	if fd.Recv == nil || len(fd.Recv.List) == 0 {
		return ""
	}
	t := fd.Recv.List[0].Type
	if s, ok := t.(*ast.StarExpr); ok {
		t = s.X
	}
	return src(t)
}

func findFunc(f *ast.File, name, recv string) *ast.FuncDecl {
	for _, d := range f.Decls {
		fd, ok := d.(*ast.FuncDecl)
		if ok && fd.Name.Name == name && (recv == "" || recvName(fd) == recv) && fd.Body != nil {
			return fd
		}
	}
	return nil
}

func switchMap(f *ast.File, name, recv string) any {
	fd := findFunc(f, name, recv)
	if fd == nil {
		return map[string]any{"missing": name}
	}
	var out [][]string
	ast.Inspect(fd.Body, func(n ast.Node) bool {
		sw, ok := n.(*ast.SwitchStmt)
		if !ok {
			return true
		}
		for _, c := range sw.Body.List {
			cc := c.(*ast.CaseClause)
			res := ""
			for _, st := range cc.Body {
				if r, ok := st.(*ast.ReturnStmt); ok {
					var parts []string
					for _, e := range r.Results {
						parts = append(parts, src(e))
					}
					res = strings.Join(parts, ", ")
				}
			}
			if len(cc.List) == 0 {
				out = append(out, []string{"default", res})
			}
			for _, e := range cc.List {
				out = append(out, []string{src(e), res})
			}
		}
		return true
	})
	return out
}

func assigns(f *ast.File, name, recv string) any {
	fd := findFunc(f, name, recv)
	if fd == nil {
		return map[string]any{"missing": name}
	}
	var out [][]string
	ast.Inspect(fd.Body, func(n ast.Node) bool {
		switch x := n.(type) {
		case *ast.AssignStmt:
			for i, l := range x.Lhs {
				r := ""
				if i < len(x.Rhs) {
					r = src(x.Rhs[i])
				} else if len(x.Rhs) == 1 {
					r = src(x.Rhs[0])
				}
				out = append(out, []string{"assign", src(l), r})
			}
		case *ast.CallExpr:
			if id, ok := x.Fun.(*ast.Ident); ok && (id.Name == "clear" || id.Name == "delete") && len(x.Args) > 0 {
				out = append(out, []string{id.Name, src(x.Args[0]), ""})
			} else {
				out = append(out, []string{"call", src(x.Fun), ""})
			}
		case *ast.IncDecStmt:
			out = append(out, []string{"assign", src(x.X), x.Tok.String()})
		}
		return true
	})
	return out
}

func rangeSites(dir string) any {
	var out []map[string]any
	var files []string
	filepath.Walk(filepath.Join(root, dir), func(p string, info os.FileInfo, err error) error {
		if err == nil && !info.IsDir() && strings.HasSuffix(p, ".go") && !strings.HasSuffix(p, "_test.go") {
			files = append(files, p)
		}
		return nil
	})
	sort.Strings(files)
	for _, p := range files {
		rel, _ := filepath.Rel(root, p)
		f := parse(rel)
		var stack []string
		ast.Inspect(f, func(n ast.Node) bool {
			if fd, ok := n.(*ast.FuncDecl); ok {
				stack = []string{fd.Name.Name}
			}
			if rs, ok := n.(*ast.RangeStmt); ok {
				fn := ""
				if len(stack) > 0 {
					fn = stack[0]
				}
				out = append(out, map[string]any{
					"file": rel, "line": fset.Position(rs.Pos()).Line, "func": fn,
					"expr": src(rs.X), "body": src(rs.Body),
					"key":   exprOrEmpty(rs.Key), "value": exprOrEmpty(rs.Value),
				})
			}
			return true
		})
	}
	return out
}

func exprOrEmpty(e ast.Expr) string {
	if e == nil {
		return ""
	}
	return src(e)
}

func unicodeLetters() any {
	var out [][3]uint32
	for _, r := range unicode.Letter.R16 {
		out = append(out, [3]uint32{uint32(r.Lo), uint32(r.Hi), uint32(r.Stride)})
	}
	for _, r := range unicode.Letter.R32 {
		out = append(out, [3]uint32{r.Lo, r.Hi, r.Stride})
	}
	return out
}
