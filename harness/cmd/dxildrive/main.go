// dxildrive: drives the DXIL backend of gogpu/naga (current /repo working tree,
// tag verif) for property C18.  Jobs are JSON lines on stdin, one JSON result
// per line.  64-bit integers travel as decimal strings.
//
//	dxildrive bitcode    data:{"aw":2,"ops":[["vbr","27","4"],["record","1",["5","6"]],...]}  -> {"hex","lens"}
//	dxildrive container  data:{"parts":[{"kind":"raw","fourcc":"..","hex":".."},...],"post":["shaderhash","retail"]} -> {"hex"}
//	dxildrive hash       data:{"hex":".."} -> {"retail","md5"}
//	dxildrive scalar     data:{"signed":["-3",..],"char6":[97,..]} -> {"signed":[..],"char6":[..]}
//	dxildrive consts     -> FourCC table, stage kinds
//	dxildrive compile    {"src":..,"opts":{"sm_minor":0,"bypass":false,"bindmap":0}} -> valid, per entry point: bytes (hex), stage, err,
//	                     ir_mutated (+ mutated_where / mutated_site: deep snapshot of the caller's module before vs after each
//	                     Compile), same_module_again (same ir.Module compiled twice), deterministic (freshly lowered module),
//	                     again_equals_fresh; opts.once = one compile only (interface sweeps)
package main

import (
	"bytes"
	"crypto/md5"
	"encoding/hex"
	"fmt"
	"reflect"
	"runtime/debug"
	"sort"
	"strconv"
	"strings"

	"verifharness/common"

	"github.com/gogpu/naga"
	"github.com/gogpu/naga/dxil"
	"github.com/gogpu/naga/ir"
)

type job = common.Job

func main() {
	common.Main(map[string]common.Mode{
		"bitcode": doBitcode, "container": doContainer, "hash": doHash, "scalar": doScalar,
		"consts": doConsts, "compile": doCompile,
	})
}

func u64(v any) uint64 {
	switch x := v.(type) {
	case string:
		n, err := strconv.ParseUint(x, 10, 64)
		if err != nil {
			panic("bad u64 " + x)
		}
		return n
	case float64:
		return uint64(x)
	}
	panic(fmt.Sprintf("bad number %v", v))
}

func u64s(v any) []uint64 {
	l, _ := v.([]any)
	out := make([]uint64, len(l))
	for i, x := range l {
		out[i] = u64(x)
	}
	return out
}

func doBitcode(j *job, res map[string]any) {
	aw := uint(u64(j.Data["aw"]))
	raw, _ := j.Data["ops"].([]any)
	ops := make([]dxil.VerifBitOp, len(raw))
	for i, r := range raw {
		l := r.([]any)
		op := dxil.VerifBitOp{Op: l[0].(string)}
		if len(l) > 1 {
			op.A = u64(l[1])
		}
		if len(l) > 2 {
			if op.Op == "record" || op.Op == "blob" {
				op.Vals = u64s(l[2])
			} else {
				op.B = u64(l[2])
			}
		}
		if len(l) > 3 && op.Op == "blob" {
			b, _ := hex.DecodeString(l[3].(string))
			op.Blob = b
		}
		ops[i] = op
	}
	out, lens, err := dxil.VerifBitcodeRun(aw, ops)
	if err != nil {
		res["err"] = err.Error()
		return
	}
	res["hex"] = hex.EncodeToString(out)
	res["lens"] = lens
}

func doContainer(j *job, res map[string]any) {
	raw, _ := j.Data["parts"].([]any)
	parts := make([]dxil.VerifPart, len(raw))
	for i, r := range raw {
		m := r.(map[string]any)
		p := dxil.VerifPart{Kind: m["kind"].(string)}
		if v, ok := m["fourcc"]; ok {
			p.FourCC = uint32(u64(v))
		}
		if v, ok := m["hex"]; ok {
			b, _ := hex.DecodeString(v.(string))
			p.Data = b
		}
		if v, ok := m["shader_kind"]; ok {
			p.ShaderKind = uint32(u64(v))
		}
		if v, ok := m["major"]; ok {
			p.Major = uint32(u64(v))
		}
		if v, ok := m["minor"]; ok {
			p.Minor = uint32(u64(v))
		}
		if v, ok := m["features"]; ok {
			p.Features = u64(v)
		}
		parts[i] = p
	}
	var post []string
	if l, ok := j.Data["post"].([]any); ok {
		for _, s := range l {
			post = append(post, s.(string))
		}
	}
	out, err := dxil.VerifContainerBuild(parts, post)
	if err != nil {
		res["err"] = err.Error()
		return
	}
	res["hex"] = hex.EncodeToString(out)
}

func doHash(j *job, res map[string]any) {
	b, _ := hex.DecodeString(j.Data["hex"].(string))
	r := dxil.VerifRetailHash(b)
	m := md5.Sum(b)
	res["retail"] = hex.EncodeToString(r[:])
	res["md5"] = hex.EncodeToString(m[:])
}

func doScalar(j *job, res map[string]any) {
	if l, ok := j.Data["signed"].([]any); ok {
		out := make([]string, len(l))
		for i, x := range l {
			n, err := strconv.ParseInt(x.(string), 10, 64)
			if err != nil {
				panic(err)
			}
			out[i] = strconv.FormatUint(dxil.VerifEncodeSignedVBR(n), 10)
		}
		res["signed"] = out
	}
	if l, ok := j.Data["char6"].([]any); ok {
		out := make([]int, len(l))
		for i, x := range l {
			c := byte(u64(x))
			if dxil.VerifIsChar6String(string([]byte{c})) {
				out[i] = int(dxil.VerifEncodeChar6(c))
			} else {
				out[i] = -1
			}
		}
		res["char6"] = out
	}
}

func doConsts(j *job, res map[string]any) {
	fc := dxil.VerifFourCCs()
	keys := make([]string, 0, len(fc))
	for k := range fc {
		keys = append(keys, k)
	}
	sort.Strings(keys)
	out := [][]any{}
	for _, k := range keys {
		out = append(out, []any{k, fc[k]})
	}
	res["fourcc"] = out
	res["stage_kind"] = map[string]any{
		"vertex": dxil.VerifStageKind(int(ir.StageVertex)), "fragment": dxil.VerifStageKind(int(ir.StageFragment)),
		"compute": dxil.VerifStageKind(int(ir.StageCompute)), "mesh": dxil.VerifStageKind(int(ir.StageMesh)),
		"task": dxil.VerifStageKind(int(ir.StageTask)),
	}
}

var stageNames = map[ir.ShaderStage]string{
	ir.StageVertex: "vertex", ir.StageFragment: "fragment", ir.StageCompute: "compute",
	ir.StageMesh: "mesh", ir.StageTask: "task",
}

// bindMap builds a binding map that renumbers every bound global with
// monotonic registers (the scheme wgpu/hal/dx12 uses), shifted by `variant`.
func bindMap(mod *ir.Module, variant int) dxil.BindingMap {
	if variant == 0 {
		return nil
	}
	m := dxil.BindingMap{}
	n := uint32(0)
	for i := range mod.GlobalVariables {
		b := mod.GlobalVariables[i].Binding
		if b == nil {
			continue
		}
		loc := dxil.BindingLocation{Group: b.Group, Binding: b.Binding}
		if _, ok := m[loc]; ok {
			continue
		}
		m[loc] = dxil.BindTarget{Space: uint32(variant - 1), Register: n + uint32(7*(variant-1))}
		n++
	}
	return m
}

func doCompile(j *job, res map[string]any) {
	src := j.Source()
	ast, err := naga.Parse(src)
	if err != nil {
		res["stage"] = "parse"
		res["err"] = err.Error()
		return
	}
	mod, err := naga.LowerWithSource(ast, src)
	if err != nil {
		res["stage"] = "lower"
		res["err"] = err.Error()
		return
	}
	verrs, verr := naga.Validate(mod)
	res["valid"] = verr == nil && len(verrs) == 0
	minor := j.OptInt("sm_minor", 0)
	opts := dxil.DefaultOptions()
	opts.ShaderModel = dxil.ShaderModel{Major: 6, Minor: uint32(minor)}
	opts.UseBypassHash = j.OptBool("bypass", false)
	opts.BindingMap = bindMap(mod, j.OptInt("bindmap", 0))
	only := j.OptInt("ep", -1)
	// a second, independently lowered copy of the same source (fresh history)
	ast2, _ := naga.Parse(src)
	mod2, err2 := naga.LowerWithSource(ast2, src)
	once := j.OptBool("once", false)
	eps := []any{}
	for i := range mod.EntryPoints {
		if only >= 0 && i != only {
			continue
		}
		ep := mod.EntryPoints[i]
		r := map[string]any{"index": i, "name": ep.Name, "stage": stageNames[ep.Stage],
			"kind": dxil.VerifStageKind(int(ep.Stage))}
		single := singleEP(mod, i)
		if once {
			// interface sweeps: one compile, the container is all the caller looks at
			b1, e1 := compileOnce(single, opts)
			if e1 != "" {
				r["err"] = e1
				if strings.HasPrefix(e1, "panic:") {
					r["panic_site"] = panicSite(lastPanicStack)
				}
			} else {
				r["hex"] = hex.EncodeToString(b1)
			}
			eps = append(eps, r)
			continue
		}
		d0 := common.Dump(single) // deep snapshot of what the caller handed in
		b1, e1 := compileOnce(single, opts)
		if e1 != "" {
			r["err"] = e1
			if strings.HasPrefix(e1, "panic:") {
				r["stack"] = lastPanicStack
				r["panic_site"] = panicSite(lastPanicStack)
			}
			eps = append(eps, r)
			continue
		}
		r["hex"] = hex.EncodeToString(b1)
		d1 := common.Dump(single)
		mutated := false
		if where, site, diff := diffDump(d0, d1, "", ""); diff {
			mutated = true
			r["mutated_where"] = where
			r["mutated_site"] = site
			r["mutated_by"] = "first"
		}
		// same module value compiled again (history dependence)
		b2, e2 := compileOnce(single, opts)
		r["same_module_again"] = e2 == "" && bytes.Equal(b1, b2)
		if e2 != "" {
			r["again_err"] = e2
		} else if !bytes.Equal(b1, b2) {
			r["hex_again"] = hex.EncodeToString(b2)
		}
		if !mutated {
			if where, site, diff := diffDump(d0, common.Dump(single), "", ""); diff {
				mutated = true
				r["mutated_where"] = where
				r["mutated_site"] = site
				r["mutated_by"] = "second"
			}
		}
		r["ir_mutated"] = mutated
		// freshly lowered module compiled (determinism proper); the second compile of the
		// re-used module must agree with it too
		if err2 == nil && i < len(mod2.EntryPoints) {
			b3, e3 := compileOnce(singleEP(mod2, i), opts)
			r["deterministic"] = e3 == "" && bytes.Equal(b1, b3)
			if e3 != "" {
				r["fresh_err"] = e3
			} else {
				if !bytes.Equal(b1, b3) {
					r["hex_fresh"] = hex.EncodeToString(b3)
				}
				if e2 == "" {
					r["again_equals_fresh"] = bytes.Equal(b2, b3)
				}
				// opts.repeat: further compilations of the freshly lowered module (output that depends on Go's randomised
				// map iteration differs only with some probability per compilation)
				if rep := j.OptInt("repeat", 0); rep > 0 && bytes.Equal(b1, b3) {
					for k := 0; k < rep; k++ {
						bk, ek := compileOnce(singleEP(mod2, i), opts)
						if ek != "" || !bytes.Equal(b1, bk) {
							r["deterministic"] = false
							r["repeat_differs_at"] = k
							if ek == "" {
								r["hex_fresh"] = hex.EncodeToString(bk)
							}
							break
						}
					}
				}
			}
		}
		eps = append(eps, r)
	}
	res["eps"] = eps
}

// diffDump finds the first place where two reflection dumps differ: `where` is the
// concrete path (with indices), `site` the path of Go type and field names only
// (stable across programs: it names the kind of IR node that changed).
func diffDump(a, b any, where, site string) (string, string, bool) {
	switch x := a.(type) {
	case map[string]any:
		y, ok := b.(map[string]any)
		if !ok {
			return where, site, true
		}
		tn, _ := x["_t"].(string)
		if t2, _ := y["_t"].(string); t2 != tn {
			return where, site + "/" + tn + "->" + t2, true
		}
		keys := make([]string, 0, len(x))
		for k := range x {
			keys = append(keys, k)
		}
		for k := range y {
			if _, ok := x[k]; !ok {
				keys = append(keys, k)
			}
		}
		sort.Strings(keys)
		for _, k := range keys {
			if w, s, d := diffDump(x[k], y[k], where+"."+k, site+"/"+tn+"."+k); d {
				return w, s, true
			}
		}
		return "", "", false
	case []any:
		y, ok := b.([]any)
		if !ok {
			return where, site, true
		}
		if len(x) != len(y) {
			return fmt.Sprintf("%s[len %d->%d]", where, len(x), len(y)), site + "[len]", true
		}
		for i := range x {
			if w, s, d := diffDump(x[i], y[i], fmt.Sprintf("%s[%d]", where, i), site); d {
				return w, s, true
			}
		}
		return "", "", false
	}
	if !reflect.DeepEqual(a, b) {
		return where, site, true
	}
	return "", "", false
}

func singleEP(mod *ir.Module, i int) *ir.Module {
	return &ir.Module{
		Types: mod.Types, Constants: mod.Constants, GlobalVariables: mod.GlobalVariables,
		GlobalExpressions: mod.GlobalExpressions, Functions: mod.Functions,
		EntryPoints: []ir.EntryPoint{mod.EntryPoints[i]}, Overrides: mod.Overrides,
		SpecialTypes: mod.SpecialTypes,
	}
}

// stack of the most recent recovered panic of dxil.Compile (reported next to the error)
var lastPanicStack string

// panicSite names the innermost naga function on the stack of a recovered panic
// ("emit.(*Emitter).preAllocateLocalVars"): a stable name for where the compiler gave up.
func panicSite(stack string) string {
	lines := strings.Split(stack, "\n")
	seen := false
	for _, l := range lines {
		if strings.HasPrefix(l, "panic(") {
			seen = true
			continue
		}
		if !seen || strings.HasPrefix(l, "\t") {
			continue
		}
		if i := strings.Index(l, "github.com/gogpu/naga/"); i >= 0 {
			name := l[i+len("github.com/gogpu/naga/"):]
			if j := strings.LastIndex(name, "("); j > 0 {
				name = name[:j]
			}
			if j := strings.LastIndex(name, "/"); j >= 0 {
				name = name[j+1:]
			}
			return name
		}
	}
	return "?"
}

func compileOnce(m *ir.Module, opts dxil.Options) (out []byte, errs string) {
	defer func() {
		if r := recover(); r != nil {
			errs = "panic: " + fmt.Sprint(r)
			lastPanicStack = string(debug.Stack())
		}
	}()
	b, err := dxil.Compile(m, opts)
	if err != nil {
		return nil, err.Error()
	}
	return b, ""
}
