// glsldrive (property C05): compile WGSL to GLSL, one text per entry point, with a chosen glsl.Options set.
//
//	glsldrive compile {"id":..,"src":..,"want":["ir","validate"],"opts":{
//	    "version": 430|440|450|460|310|320 (310/320 = ES), "es": bool (default: version < 330),
//	    "flags": uint (glsl.WriterFlags bit set), "force_high_precision": bool (default true),
//	    "binding_map": [[group, binding, slot], ...], "uniform_base": n, "storage_base": n,
//	    "bounds_image_load": 0|1|2, "bounds_image_store": 0|1|2,
//	    "fresh_module": bool (re-lower the module before each entry point; default false = one module
//	                          shared by all glsl.Compile calls, which is how naga is used)}}
//	  -> {"ir": dump (before any backend ran), "validate": [...],
//	      "eps": [{"name","stage","text","info"} | {"name","stage","err"}] in entry point order}
//	     or {"stage": "parse"|"lower", "err": ...}
//
// Every job runs under recover().
package main

import (
	"verifharness/common"

	"github.com/gogpu/naga"
	"github.com/gogpu/naga/glsl"
	"github.com/gogpu/naga/ir"
)

func main() {
	common.Main(map[string]common.Mode{"compile": doCompile})
}

func lower(src string, res map[string]any) *ir.Module {
	ast, err := naga.Parse(src)
	if err != nil {
		res["stage"] = "parse"
		res["err"] = err.Error()
		return nil
	}
	mod, err := naga.LowerWithSource(ast, src)
	if err != nil {
		res["stage"] = "lower"
		res["err"] = err.Error()
		return nil
	}
	return mod
}

func doCompile(j *common.Job, res map[string]any) {
	src := j.Source()
	mod := lower(src, res)
	if mod == nil {
		return
	}
	if j.Wants("validate") {
		verrs, err := naga.Validate(mod)
		if err != nil {
			res["validate_err"] = err.Error()
		}
		vs := []string{}
		for _, e := range verrs {
			vs = append(vs, e.Error())
		}
		res["validate"] = vs
	}
	if j.Wants("ir") {
		res["ir"] = common.Dump(mod)
	}
	o := glsl.DefaultOptions()
	v := j.OptInt("version", 430)
	es := j.OptBool("es", v < 330)
	o.LangVersion = glsl.Version{Major: uint8(v / 100), Minor: uint8(v % 100), ES: es}
	o.WriterFlags = glsl.WriterFlags(j.OptInt("flags", 0))
	o.ForceHighPrecision = j.OptBool("force_high_precision", o.ForceHighPrecision)
	o.UniformBindingBase = uint32(j.OptInt("uniform_base", 0))
	o.StorageBindingBase = uint32(j.OptInt("storage_base", 0))
	o.BoundsCheckPolicies.ImageLoad = glsl.BoundsCheckPolicy(j.OptInt("bounds_image_load", 0))
	o.BoundsCheckPolicies.ImageStore = glsl.BoundsCheckPolicy(j.OptInt("bounds_image_store", 0))
	if bm, ok := j.Opts["binding_map"].([]any); ok {
		o.BindingMap = map[glsl.BindingMapKey]uint8{}
		for _, e := range bm {
			t, ok := e.([]any)
			if !ok || len(t) != 3 {
				continue
			}
			g, _ := t[0].(float64)
			b, _ := t[1].(float64)
			s, _ := t[2].(float64)
			o.BindingMap[glsl.BindingMapKey{Group: uint32(g), Binding: uint32(b)}] = uint8(s)
		}
	}
	fresh := j.OptBool("fresh_module", false)
	stages := map[ir.ShaderStage]string{ir.StageVertex: "vertex", ir.StageFragment: "fragment", ir.StageCompute: "compute"}
	eps := []any{}
	names := []string{}
	stg := []string{}
	for _, ep := range mod.EntryPoints {
		names = append(names, ep.Name)
		s, ok := stages[ep.Stage]
		if !ok {
			s = "other"
		}
		stg = append(stg, s)
	}
	for i, name := range names {
		m := mod
		if fresh {
			m = lower(src, map[string]any{})
			if m == nil {
				m = mod
			}
		}
		o.EntryPoint = name
		r := map[string]any{"name": name, "stage": stg[i]}
		func() {
			defer func() {
				if p := recover(); p != nil {
					r["err"] = "panic"
					r["panic"] = true
				}
			}()
			s, info, err := glsl.Compile(m, o)
			if err != nil {
				r["err"] = err.Error()
			} else {
				r["text"] = s
				r["info"] = common.Dump(info)
			}
		}()
		eps = append(eps, r)
	}
	res["eps"] = eps
}
