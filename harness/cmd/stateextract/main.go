// stateextract: type-aware (go/ast + go/types, offline) reader of /repo used by
// property C12. It type-checks the naga packages from source (repository
// packages through a recursive source importer, the standard library through
// go/importer "source") and prints one JSON object:
//
//	structs   for each requested struct: fields with name, type text, kind of
//	          the underlying type (map/slice/pointer/struct/basic/...)
//	resets    for each requested function (constructor or Reset method): which
//	          fields of the receiver / constructed literal are assigned,
//	          clear()ed or truncated
//	mapwalks  every `for ... range X` whose X has a map type, with a syntactic
//	          classification of the body (see classify)
//	globals   every package-level variable of the scanned packages with the
//	          places where it is written
//
// Request (stdin, JSON): {"dirs":[pkg dirs],"structs":[{"dir","name"}],
// "resets":[{"dir","recv","name","ctor_of"}]}.   argv[1] = repository root.
package main

import (
	"bytes"
	"encoding/json"
	"fmt"
	"go/ast"
	"go/build/constraint"
	"go/importer"
	"go/parser"
	"go/printer"
	"go/token"
	"go/types"
	"os"
	"path/filepath"
	"sort"
	"strings"
)

const modPath = "github.com/gogpu/naga"

var (
	fset = token.NewFileSet()
	root string
	std  types.Importer
	pkgs = map[string]*pkgInfo{}
)

type pkgInfo struct {
	dir   string
	files []*ast.File
	names []string
	pkg   *types.Package
	info  *types.Info
}

type srcImporter struct{}

func (srcImporter) Import(path string) (*types.Package, error) {
	if path == modPath || strings.HasPrefix(path, modPath+"/") {
		rel := strings.TrimPrefix(strings.TrimPrefix(path, modPath), "/")
		if rel == "" {
			rel = "."
		}
		p, err := load(rel)
		if err != nil {
			return nil, err
		}
		return p.pkg, nil
	}
	return std.Import(path)
}

// buildOK evaluates //go:build lines for linux/amd64 without the verif tag
// (hooks are not part of the code under verification).
func buildOK(f *ast.File) bool {
	for _, cg := range f.Comments {
		if cg.Pos() > f.Package {
			break
		}
		for _, c := range cg.List {
			if constraint.IsGoBuild(c.Text) {
				e, err := constraint.Parse(c.Text)
				if err != nil {
					continue
				}
				return e.Eval(func(tag string) bool {
					return tag == "linux" || tag == "amd64" || tag == "unix" || strings.HasPrefix(tag, "go1.")
				})
			}
		}
	}
	return true
}

func load(rel string) (*pkgInfo, error) {
	if p, ok := pkgs[rel]; ok {
		if p == nil {
			return nil, fmt.Errorf("import cycle through %s", rel)
		}
		return p, nil
	}
	pkgs[rel] = nil
	dir := filepath.Join(root, rel)
	ents, err := os.ReadDir(dir)
	if err != nil {
		return nil, err
	}
	p := &pkgInfo{dir: rel}
	for _, e := range ents {
		n := e.Name()
		if e.IsDir() || !strings.HasSuffix(n, ".go") || strings.HasSuffix(n, "_test.go") {
			continue
		}
		if strings.HasSuffix(n, "_windows.go") || strings.HasSuffix(n, "_darwin.go") {
			continue
		}
		f, err := parser.ParseFile(fset, filepath.Join(dir, n), nil, parser.ParseComments)
		if err != nil {
			return nil, err
		}
		if !buildOK(f) {
			continue
		}
		p.files = append(p.files, f)
		p.names = append(p.names, filepath.ToSlash(filepath.Join(rel, n)))
	}
	if len(p.files) == 0 {
		return nil, fmt.Errorf("no Go files in %s", rel)
	}
	p.info = &types.Info{
		Types: map[ast.Expr]types.TypeAndValue{},
		Defs:  map[*ast.Ident]types.Object{},
		Uses:  map[*ast.Ident]types.Object{},
		Selections: map[*ast.SelectorExpr]*types.Selection{},
	}
	var firstErr error
	conf := types.Config{Importer: srcImporter{}, Error: func(err error) {
		if firstErr == nil {
			firstErr = err
		}
	}}
	imp := modPath
	if rel != "." {
		imp = modPath + "/" + filepath.ToSlash(rel)
	}
	p.pkg, _ = conf.Check(imp, fset, p.files, p.info)
	if firstErr != nil {
		return nil, fmt.Errorf("type-check %s: %v", rel, firstErr)
	}
	pkgs[rel] = p
	return p, nil
}

func src(n ast.Node) string {
	var b bytes.Buffer
	printer.Fprint(&b, fset, n)
	return b.String()
}

func fail(format string, a ...any) {
	fmt.Fprintf(os.Stderr, "stateextract: "+format+"\n", a...)
	os.Exit(3)
}

type structReq struct {
	Dir  string `json:"dir"`
	Name string `json:"name"`
}
type resetReq struct {
	Dir    string `json:"dir"`
	Recv   string `json:"recv"`    // receiver type for methods ("" for constructors)
	Name   string `json:"name"`    // function name
	CtorOf string `json:"ctor_of"` // for constructors: the struct type whose composite literal is read
	Prefix bool   `json:"prefix"`  // only the (re)initialising prefix of the body (see prefixStmts)
}
type request struct {
	Dirs    []string    `json:"dirs"` // scanned recursively
	Pkgs    []string    `json:"pkgs"` // scanned non-recursively
	Structs []structReq `json:"structs"`
	Resets  []resetReq  `json:"resets"`
	IRWrite []string    `json:"irwrite_dirs"` // packages (recursive) scanned for writes into ir-typed shared storage
}

func main() {
	root = os.Args[1]
	std = importer.ForCompiler(fset, "source", nil)
	var rq request
	if err := json.NewDecoder(os.Stdin).Decode(&rq); err != nil {
		fail("bad request: %v", err)
	}
	out := map[string]any{}
	var structs []any
	for _, s := range rq.Structs {
		structs = append(structs, structFields(s))
	}
	out["structs"] = structs
	var fw []any
	for _, st := range rq.Structs {
		fw = append(fw, fieldWrites(st))
	}
	out["fieldwrites"] = fw
	var resets []any
	for _, r := range rq.Resets {
		resets = append(resets, resetOf(r))
	}
	out["resets"] = resets
	var walks []any
	var globals []any
	var allDirs []string
	for _, d := range rq.Dirs {
		filepath.Walk(filepath.Join(root, d), func(p string, info os.FileInfo, err error) error {
			if err != nil || !info.IsDir() {
				return nil
			}
			base := filepath.Base(p)
			if base == "testdata" || base == "tmp" || strings.HasPrefix(base, ".") {
				return filepath.SkipDir
			}
			ents, _ := os.ReadDir(p)
			for _, e := range ents {
				if !e.IsDir() && strings.HasSuffix(e.Name(), ".go") && !strings.HasSuffix(e.Name(), "_test.go") {
					rel, _ := filepath.Rel(root, p)
					allDirs = append(allDirs, rel)
					break
				}
			}
			return nil
		})
	}
	allDirs = append(allDirs, rq.Pkgs...)
	sort.Strings(allDirs)
	seen := map[string]bool{}
	for _, d := range allDirs {
		if seen[d] {
			continue
		}
		seen[d] = true
		p, err := load(d)
		if err != nil {
			fail("%v", err)
		}
		walks = append(walks, mapWalks(p)...)
		globals = append(globals, pkgGlobals(p)...)
	}
	var irw []any
	irSeen := map[string]bool{}
	for _, d := range allDirs {
		for _, want := range rq.IRWrite {
			if (d == want || strings.HasPrefix(d, want+"/")) && !irSeen[d] {
				irSeen[d] = true
				irw = append(irw, irWrites(pkgs[d])...)
			}
		}
	}
	out["irwrites"] = irw
	out["mapwalks"] = walks
	out["globals"] = globals
	var scanned []string
	for _, d := range allDirs {
		if len(scanned) == 0 || scanned[len(scanned)-1] != d {
			scanned = append(scanned, d)
		}
	}
	out["packages"] = scanned
	json.NewEncoder(os.Stdout).Encode(out)
}

// ------------------------------------------------------------------ structs

func kindOf(t types.Type) string {
	switch u := t.Underlying().(type) {
	case *types.Map:
		return "map"
	case *types.Slice:
		return "slice"
	case *types.Pointer:
		return "pointer"
	case *types.Struct:
		return "struct"
	case *types.Basic:
		return "basic"
	case *types.Interface:
		return "interface"
	case *types.Array:
		return "array"
	case *types.Signature:
		return "func"
	case *types.Chan:
		return "chan"
	default:
		_ = u
		return "other"
	}
}

func findStruct(p *pkgInfo, name string) (*types.Struct, bool) {
	obj := p.pkg.Scope().Lookup(name)
	if obj == nil {
		return nil, false
	}
	st, ok := obj.Type().Underlying().(*types.Struct)
	return st, ok
}

func structFields(s structReq) any {
	p, err := load(s.Dir)
	if err != nil {
		fail("%v", err)
	}
	st, ok := findStruct(p, s.Name)
	if !ok {
		return map[string]any{"missing": s.Dir + "." + s.Name}
	}
	var fs []any
	var flat func(prefix string, st *types.Struct, depth int)
	flat = func(prefix string, st *types.Struct, depth int) {
		for i := 0; i < st.NumFields(); i++ {
			f := st.Field(i)
			// a by-value struct field of a struct type declared in the same package is state of its own:
			// flatten it (path a.b) so that each of its fields needs a reset of its own
			if sub, ok := f.Type().Underlying().(*types.Struct); ok && depth < 4 {
				if n, ok := f.Type().(*types.Named); ok && n.Obj().Pkg() == p.pkg && sub.NumFields() > 0 {
					flat(prefix+f.Name()+".", sub, depth+1)
					continue
				}
			}
			fs = append(fs, map[string]any{
				"name": prefix + f.Name(), "type": types.TypeString(f.Type(), func(q *types.Package) string { return q.Name() }),
				"kind": kindOf(f.Type()), "embedded": f.Embedded(),
			})
		}
	}
	flat("", st, 0)
	return map[string]any{"dir": s.Dir, "name": s.Name, "fields": fs}
}

// fieldWrites lists every syntactic write, anywhere in the package, through a
// value of type T or *T to one of T's fields: x.f = e, x.f.g op= e, x.f[i] = e,
// x.f++, clear(x.f), delete(x.f, k), &x.f, x.f = append(x.f, ...).
// Each entry: [path, function, how].
func fieldWrites(s structReq) any {
	p, err := load(s.Dir)
	if err != nil {
		fail("%v", err)
	}
	obj := p.pkg.Scope().Lookup(s.Name)
	if obj == nil {
		return map[string]any{"missing": s.Dir + "." + s.Name}
	}
	target := obj.Type()
	isT := func(e ast.Expr) bool {
		tv, ok := p.info.Types[e]
		if !ok || tv.Type == nil {
			return false
		}
		t := tv.Type
		if pt, ok := t.Underlying().(*types.Pointer); ok {
			t = pt.Elem()
		}
		return types.Identical(t, target)
	}
	// pathOf: if e is (x.f.g...)[i]... with x of type T, return "f.g"
	var pathOf func(e ast.Expr) (string, bool)
	pathOf = func(e ast.Expr) (string, bool) {
		switch x := e.(type) {
		case *ast.SelectorExpr:
			if isT(x.X) {
				return x.Sel.Name, true
			}
			if pre, ok := pathOf(x.X); ok {
				// only by-value struct nesting continues the path; through a pointer/map/slice it is other memory,
				// but still reachable state of T: keep the path, callers compare by prefix
				return pre + "." + x.Sel.Name, true
			}
		case *ast.IndexExpr:
			return pathOf(x.X)
		case *ast.SliceExpr:
			return pathOf(x.X)
		case *ast.StarExpr:
			return pathOf(x.X)
		case *ast.ParenExpr:
			return pathOf(x.X)
		}
		return "", false
	}
	var out [][]string
	for _, f := range p.files {
		for _, d := range f.Decls {
			fd, ok := d.(*ast.FuncDecl)
			if !ok || fd.Body == nil {
				continue
			}
			fname := fd.Name.Name
			if fd.Recv != nil && len(fd.Recv.List) > 0 {
				t := fd.Recv.List[0].Type
				if st, ok := t.(*ast.StarExpr); ok {
					t = st.X
				}
				fname = src(t) + "." + fname
			}
			note := func(e ast.Expr, how string) {
				if path, ok := pathOf(e); ok {
					out = append(out, []string{path, fname, how})
				}
			}
			ast.Inspect(fd.Body, func(n ast.Node) bool {
				switch x := n.(type) {
				case *ast.AssignStmt:
					if x.Tok == token.DEFINE {
						return true
					}
					for _, l := range x.Lhs {
						note(l, "assign")
					}
				case *ast.IncDecStmt:
					note(x.X, "incdec")
				case *ast.UnaryExpr:
					if x.Op == token.AND {
						note(x.X, "address-taken")
					}
				case *ast.CallExpr:
					if id, ok := x.Fun.(*ast.Ident); ok && (id.Name == "clear" || id.Name == "delete") && len(x.Args) > 0 {
						note(x.Args[0], id.Name)
					}
				}
				return true
			})
		}
	}
	sort.Slice(out, func(i, j int) bool {
		for k := 0; k < 3; k++ {
			if out[i][k] != out[j][k] {
				return out[i][k] < out[j][k]
			}
		}
		return false
	})
	return map[string]any{"dir": s.Dir, "name": s.Name, "writes": out}
}

// ------------------------------------------------------------------ resets

func findFunc(p *pkgInfo, name, recv string) *ast.FuncDecl {
	for _, f := range p.files {
		for _, d := range f.Decls {
			fd, ok := d.(*ast.FuncDecl)
			if !ok || fd.Name.Name != name || fd.Body == nil {
				continue
			}
			r := ""
			if fd.Recv != nil && len(fd.Recv.List) > 0 {
				t := fd.Recv.List[0].Type
				if s, ok := t.(*ast.StarExpr); ok {
					t = s.X
				}
				r = src(t)
			}
			if r == recv {
				return fd
			}
		}
	}
	return nil
}

// resetOf lists how a function (re)initialises fields.
//
//	method  `func (b *T) Reset(...)`: for every statement at any depth:
//	   b.f = e          -> ["assign", f]   (e not mentioning b.f)
//	   b.f = b.f[:0]    -> ["truncate", f]
//	   clear(b.f)       -> ["clear", f]
//	   b.f.g = e / b.f.g = b.f.g[:0] -> ["sub", f, g, how]
//	   b.f.M(...)       -> ["call", f, M]
//	constructor `func NewT(...)`: keys of the composite literal T{...} and
//	   later `x.f = e` on the constructed value -> ["init", f]
//
// Statements nested under if/for are marked conditional: they do not count as
// an unconditional reset.
func resetOf(r resetReq) any {
	p, err := load(r.Dir)
	if err != nil {
		fail("%v", err)
	}
	fd := findFunc(p, r.Name, r.Recv)
	if fd == nil {
		return map[string]any{"missing": r.Dir + "." + r.Recv + "." + r.Name}
	}
	var acts [][]string
	if r.Recv != "" {
		recvName := ""
		if len(fd.Recv.List[0].Names) > 0 {
			recvName = fd.Recv.List[0].Names[0].Name
		}
		body := fd.Body.List
		first := ""
		if len(body) > 0 {
			first = src(body[0])
		}
		if r.Prefix {
			var deleg [][]string
			body, deleg = prefixStmts(body, recvName)
			acts = append(acts, deleg...)
		}
		walkStmts(body, false, func(s ast.Stmt, cond bool) {
			acts = append(acts, stmtActs(s, recvName, cond)...)
		})
		return map[string]any{"dir": r.Dir, "recv": r.Recv, "name": r.Name, "acts": acts, "first_stmt": first}
	} else {
		// constructor: composite literal of CtorOf + assignments on the variable bound to it
		varName := ""
		ast.Inspect(fd.Body, func(n ast.Node) bool {
			switch x := n.(type) {
			case *ast.CompositeLit:
				if src(x.Type) == r.CtorOf {
					for _, el := range x.Elts {
						if kv, ok := el.(*ast.KeyValueExpr); ok {
							acts = append(acts, []string{"init", src(kv.Key), "", "uncond"})
						}
					}
				}
			case *ast.AssignStmt:
				if len(x.Lhs) == 1 && len(x.Rhs) == 1 {
					rhs := x.Rhs[0]
					if u, ok := rhs.(*ast.UnaryExpr); ok && u.Op == token.AND {
						rhs = u.X
					}
					if cl, ok := rhs.(*ast.CompositeLit); ok && src(cl.Type) == r.CtorOf {
						if id, ok := x.Lhs[0].(*ast.Ident); ok {
							varName = id.Name
						}
					}
				}
			}
			return true
		})
		if varName != "" {
			walkStmts(fd.Body.List, false, func(s ast.Stmt, cond bool) {
				for _, a := range stmtActs(s, varName, cond) {
					if a[0] == "assign" {
						a[0] = "init"
					}
					acts = append(acts, a)
				}
			})
		}
	}
	return map[string]any{"dir": r.Dir, "recv": r.Recv, "name": r.Name, "acts": acts}
}

func walkStmts(list []ast.Stmt, cond bool, f func(ast.Stmt, bool)) {
	for _, s := range list {
		switch x := s.(type) {
		case *ast.BlockStmt:
			walkStmts(x.List, cond, f)
		case *ast.IfStmt:
			walkStmts(x.Body.List, true, f)
			if x.Else != nil {
				walkStmts([]ast.Stmt{x.Else}, true, f)
			}
		case *ast.ForStmt:
			walkStmts(x.Body.List, true, f)
		case *ast.RangeStmt:
			walkStmts(x.Body.List, true, f)
		case *ast.SwitchStmt:
			for _, c := range x.Body.List {
				walkStmts(c.(*ast.CaseClause).Body, true, f)
			}
		default:
			f(s, cond)
		}
	}
}

// prefixStmts returns the leading statements of a method body that only
// (re)initialise receiver state: calls recv.M() / recv.f.M(), assignments whose
// targets are all receiver fields, and `if recv.f != nil { recv.f.Reset(..) } else
// { recv.f = NewX(..) }` (reported as ["delegate", f, "Reset", "uncond"]: both
// arms leave f freshly initialised).  The prefix ends at the first other statement.
func prefixStmts(list []ast.Stmt, recv string) ([]ast.Stmt, [][]string) {
	var out []ast.Stmt
	var deleg [][]string
	for _, s := range list {
		switch x := s.(type) {
		case *ast.ExprStmt:
			c, ok := x.X.(*ast.CallExpr)
			if !ok {
				return out, deleg
			}
			if _, _, ok := selOn(c.Fun, recv); !ok {
				return out, deleg
			}
			// only the pure re-initialisers count; any other method call ends the prefix
			if sel, ok := c.Fun.(*ast.SelectorExpr); !ok || sel.Sel.Name != "Reset" {
				return out, deleg
			}
			out = append(out, s)
		case *ast.AssignStmt:
			for _, l := range x.Lhs {
				if _, _, ok := selOn(l, recv); !ok {
					return out, deleg
				}
			}
			out = append(out, s)
		case *ast.IfStmt:
			f, ok := resetOrNew(x, recv)
			if !ok {
				return out, deleg
			}
			deleg = append(deleg, []string{"delegate", f, "Reset", "uncond"})
		default:
			return out, deleg
		}
	}
	return out, deleg
}

// resetOrNew recognises `if recv.f != nil { recv.f.Reset(...) } else { recv.f = <call> }`.
func resetOrNew(x *ast.IfStmt, recv string) (string, bool) {
	if x.Init != nil || x.Else == nil || len(x.Body.List) != 1 {
		return "", false
	}
	els, ok := x.Else.(*ast.BlockStmt)
	if !ok || len(els.List) != 1 {
		return "", false
	}
	be, ok := x.Cond.(*ast.BinaryExpr)
	if !ok || be.Op != token.NEQ || src(be.Y) != "nil" {
		return "", false
	}
	f, rest, ok := selOn(be.X, recv)
	if !ok || len(rest) != 0 {
		return "", false
	}
	es, ok := x.Body.List[0].(*ast.ExprStmt)
	if !ok {
		return "", false
	}
	c, ok := es.X.(*ast.CallExpr)
	if !ok || src(c.Fun) != recv+"."+f+".Reset" {
		return "", false
	}
	as, ok := els.List[0].(*ast.AssignStmt)
	if !ok || len(as.Lhs) != 1 || src(as.Lhs[0]) != recv+"."+f || as.Tok != token.ASSIGN {
		return "", false
	}
	if _, ok := as.Rhs[0].(*ast.CallExpr); !ok {
		return "", false
	}
	return f, true
}

func selOn(e ast.Expr, recv string) (field string, rest []string, ok bool) {
	// e = recv.f(.g)*
	var chain []string
	for {
		switch x := e.(type) {
		case *ast.SelectorExpr:
			chain = append([]string{x.Sel.Name}, chain...)
			e = x.X
			continue
		case *ast.Ident:
			if x.Name == recv && len(chain) > 0 {
				return chain[0], chain[1:], true
			}
		}
		return "", nil, false
	}
}

func condTag(c bool) string {
	if c {
		return "cond"
	}
	return "uncond"
}

func stmtActs(s ast.Stmt, recv string, cond bool) [][]string {
	var out [][]string
	switch x := s.(type) {
	case *ast.AssignStmt:
		for i, l := range x.Lhs {
			f, rest, ok := selOn(l, recv)
			if !ok {
				continue
			}
			// recv.f = T{k: v, ...}: every named sub-field gets its own act, all others are zeroed
			if x.Tok == token.ASSIGN && len(x.Lhs) == len(x.Rhs) && len(rest) == 0 {
				if cl, ok := x.Rhs[i].(*ast.CompositeLit); ok && len(cl.Elts) > 0 {
					allKV := true
					for _, el := range cl.Elts {
						if _, ok := el.(*ast.KeyValueExpr); !ok {
							allKV = false
						}
					}
					if allKV {
						for _, el := range cl.Elts {
							kv := el.(*ast.KeyValueExpr)
							sub := src(l) + "." + src(kv.Key)
							h := "assign"
							if sl, ok := kv.Value.(*ast.SliceExpr); ok && src(sl.X) == sub && sl.Low == nil && sl.High != nil && src(sl.High) == "0" {
								h = "truncate"
							} else if mentions(kv.Value, src(l)) {
								h = "update"
							}
							out = append(out, []string{"sub", f, src(kv.Key), condTag(cond), h})
						}
						out = append(out, []string{"litzero", f, "", condTag(cond)})
						continue
					}
				}
			}
			how := "assign"
			if x.Tok != token.ASSIGN {
				how = "update" // += etc: depends on the old value
			} else if i < len(x.Rhs) && len(x.Lhs) == len(x.Rhs) {
				rhs := x.Rhs[i]
				if sl, ok := rhs.(*ast.SliceExpr); ok && src(sl.X) == src(l) && sl.Low == nil && sl.High != nil && src(sl.High) == "0" {
					how = "truncate"
				} else if mentions(rhs, src(l)) {
					how = "update"
				}
			}
			if len(rest) == 0 {
				out = append(out, []string{how, f, "", condTag(cond)})
			} else {
				out = append(out, []string{"sub", f, strings.Join(rest, "."), condTag(cond), how})
			}
		}
	case *ast.IncDecStmt:
		if f, rest, ok := selOn(x.X, recv); ok {
			out = append(out, []string{"update", f, strings.Join(rest, "."), condTag(cond)})
		}
	case *ast.ExprStmt:
		if c, ok := x.X.(*ast.CallExpr); ok {
			if id, ok := c.Fun.(*ast.Ident); ok && id.Name == "clear" && len(c.Args) == 1 {
				if f, rest, ok := selOn(c.Args[0], recv); ok {
					if len(rest) == 0 {
						out = append(out, []string{"clear", f, "", condTag(cond)})
					} else {
						out = append(out, []string{"sub", f, strings.Join(rest, "."), condTag(cond), "clear"})
					}
				}
			} else if f, rest, ok := selOn(c.Fun, recv); ok && len(rest) == 1 {
				out = append(out, []string{"call", f, rest[0], condTag(cond)})
			}
		}
	}
	return out
}

func mentions(e ast.Expr, text string) bool {
	found := false
	ast.Inspect(e, func(n ast.Node) bool {
		if ex, ok := n.(ast.Expr); ok && src(ex) == text {
			found = true
		}
		return !found
	})
	return found
}

// ------------------------------------------------------------------ map walks

// classify a `for k, v := range m` body syntactically.
//
//	"a"  order-insensitive accumulation: every statement of the body (at any
//	     depth under if/switch/inner-for) is one of
//	       m2[key] = e / m2[key] op= const-free-of-order (only `= e`, `|=`, `+=` on integers, `++`)
//	       flag = true/false/constant ; x |= e ; n++ ; n += e (integer/float sums are commutative only for ints: see note)
//	       delete(m2, k) ; continue ; calls of functions named in pureCalls ;
//	       `if cond { return constant }` / `break` after setting a flag (found-flag idiom:
//	        result does not depend on which element triggers)
//	       local `:=` definitions
//	     and no statement appends to a slice, writes to a Writer/Builder, or
//	     calls a method on anything but the local values.
//	"b"  collect-then-sort: the body's only effect is `s = append(s, ...)`
//	     (possibly under if) on slice(s) S, and later in the same function, before
//	     any other use of S, S is passed to sort.*/slices.Sort*/a function whose
//	     name starts with "sort", or the function contains the hand-written
//	     nested-loop swap idiom over S.
//	"c"  anything else.
type walkSite struct {
	File   string   `json:"file"`
	Line   int      `json:"line"`
	Func   string   `json:"func"`
	Expr   string   `json:"expr"`
	Ord    int      `json:"ord"` // ordinal of this map walk among map walks in the same function
	Class  string   `json:"class"`
	Why    string   `json:"why"`
	Body   string   `json:"body"`
	Sorted []string `json:"sorted"`
}

func mapWalks(p *pkgInfo) []any {
	var out []any
	for i, f := range p.files {
		for _, d := range f.Decls {
			fd, ok := d.(*ast.FuncDecl)
			if !ok || fd.Body == nil {
				continue
			}
			fname := fd.Name.Name
			if fd.Recv != nil && len(fd.Recv.List) > 0 {
				t := fd.Recv.List[0].Type
				if s, ok := t.(*ast.StarExpr); ok {
					t = s.X
				}
				fname = src(t) + "." + fname
			}
			ord := 0
			ast.Inspect(fd.Body, func(n ast.Node) bool {
				rs, ok := n.(*ast.RangeStmt)
				if !ok {
					return true
				}
				tv, ok := p.info.Types[rs.X]
				if !ok || tv.Type == nil {
					return true
				}
				if _, isMap := tv.Type.Underlying().(*types.Map); !isMap {
					return true
				}
				cls, why, sorted := classify(p, fd, rs)
				out = append(out, walkSite{File: p.names[i], Line: fset.Position(rs.Pos()).Line, Func: fname,
					Expr: src(rs.X), Ord: ord, Class: cls, Why: why, Body: src(rs.Body), Sorted: sorted})
				ord++
				return true
			})
		}
	}
	return out
}

func isIntegerOrBool(p *pkgInfo, e ast.Expr) bool {
	tv, ok := p.info.Types[e]
	if !ok || tv.Type == nil {
		return false
	}
	b, ok := tv.Type.Underlying().(*types.Basic)
	return ok && b.Info()&(types.IsInteger|types.IsBoolean) != 0
}

func isMapIndex(p *pkgInfo, e ast.Expr) bool {
	ix, ok := e.(*ast.IndexExpr)
	if !ok {
		return false
	}
	tv, ok := p.info.Types[ix.X]
	if !ok || tv.Type == nil {
		return false
	}
	_, isMap := tv.Type.Underlying().(*types.Map)
	return isMap
}

func isConstLike(p *pkgInfo, e ast.Expr) bool {
	tv, ok := p.info.Types[e]
	if ok && tv.Value != nil {
		return true
	}
	if id, ok := e.(*ast.Ident); ok && (id.Name == "true" || id.Name == "false" || id.Name == "nil") {
		return true
	}
	if cl, ok := e.(*ast.CompositeLit); ok && len(cl.Elts) == 0 {
		return true // struct{}{}
	}
	return false
}

// impureCall returns the first call inside e that is not known to be free of
// side effects: conversions, len/cap/min/max/make/new, functions of the scanned
// packages that are read-only by readOnly (below), and a few standard-library
// functions are accepted.
func impureCall(p *pkgInfo, e ast.Node) string {
	bad := ""
	ast.Inspect(e, func(n ast.Node) bool {
		c, ok := n.(*ast.CallExpr)
		if !ok || bad != "" {
			return bad == ""
		}
		if callIsPure(p, c) {
			return true
		}
		bad = src(c.Fun)
		return false
	})
	return bad
}

var pureStd = map[string]bool{
	"math": true, "math/bits": true, "strings": true, "strconv": true, "unicode": true, "unicode/utf8": true,
	"fmt.Sprintf": true, "fmt.Sprint": true, "fmt.Errorf": true, "errors.New": true,
}

func calleeOf(p *pkgInfo, c *ast.CallExpr) *types.Func {
	switch f := c.Fun.(type) {
	case *ast.Ident:
		if fn, ok := p.info.Uses[f].(*types.Func); ok {
			return fn
		}
	case *ast.SelectorExpr:
		if sel, ok := p.info.Selections[f]; ok {
			if fn, ok := sel.Obj().(*types.Func); ok {
				if _, isIface := sel.Recv().Underlying().(*types.Interface); isIface {
					return nil // dynamic dispatch: unknown callee
				}
				return fn
			}
			return nil
		}
		if fn, ok := p.info.Uses[f.Sel].(*types.Func); ok { // pkg.Func
			return fn
		}
	}
	return nil
}

func callIsPure(p *pkgInfo, c *ast.CallExpr) bool {
	if tv, ok := p.info.Types[c.Fun]; ok && tv.IsType() {
		return true // conversion
	}
	if id, ok := c.Fun.(*ast.Ident); ok {
		if _, isBuiltin := p.info.Uses[id].(*types.Builtin); isBuiltin {
			switch id.Name {
			case "len", "cap", "min", "max", "make", "new", "panic", "real", "imag", "complex":
				return true
			}
			return false
		}
	}
	fn := calleeOf(p, c)
	if fn == nil || fn.Pkg() == nil {
		return false
	}
	path := fn.Pkg().Path()
	if path == modPath || strings.HasPrefix(path, modPath+"/") {
		return readOnly(fn)
	}
	if sig, ok := fn.Type().(*types.Signature); ok && sig.Recv() != nil {
		return false // methods of standard-library types (Builder.WriteString, ...) may mutate their receiver
	}
	return pureStd[path] || pureStd[path+"."+fn.Name()]
}

// readOnly: a function of the scanned packages whose body, syntactically,
// writes only its own local variables (plain identifiers declared inside it,
// or elements/fields of locals freshly made inside it), starts no goroutine,
// and calls only functions that are pure by callIsPure.  Recursion is assumed
// read-only (greatest fixed point).  This is an approximation: aliasing of a
// fresh local with shared storage through a later assignment is not tracked.
var roState = map[*types.Func]int{} // 1 = in progress / assumed, 2 = read-only, 3 = not
var funcIndex map[*types.Func]struct {
	p  *pkgInfo
	fd *ast.FuncDecl
}

func buildFuncIndex() {
	funcIndex = map[*types.Func]struct {
		p  *pkgInfo
		fd *ast.FuncDecl
	}{}
	for _, p := range pkgs {
		if p == nil {
			continue
		}
		for _, f := range p.files {
			for _, d := range f.Decls {
				if fd, ok := d.(*ast.FuncDecl); ok && fd.Body != nil {
					if fn, ok := p.info.Defs[fd.Name].(*types.Func); ok {
						funcIndex[fn] = struct {
							p  *pkgInfo
							fd *ast.FuncDecl
						}{p, fd}
					}
				}
			}
		}
	}
}

func readOnly(fn *types.Func) bool {
	fn = fn.Origin()
	switch roState[fn] {
	case 1, 2:
		return true
	case 3:
		return false
	}
	if funcIndex == nil || len(funcIndex) == 0 {
		buildFuncIndex()
	}
	ent, ok := funcIndex[fn]
	if !ok {
		buildFuncIndex() // packages may have been loaded since
		ent, ok = funcIndex[fn]
		if !ok {
			roState[fn] = 3
			return false
		}
	}
	roState[fn] = 1
	okRO := bodyReadOnly(ent.p, ent.fd)
	if okRO {
		roState[fn] = 2
	} else {
		roState[fn] = 3
		// conservative: results assumed during this computation that depended on fn being read-only are
		// not revisited; to stay sound, forget every "assumed" entry
		for k, v := range roState {
			if v == 1 {
				delete(roState, k)
			}
		}
	}
	return okRO
}

func bodyReadOnly(p *pkgInfo, fd *ast.FuncDecl) bool {
	inFunc := func(o types.Object) bool {
		return o != nil && o.Pos() >= fd.Pos() && o.Pos() <= fd.End()
	}
	fresh := map[types.Object]bool{}
	ast.Inspect(fd.Body, func(n ast.Node) bool {
		switch x := n.(type) {
		case *ast.AssignStmt:
			if x.Tok == token.DEFINE && len(x.Lhs) == len(x.Rhs) {
				for k, l := range x.Lhs {
					id, ok := l.(*ast.Ident)
					if !ok {
						continue
					}
					isFresh := false
					switch r := x.Rhs[k].(type) {
					case *ast.CompositeLit:
						isFresh = true
					case *ast.CallExpr:
						if f, ok := r.Fun.(*ast.Ident); ok && (f.Name == "make" || f.Name == "new") {
							isFresh = true
						}
					}
					if isFresh {
						if o := p.info.Defs[id]; o != nil {
							fresh[o] = true
						}
					}
				}
			}
		case *ast.DeclStmt:
			if gd, ok := x.Decl.(*ast.GenDecl); ok {
				for _, sp := range gd.Specs {
					if vs, ok := sp.(*ast.ValueSpec); ok && len(vs.Values) == 0 {
						for _, id := range vs.Names {
							if o := p.info.Defs[id]; o != nil {
								fresh[o] = true
							}
						}
					}
				}
			}
		}
		return true
	})
	var localTarget func(e ast.Expr, top bool) bool
	localTarget = func(e ast.Expr, top bool) bool {
		switch x := e.(type) {
		case *ast.Ident:
			if x.Name == "_" {
				return true
			}
			o := p.info.Uses[x]
			if o == nil {
				o = p.info.Defs[x]
			}
			if !inFunc(o) {
				return false
			}
			if top {
				return true // plain local variable (or parameter: a copy)
			}
			return fresh[o]
		case *ast.IndexExpr:
			return localTarget(x.X, false)
		case *ast.SelectorExpr:
			// field of a by-value local struct
			if tv, ok := p.info.Types[x.X]; ok && tv.Type != nil {
				if _, isPtr := tv.Type.Underlying().(*types.Pointer); isPtr {
					return false
				}
			}
			if id, ok := x.X.(*ast.Ident); ok {
				o := p.info.Uses[id]
				return inFunc(o)
			}
			return localTarget(x.X, false)
		case *ast.ParenExpr:
			return localTarget(x.X, top)
		}
		return false
	}
	ok := true
	ast.Inspect(fd.Body, func(n ast.Node) bool {
		if !ok {
			return false
		}
		switch x := n.(type) {
		case *ast.AssignStmt:
			if x.Tok != token.DEFINE {
				for _, l := range x.Lhs {
					if !localTarget(l, true) {
						ok = false
					}
				}
			}
		case *ast.IncDecStmt:
			if !localTarget(x.X, true) {
				ok = false
			}
		case *ast.RangeStmt:
			if x.Tok == token.ASSIGN {
				if x.Key != nil && !localTarget(x.Key, true) {
					ok = false
				}
				if x.Value != nil && !localTarget(x.Value, true) {
					ok = false
				}
			}
		case *ast.GoStmt, *ast.SendStmt, *ast.DeferStmt:
			ok = false
		case *ast.CallExpr:
			if id, isId := x.Fun.(*ast.Ident); isId {
				if _, isBuiltin := p.info.Uses[id].(*types.Builtin); isBuiltin {
					switch id.Name {
					case "append":
						return true // result matters only where it is assigned (checked above)
					case "delete", "clear", "copy":
						if len(x.Args) == 0 || !localTarget(x.Args[0], false) {
							ok = false
						}
						return true
					}
				}
			}
			if !callIsPure(p, x) {
				ok = false
			}
		}
		return ok
	})
	return ok
}

func classify(p *pkgInfo, fd *ast.FuncDecl, rs *ast.RangeStmt) (string, string, []string) {
	appends := map[string]bool{}
	other := ""
	note := func(s string) {
		if other == "" {
			other = s
		}
	}
	locals := map[string]bool{}
	if id, ok := rs.Key.(*ast.Ident); ok {
		locals[id.Name] = true
	}
	if id, ok := rs.Value.(*ast.Ident); ok {
		locals[id.Name] = true
	}
	var visit func(list []ast.Stmt)
	visitExprPure := func(e ast.Node, what string) {
		if e == nil {
			return
		}
		if c := impureCall(p, e); c != "" {
			note("calls " + c + " in " + what)
		}
	}
	visit = func(list []ast.Stmt) {
		for _, s := range list {
			switch x := s.(type) {
			case *ast.BlockStmt:
				visit(x.List)
			case *ast.IfStmt:
				if x.Init != nil {
					visit([]ast.Stmt{x.Init})
				}
				visitExprPure(x.Cond, "condition")
				visit(x.Body.List)
				if x.Else != nil {
					visit([]ast.Stmt{x.Else})
				}
			case *ast.SwitchStmt:
				if x.Init != nil {
					visit([]ast.Stmt{x.Init})
				}
				visitExprPure(x.Tag, "switch tag")
				for _, c := range x.Body.List {
					visit(c.(*ast.CaseClause).Body)
				}
			case *ast.TypeSwitchStmt:
				visit([]ast.Stmt{x.Assign})
				for _, c := range x.Body.List {
					visit(c.(*ast.CaseClause).Body)
				}
			case *ast.ForStmt:
				if x.Init != nil {
					visit([]ast.Stmt{x.Init})
				}
				visitExprPure(x.Cond, "loop condition")
				if x.Post != nil {
					visit([]ast.Stmt{x.Post})
				}
				visit(x.Body.List)
			case *ast.RangeStmt:
				if id, ok := x.Key.(*ast.Ident); ok && x.Tok == token.DEFINE {
					locals[id.Name] = true
				}
				if id, ok := x.Value.(*ast.Ident); ok && x.Tok == token.DEFINE {
					locals[id.Name] = true
				}
				visitExprPure(x.X, "inner range")
				visit(x.Body.List)
			case *ast.BranchStmt:
				// continue: harmless. break: harmless only in the found-flag idiom, where
				// every effect before it is a constant assignment (checked by the rules for
				// assignments: a flag set to a constant is the same whichever element sets it).
				if x.Tok == token.GOTO {
					note("goto")
				}
			case *ast.ReturnStmt:
				for _, r := range x.Results {
					if !isConstLike(p, r) {
						note("returns a non-constant from inside the walk: " + src(r))
					}
				}
			case *ast.DeclStmt:
				if gd, ok := x.Decl.(*ast.GenDecl); ok {
					for _, sp := range gd.Specs {
						if vs, ok := sp.(*ast.ValueSpec); ok {
							for _, n := range vs.Names {
								locals[n.Name] = true
							}
							for _, v := range vs.Values {
								visitExprPure(v, "declaration")
							}
						}
					}
				}
			case *ast.IncDecStmt:
				if !isIntegerOrBool(p, x.X) {
					note("++/-- on non-integer " + src(x.X))
				}
			case *ast.ExprStmt:
				c, ok := x.X.(*ast.CallExpr)
				if !ok {
					note("expression statement " + src(x.X))
					break
				}
				if id, ok := c.Fun.(*ast.Ident); ok && id.Name == "delete" {
					break
				}
				note("calls " + src(c.Fun))
			case *ast.AssignStmt:
				for _, r := range x.Rhs {
					// append is handled below
					if c, ok := r.(*ast.CallExpr); ok {
						if id, ok := c.Fun.(*ast.Ident); ok && id.Name == "append" {
							for _, a := range c.Args[1:] {
								visitExprPure(a, "append argument")
							}
							continue
						}
					}
					visitExprPure(r, "assignment")
				}
				if x.Tok == token.DEFINE {
					for _, l := range x.Lhs {
						if id, ok := l.(*ast.Ident); ok {
							locals[id.Name] = true
						}
					}
					break
				}
				for i, l := range x.Lhs {
					var r ast.Expr
					if len(x.Lhs) == len(x.Rhs) {
						r = x.Rhs[i]
					}
					// slice append
					if c, ok := r.(*ast.CallExpr); ok {
						if id, ok := c.Fun.(*ast.Ident); ok && id.Name == "append" && len(c.Args) > 0 && src(c.Args[0]) == src(l) {
							if root := rootIdent(l); root != "" && locals[root] {
								break // append to a slice local to one iteration
							}
							appends[src(l)] = true
							continue
						}
					}
					if id, ok := l.(*ast.Ident); ok && (locals[id.Name] || id.Name == "_") {
						continue
					}
					if root := rootIdent(l); root != "" && locals[root] && !isPointerRooted(p, l) {
						continue
					}
					switch {
					case isMapIndex(p, l):
						// insertion into a map: order-insensitive iff the stored value does not
						// depend on earlier iterations: plain `=`; or integer `+=`/`|=`.
						if x.Tok == token.ASSIGN {
							continue
						}
						if (x.Tok == token.ADD_ASSIGN || x.Tok == token.OR_ASSIGN || x.Tok == token.AND_ASSIGN) && isIntegerOrBool(p, l) {
							continue
						}
						note("map update " + src(x))
					case x.Tok == token.ASSIGN && r != nil && isConstLike(p, r):
						continue // flag = constant
					case (x.Tok == token.OR_ASSIGN || x.Tok == token.AND_ASSIGN || x.Tok == token.ADD_ASSIGN || x.Tok == token.XOR_ASSIGN) && isIntegerOrBool(p, l):
						continue // commutative, associative integer accumulation
					case x.Tok == token.ASSIGN && r != nil && isMinMaxOrOfSelf(l, r) && isIntegerOrBool(p, l):
						continue
					default:
						note("assigns " + src(l) + " " + x.Tok.String() + " (value depends on the element)")
					}
				}
			case *ast.EmptyStmt:
			default:
				note(fmt.Sprintf("statement %T", s))
			}
		}
	}
	visit(rs.Body.List)
	// guarded max/min idiom `if v > best { best = v }` is classified "c" unless written with max();
	// keep the rule simple: reviewers list such sites.
	if other != "" {
		return "c", other, nil
	}
	if len(appends) == 0 {
		return "a", "order-insensitive accumulation (map inserts / constant flags / integer |= += / delete)", nil
	}
	// every appended slice must be sorted later in the same function before other use
	var names []string
	for s := range appends {
		names = append(names, s)
	}
	sort.Strings(names)
	for _, s := range names {
		if why := sortedAfter(fd, rs, s); why != "" {
			return "c", "appends to " + s + " which is " + why, nil
		}
	}
	return "b", "collect-then-sort", names
}

func isMinMaxOrOfSelf(l, r ast.Expr) bool {
	c, ok := r.(*ast.CallExpr)
	if !ok {
		return false
	}
	id, ok := c.Fun.(*ast.Ident)
	if !ok || (id.Name != "max" && id.Name != "min") {
		return false
	}
	for _, a := range c.Args {
		if src(a) == src(l) {
			return true
		}
	}
	return false
}

func rootIdent(e ast.Expr) string {
	for {
		switch x := e.(type) {
		case *ast.Ident:
			return x.Name
		case *ast.SelectorExpr:
			e = x.X
		case *ast.IndexExpr:
			e = x.X
		case *ast.StarExpr:
			e = x.X
		case *ast.ParenExpr:
			e = x.X
		default:
			return ""
		}
	}
}

// isPointerRooted: `v.f = e` where v is a loop-local pointer (or map/slice)
// writes shared memory, not a per-iteration copy.
func isPointerRooted(p *pkgInfo, l ast.Expr) bool {
	for {
		switch x := l.(type) {
		case *ast.SelectorExpr:
			if tv, ok := p.info.Types[x.X]; ok && tv.Type != nil {
				if _, ok := tv.Type.Underlying().(*types.Pointer); ok {
					return true
				}
			}
			l = x.X
		case *ast.IndexExpr:
			if tv, ok := p.info.Types[x.X]; ok && tv.Type != nil {
				switch tv.Type.Underlying().(type) {
				case *types.Slice, *types.Map, *types.Pointer:
					return true
				}
			}
			l = x.X
		case *ast.StarExpr:
			return true
		case *ast.ParenExpr:
			l = x.X
		default:
			return false
		}
	}
}

// sortedAfter: "" if, after the range statement, the first statement of the
// enclosing function that mentions slice `name` sorts it. Otherwise a reason.
func sortedAfter(fd *ast.FuncDecl, rs *ast.RangeStmt, name string) string {
	rests, ok := restsAfter(fd.Body.List, rs)
	if !ok {
		return "not found in its function"
	}
	for _, after := range rests {
		for _, s := range after {
			if !mentionsText(s, name) {
				continue
			}
			if isSortStmt(s, name) {
				return ""
			}
			return "used before being sorted: " + firstLine(src(s))
		}
	}
	return "never sorted in the rest of its function"
}

// restsAfter returns the statement lists that follow rs, innermost block first.
func restsAfter(list []ast.Stmt, rs *ast.RangeStmt) ([][]ast.Stmt, bool) {
	for i, s := range list {
		if s == ast.Stmt(rs) {
			return [][]ast.Stmt{list[i+1:]}, true
		}
		var inner [][]ast.Stmt
		found := false
		ast.Inspect(s, func(n ast.Node) bool {
			if found {
				return false
			}
			var l []ast.Stmt
			switch b := n.(type) {
			case *ast.BlockStmt:
				l = b.List
			case *ast.CaseClause:
				l = b.Body
			case *ast.CommClause:
				l = b.Body
			default:
				return true
			}
			if r, ok := restsAfter(l, rs); ok {
				inner = r
				found = true
			}
			return false
		})
		if found {
			return append(inner, list[i+1:]), true
		}
	}
	return nil, false
}

func firstLine(s string) string {
	if i := strings.IndexByte(s, '\n'); i >= 0 {
		return s[:i]
	}
	return s
}

func mentionsText(n ast.Node, text string) bool {
	found := false
	ast.Inspect(n, func(m ast.Node) bool {
		if e, ok := m.(ast.Expr); ok && src(e) == text {
			found = true
		}
		return !found
	})
	return found
}

func isSortStmt(s ast.Stmt, name string) bool {
	// sort.X(name...), slices.SortX(name...), sortFoo(name), name = sortedFoo(name)
	var call *ast.CallExpr
	switch x := s.(type) {
	case *ast.ExprStmt:
		call, _ = x.X.(*ast.CallExpr)
	case *ast.AssignStmt:
		if len(x.Rhs) == 1 {
			call, _ = x.Rhs[0].(*ast.CallExpr)
		}
	case *ast.IfStmt:
		// `if len(s) > 1 { sort... }`
		if len(x.Body.List) == 1 && x.Else == nil {
			return isSortStmt(x.Body.List[0], name)
		}
	case *ast.ForStmt:
		return isSwapSortLoop(x, name)
	}
	if call == nil || len(call.Args) == 0 {
		return false
	}
	arg0 := call.Args[0]
	if c, ok := arg0.(*ast.CallExpr); ok && len(c.Args) == 1 { // sort.Sort(byX(name))
		arg0 = c.Args[0]
	}
	if src(arg0) != name {
		return false
	}
	fn := src(call.Fun)
	low := strings.ToLower(fn)
	return strings.HasPrefix(fn, "sort.") || strings.HasPrefix(fn, "slices.Sort") || strings.HasPrefix(low, "sort") ||
		strings.Contains(low, ".sort")
}

// hand-written sort idiom: for i := ...; { for j := ...; { if name[j] < name[i] { name[i], name[j] = name[j], name[i] } } }
func isSwapSortLoop(f *ast.ForStmt, name string) bool {
	swap := false
	inner := false
	ast.Inspect(f.Body, func(n ast.Node) bool {
		switch x := n.(type) {
		case *ast.ForStmt:
			inner = true
		case *ast.AssignStmt:
			if len(x.Lhs) == 2 && len(x.Rhs) == 2 && src(x.Lhs[0]) == src(x.Rhs[1]) && src(x.Lhs[1]) == src(x.Rhs[0]) &&
				strings.HasPrefix(src(x.Lhs[0]), name+"[") {
				swap = true
			}
		}
		return true
	})
	return swap && inner
}

// ------------------------------------------------------------------ package-level variables

// pkgGlobals lists package-level `var`s and how they are written after
// initialisation: assignment to the variable or through it (v = .., v[k] = ..,
// v.f = .., v = append(v..), clear/delete(v..), &v, v++), or a method call on
// a variable whose type comes from package sync / sync/atomic.
func pkgGlobals(p *pkgInfo) []any {
	type gv struct {
		File   string   `json:"file"`
		Line   int      `json:"line"`
		Pkg    string   `json:"pkg"`
		Name   string   `json:"name"`
		Type   string   `json:"type"`
		Kind   string   `json:"kind"`
		Writes []string `json:"writes"`
	}
	vars := map[types.Object]*gv{}
	var order []*gv
	for i, f := range p.files {
		for _, d := range f.Decls {
			gd, ok := d.(*ast.GenDecl)
			if !ok || gd.Tok != token.VAR {
				continue
			}
			for _, sp := range gd.Specs {
				vs := sp.(*ast.ValueSpec)
				for _, n := range vs.Names {
					if n.Name == "_" {
						continue
					}
					obj := p.info.Defs[n]
					if obj == nil {
						continue
					}
					g := &gv{Writes: []string{}, File: p.names[i], Line: fset.Position(n.Pos()).Line, Pkg: p.dir, Name: n.Name,
						Type: types.TypeString(obj.Type(), func(q *types.Package) string { return q.Name() }), Kind: kindOf(obj.Type())}
					vars[obj] = g
					order = append(order, g)
				}
			}
		}
	}
	rootObj := func(e ast.Expr) types.Object {
		for {
			switch x := e.(type) {
			case *ast.Ident:
				return p.info.Uses[x]
			case *ast.SelectorExpr:
				// pkg-qualified or field selection: walk to the base
				if id, ok := x.X.(*ast.Ident); ok {
					if _, isPkg := p.info.Uses[id].(*types.PkgName); isPkg {
						return p.info.Uses[x.Sel]
					}
				}
				e = x.X
			case *ast.IndexExpr:
				e = x.X
			case *ast.StarExpr:
				e = x.X
			case *ast.ParenExpr:
				e = x.X
			case *ast.SliceExpr:
				e = x.X
			default:
				return nil
			}
		}
	}
	noteWrite := func(e ast.Expr, how string, at token.Pos, fn string) {
		if obj := rootObj(e); obj != nil {
			if g, ok := vars[obj]; ok {
				g.Writes = append(g.Writes, fmt.Sprintf("%s in %s", how, fn))
			}
		}
	}
	for _, f := range p.files {
		for _, d := range f.Decls {
			fd, ok := d.(*ast.FuncDecl)
			if !ok || fd.Body == nil {
				continue
			}
			fn := fd.Name.Name
			ast.Inspect(fd.Body, func(n ast.Node) bool {
				switch x := n.(type) {
				case *ast.AssignStmt:
					if x.Tok == token.DEFINE {
						return true
					}
					for _, l := range x.Lhs {
						noteWrite(l, "assigned", x.Pos(), fn)
					}
				case *ast.IncDecStmt:
					noteWrite(x.X, "inc/dec", x.Pos(), fn)
				case *ast.UnaryExpr:
					if x.Op == token.AND {
						noteWrite(x.X, "address taken", x.Pos(), fn)
					}
				case *ast.CallExpr:
					if id, ok := x.Fun.(*ast.Ident); ok && (id.Name == "clear" || id.Name == "delete") && len(x.Args) > 0 {
						noteWrite(x.Args[0], id.Name, x.Pos(), fn)
					}
					if sel, ok := x.Fun.(*ast.SelectorExpr); ok {
						if obj := rootObj(sel.X); obj != nil {
							if g, ok := vars[obj]; ok && (strings.HasPrefix(g.Type, "sync.") || strings.HasPrefix(g.Type, "atomic.") || strings.HasPrefix(g.Type, "*sync.")) {
								g.Writes = append(g.Writes, fmt.Sprintf("method %s in %s", sel.Sel.Name, fn))
							}
						}
					}
				}
				return true
			})
		}
	}
	var out []any
	for _, g := range order {
		sort.Strings(g.Writes)
		out = append(out, g)
	}
	return out
}

// ------------------------------------------------------------------ writes into the IR

// irWrites lists assignments (and ++/--, clear, delete, append-assign) whose
// target lies in storage of a type declared in package ir that is reached
// through a pointer, slice element or map (i.e. storage that may belong to the
// caller's module), e.g. `gv.Binding = x` with gv *ir.GlobalVariable,
// `m.Types[i].Name = s`, `fn.Body[i] = st`.  Writes to a local by-value copy
// (`var t ir.Type; t.Name = ..`) and to fields of non-ir structs are not listed.
func irWrites(p *pkgInfo) []any {
	if p == nil {
		return nil
	}
	isIR := func(t types.Type) bool {
		for {
			switch u := t.(type) {
			case *types.Pointer:
				t = u.Elem()
				continue
			case *types.Slice:
				t = u.Elem()
				continue
			case *types.Array:
				t = u.Elem()
				continue
			case *types.Named:
				if u.Obj().Pkg() == nil || u.Obj().Pkg().Path() != modPath+"/ir" {
					return false
				}
				switch u.Underlying().(type) {
				case *types.Struct, *types.Interface, *types.Slice, *types.Map:
					return true // handles and enums (basic underlying types) are values, not storage
				}
				return false
			}
			return false
		}
	}
	typeOf := func(e ast.Expr) types.Type {
		if tv, ok := p.info.Types[e]; ok {
			return tv.Type
		}
		return nil
	}
	// shared reports whether the storage denoted by e is reached through a pointer/slice/map whose
	// element/pointee type is declared in ir.
	var shared func(e ast.Expr) bool
	shared = func(e ast.Expr) bool {
		switch x := e.(type) {
		case *ast.SelectorExpr:
			t := typeOf(x.X)
			if t == nil {
				return false
			}
			if pt, ok := t.Underlying().(*types.Pointer); ok && isIR(pt.Elem()) {
				return true
			}
			return shared(x.X)
		case *ast.IndexExpr:
			t := typeOf(x.X)
			if t == nil {
				return false
			}
			switch u := t.Underlying().(type) {
			case *types.Slice:
				if isIR(u.Elem()) || isIR(t) {
					return true
				}
			case *types.Map:
				if isIR(t) {
					return true
				}
			case *types.Pointer:
				if isIR(u.Elem()) {
					return true
				}
			}
			return shared(x.X)
		case *ast.StarExpr:
			t := typeOf(x.X)
			if t != nil && isIR(t) {
				return true
			}
			return shared(x.X)
		case *ast.ParenExpr:
			return shared(x.X)
		}
		return false
	}
	var out []any
	for i, f := range p.files {
		for _, d := range f.Decls {
			fd, ok := d.(*ast.FuncDecl)
			if !ok || fd.Body == nil {
				continue
			}
			fname := fd.Name.Name
			if fd.Recv != nil && len(fd.Recv.List) > 0 {
				t := fd.Recv.List[0].Type
				if st, ok := t.(*ast.StarExpr); ok {
					t = st.X
				}
				fname = src(t) + "." + fname
			}
			// slices/maps freshly made in this function are private storage
			fresh := map[types.Object]bool{}
			ast.Inspect(fd.Body, func(n ast.Node) bool {
				switch x := n.(type) {
				case *ast.AssignStmt:
					if x.Tok == token.DEFINE && len(x.Lhs) == len(x.Rhs) {
						for k, l := range x.Lhs {
							id, ok := l.(*ast.Ident)
							if !ok {
								continue
							}
							isFresh := false
							switch r := x.Rhs[k].(type) {
							case *ast.CompositeLit:
								isFresh = true
							case *ast.CallExpr:
								if f, ok := r.Fun.(*ast.Ident); ok && (f.Name == "make" || f.Name == "new") {
									isFresh = true
								}
							case *ast.UnaryExpr:
								if _, ok := r.X.(*ast.CompositeLit); ok && r.Op == token.AND {
									isFresh = true
								}
							}
							if isFresh {
								if o := p.info.Defs[id]; o != nil {
									fresh[o] = true
								}
							}
						}
					}
				case *ast.DeclStmt:
					if gd, ok := x.Decl.(*ast.GenDecl); ok {
						for _, sp := range gd.Specs {
							if vs, ok := sp.(*ast.ValueSpec); ok && len(vs.Values) == 0 {
								for _, id := range vs.Names {
									if o := p.info.Defs[id]; o != nil {
										fresh[o] = true
									}
								}
							}
						}
					}
				}
				return true
			})
			// directRoot: e = x[i][j]..., or a by-value field x[i].f of such an element, with x a fresh local: private
			var directRoot func(e ast.Expr) types.Object
			directRoot = func(e ast.Expr) types.Object {
				switch x := e.(type) {
				case *ast.Ident:
					return p.info.Uses[x]
				case *ast.IndexExpr:
					return directRoot(x.X)
				case *ast.ParenExpr:
					return directRoot(x.X)
				case *ast.SelectorExpr:
					// field of a struct VALUE stored in the fresh slice/array (not reached through a pointer)
					if t := typeOf(x.X); t != nil {
						if _, isPtr := t.Underlying().(*types.Pointer); !isPtr {
							if _, isIdx := x.X.(*ast.IndexExpr); isIdx {
								return directRoot(x.X)
							}
						}
					}
				}
				return nil
			}
			note := func(e ast.Expr, how string) {
				if _, isIdent := e.(*ast.Ident); isIdent {
					return
				}
				if o := directRoot(e); o != nil && fresh[o] {
					return
				}
				if shared(e) {
					out = append(out, map[string]any{"file": p.names[i], "line": fset.Position(e.Pos()).Line, "func": fname, "target": src(e), "how": how})
				}
			}
			ast.Inspect(fd.Body, func(n ast.Node) bool {
				switch x := n.(type) {
				case *ast.AssignStmt:
					if x.Tok == token.DEFINE {
						return true
					}
					for _, l := range x.Lhs {
						note(l, "assign")
					}
				case *ast.IncDecStmt:
					note(x.X, "incdec")
				case *ast.CallExpr:
					if id, ok := x.Fun.(*ast.Ident); ok && (id.Name == "clear" || id.Name == "delete") && len(x.Args) > 0 {
						note(x.Args[0], id.Name)
					}
				}
				return true
			})
		}
	}
	return out
}
