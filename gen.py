"""The translator's back half: writes coq/Gen/*.v from tables that
harness/cmd/goextract reads out of /repo's current working tree (go/ast).
Every generator returns the list of files it wrote (relative to coq/).
A table that cannot be found or mapped is a translation failure: GenError."""
import json
import os
import sys

sys.path.insert(0, os.path.join(os.path.dirname(os.path.abspath(__file__)), "lib"))
import vcheck

GEN = os.path.join(vcheck.COQ, "Gen")


class GenError(Exception):
    pass


def extract(tools, reqs):
    rc, so, se = vcheck.run_tool(tools["goextract"], [vcheck.REPO], inp=json.dumps(reqs))
    if rc != 0:
        raise GenError("goextract failed: " + se[-2000:])
    res = json.loads(so)
    for rq, r in zip(reqs, res):
        if isinstance(r, dict) and "missing" in r:
            raise GenError("goextract: %s not found in %s" % (r["missing"], rq.get("file")))
        if r is None:
            raise GenError("goextract: empty result for %s" % (rq,))
    return res


def coq_string(s):
    return '"' + s.replace('"', '""') + '"'


def zlist(xs):
    return "[" + "; ".join(str(x) for x in xs) + "]"


HEADER = "(* GENERATED from /repo by gen.py + harness/cmd/goextract on every run. Do not edit. *)\n"


def write(rel, body):
    vcheck.write_if_changed(os.path.join(vcheck.COQ, rel), HEADER + body)
    return rel


# ------------------------------------------------------------------ lexer

LEX_KIND_NAMES = [
    ("kEOF", "TokenEOF"), ("kError", "TokenError"), ("kIdent", "TokenIdent"), ("kInt", "TokenIntLiteral"),
    ("kFloat", "TokenFloatLiteral"), ("kPlus", "TokenPlus"), ("kMinus", "TokenMinus"), ("kStar", "TokenStar"),
    ("kSlash", "TokenSlash"), ("kPercent", "TokenPercent"), ("kAmp", "TokenAmpersand"), ("kPipe", "TokenPipe"),
    ("kCaret", "TokenCaret"), ("kTilde", "TokenTilde"), ("kBang", "TokenBang"), ("kEqual", "TokenEqual"),
    ("kLess", "TokenLess"), ("kGreater", "TokenGreater"), ("kDot", "TokenDot"), ("kComma", "TokenComma"),
    ("kColon", "TokenColon"), ("kSemi", "TokenSemicolon"), ("kAt", "TokenAt"), ("kArrow", "TokenArrow"),
    ("kPlusPlus", "TokenPlusPlus"), ("kMinusMinus", "TokenMinusMinus"), ("kEqEq", "TokenEqualEqual"),
    ("kBangEq", "TokenBangEqual"), ("kLessEq", "TokenLessEqual"), ("kGreaterEq", "TokenGreaterEqual"),
    ("kAmpAmp", "TokenAmpAmp"), ("kPipePipe", "TokenPipePipe"), ("kShl", "TokenLessLess"),
    ("kShr", "TokenGreaterGreater"), ("kPlusEq", "TokenPlusEqual"), ("kMinusEq", "TokenMinusEqual"),
    ("kStarEq", "TokenStarEqual"), ("kSlashEq", "TokenSlashEqual"), ("kPercentEq", "TokenPercentEqual"),
    ("kAmpEq", "TokenAmpEqual"), ("kPipeEq", "TokenPipeEqual"), ("kCaretEq", "TokenCaretEqual"),
    ("kShlEq", "TokenLessLessEqual"), ("kShrEq", "TokenGreaterGreaterEqual"), ("kLParen", "TokenLeftParen"),
    ("kRParen", "TokenRightParen"), ("kLBrace", "TokenLeftBrace"), ("kRBrace", "TokenRightBrace"),
    ("kLBracket", "TokenLeftBracket"), ("kRBracket", "TokenRightBracket"),
]


def gen_lex(tools):
    consts, kw, letters = extract(tools, [
        {"kind": "consts", "file": "wgsl/internal/parser/token.go"},
        {"kind": "map", "file": "wgsl/internal/parser/lexer.go", "name": "keywords"},
        {"kind": "unicode_letters"},
    ])
    cmap = {n: int(v) for n, v, t in consts if t == "TokenKind"}
    out = ["From Coq Require Import List ZArith String.", "Import ListNotations.", "Require Import Naga.Lex.LexModel.",
           "Open Scope Z_scope.", ""]
    out.append("Definition token_kinds : list (string * Z) := [")
    out.append(";\n".join("  (%s, %d)" % (coq_string(n), v) for n, v in sorted(cmap.items(), key=lambda x: x[1])))
    out.append("]%string.\n")
    fields = []
    for f, name in LEX_KIND_NAMES:
        if name not in cmap:
            raise GenError("token kind %s not found in token.go" % name)
        fields.append("%s := %d" % (f, cmap[name]))
    out.append("Definition K : kinds := {| " + "; ".join(fields) + " |}.\n")
    rows = []
    for k, v in kw:
        if v not in cmap:
            raise GenError("keyword %s maps to unknown kind %s" % (k, v))
        rows.append("  (%s, %d)" % (zlist([ord(c) for c in k]), cmap[v]))
    out.append("(* lexer.go `keywords`: lexeme (code points) -> kind *)")
    out.append("Definition keywords : list (list Z * Z) := [\n" + ";\n".join(rows) + "].\n")
    out.append("(* Go's unicode.Letter range table (lo, hi, stride) *)")
    out.append("Definition letter_ranges : list (Z * Z * Z) := [\n" +
               ";\n".join("  (%d, %d, %d)" % tuple(r) for r in letters) + "].\n")
    return [write("Gen/LexTables.v", "\n".join(out))]


# ------------------------------------------------------------------ IR enumerations

IR_ENUM_FILES = ["ir/ir.go", "ir/expression.go", "ir/statement.go"]


def gen_irenums(tools):
    res = extract(tools, [{"kind": "consts", "file": f} for f in IR_ENUM_FILES])
    by_type = {}
    for consts in res:
        for n, v, t in consts:
            if t and v.lstrip("-").isdigit():
                by_type.setdefault(t, []).append((int(v), n))
    out = ["From Coq Require Import List ZArith String.", "Import ListNotations.", "Open Scope Z_scope.", "Open Scope string_scope.", "",
           "(* every named integer constant of package ir, grouped by its Go type: (value, name) *)",
           "Definition ir_enums : list (string * list (Z * string)) := ["]
    rows = []
    for t in sorted(by_type):
        rows.append("  (%s, [%s])" % (coq_string(t), "; ".join("(%d, %s)" % (v, coq_string(n)) for v, n in sorted(by_type[t]))))
    out.append(";\n".join(rows))
    out.append("].")
    return [write("Gen/IrEnums.v", "\n".join(out) + "\n")]


GENERATORS = {"lex": gen_lex, "irenums": gen_irenums}

import c16gen  # C16: Gen/Keywords.v
GENERATORS["keywords"] = lambda tools: c16gen.gen_keywords(sys.modules[__name__], tools)


def regenerate(tools, names):
    os.makedirs(GEN, exist_ok=True)
    files = []
    for n in names:
        files += GENERATORS[n](tools)
    return files


def regenerate_all(tools):
    return regenerate(tools, sorted(GENERATORS))


if __name__ == "__main__":
    t = vcheck.build_harness()
    print(regenerate_all(t))
