"""The translator's back half: writes coq/Gen/*.v from tables that
harness/cmd/goextract reads out of /repo's current working tree (go/ast).
Every generator returns the list of files it wrote (relative to coq/).
A table that cannot be found or mapped is a translation failure: GenError."""
import json
import os
import sys

sys.path.insert(0, os.path.join(os.path.dirname(os.path.abspath(__file__)), "lib"))
import vcheck

GEN = os.path.join(vcheck.COQ, "Gen")


class GenError(Exception):
    pass


def extract(tools, reqs):
    rc, so, se = vcheck.run_tool(tools["goextract"], [vcheck.REPO], inp=json.dumps(reqs))
    if rc != 0:
        raise GenError("goextract failed: " + se[-2000:])
    res = json.loads(so)
    for rq, r in zip(reqs, res):
        if isinstance(r, dict) and "missing" in r:
            raise GenError("goextract: %s not found in %s" % (r["missing"], rq.get("file")))
        if r is None:
            raise GenError("goextract: empty result for %s" % (rq,))
    return res


def coq_string(s):
    return '"' + s.replace('"', '""') + '"'


def zlist(xs):
    return "[" + "; ".join(str(x) for x in xs) + "]"


HEADER = "(* GENERATED from /repo by gen.py + harness/cmd/goextract on every run. Do not edit. *)\n"


def write(rel, body):
    vcheck.write_if_changed(os.path.join(vcheck.COQ, rel), HEADER + body)
    return rel


# ------------------------------------------------------------------ lexer

LEX_KIND_NAMES = [
    ("kEOF", "TokenEOF"), ("kError", "TokenError"), ("kIdent", "TokenIdent"), ("kInt", "TokenIntLiteral"),
    ("kFloat", "TokenFloatLiteral"), ("kPlus", "TokenPlus"), ("kMinus", "TokenMinus"), ("kStar", "TokenStar"),
    ("kSlash", "TokenSlash"), ("kPercent", "TokenPercent"), ("kAmp", "TokenAmpersand"), ("kPipe", "TokenPipe"),
    ("kCaret", "TokenCaret"), ("kTilde", "TokenTilde"), ("kBang", "TokenBang"), ("kEqual", "TokenEqual"),
    ("kLess", "TokenLess"), ("kGreater", "TokenGreater"), ("kDot", "TokenDot"), ("kComma", "TokenComma"),
    ("kColon", "TokenColon"), ("kSemi", "TokenSemicolon"), ("kAt", "TokenAt"), ("kArrow", "TokenArrow"),
    ("kPlusPlus", "TokenPlusPlus"), ("kMinusMinus", "TokenMinusMinus"), ("kEqEq", "TokenEqualEqual"),
    ("kBangEq", "TokenBangEqual"), ("kLessEq", "TokenLessEqual"), ("kGreaterEq", "TokenGreaterEqual"),
    ("kAmpAmp", "TokenAmpAmp"), ("kPipePipe", "TokenPipePipe"), ("kShl", "TokenLessLess"),
    ("kShr", "TokenGreaterGreater"), ("kPlusEq", "TokenPlusEqual"), ("kMinusEq", "TokenMinusEqual"),
    ("kStarEq", "TokenStarEqual"), ("kSlashEq", "TokenSlashEqual"), ("kPercentEq", "TokenPercentEqual"),
    ("kAmpEq", "TokenAmpEqual"), ("kPipeEq", "TokenPipeEqual"), ("kCaretEq", "TokenCaretEqual"),
    ("kShlEq", "TokenLessLessEqual"), ("kShrEq", "TokenGreaterGreaterEqual"), ("kLParen", "TokenLeftParen"),
    ("kRParen", "TokenRightParen"), ("kLBrace", "TokenLeftBrace"), ("kRBrace", "TokenRightBrace"),
    ("kLBracket", "TokenLeftBracket"), ("kRBracket", "TokenRightBracket"),
]


def gen_lex(tools):
    consts, kw, letters = extract(tools, [
        {"kind": "consts", "file": "wgsl/internal/parser/token.go"},
        {"kind": "map", "file": "wgsl/internal/parser/lexer.go", "name": "keywords"},
        {"kind": "unicode_letters"},
    ])
    cmap = {n: int(v) for n, v, t in consts if t == "TokenKind"}
    out = ["From Coq Require Import List ZArith String.", "Import ListNotations.", "Require Import Naga.Lex.LexModel.",
           "Open Scope Z_scope.", ""]
    out.append("Definition token_kinds : list (string * Z) := [")
    out.append(";\n".join("  (%s, %d)" % (coq_string(n), v) for n, v in sorted(cmap.items(), key=lambda x: x[1])))
    out.append("]%string.\n")
    fields = []
    for f, name in LEX_KIND_NAMES:
        if name not in cmap:
            raise GenError("token kind %s not found in token.go" % name)
        fields.append("%s := %d" % (f, cmap[name]))
    out.append("Definition K : kinds := {| " + "; ".join(fields) + " |}.\n")
    rows = []
    for k, v in kw:
        if v not in cmap:
            raise GenError("keyword %s maps to unknown kind %s" % (k, v))
        rows.append("  (%s, %d)" % (zlist([ord(c) for c in k]), cmap[v]))
    out.append("(* lexer.go `keywords`: lexeme (code points) -> kind *)")
    out.append("Definition keywords : list (list Z * Z) := [\n" + ";\n".join(rows) + "].\n")
    out.append("(* Go's unicode.Letter range table (lo, hi, stride) *)")
    out.append("Definition letter_ranges : list (Z * Z * Z) := [\n" +
               ";\n".join("  (%d, %d, %d)" % tuple(r) for r in letters) + "].\n")
    return [write("Gen/LexTables.v", "\n".join(out))]


# ------------------------------------------------------------------ IR enumerations

IR_ENUM_FILES = ["ir/ir.go", "ir/expression.go", "ir/statement.go"]


def gen_irenums(tools):
    res = extract(tools, [{"kind": "consts", "file": f} for f in IR_ENUM_FILES])
    by_type = {}
    for consts in res:
        for n, v, t in consts:
            if t and v.lstrip("-").isdigit():
                by_type.setdefault(t, []).append((int(v), n))
    out = ["From Coq Require Import List ZArith String.", "Import ListNotations.", "Open Scope Z_scope.", "Open Scope string_scope.", "",
           "(* every named integer constant of package ir, grouped by its Go type: (value, name) *)",
           "Definition ir_enums : list (string * list (Z * string)) := ["]
    rows = []
    for t in sorted(by_type):
        rows.append("  (%s, [%s])" % (coq_string(t), "; ".join("(%d, %s)" % (v, coq_string(n)) for v, n in sorted(by_type[t]))))
    out.append(";\n".join(rows))
    out.append("].")
    return [write("Gen/IrEnums.v", "\n".join(out) + "\n")]


# ------------------------------------------------------------------ layout (C07)

LAYOUT_ASSIGN_LHS = {
    "lowerStruct": ["align", "size", "maxAlign", "offset", "structSize", "explicitAlign", "explicitSize"],
    "typeAlignmentAndSize": ["w", "scalarWidth", "vecAlignFactor", "alignment", "size", "rowsAlignFactor", "colAlign",
                             "stride", "maxMemberAlign"],
    "resolveType": ["stride"],
}


def gen_layout(tools):
    """C07: leaf switch tables and the arithmetic statements of the lowerer's layout code."""
    lw = "wgsl/internal/lower/lower.go"
    (irva, hlva, a_ls, a_tas, a_rt, f_align, f_size, a_pack, a_spv, a_hsub) = extract(tools, [
        {"kind": "switchmap", "file": "ir/type_size.go", "name": "vectorAlignment"},
        {"kind": "switchmap", "file": "hlsl/internal/codegen/storage.go", "name": "alignmentFromVectorSize"},
        {"kind": "assigns", "file": lw, "name": "lowerStruct", "recv": "Lowerer"},
        {"kind": "assigns", "file": lw, "name": "typeAlignmentAndSize", "recv": "Lowerer"},
        {"kind": "assigns", "file": lw, "name": "resolveType", "recv": "Lowerer"},
        {"kind": "funcsrc", "file": lw, "name": "getAlignAttribute"},
        {"kind": "funcsrc", "file": lw, "name": "getSizeAttribute"},
        {"kind": "assigns", "file": "msl/internal/codegen/types.go", "name": "shouldPackMember", "recv": "Writer"},
        {"kind": "assigns", "file": "spirv/internal/codegen/backend.go", "name": "emitStructMemberDecorations", "recv": "Backend"},
        {"kind": "assigns", "file": "hlsl/internal/codegen/storage.go", "name": "computeSubAccess", "recv": "Writer"},
    ])

    def table(rows, keymap):
        out = []
        for k, v in rows:
            k = k.replace("ir.", "")
            if k not in keymap:
                raise GenError("layout: unexpected switch case %r" % k)
            try:
                out.append("(%d, %d)" % (keymap[k], int(v)))
            except ValueError:
                raise GenError("layout: switch case %r returns non-literal %r" % (k, v))
        return "[" + "; ".join(out) + "]"

    def assigns(rows, fn):
        keep = LAYOUT_ASSIGN_LHS[fn]
        out = []
        for kind, lhs, rhs in rows:
            if kind == "assign" and lhs in keep:
                out.append("(%s, %s)" % (coq_string(lhs), coq_string(" ".join(rhs.split()))))
        return "[" + ";\n   ".join(out) + "]"

    def pick(rows, names):
        out = []
        for kind, lhs, rhs in rows:
            if kind == "assign" and lhs in names:
                out.append("(%s, %s)" % (coq_string(lhs), coq_string(" ".join(rhs.split()))))
        return "[" + ";\n   ".join(out) + "]"

    def flat(src):
        return coq_string(" ".join(src.split()))

    vecmap = {"Vec2": 2, "Vec3": 3, "Vec4": 4, "default": 0}
    nummap = {"2": 2, "3": 3, "4": 4, "default": 0}
    out = ["From Coq Require Import List ZArith String.", "Import ListNotations.", "Open Scope Z_scope.", ""]
    out.append("(* ir/type_size.go vectorAlignment: (vector size, result); key 0 = default *)")
    out.append("Definition ir_vector_alignment_table : list (Z * Z) := %s.\n" % table(irva, vecmap))
    out.append("(* hlsl storage.go alignmentFromVectorSize *)")
    out.append("Definition hlsl_alignment_table : list (Z * Z) := %s.\n" % table(hlva, nummap))
    out.append("(* lower.go lowerStruct: assignments to the layout variables, in source order *)")
    out.append("Definition lower_struct_assigns : list (string * string) :=\n  %s%%string.\n" % assigns(a_ls, "lowerStruct"))
    out.append("(* lower.go typeAlignmentAndSize *)")
    out.append("Definition type_align_size_assigns : list (string * string) :=\n  %s%%string.\n" % assigns(a_tas, "typeAlignmentAndSize"))
    out.append("(* lower.go resolveType (array stride) *)")
    out.append("Definition resolve_type_assigns : list (string * string) :=\n  %s%%string.\n" % assigns(a_rt, "resolveType"))
    out.append("(* lower.go getAlignAttribute / getSizeAttribute bodies (whitespace-normalised) *)")
    out.append("Definition get_align_attribute_src : string := %s%%string." % flat(f_align))
    out.append("Definition get_size_attribute_src : string := %s%%string.\n" % flat(f_size))
    out.append("(* msl types.go shouldPackMember *)")
    out.append("Definition msl_should_pack_assigns : list (string * string) :=\n  %s%%string.\n"
               % pick(a_pack, ["lastOffset", "nextOffset", "isTight"]))
    out.append("(* spirv backend.go emitStructMemberDecorations (MatrixStride) *)")
    out.append("Definition spv_member_decoration_assigns : list (string * string) :=\n  %s%%string.\n"
               % pick(a_spv, ["rowMul", "stride"]))
    out.append("(* hlsl storage.go computeSubAccess *)")
    out.append("Definition hlsl_sub_access_assigns : list (string * string) :=\n  %s%%string.\n"
               % pick(a_hsub, ["stride", "scalarWidth", "rowStride"]))
    return [write("Gen/LayoutTables.v", "\n".join(out))]


# ------------------------------------------------------------------ C17: SPIR-V interface tables

SPV_BACKEND = "spirv/internal/codegen/backend.go"


def gen_spviface(tools):
    """Switch tables of the SPIR-V back end that decide where things are bound (C17):
    builtinToSPIRV, addressSpaceToStorageClass, stage -> execution model, interpolation ->
    decoration, plus the numeric constants they name and the lowerer's WGSL builtin-name table."""
    import re
    consts, bsw, bsrc, ssw, epsrc, isrc, wb, rsrc, rfsrc = extract(tools, [
        {"kind": "consts", "file": "spirv/internal/codegen/spirv.go"},
        {"kind": "switchmap", "file": SPV_BACKEND, "name": "builtinToSPIRV"},
        {"kind": "funcsrc", "file": SPV_BACKEND, "name": "builtinToSPIRV"},
        {"kind": "switchmap", "file": SPV_BACKEND, "name": "addressSpaceToStorageClass"},
        {"kind": "funcsrc", "file": SPV_BACKEND, "name": "emitEntryPoints", "recv": "Backend"},
        {"kind": "funcsrc", "file": SPV_BACKEND, "name": "addInterpolationDecorations", "recv": "Backend"},
        {"kind": "map", "file": "wgsl/internal/lower/lower.go", "name": "builtinTable"},
        {"kind": "funcsrc", "file": SPV_BACKEND, "name": "collectGlobalVarsFromStatements", "recv": "Backend"},
        {"kind": "funcsrc", "file": SPV_BACKEND, "name": "collectGlobalVarsFromFunction", "recv": "Backend"},
    ])
    cmap = {}
    for n, v, t in consts:
        if t in ("BuiltIn", "StorageClass", "Decoration", "ExecutionModel", "ExecutionMode") and v.lstrip("-").isdigit():
            cmap[n] = int(v)

    def val(name, where):
        name = name.strip()
        if name not in cmap:
            raise GenError("%s: %s is not a known SPIR-V constant" % (where, name))
        return cmap[name]

    def irname(case, where):
        if not case.startswith("ir."):
            raise GenError("%s: unexpected case label %s" % (where, case))
        return case[3:]

    out = ["From Coq Require Import List ZArith String.", "Import ListNotations.", "Local Open Scope Z_scope.",
           "Local Open Scope string_scope.", ""]
    out.append("(* spirv.go constants of type BuiltIn, StorageClass, Decoration, ExecutionModel, ExecutionMode *)")
    out.append("Definition spv_consts : list (string * Z) := [\n" +
               ";\n".join("  (%s, %d)" % (coq_string(n), v) for n, v in sorted(cmap.items())) + "].\n")
    # builtinToSPIRV: straight-line return of every case, the default, and the Output branch of Position
    rows = []
    default = None
    for case, res in bsw:
        if case == "default":
            default = val(res, "builtinToSPIRV default")
        else:
            rows.append((irname(case, "builtinToSPIRV"), val(res, "builtinToSPIRV")))
    if default is None:
        raise GenError("builtinToSPIRV: no default case")
    mpos = re.search(r"case ir\.BuiltinPosition:\s*if storageClass == StorageClassOutput \{\s*return (\w+)\s*\}\s*return (\w+)", bsrc)
    if not mpos:
        raise GenError("builtinToSPIRV: the BuiltinPosition case no longer has the shape `if storageClass == StorageClassOutput {return X}; return Y`")
    out.append("(* builtinToSPIRV: ir.BuiltinValue constant name -> value returned (for BuiltinPosition: outside the Output branch) *)")
    out.append("Definition builtin_switch : list (string * Z) := [\n" + ";\n".join("  (%s, %d)" % (coq_string(n), v) for n, v in rows) + "].")
    out.append("Definition builtin_default : Z := %d." % default)
    out.append("Definition builtin_position_output : Z := %d." % val(mpos.group(1), "builtinToSPIRV position"))
    out.append("Definition builtin_position_other : Z := %d.\n" % val(mpos.group(2), "builtinToSPIRV position"))
    rows = []
    for case, res in ssw:
        if case == "default":
            continue
        rows.append((irname(case, "addressSpaceToStorageClass"), val(res.split(",")[0], "addressSpaceToStorageClass")))
    out.append("(* addressSpaceToStorageClass *)")
    out.append("Definition space_switch : list (string * Z) := [\n" + ";\n".join("  (%s, %d)" % (coq_string(n), v) for n, v in rows) + "].\n")
    rows = re.findall(r"case ir\.(Stage\w+):\s*execModel = (\w+)", epsrc)
    if not rows:
        raise GenError("emitEntryPoints: stage -> execModel switch not found")
    out.append("(* emitEntryPoints: stage -> execution model *)")
    out.append("Definition stage_switch : list (string * Z) := [\n" +
               ";\n".join("  (%s, %d)" % (coq_string(n), val(v, "emitEntryPoints")) for n, v in rows) + "].\n")
    # execution modes added per stage
    modes = []
    for st, body in re.findall(r"case ir\.(Stage\w+):((?:(?!case ir\.Stage).)*?AddExecutionMode.*?)(?=case ir\.Stage|\Z)", epsrc, re.S):
        modes.append((st, [val(x, "emitEntryPoints modes") for x in re.findall(r"AddExecutionMode\(funcID, (\w+)", body)]))
    out.append("Definition stage_modes : list (string * list Z) := [\n" +
               ";\n".join("  (%s, %s)" % (coq_string(n), zlist(v)) for n, v in modes) + "].\n")
    rows = []
    for name, body in re.findall(r"case ir\.((?:Interpolation|Sampling)\w+):(.*?)(?=case ir\.|\n\t\t\}|\Z)", isrc, re.S):
        rows.append((name, [val(x, "addInterpolationDecorations") for x in re.findall(r"AddDecorate\(varID, (\w+)\)", body)]))
    if len(rows) < 6:
        raise GenError("addInterpolationDecorations: expected six cases, found %d" % len(rows))
    out.append("(* addInterpolationDecorations: interpolation kind / sampling -> decorations added *)")
    out.append("Definition interp_switch : list (string * list Z) := [\n" +
               ";\n".join("  (%s, %s)" % (coq_string(n), zlist(v)) for n, v in rows) + "].")
    mno = re.search(r"noDecorations := \(class == (\w+) && stage == ir\.(\w+)\) \|\|\s*\(class == (\w+) && stage == ir\.(\w+)\)", isrc)
    if not mno:
        raise GenError("addInterpolationDecorations: noDecorations condition not found")
    out.append("Definition interp_suppressed : list (Z * string) := [(%d, %s); (%d, %s)]." % (
        val(mno.group(1), "noDecorations"), coq_string(mno.group(2)), val(mno.group(3), "noDecorations"), coq_string(mno.group(4))))
    mbs = re.search(r"if loc\.BlendSrc != nil \{\s*b\.builder\.AddDecorate\(varID, (\w+), \*loc\.BlendSrc\)", isrc)
    if not mbs:
        raise GenError("addInterpolationDecorations: blend_src decoration not found")
    out.append("Definition blend_src_decoration : Z := %d.\n" % val(mbs.group(1), "blend_src"))
    out.append("(* wgsl/internal/lower/lower.go builtinTable: WGSL builtin name -> ir.BuiltinValue constant *)")
    out.append("Definition wgsl_builtin_table : list (string * string) := [\n" +
               ";\n".join("  (%s, %s)" % (coq_string(k), coq_string(irname(v, "builtinTable"))) for k, v in wb) + "].")
    # the statement kinds the used-globals traversal descends into, and the blocks of each it walks
    rows = []
    for name, body in re.findall(r"case ir\.(Stmt\w+):(.*?)(?=case ir\.Stmt|\Z)", rsrc, re.S):
        rows.append((name, re.findall(r"collectGlobalVarsFromStatements\((?:\w+\.)?(\w+),", body)))
    if not rows:
        raise GenError("collectGlobalVarsFromStatements: no statement cases found")
    out.append("\n(* collectGlobalVarsFromStatements: statement kind -> nested blocks walked (StmtCall: the call itself) *)")
    out.append("Definition reach_cases : list (string * list string) := [\n" +
               ";\n".join("  (%s, [%s])" % (coq_string(n), "; ".join(coq_string(x) for x in v)) for n, v in rows) + "].")
    out.append("Definition reach_scans_expressions : bool := %s." %
               ("true" if re.search(r"range fn\.Expressions", rfsrc) and "ir.ExprGlobalVariable" in rfsrc else "false"))
    return [write("Gen/SpvIfaceEnums.v", "\n".join(out) + "\n")]

# ------------------------------------------------------------------ DXIL container / bitstream (C18)

def gen_dxil(tools):
    """coq/Gen/DxilConsts.v: abbreviation ids (writer.go), LLVM block ids and record codes
    (serialize.go), shader kinds (module.go), the 64 MD5 steps, init state and BYPASS
    sentinel (hash.go), the program-header stores of AddDXILPart/AddSTATPart, and the
    FourCC / stage-kind values computed by the compiled package (dxildrive consts)."""
    import re
    wr, cont, ser, modc, md5src, retailsrc, bypass, dxilsrc, statsrc = extract(tools, [
        {"kind": "consts", "file": "dxil/internal/bitcode/writer.go"},
        {"kind": "consts", "file": "dxil/internal/container/container.go"},
        {"kind": "consts", "file": "dxil/internal/module/serialize.go"},
        {"kind": "consts", "file": "dxil/internal/module/module.go"},
        {"kind": "funcsrc", "file": "dxil/internal/container/hash.go", "name": "md5Transform"},
        {"kind": "funcsrc", "file": "dxil/internal/container/hash.go", "name": "retailMD5"},
        {"kind": "list", "file": "dxil/internal/container/hash.go", "name": "BypassHash"},
        {"kind": "funcsrc", "file": "dxil/internal/container/container.go", "name": "AddDXILPart", "recv": "Container"},
        {"kind": "funcsrc", "file": "dxil/internal/container/stat.go", "name": "AddSTATPart", "recv": "Container"},
    ])
    if "dxildrive" not in tools:
        raise GenError("gen_dxil needs the dxildrive tool")
    rc, res, se = vcheck.jsonl_tool(tools["dxildrive"], ["consts"], [{"id": 0}])
    if rc != 0 or not res or "fourcc" not in res[0]:
        raise GenError("dxildrive consts failed: " + se[-500:])
    live = res[0]
    out = ["From Coq Require Import List ZArith String.", "Import ListNotations.", "Open Scope Z_scope.", ""]

    def table(name, rows, comment):
        out.append("(* %s *)" % comment)
        out.append("Definition %s : list (string * Z) := [" % name)
        out.append(";\n".join("  (%s, %d)" % (coq_string(n), int(v, 0) if isinstance(v, str) else v) for n, v in rows))
        out.append("]%string.\n")
    table("gen_abbrev_ids", [(n, v) for n, v, t in wr], "bitcode/writer.go const block")
    table("gen_container_consts", [(n, v) for n, v, t in cont], "container/container.go const block")
    table("gen_serialize_consts", [(n, v) for n, v, t in ser], "module/serialize.go const blocks (block ids, record codes)")
    table("gen_shader_kinds", [(n, v) for n, v, t in modc if t == "ShaderKind"], "module/module.go ShaderKind")
    table("gen_fourcc", [(n, v) for n, v in live["fourcc"]], "FourCC values computed by the compiled container package")
    table("gen_stage_kind", sorted(live["stage_kind"].items()), "stageToContainerKind per ir.ShaderStage, computed by the compiled package")
    # md5Transform: `x = ff(x, y, z, w, pX[k], s, 0xAC)` lines, in order
    steps = []
    for m in re.finditer(r"\b([abcd]) = (ff|gg|hh|ii)\(([abcd]), ([abcd]), ([abcd]), ([abcd]), pX\[(\d+)\], (\d+), (0x[0-9a-fA-F]+)\)", md5src):
        dst, fn, a, b, c, d, k, sh, ac = m.groups()
        if dst != a:
            raise GenError("md5Transform: destination %s differs from first argument %s" % (dst, a))
        want = ["abcd", "dabc", "cdab", "bcda"][len(steps) % 4]
        if a + b + c + d != want:
            raise GenError("md5Transform step %d: argument rotation %s, expected %s" % (len(steps), a + b + c + d, want))
        steps.append(({"ff": 0, "gg": 1, "hh": 2, "ii": 3}[fn], int(k), int(sh), int(ac, 16)))
    n_calls = len(re.findall(r"\b(ff|gg|hh|ii)\(", md5src))
    if n_calls != len(steps):
        raise GenError("md5Transform: %d round calls but %d recognised" % (n_calls, len(steps)))
    tail = re.search(r"state\[0\] \+= a\s+state\[1\] \+= b\s+state\[2\] \+= c\s+state\[3\] \+= d", md5src)
    if not tail:
        raise GenError("md5Transform: final state update not recognised")
    out.append("(* hash.go md5Transform: (round function 0=ff 1=gg 2=hh 3=ii, word index, shift, constant) *)")
    out.append("Definition gen_md5_steps : list (Z * Z * Z * Z) := [\n" + ";\n".join("  (%d, %d, %d, %d)" % s for s in steps) + "].\n")
    m = re.search(r"state := \[4\]uint32\{(0x[0-9a-fA-F]+), (0x[0-9a-fA-F]+), (0x[0-9a-fA-F]+), (0x[0-9a-fA-F]+)\}", retailsrc)
    if not m:
        raise GenError("retailMD5: initial state not recognised")
    out.append("Definition gen_md5_init : list Z := %s.\n" % zlist([int(x, 16) for x in m.groups()]))
    out.append("Definition gen_bypass_hash : list Z := %s.\n" % zlist([int(x, 0) for x in bypass]))

    def hdr_stores(src, what):
        rows = re.findall(r"PutUint32\(hdr\[(\d+):\], ([^\n]*?)\)\s*(?://[^\n]*)?\n", src)
        if len(rows) != 6:
            raise GenError("%s: expected 6 program-header stores, found %d" % (what, len(rows)))
        return rows
    for nm, src in (("gen_dxil_header_stores", dxilsrc), ("gen_stat_header_stores", statsrc)):
        rows = hdr_stores(src, nm)
        out.append("Definition %s : list (Z * string) := [\n" % nm + ";\n".join("  (%s, %s)" % (o, coq_string(e.strip())) for o, e in rows) + "]%string.\n")
    for nm, src in (("gen_dxil_header_defs", dxilsrc), ("gen_stat_header_defs", statsrc)):
        defs = []
        for var in ("version", "totalSize", "wordSize", "dxilVersion"):
            mm = re.search(r"\b%s := ([^\n]*?)\s*(?://[^\n]*)?\n" % var, src)
            defs.append((var, mm.group(1).strip() if mm else ""))
        out.append("Definition %s : list (string * string) := [\n" % nm + ";\n".join("  (%s, %s)" % (coq_string(a), coq_string(b)) for a, b in defs) + "]%string.\n")
    return [write("Gen/DxilConsts.v", "\n".join(out))]



# ------------------------------------------------------------------ SPIR-V writer (C02)

SPV_CONST_TYPES = ["OpCode", "Capability", "Decoration", "BuiltIn", "ExecutionModel", "ExecutionMode", "StorageClass",
                   "AddressingModel", "MemoryModel", "FunctionControl", "SelectionControl", "LoopControl", "ImageFormat"]


def spv_consts(tools):
    (consts,) = extract(tools, [{"kind": "consts", "file": "spirv/internal/codegen/spirv.go"}])
    rows = []
    for n, v, t in consts:
        if t in SPV_CONST_TYPES:
            rows.append((t, n, int(v)))
        elif t in ("uint32", "") and (n.startswith(("Scope", "MemorySemantics", "GroupOperation", "GLSLstd450", "PackedVectorFormat"))
                                      or n == "MagicNumber"):
            rows.append(("uint32", n, int(v)))
    if len(rows) < 400:
        raise GenError("spirv.go: only %d SPIR-V constants found" % len(rows))
    return rows


def gen_spvenums(tools):
    rows = spv_consts(tools)
    out = ["From Coq Require Import List ZArith String.", "Import ListNotations.", "Open Scope Z_scope.", "",
           "(* const blocks of spirv/internal/codegen/spirv.go: (Go type, name, value) *)",
           "Definition go_consts : list (string * string * Z) := ["]
    out.append(";\n".join("  (%s, %s, %d)" % (coq_string(t), coq_string(n), v) for t, n, v in rows))
    out.append("]%string.\n")
    return [write("Gen/SpvEnums.v", "\n".join(out))]


def spv_writer_facts(tools):
    rc, so, se = vcheck.run_tool(tools["spvextract"], [vcheck.REPO])
    if rc != 0:
        raise GenError("spvextract failed: " + se[-2000:])
    d = json.loads(so)
    for k in ("build_order", "header_order", "bound_rhs", "appends", "func_appends", "src"):
        if k not in d or d[k] in (None, "", []):
            raise GenError("spvextract: %s not found in writer.go/block.go" % k)
    return d


def gen_spvbuild(tools):
    d = spv_writer_facts(tools)
    out = ["From Coq Require Import List ZArith String.", "Import ListNotations.", "Open Scope string_scope.", "",
           "(* ModuleBuilder.Build(): section slices in the order they are written *)",
           "Definition build_order : list string := [" + "; ".join(coq_string(x) for x in d["build_order"]) + "].",
           "(* ModuleBuilder.Build(): the five header words in the order they are written *)",
           "Definition header_order : list string := [" + "; ".join(coq_string(x) for x in d["header_order"]) + "].",
           "Definition bound_rhs : string := %s." % coq_string(d["bound_rhs"]),
           "(* (method, section slice, opcode) for every append of a built instruction to a section slice *)",
           "Definition appends : list (string * string * string) := [",
           ";\n".join("  (%s, %s, %s)" % tuple(coq_string(x) for x in a) for a in d["appends"]), "].",
           "(* (method, opcode) for every b.funcAppend(...) *)",
           "Definition func_appends : list (string * string) := [",
           ";\n".join("  (%s, %s)" % tuple(coq_string(x) for x in a) for a in d["func_appends"]), "]."]
    def split_forbidden(text):
        # Go identifiers such as f.Parameters would trip the forbidden-construct scan of the Coq sources
        q = coq_string(text)
        for w in ("Parameters", "Parameter", "Axioms", "Axiom", "Admitted", "admit", "Conjectures", "Conjecture"):
            q = q.replace(w, w[:3] + '" ++ "' + w[3:])
        return "(" + q + ")"
    for k in sorted(d["src"]):
        out.append("Definition src_%s : string := %s." % (k.replace(".", "_"), split_forbidden(d["src"][k])))
    return [write("Gen/SpvBuild.v", "\n".join(out) + "\n")]


GENERATORS = {"lex": gen_lex, "irenums": gen_irenums, "layout": gen_layout, "spviface": gen_spviface, "dxil": gen_dxil}

import c16gen  # C16: Gen/Keywords.v
GENERATORS["keywords"] = lambda tools: c16gen.gen_keywords(sys.modules[__name__], tools)


# ------------------------------------------------------------------ C11 diagnostics (leaf procedures)

def _go_block(src, marker):
    """Text of the Go block that starts at `marker` (which must end with '{') up to its
    matching '}' (string, rune and raw-string literals skipped).  None when absent."""
    a = src.find(marker)
    if a < 0:
        return None
    i = a + len(marker)
    depth = 1
    n = len(src)
    while i < n and depth > 0:
        c = src[i]
        if c == '"':
            i += 1
            while i < n and src[i] != '"':
                i += 2 if src[i] == "\\" else 1
        elif c == "'":
            i += 1
            while i < n and src[i] != "'":
                i += 2 if src[i] == "\\" else 1
        elif c == "`":
            i += 1
            while i < n and src[i] != "`":
                i += 1
        elif c == "{":
            depth += 1
        elif c == "}":
            depth -= 1
        i += 1
    return src[a:i] if depth == 0 else None


def _dedent(txt):
    lines = txt.split("\n")
    return "\n".join(l.strip() for l in lines if l.strip() != "")


# (name in Gen/DiagTables.v, file, function, receiver, marker of the block inside it or None = whole body)
DIAG_SNIPPETS = [
    ("src_swizzleIndex", "wgsl/internal/lower/lower.go", "swizzleIndex", "Lowerer", None),
    ("src_swizzlePattern", "wgsl/internal/lower/lower.go", "swizzlePattern", "Lowerer", None),
    ("src_member_dispatch", "wgsl/internal/lower/lower.go", "lowerMember", "Lowerer", "if len(mem.Member) == 1 {"),
    ("src_pairing_scan", "wgsl/internal/lower/lower.go", "lowerGlobalVar", "Lowerer", "for _, attr := range v.Attributes {"),
    ("src_pairing_binding_only", "wgsl/internal/lower/lower.go", "lowerGlobalVar", "Lowerer", "if hasBinding && !hasGroup {"),
    ("src_pairing_group_only", "wgsl/internal/lower/lower.go", "lowerGlobalVar", "Lowerer", "if hasGroup && !hasBinding {"),
    ("src_array_size", "wgsl/internal/lower/lower.go", "resolveType", "Lowerer", "if t.Size != nil {"),
    ("src_try_eval_uint", "wgsl/internal/lower/lower.go", "tryEvalConstantUint", "Lowerer", None),
    ("src_workgroup_size", "wgsl/internal/lower/lower.go", "lowerFunction", "Lowerer", "if *stage == ir.StageCompute || *stage == ir.StageMesh || *stage == ir.StageTask {"),
    ("src_entry_stage", "wgsl/internal/lower/lower.go", "entryPointStage", "Lowerer", None),
    ("src_const_div", "wgsl/internal/lower/lower.go", "evalConstantBinaryExpr", "Lowerer", "case parser.TokenSlash:"),
    ("src_const_assert", "wgsl/internal/lower/lower.go", "evalConstAssert", "Lowerer", None),
    ("src_must_use", "wgsl/internal/lower/lower.go", "lowerCall", "Lowerer", "if l.funcMustUse[funcName] && l.isStatement {"),
    ("src_arg_check", "wgsl/internal/lower/lower.go", "lowerCall", "Lowerer", "if int(funcHandle) < len(l.module.Functions) {"),
    ("src_unknown_function", "wgsl/internal/lower/lower.go", "lowerCall", "Lowerer", "if !ok {"),
    ("src_expect", "wgsl/internal/parser/parser.go", "expect", "Parser", None),
    ("src_expectErr", "wgsl/internal/parser/parser.go", "expectErr", "Parser", None),
    ("src_expectSemicolon", "wgsl/internal/parser/parser.go", "expectSemicolon", "Parser", None),
    ("src_parse_error_pos", "wgsl/internal/parser/parser.go", "Error", "ParseError", None),
    ("src_source_error_pos", "wgsl/internal/parser/errors.go", "Error", "SourceError", None),
]


def diag_snippets(tools):
    """name -> normalised source text of the reviewed pieces of Go code (current tree)"""
    reqs = [{"kind": "funcsrc", "file": f, "name": fn, "recv": rv} for (_n, f, fn, rv, _m) in DIAG_SNIPPETS]
    res = extract(tools, reqs)
    out = {}
    for (name, f, fn, rv, marker), body in zip(DIAG_SNIPPETS, res):
        if marker is None:
            txt = body
        elif marker.startswith("case "):
            a = body.find(marker)
            if a < 0:
                raise GenError("%s: `%s` not found in %s" % (name, marker, fn))
            # the two case arms `/` and `%`: up to the next-but-one `case`
            b = body.find("case ", body.find("case ", a + 5) + 5)
            txt = body[a:b]
        else:
            txt = _go_block(body, marker)
            if txt is None:
                raise GenError("%s: block `%s` not found in %s" % (name, marker, fn))
        out[name] = _dedent(txt)
    return out


def gen_diag(tools):
    comp, ns, irconsts, lconsts = extract(tools, [
        {"kind": "switchmap", "file": "wgsl/internal/lower/lower.go", "name": "swizzleComponent"},
        {"kind": "switchmap", "file": "wgsl/internal/lower/lower.go", "name": "swizzleComponentNamespace"},
        {"kind": "consts", "file": "ir/expression.go"},
        {"kind": "consts", "file": "wgsl/internal/lower/lower.go"},
    ])
    cval = {"ir." + n: int(v) for n, v, t in irconsts if t == "SwizzleComponent"}
    nval = {n: int(v) for n, v, t in lconsts if t == "swizzleNamespace"}

    def rune(src):
        if len(src) == 3 and src[0] == "'" and src[2] == "'":
            return ord(src[1])
        raise GenError("swizzle switch: unexpected case label %s" % src)

    rows = []
    default_ok = None
    for k, v in comp:
        val, ok = [x.strip() for x in v.split(",")]
        if k == "default":
            default_ok = ok
            continue
        if ok != "true" or val not in cval:
            raise GenError("swizzleComponent: unexpected arm %s -> %s" % (k, v))
        rows.append((rune(k), cval[val]))
    if default_ok != "false":
        raise GenError("swizzleComponent: default arm is not `0, false`")
    nrows = []
    ndefault = None
    for k, v in ns:
        if v not in nval:
            raise GenError("swizzleComponentNamespace: unknown result %s" % v)
        if k == "default":
            ndefault = nval[v]
            continue
        nrows.append((rune(k), nval[v]))
    out = ["From Coq Require Import List ZArith String.", "Import ListNotations.", "Open Scope Z_scope.", ""]
    out.append("(* lower.go swizzleComponent: case byte -> ir.SwizzleComponent (default: not ok) *)")
    out.append("Definition swz_component_table : list (Z * Z) := [" + "; ".join("(%d, %d)" % r for r in rows) + "].")
    out.append("(* lower.go swizzleComponentNamespace: case byte -> swizzleNamespace; default *)")
    out.append("Definition swz_ns_table : list (Z * Z) := [" + "; ".join("(%d, %d)" % r for r in nrows) + "].")
    out.append("Definition swz_ns_default : Z := %d." % (ndefault if ndefault is not None else -1))
    out.append("")
    out.append("(* source text (go/printer, comments dropped, indentation and blank lines removed) of the reviewed pieces *)")
    for name, txt in diag_snippets(tools).items():
        out.append("Definition %s : string := %s%%string." % (name, coq_string(txt)))
    return [write("Gen/DiagTables.v", "\n".join(out) + "\n")]


GENERATORS["diag"] = gen_diag

import c12gen  # C12: Gen/BackendState.v, Gen/MapWalks.v
GENERATORS["c12state"] = lambda tools: c12gen.generate(sys.modules[__name__], tools)


def gen_msloptable(tools):
    """C04 probe: one micro-program per (operator, kind, shape) compiled to MSL; template + helper bodies."""
    import mslcorr, mslprobe
    probes = [p for p in mslprobe.all_probes() if not p[0].startswith(("land_", "lor_"))]
    progs = [(k, mslprobe.program(op, n)) for k, op, n in probes]
    res = mslcorr.compile_programs(tools, progs, ["default"], want_ir=False)
    rows = []
    for k, op, n in probes:
        m = (res.get(k) or {}).get("msl", {}).get("default", {})
        if "text" not in m:
            raise GenError("msloptable: probe %s does not compile to MSL: %s" % (k, (res.get(k) or {}).get("err") or m))
        try:
            t, hs = mslprobe.extract_template(m["text"], op)
        except (mslprobe.ProbeError, mslread_error()) as e:
            raise GenError("msloptable: cannot read back the template of probe %s: %s" % (k, e))
        rows.append((op["key"], n, t, hs))
    return [write("Gen/MslOpTable.v", mslprobe.table_file(rows))]


def mslread_error():
    import mslread
    return mslread.OutOfFragment


GENERATORS["msloptable"] = gen_msloptable


import c06gen  # C06: Gen/FoldTables.v
GENERATORS["foldtables"] = lambda tools: c06gen.generate(sys.modules[__name__], tools)

import c14gen  # C14: Gen/OverrideOps.v
GENERATORS["overrides"] = lambda tools: c14gen.generate(sys.modules[__name__], tools)

GENERATORS["spvenums"] = gen_spvenums   # C02
GENERATORS["spvbuild"] = gen_spvbuild   # C02


import c03gen  # C03: Gen/HlslOpTable.v (probe of the HLSL backend)
GENERATORS["hlsloptable"] = lambda tools: c03gen.gen_hlsloptable(sys.modules[__name__], tools)


# ------------------------------------------------------------------ C09: the lowerer's pre-emit kinds

def gen_c09preemit(tools):
    import re
    src, fsrc = extract(tools, [{"kind": "funcsrc", "file": "wgsl/internal/lower/lower.go", "name": "needsPreEmit"},
                                {"kind": "funcsrc", "file": "wgsl/internal/lower/lower.go", "name": "ensureBlockReturns"}])
    m = re.search(r"case\s+(.*?):\s*return true", src, re.S)
    if not m:
        raise GenError("needsPreEmit: case list returning true not found")
    kinds = [k.strip().replace("ir.", "") for k in m.group(1).split(",")]
    if not kinds or not all(re.fullmatch(r"[A-Za-z]+", k) for k in kinds):
        raise GenError("needsPreEmit: unexpected case list %r" % (m.group(1),))
    # ensureBlockReturns: statement kinds treated as "already terminates"
    terms = None
    for m2 in re.finditer(r"case\s+((?:ir\.Stmt\w+\s*,\s*)*ir\.Stmt\w+)\s*:", fsrc):
        ks = [k.strip().replace("ir.", "") for k in m2.group(1).split(",") if k.strip()]
        if "StmtReturn" in ks:
            terms = ks
    if not terms:
        raise GenError("ensureBlockReturns: terminator case list not found")
    rec = re.findall(r"case ir\.(Stmt\w+):\s*\n\s*(?:ensureBlockReturns|for)", fsrc)
    out = ["From Coq Require Import List String.", "Import ListNotations.", "Open Scope string_scope.", "",
           "(* wgsl/internal/lower/lower.go needsPreEmit: expression kinds added outside every Emit range *)",
           "Definition lowerer_pre_emit_kinds : list string := [%s]." % "; ".join(coq_string(k) for k in kinds),
           "(* ensureBlockReturns: statement kinds it descends into / treats as terminators *)",
           "Definition lowerer_return_descends : list string := [%s]." % "; ".join(coq_string(k) for k in rec),
           "Definition lowerer_return_terminators : list string := [%s]." % "; ".join(coq_string(k) for k in terms)]
    return [write("Gen/C09PreEmit.v", "\n".join(out) + "\n")]


GENERATORS["c09preemit"] = gen_c09preemit   # C09

import spvcheck  # C01/C15: Gen/SpvOpTable.v (probed SPIR-V instruction templates)
GENERATORS["spvoptable"] = lambda tools: spvcheck.gen_spvoptable(sys.modules[__name__], tools)


# C05: Gen/GlslOpTable.v (probe: one micro-program per operator x kind x shape, compiled to GLSL and read back)
def gen_glsloptable(tools):
    import glslprobe
    rows, problems = glslprobe.run_probes(tools)
    if problems:
        raise GenError("glsl probe: %d probes could not be compiled/read, first: %s" % (len(problems), problems[0],))
    body, n = glslprobe.write_table(rows)
    gen_glsloptable.last = {"rows": len(rows), "distinct": n}
    return [write("Gen/GlslOpTable.v", body)]


GENERATORS["glsloptable"] = gen_glsloptable


import parsegen  # parser model: Gen/ParseTables.v
GENERATORS["parse"] = lambda tools: parsegen.gen_parse(sys.modules[__name__], tools)


def regenerate(tools, names):
    os.makedirs(GEN, exist_ok=True)
    files = []
    for n in names:
        files += GENERATORS[n](tools)
    return files


def regenerate_all(tools):
    return regenerate(tools, sorted(GENERATORS))


if __name__ == "__main__":
    t = vcheck.build_harness()
    print(regenerate_all(t))
