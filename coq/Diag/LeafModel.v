(* C11 leaf procedures 3 and 4: small decision functions transliterated from
   wgsl/internal/lower/lower.go, each with the WGSL rule it implements as SPEC.

   - @group/@binding pairing        lowerGlobalVar (the attribute loop and the two tests after it)
   - array element count            resolveType, case parser.ArrayType (tryEvalConstantUint + `n == 0`)
   - @workgroup_size presence       lowerFunction (entryPointStage + the attribute loop)
   - constant integer division      evalConstantBinaryExpr, cases TokenSlash / TokenPercent
   - position predicates            SourceError{Span.Start.Line, Column} / ParseError{Token.Line, Column} *)
From Coq Require Import List ZArith Bool String.
Import ListNotations.
Open Scope Z_scope.

(* ------------------------------------------------------------------ attributes *)
(* an attribute argument is a literal token (parser.Literal) or some other expression *)
Inductive argk := ALit | AOther.
Record attr := { aname : string; aargs : list argk }.

(* `if attr.Name != "group" && attr.Name != "binding" { continue } ... if attr.Name == "group" { hasGroup = true } else { hasBinding = true }`
   : the attribute counts as present whatever its argument is (a non-literal argument is
   evaluated as a const-expression; an evaluation error is a different diagnostic) *)
Definition sets_flag (nm : string) (a : attr) : bool := String.eqb (aname a) nm.

Definition has_group_model (attrs : list attr) : bool := existsb (sets_flag "group") attrs.
Definition has_binding_model (attrs : list attr) : bool := existsb (sets_flag "binding") attrs.

(* true = an error is returned *)
Definition pairing_model (attrs : list attr) : bool :=
  let g := has_group_model attrs in
  let b := has_binding_model attrs in
  (b && negb g) || (g && negb b).

(* SPEC: @group and @binding must appear together (whatever their argument expression is) *)
Definition has_attr (nm : string) (attrs : list attr) : bool := existsb (fun a => String.eqb (aname a) nm) attrs.
Definition pairing_spec (attrs : list attr) : bool := xorb (has_attr "group" attrs) (has_attr "binding" attrs).

(* ------------------------------------------------------------------ array element count *)
Definition two63 : Z := 9223372036854775808.
Definition two64 : Z := 18446744073709551616.
Definition two32 : Z := 4294967296.
Definition int64 (v : Z) : Prop := - two63 <= v < two63.

Inductive size_verdict := SizeError | SizeConst (n : Z) | SizeDynamic.

(* ev = result of evalConstantIntExpr (an int64) or None when it returned an error
     if _, n, err := l.evalConstantIntExpr(t.Size); err == nil {
        if n <= 0 { return error }
        constSize := uint32(n) ... }                      otherwise the size stays nil (runtime-sized) *)
Definition array_size_model (ev : option Z) : size_verdict :=
  match ev with
  | None => SizeDynamic
  | Some v => if v <=? 0 then SizeError else SizeConst (v mod two32)
  end.

(* SPEC: the element count must be a (const) integer greater than zero *)
Definition array_size_spec (v : Z) : size_verdict := if v <=? 0 then SizeError else SizeConst v.

(* ------------------------------------------------------------------ @workgroup_size *)
Inductive stage := Vertex | Fragment | Compute | Task | Mesh.

(* entryPointStage: the first attribute naming a stage decides *)
Fixpoint entry_stage (names : list string) : option stage :=
  match names with
  | [] => None
  | n :: r =>
      if String.eqb n "vertex" then Some Vertex
      else if String.eqb n "fragment" then Some Fragment
      else if String.eqb n "compute" then Some Compute
      else if String.eqb n "task" then Some Task
      else if String.eqb n "mesh" then Some Mesh
      else entry_stage r
  end.

Definition needs_wg (s : stage) : bool := match s with Compute | Mesh | Task => true | _ => false end.

(* true = "missing @workgroup_size" error *)
Definition wg_model (names : list string) : bool :=
  match entry_stage names with
  | Some s => if needs_wg s then negb (existsb (String.eqb "workgroup_size") names) else false
  | None => false
  end.

(* ------------------------------------------------------------------ constant integer division *)
Definition wrap64 (z : Z) : Z := (z + two63) mod two64 - two63.

(* op: true = `/`, false = `%`; operands are int64; None = error *)
Definition const_div_model (op : bool) (l r : Z) : option Z :=
  if r =? 0 then None else Some (wrap64 (if op then Z.quot l r else Z.rem l r)).

(* ------------------------------------------------------------------ positions *)
(* a source text as the list of its line lengths (bytes, without the newline) *)
Definition pos_in_source (lines : list Z) (line col : Z) : bool :=
  (1 <=? line) && (line <=? Z.of_nat (List.length lines)) &&
  (1 <=? col) && (col <=? nth (Z.to_nat (line - 1)) lines 0 + 1).

Definition pos_le (l1 c1 l2 c2 : Z) : bool := (l1 <? l2) || ((l1 =? l2) && (c1 <=? c2)).

(* span = position of the first byte of the first token and one past the last byte of the last token *)
Definition pos_within_span (sl sc el ec line col : Z) : bool := pos_le sl sc line col && pos_le line col el ec.

(* byte offset of a position *)
Fixpoint offset_of_line (lines : list Z) (n : nat) : Z :=
  match n, lines with
  | O, _ => 0
  | S n', len :: r => len + 1 + offset_of_line r n'
  | S _, [] => 0
  end.
Definition offset_of (lines : list Z) (line col : Z) : Z := offset_of_line lines (Z.to_nat (line - 1)) + (col - 1).
Fixpoint total_len (lines : list Z) : Z := match lines with [] => 0 | len :: r => len + 1 + total_len r end.
