From Coq Require Import List ZArith Bool String Lia.
Import ListNotations.
Require Import Naga.Diag.LeafModel.
Open Scope Z_scope.

(* ------------------------------------------------------------------ pairing *)
Lemma existsb_ext_in : forall (A : Type) (f g : A -> bool) l, (forall a, In a l -> f a = g a) -> existsb f l = existsb g l.
Proof.
  induction l as [|a l IH]; intros H; cbn; [reflexivity|].
  rewrite (H a (or_introl eq_refl)), IH; [reflexivity|]. intros b Hb. apply H. right. assumption.
Qed.

(* the model implements the rule on every attribute list *)
Theorem pairing_model_eq_spec : forall attrs, pairing_model attrs = pairing_spec attrs.
Proof.
  intros attrs. unfold pairing_model, pairing_spec, has_group_model, has_binding_model, has_attr, sets_flag.
  destruct (existsb (fun a => String.eqb (aname a) "group") attrs), (existsb (fun a => String.eqb (aname a) "binding") attrs); reflexivity.
Qed.

(* ------------------------------------------------------------------ array size *)
Theorem array_size_nonpositive_rejected : forall v, v <= 0 -> array_size_model (Some v) = SizeError.
Proof. intros v H. unfold array_size_model. destruct (Z.leb_spec v 0); [reflexivity|lia]. Qed.

Theorem array_size_error_iff_nonpositive : forall v, array_size_model (Some v) = SizeError <-> v <= 0.
Proof.
  intros v. unfold array_size_model. destruct (Z.leb_spec v 0); split; intros H0; try reflexivity; try lia; discriminate.
Qed.

(* equal to the rule for every count that fits the IR's uint32 *)
Theorem array_size_model_eq_spec : forall v, v < two32 -> array_size_model (Some v) = array_size_spec v.
Proof.
  intros v H. unfold array_size_model, array_size_spec, two32 in *.
  destruct (Z.leb_spec v 0); [reflexivity|]. rewrite Z.mod_small by lia. reflexivity.
Qed.

(* ------------------------------------------------------------------ workgroup size *)
Theorem wg_model_spec : forall names,
  wg_model names = true <->
  (exists s, entry_stage names = Some s /\ needs_wg s = true) /\ ~ In "workgroup_size"%string names.
Proof.
  intros names. unfold wg_model.
  assert (Hex : existsb (String.eqb "workgroup_size") names = true <-> In "workgroup_size"%string names).
  { rewrite existsb_exists. split.
    - intros (x & Hx & He). apply String.eqb_eq in He. subst. assumption.
    - intros H. exists "workgroup_size"%string. split; [assumption|apply String.eqb_refl]. }
  destruct (entry_stage names) as [s|].
  - destruct (needs_wg s) eqn:Hn.
    + rewrite negb_true_iff. split.
      * intros H. split; [exists s; auto|]. intros Hin. apply Hex in Hin. congruence.
      * intros [_ Hnin]. destruct (existsb _ names) eqn:E; [|reflexivity]. exfalso. apply Hnin, Hex. reflexivity.
    + split; [discriminate|]. intros [(s' & Hs & Hn') _]. inversion Hs; subst. congruence.
  - split; [discriminate|]. intros [(s' & Hs & _) _]. discriminate.
Qed.

(* ------------------------------------------------------------------ constant division *)
Theorem const_div_error_iff : forall op l r, const_div_model op l r = None <-> r = 0.
Proof.
  intros op l r. unfold const_div_model. destruct (Z.eqb_spec r 0); split; intros H; try reflexivity; try discriminate; try assumption. contradiction.
Qed.

Theorem const_div_by_zero_rejected : forall op l, const_div_model op l 0 = None.
Proof. intros. apply const_div_error_iff. reflexivity. Qed.

Lemma wrap64_id : forall z, int64 z -> wrap64 z = z.
Proof. intros z [Hlo Hhi]. unfold wrap64, two63, two64 in *. rewrite Z.mod_small by lia. lia. Qed.

Theorem const_div_value : forall l r, int64 l -> int64 r -> r <> 0 -> ~ (l = - two63 /\ r = -1) ->
  const_div_model true l r = Some (Z.quot l r) /\ const_div_model false l r = Some (Z.rem l r).
Proof.
  intros l r Hl Hr Hnz Hov. unfold const_div_model. destruct (Z.eqb_spec r 0); [contradiction|].
  unfold int64, two63 in *.
  assert (Hq : int64 (Z.quot l r)).
  { unfold int64, two63.
    destruct (Z.eq_dec r 1) as [->|R1]. { rewrite Z.quot_1_r. lia. }
    destruct (Z.eq_dec r (-1)) as [->|R2]. { change (Z.quot l (-1)) with (Z.quot l (Z.opp 1)). rewrite Z.quot_opp_r, Z.quot_1_r by lia. lia. }
    assert (Ha : Z.abs (Z.quot l r) < 9223372036854775808).
    { rewrite <- Z.quot_abs by assumption. rewrite Z.quot_div_nonneg by lia.
      apply Z.div_lt_upper_bound; lia. }
    lia. }
  assert (Hm : int64 (Z.rem l r)).
  { unfold int64, two63. pose proof (Z.rem_bound_abs l r n). lia. }
  rewrite !wrap64_id by assumption. split; reflexivity.
Qed.

(* ------------------------------------------------------------------ positions *)
Lemma offset_line_bounds : forall lines n,
  Forall (fun x => 0 <= x) lines -> (n < List.length lines)%nat ->
  0 <= offset_of_line lines n /\ offset_of_line lines n + nth n lines 0 + 1 <= total_len lines.
Proof.
  induction lines as [|len r IH]; intros n Hnn Hn; cbn [List.length] in Hn; [lia|].
  inversion Hnn as [|? ? Hlen Hr]; subst.
  assert (Ht : 0 <= total_len r) by (clear -Hr; induction Hr; cbn [total_len]; lia).
  destruct n as [|n']; cbn [offset_of_line nth total_len].
  - lia.
  - destruct (IH n' Hr ltac:(lia)) as [A B]. lia.
Qed.

(* a position accepted by pos_in_source designates a byte of the text (or the newline / end of its line) *)
Theorem pos_in_source_offset : forall lines line col,
  Forall (fun x => 0 <= x) lines -> pos_in_source lines line col = true ->
  0 <= offset_of lines line col < total_len lines.
Proof.
  intros lines line col Hnn H. unfold pos_in_source in H.
  apply andb_prop in H. destruct H as [H H4]. apply andb_prop in H. destruct H as [H H3].
  apply andb_prop in H. destruct H as [H1 H2].
  apply Z.leb_le in H1, H2, H3, H4.
  assert (Hn : (Z.to_nat (line - 1) < List.length lines)%nat) by lia.
  destruct (offset_line_bounds lines _ Hnn Hn) as [A B].
  unfold offset_of. lia.
Qed.

Lemma pos_le_refl : forall l c, pos_le l c l c = true.
Proof. intros. unfold pos_le. rewrite Z.eqb_refl, Z.leb_refl. apply orb_true_r. Qed.

Lemma pos_le_trans : forall l1 c1 l2 c2 l3 c3, pos_le l1 c1 l2 c2 = true -> pos_le l2 c2 l3 c3 = true -> pos_le l1 c1 l3 c3 = true.
Proof.
  unfold pos_le. intros l1 c1 l2 c2 l3 c3 H1 H2.
  destruct (Z.ltb_spec l1 l2), (Z.eqb_spec l1 l2), (Z.leb_spec c1 c2), (Z.ltb_spec l2 l3), (Z.eqb_spec l2 l3), (Z.leb_spec c2 c3);
    cbn in H1, H2; try discriminate;
    destruct (Z.ltb_spec l1 l3), (Z.eqb_spec l1 l3), (Z.leb_spec c1 c3); cbn; try reflexivity; lia.
Qed.

(* a position inside a declaration's span lies inside every span that contains the declaration
   (in particular inside the source text when the declaration does) *)
Theorem pos_within_span_mono : forall sl sc el ec sl' sc' el' ec' line col,
  pos_le sl' sc' sl sc = true -> pos_le el ec el' ec' = true ->
  pos_within_span sl sc el ec line col = true -> pos_within_span sl' sc' el' ec' line col = true.
Proof.
  unfold pos_within_span. intros sl sc el ec sl' sc' el' ec' line col Hs He H.
  apply andb_prop in H. destruct H as [H1 H2].
  rewrite (pos_le_trans _ _ _ _ _ _ Hs H1), (pos_le_trans _ _ _ _ _ _ H2 He). reflexivity.
Qed.
