(* swizzle_model = swizzle_spec for every member name (any length, any bytes) and every uint8 width *)
From Coq Require Import List ZArith Bool Lia.
Import ListNotations.
Require Import Naga.Diag.SwizzleModel.
Open Scope Z_scope.

(* classification of one byte *)
Lemma cls_cases : forall c,
  (exists i, xyzw_index c = Some i /\ rgba_index c = None /\ swizzle_component c = Some i /\ swizzle_ns c = 1 /\ 0 <= i <= 3) \/
  (exists i, rgba_index c = Some i /\ xyzw_index c = None /\ swizzle_component c = Some i /\ swizzle_ns c = 2 /\ 0 <= i <= 3) \/
  (xyzw_index c = None /\ rgba_index c = None /\ swizzle_component c = None /\ swizzle_ns c = 0).
Proof.
  intros c.
  unfold xyzw_index, rgba_index, swizzle_component, swizzle_ns, component_table, ns_table, lookup.
  destruct (Z.eqb_spec c 120) as [->|N1]; [left; exists 0; cbn; repeat split; lia|].
  destruct (Z.eqb_spec c 121) as [->|N2]; [left; exists 1; cbn; repeat split; lia|].
  destruct (Z.eqb_spec c 122) as [->|N3]; [left; exists 2; cbn; repeat split; lia|].
  destruct (Z.eqb_spec c 119) as [->|N4]; [left; exists 3; cbn; repeat split; lia|].
  destruct (Z.eqb_spec c 114) as [->|N5]; [right; left; exists 0; cbn; repeat split; lia|].
  destruct (Z.eqb_spec c 103) as [->|N6]; [right; left; exists 1; cbn; repeat split; lia|].
  destruct (Z.eqb_spec c 98) as [->|N7]; [right; left; exists 2; cbn; repeat split; lia|].
  destruct (Z.eqb_spec c 97) as [->|N8]; [right; left; exists 3; cbn; repeat split; lia|].
  right; right; repeat split; reflexivity.
Qed.

Lemma u8_small : forall i, 0 <= i <= 3 -> u8 i = i.
Proof. intros i H. unfold u8. apply Z.mod_small. lia. Qed.

Lemma u8_w : forall w, 0 <= w < 256 -> u8 w = w.
Proof. intros w H. unfold u8. apply Z.mod_small. lia. Qed.

Lemma geb_ltb : forall a b, (a >=? b) = negb (a <? b).
Proof. intros. rewrite Z.geb_leb. destruct (Z.leb_spec b a), (Z.ltb_spec a b); try reflexivity; lia. Qed.

(* generic: when every byte of l is in namespace `nsv` (with index function f agreeing with
   swizzle_component), the model's loops compute the spec's pieces *)
Section OneNamespace.
  Variable f : Z -> option Z.
  Variable nsv : Z.
  Hypothesis nsv_nz : nsv <> 0.
  Hypothesis f_ok : forall c i, f c = Some i -> swizzle_component c = Some i /\ swizzle_ns c = nsv /\ 0 <= i <= 3.
  Hypothesis f_none : forall c, f c = None -> swizzle_ns c <> nsv.

  Lemma ns_loop_all : forall l, ns_loop nsv l = true <-> exists idx, all_opt f l = Some idx.
  Proof.
    induction l as [|c r IH]; cbn [ns_loop all_opt].
    - split; [eexists; reflexivity | reflexivity].
    - destruct (f c) as [i|] eqn:Hf.
      + destruct (f_ok _ _ Hf) as (_ & Hn & _). rewrite Hn.
        destruct (Z.eqb_spec nsv 0); [contradiction|].
        rewrite Z.eqb_refl. cbn [negb].
        rewrite IH. split; intros [idx H].
        * rewrite H. eexists; reflexivity.
        * destruct (all_opt f r); [eexists; reflexivity | discriminate].
      + pose proof (f_none _ Hf) as Hn.
        split.
        * destruct (swizzle_ns c =? 0); [discriminate|].
          destruct (Z.eqb_spec (swizzle_ns c) nsv); [contradiction|]. cbn. discriminate.
        * intros [idx H]. discriminate.
  Qed.

  Lemma comp_loop_all : forall w l idx, 0 <= w < 256 -> all_opt f l = Some idx ->
    comp_loop l w = if in_width w idx then Some idx else None.
  Proof.
    intros w l. induction l as [|c r IH]; intros idx Hw H; cbn [all_opt] in H.
    - inversion H; subst. reflexivity.
    - destruct (f c) as [i|] eqn:Hf; [|discriminate].
      destruct (all_opt f r) as [p|] eqn:Hr; [|discriminate].
      inversion H; subst idx. clear H.
      destruct (f_ok _ _ Hf) as (Hc & _ & Hi).
      cbn [comp_loop in_width forallb]. rewrite Hc, (u8_small _ Hi), (u8_w _ Hw), geb_ltb.
      destruct (i <? w); cbn [negb andb]; [|reflexivity].
      rewrite (IH p Hw eq_refl). unfold in_width. destruct (forallb _ p); reflexivity.
  Qed.
End OneNamespace.

Lemma xyzw_ok : forall c i, xyzw_index c = Some i -> swizzle_component c = Some i /\ swizzle_ns c = 1 /\ 0 <= i <= 3.
Proof.
  intros c i H. destruct (cls_cases c) as [(j & A & _ & C & D & E)|[(j & A & B & _)|(A & _)]]; try congruence.
  rewrite A in H; inversion H; subst. auto.
Qed.
Lemma xyzw_none : forall c, xyzw_index c = None -> swizzle_ns c <> 1.
Proof.
  intros c H. destruct (cls_cases c) as [(j & A & _)|[(j & _ & _ & _ & D & _)|(_ & _ & _ & D)]]; try congruence; lia.
Qed.
Lemma rgba_ok : forall c i, rgba_index c = Some i -> swizzle_component c = Some i /\ swizzle_ns c = 2 /\ 0 <= i <= 3.
Proof.
  intros c i H. destruct (cls_cases c) as [(j & _ & B & _)|[(j & A & _ & C & D & E)|(_ & B & _)]]; try congruence.
  rewrite A in H; inversion H; subst. auto.
Qed.
Lemma rgba_none : forall c, rgba_index c = None -> swizzle_ns c <> 2.
Proof.
  intros c H. destruct (cls_cases c) as [(j & _ & _ & _ & D & _)|[(j & A & _)|(_ & _ & _ & D)]]; try congruence; lia.
Qed.

Lemma all_opt_length : forall f l idx, all_opt f l = Some idx -> length idx = length l.
Proof.
  induction l as [|c r IH]; intros idx H; cbn in H.
  - inversion H. reflexivity.
  - destruct (f c); [|discriminate]. destruct (all_opt f r); [|discriminate]. inversion H. cbn. f_equal. apply IH. reflexivity.
Qed.

(* the pattern procedure on names of length >= 1 (its own length test removed) *)
Definition pattern_core (member : list Z) (w : Z) : option (list Z) :=
  match member with
  | [] => None
  | c0 :: rest =>
      if swizzle_ns c0 =? 0 then None
      else if negb (ns_loop (swizzle_ns c0) rest) then None
      else comp_loop member w
  end.

Definition spec_core (member : list Z) (w : Z) : option (list Z) :=
  match all_opt xyzw_index member with
  | Some idx => if in_width w idx then Some idx else None
  | None =>
      match all_opt rgba_index member with
      | Some idx => if in_width w idx then Some idx else None
      | None => None
      end
  end.

Lemma pattern_core_eq_spec : forall c0 rest w, 0 <= w < 256 ->
  pattern_core (c0 :: rest) w = spec_core (c0 :: rest) w.
Proof.
  intros c0 rest w Hw. unfold pattern_core, spec_core.
  destruct (cls_cases c0) as [(i & A & B & C & D & E)|[(i & A & B & C & D & E)|(A & B & C & D)]].
  - (* first letter in xyzw *)
    rewrite D. cbn [Z.eqb negb].
    destruct (ns_loop 1 rest) eqn:Hl; cbn [negb].
    + apply (ns_loop_all xyzw_index 1 ltac:(lia) xyzw_ok xyzw_none) in Hl. destruct Hl as [idx Hidx].
      assert (Hall : all_opt xyzw_index (c0 :: rest) = Some (i :: idx)) by (cbn [all_opt]; rewrite A, Hidx; reflexivity).
      rewrite Hall. apply (comp_loop_all xyzw_index 1 xyzw_ok); assumption.
    + assert (Hn : all_opt xyzw_index rest = None).
      { destruct (all_opt xyzw_index rest) eqn:Hr; [|reflexivity].
        assert (ns_loop 1 rest = true) by (apply (ns_loop_all xyzw_index 1 ltac:(lia) xyzw_ok xyzw_none); eexists; eassumption).
        congruence. }
      cbn [all_opt]. rewrite A, Hn, B. reflexivity.
  - (* first letter in rgba *)
    rewrite D. cbn [Z.eqb negb].
    cbn [all_opt]. rewrite B.
    destruct (ns_loop 2 rest) eqn:Hl; cbn [negb].
    + apply (ns_loop_all rgba_index 2 ltac:(lia) rgba_ok rgba_none) in Hl. destruct Hl as [idx Hidx].
      rewrite A, Hidx.
      apply (comp_loop_all rgba_index 2 rgba_ok w (c0 :: rest) (i :: idx) Hw).
      cbn [all_opt]. rewrite A, Hidx. reflexivity.
    + assert (Hn : all_opt rgba_index rest = None).
      { destruct (all_opt rgba_index rest) eqn:Hr; [|reflexivity].
        assert (ns_loop 2 rest = true) by (apply (ns_loop_all rgba_index 2 ltac:(lia) rgba_ok rgba_none); eexists; eassumption).
        congruence. }
      rewrite A, Hn. reflexivity.
  - (* first letter in neither *)
    rewrite D. cbn [Z.eqb all_opt]. rewrite A, B. reflexivity.
Qed.

Theorem swizzle_model_eq_spec : forall member w, 0 <= w < 256 ->
  swizzle_model member w = swizzle_spec member w.
Proof.
  intros member w Hw.
  destruct member as [|c0 rest].
  - reflexivity.
  - destruct rest as [|c1 rest'].
    + (* one letter: swizzleIndex *)
      unfold swizzle_model, swizzle_spec, swizzle_index_model. cbn [length Z.of_nat Z.eqb Pos.eqb Pos.of_succ_nat].
      cbn [Z.leb Z.compare Pos.compare Pos.compare_cont andb all_opt].
      destruct (cls_cases c0) as [(i & A & B & C & D & E)|[(i & A & B & C & D & E)|(A & B & C & D)]];
        rewrite ?A, ?B, ?C; cbn [in_width forallb]; rewrite ?(u8_small _ E), ?(u8_w _ Hw), ?geb_ltb;
        try (destruct (i <? w); reflexivity); reflexivity.
    + (* two or more letters: swizzlePattern *)
      unfold swizzle_model.
      assert (Hlen : Z.of_nat (length (c0 :: c1 :: rest')) =? 1 = false).
      { apply Z.eqb_neq. cbn [length]. lia. }
      rewrite Hlen. unfold swizzle_pattern_model, swizzle_spec.
      remember (c0 :: c1 :: rest') as m eqn:Hm.
      assert (Hge : 2 <= Z.of_nat (length m)) by (subst m; cbn [length]; lia).
      destruct (Z.ltb_spec (Z.of_nat (length m)) 2); [lia|].
      destruct (Z.leb_spec 1 (Z.of_nat (length m))); [|lia].
      cbn [orb andb].
      rewrite Z.gtb_ltb.
      destruct (Z.ltb_spec 4 (Z.of_nat (length m))), (Z.leb_spec (Z.of_nat (length m)) 4); try lia.
      * reflexivity.
      * subst m. exact (pattern_core_eq_spec c0 (c1 :: rest') w Hw).
Qed.

(* consequences used by the check's predictions *)
Corollary swizzle_mixed_rejected : forall member w c d i j, 0 <= w < 256 ->
  In c member -> In d member -> xyzw_index c = Some i -> rgba_index d = Some j ->
  swizzle_model member w = None.
Proof.
  intros member w c d i j Hw Hc Hd Hx Hr.
  rewrite swizzle_model_eq_spec by assumption. unfold swizzle_spec.
  destruct ((1 <=? Z.of_nat (length member)) && (Z.of_nat (length member) <=? 4)); [|reflexivity].
  assert (Hxn : all_opt xyzw_index member = None).
  { clear Hc Hx. induction member as [|a r IH]; [contradiction|]. cbn [all_opt].
    destruct Hd as [->|Hd].
    - destruct (cls_cases d) as [(k & _ & B & _)|[(k & _ & B & _)|(A & _)]]; try congruence. rewrite B. reflexivity.
      rewrite A. reflexivity.
    - rewrite (IH Hd). destruct (xyzw_index a); reflexivity. }
  assert (Hrn : all_opt rgba_index member = None).
  { clear Hd Hr Hxn. induction member as [|a r IH]; [contradiction|]. cbn [all_opt].
    destruct Hc as [->|Hc].
    - destruct (cls_cases c) as [(k & _ & B & _)|[(k & _ & B & _)|(_ & B & _)]]; try congruence; rewrite B; reflexivity.
    - rewrite (IH Hc). destruct (rgba_index a); reflexivity. }
  rewrite Hxn, Hrn. reflexivity.
Qed.

Corollary swizzle_too_wide_rejected : forall member w c i, 0 <= w < 256 ->
  In c member -> swizzle_component c = Some i -> w <= i ->
  swizzle_model member w = None.
Proof.
  intros member w c i Hw Hc Hi Hwi.
  rewrite swizzle_model_eq_spec by assumption. unfold swizzle_spec.
  destruct ((1 <=? Z.of_nat (length member)) && (Z.of_nat (length member) <=? 4)); [|reflexivity].
  assert (Hgen : forall f, (forall c k, f c = Some k -> swizzle_component c = Some k) ->
            forall idx, all_opt f member = Some idx -> in_width w idx = false).
  { intros f Hf. clear -Hc Hi Hwi Hf. induction member as [|a r IH]; intros idx H; [contradiction|].
    cbn [all_opt] in H. destruct (f a) as [k|] eqn:Hfa; [|discriminate].
    destruct (all_opt f r) as [p|] eqn:Hr; [|discriminate]. inversion H; subst idx.
    cbn [in_width forallb]. destruct Hc as [->|Hc].
    - apply Hf in Hfa. rewrite Hi in Hfa. inversion Hfa; subst k.
      destruct (Z.ltb_spec i w); [lia|reflexivity].
    - unfold in_width in IH. rewrite (IH Hc p eq_refl). apply andb_false_r. }
  destruct (all_opt xyzw_index member) as [idx|] eqn:Hx.
  - rewrite (Hgen xyzw_index (fun c k H => proj1 (xyzw_ok c k H)) idx Hx). reflexivity.
  - destruct (all_opt rgba_index member) as [idx|] eqn:Hr; [|reflexivity].
    rewrite (Hgen rgba_index (fun c k H => proj1 (rgba_ok c k H)) idx Hr). reflexivity.
Qed.
