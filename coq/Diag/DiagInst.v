(* Obligations tying the C11 leaf models to /repo as it is now (re-checked on every run):
   the switch tables regenerated from lower.go are the tables of the model, and the Go text of
   every transliterated piece is the text that was reviewed. *)
From Coq Require Import List ZArith String.
Import ListNotations.
Require Import Naga.Diag.SwizzleModel Naga.Diag.Reviewed Naga.Gen.DiagTables.
Open Scope Z_scope.

Lemma gen_swizzle_component_table : swz_component_table = component_table.
Proof. vm_compute. reflexivity. Qed.

Lemma gen_swizzle_ns_table : swz_ns_table = ns_table /\ swz_ns_default = 0.
Proof. vm_compute. split; reflexivity. Qed.

Lemma gen_src_swizzleIndex_reviewed : String.eqb src_swizzleIndex reviewed_swizzleIndex = true.
Proof. vm_compute. reflexivity. Qed.

Lemma gen_src_swizzlePattern_reviewed : String.eqb src_swizzlePattern reviewed_swizzlePattern = true.
Proof. vm_compute. reflexivity. Qed.

Lemma gen_src_member_dispatch_reviewed : String.eqb src_member_dispatch reviewed_member_dispatch = true.
Proof. vm_compute. reflexivity. Qed.

Lemma gen_src_pairing_scan_reviewed : String.eqb src_pairing_scan reviewed_pairing_scan = true.
Proof. vm_compute. reflexivity. Qed.

Lemma gen_src_pairing_binding_only_reviewed : String.eqb src_pairing_binding_only reviewed_pairing_binding_only = true.
Proof. vm_compute. reflexivity. Qed.

Lemma gen_src_pairing_group_only_reviewed : String.eqb src_pairing_group_only reviewed_pairing_group_only = true.
Proof. vm_compute. reflexivity. Qed.

Lemma gen_src_array_size_reviewed : String.eqb src_array_size reviewed_array_size = true.
Proof. vm_compute. reflexivity. Qed.

Lemma gen_src_try_eval_uint_reviewed : String.eqb src_try_eval_uint reviewed_try_eval_uint = true.
Proof. vm_compute. reflexivity. Qed.

Lemma gen_src_workgroup_size_reviewed : String.eqb src_workgroup_size reviewed_workgroup_size = true.
Proof. vm_compute. reflexivity. Qed.

Lemma gen_src_entry_stage_reviewed : String.eqb src_entry_stage reviewed_entry_stage = true.
Proof. vm_compute. reflexivity. Qed.

Lemma gen_src_const_div_reviewed : String.eqb src_const_div reviewed_const_div = true.
Proof. vm_compute. reflexivity. Qed.

Lemma gen_src_const_assert_reviewed : String.eqb src_const_assert reviewed_const_assert = true.
Proof. vm_compute. reflexivity. Qed.

Lemma gen_src_must_use_reviewed : String.eqb src_must_use reviewed_must_use = true.
Proof. vm_compute. reflexivity. Qed.

Lemma gen_src_arg_check_reviewed : String.eqb src_arg_check reviewed_arg_check = true.
Proof. vm_compute. reflexivity. Qed.

Lemma gen_src_unknown_function_reviewed : String.eqb src_unknown_function reviewed_unknown_function = true.
Proof. vm_compute. reflexivity. Qed.

Lemma gen_src_expect_reviewed : String.eqb src_expect reviewed_expect = true.
Proof. vm_compute. reflexivity. Qed.

Lemma gen_src_expectErr_reviewed : String.eqb src_expectErr reviewed_expectErr = true.
Proof. vm_compute. reflexivity. Qed.

Lemma gen_src_expectSemicolon_reviewed : String.eqb src_expectSemicolon reviewed_expectSemicolon = true.
Proof. vm_compute. reflexivity. Qed.

Lemma gen_src_parse_error_pos_reviewed : String.eqb src_parse_error_pos reviewed_parse_error_pos = true.
Proof. vm_compute. reflexivity. Qed.

Lemma gen_src_source_error_pos_reviewed : String.eqb src_source_error_pos reviewed_source_error_pos = true.
Proof. vm_compute. reflexivity. Qed.
