(* The pieces of Go code of /repo that the models of coq/Diag/*Model.v were transliterated
   from, as reviewed (go/printer text, comments dropped, indentation and blank lines removed).
   Hand-maintained: when Diag/DiagInst.v stops checking because one of these texts differs
   from the regenerated coq/Gen/DiagTables.v, re-read the Go code, update the model and its
   proofs if its behaviour changed, then update the text here. *)
From Coq Require Import String.

(* -> SwizzleModel.swizzle_index_model *)
Definition reviewed_swizzleIndex : string := "{
if len(member) != 1 {
return 0, fmt.Errorf(""invalid swizzle %q"", member)
}
comp, ok := swizzleComponent(member[0])
if !ok {
return 0, fmt.Errorf(""invalid swizzle component %q"", member)
}
if uint8(comp) >= uint8(vecSize) {
return 0, fmt.Errorf(""swizzle component %q out of range for vec%v"", member, vecSize)
}
return uint32(comp), nil
}"%string.

(* -> SwizzleModel.swizzle_pattern_model (ns_loop, comp_loop) *)
Definition reviewed_swizzlePattern : string := "{
if len(member) < 2 || len(member) > 4 {
return 0, [4]ir.SwizzleComponent{}, fmt.Errorf(""invalid swizzle %q"", member)
}
firstNs := swizzleComponentNamespace(member[0])
if firstNs == swizzleNsNone {
return 0, [4]ir.SwizzleComponent{}, fmt.Errorf(""invalid swizzle component %q"", member)
}
for i := 1; i < len(member); i++ {
ns := swizzleComponentNamespace(member[i])
if ns == swizzleNsNone {
return 0, [4]ir.SwizzleComponent{}, fmt.Errorf(""invalid swizzle component %q"", member)
}
if ns != firstNs {
return 0, [4]ir.SwizzleComponent{}, fmt.Errorf(""invalid swizzle %q: cannot mix xyzw and rgba components"", member)
}
}
var pattern [4]ir.SwizzleComponent
for i := 0; i < len(member); i++ {
comp, ok := swizzleComponent(member[i])
if !ok {
return 0, [4]ir.SwizzleComponent{}, fmt.Errorf(""invalid swizzle component %q"", member)
}
if uint8(comp) >= uint8(vecSize) {
return 0, [4]ir.SwizzleComponent{}, fmt.Errorf(""swizzle component %q out of range for vec%v"", member, vecSize)
}
pattern[i] = comp
}
var size ir.VectorSize
switch len(member) {
case 2:
size = ir.Vec2
case 3:
size = ir.Vec3
case 4:
size = ir.Vec4
default:
return 0, [4]ir.SwizzleComponent{}, fmt.Errorf(""invalid swizzle %q"", member)
}
return size, pattern, nil
}"%string.

(* -> SwizzleModel.swizzle_model *)
Definition reviewed_member_dispatch : string := "if len(mem.Member) == 1 {
index, err := l.swizzleIndex(mem.Member, vec.Size)
if err != nil {
return 0, err
}
return l.addExpression(ir.Expression{
Kind: ir.ExprAccessIndex{Base: base, Index: index},
}), nil
}"%string.

(* -> LeafModel.sets_flag / has_group_model / has_binding_model *)
Definition reviewed_pairing_scan : string := "for _, attr := range v.Attributes {
if attr.Name != ""group"" && attr.Name != ""binding"" {
continue
}
// The attribute counts as present whatever its argument looks like;
// a non-literal argument (e.g. a named constant) is a const-expression
// and is evaluated, not ignored.
var value uint32
if len(attr.Args) > 0 {
if lit, ok := attr.Args[0].(*parser.Literal); ok {
n, _ := strconv.ParseUint(lit.Value, 10, 32)
value = uint32(n)
} else {
_, n, err := l.evalConstantIntExpr(attr.Args[0])
if err != nil {
return fmt.Errorf(""global var '%s': @%s argument: %w"", v.Name, attr.Name, err)
}
if n < 0 {
return fmt.Errorf(""global var '%s': @%s argument must not be negative"", v.Name, attr.Name)
}
value = uint32(n)
}
}
if binding == nil {
binding = &ir.ResourceBinding{}
}
if attr.Name == ""group"" {
binding.Group = value
hasGroup = true
} else {
binding.Binding = value
hasBinding = true
}
}"%string.

(* -> LeafModel.pairing_model *)
Definition reviewed_pairing_binding_only : string := "if hasBinding && !hasGroup {
return fmt.Errorf(""global var '%s': @binding requires @group attribute"", v.Name)
}"%string.

(* -> LeafModel.pairing_model *)
Definition reviewed_pairing_group_only : string := "if hasGroup && !hasBinding {
return fmt.Errorf(""global var '%s': @group requires @binding attribute"", v.Name)
}"%string.

(* -> LeafModel.array_size_model *)
Definition reviewed_array_size : string := "if t.Size != nil {
if _, n, err := l.evalConstantIntExpr(t.Size); err == nil {
if n <= 0 {
return 0, fmt.Errorf(""array size must be greater than 0"")
}
constSize := uint32(n)
size.Constant = &constSize
}
}"%string.

(* -> no longer on the array-size path (kept: tryEvalConstantUint still exists) *)
Definition reviewed_try_eval_uint : string := "{
_, val, err := l.evalConstantIntExpr(expr)
if err != nil {
return 0, false
}
return uint64(val), true
}"%string.

(* -> LeafModel.wg_model *)
Definition reviewed_workgroup_size : string := "if *stage == ir.StageCompute || *stage == ir.StageMesh || *stage == ir.StageTask {
hasWGSize := false
for _, attr := range f.Attributes {
if attr.Name == ""workgroup_size"" {
hasWGSize = true
break
}
}
if !hasWGSize {
return fmt.Errorf(""@compute entry point '%s' is missing @workgroup_size attribute"", f.Name)
}
ep.Workgroup = l.extractWorkgroupSize(f.Attributes)
}"%string.

(* -> LeafModel.entry_stage *)
Definition reviewed_entry_stage : string := "{
for _, attr := range attrs {
switch attr.Name {
case ""vertex"":
stage := ir.StageVertex
return &stage
case ""fragment"":
stage := ir.StageFragment
return &stage
case ""compute"":
stage := ir.StageCompute
return &stage
case ""task"":
stage := ir.StageTask
return &stage
case ""mesh"":
stage := ir.StageMesh
return &stage
}
}
return nil
}"%string.

(* -> LeafModel.const_div_model *)
Definition reviewed_const_div : string := "case parser.TokenSlash:
if rightVal == 0 {
return 0, 0, fmt.Errorf(""division by zero in constant expression"")
}
return resultKind, leftVal / rightVal, nil
case parser.TokenPercent:
if rightVal == 0 {
return 0, 0, fmt.Errorf(""modulo by zero in constant expression"")
}
return resultKind, leftVal % rightVal, nil"%string.

(* -> not modelled beyond: unevaluable conditions are accepted (see known findings) *)
Definition reviewed_const_assert : string := "{
val, ok := l.tryEvalConstantBool(condition)
if !ok {
return nil
}
if !val {
return fmt.Errorf(""const_assert failed"")
}
return nil
}"%string.

(* -> site enumeration only *)
Definition reviewed_must_use : string := "if l.funcMustUse[funcName] && l.isStatement {
return 0, fmt.Errorf(""result of @must_use function '%s' must be used"", funcName)
}"%string.

(* -> site enumeration only *)
Definition reviewed_arg_check : string := "if int(funcHandle) < len(l.module.Functions) {
fn := &l.module.Functions[funcHandle]
if len(args) != len(fn.Arguments) {
return 0, fmt.Errorf(""function '%s' expects %d argument(s), got %d"", funcName, len(fn.Arguments), len(args))
}
for i, argHandle := range args {
l.concretizeExpressionToType(argHandle, fn.Arguments[i].Type)
if err := l.checkArgumentType(argHandle, fn.Arguments[i].Type, funcName, i); err != nil {
return 0, err
}
}
}"%string.

(* -> site enumeration only *)
Definition reviewed_unknown_function : string := "if !ok {
return 0, fmt.Errorf(""unknown function: %s"", funcName)
}"%string.

(* -> the silent variant: a missing closing token is not reported (see known findings) *)
Definition reviewed_expect : string := "{
if p.check(kind) {
p.advance()
return
}
if kind == TokenGreater {
_ = p.expectTemplateClose()
}
}"%string.

(* -> reports at the current token *)
Definition reviewed_expectErr : string := "{
if p.check(kind) {
p.advance()
return nil
}
if kind == TokenGreater {
return p.expectTemplateClose()
}
return &ParseError{
Message:	fmt.Sprintf(""expected %s, got %s"", kind, p.peek().Kind),
Token:		p.peek(),
}
}"%string.

(* -> reports at the current token *)
Definition reviewed_expectSemicolon : string := "{
if p.inForHeader {
return nil
}
return p.expectErr(TokenSemicolon)
}"%string.

(* -> position = Token.Line, Token.Column *)
Definition reviewed_parse_error_pos : string := "{
return fmt.Sprintf(""line %d, column %d: %s"", e.Token.Line, e.Token.Column, e.Message)
}"%string.

(* -> position = Span.Start.Line, Span.Start.Column *)
Definition reviewed_source_error_pos : string := "{
if e.Span.Start.Line == 0 {
return e.Message
}
return fmt.Sprintf(""%d:%d: %s"", e.Span.Start.Line, e.Span.Start.Column, e.Message)
}"%string.
