(* C11 leaf procedure 1: vector component selection ("swizzle") validation.

   MODEL = transliteration of wgsl/internal/lower/lower.go
     swizzleComponent, swizzleComponentNamespace (switch tables),
     swizzleIndex, swizzlePattern, and the dispatch on len(member) == 1 in
     lowerMember / lowerMemberForRef (base already known to be a vector).
   SPEC  = WGSL "Vector Access Expression": the name has 1..4 letters, all taken
     from xyzw or all taken from rgba, and every selected component exists in the
     vector (index < width); the value is the list of component indices.

   Member names are lists of byte values (Go indexes the string by bytes);
   the vector width is Go's ir.VectorSize, a uint8. *)
From Coq Require Import List ZArith Bool.
Import ListNotations.
Open Scope Z_scope.

Fixpoint lookup (c : Z) (t : list (Z * Z)) : option Z :=
  match t with
  | [] => None
  | (k, v) :: t' => if c =? k then Some v else lookup c t'
  end.

(* switch c { case 'x': return ir.SwizzleX, true ... default: return 0, false }
   keys are byte values, values are ir.SwizzleX..W = 0..3 *)
Definition component_table : list (Z * Z) :=
  [(120, 0); (121, 1); (122, 2); (119, 3); (114, 0); (103, 1); (98, 2); (97, 3)].

(* swizzleNsNone = 0 (iota), swizzleNsXYZW = 1, swizzleNsRGBA = 2 *)
Definition ns_table : list (Z * Z) :=
  [(120, 1); (121, 1); (122, 1); (119, 1); (114, 2); (103, 2); (98, 2); (97, 2)].

Definition swizzle_component (c : Z) : option Z := lookup c component_table.
Definition swizzle_ns (c : Z) : Z := match lookup c ns_table with Some n => n | None => 0 end.

Definition u8 (x : Z) : Z := x mod 256.

(* swizzleIndex(member, vecSize) : (uint32, error) *)
Definition swizzle_index_model (member : list Z) (w : Z) : option Z :=
  match member with
  | [c] =>
      match swizzle_component c with
      | None => None
      | Some comp => if u8 comp >=? u8 w then None else Some comp
      end
  | _ => None
  end.

(* first loop of swizzlePattern: for i := 1; i < len; i++ { ns == none -> err; ns != firstNs -> err } *)
Fixpoint ns_loop (first : Z) (rest : list Z) : bool :=
  match rest with
  | [] => true
  | c :: r => if swizzle_ns c =? 0 then false else if negb (swizzle_ns c =? first) then false else ns_loop first r
  end.

(* second loop: comp, ok := swizzleComponent(member[i]); !ok -> err; uint8(comp) >= uint8(vecSize) -> err *)
Fixpoint comp_loop (member : list Z) (w : Z) : option (list Z) :=
  match member with
  | [] => Some []
  | c :: r =>
      match swizzle_component c with
      | None => None
      | Some comp =>
          if u8 comp >=? u8 w then None
          else match comp_loop r w with Some p => Some (comp :: p) | None => None end
      end
  end.

(* swizzlePattern(member, vecSize) : (size, pattern, error); size = len(member) *)
Definition swizzle_pattern_model (member : list Z) (w : Z) : option (list Z) :=
  let n := Z.of_nat (length member) in
  if (n <? 2) || (n >? 4) then None
  else match member with
       | [] => None
       | c0 :: rest =>
           if swizzle_ns c0 =? 0 then None
           else if negb (ns_loop (swizzle_ns c0) rest) then None
           else comp_loop member w
       end.

(* lowerMember on a vector base: len(mem.Member) == 1 -> swizzleIndex, else swizzlePattern *)
Definition swizzle_model (member : list Z) (w : Z) : option (list Z) :=
  if Z.of_nat (length member) =? 1
  then match swizzle_index_model member w with Some i => Some [i] | None => None end
  else swizzle_pattern_model member w.

(* ------------------------------------------------------------------ SPEC *)
Definition xyzw_index (c : Z) : option Z :=
  if c =? 120 then Some 0 else if c =? 121 then Some 1 else if c =? 122 then Some 2 else if c =? 119 then Some 3 else None.
Definition rgba_index (c : Z) : option Z :=
  if c =? 114 then Some 0 else if c =? 103 then Some 1 else if c =? 98 then Some 2 else if c =? 97 then Some 3 else None.

Fixpoint all_opt (f : Z -> option Z) (l : list Z) : option (list Z) :=
  match l with
  | [] => Some []
  | c :: r => match f c, all_opt f r with Some i, Some p => Some (i :: p) | _, _ => None end
  end.

Definition in_width (w : Z) (idx : list Z) : bool := forallb (fun i => i <? w) idx.

Definition swizzle_spec (member : list Z) (w : Z) : option (list Z) :=
  let n := Z.of_nat (length member) in
  if (1 <=? n) && (n <=? 4) then
    match all_opt xyzw_index member with
    | Some idx => if in_width w idx then Some idx else None
    | None =>
        match all_opt rgba_index member with
        | Some idx => if in_width w idx then Some idx else None
        | None => None
        end
    end
  else None.
