From Coq Require Import List ZArith Bool Lia Arith.
Import ListNotations.
Require Import Naga.Diag.BalanceModel.

Lemma delim_eqb_refl : forall d, delim_eqb d d = true.
Proof. destruct d; reflexivity. Qed.

Lemma scan_app : forall a b st,
  scan st (a ++ b) = match scan st a with Some st' => scan st' b | None => None end.
Proof.
  induction a as [|t a IH]; intros b st; cbn [app scan]; [reflexivity|].
  destruct t as [d|d|]; [apply IH| |apply IH].
  destruct st as [|d' st']; [reflexivity|]. destruct (delim_eqb d d'); [apply IH|reflexivity].
Qed.

(* ---- grammar-shaped token lists are balanced ---- *)
Lemma wf_scan : forall l, wf l -> forall st, scan st l = Some st.
Proof.
  induction 1 as [| |d l Hl IH|a b Ha IHa Hb IHb]; intros st.
  - reflexivity.
  - reflexivity.
  - cbn [scan]. rewrite scan_app, IH. cbn [scan]. rewrite delim_eqb_refl. reflexivity.
  - rewrite scan_app, IHa. apply IHb.
Qed.

Theorem wf_balanced : forall l, wf l -> balanced l = true.
Proof. intros l H. unfold balanced. rewrite (wf_scan l H). reflexivity. Qed.

(* ---- weight argument: one delimiter more or less can never balance ---- *)
Open Scope Z_scope.
Definition w1 (t : tk) : Z := match t with TOpen _ => 1 | TClose _ => -1 | TOther => 0 end.
Fixpoint weight (l : list tk) : Z := match l with [] => 0 | t :: r => w1 t + weight r end.

Lemma weight_app : forall a b, weight (a ++ b) = weight a + weight b.
Proof. induction a as [|t a IH]; intros b; cbn [app weight]; [lia|]. rewrite IH. lia. Qed.

Lemma scan_weight : forall l st st', scan st l = Some st' ->
  Z.of_nat (length st') = Z.of_nat (length st) + weight l.
Proof.
  induction l as [|t r IH]; intros st st' H; cbn [scan weight] in *.
  - inversion H; subst. lia.
  - destruct t as [d|d|]; cbn [w1].
    + apply IH in H. cbn [length] in H. lia.
    + destruct st as [|d' st0]; [discriminate|]. destruct (delim_eqb d d'); [|discriminate].
      apply IH in H. cbn [length]. lia.
    + apply IH in H. lia.
Qed.

Lemma balanced_weight : forall l, balanced l = true -> weight l = 0.
Proof.
  intros l H. unfold balanced in H. destruct (scan [] l) as [st|] eqn:Hs; [|discriminate].
  destruct st; [|discriminate]. apply scan_weight in Hs. cbn in Hs. lia.
Qed.

Lemma is_delim_w1 : forall t, is_delim t = true -> w1 t = 1 \/ w1 t = -1.
Proof. destruct t; cbn; intros; try discriminate; auto. Qed.

Lemma split_nth : forall (l : list tk) i t, nth_error l i = Some t -> l = firstn i l ++ t :: skipn (S i) l.
Proof.
  induction l as [|a l IH]; intros i t H; destruct i; cbn in *; try discriminate.
  - inversion H. reflexivity.
  - f_equal. apply IH. assumption.
Qed.

Lemma weight_remove : forall l i t, nth_error l i = Some t -> weight (remove_nth i l) = weight l - w1 t.
Proof.
  intros l i t H. unfold remove_nth. rewrite (split_nth l i t H) at 3.
  rewrite !weight_app. cbn [weight]. lia.
Qed.

Lemma weight_insert : forall l i t, weight (insert_nth i t l) = weight l + w1 t.
Proof.
  intros l i t. unfold insert_nth. rewrite <- (firstn_skipn i l) at 3.
  rewrite !weight_app. cbn [weight]. lia.
Qed.

Theorem balanced_remove_delim : forall l i t,
  balanced l = true -> nth_error l i = Some t -> is_delim t = true ->
  balanced (remove_nth i l) = false.
Proof.
  intros l i t Hb Hn Hd.
  destruct (balanced (remove_nth i l)) eqn:E; [|reflexivity].
  apply balanced_weight in E. apply balanced_weight in Hb.
  rewrite (weight_remove l i t Hn) in E. destruct (is_delim_w1 t Hd); lia.
Qed.

Theorem balanced_insert_delim : forall l i t,
  balanced l = true -> is_delim t = true -> balanced (insert_nth i t l) = false.
Proof.
  intros l i t Hb Hd.
  destruct (balanced (insert_nth i t l)) eqn:E; [|reflexivity].
  apply balanced_weight in E. apply balanced_weight in Hb.
  rewrite weight_insert in E. destruct (is_delim_w1 t Hd); lia.
Qed.

(* hence no grammar of the shape `wf` derives the edited token list *)
Corollary edited_not_wf_remove : forall l i t,
  wf l -> nth_error l i = Some t -> is_delim t = true -> ~ wf (remove_nth i l).
Proof.
  intros l i t Hw Hn Hd Hw'. apply wf_balanced in Hw, Hw'.
  rewrite (balanced_remove_delim l i t Hw Hn Hd) in Hw'. discriminate.
Qed.

Corollary edited_not_wf_insert : forall l i t,
  wf l -> is_delim t = true -> ~ wf (insert_nth i t l).
Proof.
  intros l i t Hw Hd Hw'. apply wf_balanced in Hw, Hw'.
  rewrite (balanced_insert_delim l i t Hw Hd) in Hw'. discriminate.
Qed.

(* ---- where matching fails ---- *)
Close Scope Z_scope.

Lemma first_bad_balanced : forall l st i,
  first_bad_from st l i = None <-> scan st l = Some [].
Proof.
  induction l as [|t r IH]; intros st i; cbn [first_bad_from scan].
  - destruct st; split; intros H; try discriminate; try reflexivity.
  - destruct t as [d|d|]; try apply IH.
    destruct st as [|d' st']; [split; discriminate|].
    destruct (delim_eqb d d'); [apply IH|split; discriminate].
Qed.

Theorem balanced_iff_first_bad : forall l, balanced l = true <-> first_bad l = None.
Proof.
  intros l. unfold balanced, first_bad. rewrite first_bad_balanced.
  destruct (scan [] l) as [[|]|]; split; intros H; try discriminate; try reflexivity.
Qed.

Lemma first_bad_range : forall l st i j, first_bad_from st l i = Some j -> i <= j <= i + length l.
Proof.
  induction l as [|t r IH]; intros st i j H; cbn [first_bad_from length] in *.
  - destruct st; [discriminate|]. inversion H. lia.
  - destruct t as [d|d|].
    + apply IH in H. lia.
    + destruct st as [|d' st']; [inversion H; lia|].
      destruct (delim_eqb d d'); [apply IH in H; lia|inversion H; lia].
    + apply IH in H. lia.
Qed.

Lemma first_bad_app : forall a b st st' i, scan st a = Some st' ->
  first_bad_from st (a ++ b) i = first_bad_from st' b (i + length a).
Proof.
  induction a as [|t a IH]; intros b st st' i H; cbn [app scan first_bad_from length] in *.
  - inversion H; subst. f_equal. lia.
  - destruct t as [d|d|].
    + rewrite (IH b _ st' (S i) H). f_equal. lia.
    + destruct st as [|d' st0]; [discriminate|]. destruct (delim_eqb d d'); [|discriminate].
      rewrite (IH b _ st' (S i) H). f_equal. lia.
    + rewrite (IH b _ st' (S i) H). f_equal. lia.
Qed.

Lemma scan_prefix : forall a b st st'', scan st (a ++ b) = Some st'' -> exists st', scan st a = Some st'.
Proof.
  intros a b st st'' H. rewrite scan_app in H. destruct (scan st a) as [st'|]; [eexists; reflexivity|discriminate].
Qed.

Lemma balanced_scan : forall l, balanced l = true -> scan [] l = Some [].
Proof. intros l H. unfold balanced in H. destruct (scan [] l) as [[|]|]; try discriminate. reflexivity. Qed.

(* After deleting the delimiter at index i of a balanced list, matching fails, and it fails
   at a token at or after the gap (index i of the edited list), at the latest at EOF. *)
Theorem first_bad_after_remove : forall l i t,
  balanced l = true -> nth_error l i = Some t -> is_delim t = true ->
  exists j, first_bad (remove_nth i l) = Some j /\ i <= j <= length (remove_nth i l).
Proof.
  intros l i t Hb Hn Hd.
  pose proof (balanced_remove_delim l i t Hb Hn Hd) as Hnb.
  destruct (first_bad (remove_nth i l)) as [j|] eqn:Hf.
  2:{ apply balanced_iff_first_bad in Hf. congruence. }
  exists j. split; [reflexivity|].
  assert (Hi : i < length l) by (apply nth_error_Some; congruence).
  pose proof (balanced_scan l Hb) as Hs.
  rewrite <- (firstn_skipn i l) in Hs. destruct (scan_prefix _ _ _ _ Hs) as [st' Hp].
  unfold first_bad, remove_nth in Hf. rewrite (first_bad_app _ _ _ _ 0 Hp) in Hf.
  apply first_bad_range in Hf. unfold remove_nth. rewrite app_length, firstn_length_le in * by lia. lia.
Qed.

(* After inserting a delimiter at index i (i <= length), matching fails at or after the
   inserted token. *)
Theorem first_bad_after_insert : forall l i t,
  balanced l = true -> i <= length l -> is_delim t = true ->
  exists j, first_bad (insert_nth i t l) = Some j /\ i <= j <= length (insert_nth i t l).
Proof.
  intros l i t Hb Hi Hd.
  pose proof (balanced_insert_delim l i t Hb Hd) as Hnb.
  destruct (first_bad (insert_nth i t l)) as [j|] eqn:Hf.
  2:{ apply balanced_iff_first_bad in Hf. congruence. }
  exists j. split; [reflexivity|].
  pose proof (balanced_scan l Hb) as Hs.
  rewrite <- (firstn_skipn i l) in Hs. destruct (scan_prefix _ _ _ _ Hs) as [st' Hp].
  unfold first_bad, insert_nth in Hf. rewrite (first_bad_app _ _ _ _ 0 Hp) in Hf.
  apply first_bad_range in Hf. unfold insert_nth. rewrite app_length, firstn_length_le in * by lia. lia.
Qed.

(* ---- converse: every balanced token list is derivable in the grammar shape `wf`,
   so `balanced` IS the token-level language of matched delimiters ---- *)
Inductive pending : list tk -> list delim -> Prop :=
| p_nil : forall w, wf w -> pending w []
| p_open : forall l st d w, pending l st -> wf w -> pending (l ++ TOpen d :: w) (d :: st).

Lemma pending_app_wf : forall l st w, pending l st -> wf w -> pending (l ++ w) st.
Proof.
  intros l st w H Hw. destruct H as [w0 Hw0|l0 st0 d w0 Hp Hw0].
  - apply p_nil. apply wf_app; assumption.
  - rewrite <- app_assoc. cbn [app]. apply p_open; [assumption|]. apply wf_app; assumption.
Qed.

Lemma delim_eqb_eq : forall a b, delim_eqb a b = true -> a = b.
Proof. destruct a, b; cbn; intros; try discriminate; reflexivity. Qed.

Lemma scan_pending : forall l st, scan [] l = Some st -> pending l st.
Proof.
  induction l as [|t l IH] using rev_ind; intros st H.
  - cbn in H. inversion H; subst. apply p_nil. constructor.
  - rewrite scan_app in H. destruct (scan [] l) as [st0|] eqn:Hs; [|discriminate].
    specialize (IH st0 eq_refl).
    destruct t as [d|d|]; cbn [scan] in H.
    + inversion H; subst. apply p_open; [assumption|constructor].
    + destruct st0 as [|d' st1]; [discriminate|].
      destruct (delim_eqb d d') eqn:E; [|discriminate]. apply delim_eqb_eq in E. subst d'.
      inversion H; subst st1. clear H.
      inversion IH as [|l0 st2 d0 w Hp Hw Hl Hst]; subst.
      rewrite <- app_assoc. cbn [app].
      apply pending_app_wf; [assumption|].
      change (TOpen d :: w ++ [TClose d]) with (TOpen d :: (w ++ [TClose d])).
      apply wf_wrap. assumption.
    + inversion H; subst. apply pending_app_wf; [assumption|constructor].
Qed.

Theorem balanced_wf : forall l, balanced l = true -> wf l.
Proof.
  intros l H. apply balanced_scan in H. apply scan_pending in H. inversion H; subst; assumption.
Qed.

Theorem balanced_iff_wf : forall l, balanced l = true <-> wf l.
Proof. intros l. split; [apply balanced_wf|apply wf_balanced]. Qed.
