(* C11 leaf procedure 2: delimiter balance of a token list (token-level spec of
   "unbalanced delimiter").  Tokens are abstracted to: opening / closing delimiter
   of one of the three kinds, or any other token. *)
From Coq Require Import List ZArith Bool.
Import ListNotations.

Inductive delim := Paren | Bracket | Brace.
Inductive tk := TOpen (d : delim) | TClose (d : delim) | TOther.

Definition delim_eqb (a b : delim) : bool :=
  match a, b with Paren, Paren | Bracket, Bracket | Brace, Brace => true | _, _ => false end.

Definition is_delim (t : tk) : bool := match t with TOther => false | _ => true end.

(* scan with a stack of pending openers; None = a closer without (or with the wrong) opener *)
Fixpoint scan (st : list delim) (l : list tk) : option (list delim) :=
  match l with
  | [] => Some st
  | TOther :: r => scan st r
  | TOpen d :: r => scan (d :: st) r
  | TClose d :: r =>
      match st with
      | d' :: st' => if delim_eqb d d' then scan st' r else None
      | [] => None
      end
  end.

Definition balanced (l : list tk) : bool :=
  match scan [] l with Some [] => true | _ => false end.

(* index of the first token at which matching fails; length l (the EOF token) when openers
   remain at the end; None when balanced *)
Fixpoint first_bad_from (st : list delim) (l : list tk) (i : nat) : option nat :=
  match l with
  | [] => match st with [] => None | _ :: _ => Some i end
  | TOther :: r => first_bad_from st r (S i)
  | TOpen d :: r => first_bad_from (d :: st) r (S i)
  | TClose d :: r =>
      match st with
      | d' :: st' => if delim_eqb d d' then first_bad_from st' r (S i) else Some i
      | [] => Some i
      end
  end.

Definition first_bad (l : list tk) : option nat := first_bad_from [] l 0.

(* the two one-token edits *)
Definition remove_nth (i : nat) (l : list tk) : list tk := firstn i l ++ skipn (S i) l.
Definition insert_nth (i : nat) (t : tk) (l : list tk) : list tk := firstn i l ++ t :: skipn i l.

(* a grammar shape: every delimiter is introduced together with its partner around a
   well-formed piece (what every production `( ... )`, `[ ... ]`, `{ ... }` of WGSL does) *)
Inductive wf : list tk -> Prop :=
| wf_nil : wf []
| wf_other : wf [TOther]
| wf_wrap : forall d l, wf l -> wf (TOpen d :: l ++ [TClose d])
| wf_app : forall a b, wf a -> wf b -> wf (a ++ b).
