(* C17: which global variables does an entry point statically use?

   Model of spirv/internal/codegen/backend.go collectUsedGlobalVars /
   collectGlobalVarsFromFunction / collectGlobalVarsFromStatements (2226-2286)
   (the MSL and GLSL writers compute the same set for their per-entry-point
   parameter lists / dead-global elimination):

     a function uses g  iff  one of its expressions is  ExprGlobalVariable g,
                          or its body (at any nesting depth) contains a
                          StmtCall to a function (with an in-range handle) that uses g.

   Executable definition: saturation of the set of called function handles,
   [length (m_functions m)] rounds.  Theorem [used_globals_correct] shows, for
   ALL modules (recursive call graphs included -- WGSL forbids recursion but
   nothing here assumes it), that this is exactly reachability along call
   paths, and [reach_fuel_enough] that any larger fuel gives the same set. *)
From Coq Require Import List Arith Lia Bool PeanoNat.
Import ListNotations.
Require Import Naga.IR.Syntax.

(* ---- calls in a statement tree (StmtCall at any depth; Block/If/Switch/Loop are descended) ---- *)

Fixpoint stmt_calls (s : stmt) : list nat :=
  let fix block_calls (b : list stmt) : list nat :=
    match b with [] => [] | x :: b' => stmt_calls x ++ block_calls b' end in
  match s with
  | SCall f _ _ => [f]
  | SBlock b => block_calls b
  | SIf _ a r => block_calls a ++ block_calls r
  | SSwitch _ cases =>
    (fix cases_calls (cs : list (switch_value * list stmt * bool)) : list nat :=
       match cs with [] => [] | (_, b, _) :: cs' => block_calls b ++ cases_calls cs' end) cases
  | SLoop b c _ => block_calls b ++ block_calls c
  | _ => []
  end.

Fixpoint block_calls (b : list stmt) : list nat :=
  match b with [] => [] | x :: b' => stmt_calls x ++ block_calls b' end.

(* global variables named by a function's expression arena *)
Definition expr_global (e : expr) : list nat :=
  match e with EGlobalVariable g => [g] | _ => [] end.
Definition fn_globals (f : func) : list nat := flat_map expr_global (f_exprs f).

Lemma fn_globals_spec : forall f g, In g (fn_globals f) <-> In (EGlobalVariable g) (f_exprs f).
Proof.
  intros f g. unfold fn_globals. rewrite in_flat_map. split.
  - intros (e & He & Hg). destruct e; cbn in Hg; try contradiction.
    destruct Hg as [<-|[]]. exact He.
  - intros H. exists (EGlobalVariable g). split; [exact H | left; reflexivity].
Qed.

Section Graph.
  Variable m : module.
  Let n := length (m_functions m).

  (* calls with an in-range handle (the Go code skips out-of-range handles) *)
  Definition fn_calls (f : func) : list nat :=
    filter (fun h => h <? n) (block_calls (f_body f)).

  Definition succs (h : nat) : list nat :=
    match nth_error (m_functions m) h with Some f => fn_calls f | None => [] end.

  Lemma fn_calls_lt : forall f h, In h (fn_calls f) -> h < n.
  Proof. intros f h H. apply filter_In in H. destruct H as [_ H]. now apply Nat.ltb_lt in H. Qed.

  Lemma succs_lt : forall h k, In k (succs h) -> k < n.
  Proof. intros h k H. unfold succs in H. destruct (nth_error _ h); [eapply fn_calls_lt; eauto | destruct H]. Qed.

  (* ---- saturation ---- *)
  Definition step (S : list nat) : list nat := nodup Nat.eq_dec (S ++ flat_map succs S).

  Fixpoint iter (k : nat) (S : list nat) : list nat :=
    match k with O => S | Datatypes.S k' => iter k' (step S) end.

  Definition reach_fuel (fuel : nat) (S0 : list nat) : list nat := iter fuel (nodup Nat.eq_dec S0).
  Definition reach (S0 : list nat) : list nat := reach_fuel n S0.

  (* ---- specification: reachability in the call graph ---- *)
  Inductive reachable (S0 : list nat) : nat -> Prop :=
  | r_base : forall h, In h S0 -> reachable S0 h
  | r_step : forall h k, reachable S0 h -> In k (succs h) -> reachable S0 k.

  Lemma step_in : forall S h, In h (step S) <-> In h S \/ exists x, In x S /\ In h (succs x).
  Proof.
    intros S h. unfold step. rewrite nodup_In, in_app_iff, in_flat_map. tauto.
  Qed.

  Lemma iter_succ : forall k S, iter (Datatypes.S k) S = step (iter k S).
  Proof. induction k as [|k IH]; intros S; [reflexivity|]. cbn [iter] in *. now rewrite IH. Qed.

  Lemma iter_sound : forall k S0 S h, (forall x, In x S -> reachable S0 x) -> In h (iter k S) -> reachable S0 h.
  Proof.
    induction k as [|k IH]; intros S0 S h HS Hin; cbn [iter] in Hin; [auto|].
    eapply IH; [|exact Hin]. intros x Hx. apply step_in in Hx.
    destruct Hx as [Hx|(y & Hy & Hx)]; [auto|]. eapply r_step; eauto.
  Qed.

  Lemma iter_mono : forall k S, incl (iter k S) (iter (Datatypes.S k) S).
  Proof. intros k S h Hh. rewrite iter_succ. apply step_in. now left. Qed.

  Lemma iter_mono_le : forall j k S, j <= k -> incl (iter j S) (iter k S).
  Proof.
    intros j k S Hle. induction Hle; [apply incl_refl|].
    eapply incl_tran; [exact IHHle | apply iter_mono].
  Qed.

  Lemma step_nodup : forall S, NoDup (step S).
  Proof. intros S. apply NoDup_nodup. Qed.

  Lemma iter_nodup : forall k S, NoDup S -> NoDup (iter k S).
  Proof. induction k as [|k IH]; intros S H; cbn [iter]; [exact H | apply IH, step_nodup]. Qed.

  Lemma step_lt : forall S, Forall (fun h => h < n) S -> Forall (fun h => h < n) (step S).
  Proof.
    intros S H. apply Forall_forall. intros h Hh. apply step_in in Hh.
    destruct Hh as [Hh|(x & _ & Hh)]; [eapply Forall_forall in H; eauto | eapply succs_lt; eauto].
  Qed.

  Lemma iter_lt : forall k S, Forall (fun h => h < n) S -> Forall (fun h => h < n) (iter k S).
  Proof. induction k as [|k IH]; intros S H; cbn [iter]; [exact H | apply IH, step_lt, H]. Qed.

  Lemma bounded_nodup_length : forall S, NoDup S -> Forall (fun h => h < n) S -> length S <= n.
  Proof.
    intros S Hnd Hlt. rewrite <- (seq_length n 0). apply NoDup_incl_length; [exact Hnd|].
    intros h Hh. apply in_seq. eapply Forall_forall in Hlt; eauto. lia.
  Qed.

  (* a set that contains S0 and is closed under successors contains everything reachable *)
  Definition closed (S : list nat) : Prop := forall x k, In x S -> In k (succs x) -> In k S.

  Lemma closed_complete : forall S0 S, incl S0 S -> closed S -> forall h, reachable S0 h -> In h S.
  Proof. intros S0 S Hi Hc h Hr. induction Hr; [auto | eapply Hc; eauto]. Qed.

  Lemma stable_closed : forall k S, NoDup S ->
    length (iter (Datatypes.S k) S) = length (iter k S) -> closed (iter k S).
  Proof.
    intros k S Hnd Hlen x y Hx Hy.
    assert (Hincl : incl (iter (Datatypes.S k) S) (iter k S)).
    { apply NoDup_length_incl; [apply iter_nodup, Hnd | lia | apply iter_mono]. }
    apply Hincl. rewrite iter_succ. apply step_in. right. eauto.
  Qed.

  Lemma growth : forall S, NoDup S -> forall j,
    (exists k, k < j /\ length (iter (Datatypes.S k) S) = length (iter k S)) \/ length (iter j S) >= j + length S.
  Proof.
    intros S Hnd. induction j as [|j IH]; [right; cbn [iter]; lia|].
    destruct IH as [(k & Hk & He)|Hge]; [left; exists k; split; [lia|exact He]|].
    assert (Hle : length (iter j S) <= length (iter (Datatypes.S j) S)).
    { apply NoDup_incl_length; [apply iter_nodup, Hnd | apply iter_mono]. }
    destruct (Nat.eq_dec (length (iter (Datatypes.S j) S)) (length (iter j S))) as [He|Hne].
    - left. exists j. split; [lia|exact He].
    - right. lia.
  Qed.

  Lemma iter_complete : forall S fuel, NoDup S -> Forall (fun h => h < n) S -> n <= fuel ->
    forall h, reachable S h -> In h (iter fuel S).
  Proof.
    intros S fuel Hnd Hlt Hfuel h Hr.
    destruct (growth S Hnd n) as [(k & Hk & He)|Hge].
    - apply (iter_mono_le k fuel S); [lia|].
      eapply closed_complete; [| apply stable_closed; eauto | exact Hr].
      apply (iter_mono_le 0 k S). lia.
    - pose proof (bounded_nodup_length _ (iter_nodup n S Hnd) (iter_lt n S Hlt)) as Hb.
      assert (HS : S = []) by (destruct S; [reflexivity | cbn [length] in Hge; lia]).
      subst S. exfalso. clear -Hr. induction Hr; [contradiction | assumption].
  Qed.

  Lemma reachable_nodup : forall S0 h, reachable (nodup Nat.eq_dec S0) h <-> reachable S0 h.
  Proof.
    intros S0 h. split; intros H; induction H.
    - apply r_base. now apply nodup_In in H.
    - eapply r_step; eauto.
    - apply r_base. now apply nodup_In.
    - eapply r_step; eauto.
  Qed.

  Theorem reach_fuel_correct : forall S0 fuel, Forall (fun h => h < n) S0 -> n <= fuel ->
    forall h, In h (reach_fuel fuel S0) <-> reachable S0 h.
  Proof.
    intros S0 fuel Hlt Hfuel h. unfold reach_fuel. split.
    - intros H. apply reachable_nodup. eapply iter_sound; [|exact H]. intros x Hx. now apply r_base.
    - intros H. apply iter_complete; [apply NoDup_nodup | | exact Hfuel | now apply reachable_nodup].
      apply Forall_forall. intros x Hx. apply nodup_In in Hx. eapply Forall_forall in Hlt; eauto.
  Qed.

  Corollary reach_correct : forall S0, Forall (fun h => h < n) S0 ->
    forall h, In h (reach S0) <-> reachable S0 h.
  Proof. intros S0 Hlt h. apply reach_fuel_correct; [exact Hlt | apply le_n]. Qed.

  (* the number of functions is enough fuel: more changes nothing *)
  Corollary reach_fuel_enough : forall S0 fuel, Forall (fun h => h < n) S0 -> n <= fuel ->
    forall h, In h (reach_fuel fuel S0) <-> In h (reach S0).
  Proof. intros S0 fuel Hlt Hf h. rewrite reach_fuel_correct, reach_correct by assumption. tauto. Qed.

  (* ---- per entry point ---- *)
  Definition handle_globals (h : nat) : list nat :=
    match nth_error (m_functions m) h with Some f => fn_globals f | None => [] end.

  Definition used_funcs (f0 : func) : list nat := reach (fn_calls f0).

  Definition used_globals_of (f0 : func) : list nat :=
    nodup Nat.eq_dec (fn_globals f0 ++ flat_map handle_globals (used_funcs f0)).

  (* call paths over functions (the entry-point function itself is not in m_functions) *)
  Inductive call_path : func -> func -> Prop :=
  | cp_refl : forall f, call_path f f
  | cp_step : forall f h f' k, In h (block_calls (f_body f)) -> nth_error (m_functions m) h = Some f' ->
                               call_path f' k -> call_path f k.

  Lemma fn_calls_lt_all : forall f, Forall (fun h => h < n) (fn_calls f).
  Proof. intros f. apply Forall_forall. apply fn_calls_lt. Qed.

  Lemma nth_error_in_calls : forall f h f', In h (block_calls (f_body f)) -> nth_error (m_functions m) h = Some f' ->
    In h (fn_calls f).
  Proof.
    intros f h f' Hin Hnth. apply filter_In. split; [exact Hin|]. apply Nat.ltb_lt.
    apply nth_error_Some. congruence.
  Qed.

  Lemma call_path_reachable : forall f k, call_path f k -> f = k \/
    exists h, reachable (fn_calls f) h /\ nth_error (m_functions m) h = Some k.
  Proof.
    intros f k H. induction H as [f | f h f' k Hin Hnth Hp IH]; [now left|]. right.
    pose proof (nth_error_in_calls _ _ _ Hin Hnth) as Hc.
    destruct IH as [->|(h' & Hr & Hn')].
    - exists h. split; [now apply r_base | exact Hnth].
    - exists h'. split; [|exact Hn'].
      clear -Hr Hc Hnth. induction Hr as [x Hx | x y Hr IH Hy].
      + eapply r_step; [apply r_base; exact Hc|]. unfold succs. now rewrite Hnth.
      + eapply r_step; eauto.
  Qed.

  Lemma reachable_call_path : forall f h, reachable (fn_calls f) h ->
    exists k, nth_error (m_functions m) h = Some k /\ call_path f k.
  Proof.
    intros f h H. induction H as [h Hin | x y Hr IH Hy].
    - pose proof (fn_calls_lt _ _ Hin) as Hlt. apply nth_error_Some in Hlt.
      destruct (nth_error (m_functions m) h) as [k|] eqn:E; [|congruence].
      exists k. split; [reflexivity|]. apply filter_In in Hin. destruct Hin as [Hin _].
      eapply cp_step; [exact Hin | exact E | apply cp_refl].
    - destruct IH as (kx & Hkx & Hp). unfold succs in Hy. rewrite Hkx in Hy.
      pose proof (fn_calls_lt _ _ Hy) as Hlt. apply nth_error_Some in Hlt.
      destruct (nth_error (m_functions m) y) as [ky|] eqn:E; [|congruence].
      exists ky. split; [reflexivity|]. apply filter_In in Hy. destruct Hy as [Hy _].
      clear -Hp Hy E. induction Hp as [f | f h f' k Hin Hnth Hp IH].
      + eapply cp_step; [exact Hy | exact E | apply cp_refl].
      + eapply cp_step; [exact Hin | exact Hnth | apply IH; assumption].
  Qed.

  Theorem used_globals_of_correct : forall f0 g,
    In g (used_globals_of f0) <-> exists f, call_path f0 f /\ In (EGlobalVariable g) (f_exprs f).
  Proof.
    intros f0 g. unfold used_globals_of. rewrite nodup_In, in_app_iff, in_flat_map. split.
    - intros [H|(h & Hh & Hg)].
      + exists f0. split; [apply cp_refl | now apply fn_globals_spec].
      + unfold used_funcs in Hh. apply reach_correct in Hh; [|apply fn_calls_lt_all].
        destruct (reachable_call_path _ _ Hh) as (k & Hk & Hp).
        exists k. split; [exact Hp|]. unfold handle_globals in Hg. rewrite Hk in Hg. now apply fn_globals_spec.
    - intros (f & Hp & Hg). apply fn_globals_spec in Hg.
      destruct (call_path_reachable _ _ Hp) as [->|(h & Hr & Hn)]; [now left|]. right.
      exists h. split.
      + unfold used_funcs. apply reach_correct; [apply fn_calls_lt_all | exact Hr].
      + unfold handle_globals. now rewrite Hn.
  Qed.

  Lemma used_globals_of_nodup : forall f0, NoDup (used_globals_of f0).
  Proof. intros. apply NoDup_nodup. Qed.
End Graph.

Definition used_globals (m : module) (ep : entry_point) : list nat := used_globals_of m (ep_func ep).

(* g is used by ep  <->  some function on a call path from ep's function names g in its expressions *)
Theorem used_globals_correct : forall m ep g,
  In g (used_globals m ep) <->
  exists f, call_path m (ep_func ep) f /\ In (EGlobalVariable g) (f_exprs f).
Proof. intros. apply used_globals_of_correct. Qed.

Theorem used_globals_nodup : forall m ep, NoDup (used_globals m ep).
Proof. intros. apply used_globals_of_nodup. Qed.
