(* C17, R tie: the switch tables of the SPIR-V back end and the lowerer's
   builtin-name table, regenerated from /repo on every run (Gen/SpvIfaceEnums.v,
   Gen/IrEnums.v), agree with the tables transcribed from the specifications
   (Iface/SpvSpec.v).  Every obligation is closed by computation; one that
   stops checking names the table that changed. *)
From Coq Require Import List ZArith String Bool.
Import ListNotations.
Require Import Naga.IR.Syntax Naga.Iface.SpvSpec Naga.Gen.SpvIfaceEnums Naga.Gen.IrEnums.
Local Open Scope string_scope.
Local Open Scope list_scope.
Local Open Scope Z_scope.

Fixpoint assoc_s {A} (k : string) (l : list (string * A)) : option A :=
  match l with [] => None | (k', v) :: l' => if String.eqb k k' then Some v else assoc_s k l' end.

Definition optZ_eqb (a b : option Z) : bool :=
  match a, b with Some x, Some y => x =? y | None, None => true | _, _ => false end.

(* value naga's builtinToSPIRV returns for a builtin at a (stage, direction): the function only looks at the direction *)
Definition naga_builtin (name : string) (is_output : bool) : Z :=
  if String.eqb name "BuiltinPosition"
  then (if is_output then builtin_position_output else builtin_position_other)
  else match assoc_s name builtin_switch with Some v => v | None => builtin_default end.

(* wherever the specification defines a built-in value, naga's table returns the same BuiltIn *)
Lemma gen_builtin_table_matches_spec :
  forallb (fun name =>
    forallb (fun pos => match spec_builtin name (fst pos) (snd pos) with
                        | Some v => naga_builtin name (snd pos) =? v
                        | None => true
                        end) all_positions) spec_builtin_names = true.
Proof. vm_compute. reflexivity. Qed.

(* no built-in value of the specification table is missing from the switch (a dropped case would fall
   to the default, Position).  BuiltinPointSize is not WGSL, has no case, and cannot be produced by
   the lowerer's name table (see gen_wgsl_builtin_names). *)
Lemma gen_builtin_table_complete :
  forallb (fun name => match assoc_s name builtin_switch with Some _ => true | None => false end) spec_builtin_names = true.
Proof. vm_compute. reflexivity. Qed.

(* every case of the switch is a built-in the specification table knows at some (stage, direction) *)
Lemma gen_builtin_table_no_unknown_case :
  forallb (fun e => existsb (fun pos => match spec_builtin (fst e) (fst pos) (snd pos) with Some _ => true | None => false end)
                            all_positions) builtin_switch = true.
Proof. vm_compute. reflexivity. Qed.

Definition space_of_name (n : string) : option addr_space :=
  if String.eqb n "SpaceFunction" then Some SpFunction else if String.eqb n "SpacePrivate" then Some SpPrivate
  else if String.eqb n "SpaceWorkGroup" then Some SpWorkGroup else if String.eqb n "SpaceUniform" then Some SpUniform
  else if String.eqb n "SpaceStorage" then Some SpStorage else if String.eqb n "SpacePushConstant" then Some SpPushConstant
  else if String.eqb n "SpaceHandle" then Some SpHandle else if String.eqb n "SpaceImmediate" then Some SpImmediate
  else if String.eqb n "SpaceTaskPayload" then Some SpTaskPayload else None.

(* addressSpaceToStorageClass = the specification's storage class, for every address space this check covers *)
Lemma gen_space_table_matches_spec :
  forallb (fun e => match space_of_name (fst e) with
                    | Some sp => match spec_class sp with Some c => c =? snd e | None => true end
                    | None => false
                    end) space_switch = true.
Proof. vm_compute. reflexivity. Qed.

Lemma gen_space_table_complete :
  forallb (fun n => match assoc_s n space_switch with Some _ => true | None => false end)
          ["SpaceFunction"; "SpacePrivate"; "SpaceWorkGroup"; "SpaceUniform"; "SpaceStorage"; "SpacePushConstant";
           "SpaceHandle"; "SpaceImmediate"] = true.
Proof. vm_compute. reflexivity. Qed.

Definition stage_of_name (n : string) : stage :=
  if String.eqb n "StageVertex" then StVertex else if String.eqb n "StageFragment" then StFragment
  else if String.eqb n "StageCompute" then StCompute else StOther n.

Lemma gen_stage_table_matches_spec :
  forallb (fun e => optZ_eqb (spec_model (stage_of_name (fst e))) (Some (snd e))) stage_switch = true /\
  forallb (fun n => match assoc_s n stage_switch with Some _ => true | None => false end)
          ["StageVertex"; "StageFragment"; "StageCompute"] = true.
Proof. vm_compute. split; reflexivity. Qed.

(* execution modes the entry-point emitter can add: OriginUpperLeft and DepthReplacing for fragment, LocalSize for compute *)
Lemma gen_stage_modes_match_spec :
  stage_modes = [("StageFragment", [Mode_OriginUpperLeft; Mode_DepthReplacing]); ("StageCompute", [Mode_LocalSize])].
Proof. vm_compute. reflexivity. Qed.

(* interpolation -> decoration; suppressed on vertex inputs and fragment outputs; blend_src -> Index *)
Lemma gen_interpolation_matches_spec :
  interp_switch = [("InterpolationFlat", [D_Flat]); ("InterpolationLinear", [D_NoPerspective]); ("InterpolationPerspective", []);
                   ("SamplingCentroid", [D_Centroid]); ("SamplingSample", [D_Sample]); ("SamplingCenter", [])] /\
  interp_suppressed = [(SC_Input, "StageVertex"); (SC_Output, "StageFragment")] /\
  blend_src_decoration = D_Index.
Proof. vm_compute. repeat split; reflexivity. Qed.

(* the numeric constants the back end writes are the specification's *)
Lemma gen_constants_match_spec :
  forallb (fun e => optZ_eqb (assoc_s (fst e) spv_consts) (Some (snd e)))
    [("DecorationBlock", D_Block); ("DecorationBuiltIn", D_BuiltIn); ("DecorationFlat", D_Flat);
     ("DecorationNoPerspective", D_NoPerspective); ("DecorationCentroid", D_Centroid); ("DecorationSample", D_Sample);
     ("DecorationNonWritable", D_NonWritable); ("DecorationNonReadable", D_NonReadable); ("DecorationLocation", D_Location);
     ("DecorationIndex", D_Index); ("DecorationBinding", D_Binding); ("DecorationDescriptorSet", D_DescriptorSet);
     ("StorageClassInput", SC_Input); ("StorageClassOutput", SC_Output); ("StorageClassUniform", SC_Uniform);
     ("StorageClassUniformConstant", SC_UniformConstant); ("StorageClassWorkgroup", SC_Workgroup);
     ("StorageClassPrivate", SC_Private); ("StorageClassFunction", SC_Function); ("StorageClassPushConstant", SC_PushConstant);
     ("StorageClassStorageBuffer", SC_StorageBuffer);
     ("ExecutionModelVertex", EM_Vertex); ("ExecutionModelFragment", EM_Fragment); ("ExecutionModelGLCompute", EM_GLCompute);
     ("ExecutionModeOriginUpperLeft", Mode_OriginUpperLeft); ("ExecutionModeDepthReplacing", Mode_DepthReplacing);
     ("ExecutionModeLocalSize", Mode_LocalSize);
     ("BuiltInPosition", BI_Position); ("BuiltInPointSize", BI_PointSize); ("BuiltInFragCoord", BI_FragCoord);
     ("BuiltInLocalInvocationID", BI_LocalInvocationId)] = true.
Proof. vm_compute. reflexivity. Qed.

(* WGSL 12.3.1.1 built-in value names -> the IR constant the specification table is keyed by *)
Definition spec_wgsl_builtin_names : list (string * string) :=
  [("position", "BuiltinPosition"); ("vertex_index", "BuiltinVertexIndex"); ("instance_index", "BuiltinInstanceIndex");
   ("front_facing", "BuiltinFrontFacing"); ("frag_depth", "BuiltinFragDepth"); ("sample_index", "BuiltinSampleIndex");
   ("sample_mask", "BuiltinSampleMask"); ("local_invocation_id", "BuiltinLocalInvocationID");
   ("local_invocation_index", "BuiltinLocalInvocationIndex"); ("global_invocation_id", "BuiltinGlobalInvocationID");
   ("workgroup_id", "BuiltinWorkGroupID"); ("num_workgroups", "BuiltinNumWorkGroups");
   ("subgroup_invocation_id", "BuiltinSubgroupInvocationID"); ("subgroup_size", "BuiltinSubgroupSize");
   ("subgroup_id", "BuiltinSubgroupID"); ("num_subgroups", "BuiltinNumSubgroups");
   ("clip_distances", "BuiltinClipDistance"); ("primitive_index", "BuiltinPrimitiveIndex")].

Lemma gen_wgsl_builtin_names :
  forallb (fun e => match assoc_s (fst e) wgsl_builtin_table with Some n => String.eqb n (snd e) | None => false end)
          spec_wgsl_builtin_names = true /\
  (* two WGSL names never share an IR constant, and no name yields BuiltinPointSize *)
  forallb (fun e => negb (String.eqb (snd e) "BuiltinPointSize") &&
                    (List.length (filter (fun e' => String.eqb (snd e') (snd e)) wgsl_builtin_table) =? 1)%nat)
          wgsl_builtin_table = true.
Proof. vm_compute. split; reflexivity. Qed.

(* enumeration numbers the shared decoder passes through as raw integers *)
Fixpoint lookup_enum (ty : string) (l : list (string * list (Z * string))) : list (Z * string) :=
  match l with [] => [] | (k, v) :: l' => if String.eqb ty k then v else lookup_enum ty l' end.
Definition enum_has (ty : string) (v : Z) (name : string) : bool :=
  existsb (fun e => (fst e =? v) && String.eqb (snd e) name) (lookup_enum ty ir_enums).

Lemma gen_ir_enum_numbers :
  enum_has "InterpolationKind" IK_Flat "InterpolationFlat" && enum_has "InterpolationKind" IK_Linear "InterpolationLinear" &&
  enum_has "InterpolationKind" IK_Perspective "InterpolationPerspective" &&
  enum_has "InterpolationSampling" SM_Center "SamplingCenter" && enum_has "InterpolationSampling" SM_Centroid "SamplingCentroid" &&
  enum_has "InterpolationSampling" SM_Sample "SamplingSample" &&
  enum_has "StorageAccessMode" ACCESS_ReadWrite "StorageReadWrite" && enum_has "StorageAccessMode" ACCESS_Read "StorageRead" = true.
Proof. vm_compute. reflexivity. Qed.

(* the used-globals traversal of backend.go walks exactly the nested blocks Reach.stmt_calls walks:
   Block, If (accept, reject), Switch (every case body), Loop (body and continuing); calls are StmtCall;
   globals are read off the function's expression arena *)
Lemma gen_reach_traversal_shape :
  reach_cases = [("StmtCall", []); ("StmtBlock", ["Block"]); ("StmtIf", ["Accept"; "Reject"]);
                 ("StmtSwitch", ["Body"]); ("StmtLoop", ["Body"; "Continuing"])] /\
  reach_scans_expressions = true.
Proof. vm_compute. split; reflexivity. Qed.
