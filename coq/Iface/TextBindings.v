(* C17: where the text back ends bind resources -- small models of the Go lookup
   functions, with their lookup semantics proved for all inputs.

   HLSL  hlsl/internal/codegen/writer.go getBindTarget (552-575): BindingMap lookup;
         absent + FakeMissingBindings -> space = group (0 if group > 255), register = binding;
         absent without the flag      -> space 0, register 0 (silently; the option's
         documentation promises ErrMissingBinding -- recorded as a finding).
         Register class by kind of resource (types.go writeGlobalVariable 879-945).
   MSL   msl/internal/codegen/functions.go computeResourceMap (1522-1601),
         formatGlobalResourceParam (1411-1480), bindTargetIndex (1606-1614).
   GLSL  glsl/internal/codegen/writer.go lookupBinding (1305-1315); the four
         *BindingBase options are read nowhere (finding).
   Definitions first, theorems after; [run_text] is the JSON face used by the
   correspondence check (Extract/IfaceExtract.v). *)
From Coq Require Import List ZArith String Bool Arith Lia Permutation.
Import ListNotations.
Require Import Naga.Base.Json Naga.IR.Syntax Naga.Iface.Reach.
Local Open Scope string_scope.
Local Open Scope list_scope.
Local Open Scope Z_scope.

Definition key := (Z * Z)%type.                      (* (group, binding) *)
Definition key_eqb (a b : key) : bool := (fst a =? fst b) && (snd a =? snd b).

Fixpoint lookup {A} (k : key) (l : list (key * A)) : option A :=
  match l with
  | [] => None
  | (k', v) :: l' => if key_eqb k k' then Some v else lookup k l'
  end.

Lemma key_eqb_eq : forall a b, key_eqb a b = true <-> a = b.
Proof.
  intros [a1 a2] [b1 b2]. unfold key_eqb. cbn [fst snd]. rewrite andb_true_iff, !Z.eqb_eq.
  split; [intros [-> ->]; reflexivity | intros H; inversion H; auto].
Qed.

(* ================================================================== HLSL *)

Record hlsl_opts := mk_hopts { h_map : list (key * (Z * Z)); h_fake : bool }.     (* key -> (space, register) *)

Definition hlsl_bind_target (o : hlsl_opts) (b : option key) : Z * Z :=
  match b with
  | None => (0, 0)
  | Some k =>
    match lookup k (h_map o) with
    | Some t => t
    | None => if h_fake o then ((if fst k <=? 255 then fst k else 0), snd k) else (0, 0)
    end
  end.

(* register class letter of a global: b (cbuffer / ConstantBuffer), t (read-only buffer, texture),
   u (read-write buffer / storage texture), s (sampler).  "h" = handle: t or u or s decided by the
   image class, which the shared IR syntax does not carry *)
Definition hlsl_reg_class (g : global_var) : string :=
  match g_space g with
  | SpUniform | SpImmediate => "b"
  | SpStorage => if g_access g =? 1 then "t" else "u"
  | SpHandle => "h"
  | _ => ""
  end.

Theorem hlsl_lookup_present : forall o k t, lookup k (h_map o) = Some t -> hlsl_bind_target o (Some k) = t.
Proof. intros o k t H. unfold hlsl_bind_target. now rewrite H. Qed.

Theorem hlsl_lookup_absent_fake : forall o k, lookup k (h_map o) = None -> h_fake o = true ->
  hlsl_bind_target o (Some k) = ((if fst k <=? 255 then fst k else 0), snd k).
Proof. intros o k H F. unfold hlsl_bind_target. now rewrite H, F. Qed.

(* what the code does (not what the option documents): no error, register 0 of space 0 *)
Theorem hlsl_lookup_absent_nofake : forall o k, lookup k (h_map o) = None -> h_fake o = false ->
  hlsl_bind_target o (Some k) = (0, 0).
Proof. intros o k H F. unfold hlsl_bind_target. now rewrite H, F. Qed.

(* fake bindings never collide as long as groups fit the 8-bit register space *)
Theorem hlsl_fake_injective : forall o k1 k2, h_map o = [] -> h_fake o = true ->
  fst k1 <= 255 -> fst k2 <= 255 ->
  hlsl_bind_target o (Some k1) = hlsl_bind_target o (Some k2) -> k1 = k2.
Proof.
  intros o [g1 b1] [g2 b2] Hm Hf H1 H2. unfold hlsl_bind_target. rewrite Hm, Hf. cbn [lookup fst snd] in *.
  apply Z.leb_le in H1, H2. rewrite H1, H2. intros H. inversion H. reflexivity.
Qed.

(* ... and do collide beyond: groups 256 and 0 land in the same space *)
Example hlsl_fake_collision : hlsl_bind_target (mk_hopts [] true) (Some (256, 3)) = hlsl_bind_target (mk_hopts [] true) (Some (0, 3)).
Proof. reflexivity. Qed.

(* with a complete, injective map the assignment is injective *)
Theorem hlsl_map_injective : forall o k1 k2 t1 t2,
  lookup k1 (h_map o) = Some t1 -> lookup k2 (h_map o) = Some t2 ->
  (forall ka kb ta tb, lookup ka (h_map o) = Some ta -> lookup kb (h_map o) = Some tb -> ta = tb -> ka = kb) ->
  hlsl_bind_target o (Some k1) = hlsl_bind_target o (Some k2) -> k1 = k2.
Proof.
  intros o k1 k2 t1 t2 H1 H2 Hinj. unfold hlsl_bind_target. rewrite H1, H2. intros ->. eapply Hinj; eauto.
Qed.

(* ================================================================== MSL *)

Record msl_target := mk_mt { mt_buffer : option Z; mt_texture : option Z; mt_sampler : option Z }.
Record msl_opts := mk_mopts { m_per_ep : list (string * list (key * msl_target)); m_fake : bool }.

Inductive msl_slot := MFake | MSlot (n : Z).

Fixpoint lookup_ep {A} (name : string) (l : list (string * A)) : option A :=
  match l with
  | [] => None
  | (n, v) :: l' => if String.eqb name n then Some v else lookup_ep name l'
  end.

(* kind of Metal argument table a global lives in: 0 buffer, 1 texture, 2 sampler *)
Definition res_kind (m : module) (g : global_var) : Z :=
  match nth_error (m_types m) (g_type g) with
  | Some t => match ty_inner t with
              | TOther tag => if String.eqb tag "SamplerType" then 2 else if String.eqb tag "ImageType" then 1 else 0
              | _ => 0
              end
  | None => 0
  end.

Definition key_ltb (a b : key) : bool := (fst a <? fst b) || ((fst a =? fst b) && (snd a <? snd b)).

(* all bound globals of the module (NOT only those the entry point uses), as (key, kind) *)
Definition bound_entries (m : module) : list (key * Z) :=
  flat_map (fun g => match g_binding g with Some k => [(k, res_kind m g)] | None => [] end) (m_globals m).

(* sequential numbering per kind in (group, binding) order = number of smaller keys of the same kind;
   the counters are uint8 *)
Definition rank (es : list (key * Z)) (k : key) (kind : Z) : Z :=
  Z.of_nat (List.length (filter (fun e => (snd e =? kind) && key_ltb (fst e) k) es)).

Definition auto_target (m : module) (k : key) (kind : Z) : msl_target :=
  let r := Some (rank (bound_entries m) k kind mod 256) in
  if kind =? 0 then mk_mt r None None else if kind =? 1 then mk_mt None r None else mk_mt None None r.

Definition auto_map (m : module) : list (key * msl_target) :=
  map (fun e => (fst e, auto_target m (fst e) (snd e))) (bound_entries m).

(* computeResourceMap: explicit map of this entry point; else none under FakeMissingBindings; else automatic *)
Definition msl_resource_map (o : msl_opts) (m : module) (ep : string) : option (list (key * msl_target)) :=
  match lookup_ep ep (m_per_ep o) with
  | Some r => Some r
  | None => if m_fake o then None else Some (auto_map m)
  end.

Definition target_slot (t : msl_target) (kind : Z) : option Z :=
  if kind =? 2 then mt_sampler t else if kind =? 1 then mt_texture t else mt_buffer t.

(* formatGlobalResourceParam for a global bound at k *)
Definition msl_slot_of (o : msl_opts) (m : module) (ep : string) (k : key) (kind : Z) : msl_slot :=
  let found := match msl_resource_map o m ep with Some rm => lookup k rm | None => None end in
  match found with
  | None => if m_fake o then MFake else MSlot (snd k)
  | Some t => match target_slot t kind with Some n => MSlot n | None => MSlot (snd k) end
  end.

Theorem msl_lookup_present : forall o m ep rm k t kind n,
  lookup_ep ep (m_per_ep o) = Some rm -> lookup k rm = Some t -> target_slot t kind = Some n ->
  msl_slot_of o m ep k kind = MSlot n.
Proof. intros. unfold msl_slot_of, msl_resource_map. now rewrite H, H0, H1. Qed.

Theorem msl_lookup_absent_fake : forall o m ep rm k kind,
  lookup_ep ep (m_per_ep o) = Some rm -> lookup k rm = None -> m_fake o = true ->
  msl_slot_of o m ep k kind = MFake.
Proof. intros. unfold msl_slot_of, msl_resource_map. now rewrite H, H0, H1. Qed.

(* what the code does: the raw WGSL binding number becomes the Metal slot (no error) *)
Theorem msl_lookup_absent_nofake : forall o m ep rm k kind,
  lookup_ep ep (m_per_ep o) = Some rm -> lookup k rm = None -> m_fake o = false ->
  msl_slot_of o m ep k kind = MSlot (snd k).
Proof. intros. unfold msl_slot_of, msl_resource_map. now rewrite H, H0, H1. Qed.

Theorem msl_no_map_fake : forall o m ep k kind,
  lookup_ep ep (m_per_ep o) = None -> m_fake o = true -> msl_slot_of o m ep k kind = MFake.
Proof. intros. unfold msl_slot_of, msl_resource_map. now rewrite H, H0. Qed.

(* two resources in different groups with the same binding number collide in that fallback *)
Example msl_fallback_collision :
  let o := mk_mopts [("main", [])] false in
  msl_slot_of o (mkmodule [] [] [] [] [] [] []) "main" (0, 1) 0 = msl_slot_of o (mkmodule [] [] [] [] [] [] []) "main" (1, 1) 0.
Proof. reflexivity. Qed.

(* ---- the automatic assignment ---- *)

Lemma lookup_auto_map : forall m k kind, In (k, kind) (bound_entries m) ->
  (forall kind', In (k, kind') (bound_entries m) -> kind' = kind) ->
  lookup k (auto_map m) = Some (auto_target m k kind).
Proof.
  intros m k kind. unfold auto_map. generalize (auto_target m) as f.
  induction (bound_entries m) as [|[k' kd'] es IH]; intros f Hin Huniq; [destruct Hin|].
  cbn [map lookup fst snd]. destruct (key_eqb k k') eqn:E.
  - apply key_eqb_eq in E. subst k'. rewrite (Huniq kd') by (left; reflexivity). reflexivity.
  - destruct Hin as [Heq|Hin].
    + inversion Heq; subst. assert (key_eqb k k = true) by now apply key_eqb_eq. congruence.
    + apply IH; [exact Hin|]. intros kd Hk. apply Huniq. now right.
Qed.

Lemma target_slot_auto : forall m k kind, 0 <= kind <= 2 ->
  target_slot (auto_target m k kind) kind = Some (rank (bound_entries m) k kind mod 256).
Proof.
  intros m k kind Hk. unfold auto_target, target_slot.
  destruct (kind =? 0) eqn:E0; [apply Z.eqb_eq in E0; subst; reflexivity|].
  destruct (kind =? 1) eqn:E1; [apply Z.eqb_eq in E1; subst; reflexivity|].
  apply Z.eqb_neq in E0, E1. assert (kind = 2) by lia. subst. reflexivity.
Qed.

Theorem msl_auto_slot : forall o m ep k kind,
  lookup_ep ep (m_per_ep o) = None -> m_fake o = false -> 0 <= kind <= 2 ->
  In (k, kind) (bound_entries m) -> (forall kind', In (k, kind') (bound_entries m) -> kind' = kind) ->
  msl_slot_of o m ep k kind = MSlot (rank (bound_entries m) k kind mod 256).
Proof.
  intros o m ep k kind He Hf Hk Hin Hu. unfold msl_slot_of, msl_resource_map. rewrite He, Hf.
  rewrite (lookup_auto_map _ _ _ Hin Hu), (target_slot_auto _ _ _ Hk). reflexivity.
Qed.

Lemma key_ltb_trans : forall a b c, key_ltb a b = true -> key_ltb b c = true -> key_ltb a c = true.
Proof.
  intros [a1 a2] [b1 b2] [c1 c2]. unfold key_ltb. cbn [fst snd].
  rewrite !orb_true_iff, !andb_true_iff, !Z.ltb_lt, !Z.eqb_eq. lia.
Qed.

Lemma key_ltb_irrefl : forall a, key_ltb a a = false.
Proof.
  intros [a1 a2]. unfold key_ltb. cbn [fst snd]. rewrite Z.ltb_irrefl, Z.eqb_refl, Z.ltb_irrefl. reflexivity.
Qed.

Lemma key_ltb_total : forall a b, a <> b -> key_ltb a b = true \/ key_ltb b a = true.
Proof.
  intros [a1 a2] [b1 b2] Hne. unfold key_ltb. cbn [fst snd].
  rewrite !orb_true_iff, !andb_true_iff, !Z.ltb_lt, !Z.eqb_eq.
  destruct (Z.lt_trichotomy a1 b1) as [H|[H|H]]; [lia| |lia].
  destruct (Z.lt_trichotomy a2 b2) as [H2|[H2|H2]]; [lia| |lia]. subst. congruence.
Qed.

Lemma filter_length_le : forall {A} (p q : A -> bool) l, (forall x, In x l -> p x = true -> q x = true) ->
  (List.length (filter p l) <= List.length (filter q l))%nat.
Proof.
  induction l as [|x l IH]; intros H; [apply le_n|]. cbn [filter].
  assert (IH' : (List.length (filter p l) <= List.length (filter q l))%nat) by (apply IH; intros; apply H; [now right|assumption]).
  destruct (p x) eqn:Px.
  - rewrite (H x (or_introl eq_refl) Px). cbn [List.length]. lia.
  - destruct (q x); cbn [List.length]; lia.
Qed.

Lemma filter_length_lt : forall {A} (p q : A -> bool) l y, (forall x, In x l -> p x = true -> q x = true) ->
  In y l -> p y = false -> q y = true ->
  (List.length (filter p l) < List.length (filter q l))%nat.
Proof.
  induction l as [|x l IH]; intros y H Hin Py Qy; [destruct Hin|]. cbn [filter].
  assert (Hle : (List.length (filter p l) <= List.length (filter q l))%nat)
    by (apply filter_length_le; intros; apply H; [now right|assumption]).
  destruct Hin as [->|Hin].
  - rewrite Py, Qy. cbn [List.length]. lia.
  - assert (Hlt : (List.length (filter p l) < List.length (filter q l))%nat)
      by (eapply IH; eauto; intros; apply H; [now right|assumption]).
    destruct (p x) eqn:Px.
    + rewrite (H x (or_introl eq_refl) Px). cbn [List.length]. lia.
    + destruct (q x); cbn [List.length]; lia.
Qed.

(* smaller key of the same kind => strictly smaller rank *)
Lemma rank_lt : forall es k1 k2 kind, In (k1, kind) es -> key_ltb k1 k2 = true ->
  rank es k1 kind < rank es k2 kind.
Proof.
  intros es k1 k2 kind Hin Hlt. unfold rank. apply inj_lt.
  apply (filter_length_lt _ _ es (k1, kind)); [| exact Hin | |].
  - intros e _ He. apply andb_true_iff in He. destruct He as [Hk Hl]. rewrite Hk. cbn [andb].
    eapply key_ltb_trans; eauto.
  - cbn [fst snd]. rewrite key_ltb_irrefl. apply andb_false_r.
  - cbn [fst snd]. rewrite Z.eqb_refl, Hlt. reflexivity.
Qed.

Lemma rank_bound : forall es k kind, 0 <= rank es k kind <= Z.of_nat (List.length es).
Proof.
  intros. unfold rank. split; [lia|]. apply inj_le.
  induction es as [|e es IH]; [apply le_n|]. cbn [filter]. destruct (_ && _); cbn [List.length]; lia.
Qed.

(* the automatic assignment never gives one Metal slot to two resources of the same kind
   (fewer than 256 bound globals) *)
Theorem msl_auto_injective : forall m k1 k2 kind,
  In (k1, kind) (bound_entries m) -> In (k2, kind) (bound_entries m) -> k1 <> k2 ->
  (List.length (bound_entries m) < 256)%nat ->
  rank (bound_entries m) k1 kind mod 256 <> rank (bound_entries m) k2 kind mod 256.
Proof.
  intros m k1 k2 kind H1 H2 Hne Hlen.
  pose proof (rank_bound (bound_entries m) k1 kind). pose proof (rank_bound (bound_entries m) k2 kind).
  rewrite !Z.mod_small by lia.
  destruct (key_ltb_total k1 k2 Hne) as [Hl|Hl].
  - pose proof (rank_lt _ _ _ _ H1 Hl). lia.
  - pose proof (rank_lt _ _ _ _ H2 Hl). lia.
Qed.

(* determinism: the numbering does not depend on the declaration order of the globals *)
Theorem msl_auto_order_independent : forall es es' k kind, Permutation es es' -> rank es k kind = rank es' k kind.
Proof.
  intros es es' k kind Hp. unfold rank. f_equal.
  induction Hp as [| x l l' Hp IH | x y l | l l' l'' H1 IH1 H2 IH2]; cbn [filter].
  - reflexivity.
  - destruct (_ && _); cbn [List.length]; congruence.
  - destruct ((snd y =? kind) && key_ltb (fst y) k), ((snd x =? kind) && key_ltb (fst x) k); reflexivity.
  - congruence.
Qed.

(* ================================================================== GLSL *)

Record glsl_opts := mk_gopts {
  gl_map : option (list (key * Z)); gl_major : Z; gl_minor : Z; gl_es : bool;
  gl_sampler_base : Z; gl_texture_base : Z; gl_uniform_base : Z; gl_storage_base : Z }.

Definition glsl_explicit_locations (o : glsl_opts) : bool :=
  if gl_es o then (3 <? gl_major o) || ((gl_major o =? 3) && (10 <=? gl_minor o))
  else (4 <? gl_major o) || ((gl_major o =? 4) && (20 <=? gl_minor o)).

(* lookupBinding: Some n -> "layout(binding = n)"; None -> no binding qualifier *)
Definition glsl_binding (o : glsl_opts) (b : option key) : option Z :=
  match b, gl_map o with
  | Some k, Some mp => if glsl_explicit_locations o then lookup k mp else None
  | _, _ => None
  end.

Theorem glsl_lookup_present : forall o k mp n,
  gl_map o = Some mp -> glsl_explicit_locations o = true -> lookup k mp = Some n ->
  glsl_binding o (Some k) = Some n.
Proof. intros o k mp n Hm Hv Hl. unfold glsl_binding. now rewrite Hm, Hv. Qed.

Theorem glsl_lookup_absent : forall o k mp,
  gl_map o = Some mp -> lookup k mp = None -> glsl_binding o (Some k) = None.
Proof. intros o k mp Hm Hl. unfold glsl_binding. rewrite Hm. destruct (glsl_explicit_locations o); [exact Hl | reflexivity]. Qed.

Theorem glsl_lookup_old_version : forall o b, glsl_explicit_locations o = false -> glsl_binding o b = None.
Proof. intros o [k|] H; unfold glsl_binding; [|reflexivity]. destruct (gl_map o); [now rewrite H | reflexivity]. Qed.

(* the four *BindingBase options have no effect at all on the emitted binding *)
Theorem glsl_binding_base_ignored : forall mp ma mi es s t u st s' t' u' st' b,
  glsl_binding (mk_gopts mp ma mi es s t u st) b = glsl_binding (mk_gopts mp ma mi es s' t' u' st') b.
Proof. reflexivity. Qed.

Theorem glsl_map_injective : forall o mp k1 k2 n,
  gl_map o = Some mp ->
  (forall ka kb na nb, lookup ka mp = Some na -> lookup kb mp = Some nb -> na = nb -> ka = kb) ->
  glsl_binding o (Some k1) = Some n -> glsl_binding o (Some k2) = Some n -> k1 = k2.
Proof.
  intros o mp k1 k2 n Hm Hinj. unfold glsl_binding. rewrite Hm.
  destruct (glsl_explicit_locations o); [|discriminate]. intros H1 H2. eapply Hinj; eauto.
Qed.

(* ================================================================== JSON face *)


Definition parse_hlsl (j : json) : hlsl_opts :=
  mk_hopts (match field_arr "map" j with
            | Some l => flat_map (fun e => match nums e with Some [g; b; s; r] => [((g, b), (s, r))] | _ => [] end) l
            | None => []
            end)
           (match field_bool "fake" j with Some b => b | None => true end).

Definition zopt (z : Z) : option Z := if z <? 0 then None else Some z.

Definition parse_msl (j : json) : msl_opts :=
  mk_mopts (match field "per_ep" j with
            | Some (JObj fs) =>
              map (fun kv => (fst kv,
                              match field_arr "resources" (snd kv) with
                              | Some l => flat_map (fun e => match nums e with
                                                             | Some [g; b; bu; te; sa] => [((g, b), mk_mt (zopt bu) (zopt te) (zopt sa))]
                                                             | _ => [] end) l
                              | None => []
                              end)) fs
            | _ => []
            end)
           (match field_bool "fake" j with Some b => b | None => false end).

Definition parse_glsl (j : json) : glsl_opts :=
  let v := match field "version" j with Some vj => match nums vj with Some [a; b; c] => (a, b, negb (c =? 0)) | _ => (3, 30, false) end
                                    | None => (3, 30, false) end in
  mk_gopts (match field_arr "map" j with
            | Some l => Some (flat_map (fun e => match nums e with Some [g; b; s] => [((g, b), s)] | _ => [] end) l)
            | None => None
            end)
           (fst (fst v)) (snd (fst v)) (snd v) 0 0 0 0.

Definition jopt (o : option Z) : json := match o with Some z => JNum z | None => JNull end.

Fixpoint index_globals (n : nat) (l : list global_var) : list (nat * global_var) :=
  match l with [] => [] | g :: l' => (n, g) :: index_globals (S n) l' end.

Definition space_name (s : addr_space) : string :=
  match s with
  | SpFunction => "function" | SpPrivate => "private" | SpWorkGroup => "workgroup" | SpUniform => "uniform"
  | SpStorage => "storage" | SpPushConstant => "push_constant" | SpHandle => "handle" | SpImmediate => "immediate"
  | SpTaskPayload => "task_payload"
  end.

Definition stage_name (s : stage) : string :=
  match s with StVertex => "vertex" | StFragment => "fragment" | StCompute => "compute" | StOther n => n end.

Definition run_text (j : json) (m : module) : json :=
  let ho := match field "hlsl" j with Some x => parse_hlsl x | None => mk_hopts [] true end in
  let mo := match field "msl" j with Some x => parse_msl x | None => mk_mopts [] false end in
  let go := match field "glsl" j with Some x => parse_glsl x | None => parse_glsl JNull end in
  let gl := index_globals 0 (m_globals m) in
  JObj [("ok", JBool true);
        ("globals", JArr (map (fun hg =>
           let g := snd hg in
           let t := hlsl_bind_target ho (g_binding g) in
           JObj [("handle", JNum (Z.of_nat (fst hg))); ("name", JStr (g_name g)); ("space", JStr (space_name (g_space g)));
                 ("group", jopt (option_map fst (g_binding g))); ("binding", jopt (option_map snd (g_binding g)));
                 ("access", JNum (g_access g)); ("kind", JNum (res_kind m g));
                 ("hlsl_space", JNum (fst t)); ("hlsl_register", JNum (snd t)); ("hlsl_class", JStr (hlsl_reg_class g));
                 ("glsl_binding", jopt (glsl_binding go (g_binding g)))]) gl));
        ("eps", JArr (map (fun ep =>
           let used := used_globals m ep in
           JObj [("name", JStr (ep_name ep)); ("stage", JStr (stage_name (ep_stage ep)));
                 ("used", JArr (map (fun h => JNum (Z.of_nat h)) used));
                 ("msl", JArr (flat_map (fun hg =>
                    let g := snd hg in
                    match g_binding g with
                    | Some k => if existsb (Nat.eqb (fst hg)) used
                                then [JObj [("handle", JNum (Z.of_nat (fst hg)));
                                            ("slot", match msl_slot_of mo m (ep_name ep) k (res_kind m g) with
                                                     | MFake => JStr "fake" | MSlot n => JNum n end)]]
                                else []
                    | None => []
                    end) gl))]) (m_entry_points m)))].
