(* C17: soundness of the SPIR-V interface checker (V tie).

   [check_spv_iface fps m (h, is) = []]  implies the declarative statement
   [iface_spec]: module-scope variables correspond one to one, in order, to the
   IR globals with the right storage class / DescriptorSet / Binding /
   NonWritable; every entry point of the IR has exactly one OpEntryPoint of its
   name with the right execution model, a duplicate-free interface whose
   Input/Output part is -- up to order -- exactly the expected variables
   (decoration by decoration) and whose remaining part is, from SPIR-V 1.4 on,
   exactly the set of variables of the globals reachable through the call
   graph (Reach.used_globals_correct) and empty before 1.4; the execution modes
   are exactly the expected ones.  The readers (decos_of, module_vars,
   entry_points_of, exec_modes_of, pointee) are part of the statement: they are
   the meaning given to the binary. *)
From Coq Require Import List ZArith String Bool Arith Lia Permutation.
Import ListNotations.
Require Import Naga.IR.Syntax Naga.Spv.Binary Naga.Iface.Reach Naga.Iface.SpvSpec Naga.Iface.SpvIface.
Local Open Scope list_scope.
Local Open Scope Z_scope.

(* ---- generic reflection lemmas ---- *)

Lemma existsb_eqb_In : forall x l, existsb (Z.eqb x) l = true <-> In x l.
Proof.
  intros x l. rewrite existsb_exists. split.
  - intros (y & Hy & He). apply Z.eqb_eq in He. now subst.
  - intros H. exists x. split; [exact H | apply Z.eqb_refl].
Qed.

Lemma nodupb_NoDup : forall l, nodupb l = true <-> NoDup l.
Proof.
  induction l as [|x l IH]; cbn [nodupb].
  - split; [constructor | reflexivity].
  - rewrite andb_true_iff, negb_true_iff, IH. split.
    + intros [Hx Hl]. constructor; [|exact Hl]. intros Hin. apply existsb_eqb_In in Hin. congruence.
    + intros H. inversion H as [|? ? Hx Hl]; subst. split; [|exact Hl].
      destruct (existsb (Z.eqb x) l) eqn:E; [|reflexivity]. apply existsb_eqb_In in E. contradiction.
Qed.

Lemma subsetb_incl : forall a b, subsetb a b = true <-> incl a b.
Proof.
  intros a b. unfold subsetb. rewrite forallb_forall. split.
  - intros H x Hx. apply existsb_eqb_In. now apply H.
  - intros H x Hx. apply existsb_eqb_In. now apply H.
Qed.

Lemma seteqb_iff : forall a b, seteqb a b = true <-> (forall x, In x a <-> In x b).
Proof.
  intros a b. unfold seteqb. rewrite andb_true_iff, !subsetb_incl. unfold incl. split.
  - intros [H1 H2] x. split; auto.
  - intros H. split; intros x Hx; now apply H.
Qed.

Lemma list_eqb_eq : forall a b, list_eqb a b = true <-> a = b.
Proof.
  unfold list_eqb. induction a as [|x a IH]; intros [|y b]; cbn [List.length combine forallb Nat.eqb andb fst snd];
    try (split; [discriminate | discriminate]); [tauto|].
  specialize (IH b). rewrite andb_true_iff in IH. rewrite !andb_true_iff, Z.eqb_eq. split.
  - intros (Hl & Hxy & Hf). subst y. f_equal. apply IH. auto.
  - intros H. inversion H; subst. destruct IH as [_ IH]. specialize (IH eq_refl). tauto.
Qed.

Lemma remove_first_perm : forall {A} (p : A -> bool) l r,
  remove_first p l = Some r -> exists a, p a = true /\ Permutation l (a :: r).
Proof.
  intros A p. induction l as [|x l IH]; intros r H; cbn [remove_first] in H; [discriminate|].
  destruct (p x) eqn:Px.
  - inversion H; subst. exists x. split; [exact Px | apply Permutation_refl].
  - destruct (remove_first p l) as [r'|] eqn:E; [|discriminate]. inversion H; subst.
    destruct (IH _ eq_refl) as (a & Pa & Hp). exists a. split; [exact Pa|].
    eapply perm_trans; [apply perm_skip, Hp | apply perm_swap].
Qed.

(* greedy matching finds a genuine one-to-one assignment *)
Lemma match_ios_sound : forall xs acts, match_ios xs acts = true ->
  exists acts', Permutation acts' acts /\
                Forall2 (fun x a => io_match x (fst a) (snd a) = true) xs acts'.
Proof.
  induction xs as [|x xs IH]; intros acts H; cbn [match_ios] in H.
  - destruct acts; [|discriminate]. exists []. split; constructor.
  - destruct (remove_first _ acts) as [rest|] eqn:E; [|discriminate].
    destruct (remove_first_perm _ _ _ E) as (a & Pa & Hp).
    destruct (IH _ H) as (acts' & Hp' & Hf).
    exists (a :: acts'). split.
    + eapply perm_trans; [apply perm_skip, Hp' | apply Permutation_sym, Hp].
    + constructor; assumption.
Qed.

Lemma mode_eqb_eq : forall a b, mode_eqb a b = true <-> a = b.
Proof.
  intros [a1 a2] [b1 b2]. unfold mode_eqb. cbn [fst snd]. rewrite andb_true_iff, Z.eqb_eq, list_eqb_eq.
  split; [intros [-> ->]; reflexivity | intros H; inversion H; auto].
Qed.

Lemma match_modes_sound : forall xs acts, match_modes xs acts = true -> Permutation xs acts.
Proof.
  induction xs as [|x xs IH]; intros acts H; cbn [match_modes] in H.
  - destruct acts; [constructor | discriminate].
  - destruct (remove_first _ acts) as [rest|] eqn:E; [|discriminate].
    destruct (remove_first_perm _ _ _ E) as (a & Pa & Hp). apply mode_eqb_eq in Pa. subst a.
    eapply perm_trans; [apply perm_skip, IH, H | apply Permutation_sym, Hp].
Qed.

(* ---- declarative reading of the decoration tests ---- *)

(* a decoration with one literal operand is present exactly once with value v / absent *)
Definition deco_value_is (d : Z) (want : option Z) (ds : list (Z * list Z)) : Prop :=
  match want with
  | Some v => deco_vals d ds = [[v]]
  | None => deco_vals d ds = []
  end.

Definition deco_flag_is (d : Z) (want : bool) (ds : list (Z * list Z)) : Prop :=
  if want then deco_vals d ds = [[]] else deco_vals d ds = [].

Definition deco_tri_is (d : Z) (want : tri) (ds : list (Z * list Z)) : Prop :=
  match want with
  | Must => deco_vals d ds = [[]]
  | MustNot => deco_vals d ds = []
  | Any => deco_vals d ds = [[]] \/ deco_vals d ds = []
  end.

Lemma value_ok_iff : forall d want ds, value_ok d want ds = true <-> deco_value_is d want ds.
Proof.
  intros d want ds. unfold value_ok, view_deco, deco_value_is.
  destruct (deco_vals d ds) as [|[|v [|? ?]] [|? ?]]; destruct want as [w|];
    try (split; [discriminate | discriminate]); try tauto.
  rewrite Z.eqb_eq. split; [intros ->; reflexivity | intros H; inversion H; reflexivity].
Qed.

Lemma flag_ok_iff : forall d want ds, flag_ok d want ds = true <-> deco_flag_is d want ds.
Proof.
  intros d want ds. unfold flag_ok, view_deco, deco_flag_is.
  destruct (deco_vals d ds) as [|[|v [|? ?]] [|? ?]]; destruct want; cbn [negb];
    try (split; [discriminate | discriminate]); tauto.
Qed.

Lemma triflag_ok_iff : forall d want ds, triflag_ok d want ds = true <-> deco_tri_is d want ds.
Proof.
  intros d want ds. unfold triflag_ok, view_deco, deco_tri_is, tri_ok.
  destruct (deco_vals d ds) as [|[|v [|? ?]] [|? ?]]; destruct want; cbn [negb];
    try (split; [discriminate | discriminate]); try tauto;
    try (split; [discriminate | intros [H|H]; discriminate]).
Qed.

Lemma has_deco_false_iff : forall d ds, has_deco d ds = false <-> deco_vals d ds = [].
Proof.
  intros d ds. unfold has_deco, deco_vals. induction ds as [|x ds IH]; cbn [existsb filter map]; [tauto|].
  destruct (fst x =? d); cbn [orb map]; [split; discriminate | exact IH].
Qed.

(* a variable of class c with decorations ds is the interface variable x *)
Definition io_spec (x : io_exp) (c : Z) (ds : list (Z * list Z)) : Prop :=
  c = io_class x /\
  deco_value_is D_Location (io_loc x) ds /\
  deco_value_is D_BuiltIn (io_builtin x) ds /\
  deco_tri_is D_Flat (io_flat x) ds /\
  deco_flag_is D_NoPerspective (io_nopersp x) ds /\
  deco_flag_is D_Centroid (io_centroid x) ds /\
  deco_flag_is D_Sample (io_sample x) ds /\
  deco_tri_is D_Invariant (io_invariant x) ds /\
  deco_value_is D_Index (io_index x) ds /\
  deco_vals D_DescriptorSet ds = [] /\ deco_vals D_Binding ds = [].

Lemma io_match_iff : forall x c ds, io_match x c ds = true <-> io_spec x c ds.
Proof.
  intros x c ds. unfold io_match, io_spec.
  rewrite !andb_true_iff, !negb_true_iff, Z.eqb_eq, !value_ok_iff, !flag_ok_iff, !triflag_ok_iff, !has_deco_false_iff.
  tauto.
Qed.

Definition class_spec (version : Z) (x : gv_exp) (c t : Z) (is : list instr) : Prop :=
  let pds := match pointee t is with Some p => decos_of p is | None => [] end in
  match gx_space x with
  | SpStorage => c = SC_StorageBuffer \/ (version < 66304 /\ c = SC_Uniform /\ has_deco D_BufferBlock pds = true)
  | SpUniform => c = SC_Uniform /\ has_deco D_BufferBlock pds = false
  | _ => c = gx_class x
  end.

Lemma class_ok_iff : forall version x c t is, class_ok version x c t is = true <-> class_spec version x c t is.
Proof.
  intros. unfold class_ok, class_spec. destruct (gx_space x);
    rewrite ?orb_true_iff, ?andb_true_iff, ?negb_true_iff, ?Z.eqb_eq, ?Z.ltb_lt; tauto.
Qed.

(* the module-scope variable v = (id, class, pointer type) is the IR global x *)
Definition gv_spec (version : Z) (is : list instr) (x : gv_exp) (v : Z * Z * Z) : Prop :=
  let '(id, c, t) := v in
  let ds := decos_of id is in
  class_spec version x c t is /\
  deco_value_is D_DescriptorSet (option_map fst (gx_bind x)) ds /\
  deco_value_is D_Binding (option_map snd (gx_bind x)) ds /\
  deco_tri_is D_NonWritable (gx_nonwritable x) ds /\
  deco_vals D_Location ds = [] /\ deco_vals D_BuiltIn ds = [].

Lemma gv_match_iff : forall version is x v, gv_match version is x v = true <-> gv_spec version is x v.
Proof.
  intros version is x [[id c] t]. unfold gv_match, gv_spec.
  rewrite !andb_true_iff, !negb_true_iff, class_ok_iff, !value_ok_iff, triflag_ok_iff, !has_deco_false_iff. tauto.
Qed.

(* ---- per entry point ---- *)

Definition act_of (is : list instr) (vars : list (Z * Z * Z)) (id : Z) : Z * list (Z * list Z) :=
  (class_of vars id, decos_of id is).

Definition ep_spec (version : Z) (is : list instr) (vars : list (Z * Z * Z)) (gmap : list (nat * Z)) (x : ep_exp) : Prop :=
  exists a,
    find_eps is (xe_name x) = [a] /\                                    (* one OpEntryPoint of this name *)
    ea_model a = xe_model x /\
    (forall id, In id (ea_iface a) -> exists c, var_class id vars = Some c) /\
    NoDup (ea_iface a) /\
    (exists acts', Permutation acts' (map (act_of is vars) (io_ids_of vars (ea_iface a))) /\
                   Forall2 (fun x a => io_spec x (fst a) (snd a)) (xe_ios x) acts') /\
    (V_1_4 <= version -> forall id, In id (other_ids_of vars (ea_iface a)) <-> In id (handle_ids gmap (xe_globals x))) /\
    (version < V_1_4 -> other_ids_of vars (ea_iface a) = []) /\
    Permutation (xe_modes x) (modes_of_interest (exec_modes_of (ea_fn a) is)).

Lemma report_nil : forall ok k n i d, report_d ok k n i d = [] -> ok = true.
Proof. intros [] k n i d H; [reflexivity | discriminate]. Qed.

Lemma check_ep_sound : forall version is vars gmap x,
  check_ep version is vars gmap x = [] -> ep_spec version is vars gmap x.
Proof.
  intros version is vars gmap x H. unfold check_ep in H.
  destruct (find_eps is (xe_name x)) as [|a [|b l]] eqn:Ef; try discriminate.
  unfold report in H.
  repeat (apply app_eq_nil in H; let H1 := fresh "H" in destruct H as [H1 H]).
  apply report_nil in H0, H1, H2, H3, H4, H.
  exists a. split; [exact Ef|].
  unfold ep_model_ok in H0. apply Z.eqb_eq in H0.
  split; [exact H0|]. split.
  { intros id Hid. unfold ep_vars_ok in H1. rewrite forallb_forall in H1. specialize (H1 _ Hid).
    destruct (var_class id vars) as [c|]; [eauto | discriminate]. }
  split; [now apply nodupb_NoDup|]. split.
  { unfold ep_io_ok in H3. destruct (match_ios_sound _ _ H3) as (acts' & Hp & Hf).
    exists acts'. split; [exact Hp|].
    clear -Hf. induction Hf as [|y b ys bs Hy Hf IH]; constructor; [now apply io_match_iff | exact IH]. }
  unfold ep_globals_ok in H4. split; [|split].
  - intros Hv. apply Z.leb_le in Hv. rewrite Hv in H4. now apply seteqb_iff.
  - intros Hv. destruct (V_1_4 <=? version) eqn:E; [apply Z.leb_le in E; lia|].
    destruct (other_ids_of vars (ea_iface a)); [reflexivity | discriminate].
  - unfold ep_modes_ok in H. now apply match_modes_sound.
Qed.

Lemma check_globals_sound : forall version is xs vs,
  check_globals version is xs vs = [] -> Forall2 (gv_spec version is) xs vs.
Proof.
  induction xs as [|x xs IH]; intros [|v vs] H; cbn [check_globals] in H; try discriminate; [constructor|].
  apply app_eq_nil in H. destruct H as [H1 H2]. apply report_nil in H1.
  constructor; [now apply gv_match_iff | now apply IH].
Qed.

Lemma flat_map_nil : forall {A B} (f : A -> list B) l, flat_map f l = [] -> forall x, In x l -> f x = [].
Proof.
  induction l as [|y l IH]; intros H x Hx; [destruct Hx|]. cbn [flat_map] in H.
  apply app_eq_nil in H. destruct H as [H1 H2]. destruct Hx as [<-|Hx]; auto.
Qed.

(* ---- whole module ---- *)

Definition iface_spec (fps : bool) (m : module) (h : header) (is : list instr) : Prop :=
  let vars := module_vars is in
  Forall2 (gv_spec (version h) is) (globals_expected m) (non_io_vars vars) /\
  (forall ep, In ep (m_entry_points m) -> compilable ep = true ->
     exists x, ep_expected fps m ep = Some x /\ ep_spec (version h) is vars (global_map m vars) x) /\
  List.length (entry_points_of is) = List.length (filter compilable (m_entry_points m)) /\
  (let listed := flat_map (fun a => io_ids_of vars (ea_iface a)) (entry_points_of is) in
   NoDup listed /\ forall id, In id listed <-> In id (map var_id (io_vars vars))).

Theorem check_spv_iface_sound : forall fps m h is,
  check_spv_iface fps m (h, is) = [] -> iface_spec fps m h is.
Proof.
  intros fps m h is H. unfold check_spv_iface in H. unfold report in H.
  repeat (apply app_eq_nil in H; let H1 := fresh "H" in destruct H as [H1 H]).
  apply report_nil in H2, H. unfold iface_spec. cbv zeta.
  split; [now apply check_globals_sound|]. split.
  - intros ep Hin Hc. unfold check_eps in H1.
    pose proof (flat_map_nil _ _ H1 ep) as Hep.
    assert (Hin' : In ep (filter compilable (m_entry_points m))) by (apply filter_In; auto).
    specialize (Hep Hin'). cbv beta in Hep. destruct (ep_expected fps m ep) as [x|]; [|discriminate].
    exists x. split; [reflexivity | now apply check_ep_sound].
  - split; [now apply Nat.eqb_eq|].
    unfold io_partition_ok in H. apply andb_true_iff in H. destruct H as [Hn Hs].
    split; [now apply nodupb_NoDup | now apply seteqb_iff].
Qed.

(* ---- interface_exact: the non-Input/Output part of an OpEntryPoint (SPIR-V >= 1.4) is exactly the
   variables of the globals the entry point reaches through the call graph ---- *)

Lemma handle_ids_In : forall gmap hs id,
  In id (handle_ids gmap hs) <-> exists g, In g hs /\ lookup_handle g gmap = Some id.
Proof.
  intros gmap hs id. unfold handle_ids. rewrite in_flat_map. split.
  - intros (g & Hg & Hid). exists g. split; [exact Hg|]. destruct (lookup_handle g gmap); [|destruct Hid].
    destruct Hid as [<-|[]]. reflexivity.
  - intros (g & Hg & Hl). exists g. split; [exact Hg|]. rewrite Hl. now left.
Qed.

Theorem interface_exact : forall fps m h is ep,
  check_spv_iface fps m (h, is) = [] ->
  In ep (m_entry_points m) -> compilable ep = true ->
  exists a, find_eps is (ep_name ep) = [a] /\ NoDup (ea_iface a) /\
    let vars := module_vars is in
    (V_1_4 <= version h ->
       forall id, In id (other_ids_of vars (ea_iface a)) <->
                  exists g f, call_path m (ep_func ep) f /\ In (EGlobalVariable g) (f_exprs f) /\
                              lookup_handle g (global_map m vars) = Some id) /\
    (version h < V_1_4 -> other_ids_of vars (ea_iface a) = []).
Proof.
  intros fps m h is ep H Hin Hc.
  destruct (check_spv_iface_sound _ _ _ _ H) as (_ & Heps & _).
  destruct (Heps ep Hin Hc) as (x & Hx & a & Hf & _ & _ & Hnd & _ & Hg & Hlt & _).
  assert (Hname : xe_name x = ep_name ep /\ xe_globals x = used_globals m ep).
  { unfold ep_expected in Hx. destruct (stage3 (ep_stage ep)); [|discriminate].
    destruct (spec_model (ep_stage ep)); [|discriminate].
    destruct (input_ios m s (ep_func ep)); [|discriminate].
    destruct (output_ios m s (ep_func ep)); [|discriminate]. inversion Hx. split; reflexivity. }
  destruct Hname as [Hn Hgl]. rewrite Hn in Hf. rewrite Hgl in Hg.
  exists a. split; [exact Hf|]. split; [exact Hnd|]. cbv zeta. split; [|exact Hlt].
  intros Hv id. rewrite (Hg Hv id), handle_ids_In. split.
  - intros (g & Hu & Hl). apply used_globals_correct in Hu. destruct Hu as (f & Hp & He). eauto.
  - intros (g & f & Hp & He & Hl). exists g. split; [|exact Hl]. apply used_globals_correct. eauto.
Qed.
