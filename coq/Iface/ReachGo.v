(* C17: a step-by-step model of the Go traversal itself
   (backend.go collectGlobalVarsFromFunction / collectGlobalVarsFromStatements, 2247-2286):

     visit(fn):  seen += globals named by fn's expressions
                 for every StmtCall h met in fn's statement tree, in order:
                     if !visited[h] { visited[h] = true; if h is in range { visit(functions[h]) } }

   The recursion "finish the callee before going on with the next call" is a
   depth-first search whose stack is the list of calls still to be looked at, so
   the model is the work-list form: pop h; if visited skip, else mark it and push
   its calls in front.  Theorems: when the work list runs empty the visited
   in-range handles are exactly the reachable ones, hence the Go result equals
   [Reach.used_globals_of]; and a fuel of (number of initial calls + number of call
   statements in the module + 1) always lets it run empty. *)
From Coq Require Import List Arith Lia Bool PeanoNat.
Import ListNotations.
Require Import Naga.IR.Syntax Naga.Iface.Reach.

Section Dfs.
  Variable m : module.
  Let n := length (m_functions m).

  Definition memb (h : nat) (l : list nat) : bool := existsb (Nat.eqb h) l.

  Lemma memb_In : forall h l, memb h l = true <-> In h l.
  Proof.
    intros h l. unfold memb. rewrite existsb_exists. split.
    - intros (x & Hx & He). apply Nat.eqb_eq in He. now subst.
    - intros H. exists h. split; [exact H | apply Nat.eqb_refl].
  Qed.

  (* calls of function h as the Go code sees them: all StmtCall targets, in range or not;
     an out-of-range handle is marked visited and not entered *)
  Definition raw_calls (f : func) : list nat := block_calls (f_body f).
  Definition raw_succs (h : nat) : list nat :=
    match nth_error (m_functions m) h with Some f => raw_calls f | None => [] end.

  Fixpoint dfs (fuel : nat) (stack vis : list nat) : option (list nat) :=
    match stack with
    | [] => Some vis
    | h :: rest =>
      match fuel with
      | O => None
      | S fuel' => if memb h vis then dfs fuel' rest vis else dfs fuel' (raw_succs h ++ rest) (h :: vis)
      end
    end.

  (* reachability over raw call edges from an initial list of calls *)
  Inductive rreach (S0 : list nat) : nat -> Prop :=
  | rr_base : forall h, In h S0 -> rreach S0 h
  | rr_step : forall h k, rreach S0 h -> In k (raw_succs h) -> rreach S0 k.

  Definition inv (S0 stack vis : list nat) : Prop :=
    (forall h, In h stack \/ In h vis -> rreach S0 h) /\
    (forall h, In h S0 -> In h stack \/ In h vis) /\
    (forall x k, In x vis -> In k (raw_succs x) -> In k stack \/ In k vis).

  Lemma dfs_inv : forall fuel S0 stack vis res, inv S0 stack vis -> dfs fuel stack vis = Some res ->
    inv S0 [] res.
  Proof.
    induction fuel as [|fuel IH]; intros S0 stack vis res Hinv H.
    - destruct stack; cbn [dfs] in H; [|discriminate]. inversion H; subst. exact Hinv.
    - destruct stack as [|h rest]; cbn [dfs] in H; [inversion H; subst; exact Hinv|].
      destruct Hinv as (Hs & H0 & Hc).
      destruct (memb h vis) eqn:E.
      + apply memb_In in E. eapply IH; [|exact H]. split; [|split].
        * intros x [Hx|Hx]; apply Hs; [left; now right | now right].
        * intros x Hx. destruct (H0 x Hx) as [[->|Hr]|Hv]; auto.
        * intros x k Hx Hk. destruct (Hc x k Hx Hk) as [[->|Hr]|Hv]; auto.
      + eapply IH; [|exact H]. split; [|split].
        * intros x [Hx|[<-|Hx]].
          -- apply in_app_iff in Hx. destruct Hx as [Hx|Hx].
             ++ eapply rr_step; [apply Hs; left; now left | exact Hx].
             ++ apply Hs. left. now right.
          -- apply Hs. left. now left.
          -- apply Hs. now right.
        * intros x Hx. destruct (H0 x Hx) as [[->|Hr]|Hv].
          -- right. now left.
          -- left. apply in_app_iff. now right.
          -- right. now right.
        * intros x k [<-|Hx] Hk.
          -- left. apply in_app_iff. now left.
          -- destruct (Hc x k Hx Hk) as [[->|Hr]|Hv].
             ++ right. now left.
             ++ left. apply in_app_iff. now right.
             ++ right. now right.
  Qed.

  Theorem dfs_correct : forall fuel S0 res, dfs fuel S0 [] = Some res -> forall h, In h res <-> rreach S0 h.
  Proof.
    intros fuel S0 res H h.
    assert (Hinv : inv S0 S0 []).
    { split; [|split].
      - intros x [Hx|[]]. now apply rr_base.
      - intros x Hx. now left.
      - intros x k []. }
    destruct (dfs_inv _ _ _ _ _ Hinv H) as (Hs & H0 & Hc). split.
    - intros Hh. apply Hs. now right.
    - intros Hr. induction Hr as [x Hx | x k Hr IH Hk].
      + destruct (H0 x Hx) as [[]|Hv]. exact Hv.
      + destruct (Hc x k IH Hk) as [[]|Hv]. exact Hv.
  Qed.

  (* raw reachability restricted to in-range handles = Reach.reachable *)
  Lemma succs_filter : forall h, succs m h = filter (fun k => k <? n) (raw_succs h).
  Proof. intros h. unfold succs, raw_succs, fn_calls, raw_calls. destruct (nth_error _ h); reflexivity. Qed.

  Lemma raw_succs_out_of_range : forall h, n <= h -> raw_succs h = [].
  Proof. intros h Hh. unfold raw_succs. now rewrite (proj2 (nth_error_None _ _) Hh). Qed.

  Lemma rreach_reachable : forall f0 h, h < n ->
    (rreach (raw_calls f0) h <-> reachable m (fn_calls m f0) h).
  Proof.
    intros f0 h Hlt. split.
    - intros H. revert Hlt. induction H as [x Hx | x k Hr IH Hk]; intros Hlt.
      + apply r_base. apply filter_In. split; [exact Hx | now apply Nat.ltb_lt].
      + destruct (Nat.lt_ge_cases x n) as [Hx|Hx].
        * eapply r_step; [apply IH, Hx|]. rewrite succs_filter. apply filter_In. split; [exact Hk | now apply Nat.ltb_lt].
        * rewrite raw_succs_out_of_range in Hk by exact Hx. destruct Hk.
    - intros H. clear Hlt. induction H as [x Hx | x k Hr IH Hk].
      + apply rr_base. apply filter_In in Hx. tauto.
      + eapply rr_step; [exact IH|]. rewrite succs_filter in Hk. apply filter_In in Hk. tauto.
  Qed.

  (* the Go result: globals of the entry function plus those of every visited function *)
  Definition go_used_globals (fuel : nat) (f0 : func) : option (list nat) :=
    match dfs fuel (raw_calls f0) [] with
    | Some vis => Some (fn_globals f0 ++ flat_map (handle_globals m) vis)
    | None => None
    end.

  Theorem go_used_globals_correct : forall fuel f0 l, go_used_globals fuel f0 = Some l ->
    forall g, In g l <-> In g (used_globals_of m f0).
  Proof.
    intros fuel f0 l H g. unfold go_used_globals in H.
    destruct (dfs fuel (raw_calls f0) []) as [vis|] eqn:E; [|discriminate]. inversion H; subst. clear H.
    pose proof (dfs_correct _ _ _ E) as Hv.
    unfold used_globals_of. rewrite nodup_In, !in_app_iff, !in_flat_map. split.
    - intros [Hg|(h & Hh & Hg)]; [now left|]. right. exists h. split; [|exact Hg].
      assert (Hlt : h < n).
      { unfold handle_globals in Hg. destruct (nth_error (m_functions m) h) eqn:En; [|destruct Hg].
        apply nth_error_Some. congruence. }
      unfold used_funcs. apply reach_correct; [apply fn_calls_lt_all|].
      apply rreach_reachable; [exact Hlt | now apply Hv].
    - intros [Hg|(h & Hh & Hg)]; [now left|]. right. exists h. split; [|exact Hg].
      unfold used_funcs in Hh. apply reach_correct in Hh; [|apply fn_calls_lt_all].
      assert (Hlt : h < n).
      { unfold handle_globals in Hg. destruct (nth_error (m_functions m) h) eqn:En; [|destruct Hg].
        apply nth_error_Some. congruence. }
      apply Hv. now apply rreach_reachable.
  Qed.

  (* ---- fuel: every step either pops a visited handle or marks a new one; the measure
     |stack| + (number of call statements of the not yet visited functions) drops by one ---- *)

  Fixpoint sum_deg (l : list nat) : nat :=
    match l with [] => 0 | h :: l' => length (raw_succs h) + sum_deg l' end.

  Definition unvisited (vis : list nat) : list nat := filter (fun h => negb (memb h vis)) (seq 0 n).

  Lemma sum_deg_filter_split : forall (p : nat -> bool) h l, NoDup l -> In h l -> p h = true ->
    sum_deg (filter p l) = length (raw_succs h) + sum_deg (filter (fun x => p x && negb (Nat.eqb x h)) l).
  Proof.
    intros p h l. induction l as [|x l IH]; intros Hnd Hin Hp; [destruct Hin|].
    inversion Hnd as [|? ? Hx Hl]; subst. cbn [filter].
    destruct Hin as [->|Hin].
    - rewrite Hp, Nat.eqb_refl. cbn [andb negb sum_deg]. f_equal. f_equal.
      apply filter_ext_in. intros y Hy. destruct (Nat.eqb_spec y h) as [->|_]; [contradiction|].
      cbn [negb]. now rewrite andb_true_r.
    - destruct (Nat.eqb_spec x h) as [->|Hne]; [contradiction|]. cbn [negb]. rewrite andb_true_r.
      destruct (p x); cbn [sum_deg]; rewrite (IH Hl Hin Hp); lia.
  Qed.

  Lemma unvisited_cons : forall h vis, memb h vis = false ->
    sum_deg (unvisited vis) = length (raw_succs h) + sum_deg (unvisited (h :: vis)).
  Proof.
    intros h vis Hm. unfold unvisited.
    destruct (Nat.lt_ge_cases h n) as [Hlt|Hge].
    - rewrite (sum_deg_filter_split (fun x => negb (memb x vis)) h (seq 0 n)).
      + f_equal. f_equal. apply filter_ext. intros x. unfold memb. cbn [existsb].
        rewrite negb_orb. apply andb_comm.
      + apply seq_NoDup.
      + apply in_seq. lia.
      + now rewrite Hm.
    - rewrite (raw_succs_out_of_range h Hge). cbn [length]. rewrite Nat.add_0_l. f_equal.
      apply filter_ext_in. intros x Hx. apply in_seq in Hx. unfold memb. cbn [existsb].
      destruct (Nat.eqb_spec x h) as [->|_]; [lia | reflexivity].
  Qed.

  Lemma dfs_fuel : forall fuel stack vis, length stack + sum_deg (unvisited vis) < fuel ->
    dfs fuel stack vis <> None.
  Proof.
    induction fuel as [|fuel IH]; intros stack vis Hm; [lia|].
    destruct stack as [|h rest]; cbn [dfs]; [discriminate|].
    destruct (memb h vis) eqn:E.
    - apply IH. cbn [length] in Hm. lia.
    - apply IH. rewrite app_length. rewrite (unvisited_cons h vis E) in Hm. cbn [length] in Hm. lia.
  Qed.

  (* number of StmtCall statements in the module's functions *)
  Definition call_count : nat := sum_deg (seq 0 n).

  Lemma unvisited_nil : unvisited [] = seq 0 n.
  Proof.
    unfold unvisited. rewrite <- (filter_ext (fun _ => true)) by reflexivity.
    induction (seq 0 n) as [|x l IH]; [reflexivity|]. cbn [filter]. now rewrite IH.
  Qed.

  Theorem go_used_globals_total : forall f0,
    go_used_globals (length (raw_calls f0) + call_count + 1) f0 <> None.
  Proof.
    intros f0. unfold go_used_globals.
    destruct (dfs _ (raw_calls f0) []) eqn:E; [discriminate|].
    exfalso. revert E. apply dfs_fuel. rewrite unvisited_nil. unfold call_count. lia.
  Qed.
End Dfs.

(* the Go traversal computes exactly Reach.used_globals, for every module *)
Theorem go_traversal_equals_reach : forall m ep,
  exists l, go_used_globals m (length (raw_calls (ep_func ep)) + call_count m + 1) (ep_func ep) = Some l /\
            forall g, In g l <-> In g (used_globals m ep).
Proof.
  intros m ep.
  destruct (go_used_globals m _ (ep_func ep)) as [l|] eqn:E.
  - exists l. split; [reflexivity|]. intros g. eapply go_used_globals_correct. exact E.
  - exfalso. exact (go_used_globals_total m (ep_func ep) E).
Qed.
