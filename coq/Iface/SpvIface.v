(* C17: the SPIR-V interface a module must have, as a function of the IR, and a
   checker that reads the real binary (Spv/Binary.v) and compares entity by entity.

   Definitions only (the proofs are in SpvIfaceProofs.v) so that the checker
   still runs when a proof breaks.

   Expected side = WGSL/Vulkan meaning of the IR bindings (Iface/SpvSpec.v):
     * every global with @group/@binding: DescriptorSet g / Binding b, once each,
       on an OpVariable of the storage class of its address space; NonWritable
       iff it is a read-only storage buffer;
     * every entry point: execution model of its stage; LocalSize = workgroup
       size (compute), OriginUpperLeft (fragment), DepthReplacing iff frag_depth
       is an output; one Input/Output variable per bound argument / result
       (IO structs flattened) carrying Location / BuiltIn / Flat / NoPerspective
       / Centroid / Sample / Invariant / Index; interface list = exactly these
       (+ PointSize under ForcePointSize, + LocalInvocationId for the workgroup
       zero-initialisation prologue) and, from SPIR-V 1.4, exactly the module
       scope variables of [used_globals], each once.
   Variables are matched by decoration content, never by id: resource and other
   module-scope variables by declaration order, interface variables as a multiset. *)
From Coq Require Import List ZArith String Bool Arith.
Import ListNotations.
Require Import Naga.IR.Syntax Naga.Spv.Binary Naga.Iface.Reach Naga.Iface.SpvSpec.
Local Open Scope string_scope.
Local Open Scope list_scope.
Local Open Scope Z_scope.

(* ------------------------------------------------------------------ *)
(* expected side                                                        *)

Inductive tri := Must | MustNot | Any.

Record io_exp := mk_io {
  io_class : Z;                 (* SC_Input / SC_Output *)
  io_loc : option Z;
  io_builtin : option Z;
  io_flat : tri;
  io_nopersp : bool;
  io_centroid : bool;
  io_sample : bool;
  io_invariant : tri;                     (* Invariant has no effect on inputs (VUID-StandaloneSpirv-Invariant-04677): Any there *)
  io_index : option Z }.

Definition stage3 (s : stage) : option st3 :=
  match s with StVertex => Some S3Vertex | StFragment => Some S3Fragment | StCompute => Some S3Compute | StOther _ => None end.

(* scalar kind of a scalar or vector type *)
Definition ty_kind (m : module) (t : nat) : option scalar_kind :=
  match nth_error (m_types m) t with
  | Some ty => match ty_inner ty with
               | TScalar s => Some (skind s)
               | TVector _ s => Some (skind s)
               | _ => None
               end
  | None => None
  end.

Definition is_int_kind (k : option scalar_kind) : bool :=
  match k with Some Sint | Some Uint => true | _ => false end.
Definition is_bool_kind (k : option scalar_kind) : bool :=
  match k with Some SBool => true | _ => false end.

(* WGSL 12.3.1.4: default interpolation is perspective/center; integer user IO must be flat *)
Definition eff_interp (k : option scalar_kind) (i : option interpolation) : interpolation :=
  match i with
  | Some i => i
  | None => if is_int_kind k || is_bool_kind k then mkinterp IK_Flat SM_Center else mkinterp IK_Perspective SM_Center
  end.

Definition binding_io (m : module) (st : st3) (is_out : bool) (t : nat) (b : binding) : option io_exp :=
  let cls := if is_out then SC_Output else SC_Input in
  let k := ty_kind m t in
  match b with
  | BBuiltin name inv =>
    match spec_builtin name st is_out with
    | None => None
    | Some bi =>
      let flat := match st, is_out with
                  | S3Fragment, false => if is_int_kind k then Must else if is_bool_kind k then Any else MustNot
                  | S3Compute, _ => Any
                  | _, _ => MustNot
                  end in
      let invt := if inv then (if is_out then Must else Any) else MustNot in
      Some (mk_io cls None (Some bi) flat false false false invt None)
    end
  | BLocation loc interp bs =>
    let interpolated := match st, is_out with S3Vertex, true | S3Fragment, false => true | _, _ => false end in
    if interpolated then
      let i := eff_interp k interp in
      let flat := if (ikind i =? IK_Flat) || is_int_kind k then Must else MustNot in
      Some (mk_io cls (Some loc) None flat (ikind i =? IK_Linear) (isampling i =? SM_Centroid) (isampling i =? SM_Sample) MustNot bs)
    else Some (mk_io cls (Some loc) None MustNot false false false MustNot bs)
  end.

Fixpoint opt_all {A} (l : list (option A)) : option (list A) :=
  match l with
  | [] => Some []
  | Some x :: l' => match opt_all l' with Some r => Some (x :: r) | None => None end
  | None :: _ => None
  end.

(* flattening of one argument / result: a direct binding, or the bound members of an IO struct *)
Definition slot_ios (m : module) (st : st3) (is_out : bool) (t : nat) (b : option binding) : option (list io_exp) :=
  match b with
  | Some b => match binding_io m st is_out t b with Some x => Some [x] | None => None end
  | None =>
    match nth_error (m_types m) t with
    | Some ty => match ty_inner ty with
                 | TStruct members _ =>
                   opt_all (flat_map (fun mb => match m_binding mb with
                                                | Some b => [binding_io m st is_out (m_type mb) b]
                                                | None => [] end) members)
                 | _ => Some []
                 end
    | None => Some []
    end
  end.

Fixpoint opt_concat {A} (l : list (option (list A))) : option (list A) :=
  match l with
  | [] => Some []
  | Some x :: l' => match opt_concat l' with Some r => Some (x ++ r) | None => None end
  | None :: _ => None
  end.

Definition input_ios (m : module) (st : st3) (f : func) : option (list io_exp) :=
  opt_concat (map (fun a => slot_ios m st false (fa_type a) (fa_binding a)) (f_args f)).

Definition output_ios (m : module) (st : st3) (f : func) : option (list io_exp) :=
  match f_result f with
  | Some r => slot_ios m st true (fr_type r) (fr_binding r)
  | None => Some []
  end.

Definition has_builtin (bi : Z) (l : list io_exp) : bool :=
  existsb (fun x => match io_builtin x with Some b => b =? bi | None => false end) l.

Definition global_space (m : module) (g : nat) : option addr_space :=
  match nth_error (m_globals m) g with Some gv => Some (g_space gv) | None => None end.

Definition uses_workgroup (m : module) (ep : entry_point) : bool :=
  existsb (fun g => match global_space m g with Some SpWorkGroup => true | _ => false end) (used_globals m ep).

(* the back end's own additions to the interface *)
Definition extra_ios (force_point_size : bool) (m : module) (ep : entry_point) (ins outs : list io_exp) : list io_exp :=
  (match ep_stage ep with
   | StVertex => if force_point_size && negb (has_builtin BI_PointSize outs)
                 then [mk_io SC_Output None (Some BI_PointSize) MustNot false false false MustNot None] else []
   | _ => []
   end) ++
  (match ep_stage ep with
   | StCompute => if uses_workgroup m ep && negb (has_builtin BI_LocalInvocationId ins)
                  then [mk_io SC_Input None (Some BI_LocalInvocationId) Any false false false MustNot None] else []
   | _ => []
   end).

Record ep_exp := mk_epx {
  xe_name : string;
  xe_model : Z;
  xe_modes : list (Z * list Z);      (* exactly these among OriginUpperLeft / DepthReplacing / LocalSize *)
  xe_ios : list io_exp;
  xe_globals : list nat }.

Definition ep_modes (ep : entry_point) (outs : list io_exp) : list (Z * list Z) :=
  match ep_stage ep with
  | StFragment => (Mode_OriginUpperLeft, []) :: (if has_builtin BI_FragDepth outs then [(Mode_DepthReplacing, [])] else [])
  | StCompute => [(Mode_LocalSize, ep_workgroup ep)]
  | _ => []
  end.

Definition ep_expected (fps : bool) (m : module) (ep : entry_point) : option ep_exp :=
  match stage3 (ep_stage ep), spec_model (ep_stage ep) with
  | Some st, Some model =>
    match input_ios m st (ep_func ep), output_ios m st (ep_func ep) with
    | Some ins, Some outs =>
      Some (mk_epx (ep_name ep) model (ep_modes ep outs) (ins ++ outs ++ extra_ios fps m ep ins outs) (used_globals m ep))
    | _, _ => None
    end
  | _, _ => None
  end.

Record gv_exp := mk_gvx {
  gx_handle : nat;
  gx_space : addr_space;
  gx_class : Z;
  gx_bind : option (Z * Z);
  gx_nonwritable : tri }.

Definition gv_expected (h : nat) (g : global_var) : option gv_exp :=
  match spec_class (g_space g) with
  | Some c =>
    Some (mk_gvx h (g_space g) c (g_binding g)
                 (match g_space g with
                  | SpStorage => if g_access g =? ACCESS_Read then Must else MustNot
                  | SpHandle => Any             (* storage textures: access is not in the shared IR syntax *)
                  | _ => MustNot
                  end))
  | None => None
  end.

Fixpoint index_from {A} (n : nat) (l : list A) : list (nat * A) :=
  match l with [] => [] | x :: l' => (n, x) :: index_from (S n) l' end.

(* globals the SPIR-V back end emits, in declaration order (task payloads are skipped) *)
Definition globals_expected (m : module) : list gv_exp :=
  flat_map (fun hg => match gv_expected (fst hg) (snd hg) with Some x => [x] | None => [] end)
           (index_from 0 (m_globals m)).

Definition compilable (ep : entry_point) : bool :=
  match ep_stage ep with StOther _ => false | _ => true end.

(* ------------------------------------------------------------------ *)
(* readers of the binary                                                *)

Definition decos_of (id : Z) (is : list instr) : list (Z * list Z) :=
  flat_map (fun i => if opcode i =? OpDecorate
                     then match operands i with
                          | t :: d :: rest => if t =? id then [(d, rest)] else []
                          | _ => []
                          end
                     else []) is.

Definition deco_vals (d : Z) (ds : list (Z * list Z)) : list (list Z) :=
  map snd (filter (fun x => fst x =? d) ds).

Definition has_deco (d : Z) (ds : list (Z * list Z)) : bool := existsb (fun x => fst x =? d) ds.

(* how a decoration with at most one operand appears: absent / once with value / malformed-or-repeated *)
Inductive deco_view := DAbsent | DOnce (v : option Z) | DBad.
Definition view_deco (d : Z) (ds : list (Z * list Z)) : deco_view :=
  match deco_vals d ds with
  | [] => DAbsent
  | [[]] => DOnce None
  | [[v]] => DOnce (Some v)
  | _ => DBad
  end.

(* module-scope variables: (id, class, pointer type), in order; Function-class ones are locals *)
Definition module_vars (is : list instr) : list (Z * Z * Z) :=
  flat_map (fun i => if opcode i =? OpVariable
                     then match operands i with
                          | t :: id :: c :: _ => if c =? SC_Function then [] else [(id, c, t)]
                          | _ => []
                          end
                     else []) is.

Definition is_io_class (c : Z) : bool := (c =? SC_Input) || (c =? SC_Output).

Definition var_class (id : Z) (vs : list (Z * Z * Z)) : option Z :=
  match find (fun v => fst (fst v) =? id) vs with Some v => Some (snd (fst v)) | None => None end.

Definition pointee (t : Z) (is : list instr) : option Z :=
  match find (fun i => (opcode i =? OpTypePointer) &&
                       match operands i with id :: _ :: _ :: _ => id =? t | _ => false end) is with
  | Some i => match operands i with _ :: _ :: p :: _ => Some p | _ => None end
  | None => None
  end.

(* literal string (SPIR-V 2.2.1): UTF-8 octets, little-endian in words, nul-terminated *)
Fixpoint split_name (ws : list Z) : list Z * list Z :=
  match ws with
  | [] => ([], [])
  | w :: r =>
    let b0 := w mod 256 in let b1 := (w / 256) mod 256 in
    let b2 := (w / 65536) mod 256 in let b3 := (w / 16777216) mod 256 in
    if b0 =? 0 then ([], r)
    else if b1 =? 0 then ([b0], r)
    else if b2 =? 0 then ([b0; b1], r)
    else if b3 =? 0 then ([b0; b1; b2], r)
    else let (bs, r') := split_name r in (b0 :: b1 :: b2 :: b3 :: bs, r')
  end.

Fixpoint string_bytes (s : string) : list Z :=
  match s with
  | EmptyString => []
  | String c r => Z.of_nat (Ascii.nat_of_ascii c) :: string_bytes r
  end.

Record ep_act := mk_epa { ea_model : Z; ea_fn : Z; ea_name : list Z; ea_iface : list Z }.

Definition entry_points_of (is : list instr) : list ep_act :=
  flat_map (fun i => if opcode i =? OpEntryPoint
                     then match operands i with
                          | mdl :: fid :: rest => let (nm, ifc) := split_name rest in [mk_epa mdl fid nm ifc]
                          | _ => []
                          end
                     else []) is.

Definition exec_modes_of (fid : Z) (is : list instr) : list (Z * list Z) :=
  flat_map (fun i => if opcode i =? OpExecutionMode
                     then match operands i with
                          | f :: md :: args => if f =? fid then [(md, args)] else []
                          | _ => []
                          end
                     else []) is.

(* ------------------------------------------------------------------ *)
(* comparison                                                           *)

Definition list_eqb (a b : list Z) : bool :=
  (List.length a =? List.length b)%nat && forallb (fun p => fst p =? snd p) (combine a b).

Definition tri_ok (t : tri) (present : bool) : bool :=
  match t with Must => present | MustNot => negb present | Any => true end.

Definition flag_ok (d : Z) (want : bool) (ds : list (Z * list Z)) : bool :=
  match view_deco d ds with
  | DAbsent => negb want
  | DOnce None => want
  | _ => false
  end.

Definition triflag_ok (d : Z) (want : tri) (ds : list (Z * list Z)) : bool :=
  match view_deco d ds with
  | DAbsent => tri_ok want false
  | DOnce None => tri_ok want true
  | _ => false
  end.

Definition value_ok (d : Z) (want : option Z) (ds : list (Z * list Z)) : bool :=
  match view_deco d ds, want with
  | DAbsent, None => true
  | DOnce (Some v), Some w => v =? w
  | _, _ => false
  end.

(* does the variable with class [c] and decorations [ds] carry exactly what [x] asks for *)
Definition io_match (x : io_exp) (c : Z) (ds : list (Z * list Z)) : bool :=
  (c =? io_class x) &&
  value_ok D_Location (io_loc x) ds &&
  value_ok D_BuiltIn (io_builtin x) ds &&
  triflag_ok D_Flat (io_flat x) ds &&
  flag_ok D_NoPerspective (io_nopersp x) ds &&
  flag_ok D_Centroid (io_centroid x) ds &&
  flag_ok D_Sample (io_sample x) ds &&
  triflag_ok D_Invariant (io_invariant x) ds &&
  value_ok D_Index (io_index x) ds &&
  negb (has_deco D_DescriptorSet ds) && negb (has_deco D_Binding ds).

(* remove the first element satisfying p *)
Fixpoint remove_first {A} (p : A -> bool) (l : list A) : option (list A) :=
  match l with
  | [] => None
  | x :: l' => if p x then Some l' else match remove_first p l' with Some r => Some (x :: r) | None => None end
  end.

(* greedy multiset matching of expected interface variables against actual (class, decorations) *)
Fixpoint match_ios (xs : list io_exp) (acts : list (Z * list (Z * list Z))) : bool :=
  match xs with
  | [] => match acts with [] => true | _ => false end
  | x :: xs' =>
    match remove_first (fun a => io_match x (fst a) (snd a)) acts with
    | Some rest => match_ios xs' rest
    | None => false
    end
  end.

Fixpoint nodupb (l : list Z) : bool :=
  match l with [] => true | x :: l' => negb (existsb (Z.eqb x) l') && nodupb l' end.

Definition subsetb (a b : list Z) : bool := forallb (fun x => existsb (Z.eqb x) b) a.
Definition seteqb (a b : list Z) : bool := subsetb a b && subsetb b a.

(* storage class (and, for buffers, Block / BufferBlock on the pointee) of a module-scope variable *)
Definition class_ok (version : Z) (x : gv_exp) (c t : Z) (is : list instr) : bool :=
  let pds := match pointee t is with Some p => decos_of p is | None => [] end in
  match gx_space x with
  | SpStorage =>
    (c =? SC_StorageBuffer) ||
    ((version <? 66304) && (c =? SC_Uniform) && has_deco D_BufferBlock pds)      (* 66304 = 0x00010300 *)
  | SpUniform => (c =? SC_Uniform) && negb (has_deco D_BufferBlock pds)
  | _ => c =? gx_class x
  end.

Definition gv_match (version : Z) (is : list instr) (x : gv_exp) (v : Z * Z * Z) : bool :=
  let '(id, c, t) := v in
  let ds := decos_of id is in
  class_ok version x c t is &&
  value_ok D_DescriptorSet (option_map fst (gx_bind x)) ds &&
  value_ok D_Binding (option_map snd (gx_bind x)) ds &&
  triflag_ok D_NonWritable (gx_nonwritable x) ds &&
  negb (has_deco D_Location ds) && negb (has_deco D_BuiltIn ds).

Record mismatch := mk_mm { mm_kind : string; mm_name : string; mm_index : Z; mm_detail : string }.

Definition report_d (ok : bool) (kind name : string) (idx : Z) (detail : string) : list mismatch :=
  if ok then [] else [mk_mm kind name idx detail].
Definition report (ok : bool) (kind name : string) (idx : Z) : list mismatch := report_d ok kind name idx "".

Local Infix "+++" := String.append (right associativity, at level 60).

(* diagnostics only (not part of any theorem): which decoration of which expected variable is wrong *)
Definition io_key_match (x : io_exp) (c : Z) (ds : list (Z * list Z)) : bool :=
  (c =? io_class x) && value_ok D_Location (io_loc x) ds && value_ok D_BuiltIn (io_builtin x) ds.

Definition io_diff (x : io_exp) (ds : list (Z * list Z)) : string :=
  (if triflag_ok D_Flat (io_flat x) ds then "" else if has_deco D_Flat ds then "Flat-unexpected " else "Flat-missing ") +++
  (if flag_ok D_NoPerspective (io_nopersp x) ds then "" else if has_deco D_NoPerspective ds then "NoPerspective-unexpected " else "NoPerspective-missing ") +++
  (if flag_ok D_Centroid (io_centroid x) ds then "" else if has_deco D_Centroid ds then "Centroid-unexpected " else "Centroid-missing ") +++
  (if flag_ok D_Sample (io_sample x) ds then "" else if has_deco D_Sample ds then "Sample-unexpected " else "Sample-missing ") +++
  (if triflag_ok D_Invariant (io_invariant x) ds then "" else if has_deco D_Invariant ds then "Invariant-unexpected " else "Invariant-missing ") +++
  (if value_ok D_Index (io_index x) ds then "" else "Index-wrong ") +++
  (if has_deco D_DescriptorSet ds || has_deco D_Binding ds then "resource-decoration-on-io " else "").

Definition io_subject (x : io_exp) : string :=
  (if io_class x =? SC_Output then "out" else "in") +++
  (match io_loc x with Some _ => "-location" | None => "" end) +++
  (match io_builtin x with Some _ => "-builtin" | None => "" end).

Fixpoint diagnose_ios (xs : list io_exp) (acts : list (Z * list (Z * list Z))) : Z * string :=
  match xs with
  | [] =>
    match acts with
    | [] => (0, "")
    | a :: _ =>
      (match view_deco D_BuiltIn (snd a), view_deco D_Location (snd a) with
       | DOnce (Some b), _ => b
       | _, DOnce (Some l) => l
       | _, _ => -1
       end,
       "extra-variable:" +++ (if fst a =? SC_Output then "out" else "in") +++
       (if has_deco D_BuiltIn (snd a) then "-builtin" else "-location"))
    end
  | x :: xs' =>
    match remove_first (fun a => io_match x (fst a) (snd a)) acts with
    | Some rest => diagnose_ios xs' rest
    | None =>
      (match io_loc x, io_builtin x with Some l, _ => l | None, Some b => b | None, None => -1 end,
       match find (fun a => io_key_match x (fst a) (snd a)) acts with
       | Some a => io_subject x +++ ":" +++ io_diff x (snd a)
       | None => io_subject x +++ ":no-variable-with-this-location-or-builtin"
       end)
    end
  end.

Fixpoint lookup_handle (h : nat) (l : list (nat * Z)) : option Z :=
  match l with [] => None | (h', id) :: l' => if Nat.eqb h h' then Some id else lookup_handle h l' end.

Definition handle_ids (gmap : list (nat * Z)) (hs : list nat) : list Z :=
  flat_map (fun h => match lookup_handle h gmap with Some id => [id] | None => [] end) hs.

Definition modes_of_interest (l : list (Z * list Z)) : list (Z * list Z) :=
  filter (fun md => (fst md =? Mode_OriginUpperLeft) || (fst md =? Mode_DepthReplacing) || (fst md =? Mode_LocalSize)) l.

Definition mode_eqb (a b : Z * list Z) : bool := (fst a =? fst b) && list_eqb (snd a) (snd b).

Fixpoint match_modes (xs acts : list (Z * list Z)) : bool :=
  match xs with
  | [] => match acts with [] => true | _ => false end
  | x :: xs' => match remove_first (mode_eqb x) acts with Some rest => match_modes xs' rest | None => false end
  end.

Definition class_of (vars : list (Z * Z * Z)) (id : Z) : Z :=
  match var_class id vars with Some c => c | None => -1 end.

Definition io_ids_of (vars : list (Z * Z * Z)) (ifc : list Z) : list Z :=
  filter (fun id => is_io_class (class_of vars id)) ifc.
Definition other_ids_of (vars : list (Z * Z * Z)) (ifc : list Z) : list Z :=
  filter (fun id => negb (is_io_class (class_of vars id))) ifc.

Definition V_1_4 : Z := 66560.       (* 0x00010400: the version word of SPIR-V 1.4 *)

(* the boolean facts about one OpEntryPoint *)
Definition ep_model_ok (x : ep_exp) (a : ep_act) : bool := ea_model a =? xe_model x.
Definition ep_vars_ok (vars : list (Z * Z * Z)) (a : ep_act) : bool :=
  forallb (fun id => match var_class id vars with Some _ => true | None => false end) (ea_iface a).
Definition ep_io_ok (is : list instr) (vars : list (Z * Z * Z)) (x : ep_exp) (a : ep_act) : bool :=
  match_ios (xe_ios x) (map (fun id => (class_of vars id, decos_of id is)) (io_ids_of vars (ea_iface a))).
Definition ep_globals_ok (version : Z) (vars : list (Z * Z * Z)) (gmap : list (nat * Z)) (x : ep_exp) (a : ep_act) : bool :=
  if V_1_4 <=? version
  then seteqb (other_ids_of vars (ea_iface a)) (handle_ids gmap (xe_globals x))
  else match other_ids_of vars (ea_iface a) with [] => true | _ => false end.
Definition ep_modes_ok (is : list instr) (x : ep_exp) (a : ep_act) : bool :=
  match_modes (xe_modes x) (modes_of_interest (exec_modes_of (ea_fn a) is)).

Definition find_eps (is : list instr) (name : string) : list ep_act :=
  filter (fun a => list_eqb (ea_name a) (string_bytes name)) (entry_points_of is).

Definition check_ep (version : Z) (is : list instr) (vars : list (Z * Z * Z)) (gmap : list (nat * Z))
           (x : ep_exp) : list mismatch :=
  match find_eps is (xe_name x) with
  | [a] =>
    report (ep_model_ok x a) "execution-model" (xe_name x) 0 ++
    report (ep_vars_ok vars a) "interface-not-a-module-variable" (xe_name x) 0 ++
    report (nodupb (ea_iface a)) "interface-duplicate" (xe_name x) 0 ++
    (let d := diagnose_ios (xe_ios x) (map (fun id => (class_of vars id, decos_of id is)) (io_ids_of vars (ea_iface a))) in
     report_d (ep_io_ok is vars x a) "interface-io" (xe_name x) (fst d) (snd d)) ++
    report (ep_globals_ok version vars gmap x a) "interface-globals" (xe_name x) 0 ++
    report (ep_modes_ok is x a) "execution-modes" (xe_name x) 0
  | [] => [mk_mm "entry-point-missing" (xe_name x) 0 ""]
  | _ => [mk_mm "entry-point-duplicate" (xe_name x) 0 ""]
  end.

Definition gv_diff (version : Z) (is : list instr) (x : gv_exp) (v : Z * Z * Z) : string :=
  let '(id, c, t) := v in
  let ds := decos_of id is in
  (if class_ok version x c t is then "" else "storage-class ") +++
  (if value_ok D_DescriptorSet (option_map fst (gx_bind x)) ds then "" else "DescriptorSet ") +++
  (if value_ok D_Binding (option_map snd (gx_bind x)) ds then "" else "Binding ") +++
  (if triflag_ok D_NonWritable (gx_nonwritable x) ds then "" else "NonWritable ") +++
  (if has_deco D_Location ds || has_deco D_BuiltIn ds then "io-decoration-on-global " else "").

Fixpoint check_globals (version : Z) (is : list instr) (xs : list gv_exp) (vs : list (Z * Z * Z)) : list mismatch :=
  match xs, vs with
  | [], [] => []
  | x :: xs', v :: vs' =>
    report_d (gv_match version is x v) "global" "" (Z.of_nat (gx_handle x)) (gv_diff version is x v) ++ check_globals version is xs' vs'
  | _, _ => [mk_mm "global-count" "" 0 ""]
  end.

Definition non_io_vars (vars : list (Z * Z * Z)) : list (Z * Z * Z) :=
  filter (fun v => negb (is_io_class (snd (fst v)))) vars.
Definition io_vars (vars : list (Z * Z * Z)) : list (Z * Z * Z) :=
  filter (fun v => is_io_class (snd (fst v))) vars.
Definition var_id (v : Z * Z * Z) : Z := fst (fst v).

Definition global_map (m : module) (vars : list (Z * Z * Z)) : list (nat * Z) :=
  combine (map gx_handle (globals_expected m)) (map var_id (non_io_vars vars)).

(* every Input/Output variable of the module is listed by exactly one entry point *)
Definition io_partition_ok (is : list instr) (vars : list (Z * Z * Z)) : bool :=
  let listed := flat_map (fun a => io_ids_of vars (ea_iface a)) (entry_points_of is) in
  nodupb listed && seteqb listed (map var_id (io_vars vars)).

Definition check_eps (fps : bool) (m : module) (version : Z) (is : list instr) (vars : list (Z * Z * Z)) : list mismatch :=
  flat_map (fun ep => match ep_expected fps m ep with
                      | Some x => check_ep version is vars (global_map m vars) x
                      | None => [mk_mm "unsupported" (ep_name ep) 0 ""]
                      end)
           (filter compilable (m_entry_points m)).

Definition check_spv_iface (fps : bool) (m : module) (bin : header * list instr) : list mismatch :=
  let (h, is) := bin in
  let vars := module_vars is in
  check_globals (version h) is (globals_expected m) (non_io_vars vars) ++
  check_eps fps m (version h) is vars ++
  report ((List.length (entry_points_of is) =? List.length (filter compilable (m_entry_points m)))%nat) "entry-point-count" "" 0 ++
  report (io_partition_ok is vars) "io-variable-not-in-exactly-one-interface" "" 0.
