(* C17: numbers and mappings transcribed from the specifications, NOT from naga.

   SPIR-V 1.6 unified specification: 3.3 Execution Model, 3.6 Execution Mode,
   3.7 Storage Class, 3.20 Decoration, 3.21 BuiltIn, 3.42 instruction opcodes.
   WGSL -> Vulkan mapping of built-in values: WGSL spec 12.3.1.1 "Built-in
   Inputs and Outputs" (name, stage, direction) together with the Vulkan
   specification 15.9 "Built-In Variables" (which BuiltIn each value is).
   Vulkan interface rules used for interpolation decorations:
   VUID-StandaloneSpirv-Flat-04744 (integer fragment inputs must be Flat),
   -Flat-06201 / -Flat-06202 (no interpolation decorations on fragment outputs
   / vertex inputs).  The tables regenerated from backend.go are compared with
   these in Iface/SpvGenTies.v. *)
From Coq Require Import List ZArith String Bool.
Import ListNotations.
Require Import Naga.IR.Syntax.
Local Open Scope Z_scope.
Local Open Scope string_scope.

(* 3.42 opcodes *)
Definition OpEntryPoint : Z := 15.
Definition OpExecutionMode : Z := 16.
Definition OpTypePointer : Z := 32.
Definition OpFunction : Z := 54.
Definition OpVariable : Z := 59.
Definition OpDecorate : Z := 71.
Definition OpMemberDecorate : Z := 72.

(* 3.7 storage classes *)
Definition SC_UniformConstant : Z := 0.
Definition SC_Input : Z := 1.
Definition SC_Uniform : Z := 2.
Definition SC_Output : Z := 3.
Definition SC_Workgroup : Z := 4.
Definition SC_Private : Z := 6.
Definition SC_Function : Z := 7.
Definition SC_PushConstant : Z := 9.
Definition SC_StorageBuffer : Z := 12.

(* 3.20 decorations *)
Definition D_Block : Z := 2.
Definition D_BufferBlock : Z := 3.
Definition D_BuiltIn : Z := 11.
Definition D_NoPerspective : Z := 13.
Definition D_Flat : Z := 14.
Definition D_Centroid : Z := 16.
Definition D_Sample : Z := 17.
Definition D_Invariant : Z := 18.
Definition D_NonWritable : Z := 24.
Definition D_NonReadable : Z := 25.
Definition D_Location : Z := 30.
Definition D_Index : Z := 32.
Definition D_Binding : Z := 33.
Definition D_DescriptorSet : Z := 34.

(* 3.3 execution models, 3.6 execution modes *)
Definition EM_Vertex : Z := 0.
Definition EM_Fragment : Z := 4.
Definition EM_GLCompute : Z := 5.
Definition Mode_OriginUpperLeft : Z := 7.
Definition Mode_DepthReplacing : Z := 12.
Definition Mode_LocalSize : Z := 17.

(* 3.21 BuiltIn *)
Definition BI_Position : Z := 0.
Definition BI_PointSize : Z := 1.
Definition BI_ClipDistance : Z := 3.
Definition BI_PrimitiveId : Z := 7.
Definition BI_FragCoord : Z := 15.
Definition BI_FrontFacing : Z := 17.
Definition BI_SampleId : Z := 18.
Definition BI_SampleMask : Z := 20.
Definition BI_FragDepth : Z := 22.
Definition BI_NumWorkgroups : Z := 24.
Definition BI_WorkgroupId : Z := 26.
Definition BI_LocalInvocationId : Z := 27.
Definition BI_GlobalInvocationId : Z := 28.
Definition BI_LocalInvocationIndex : Z := 29.
Definition BI_SubgroupSize : Z := 36.
Definition BI_NumSubgroups : Z := 38.
Definition BI_SubgroupId : Z := 40.
Definition BI_SubgroupLocalInvocationId : Z := 41.
Definition BI_VertexIndex : Z := 42.
Definition BI_InstanceIndex : Z := 43.
Definition BI_ViewIndex : Z := 4440.
Definition BI_BaryCoordKHR : Z := 5286.

(* stage -> execution model *)
Definition spec_model (s : stage) : option Z :=
  match s with
  | StVertex => Some EM_Vertex
  | StFragment => Some EM_Fragment
  | StCompute => Some EM_GLCompute
  | StOther _ => None               (* task / mesh: not supported by the SPIR-V back end *)
  end.

(* address space -> storage class of the OpVariable (Vulkan, SPIR-V >= 1.3 form;
   before 1.3 a storage buffer may also be Uniform + BufferBlock, see SpvIface.class_ok) *)
Definition spec_class (sp : addr_space) : option Z :=
  match sp with
  | SpFunction => Some SC_Function
  | SpPrivate => Some SC_Private
  | SpWorkGroup => Some SC_Workgroup
  | SpUniform => Some SC_Uniform
  | SpStorage => Some SC_StorageBuffer
  | SpPushConstant => Some SC_PushConstant
  | SpImmediate => Some SC_PushConstant     (* WGSL var<immediate> is a push constant in Vulkan *)
  | SpHandle => Some SC_UniformConstant
  | SpTaskPayload => None                   (* mesh shading: outside this check *)
  end.

(* WGSL built-in value (by the name of naga's ir.BuiltinValue constant) -> SPIR-V BuiltIn,
   by stage and direction; None = the value does not exist there *)
Inductive st3 := S3Vertex | S3Fragment | S3Compute.

Definition spec_builtin (name : string) (st : st3) (is_output : bool) : option Z :=
  match st, is_output with
  | S3Vertex, false =>
    if name =? "BuiltinVertexIndex" then Some BI_VertexIndex
    else if name =? "BuiltinInstanceIndex" then Some BI_InstanceIndex
    else if name =? "BuiltinViewIndex" then Some BI_ViewIndex
    else None
  | S3Vertex, true =>
    if name =? "BuiltinPosition" then Some BI_Position
    else if name =? "BuiltinPointSize" then Some BI_PointSize
    else if name =? "BuiltinClipDistance" then Some BI_ClipDistance
    else None
  | S3Fragment, false =>
    if name =? "BuiltinPosition" then Some BI_FragCoord
    else if name =? "BuiltinFrontFacing" then Some BI_FrontFacing
    else if name =? "BuiltinSampleIndex" then Some BI_SampleId
    else if name =? "BuiltinSampleMask" then Some BI_SampleMask
    else if name =? "BuiltinPrimitiveIndex" then Some BI_PrimitiveId
    else if name =? "BuiltinBarycentric" then Some BI_BaryCoordKHR
    else if name =? "BuiltinViewIndex" then Some BI_ViewIndex
    else if name =? "BuiltinSubgroupSize" then Some BI_SubgroupSize
    else if name =? "BuiltinSubgroupInvocationID" then Some BI_SubgroupLocalInvocationId
    else None
  | S3Fragment, true =>
    if name =? "BuiltinFragDepth" then Some BI_FragDepth
    else if name =? "BuiltinSampleMask" then Some BI_SampleMask
    else None
  | S3Compute, false =>
    if name =? "BuiltinLocalInvocationID" then Some BI_LocalInvocationId
    else if name =? "BuiltinLocalInvocationIndex" then Some BI_LocalInvocationIndex
    else if name =? "BuiltinGlobalInvocationID" then Some BI_GlobalInvocationId
    else if name =? "BuiltinWorkGroupID" then Some BI_WorkgroupId
    else if name =? "BuiltinNumWorkGroups" then Some BI_NumWorkgroups
    else if name =? "BuiltinNumSubgroups" then Some BI_NumSubgroups
    else if name =? "BuiltinSubgroupID" then Some BI_SubgroupId
    else if name =? "BuiltinSubgroupSize" then Some BI_SubgroupSize
    else if name =? "BuiltinSubgroupInvocationID" then Some BI_SubgroupLocalInvocationId
    else None
  | S3Compute, true => None
  end.

(* every (name, stage, direction) the table defines; used by the R obligations *)
Definition spec_builtin_names : list string :=
  ["BuiltinPosition"; "BuiltinVertexIndex"; "BuiltinInstanceIndex"; "BuiltinFrontFacing"; "BuiltinFragDepth";
   "BuiltinSampleIndex"; "BuiltinSampleMask"; "BuiltinLocalInvocationID"; "BuiltinLocalInvocationIndex";
   "BuiltinGlobalInvocationID"; "BuiltinWorkGroupID"; "BuiltinNumWorkGroups"; "BuiltinNumSubgroups";
   "BuiltinSubgroupID"; "BuiltinSubgroupSize"; "BuiltinSubgroupInvocationID"; "BuiltinClipDistance";
   "BuiltinPrimitiveIndex"; "BuiltinBarycentric"; "BuiltinViewIndex"].
(* BuiltinPointSize (not a WGSL built-in value; no WGSL name produces it) is in [spec_builtin] only for the
   ForcePointSize output the back end adds itself. *)

Definition all_positions : list (st3 * bool) :=
  [(S3Vertex, false); (S3Vertex, true); (S3Fragment, false); (S3Fragment, true); (S3Compute, false); (S3Compute, true)].

(* naga IR enumeration numbers the shared decoder passes through unchanged (checked against Gen/IrEnums) *)
Definition IK_Flat : Z := 0.
Definition IK_Linear : Z := 1.
Definition IK_Perspective : Z := 2.
Definition SM_Center : Z := 0.
Definition SM_Centroid : Z := 1.
Definition SM_Sample : Z := 2.
Definition ACCESS_ReadWrite : Z := 0.    (* ir.StorageReadWrite *)
Definition ACCESS_Read : Z := 1.         (* ir.StorageRead *)
