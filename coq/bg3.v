(* C07 — MSL: the emitted struct definitions, laid out by the C++ rules, against the IR layout. *)
From Coq Require Import List ZArith Bool Lia ZifyBool.
Import ListNotations.
Require Import Naga.Layout.Spec Naga.Layout.Constraints Naga.Layout.Naga Naga.Layout.Arith
  Naga.Layout.SpecProofs Naga.Layout.NagaProofs Naga.Layout.Msl.
Open Scope Z_scope.

(* struct S { @size(14) v: vec3<f32>, h: f16 }: v is followed by a gap of 2 bytes; the emitter
   declares an unpacked float3 (16 bytes), so h lands at 16 instead of 14 *)
Definition wit_msl_vec3_gap : ty :=
  TStruct [Mem None (dec 14) (TVec 3 SF32); Mem None None (TScalar SF16)].

Theorem msl_offsets_refuted :
  exists t, wf t = true /\ plain_attrs t = true /\ inner_align_inert t = true /\ fits t = true /\
            erase_leaf (cxx_layout (msl_def t)) <> erase_leaf (spec_layout t).
Proof. exists wit_msl_vec3_gap. vm_compute. repeat split; try reflexivity. discriminate. Qed.

(* ------------------------------------------------------------------------
   partial correctness: when every vec3 member is followed either by no gap
   (then it is packed) or by room for the unpacked 16-byte vector, the emitted
   definitions, laid out by the C++ rules, reproduce the WGSL placement. *)

Definition next_off (ro : list Z) (span : Z) : Z := match ro with o2 :: _ => o2 | [] => span end.

Fixpoint vec3_room (ms : list member) (offs : list Z) (span : Z) : bool :=
  match ms, offs with
  | m :: r, o :: ro =>
      (match is_vec3 (mty m) with
       | Some w => (next_off ro span =? o + 3 * w) || (o + 4 * w <=? next_off ro span)
       | None => true
       end) && vec3_room r ro span
  | _, _ => true
  end.

Fixpoint msl_tight (t : ty) : bool :=
  match t with
  | TArray e _ | TRArray e => msl_tight e
  | TStruct ms => vec3_room ms (member_offsets ms) (size_of t) &&
                  forallb (fun m => match m with Mem _ _ t' => msl_tight t' end) ms
  | _ => true
  end.

Definition finfos (fs : list (bool * ctype)) : list (Z * Z) := map (fun f => cxx_als (snd f)) fs.

Lemma round_up_1 : forall x, round_up 1 x = x.
Proof. intros. unfold round_up. rewrite Z.div_1_r. lia. Qed.

(* what the emitter's loop needs to know about each member *)
Fixpoint MF (last : Z) (ms : list member) (offs : list Z) (span : Z) : Prop :=
  match ms, offs with
  | m :: r, o :: ro =>
      let d := msl_def (mty m) in
      let ts := msl_type_size (mty m) in
      let next := next_off ro span in
      0 <= last <= o /\ 0 <= ts /\ 0 < fst (cxx_als d) /\ (fst (cxx_als d) | o) /\
      match is_vec3 (mty m) with
      | Some w => is_vec3_24 (mty m) = Some w /\ 0 < w /\ (w | o) /\ ts = 3 * w /\ d = CVec 3 w /\
                  ((next = o + 3 * w /\ MF (o + 3 * w) r ro span) \/
                   (next <> o + 3 * w /\ o + 4 * w <= next /\ MF (o + 4 * w) r ro span))
      | None => is_vec3_24 (mty m) = None /\ snd (cxx_als d) = ts /\ MF (o + ts) r ro span
      end
  | [], [] => 0 <= last <= span
  | _, _ => False
  end.

Lemma MF_le : forall ms offs last span, MF last ms offs span -> 0 <= last <= span.
Proof.
  induction ms as [|m r IH]; intros [|o ro] last span H; cbn [MF] in H; try tauto.
  destruct H as [H1 [H2 [H3 [H4 H5]]]].
  destruct (is_vec3 (mty m)) as [w|].
  - destruct H5 as [_ [Hw [_ [_ [_ [[_ Hr]|[_ [_ Hr]]]]]]]]; specialize (IH _ _ _ Hr); lia.
  - destruct H5 as [_ [_ Hr]]. specialize (IH _ _ _ Hr). lia.
Qed.

Definition defs_of (ms : list member) : list ctype := map (fun m => msl_def (mty m)) ms.

Lemma cxx_pad : forall k, cxx_als (CArr (CScalar 1) k) = (1, k * 1).
Proof. reflexivity. Qed.

Lemma fields_layout : forall ms offs last span A,
  MF last ms offs span -> span < 2 ^ 32 -> 0 < A ->
  Forall (fun m => (fst (cxx_als (msl_def (mty m))) | A) /\
                   match is_vec3 (mty m) with Some w => (w | A) | None => True end) ms ->
  let fs := msl_fields last ms offs span (defs_of ms) in
  real_only fs (offsets_from last (finfos fs)) = offs /\
  end_from last (finfos fs) = span /\
  map erase_leaf (real_only fs (map (fun f => cxx_layout (snd f)) fs)) =
    map (fun m => erase_leaf (cxx_layout (msl_def (mty m)))) ms /\
  Forall (fun i => 0 < fst i /\ (fst i | A)) (finfos fs).
Proof.
  induction ms as [|m r IH]; intros [|o ro] last span A HM Hsp HA HF; cbn [MF] in HM; try tauto.
  - (* end of the structure: trailing pad *)
    cbn [msl_fields defs_of map]. destruct (last <? span) eqn:L.
    + cbn [finfos map snd]. rewrite cxx_pad. cbn [offsets_from end_from real_only map fst snd].
      rewrite round_up_1, u32_small by lia. repeat split; auto; try lia.
      constructor; [|constructor]. cbn [fst]. split; [lia|apply Z.divide_1_l].
    + cbn [finfos map offsets_from end_from real_only]. repeat split; auto. lia.
  - destruct HM as [Hl [Hts [Hca [Hdiv Hk]]]].
    inversion HF as [|x y [HdA HwA] HFr]; subst x y.
    cbn [defs_of map]. fold (defs_of r). cbn [msl_fields]. fold (next_off ro span).
    set (d := msl_def (mty m)) in *. set (ts := msl_type_size (mty m)) in *.
    set (next := next_off ro span) in *.
    assert (Ho : o <= span).
    { destruct (is_vec3 (mty m)).
      - destruct Hk as [_ [Hw [_ [_ [_ [[_ Hr]|[_ [_ Hr]]]]]]]]; pose proof (MF_le _ _ _ _ Hr); lia.
      - destruct Hk as [_ [_ Hr]]. pose proof (MF_le _ _ _ _ Hr). lia. }
    (* the pad in front of the member brings the C++ cursor from last to o *)
    assert (Hpad : forall (field : ctype) rest cs ca,
      cxx_als field = (ca, cs) -> 0 < ca -> (ca | o) ->
      let fs := (if last <? o then [(true, CArr (CScalar 1) (u32 (o - last)))] else []) ++ (false, field) :: rest in
      real_only fs (offsets_from last (finfos fs)) = o :: real_only rest (offsets_from (o + cs) (finfos rest)) /\
      end_from last (finfos fs) = end_from (o + cs) (finfos rest) /\
      real_only fs (map (fun f => cxx_layout (snd f)) fs) =
        cxx_layout field :: real_only rest (map (fun f => cxx_layout (snd f)) rest)).
    { intros field rest cs ca Ef Hcap Hcad. destruct (last <? o) eqn:L; cbn [app].
      - cbn [finfos map snd]. rewrite cxx_pad, Ef. fold (finfos rest).
        cbn [offsets_from end_from real_only map snd].
        rewrite round_up_1. rewrite u32_small by lia.
        replace (last + (o - last) * 1) with o by lia.
        rewrite (round_up_id ca o) by auto. auto.
      - assert (last = o) by lia. subst last.
        cbn [finfos map snd]. rewrite Ef. fold (finfos rest).
        cbn [offsets_from end_from real_only map snd].
        rewrite (round_up_id ca o) by auto. auto. }
    assert (Hspan_r : forall l, MF l r ro span -> l <= span) by (intros l Hl'; apply (MF_le _ _ _ _ Hl')).
    destruct (is_vec3 (mty m)) as [w|] eqn:Ev.
    + destruct Hk as [E24 [Hw [Hwo [Hts3 [Ed Hcase]]]]]. rewrite E24.
      destruct Hcase as [[Hn Hr]|[Hn [Hroom Hr]]].
      * (* tight: packed vector *)
        assert (Enext : (next =? u32 (o + ts)) = true).
        { rewrite u32_small; [lia|]. specialize (Hspan_r _ Hr). lia. }
        rewrite Enext. rewrite (u32_small (o + ts)) by (specialize (Hspan_r _ Hr); lia).
        rewrite Hts3.
        destruct (IH ro (o + 3 * w) span A Hr Hsp HA HFr) as [I1 [I2 [I3 I4]]].
        destruct (Hpad (CPacked 3 w) (msl_fields (o + 3 * w) r ro span (defs_of r)) (3 * w) w eq_refl Hw Hwo)
          as [P1 [P2 P3]].
        split; [rewrite P1, I1; reflexivity|]. split; [rewrite P2; exact I2|].
        split.
        { rewrite P3. cbn [map]. rewrite I3. Show.
