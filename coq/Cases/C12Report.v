(* C12 — diagnostic evaluation of the regenerated tables (not an obligation):
   names the fields / sites that make an obligation of State/GenObligations.v false.
   Compiled stand-alone by checks/c12.py; its output is parsed. *)
From Coq Require Import List String.
Require Import Naga.State.Tie Naga.Gen.BackendState Naga.Gen.MapWalks Naga.Gen.CloneRegions.
Definition report (tag : string) (xs : list string) := (tag, xs).
Eval vm_compute in report "unreset:Backend" (unreset_fields backend_fields backend_acts backend_cfg backend_scratch).
Eval vm_compute in report "unreset:ModuleBuilder" (unreset_fields modulebuilder_fields modulebuilder_acts modulebuilder_cfg modulebuilder_scratch).
Eval vm_compute in report "cfgwrite:Backend" (config_writes backend_cfg backend_written).
Eval vm_compute in report "cfgwrite:ModuleBuilder" (config_writes modulebuilder_cfg modulebuilder_written).
Eval vm_compute in report "global" (unreviewed written_globals global_allow nil).
Eval vm_compute in report "irwrite" (unreviewed irwrite_sites irwrite_allow nil).
Eval vm_compute in report "mapwalk" (unreviewed (class_c_sites map_walk_sites) mapwalk_allow nil).
Eval vm_compute in report "first_stmt" (compile_first_stmt :: nil).
Eval vm_compute in report "cloneshare:msl" (clone_shared_written msl_clone_copied msl_clone_writes msl_clone_known).
Eval vm_compute in report "cloneshare:ir" (clone_shared_written ir_clone_copied ir_clone_writes ir_clone_known).
