(* Float -> integer conversion helpers naga_f2i32 / naga_f2u32 (C04/C15): clamp to the largest binary32 values that
   fit, then static_cast.  Proved here on the bit level through Flocq's structural comparison: for EVERY input
   (NaN, infinities, subnormals included) the clamped value converts without undefined behaviour, and the result is
   the WGSL value whenever the input is below 2^31 (resp. 2^32).  At and above that bound WGSL saturates to
   INT_MAX / UINT_MAX while the helper yields 2147483520 / 4294967040: see the _refuted lemmas in CatalogueProofs.v. *)
From Coq Require Import ZArith Bool List Lia.
From Flocq Require Import Core.Zaux Core.Digits Core.Raux IEEE754.BinarySingleNaN IEEE754.Bits.
Require Flocq.IEEE754.Binary.
Require Import Naga.Base.Bits32 Naga.Base.F32.
Open Scope Z_scope.

Definition F_LO : Z := 3472883712.      (* -2^31 = bits of -2147483648.0 *)
Definition F_HI : Z := 1325400063.      (* 2147483520.0, the largest binary32 below 2^31 *)

Lemma sf_lo : B2SF (of_bits F_LO) = SpecFloat.S754_finite true 8388608 8. Proof. vm_compute. reflexivity. Qed.
Lemma sf_hi : B2SF (of_bits F_HI) = SpecFloat.S754_finite false 16777215 7. Proof. vm_compute. reflexivity. Qed.

(* mantissa bounds from Flocq's [bounded] *)
Lemma bounded_mantissa m e : SpecFloat.bounded 24 128 m e = true ->
  Z.pos m < 16777216 /\ (-149 < e -> 8388608 <= Z.pos m) /\ -149 <= e <= 104.
Proof.
  unfold SpecFloat.bounded, SpecFloat.canonical_mantissa, SpecFloat.fexp, SpecFloat.emin. intros H.
  apply andb_prop in H. destruct H as [H1 H2]. apply Zeq_bool_eq in H1. apply Z.leb_le in H2.
  rewrite Zpos_digits2_pos in H1.
  pose proof (Zdigits_correct radix2 (Z.pos m)) as D. cbn [Z.abs] in D.
  set (d := Zdigits radix2 (Z.pos m)) in *.
  assert (Dpos : 0 < d) by (apply Zdigits_gt_0; discriminate).
  change (radix2 ^ (d - 1)) with (2 ^ (d - 1)) in D. change (radix2 ^ d) with (2 ^ d) in D.
  assert (d <= 24) by lia.
  split; [|split].
  - apply Z.lt_le_trans with (2 ^ d); [lia|]. change 16777216 with (2 ^ 24). apply Z.pow_le_mono_r; lia.
  - intros He. assert (d = 24) by lia. subst d. rewrite H0 in D. change (2 ^ (24 - 1)) with 8388608 in D. lia.
  - lia.
Qed.

Lemma pow2_range e k : 0 <= e <= k -> 1 <= 2 ^ e <= 2 ^ k.
Proof. intros H. split; [pose proof (Z.pow_pos_nonneg 2 e); lia|]. apply Z.pow_le_mono_r; lia. Qed.

Definition trunc_of (s : bool) (m : positive) (e : Z) : Z :=
  cond_Zopp s (if 0 <=? e then Z.pos m * 2 ^ e else Z.pos m / 2 ^ (- e)).

Lemma trunc_abs_small m e : Z.pos m < 16777216 -> e < 0 -> 0 <= Z.pos m / 2 ^ (- e) < 16777216.
Proof.
  intros Hm He. assert (0 < 2 ^ (- e)) by (apply Z.pow_pos_nonneg; lia). split.
  - apply Z.div_pos; lia.
  - apply Z.le_lt_trans with (Z.pos m); [|lia]. apply Z.div_le_upper_bound; [lia|]. nia.
Qed.

(* ---- naga_f2i32's clamp: the clamped value always converts, into [-2^31, 2147483520] ---- *)
Definition fclamp_i32 (a : Z) : Z := fmin (fmax a F_LO) F_HI.

Lemma z_trunc_lo : z_of_f32_trunc F_LO = Some (-2147483648). Proof. vm_compute. reflexivity. Qed.
Lemma z_trunc_hi : z_of_f32_trunc F_HI = Some 2147483520. Proof. vm_compute. reflexivity. Qed.
Lemma nan_lo : is_nan_bits F_LO = false. Proof. vm_compute. reflexivity. Qed.
Lemma nan_hi : is_nan_bits F_HI = false. Proof. vm_compute. reflexivity. Qed.
Lemma hi_lt_lo : flt F_HI F_LO = false. Proof. vm_compute. reflexivity. Qed.

Lemma clamp_i32_cases a :
  (fclamp_i32 a = F_LO /\ (is_nan_bits a = true \/ flt a F_LO = true)) \/
  (fclamp_i32 a = F_HI /\ is_nan_bits a = false /\ flt F_HI a = true) \/
  (fclamp_i32 a = a /\ is_nan_bits a = false /\ flt a F_LO = false /\ flt F_HI a = false).
Proof.
  unfold fclamp_i32, fmax, fmin. rewrite nan_lo, nan_hi.
  destruct (is_nan_bits a) eqn:Na.
  - rewrite nan_lo, hi_lt_lo. left. split; [reflexivity|left; reflexivity].
  - destruct (flt a F_LO) eqn:L1.
    + rewrite nan_lo, hi_lt_lo. left. split; [reflexivity|right; reflexivity].
    + rewrite Na. destruct (flt F_HI a) eqn:L2; [right; left; repeat split; assumption|]. right. right. repeat split; assumption.
Qed.

Lemma z_trunc_in_range a : is_nan_bits a = false -> flt a F_LO = false -> flt F_HI a = false ->
  exists z, z_of_f32_trunc a = Some z /\ -2147483648 <= z <= 2147483520.
Proof.
  unfold is_nan_bits, flt, z_of_f32_trunc, Bltb. rewrite sf_lo, sf_hi.
  destruct (of_bits a) as [s | s | | s m e Hb]; cbn [B2SF]; intros Hn H1 H2.
  - exists 0. split; [reflexivity|lia].
  - destruct s; cbn in H1, H2; discriminate.
  - discriminate.
  - destruct (bounded_mantissa m e Hb) as (Hm & Hnorm & He).
    eexists. split; [reflexivity|].
    unfold SpecFloat.SFltb, SpecFloat.SFcompare in H1, H2.
    destruct s; cbn [cond_Zopp].
    + (* negative: not (a < -2^31): e <= 8, and m <= 2^23 when e = 8 *)
      clear H2. destruct (Z.compare_spec e 8) as [E|E|E]; try discriminate.
      * subst e. change (0 <=? 8) with true. cbv iota.
        destruct (Pos.compare_cont Eq m 8388608) eqn:C; cbn in H1; try discriminate.
        -- apply Pos.compare_eq in C. subst m. change (2 ^ 8) with 256. lia.
        -- change (Pos.compare_cont Eq m 8388608) with (Pos.compare m 8388608) in C. rewrite Pos.compare_lt_iff in C. change (2 ^ 8) with 256. lia.
      * destruct (Z.leb_spec 0 e).
        -- pose proof (pow2_range e 7 ltac:(lia)) as P. change (2 ^ 7) with 128 in P. nia.
        -- pose proof (trunc_abs_small m e Hm ltac:(lia)). lia.
    + (* positive: not (HI < a): e <= 7 *)
      clear H1. destruct (Z.compare_spec 7 e) as [E|E|E]; try discriminate.
      * subst e. change (0 <=? 7) with true. cbv iota. change (2 ^ 7) with 128. lia.
      * destruct (Z.leb_spec 0 e).
        -- pose proof (pow2_range e 6 ltac:(lia)) as P. change (2 ^ 6) with 64 in P. nia.
        -- pose proof (trunc_abs_small m e Hm ltac:(lia)). lia.
Qed.

Theorem clamp_i32_converts : forall a, exists z,
  z_of_f32_trunc (fclamp_i32 a) = Some z /\ -2147483648 <= z <= 2147483520.
Proof.
  intros a. destruct (clamp_i32_cases a) as [[E _]|[[E _]|(E & Hn & H1 & H2)]]; rewrite E.
  - exists (-2147483648). split; [exact z_trunc_lo|lia].
  - exists 2147483520. split; [exact z_trunc_hi|lia].
  - exact (z_trunc_in_range a Hn H1 H2).
Qed.

(* below the range: the WGSL value saturates to INT_MIN, which is what converting the clamped -2^31 gives *)
Lemma below_lo_saturates a : is_nan_bits a = false -> flt a F_LO = true -> i32_of_f32 a = 2147483648.
Proof.
  unfold is_nan_bits, flt, i32_of_f32, z_of_f32_trunc, Bltb. rewrite sf_lo.
  destruct (of_bits a) as [s | s | | s m e Hb]; cbn [B2SF]; intros Hn H1.
  - cbn in H1. discriminate.
  - destruct s; [reflexivity|cbn in H1; discriminate].
  - discriminate.
  - destruct (bounded_mantissa m e Hb) as (Hm & Hnorm & He).
    unfold SpecFloat.SFltb, SpecFloat.SFcompare in H1.
    destruct s; [|cbn in H1; discriminate]. cbn [cond_Zopp].
    assert (Z : 2147483648 <= (if 0 <=? e then Z.pos m * 2 ^ e else Z.pos m / 2 ^ (- e))).
    { destruct (Z.compare_spec e 8) as [E|E|E]; try discriminate.
      - subst e. change (0 <=? 8) with true. cbv iota. change (2 ^ 8) with 256.
        destruct (Pos.compare_cont Eq m 8388608) eqn:C; cbn in H1; try discriminate.
        change (Pos.compare_cont Eq m 8388608) with (Pos.compare m 8388608) in C. rewrite Pos.compare_gt_iff in C. lia.
      - destruct (Z.leb_spec 0 e); [|lia].
        specialize (Hnorm ltac:(lia)).
        assert (2 ^ 9 <= 2 ^ e) by (apply Z.pow_le_mono_r; lia). change (2 ^ 9) with 512 in *. nia. }
    set (t := if 0 <=? e then Z.pos m * 2 ^ e else Z.pos m / 2 ^ (- e)) in *.
    rewrite Z.min_r by lia. rewrite Z.max_l by lia. reflexivity.
Qed.

Lemma in_range_value a z : is_nan_bits a = false -> z_of_f32_trunc a = Some z -> -2147483648 <= z <= 2147483647 ->
  i32_of_f32 a = z mod 4294967296.
Proof.
  unfold is_nan_bits, i32_of_f32. intros Hn Hz Hr.
  destruct (of_bits a) as [s | s | | s m e Hb] eqn:Ea; try discriminate.
  - rewrite Hz. rewrite Z.min_r by lia. rewrite Z.max_r by lia. reflexivity.
  - unfold z_of_f32_trunc in Hz. rewrite Ea in Hz. discriminate.
  - rewrite Hz. rewrite Z.min_r by lia. rewrite Z.max_r by lia. reflexivity.
Qed.

(* ---- naga_f2u32: clamp to [0.0, 4294967040.0] ---- *)
Definition F_UHI : Z := 1333788671.     (* 4294967040.0, the largest binary32 below 2^32 *)
Lemma sf_zero : B2SF (of_bits 0) = SpecFloat.S754_zero false. Proof. vm_compute. reflexivity. Qed.
Lemma sf_uhi : B2SF (of_bits F_UHI) = SpecFloat.S754_finite false 16777215 8. Proof. vm_compute. reflexivity. Qed.
Definition fclamp_u32 (a : Z) : Z := fmin (fmax a 0) F_UHI.
Lemma z_trunc_zero : z_of_f32_trunc 0 = Some 0. Proof. vm_compute. reflexivity. Qed.
Lemma z_trunc_uhi : z_of_f32_trunc F_UHI = Some 4294967040. Proof. vm_compute. reflexivity. Qed.
Lemma nan_zero : is_nan_bits 0 = false. Proof. vm_compute. reflexivity. Qed.
Lemma nan_uhi : is_nan_bits F_UHI = false. Proof. vm_compute. reflexivity. Qed.
Lemma uhi_lt_zero : flt F_UHI 0 = false. Proof. vm_compute. reflexivity. Qed.

Lemma clamp_u32f_cases a :
  (fclamp_u32 a = 0 /\ (is_nan_bits a = true \/ flt a 0 = true)) \/
  (fclamp_u32 a = F_UHI /\ is_nan_bits a = false /\ flt F_UHI a = true) \/
  (fclamp_u32 a = a /\ is_nan_bits a = false /\ flt a 0 = false /\ flt F_UHI a = false).
Proof.
  unfold fclamp_u32, fmax, fmin. rewrite nan_zero, nan_uhi.
  destruct (is_nan_bits a) eqn:Na.
  - rewrite nan_zero, uhi_lt_zero. left. split; [reflexivity|left; reflexivity].
  - destruct (flt a 0) eqn:L1.
    + rewrite nan_zero, uhi_lt_zero. left. split; [reflexivity|right; reflexivity].
    + rewrite Na. destruct (flt F_UHI a) eqn:L2; [right; left; repeat split; assumption|]. right. right. repeat split; assumption.
Qed.

Lemma z_trunc_in_urange a : is_nan_bits a = false -> flt a 0 = false -> flt F_UHI a = false ->
  exists z, z_of_f32_trunc a = Some z /\ 0 <= z <= 4294967040.
Proof.
  unfold is_nan_bits, flt, z_of_f32_trunc, Bltb. rewrite sf_zero, sf_uhi.
  destruct (of_bits a) as [s | s | | s m e Hb]; cbn [B2SF]; intros Hn H1 H2.
  - exists 0. split; [reflexivity|lia].
  - destruct s; cbn in H1, H2; discriminate.
  - discriminate.
  - destruct (bounded_mantissa m e Hb) as (Hm & Hnorm & He).
    eexists. split; [reflexivity|].
    unfold SpecFloat.SFltb, SpecFloat.SFcompare in H1, H2.
    destruct s; [cbn in H1; discriminate|]. cbn [cond_Zopp]. clear H1.
    destruct (Z.compare_spec 8 e) as [E|E|E]; try discriminate.
    + subst e. change (0 <=? 8) with true. cbv iota. change (2 ^ 8) with 256. lia.
    + destruct (Z.leb_spec 0 e).
      * pose proof (pow2_range e 7 ltac:(lia)) as P. change (2 ^ 7) with 128 in P. nia.
      * pose proof (trunc_abs_small m e Hm ltac:(lia)). lia.
Qed.

Theorem clamp_u32f_converts : forall a, exists z,
  z_of_f32_trunc (fclamp_u32 a) = Some z /\ 0 <= z <= 4294967040.
Proof.
  intros a. destruct (clamp_u32f_cases a) as [[E _]|[[E _]|(E & Hn & H1 & H2)]]; rewrite E.
  - exists 0. split; [exact z_trunc_zero|lia].
  - exists 4294967040. split; [exact z_trunc_uhi|lia].
  - exact (z_trunc_in_urange a Hn H1 H2).
Qed.

Lemma nan_u32_zero a : is_nan_bits a = true -> u32_of_f32 a = 0.
Proof. unfold is_nan_bits, u32_of_f32. destruct (of_bits a); try discriminate. reflexivity. Qed.

Lemma below_zero_saturates a : is_nan_bits a = false -> flt a 0 = true -> u32_of_f32 a = 0.
Proof.
  unfold is_nan_bits, flt, u32_of_f32, z_of_f32_trunc, Bltb. rewrite sf_zero.
  destruct (of_bits a) as [s | s | | s m e Hb]; cbn [B2SF]; intros Hn H1.
  - cbn in H1. discriminate.
  - destruct s; [reflexivity|cbn in H1; discriminate].
  - discriminate.
  - destruct s; [|cbn in H1; discriminate]. cbn [cond_Zopp].
    assert (Z : 0 <= (if 0 <=? e then Z.pos m * 2 ^ e else Z.pos m / 2 ^ (- e))).
    { destruct (Z.leb_spec 0 e).
      - pose proof (Z.pow_nonneg 2 e ltac:(lia)). nia.
      - apply Z.div_pos; [lia|]. apply Z.pow_pos_nonneg; lia. }
    set (t := if 0 <=? e then Z.pos m * 2 ^ e else Z.pos m / 2 ^ (- e)) in *. lia.
Qed.

Lemma in_urange_value a z : is_nan_bits a = false -> z_of_f32_trunc a = Some z -> 0 <= z <= 4294967295 ->
  u32_of_f32 a = z.
Proof.
  unfold is_nan_bits, u32_of_f32. intros Hn Hz Hr.
  destruct (of_bits a) as [s | s | | s m e Hb] eqn:Ea; try discriminate.
  - rewrite Hz. lia.
  - unfold z_of_f32_trunc in Hz. rewrite Ea in Hz. discriminate.
  - rewrite Hz. lia.
Qed.
