(* Abstract syntax of the subset of Metal Shading Language that naga's MSL
   backend emits (C04).  Produced by the reader lib/mslread.py (JSON) and
   decoded by Msl/Decode.v; the same syntax is used for the operator
   catalogue (Msl/Catalogue.v) and for the regenerated table Gen/MslOpTable.v. *)
From Coq Require Import List ZArith String Bool.
Import ListNotations.
Open Scope Z_scope.

Inductive sty := SInt | SUint | SFloat | SBool | SChar.

Inductive ty :=
| TyS (s : sty)
| TyV (n : nat) (s : sty) (packed : bool)        (* metal::float3 / metal::packed_float3 *)
| TyM (cols rows : nat)                          (* metal::floatCxR, column-major *)
| TyA (t : ty) (n : nat)                         (* T name[n] *)
| TyN (name : string)                            (* struct or typedef name *)
| TyAtomic (s : sty).

Inductive unop := UNeg | UNot | UBitNot.

Inductive binop :=
| BAdd | BSub | BMul | BDiv | BMod
| BEq | BNe | BLt | BLe | BGt | BGe
| BAnd | BOr | BXor | BLAnd | BLOr | BShl | BShr.

Inductive expr :=
| EInt (z : Z)                  (* literal of type int *)
| EUint (z : Z)                 (* literal with u suffix *)
| EFloat (bits : Z)             (* float literal, as binary32 bit pattern *)
| EBool (b : bool)
| EVar (x : string)
| EUn (o : unop) (e : expr)
| EBin (o : binop) (l r : expr)
| ECond (c a b : expr)
| ECast (t : ty) (e : expr)      (* static_cast<T>(e), T(e) for scalar T *)
| EAsType (t : ty) (e : expr)    (* as_type<T>(e) *)
| ECtor (t : ty) (args : list expr)   (* T(args) / T {args} *)
| EZero                          (* bare {} *)
| EDC                            (* DefaultConstructible() *)
| EMember (e : expr) (m : string)
| EIndex (e i : expr)
| ECall (f : string) (args : list expr)
| EAddr (e : expr).

Inductive stmt :=
| SDecl (t : ty) (x : string) (init : option expr)
| SAssign (op : option binop) (lhs rhs : expr)     (* None: plain =, Some o: compound o= *)
| SIf (c : expr) (th el : list stmt)
| SWhile (body : list stmt)                         (* while(true) *)
| SSwitch (e : expr) (cases : list (list (option expr) * list stmt))   (* label None = default *)
| SBreak | SContinue
| SReturn (e : option expr)
| SBlock (b : list stmt)
| SExpr (e : expr)
| SBarrier.

Inductive pattr := ANone | ABuffer (slot : Z) | ABuiltin (name : string).

Record param := mkparam { pa_name : string; pa_ty : ty; pa_ref : bool; pa_space : string; pa_attr : pattr }.

Record fdef := mkfdef { fd_name : string; fd_ret : option ty; fd_params : list param; fd_body : list stmt; fd_kernel : bool }.

Record sdef := mksdef { sd_name : string; sd_members : list (string * ty) }.

Record prog := mkprog {
  p_structs : list sdef;
  p_typedefs : list (string * ty);
  p_consts : list (string * ty * expr);
  p_funcs : list fdef }.

(* ---- decidable equality (used by the regenerated-table obligation) ---- *)
Definition sty_eqb (a b : sty) : bool :=
  match a, b with SInt, SInt | SUint, SUint | SFloat, SFloat | SBool, SBool | SChar, SChar => true | _, _ => false end.

Fixpoint ty_eqb (a b : ty) : bool :=
  match a, b with
  | TyS x, TyS y => sty_eqb x y
  | TyV n x p, TyV m y q => Nat.eqb n m && sty_eqb x y && Bool.eqb p q
  | TyM c r, TyM c' r' => Nat.eqb c c' && Nat.eqb r r'
  | TyA t n, TyA t' n' => ty_eqb t t' && Nat.eqb n n'
  | TyN x, TyN y => String.eqb x y
  | TyAtomic x, TyAtomic y => sty_eqb x y
  | _, _ => false
  end.

Definition unop_eqb (a b : unop) : bool :=
  match a, b with UNeg, UNeg | UNot, UNot | UBitNot, UBitNot => true | _, _ => false end.

Definition binop_tag (o : binop) : nat :=
  match o with
  | BAdd => 0 | BSub => 1 | BMul => 2 | BDiv => 3 | BMod => 4 | BEq => 5 | BNe => 6 | BLt => 7 | BLe => 8
  | BGt => 9 | BGe => 10 | BAnd => 11 | BOr => 12 | BXor => 13 | BLAnd => 14 | BLOr => 15 | BShl => 16 | BShr => 17
  end%nat.
Definition binop_eqb (a b : binop) : bool := Nat.eqb (binop_tag a) (binop_tag b).

Fixpoint expr_eqb (a b : expr) {struct a} : bool :=
  let fix list_eqb (l1 l2 : list expr) {struct l1} : bool :=
      match l1, l2 with
      | [], [] => true
      | x :: l1', y :: l2' => expr_eqb x y && list_eqb l1' l2'
      | _, _ => false
      end in
  match a, b with
  | EInt x, EInt y | EUint x, EUint y | EFloat x, EFloat y => x =? y
  | EBool x, EBool y => Bool.eqb x y
  | EVar x, EVar y => String.eqb x y
  | EUn o e, EUn o' e' => unop_eqb o o' && expr_eqb e e'
  | EBin o l r, EBin o' l' r' => binop_eqb o o' && expr_eqb l l' && expr_eqb r r'
  | ECond c x y, ECond c' x' y' => expr_eqb c c' && expr_eqb x x' && expr_eqb y y'
  | ECast t e, ECast t' e' | EAsType t e, EAsType t' e' => ty_eqb t t' && expr_eqb e e'
  | ECtor t l, ECtor t' l' => ty_eqb t t' && list_eqb l l'
  | EZero, EZero | EDC, EDC => true
  | EMember e m, EMember e' m' => expr_eqb e e' && String.eqb m m'
  | EIndex e i, EIndex e' i' => expr_eqb e e' && expr_eqb i i'
  | ECall f l, ECall f' l' => String.eqb f f' && list_eqb l l'
  | EAddr e, EAddr e' => expr_eqb e e'
  | _, _ => false
  end.

Definition opt_eqb {A} (f : A -> A -> bool) (a b : option A) : bool :=
  match a, b with Some x, Some y => f x y | None, None => true | _, _ => false end.

Fixpoint list_eqb {A} (f : A -> A -> bool) (l1 l2 : list A) : bool :=
  match l1, l2 with
  | [], [] => true
  | x :: l1', y :: l2' => f x y && list_eqb f l1' l2'
  | _, _ => false
  end.

Fixpoint stmt_eqb (a b : stmt) {struct a} : bool :=
  let fix block_eqb (l1 l2 : list stmt) {struct l1} : bool :=
      match l1, l2 with
      | [], [] => true
      | x :: l1', y :: l2' => stmt_eqb x y && block_eqb l1' l2'
      | _, _ => false
      end in
  match a, b with
  | SDecl t x i, SDecl t' x' i' => ty_eqb t t' && String.eqb x x' && opt_eqb expr_eqb i i'
  | SAssign o l r, SAssign o' l' r' => opt_eqb binop_eqb o o' && expr_eqb l l' && expr_eqb r r'
  | SIf c t e, SIf c' t' e' => expr_eqb c c' && block_eqb t t' && block_eqb e e'
  | SWhile b1, SWhile b2 => block_eqb b1 b2
  | SSwitch e cs, SSwitch e' cs' =>
    expr_eqb e e' &&
    (fix cases_eqb (c1 c2 : list (list (option expr) * list stmt)) {struct c1} : bool :=
       match c1, c2 with
       | [], [] => true
       | (l1, b1) :: r1, (l2, b2) :: r2 => list_eqb (opt_eqb expr_eqb) l1 l2 && block_eqb b1 b2 && cases_eqb r1 r2
       | _, _ => false
       end) cs cs'
  | SBreak, SBreak | SContinue, SContinue | SBarrier, SBarrier => true
  | SReturn e, SReturn e' => opt_eqb expr_eqb e e'
  | SBlock b1, SBlock b2 => block_eqb b1 b2
  | SExpr e, SExpr e' => expr_eqb e e'
  | _, _ => false
  end.

Definition pattr_eqb (a b : pattr) : bool :=
  match a, b with
  | ANone, ANone => true
  | ABuffer x, ABuffer y => x =? y
  | ABuiltin x, ABuiltin y => String.eqb x y
  | _, _ => false
  end.

Definition param_eqb (a b : param) : bool :=
  String.eqb (pa_name a) (pa_name b) && ty_eqb (pa_ty a) (pa_ty b) && Bool.eqb (pa_ref a) (pa_ref b)
  && String.eqb (pa_space a) (pa_space b) && pattr_eqb (pa_attr a) (pa_attr b).

Definition fdef_eqb (a b : fdef) : bool :=
  String.eqb (fd_name a) (fd_name b) && opt_eqb ty_eqb (fd_ret a) (fd_ret b)
  && list_eqb param_eqb (fd_params a) (fd_params b) && list_eqb stmt_eqb (fd_body a) (fd_body b)
  && Bool.eqb (fd_kernel a) (fd_kernel b).
