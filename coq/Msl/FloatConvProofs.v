(* naga_f2i32 / naga_f2u32 evaluated from their bodies under Msl/Sem.v: total on all inputs, correct below the
   saturation bound. *)
From Coq Require Import List ZArith String Bool Lia.
Import ListNotations.
Require Import Naga.Base.Bits32 Naga.Base.F32 Naga.IR.Values Naga.Msl.Syntax Naga.Msl.Ops Naga.Msl.Sem Naga.Msl.Catalogue
               Naga.Msl.CatalogueProofs Naga.Msl.FloatConv.
Open Scope string_scope.
Open Scope Z_scope.

Lemma f2i32_eval a : run1 [h_f2i32 1] (t_call1 "naga_f2i32") (VF32 a) =
  match z_of_f32_trunc (fclamp_i32 a) with
  | Some z => if in_i32 z then Done (VI32 (wrap z)) else Fail "UB: float to int conversion out of range"
  | None => Fail "UB: float to int conversion out of range"
  end.
Proof. ev. reflexivity. Qed.

Lemma f2u32_eval a : run1 [h_f2u32 1] (t_call1 "naga_f2u32") (VF32 a) =
  match z_of_f32_trunc (fclamp_u32 a) with
  | Some z => if in32b z then Done (VU32 z) else Fail "UB: float to uint conversion out of range"
  | None => Fail "UB: float to uint conversion out of range"
  end.
Proof. ev. reflexivity. Qed.

Lemma in_i32_true z : -2147483648 <= z <= 2147483647 -> in_i32 z = true.
Proof. intros H. unfold in_i32, H32. destruct (Z.leb_spec (Z.opp 2147483648) z); destruct (Z.ltb_spec z 2147483648); try lia; reflexivity. Qed.
Lemma in32b_true z : 0 <= z <= 4294967295 -> in32b z = true.
Proof. intros H. unfold in32b, M32. destruct (Z.leb_spec 0 z); destruct (Z.ltb_spec z 4294967296); try lia; reflexivity. Qed.

(* never undefined behaviour, whatever the float (C15) *)
Theorem msl_conv_f32_i32_total : forall a, exists v, in32 v /\
  run1 [h_f2i32 1] (t_call1 "naga_f2i32") (VF32 a) = Done (VI32 v).
Proof.
  intros a. rewrite f2i32_eval. destruct (clamp_i32_converts a) as (z & Hz & Hr). rewrite Hz.
  rewrite in_i32_true by lia. exists (wrap z). split; [apply wrap_in32|reflexivity].
Qed.

Theorem msl_conv_f32_u32_total : forall a, exists v, in32 v /\
  run1 [h_f2u32 1] (t_call1 "naga_f2u32") (VF32 a) = Done (VU32 v).
Proof.
  intros a. rewrite f2u32_eval. destruct (clamp_u32f_converts a) as (z & Hz & Hr). rewrite Hz.
  rewrite in32b_true by lia. exists z. split; [unfold in32, M32; lia|reflexivity].
Qed.

(* the WGSL value for every non-NaN input that is not above 2147483520.0 (i.e. below 2^31) *)
Theorem msl_conv_f32_i32_correct_below_2p31 : forall a, is_nan_bits a = false -> flt F_HI a = false ->
  run1 [h_f2i32 1] (t_call1 "naga_f2i32") (VF32 a) = Done (VI32 (i32_of_f32 a)).
Proof.
  intros a Hn Hhi. rewrite f2i32_eval.
  destruct (clamp_i32_cases a) as [[E [N|L]]|[[E (_ & H)]|(E & _ & H1 & H2)]]; rewrite E.
  - rewrite N in Hn. discriminate.
  - rewrite z_trunc_lo. rewrite in_i32_true by lia. rewrite (below_lo_saturates a Hn L). reflexivity.
  - rewrite H in Hhi. discriminate.
  - destruct (z_trunc_in_range a Hn H1 H2) as (z & Hz & Hr). rewrite Hz. rewrite in_i32_true by lia.
    rewrite (in_range_value a z Hn Hz) by lia. reflexivity.
Qed.

(* the WGSL value for every input (NaN included: both give 0) that is not above 4294967040.0 (i.e. below 2^32) *)
Theorem msl_conv_f32_u32_correct_below_2p32 : forall a, flt F_UHI a = false ->
  run1 [h_f2u32 1] (t_call1 "naga_f2u32") (VF32 a) = Done (VU32 (u32_of_f32 a)).
Proof.
  intros a Hhi. rewrite f2u32_eval.
  destruct (clamp_u32f_cases a) as [[E [N|L]]|[[E (_ & H)]|(E & Hn & H1 & H2)]]; rewrite E.
  - rewrite z_trunc_zero. rewrite (nan_u32_zero a N). reflexivity.
  - rewrite z_trunc_zero. destruct (is_nan_bits a) eqn:Hn; [rewrite (nan_u32_zero a Hn); reflexivity|].
    rewrite (below_zero_saturates a Hn L). reflexivity.
  - rewrite H in Hhi. discriminate.
  - destruct (z_trunc_in_urange a Hn H1 H2) as (z & Hz & Hr). rewrite Hz. rewrite in32b_true by lia.
    rewrite (in_urange_value a z Hn Hz) by lia. reflexivity.
Qed.
