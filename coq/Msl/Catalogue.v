(* Catalogue of the MSL expression templates naga emits for each IR operator /
   math builtin / conversion (msl/internal/codegen/expressions.go: writeBinary,
   writeUnary, writeSelect, writeMath, writeAs; writer.go: helper bodies), as
   expression trees over the operand variables a, b, c, d, parametrised by the
   shape n (1 = scalar, 2..4 = vecN).  The regenerated table Gen/MslOpTable.v
   (probe: what naga emits NOW) must be contained in this catalogue
   (Msl/CatalogueTie.v); the meaning of every scalar entry is proved for all
   32-bit operands in Msl/CatalogueProofs.v. *)
From Coq Require Import List ZArith String Bool.
Import ListNotations.
Require Import Naga.Base.Bits32 Naga.IR.Values Naga.Msl.Syntax Naga.Msl.Ops Naga.Msl.Sem.
Open Scope string_scope.
Open Scope Z_scope.
Open Scope list_scope.

Definition tyv (n : nat) (s : sty) : ty := if Nat.eqb n 1 then TyS s else TyV n s false.
(* T(e): a cast for a scalar T, a splat constructor for a vector T *)
Definition splat (n : nat) (s : sty) (e : expr) : expr :=
  if Nat.eqb n 1 then ECast (TyS s) e else ECtor (TyV n s false) [e].

Definition va := EVar "a".
Definition vb := EVar "b".
Definition vc := EVar "c".
Definition vd := EVar "d".

Definition pval (name : string) (t : ty) : param := mkparam name t false "" ANone.

(* ---- helper functions, as naga writes them ---- *)
Definition int_min_lit : expr := EBin BSub (EUn UNeg (EInt 2147483647)) (EInt 1).      (* (-2147483647 - 1) *)

Definition divisor_i32 : expr :=
  ECall "metal::select"
        [EVar "rhs"; EInt 1;
         EBin BOr (EBin BAnd (EBin BEq (EVar "lhs") int_min_lit) (EBin BEq (EVar "rhs") (EUn UNeg (EInt 1))))
                  (EBin BEq (EVar "rhs") (EInt 0))].
Definition divisor_u32 : expr :=
  ECall "metal::select" [EVar "rhs"; EUint 1; EBin BEq (EVar "rhs") (EUint 0)].

Definition h_div_i32 (n : nat) : fdef :=
  mkfdef "naga_div" (Some (tyv n SInt)) [pval "lhs" (tyv n SInt); pval "rhs" (tyv n SInt)]
         [SReturn (Some (EBin BDiv (EVar "lhs") divisor_i32))] false.
Definition h_div_u32 (n : nat) : fdef :=
  mkfdef "naga_div" (Some (tyv n SUint)) [pval "lhs" (tyv n SUint); pval "rhs" (tyv n SUint)]
         [SReturn (Some (EBin BDiv (EVar "lhs") divisor_u32))] false.
Definition h_mod_i32 (n : nat) : fdef :=
  mkfdef "naga_mod" (Some (tyv n SInt)) [pval "lhs" (tyv n SInt); pval "rhs" (tyv n SInt)]
         [SDecl (tyv n SInt) "divisor" (Some divisor_i32);
          SReturn (Some (EBin BSub (EVar "lhs") (EBin BMul (EBin BDiv (EVar "lhs") (EVar "divisor")) (EVar "divisor"))))] false.
Definition h_mod_u32 (n : nat) : fdef :=
  mkfdef "naga_mod" (Some (tyv n SUint)) [pval "lhs" (tyv n SUint); pval "rhs" (tyv n SUint)]
         [SReturn (Some (EBin BMod (EVar "lhs") divisor_u32))] false.
Definition h_neg_i32 (n : nat) : fdef :=
  mkfdef "naga_neg" (Some (tyv n SInt)) [pval "val" (tyv n SInt)]
         [SReturn (Some (EAsType (tyv n SInt) (EUn UNeg (EAsType (tyv n SUint) (EVar "val")))))] false.
Definition h_abs_i32 (n : nat) : fdef :=
  mkfdef "naga_abs" (Some (tyv n SInt)) [pval "val" (tyv n SInt)]
         [SReturn (Some (ECall "metal::select"
                               [EAsType (tyv n SInt) (EUn UNeg (EAsType (tyv n SUint) (EVar "val")));
                                EVar "val"; EBin BGe (EVar "val") (EInt 0)]))] false.
(* -2147483600.0 and 2147483500.0 round to -2^31 and 2147483520 (0x4EFFFFFF); 4294967000.0 to 4294967040 (0x4F7FFFFF) *)
Definition h_f2i32 (n : nat) : fdef :=
  mkfdef "naga_f2i32" (Some (tyv n SInt)) [pval "value" (tyv n SFloat)]
         [SReturn (Some (ECast (tyv n SInt)
                               (ECall "metal::clamp" [EVar "value"; EUn UNeg (EFloat 1325400064); EFloat 1325400063])))] false.
Definition h_f2u32 (n : nat) : fdef :=
  mkfdef "naga_f2u32" (Some (tyv n SUint)) [pval "value" (tyv n SFloat)]
         [SReturn (Some (ECast (tyv n SUint)
                               (ECall "metal::clamp" [EVar "value"; EFloat 0; EFloat 1333788671])))] false.

Definition comp_name (i : nat) : string :=
  match i with 0%nat => "x" | 1%nat => "y" | 2%nat => "z" | _ => "w" end.
Definition dot_term (i : nat) : expr := EBin BMul (EMember va (comp_name i)) (EMember vb (comp_name i)).
Fixpoint dot_sum (k : nat) : expr :=      (* a.x*b.x + ... + component k *)
  match k with O => dot_term 0 | S k' => EBin BAdd (dot_sum k') (dot_term k) end.
Definition digit (n : nat) : string := match n with 2%nat => "2" | 3%nat => "3" | _ => "4" end.
Definition h_dot (s : sty) (n : nat) : fdef :=
  let nm := (match s with SInt => "naga_dot_int" | _ => "naga_dot_uint" end ++ digit n)%string in
  mkfdef nm (Some (TyS s)) [pval "a" (TyV n s false); pval "b" (TyV n s false)]
         [SReturn (Some (dot_sum (n - 1)))] false.

(* ---- templates ---- *)
Definition t_wrap_i32 (o : binop) (n : nat) : expr :=
  EAsType (tyv n SInt) (EBin o (EAsType (tyv n SUint) va) (EAsType (tyv n SUint) vb)).
Definition t_bin (o : binop) : expr := EBin o va vb.
Definition t_call2 (f : string) : expr := ECall f [va; vb].
Definition t_call1 (f : string) : expr := ECall f [va].
Definition t_call3 (f : string) : expr := ECall f [va; vb; vc].
Definition t_ternary : expr := ECond vc vb va.

Definition t_sign_i32 (n : nat) : expr :=
  ECall "metal::select"
        [ECall "metal::select" [splat n SInt (EUn UNeg (EInt 1)); splat n SInt (EInt 1); EBin BGt va (EInt 0)];
         splat n SInt (EInt 0); EBin BEq va (EInt 0)].
Definition t_flb_i32 (n : nat) : expr :=
  ECall "metal::select"
        [EBin BSub (EInt 31) (ECall "metal::clz" [ECall "metal::select" [va; EUn UBitNot va; EBin BLt va (EInt 0)]]);
         splat n SInt (EUn UNeg (EInt 1));
         EBin BLOr (EBin BEq va (EInt 0)) (EBin BEq va (EUn UNeg (EInt 1)))].
Definition t_flb_u32 (n : nat) : expr :=
  ECall "metal::select"
        [EBin BSub (EInt 31) (ECall "metal::clz" [va]);
         splat n SUint (EUn UNeg (EInt 1));
         EBin BLOr (EBin BEq va (EInt 0)) (EBin BEq va (EUn UNeg (EInt 1)))].
Definition t_ftb : expr :=
  EBin BSub (EBin BMod (EBin BAdd (ECall "metal::ctz" [va]) (EInt 1)) (EInt 33)) (EInt 1).
Definition t_extract : expr :=
  ECall "metal::extract_bits"
        [va; ECall "metal::min" [vb; EUint 32];
         ECall "metal::min" [vc; EBin BSub (EUint 32) (ECall "metal::min" [vb; EUint 32])]].
Definition t_insert : expr :=
  ECall "metal::insert_bits"
        [va; vb; ECall "metal::min" [vc; EUint 32];
         ECall "metal::min" [vd; EBin BSub (EUint 32) (ECall "metal::min" [vc; EUint 32])]].

Record entry := mkentry { e_key : string; e_n : nat; e_tmpl : expr; e_helpers : list fdef }.

Definition shapes : list nat := [1; 2; 3; 4]%nat.
Definition vshapes : list nat := [2; 3; 4]%nat.

Definition at_shapes (sh : list nat) (key : string) (t : nat -> expr) (hs : nat -> list fdef) : list entry :=
  map (fun n => mkentry key n (t n) (hs n)) sh.
Definition plain (key : string) (t : expr) : list entry := at_shapes shapes key (fun _ => t) (fun _ => []).

Definition kinds3 : list (string * sty) := [("i32", SInt); ("u32", SUint); ("f32", SFloat)].
Definition kinds2 : list (string * sty) := [("i32", SInt); ("u32", SUint)].

Definition cmp_ops : list (string * binop) := [("eq", BEq); ("ne", BNe); ("lt", BLt); ("le", BLe); ("gt", BGt); ("ge", BGe)].

Definition catalogue : list entry :=
  (* signed + - * go through unsigned arithmetic *)
  at_shapes shapes "add_i32" (t_wrap_i32 BAdd) (fun _ => []) ++
  at_shapes shapes "sub_i32" (t_wrap_i32 BSub) (fun _ => []) ++
  at_shapes shapes "mul_i32" (t_wrap_i32 BMul) (fun _ => []) ++
  at_shapes shapes "div_i32" (fun _ => t_call2 "naga_div") (fun n => [h_div_i32 n]) ++
  at_shapes shapes "mod_i32" (fun _ => t_call2 "naga_mod") (fun n => [h_mod_i32 n]) ++
  plain "add_u32" (t_bin BAdd) ++ plain "sub_u32" (t_bin BSub) ++ plain "mul_u32" (t_bin BMul) ++
  at_shapes shapes "div_u32" (fun _ => t_call2 "naga_div") (fun n => [h_div_u32 n]) ++
  at_shapes shapes "mod_u32" (fun _ => t_call2 "naga_mod") (fun n => [h_mod_u32 n]) ++
  plain "add_f32" (t_bin BAdd) ++ plain "sub_f32" (t_bin BSub) ++ plain "mul_f32" (t_bin BMul) ++ plain "div_f32" (t_bin BDiv) ++
  flat_map (fun k => flat_map (fun o => plain (fst o ++ "_" ++ fst k)%string (t_bin (snd o))) cmp_ops) kinds3 ++
  plain "eq_bool" (t_bin BEq) ++ plain "ne_bool" (t_bin BNe) ++
  flat_map (fun k =>
    plain ("and_" ++ fst k)%string (t_bin BAnd) ++ plain ("or_" ++ fst k)%string (t_bin BOr) ++ plain ("xor_" ++ fst k)%string (t_bin BXor) ++
    plain ("shl_" ++ fst k)%string (t_bin BShl) ++ plain ("shr_" ++ fst k)%string (t_bin BShr) ++
    plain ("not_" ++ fst k)%string (EUn UBitNot va)) kinds2 ++
  plain "and_bool" (t_bin BAnd) ++ plain "or_bool" (t_bin BOr) ++ plain "lnot_bool" (EUn UNot va) ++
  at_shapes shapes "neg_i32" (fun _ => t_call1 "naga_neg") (fun n => [h_neg_i32 n]) ++
  plain "neg_f32" (EUn UNeg va) ++
  (* select: ternary for a scalar condition, metal::select(reject, accept, cond) for a vector condition *)
  flat_map (fun k => [mkentry ("select_" ++ k) 1 t_ternary []] ++
                     at_shapes vshapes ("select_" ++ k) (fun _ => t_call3 "metal::select") (fun _ => []))
           ["i32"; "u32"; "f32"; "bool"] ++
  flat_map (fun k => at_shapes vshapes ("selectsc_" ++ k) (fun _ => t_ternary) (fun _ => [])) ["i32"; "u32"; "f32"] ++
  at_shapes shapes "abs_i32" (fun _ => t_call1 "naga_abs") (fun n => [h_abs_i32 n]) ++
  plain "abs_u32" (t_call1 "metal::abs") ++ plain "abs_f32" (t_call1 "metal::abs") ++
  flat_map (fun k => plain ("min_" ++ fst k)%string (t_call2 "metal::min") ++ plain ("max_" ++ fst k)%string (t_call2 "metal::max") ++
                     plain ("clamp_" ++ fst k)%string (t_call3 "metal::clamp")) kinds3 ++
  at_shapes shapes "sign_i32" t_sign_i32 (fun _ => []) ++
  plain "sign_f32" (t_call1 "metal::sign") ++
  flat_map (fun k =>
    plain ("popcount_" ++ fst k)%string (t_call1 "metal::popcount") ++ plain ("clz_" ++ fst k)%string (t_call1 "metal::clz") ++
    plain ("ctz_" ++ fst k)%string (t_call1 "metal::ctz") ++ plain ("reversebits_" ++ fst k)%string (t_call1 "metal::reverse_bits") ++
    plain ("firsttrailingbit_" ++ fst k)%string t_ftb ++
    plain ("extractbits_" ++ fst k)%string t_extract ++ plain ("insertbits_" ++ fst k)%string t_insert) kinds2 ++
  at_shapes shapes "firstleadingbit_i32" t_flb_i32 (fun _ => []) ++
  at_shapes shapes "firstleadingbit_u32" t_flb_u32 (fun _ => []) ++
  plain "floor_f32" (t_call1 "metal::floor") ++ plain "ceil_f32" (t_call1 "metal::ceil") ++
  plain "trunc_f32" (t_call1 "metal::trunc") ++ plain "round_f32" (t_call1 "metal::round") ++
  plain "sqrt_f32" (t_call1 "metal::sqrt") ++ plain "saturate_f32" (t_call1 "metal::saturate") ++
  plain "fma_f32" (t_call3 "metal::fma") ++
  at_shapes vshapes "dot_i32" (fun n => t_call2 ("naga_dot_int" ++ digit n)%string) (fun n => [h_dot SInt n]) ++
  at_shapes vshapes "dot_u32" (fun n => t_call2 ("naga_dot_uint" ++ digit n)%string) (fun n => [h_dot SUint n]) ++
  at_shapes vshapes "dot_f32" (fun _ => t_call2 "metal::dot") (fun _ => []) ++
  at_shapes vshapes "any_bool" (fun _ => t_call1 "metal::any") (fun _ => []) ++
  at_shapes vshapes "all_bool" (fun _ => t_call1 "metal::all") (fun _ => []) ++
  (* conversions: static_cast, except float -> integer through the clamping helpers *)
  flat_map (fun sd => let '(key, dst) := sd in at_shapes shapes key (fun n => ECast (tyv n dst) va) (fun _ => []))
           [("conv_i32_u32", SUint); ("conv_i32_f32", SFloat); ("conv_i32_bool", SBool);
            ("conv_u32_i32", SInt); ("conv_u32_f32", SFloat); ("conv_u32_bool", SBool);
            ("conv_f32_bool", SBool); ("conv_bool_i32", SInt); ("conv_bool_u32", SUint); ("conv_bool_f32", SFloat)] ++
  at_shapes shapes "conv_f32_i32" (fun _ => t_call1 "naga_f2i32") (fun n => [h_f2i32 n]) ++
  at_shapes shapes "conv_f32_u32" (fun _ => t_call1 "naga_f2u32") (fun n => [h_f2u32 n]) ++
  flat_map (fun sd => let '(key, dst) := sd in at_shapes shapes key (fun n => EAsType (tyv n dst) va) (fun _ => []))
           [("bitcast_i32_u32", SUint); ("bitcast_i32_f32", SFloat); ("bitcast_u32_i32", SInt);
            ("bitcast_u32_f32", SFloat); ("bitcast_f32_i32", SInt); ("bitcast_f32_u32", SUint)].

Definition entry_eqb (x y : entry) : bool :=
  String.eqb (e_key x) (e_key y) && Nat.eqb (e_n x) (e_n y) && expr_eqb (e_tmpl x) (e_tmpl y)
  && list_eqb fdef_eqb (e_helpers x) (e_helpers y).

Definition in_catalogue (x : entry) : bool := existsb (entry_eqb x) catalogue.
Definition key_eqb (x y : entry) : bool := String.eqb (e_key x) (e_key y) && Nat.eqb (e_n x) (e_n y).

(* every catalogue key has been regenerated (nothing silently dropped by the probe) *)
Definition covers (table : list entry) : bool :=
  forallb (fun c => existsb (key_eqb c) table) catalogue.

(* ---- evaluation of a template on operand values ---- *)
Definition env4 : env :=
  [("a", mkbind (TyS SInt) 0 []); ("b", mkbind (TyS SInt) 1 []); ("c", mkbind (TyS SInt) 2 []); ("d", mkbind (TyS SInt) 3 [])].
Definition mem4 (a b c d : value) : memory := [Some a; Some b; Some c; Some d].
Definition run_tmpl (hs : list fdef) (t : expr) (a b c d : value) : result value :=
  eval (mkprog [] [] [] hs) [] 40 env4 (mem4 a b c d) t.
Definition dummy : value := VBool false.
Definition run1 hs t a := run_tmpl hs t a dummy dummy dummy.
Definition run2 hs t a b := run_tmpl hs t a b dummy dummy.
Definition run3 hs t a b c := run_tmpl hs t a b c dummy.
