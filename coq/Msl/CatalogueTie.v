(* The regenerated probe table (what naga's MSL backend emits NOW for every
   operator x kind x shape, helper bodies included) is contained in the
   hand-written catalogue whose entries carry the for-all-operands lemmas of
   Msl/CatalogueProofs.v, and every catalogue key has been regenerated. *)
From Coq Require Import List ZArith String Bool.
Import ListNotations.
Require Import Naga.Msl.Syntax Naga.Msl.Catalogue Naga.Gen.MslOpTable.

Lemma gen_table_in_catalogue : forallb in_catalogue table = true.
Proof. vm_compute. reflexivity. Qed.

Lemma gen_table_covers_catalogue : covers table = true.
Proof. vm_compute. reflexivity. Qed.

Lemma gen_table_size : Nat.eqb (List.length table) (List.length catalogue) = true.
Proof. vm_compute. reflexivity. Qed.
