(* C++ layout of the struct types naga emits, from Metal's size/alignment table
   (MSL 3.1 section 2.2 "Vector Data Types" table 2.3, 2.3 "Matrix Data Types" table 2.5,
   packed vectors table 2.4) and the C++ struct layout rule (members in order, each at the
   next multiple of its alignment; size rounded up to the largest member alignment).
   Used to check that the explicit [char _padN[k]] members and the packed_* selection
   put every member at the offset the IR prescribes (C04/C07). *)
From Coq Require Import List ZArith String Bool.
Import ListNotations.
Require Import Naga.Msl.Syntax Naga.Msl.Sem.
Open Scope Z_scope.

Definition sty_size (s : sty) : Z := match s with SChar | SBool => 1 | _ => 4 end.
Definition round_up (x a : Z) : Z := if a <=? 0 then x else ((x + a - 1) / a) * a.

Section L.
Variable P : prog.

Fixpoint layout_members (size_align : ty -> option (Z * Z)) (ms : list (string * ty)) (off maxa : Z)
  : option (list (string * Z * Z) * Z * Z) :=
  match ms with
  | [] => Some ([], off, maxa)
  | (n, t) :: r =>
    match size_align t with
    | None => None
    | Some (sz, al) =>
      let o := round_up off al in
      match layout_members size_align r (o + sz) (Z.max maxa al) with
      | Some (l, e, a) => Some ((n, o, sz) :: l, e, a)
      | None => None
      end
    end
  end.

Fixpoint size_align (fuel : nat) (t : ty) : option (Z * Z) :=
  match fuel with
  | O => None
  | S f =>
    match resolve_ty P t with
    | TyS s => Some (sty_size s, sty_size s)
    | TyAtomic _ => Some (4, 4)
    | TyV n s packed =>
      let e := sty_size s in
      if packed then Some (Z.of_nat n * e, e)
      else let k := if Nat.eqb n 3 then 4 else Z.of_nat n in Some (k * e, k * e)
    | TyM c r =>
      let k := if Nat.eqb r 3 then 4 else Z.of_nat r in Some (Z.of_nat c * k * 4, k * 4)
    | TyA t' n => match size_align f t' with Some (s, a) => Some (Z.of_nat n * s, a) | None => None end
    | TyN sn =>
      match find_struct P sn with
      | None => None
      | Some sd =>
        match layout_members (size_align f) (sd_members sd) 0 1 with
        | Some (_, e, a) => Some (round_up e a, a)
        | None => None
        end
      end
    end
  end.

Definition struct_layout (sd : sdef) : option (list (string * Z * Z) * Z * Z) :=
  match layout_members (size_align 32) (sd_members sd) 0 1 with
  | Some (l, e, a) => Some (l, round_up e a, a)
  | None => None
  end.

(* element size of an array-typed member / typedef (stride of the C++ array) *)
Definition elem_size (t : ty) : option Z :=
  match resolve_ty P t with
  | TyA t' _ => option_map fst (size_align 32 t')
  | _ => None
  end.
End L.
