(* Vector shapes (vec2/vec3/vec4) of the operator catalogue: the same templates with vector type names evaluate
   component-wise to the scalar WGSL operation, for all 32-bit components.  Direct class (operators, comparisons,
   bitwise, shifts, min/max/clamp, bit counting, rounding, conversions, bitcasts, select with a vector condition) and
   the hardened helpers (naga_div, naga_mod, naga_neg, naga_abs for i32/u32; sign) from their bodies.
   Not covered here (validated by execution only): firstLeadingBit/firstTrailingBit/extractBits/insertBits on vectors,
   float->int helpers on vectors. *)
From Coq Require Import List ZArith String Bool Lia.
From Coq Require Import ZifyBool.
Import ListNotations.
Require Import Naga.Base.Bits32 Naga.Base.F32 Naga.IR.Values Naga.Msl.Syntax Naga.Msl.Ops Naga.Msl.Sem Naga.Msl.Catalogue Naga.Msl.CatalogueProofs.
Open Scope string_scope.
Open Scope Z_scope.
Ltac Zify.zify_post_hook ::= Z.to_euclidean_division_equations.

(* ---- direct class ---- *)
Lemma msl_add_i32_v2 : forall a1 a2 b1 b2, run2 [] (t_wrap_i32 BAdd 2) (VVec [VI32 a1; VI32 a2]) (VVec [VI32 b1; VI32 b2]) = Done (VVec [VI32 (add32 a1 b1); VI32 (add32 a2 b2)]).
Proof. intros; ev; reflexivity. Qed.

Lemma msl_add_u32_v2 : forall a1 a2 b1 b2, run2 [] (t_bin BAdd) (VVec [VU32 a1; VU32 a2]) (VVec [VU32 b1; VU32 b2]) = Done (VVec [VU32 (add32 a1 b1); VU32 (add32 a2 b2)]).
Proof. intros; ev; reflexivity. Qed.

Lemma msl_sub_i32_v2 : forall a1 a2 b1 b2, run2 [] (t_wrap_i32 BSub 2) (VVec [VI32 a1; VI32 a2]) (VVec [VI32 b1; VI32 b2]) = Done (VVec [VI32 (sub32 a1 b1); VI32 (sub32 a2 b2)]).
Proof. intros; ev; reflexivity. Qed.

Lemma msl_sub_u32_v2 : forall a1 a2 b1 b2, run2 [] (t_bin BSub) (VVec [VU32 a1; VU32 a2]) (VVec [VU32 b1; VU32 b2]) = Done (VVec [VU32 (sub32 a1 b1); VU32 (sub32 a2 b2)]).
Proof. intros; ev; reflexivity. Qed.

Lemma msl_mul_i32_v2 : forall a1 a2 b1 b2, run2 [] (t_wrap_i32 BMul 2) (VVec [VI32 a1; VI32 a2]) (VVec [VI32 b1; VI32 b2]) = Done (VVec [VI32 (mul32 a1 b1); VI32 (mul32 a2 b2)]).
Proof. intros; ev; reflexivity. Qed.

Lemma msl_mul_u32_v2 : forall a1 a2 b1 b2, run2 [] (t_bin BMul) (VVec [VU32 a1; VU32 a2]) (VVec [VU32 b1; VU32 b2]) = Done (VVec [VU32 (mul32 a1 b1); VU32 (mul32 a2 b2)]).
Proof. intros; ev; reflexivity. Qed.

Lemma msl_add_f32_v2 : forall a1 a2 b1 b2, run2 [] (t_bin BAdd) (VVec [VF32 a1; VF32 a2]) (VVec [VF32 b1; VF32 b2]) = Done (VVec [VF32 (fadd a1 b1); VF32 (fadd a2 b2)]).
Proof. intros; ev; reflexivity. Qed.

Lemma msl_sub_f32_v2 : forall a1 a2 b1 b2, run2 [] (t_bin BSub) (VVec [VF32 a1; VF32 a2]) (VVec [VF32 b1; VF32 b2]) = Done (VVec [VF32 (fsub a1 b1); VF32 (fsub a2 b2)]).
Proof. intros; ev; reflexivity. Qed.

Lemma msl_mul_f32_v2 : forall a1 a2 b1 b2, run2 [] (t_bin BMul) (VVec [VF32 a1; VF32 a2]) (VVec [VF32 b1; VF32 b2]) = Done (VVec [VF32 (fmul a1 b1); VF32 (fmul a2 b2)]).
Proof. intros; ev; reflexivity. Qed.

Lemma msl_div_f32_v2 : forall a1 a2 b1 b2, run2 [] (t_bin BDiv) (VVec [VF32 a1; VF32 a2]) (VVec [VF32 b1; VF32 b2]) = Done (VVec [VF32 (fdiv a1 b1); VF32 (fdiv a2 b2)]).
Proof. intros; ev; reflexivity. Qed.

Lemma msl_eq_i32_v2 : forall a1 a2 b1 b2, run2 [] (t_bin BEq) (VVec [VI32 a1; VI32 a2]) (VVec [VI32 b1; VI32 b2]) = Done (VVec [VBool (a1 =? b1); VBool (a2 =? b2)]).
Proof. intros; ev; reflexivity. Qed.

Lemma msl_ne_i32_v2 : forall a1 a2 b1 b2, run2 [] (t_bin BNe) (VVec [VI32 a1; VI32 a2]) (VVec [VI32 b1; VI32 b2]) = Done (VVec [VBool (negb (a1 =? b1)); VBool (negb (a2 =? b2))]).
Proof. intros; ev; reflexivity. Qed.

Lemma msl_lt_i32_v2 : forall a1 a2 b1 b2, run2 [] (t_bin BLt) (VVec [VI32 a1; VI32 a2]) (VVec [VI32 b1; VI32 b2]) = Done (VVec [VBool (lt_i32 a1 b1); VBool (lt_i32 a2 b2)]).
Proof. intros; ev; reflexivity. Qed.

Lemma msl_le_i32_v2 : forall a1 a2 b1 b2, run2 [] (t_bin BLe) (VVec [VI32 a1; VI32 a2]) (VVec [VI32 b1; VI32 b2]) = Done (VVec [VBool (le_i32 a1 b1); VBool (le_i32 a2 b2)]).
Proof. intros; ev; reflexivity. Qed.

Lemma msl_gt_i32_v2 : forall a1 a2 b1 b2, run2 [] (t_bin BGt) (VVec [VI32 a1; VI32 a2]) (VVec [VI32 b1; VI32 b2]) = Done (VVec [VBool (lt_i32 b1 a1); VBool (lt_i32 b2 a2)]).
Proof. intros; ev; reflexivity. Qed.

Lemma msl_ge_i32_v2 : forall a1 a2 b1 b2, run2 [] (t_bin BGe) (VVec [VI32 a1; VI32 a2]) (VVec [VI32 b1; VI32 b2]) = Done (VVec [VBool (le_i32 b1 a1); VBool (le_i32 b2 a2)]).
Proof. intros; ev; reflexivity. Qed.

Lemma msl_eq_u32_v2 : forall a1 a2 b1 b2, run2 [] (t_bin BEq) (VVec [VU32 a1; VU32 a2]) (VVec [VU32 b1; VU32 b2]) = Done (VVec [VBool (a1 =? b1); VBool (a2 =? b2)]).
Proof. intros; ev; reflexivity. Qed.

Lemma msl_ne_u32_v2 : forall a1 a2 b1 b2, run2 [] (t_bin BNe) (VVec [VU32 a1; VU32 a2]) (VVec [VU32 b1; VU32 b2]) = Done (VVec [VBool (negb (a1 =? b1)); VBool (negb (a2 =? b2))]).
Proof. intros; ev; reflexivity. Qed.

Lemma msl_lt_u32_v2 : forall a1 a2 b1 b2, run2 [] (t_bin BLt) (VVec [VU32 a1; VU32 a2]) (VVec [VU32 b1; VU32 b2]) = Done (VVec [VBool (lt_u32 a1 b1); VBool (lt_u32 a2 b2)]).
Proof. intros; ev; reflexivity. Qed.

Lemma msl_le_u32_v2 : forall a1 a2 b1 b2, run2 [] (t_bin BLe) (VVec [VU32 a1; VU32 a2]) (VVec [VU32 b1; VU32 b2]) = Done (VVec [VBool (le_u32 a1 b1); VBool (le_u32 a2 b2)]).
Proof. intros; ev; reflexivity. Qed.

Lemma msl_gt_u32_v2 : forall a1 a2 b1 b2, run2 [] (t_bin BGt) (VVec [VU32 a1; VU32 a2]) (VVec [VU32 b1; VU32 b2]) = Done (VVec [VBool (lt_u32 b1 a1); VBool (lt_u32 b2 a2)]).
Proof. intros; ev; reflexivity. Qed.

Lemma msl_ge_u32_v2 : forall a1 a2 b1 b2, run2 [] (t_bin BGe) (VVec [VU32 a1; VU32 a2]) (VVec [VU32 b1; VU32 b2]) = Done (VVec [VBool (le_u32 b1 a1); VBool (le_u32 b2 a2)]).
Proof. intros; ev; reflexivity. Qed.

Lemma msl_eq_f32_v2 : forall a1 a2 b1 b2, run2 [] (t_bin BEq) (VVec [VF32 a1; VF32 a2]) (VVec [VF32 b1; VF32 b2]) = Done (VVec [VBool (feq a1 b1); VBool (feq a2 b2)]).
Proof. intros; ev; reflexivity. Qed.

Lemma msl_ne_f32_v2 : forall a1 a2 b1 b2, run2 [] (t_bin BNe) (VVec [VF32 a1; VF32 a2]) (VVec [VF32 b1; VF32 b2]) = Done (VVec [VBool (fne a1 b1); VBool (fne a2 b2)]).
Proof. intros; ev; reflexivity. Qed.

Lemma msl_lt_f32_v2 : forall a1 a2 b1 b2, run2 [] (t_bin BLt) (VVec [VF32 a1; VF32 a2]) (VVec [VF32 b1; VF32 b2]) = Done (VVec [VBool (flt a1 b1); VBool (flt a2 b2)]).
Proof. intros; ev; reflexivity. Qed.

Lemma msl_le_f32_v2 : forall a1 a2 b1 b2, run2 [] (t_bin BLe) (VVec [VF32 a1; VF32 a2]) (VVec [VF32 b1; VF32 b2]) = Done (VVec [VBool (fle a1 b1); VBool (fle a2 b2)]).
Proof. intros; ev; reflexivity. Qed.

Lemma msl_gt_f32_v2 : forall a1 a2 b1 b2, run2 [] (t_bin BGt) (VVec [VF32 a1; VF32 a2]) (VVec [VF32 b1; VF32 b2]) = Done (VVec [VBool (fgt a1 b1); VBool (fgt a2 b2)]).
Proof. intros; ev; reflexivity. Qed.

Lemma msl_ge_f32_v2 : forall a1 a2 b1 b2, run2 [] (t_bin BGe) (VVec [VF32 a1; VF32 a2]) (VVec [VF32 b1; VF32 b2]) = Done (VVec [VBool (fge a1 b1); VBool (fge a2 b2)]).
Proof. intros; ev; reflexivity. Qed.

Lemma msl_and_i32_v2 : forall a1 a2 b1 b2, run2 [] (t_bin BAnd) (VVec [VI32 a1; VI32 a2]) (VVec [VI32 b1; VI32 b2]) = Done (VVec [VI32 (and32 a1 b1); VI32 (and32 a2 b2)]).
Proof. intros; ev; reflexivity. Qed.

Lemma msl_or_i32_v2 : forall a1 a2 b1 b2, run2 [] (t_bin BOr) (VVec [VI32 a1; VI32 a2]) (VVec [VI32 b1; VI32 b2]) = Done (VVec [VI32 (or32 a1 b1); VI32 (or32 a2 b2)]).
Proof. intros; ev; reflexivity. Qed.

Lemma msl_xor_i32_v2 : forall a1 a2 b1 b2, run2 [] (t_bin BXor) (VVec [VI32 a1; VI32 a2]) (VVec [VI32 b1; VI32 b2]) = Done (VVec [VI32 (xor32 a1 b1); VI32 (xor32 a2 b2)]).
Proof. intros; ev; reflexivity. Qed.

Lemma msl_shl_i32_v2 : forall a1 a2 b1 b2, run2 [] (t_bin BShl) (VVec [VI32 a1; VI32 a2]) (VVec [VU32 b1; VU32 b2]) = Done (VVec [VI32 (shl32 a1 b1); VI32 (shl32 a2 b2)]).
Proof. intros; ev; reflexivity. Qed.

Lemma msl_shr_i32_v2 : forall a1 a2 b1 b2, run2 [] (t_bin BShr) (VVec [VI32 a1; VI32 a2]) (VVec [VU32 b1; VU32 b2]) = Done (VVec [VI32 (shr_i32 a1 b1); VI32 (shr_i32 a2 b2)]).
Proof. intros; ev; reflexivity. Qed.

Lemma msl_not_i32_v2 : forall a1 a2, run1 [] (EUn UBitNot va) (VVec [VI32 a1; VI32 a2]) = Done (VVec [VI32 (not32 a1); VI32 (not32 a2)]).
Proof. intros; ev; reflexivity. Qed.

Lemma msl_and_u32_v2 : forall a1 a2 b1 b2, run2 [] (t_bin BAnd) (VVec [VU32 a1; VU32 a2]) (VVec [VU32 b1; VU32 b2]) = Done (VVec [VU32 (and32 a1 b1); VU32 (and32 a2 b2)]).
Proof. intros; ev; reflexivity. Qed.

Lemma msl_or_u32_v2 : forall a1 a2 b1 b2, run2 [] (t_bin BOr) (VVec [VU32 a1; VU32 a2]) (VVec [VU32 b1; VU32 b2]) = Done (VVec [VU32 (or32 a1 b1); VU32 (or32 a2 b2)]).
Proof. intros; ev; reflexivity. Qed.

Lemma msl_xor_u32_v2 : forall a1 a2 b1 b2, run2 [] (t_bin BXor) (VVec [VU32 a1; VU32 a2]) (VVec [VU32 b1; VU32 b2]) = Done (VVec [VU32 (xor32 a1 b1); VU32 (xor32 a2 b2)]).
Proof. intros; ev; reflexivity. Qed.

Lemma msl_shl_u32_v2 : forall a1 a2 b1 b2, run2 [] (t_bin BShl) (VVec [VU32 a1; VU32 a2]) (VVec [VU32 b1; VU32 b2]) = Done (VVec [VU32 (shl32 a1 b1); VU32 (shl32 a2 b2)]).
Proof. intros; ev; reflexivity. Qed.

Lemma msl_shr_u32_v2 : forall a1 a2 b1 b2, run2 [] (t_bin BShr) (VVec [VU32 a1; VU32 a2]) (VVec [VU32 b1; VU32 b2]) = Done (VVec [VU32 (shr_u32 a1 b1); VU32 (shr_u32 a2 b2)]).
Proof. intros; ev; reflexivity. Qed.

Lemma msl_not_u32_v2 : forall a1 a2, run1 [] (EUn UBitNot va) (VVec [VU32 a1; VU32 a2]) = Done (VVec [VU32 (not32 a1); VU32 (not32 a2)]).
Proof. intros; ev; reflexivity. Qed.

Lemma msl_and_bool_v2 : forall a1 a2 b1 b2, run2 [] (t_bin BAnd) (VVec [VBool a1; VBool a2]) (VVec [VBool b1; VBool b2]) = Done (VVec [VBool (andb a1 b1); VBool (andb a2 b2)]).
Proof. intros; ev; reflexivity. Qed.

Lemma msl_or_bool_v2 : forall a1 a2 b1 b2, run2 [] (t_bin BOr) (VVec [VBool a1; VBool a2]) (VVec [VBool b1; VBool b2]) = Done (VVec [VBool (orb a1 b1); VBool (orb a2 b2)]).
Proof. intros; ev; reflexivity. Qed.

Lemma msl_lnot_bool_v2 : forall a1 a2, run1 [] (EUn UNot va) (VVec [VBool a1; VBool a2]) = Done (VVec [VBool (negb a1); VBool (negb a2)]).
Proof. intros; ev; reflexivity. Qed.

Lemma msl_neg_f32_v2 : forall a1 a2, run1 [] (EUn UNeg va) (VVec [VF32 a1; VF32 a2]) = Done (VVec [VF32 (fneg a1); VF32 (fneg a2)]).
Proof. intros; ev; reflexivity. Qed.

Lemma msl_min_i32_v2 : forall a1 a2 b1 b2, run2 [] (t_call2 "metal::min") (VVec [VI32 a1; VI32 a2]) (VVec [VI32 b1; VI32 b2]) = Done (VVec [VI32 (min_i32 a1 b1); VI32 (min_i32 a2 b2)]).
Proof. intros; ev; reflexivity. Qed.

Lemma msl_max_i32_v2 : forall a1 a2 b1 b2, run2 [] (t_call2 "metal::max") (VVec [VI32 a1; VI32 a2]) (VVec [VI32 b1; VI32 b2]) = Done (VVec [VI32 (max_i32 a1 b1); VI32 (max_i32 a2 b2)]).
Proof. intros; ev; reflexivity. Qed.

Lemma msl_clamp_i32_v2 : forall a1 a2 b1 b2 c1 c2, run3 [] (t_call3 "metal::clamp") (VVec [VI32 a1; VI32 a2]) (VVec [VI32 b1; VI32 b2]) (VVec [VI32 c1; VI32 c2]) = Done (VVec [VI32 (clamp_i32 a1 b1 c1); VI32 (clamp_i32 a2 b2 c2)]).
Proof. intros; ev; reflexivity. Qed.

Lemma msl_min_u32_v2 : forall a1 a2 b1 b2, run2 [] (t_call2 "metal::min") (VVec [VU32 a1; VU32 a2]) (VVec [VU32 b1; VU32 b2]) = Done (VVec [VU32 (min_u32 a1 b1); VU32 (min_u32 a2 b2)]).
Proof. intros; ev; reflexivity. Qed.

Lemma msl_max_u32_v2 : forall a1 a2 b1 b2, run2 [] (t_call2 "metal::max") (VVec [VU32 a1; VU32 a2]) (VVec [VU32 b1; VU32 b2]) = Done (VVec [VU32 (max_u32 a1 b1); VU32 (max_u32 a2 b2)]).
Proof. intros; ev; reflexivity. Qed.

Lemma msl_clamp_u32_v2 : forall a1 a2 b1 b2 c1 c2, run3 [] (t_call3 "metal::clamp") (VVec [VU32 a1; VU32 a2]) (VVec [VU32 b1; VU32 b2]) (VVec [VU32 c1; VU32 c2]) = Done (VVec [VU32 (clamp_u32 a1 b1 c1); VU32 (clamp_u32 a2 b2 c2)]).
Proof. intros; ev; reflexivity. Qed.

Lemma msl_min_f32_v2 : forall a1 a2 b1 b2, run2 [] (t_call2 "metal::min") (VVec [VF32 a1; VF32 a2]) (VVec [VF32 b1; VF32 b2]) = Done (VVec [VF32 (fmin a1 b1); VF32 (fmin a2 b2)]).
Proof. intros; ev; reflexivity. Qed.

Lemma msl_max_f32_v2 : forall a1 a2 b1 b2, run2 [] (t_call2 "metal::max") (VVec [VF32 a1; VF32 a2]) (VVec [VF32 b1; VF32 b2]) = Done (VVec [VF32 (fmax a1 b1); VF32 (fmax a2 b2)]).
Proof. intros; ev; reflexivity. Qed.

Lemma msl_clamp_f32_v2 : forall a1 a2 b1 b2 c1 c2, run3 [] (t_call3 "metal::clamp") (VVec [VF32 a1; VF32 a2]) (VVec [VF32 b1; VF32 b2]) (VVec [VF32 c1; VF32 c2]) = Done (VVec [VF32 (fmin (fmax a1 b1) c1); VF32 (fmin (fmax a2 b2) c2)]).
Proof. intros; ev; reflexivity. Qed.

Lemma msl_abs_u32_v2 : forall a1 a2, run1 [] (t_call1 "metal::abs") (VVec [VU32 a1; VU32 a2]) = Done (VVec [VU32 (a1); VU32 (a2)]).
Proof. intros; ev; reflexivity. Qed.

Lemma msl_abs_f32_v2 : forall a1 a2, run1 [] (t_call1 "metal::abs") (VVec [VF32 a1; VF32 a2]) = Done (VVec [VF32 (fabs a1); VF32 (fabs a2)]).
Proof. intros; ev; reflexivity. Qed.

Lemma msl_popcount_i32_v2 : forall a1 a2, run1 [] (t_call1 "metal::popcount") (VVec [VI32 a1; VI32 a2]) = Done (VVec [VI32 (count_one_bits a1); VI32 (count_one_bits a2)]).
Proof. intros; ev; reflexivity. Qed.

Lemma msl_clz_i32_v2 : forall a1 a2, run1 [] (t_call1 "metal::clz") (VVec [VI32 a1; VI32 a2]) = Done (VVec [VI32 (count_leading_zeros a1); VI32 (count_leading_zeros a2)]).
Proof. intros; ev; reflexivity. Qed.

Lemma msl_ctz_i32_v2 : forall a1 a2, run1 [] (t_call1 "metal::ctz") (VVec [VI32 a1; VI32 a2]) = Done (VVec [VI32 (count_trailing_zeros a1); VI32 (count_trailing_zeros a2)]).
Proof. intros; ev; reflexivity. Qed.

Lemma msl_reversebits_i32_v2 : forall a1 a2, run1 [] (t_call1 "metal::reverse_bits") (VVec [VI32 a1; VI32 a2]) = Done (VVec [VI32 (reverse_bits a1); VI32 (reverse_bits a2)]).
Proof. intros; ev; reflexivity. Qed.

Lemma msl_popcount_u32_v2 : forall a1 a2, run1 [] (t_call1 "metal::popcount") (VVec [VU32 a1; VU32 a2]) = Done (VVec [VU32 (count_one_bits a1); VU32 (count_one_bits a2)]).
Proof. intros; ev; reflexivity. Qed.

Lemma msl_clz_u32_v2 : forall a1 a2, run1 [] (t_call1 "metal::clz") (VVec [VU32 a1; VU32 a2]) = Done (VVec [VU32 (count_leading_zeros a1); VU32 (count_leading_zeros a2)]).
Proof. intros; ev; reflexivity. Qed.

Lemma msl_ctz_u32_v2 : forall a1 a2, run1 [] (t_call1 "metal::ctz") (VVec [VU32 a1; VU32 a2]) = Done (VVec [VU32 (count_trailing_zeros a1); VU32 (count_trailing_zeros a2)]).
Proof. intros; ev; reflexivity. Qed.

Lemma msl_reversebits_u32_v2 : forall a1 a2, run1 [] (t_call1 "metal::reverse_bits") (VVec [VU32 a1; VU32 a2]) = Done (VVec [VU32 (reverse_bits a1); VU32 (reverse_bits a2)]).
Proof. intros; ev; reflexivity. Qed.

Lemma msl_floor_f32_v2 : forall a1 a2, run1 [] (t_call1 "metal::floor") (VVec [VF32 a1; VF32 a2]) = Done (VVec [VF32 (ffloor a1); VF32 (ffloor a2)]).
Proof. intros; ev; reflexivity. Qed.

Lemma msl_ceil_f32_v2 : forall a1 a2, run1 [] (t_call1 "metal::ceil") (VVec [VF32 a1; VF32 a2]) = Done (VVec [VF32 (fceil a1); VF32 (fceil a2)]).
Proof. intros; ev; reflexivity. Qed.

Lemma msl_trunc_f32_v2 : forall a1 a2, run1 [] (t_call1 "metal::trunc") (VVec [VF32 a1; VF32 a2]) = Done (VVec [VF32 (ftrunc a1); VF32 (ftrunc a2)]).
Proof. intros; ev; reflexivity. Qed.

Lemma msl_sqrt_f32_v2 : forall a1 a2, run1 [] (t_call1 "metal::sqrt") (VVec [VF32 a1; VF32 a2]) = Done (VVec [VF32 (fsqrt a1); VF32 (fsqrt a2)]).
Proof. intros; ev; reflexivity. Qed.

Lemma msl_fma_f32_v2 : forall a1 a2 b1 b2 c1 c2, run3 [] (t_call3 "metal::fma") (VVec [VF32 a1; VF32 a2]) (VVec [VF32 b1; VF32 b2]) (VVec [VF32 c1; VF32 c2]) = Done (VVec [VF32 (ffma a1 b1 c1); VF32 (ffma a2 b2 c2)]).
Proof. intros; ev; reflexivity. Qed.

Lemma msl_conv_i32_u32_v2 : forall a1 a2, run1 [] (ECast (tyv 2 SUint) va) (VVec [VI32 a1; VI32 a2]) = Done (VVec [VU32 (a1); VU32 (a2)]).
Proof. intros; ev; reflexivity. Qed.

Lemma msl_conv_i32_f32_v2 : forall a1 a2, run1 [] (ECast (tyv 2 SFloat) va) (VVec [VI32 a1; VI32 a2]) = Done (VVec [VF32 (f32_of_i32 a1); VF32 (f32_of_i32 a2)]).
Proof. intros; ev; reflexivity. Qed.

Lemma msl_conv_i32_bool_v2 : forall a1 a2, run1 [] (ECast (tyv 2 SBool) va) (VVec [VI32 a1; VI32 a2]) = Done (VVec [VBool (bool_of_32 a1); VBool (bool_of_32 a2)]).
Proof. intros; ev; reflexivity. Qed.

Lemma msl_conv_u32_i32_v2 : forall a1 a2, run1 [] (ECast (tyv 2 SInt) va) (VVec [VU32 a1; VU32 a2]) = Done (VVec [VI32 (a1); VI32 (a2)]).
Proof. intros; ev; reflexivity. Qed.

Lemma msl_conv_u32_f32_v2 : forall a1 a2, run1 [] (ECast (tyv 2 SFloat) va) (VVec [VU32 a1; VU32 a2]) = Done (VVec [VF32 (f32_of_u32 a1); VF32 (f32_of_u32 a2)]).
Proof. intros; ev; reflexivity. Qed.

Lemma msl_conv_u32_bool_v2 : forall a1 a2, run1 [] (ECast (tyv 2 SBool) va) (VVec [VU32 a1; VU32 a2]) = Done (VVec [VBool (bool_of_32 a1); VBool (bool_of_32 a2)]).
Proof. intros; ev; reflexivity. Qed.

Lemma msl_conv_f32_bool_v2 : forall a1 a2, run1 [] (ECast (tyv 2 SBool) va) (VVec [VF32 a1; VF32 a2]) = Done (VVec [VBool (negb (feq a1 0)); VBool (negb (feq a2 0))]).
Proof. intros; ev; reflexivity. Qed.

Lemma msl_conv_bool_i32_v2 : forall a1 a2, run1 [] (ECast (tyv 2 SInt) va) (VVec [VBool a1; VBool a2]) = Done (VVec [VI32 (u32_of_bool a1); VI32 (u32_of_bool a2)]).
Proof. intros; ev; reflexivity. Qed.

Lemma msl_conv_bool_u32_v2 : forall a1 a2, run1 [] (ECast (tyv 2 SUint) va) (VVec [VBool a1; VBool a2]) = Done (VVec [VU32 (u32_of_bool a1); VU32 (u32_of_bool a2)]).
Proof. intros; ev; reflexivity. Qed.

Lemma msl_conv_bool_f32_v2 : forall a1 a2, run1 [] (ECast (tyv 2 SFloat) va) (VVec [VBool a1; VBool a2]) = Done (VVec [VF32 (if a1 then 1065353216 else 0); VF32 (if a2 then 1065353216 else 0)]).
Proof. intros; ev; reflexivity. Qed.

Lemma msl_bitcast_i32_u32_v2 : forall a1 a2, run1 [] (EAsType (tyv 2 SUint) va) (VVec [VI32 a1; VI32 a2]) = Done (VVec [VU32 (a1); VU32 (a2)]).
Proof. intros; ev; reflexivity. Qed.

Lemma msl_bitcast_i32_f32_v2 : forall a1 a2, run1 [] (EAsType (tyv 2 SFloat) va) (VVec [VI32 a1; VI32 a2]) = Done (VVec [VF32 (a1); VF32 (a2)]).
Proof. intros; ev; reflexivity. Qed.

Lemma msl_bitcast_u32_i32_v2 : forall a1 a2, run1 [] (EAsType (tyv 2 SInt) va) (VVec [VU32 a1; VU32 a2]) = Done (VVec [VI32 (a1); VI32 (a2)]).
Proof. intros; ev; reflexivity. Qed.

Lemma msl_bitcast_u32_f32_v2 : forall a1 a2, run1 [] (EAsType (tyv 2 SFloat) va) (VVec [VU32 a1; VU32 a2]) = Done (VVec [VF32 (a1); VF32 (a2)]).
Proof. intros; ev; reflexivity. Qed.

Lemma msl_bitcast_f32_i32_v2 : forall a1 a2, run1 [] (EAsType (tyv 2 SInt) va) (VVec [VF32 a1; VF32 a2]) = Done (VVec [VI32 (a1); VI32 (a2)]).
Proof. intros; ev; reflexivity. Qed.

Lemma msl_bitcast_f32_u32_v2 : forall a1 a2, run1 [] (EAsType (tyv 2 SUint) va) (VVec [VF32 a1; VF32 a2]) = Done (VVec [VU32 (a1); VU32 (a2)]).
Proof. intros; ev; reflexivity. Qed.

Lemma msl_select_i32_v2 : forall a1 a2 b1 b2 c1 c2, run3 [] (t_call3 "metal::select") (VVec [VI32 a1; VI32 a2]) (VVec [VI32 b1; VI32 b2]) (VVec [VBool c1; VBool c2]) = Done (VVec [(if c1 then VI32 b1 else VI32 a1); (if c2 then VI32 b2 else VI32 a2)]).
Proof. intros; ev; reflexivity. Qed.

Lemma msl_select_u32_v2 : forall a1 a2 b1 b2 c1 c2, run3 [] (t_call3 "metal::select") (VVec [VU32 a1; VU32 a2]) (VVec [VU32 b1; VU32 b2]) (VVec [VBool c1; VBool c2]) = Done (VVec [(if c1 then VU32 b1 else VU32 a1); (if c2 then VU32 b2 else VU32 a2)]).
Proof. intros; ev; reflexivity. Qed.

Lemma msl_select_f32_v2 : forall a1 a2 b1 b2 c1 c2, run3 [] (t_call3 "metal::select") (VVec [VF32 a1; VF32 a2]) (VVec [VF32 b1; VF32 b2]) (VVec [VBool c1; VBool c2]) = Done (VVec [(if c1 then VF32 b1 else VF32 a1); (if c2 then VF32 b2 else VF32 a2)]).
Proof. intros; ev; reflexivity. Qed.

Lemma msl_select_bool_v2 : forall a1 a2 b1 b2 c1 c2, run3 [] (t_call3 "metal::select") (VVec [VBool a1; VBool a2]) (VVec [VBool b1; VBool b2]) (VVec [VBool c1; VBool c2]) = Done (VVec [(if c1 then VBool b1 else VBool a1); (if c2 then VBool b2 else VBool a2)]).
Proof. intros; ev; reflexivity. Qed.

Lemma msl_add_i32_v3 : forall a1 a2 a3 b1 b2 b3, run2 [] (t_wrap_i32 BAdd 3) (VVec [VI32 a1; VI32 a2; VI32 a3]) (VVec [VI32 b1; VI32 b2; VI32 b3]) = Done (VVec [VI32 (add32 a1 b1); VI32 (add32 a2 b2); VI32 (add32 a3 b3)]).
Proof. intros; ev; reflexivity. Qed.

Lemma msl_add_u32_v3 : forall a1 a2 a3 b1 b2 b3, run2 [] (t_bin BAdd) (VVec [VU32 a1; VU32 a2; VU32 a3]) (VVec [VU32 b1; VU32 b2; VU32 b3]) = Done (VVec [VU32 (add32 a1 b1); VU32 (add32 a2 b2); VU32 (add32 a3 b3)]).
Proof. intros; ev; reflexivity. Qed.

Lemma msl_sub_i32_v3 : forall a1 a2 a3 b1 b2 b3, run2 [] (t_wrap_i32 BSub 3) (VVec [VI32 a1; VI32 a2; VI32 a3]) (VVec [VI32 b1; VI32 b2; VI32 b3]) = Done (VVec [VI32 (sub32 a1 b1); VI32 (sub32 a2 b2); VI32 (sub32 a3 b3)]).
Proof. intros; ev; reflexivity. Qed.

Lemma msl_sub_u32_v3 : forall a1 a2 a3 b1 b2 b3, run2 [] (t_bin BSub) (VVec [VU32 a1; VU32 a2; VU32 a3]) (VVec [VU32 b1; VU32 b2; VU32 b3]) = Done (VVec [VU32 (sub32 a1 b1); VU32 (sub32 a2 b2); VU32 (sub32 a3 b3)]).
Proof. intros; ev; reflexivity. Qed.

Lemma msl_mul_i32_v3 : forall a1 a2 a3 b1 b2 b3, run2 [] (t_wrap_i32 BMul 3) (VVec [VI32 a1; VI32 a2; VI32 a3]) (VVec [VI32 b1; VI32 b2; VI32 b3]) = Done (VVec [VI32 (mul32 a1 b1); VI32 (mul32 a2 b2); VI32 (mul32 a3 b3)]).
Proof. intros; ev; reflexivity. Qed.

Lemma msl_mul_u32_v3 : forall a1 a2 a3 b1 b2 b3, run2 [] (t_bin BMul) (VVec [VU32 a1; VU32 a2; VU32 a3]) (VVec [VU32 b1; VU32 b2; VU32 b3]) = Done (VVec [VU32 (mul32 a1 b1); VU32 (mul32 a2 b2); VU32 (mul32 a3 b3)]).
Proof. intros; ev; reflexivity. Qed.

Lemma msl_add_f32_v3 : forall a1 a2 a3 b1 b2 b3, run2 [] (t_bin BAdd) (VVec [VF32 a1; VF32 a2; VF32 a3]) (VVec [VF32 b1; VF32 b2; VF32 b3]) = Done (VVec [VF32 (fadd a1 b1); VF32 (fadd a2 b2); VF32 (fadd a3 b3)]).
Proof. intros; ev; reflexivity. Qed.

Lemma msl_sub_f32_v3 : forall a1 a2 a3 b1 b2 b3, run2 [] (t_bin BSub) (VVec [VF32 a1; VF32 a2; VF32 a3]) (VVec [VF32 b1; VF32 b2; VF32 b3]) = Done (VVec [VF32 (fsub a1 b1); VF32 (fsub a2 b2); VF32 (fsub a3 b3)]).
Proof. intros; ev; reflexivity. Qed.

Lemma msl_mul_f32_v3 : forall a1 a2 a3 b1 b2 b3, run2 [] (t_bin BMul) (VVec [VF32 a1; VF32 a2; VF32 a3]) (VVec [VF32 b1; VF32 b2; VF32 b3]) = Done (VVec [VF32 (fmul a1 b1); VF32 (fmul a2 b2); VF32 (fmul a3 b3)]).
Proof. intros; ev; reflexivity. Qed.

Lemma msl_div_f32_v3 : forall a1 a2 a3 b1 b2 b3, run2 [] (t_bin BDiv) (VVec [VF32 a1; VF32 a2; VF32 a3]) (VVec [VF32 b1; VF32 b2; VF32 b3]) = Done (VVec [VF32 (fdiv a1 b1); VF32 (fdiv a2 b2); VF32 (fdiv a3 b3)]).
Proof. intros; ev; reflexivity. Qed.

Lemma msl_eq_i32_v3 : forall a1 a2 a3 b1 b2 b3, run2 [] (t_bin BEq) (VVec [VI32 a1; VI32 a2; VI32 a3]) (VVec [VI32 b1; VI32 b2; VI32 b3]) = Done (VVec [VBool (a1 =? b1); VBool (a2 =? b2); VBool (a3 =? b3)]).
Proof. intros; ev; reflexivity. Qed.

Lemma msl_ne_i32_v3 : forall a1 a2 a3 b1 b2 b3, run2 [] (t_bin BNe) (VVec [VI32 a1; VI32 a2; VI32 a3]) (VVec [VI32 b1; VI32 b2; VI32 b3]) = Done (VVec [VBool (negb (a1 =? b1)); VBool (negb (a2 =? b2)); VBool (negb (a3 =? b3))]).
Proof. intros; ev; reflexivity. Qed.

Lemma msl_lt_i32_v3 : forall a1 a2 a3 b1 b2 b3, run2 [] (t_bin BLt) (VVec [VI32 a1; VI32 a2; VI32 a3]) (VVec [VI32 b1; VI32 b2; VI32 b3]) = Done (VVec [VBool (lt_i32 a1 b1); VBool (lt_i32 a2 b2); VBool (lt_i32 a3 b3)]).
Proof. intros; ev; reflexivity. Qed.

Lemma msl_le_i32_v3 : forall a1 a2 a3 b1 b2 b3, run2 [] (t_bin BLe) (VVec [VI32 a1; VI32 a2; VI32 a3]) (VVec [VI32 b1; VI32 b2; VI32 b3]) = Done (VVec [VBool (le_i32 a1 b1); VBool (le_i32 a2 b2); VBool (le_i32 a3 b3)]).
Proof. intros; ev; reflexivity. Qed.

Lemma msl_gt_i32_v3 : forall a1 a2 a3 b1 b2 b3, run2 [] (t_bin BGt) (VVec [VI32 a1; VI32 a2; VI32 a3]) (VVec [VI32 b1; VI32 b2; VI32 b3]) = Done (VVec [VBool (lt_i32 b1 a1); VBool (lt_i32 b2 a2); VBool (lt_i32 b3 a3)]).
Proof. intros; ev; reflexivity. Qed.

Lemma msl_ge_i32_v3 : forall a1 a2 a3 b1 b2 b3, run2 [] (t_bin BGe) (VVec [VI32 a1; VI32 a2; VI32 a3]) (VVec [VI32 b1; VI32 b2; VI32 b3]) = Done (VVec [VBool (le_i32 b1 a1); VBool (le_i32 b2 a2); VBool (le_i32 b3 a3)]).
Proof. intros; ev; reflexivity. Qed.

Lemma msl_eq_u32_v3 : forall a1 a2 a3 b1 b2 b3, run2 [] (t_bin BEq) (VVec [VU32 a1; VU32 a2; VU32 a3]) (VVec [VU32 b1; VU32 b2; VU32 b3]) = Done (VVec [VBool (a1 =? b1); VBool (a2 =? b2); VBool (a3 =? b3)]).
Proof. intros; ev; reflexivity. Qed.

Lemma msl_ne_u32_v3 : forall a1 a2 a3 b1 b2 b3, run2 [] (t_bin BNe) (VVec [VU32 a1; VU32 a2; VU32 a3]) (VVec [VU32 b1; VU32 b2; VU32 b3]) = Done (VVec [VBool (negb (a1 =? b1)); VBool (negb (a2 =? b2)); VBool (negb (a3 =? b3))]).
Proof. intros; ev; reflexivity. Qed.

Lemma msl_lt_u32_v3 : forall a1 a2 a3 b1 b2 b3, run2 [] (t_bin BLt) (VVec [VU32 a1; VU32 a2; VU32 a3]) (VVec [VU32 b1; VU32 b2; VU32 b3]) = Done (VVec [VBool (lt_u32 a1 b1); VBool (lt_u32 a2 b2); VBool (lt_u32 a3 b3)]).
Proof. intros; ev; reflexivity. Qed.

Lemma msl_le_u32_v3 : forall a1 a2 a3 b1 b2 b3, run2 [] (t_bin BLe) (VVec [VU32 a1; VU32 a2; VU32 a3]) (VVec [VU32 b1; VU32 b2; VU32 b3]) = Done (VVec [VBool (le_u32 a1 b1); VBool (le_u32 a2 b2); VBool (le_u32 a3 b3)]).
Proof. intros; ev; reflexivity. Qed.

Lemma msl_gt_u32_v3 : forall a1 a2 a3 b1 b2 b3, run2 [] (t_bin BGt) (VVec [VU32 a1; VU32 a2; VU32 a3]) (VVec [VU32 b1; VU32 b2; VU32 b3]) = Done (VVec [VBool (lt_u32 b1 a1); VBool (lt_u32 b2 a2); VBool (lt_u32 b3 a3)]).
Proof. intros; ev; reflexivity. Qed.

Lemma msl_ge_u32_v3 : forall a1 a2 a3 b1 b2 b3, run2 [] (t_bin BGe) (VVec [VU32 a1; VU32 a2; VU32 a3]) (VVec [VU32 b1; VU32 b2; VU32 b3]) = Done (VVec [VBool (le_u32 b1 a1); VBool (le_u32 b2 a2); VBool (le_u32 b3 a3)]).
Proof. intros; ev; reflexivity. Qed.

Lemma msl_eq_f32_v3 : forall a1 a2 a3 b1 b2 b3, run2 [] (t_bin BEq) (VVec [VF32 a1; VF32 a2; VF32 a3]) (VVec [VF32 b1; VF32 b2; VF32 b3]) = Done (VVec [VBool (feq a1 b1); VBool (feq a2 b2); VBool (feq a3 b3)]).
Proof. intros; ev; reflexivity. Qed.

Lemma msl_ne_f32_v3 : forall a1 a2 a3 b1 b2 b3, run2 [] (t_bin BNe) (VVec [VF32 a1; VF32 a2; VF32 a3]) (VVec [VF32 b1; VF32 b2; VF32 b3]) = Done (VVec [VBool (fne a1 b1); VBool (fne a2 b2); VBool (fne a3 b3)]).
Proof. intros; ev; reflexivity. Qed.

Lemma msl_lt_f32_v3 : forall a1 a2 a3 b1 b2 b3, run2 [] (t_bin BLt) (VVec [VF32 a1; VF32 a2; VF32 a3]) (VVec [VF32 b1; VF32 b2; VF32 b3]) = Done (VVec [VBool (flt a1 b1); VBool (flt a2 b2); VBool (flt a3 b3)]).
Proof. intros; ev; reflexivity. Qed.

Lemma msl_le_f32_v3 : forall a1 a2 a3 b1 b2 b3, run2 [] (t_bin BLe) (VVec [VF32 a1; VF32 a2; VF32 a3]) (VVec [VF32 b1; VF32 b2; VF32 b3]) = Done (VVec [VBool (fle a1 b1); VBool (fle a2 b2); VBool (fle a3 b3)]).
Proof. intros; ev; reflexivity. Qed.

Lemma msl_gt_f32_v3 : forall a1 a2 a3 b1 b2 b3, run2 [] (t_bin BGt) (VVec [VF32 a1; VF32 a2; VF32 a3]) (VVec [VF32 b1; VF32 b2; VF32 b3]) = Done (VVec [VBool (fgt a1 b1); VBool (fgt a2 b2); VBool (fgt a3 b3)]).
Proof. intros; ev; reflexivity. Qed.

Lemma msl_ge_f32_v3 : forall a1 a2 a3 b1 b2 b3, run2 [] (t_bin BGe) (VVec [VF32 a1; VF32 a2; VF32 a3]) (VVec [VF32 b1; VF32 b2; VF32 b3]) = Done (VVec [VBool (fge a1 b1); VBool (fge a2 b2); VBool (fge a3 b3)]).
Proof. intros; ev; reflexivity. Qed.

Lemma msl_and_i32_v3 : forall a1 a2 a3 b1 b2 b3, run2 [] (t_bin BAnd) (VVec [VI32 a1; VI32 a2; VI32 a3]) (VVec [VI32 b1; VI32 b2; VI32 b3]) = Done (VVec [VI32 (and32 a1 b1); VI32 (and32 a2 b2); VI32 (and32 a3 b3)]).
Proof. intros; ev; reflexivity. Qed.

Lemma msl_or_i32_v3 : forall a1 a2 a3 b1 b2 b3, run2 [] (t_bin BOr) (VVec [VI32 a1; VI32 a2; VI32 a3]) (VVec [VI32 b1; VI32 b2; VI32 b3]) = Done (VVec [VI32 (or32 a1 b1); VI32 (or32 a2 b2); VI32 (or32 a3 b3)]).
Proof. intros; ev; reflexivity. Qed.

Lemma msl_xor_i32_v3 : forall a1 a2 a3 b1 b2 b3, run2 [] (t_bin BXor) (VVec [VI32 a1; VI32 a2; VI32 a3]) (VVec [VI32 b1; VI32 b2; VI32 b3]) = Done (VVec [VI32 (xor32 a1 b1); VI32 (xor32 a2 b2); VI32 (xor32 a3 b3)]).
Proof. intros; ev; reflexivity. Qed.

Lemma msl_shl_i32_v3 : forall a1 a2 a3 b1 b2 b3, run2 [] (t_bin BShl) (VVec [VI32 a1; VI32 a2; VI32 a3]) (VVec [VU32 b1; VU32 b2; VU32 b3]) = Done (VVec [VI32 (shl32 a1 b1); VI32 (shl32 a2 b2); VI32 (shl32 a3 b3)]).
Proof. intros; ev; reflexivity. Qed.

Lemma msl_shr_i32_v3 : forall a1 a2 a3 b1 b2 b3, run2 [] (t_bin BShr) (VVec [VI32 a1; VI32 a2; VI32 a3]) (VVec [VU32 b1; VU32 b2; VU32 b3]) = Done (VVec [VI32 (shr_i32 a1 b1); VI32 (shr_i32 a2 b2); VI32 (shr_i32 a3 b3)]).
Proof. intros; ev; reflexivity. Qed.

Lemma msl_not_i32_v3 : forall a1 a2 a3, run1 [] (EUn UBitNot va) (VVec [VI32 a1; VI32 a2; VI32 a3]) = Done (VVec [VI32 (not32 a1); VI32 (not32 a2); VI32 (not32 a3)]).
Proof. intros; ev; reflexivity. Qed.

Lemma msl_and_u32_v3 : forall a1 a2 a3 b1 b2 b3, run2 [] (t_bin BAnd) (VVec [VU32 a1; VU32 a2; VU32 a3]) (VVec [VU32 b1; VU32 b2; VU32 b3]) = Done (VVec [VU32 (and32 a1 b1); VU32 (and32 a2 b2); VU32 (and32 a3 b3)]).
Proof. intros; ev; reflexivity. Qed.

Lemma msl_or_u32_v3 : forall a1 a2 a3 b1 b2 b3, run2 [] (t_bin BOr) (VVec [VU32 a1; VU32 a2; VU32 a3]) (VVec [VU32 b1; VU32 b2; VU32 b3]) = Done (VVec [VU32 (or32 a1 b1); VU32 (or32 a2 b2); VU32 (or32 a3 b3)]).
Proof. intros; ev; reflexivity. Qed.

Lemma msl_xor_u32_v3 : forall a1 a2 a3 b1 b2 b3, run2 [] (t_bin BXor) (VVec [VU32 a1; VU32 a2; VU32 a3]) (VVec [VU32 b1; VU32 b2; VU32 b3]) = Done (VVec [VU32 (xor32 a1 b1); VU32 (xor32 a2 b2); VU32 (xor32 a3 b3)]).
Proof. intros; ev; reflexivity. Qed.

Lemma msl_shl_u32_v3 : forall a1 a2 a3 b1 b2 b3, run2 [] (t_bin BShl) (VVec [VU32 a1; VU32 a2; VU32 a3]) (VVec [VU32 b1; VU32 b2; VU32 b3]) = Done (VVec [VU32 (shl32 a1 b1); VU32 (shl32 a2 b2); VU32 (shl32 a3 b3)]).
Proof. intros; ev; reflexivity. Qed.

Lemma msl_shr_u32_v3 : forall a1 a2 a3 b1 b2 b3, run2 [] (t_bin BShr) (VVec [VU32 a1; VU32 a2; VU32 a3]) (VVec [VU32 b1; VU32 b2; VU32 b3]) = Done (VVec [VU32 (shr_u32 a1 b1); VU32 (shr_u32 a2 b2); VU32 (shr_u32 a3 b3)]).
Proof. intros; ev; reflexivity. Qed.

Lemma msl_not_u32_v3 : forall a1 a2 a3, run1 [] (EUn UBitNot va) (VVec [VU32 a1; VU32 a2; VU32 a3]) = Done (VVec [VU32 (not32 a1); VU32 (not32 a2); VU32 (not32 a3)]).
Proof. intros; ev; reflexivity. Qed.

Lemma msl_and_bool_v3 : forall a1 a2 a3 b1 b2 b3, run2 [] (t_bin BAnd) (VVec [VBool a1; VBool a2; VBool a3]) (VVec [VBool b1; VBool b2; VBool b3]) = Done (VVec [VBool (andb a1 b1); VBool (andb a2 b2); VBool (andb a3 b3)]).
Proof. intros; ev; reflexivity. Qed.

Lemma msl_or_bool_v3 : forall a1 a2 a3 b1 b2 b3, run2 [] (t_bin BOr) (VVec [VBool a1; VBool a2; VBool a3]) (VVec [VBool b1; VBool b2; VBool b3]) = Done (VVec [VBool (orb a1 b1); VBool (orb a2 b2); VBool (orb a3 b3)]).
Proof. intros; ev; reflexivity. Qed.

Lemma msl_lnot_bool_v3 : forall a1 a2 a3, run1 [] (EUn UNot va) (VVec [VBool a1; VBool a2; VBool a3]) = Done (VVec [VBool (negb a1); VBool (negb a2); VBool (negb a3)]).
Proof. intros; ev; reflexivity. Qed.

Lemma msl_neg_f32_v3 : forall a1 a2 a3, run1 [] (EUn UNeg va) (VVec [VF32 a1; VF32 a2; VF32 a3]) = Done (VVec [VF32 (fneg a1); VF32 (fneg a2); VF32 (fneg a3)]).
Proof. intros; ev; reflexivity. Qed.

Lemma msl_min_i32_v3 : forall a1 a2 a3 b1 b2 b3, run2 [] (t_call2 "metal::min") (VVec [VI32 a1; VI32 a2; VI32 a3]) (VVec [VI32 b1; VI32 b2; VI32 b3]) = Done (VVec [VI32 (min_i32 a1 b1); VI32 (min_i32 a2 b2); VI32 (min_i32 a3 b3)]).
Proof. intros; ev; reflexivity. Qed.

Lemma msl_max_i32_v3 : forall a1 a2 a3 b1 b2 b3, run2 [] (t_call2 "metal::max") (VVec [VI32 a1; VI32 a2; VI32 a3]) (VVec [VI32 b1; VI32 b2; VI32 b3]) = Done (VVec [VI32 (max_i32 a1 b1); VI32 (max_i32 a2 b2); VI32 (max_i32 a3 b3)]).
Proof. intros; ev; reflexivity. Qed.

Lemma msl_clamp_i32_v3 : forall a1 a2 a3 b1 b2 b3 c1 c2 c3, run3 [] (t_call3 "metal::clamp") (VVec [VI32 a1; VI32 a2; VI32 a3]) (VVec [VI32 b1; VI32 b2; VI32 b3]) (VVec [VI32 c1; VI32 c2; VI32 c3]) = Done (VVec [VI32 (clamp_i32 a1 b1 c1); VI32 (clamp_i32 a2 b2 c2); VI32 (clamp_i32 a3 b3 c3)]).
Proof. intros; ev; reflexivity. Qed.

Lemma msl_min_u32_v3 : forall a1 a2 a3 b1 b2 b3, run2 [] (t_call2 "metal::min") (VVec [VU32 a1; VU32 a2; VU32 a3]) (VVec [VU32 b1; VU32 b2; VU32 b3]) = Done (VVec [VU32 (min_u32 a1 b1); VU32 (min_u32 a2 b2); VU32 (min_u32 a3 b3)]).
Proof. intros; ev; reflexivity. Qed.

Lemma msl_max_u32_v3 : forall a1 a2 a3 b1 b2 b3, run2 [] (t_call2 "metal::max") (VVec [VU32 a1; VU32 a2; VU32 a3]) (VVec [VU32 b1; VU32 b2; VU32 b3]) = Done (VVec [VU32 (max_u32 a1 b1); VU32 (max_u32 a2 b2); VU32 (max_u32 a3 b3)]).
Proof. intros; ev; reflexivity. Qed.

Lemma msl_clamp_u32_v3 : forall a1 a2 a3 b1 b2 b3 c1 c2 c3, run3 [] (t_call3 "metal::clamp") (VVec [VU32 a1; VU32 a2; VU32 a3]) (VVec [VU32 b1; VU32 b2; VU32 b3]) (VVec [VU32 c1; VU32 c2; VU32 c3]) = Done (VVec [VU32 (clamp_u32 a1 b1 c1); VU32 (clamp_u32 a2 b2 c2); VU32 (clamp_u32 a3 b3 c3)]).
Proof. intros; ev; reflexivity. Qed.

Lemma msl_min_f32_v3 : forall a1 a2 a3 b1 b2 b3, run2 [] (t_call2 "metal::min") (VVec [VF32 a1; VF32 a2; VF32 a3]) (VVec [VF32 b1; VF32 b2; VF32 b3]) = Done (VVec [VF32 (fmin a1 b1); VF32 (fmin a2 b2); VF32 (fmin a3 b3)]).
Proof. intros; ev; reflexivity. Qed.

Lemma msl_max_f32_v3 : forall a1 a2 a3 b1 b2 b3, run2 [] (t_call2 "metal::max") (VVec [VF32 a1; VF32 a2; VF32 a3]) (VVec [VF32 b1; VF32 b2; VF32 b3]) = Done (VVec [VF32 (fmax a1 b1); VF32 (fmax a2 b2); VF32 (fmax a3 b3)]).
Proof. intros; ev; reflexivity. Qed.

Lemma msl_clamp_f32_v3 : forall a1 a2 a3 b1 b2 b3 c1 c2 c3, run3 [] (t_call3 "metal::clamp") (VVec [VF32 a1; VF32 a2; VF32 a3]) (VVec [VF32 b1; VF32 b2; VF32 b3]) (VVec [VF32 c1; VF32 c2; VF32 c3]) = Done (VVec [VF32 (fmin (fmax a1 b1) c1); VF32 (fmin (fmax a2 b2) c2); VF32 (fmin (fmax a3 b3) c3)]).
Proof. intros; ev; reflexivity. Qed.

Lemma msl_abs_u32_v3 : forall a1 a2 a3, run1 [] (t_call1 "metal::abs") (VVec [VU32 a1; VU32 a2; VU32 a3]) = Done (VVec [VU32 (a1); VU32 (a2); VU32 (a3)]).
Proof. intros; ev; reflexivity. Qed.

Lemma msl_abs_f32_v3 : forall a1 a2 a3, run1 [] (t_call1 "metal::abs") (VVec [VF32 a1; VF32 a2; VF32 a3]) = Done (VVec [VF32 (fabs a1); VF32 (fabs a2); VF32 (fabs a3)]).
Proof. intros; ev; reflexivity. Qed.

Lemma msl_popcount_i32_v3 : forall a1 a2 a3, run1 [] (t_call1 "metal::popcount") (VVec [VI32 a1; VI32 a2; VI32 a3]) = Done (VVec [VI32 (count_one_bits a1); VI32 (count_one_bits a2); VI32 (count_one_bits a3)]).
Proof. intros; ev; reflexivity. Qed.

Lemma msl_clz_i32_v3 : forall a1 a2 a3, run1 [] (t_call1 "metal::clz") (VVec [VI32 a1; VI32 a2; VI32 a3]) = Done (VVec [VI32 (count_leading_zeros a1); VI32 (count_leading_zeros a2); VI32 (count_leading_zeros a3)]).
Proof. intros; ev; reflexivity. Qed.

Lemma msl_ctz_i32_v3 : forall a1 a2 a3, run1 [] (t_call1 "metal::ctz") (VVec [VI32 a1; VI32 a2; VI32 a3]) = Done (VVec [VI32 (count_trailing_zeros a1); VI32 (count_trailing_zeros a2); VI32 (count_trailing_zeros a3)]).
Proof. intros; ev; reflexivity. Qed.

Lemma msl_reversebits_i32_v3 : forall a1 a2 a3, run1 [] (t_call1 "metal::reverse_bits") (VVec [VI32 a1; VI32 a2; VI32 a3]) = Done (VVec [VI32 (reverse_bits a1); VI32 (reverse_bits a2); VI32 (reverse_bits a3)]).
Proof. intros; ev; reflexivity. Qed.

Lemma msl_popcount_u32_v3 : forall a1 a2 a3, run1 [] (t_call1 "metal::popcount") (VVec [VU32 a1; VU32 a2; VU32 a3]) = Done (VVec [VU32 (count_one_bits a1); VU32 (count_one_bits a2); VU32 (count_one_bits a3)]).
Proof. intros; ev; reflexivity. Qed.

Lemma msl_clz_u32_v3 : forall a1 a2 a3, run1 [] (t_call1 "metal::clz") (VVec [VU32 a1; VU32 a2; VU32 a3]) = Done (VVec [VU32 (count_leading_zeros a1); VU32 (count_leading_zeros a2); VU32 (count_leading_zeros a3)]).
Proof. intros; ev; reflexivity. Qed.

Lemma msl_ctz_u32_v3 : forall a1 a2 a3, run1 [] (t_call1 "metal::ctz") (VVec [VU32 a1; VU32 a2; VU32 a3]) = Done (VVec [VU32 (count_trailing_zeros a1); VU32 (count_trailing_zeros a2); VU32 (count_trailing_zeros a3)]).
Proof. intros; ev; reflexivity. Qed.

Lemma msl_reversebits_u32_v3 : forall a1 a2 a3, run1 [] (t_call1 "metal::reverse_bits") (VVec [VU32 a1; VU32 a2; VU32 a3]) = Done (VVec [VU32 (reverse_bits a1); VU32 (reverse_bits a2); VU32 (reverse_bits a3)]).
Proof. intros; ev; reflexivity. Qed.

Lemma msl_floor_f32_v3 : forall a1 a2 a3, run1 [] (t_call1 "metal::floor") (VVec [VF32 a1; VF32 a2; VF32 a3]) = Done (VVec [VF32 (ffloor a1); VF32 (ffloor a2); VF32 (ffloor a3)]).
Proof. intros; ev; reflexivity. Qed.

Lemma msl_ceil_f32_v3 : forall a1 a2 a3, run1 [] (t_call1 "metal::ceil") (VVec [VF32 a1; VF32 a2; VF32 a3]) = Done (VVec [VF32 (fceil a1); VF32 (fceil a2); VF32 (fceil a3)]).
Proof. intros; ev; reflexivity. Qed.

Lemma msl_trunc_f32_v3 : forall a1 a2 a3, run1 [] (t_call1 "metal::trunc") (VVec [VF32 a1; VF32 a2; VF32 a3]) = Done (VVec [VF32 (ftrunc a1); VF32 (ftrunc a2); VF32 (ftrunc a3)]).
Proof. intros; ev; reflexivity. Qed.

Lemma msl_sqrt_f32_v3 : forall a1 a2 a3, run1 [] (t_call1 "metal::sqrt") (VVec [VF32 a1; VF32 a2; VF32 a3]) = Done (VVec [VF32 (fsqrt a1); VF32 (fsqrt a2); VF32 (fsqrt a3)]).
Proof. intros; ev; reflexivity. Qed.

Lemma msl_fma_f32_v3 : forall a1 a2 a3 b1 b2 b3 c1 c2 c3, run3 [] (t_call3 "metal::fma") (VVec [VF32 a1; VF32 a2; VF32 a3]) (VVec [VF32 b1; VF32 b2; VF32 b3]) (VVec [VF32 c1; VF32 c2; VF32 c3]) = Done (VVec [VF32 (ffma a1 b1 c1); VF32 (ffma a2 b2 c2); VF32 (ffma a3 b3 c3)]).
Proof. intros; ev; reflexivity. Qed.

Lemma msl_conv_i32_u32_v3 : forall a1 a2 a3, run1 [] (ECast (tyv 3 SUint) va) (VVec [VI32 a1; VI32 a2; VI32 a3]) = Done (VVec [VU32 (a1); VU32 (a2); VU32 (a3)]).
Proof. intros; ev; reflexivity. Qed.

Lemma msl_conv_i32_f32_v3 : forall a1 a2 a3, run1 [] (ECast (tyv 3 SFloat) va) (VVec [VI32 a1; VI32 a2; VI32 a3]) = Done (VVec [VF32 (f32_of_i32 a1); VF32 (f32_of_i32 a2); VF32 (f32_of_i32 a3)]).
Proof. intros; ev; reflexivity. Qed.

Lemma msl_conv_i32_bool_v3 : forall a1 a2 a3, run1 [] (ECast (tyv 3 SBool) va) (VVec [VI32 a1; VI32 a2; VI32 a3]) = Done (VVec [VBool (bool_of_32 a1); VBool (bool_of_32 a2); VBool (bool_of_32 a3)]).
Proof. intros; ev; reflexivity. Qed.

Lemma msl_conv_u32_i32_v3 : forall a1 a2 a3, run1 [] (ECast (tyv 3 SInt) va) (VVec [VU32 a1; VU32 a2; VU32 a3]) = Done (VVec [VI32 (a1); VI32 (a2); VI32 (a3)]).
Proof. intros; ev; reflexivity. Qed.

Lemma msl_conv_u32_f32_v3 : forall a1 a2 a3, run1 [] (ECast (tyv 3 SFloat) va) (VVec [VU32 a1; VU32 a2; VU32 a3]) = Done (VVec [VF32 (f32_of_u32 a1); VF32 (f32_of_u32 a2); VF32 (f32_of_u32 a3)]).
Proof. intros; ev; reflexivity. Qed.

Lemma msl_conv_u32_bool_v3 : forall a1 a2 a3, run1 [] (ECast (tyv 3 SBool) va) (VVec [VU32 a1; VU32 a2; VU32 a3]) = Done (VVec [VBool (bool_of_32 a1); VBool (bool_of_32 a2); VBool (bool_of_32 a3)]).
Proof. intros; ev; reflexivity. Qed.

Lemma msl_conv_f32_bool_v3 : forall a1 a2 a3, run1 [] (ECast (tyv 3 SBool) va) (VVec [VF32 a1; VF32 a2; VF32 a3]) = Done (VVec [VBool (negb (feq a1 0)); VBool (negb (feq a2 0)); VBool (negb (feq a3 0))]).
Proof. intros; ev; reflexivity. Qed.

Lemma msl_conv_bool_i32_v3 : forall a1 a2 a3, run1 [] (ECast (tyv 3 SInt) va) (VVec [VBool a1; VBool a2; VBool a3]) = Done (VVec [VI32 (u32_of_bool a1); VI32 (u32_of_bool a2); VI32 (u32_of_bool a3)]).
Proof. intros; ev; reflexivity. Qed.

Lemma msl_conv_bool_u32_v3 : forall a1 a2 a3, run1 [] (ECast (tyv 3 SUint) va) (VVec [VBool a1; VBool a2; VBool a3]) = Done (VVec [VU32 (u32_of_bool a1); VU32 (u32_of_bool a2); VU32 (u32_of_bool a3)]).
Proof. intros; ev; reflexivity. Qed.

Lemma msl_conv_bool_f32_v3 : forall a1 a2 a3, run1 [] (ECast (tyv 3 SFloat) va) (VVec [VBool a1; VBool a2; VBool a3]) = Done (VVec [VF32 (if a1 then 1065353216 else 0); VF32 (if a2 then 1065353216 else 0); VF32 (if a3 then 1065353216 else 0)]).
Proof. intros; ev; reflexivity. Qed.

Lemma msl_bitcast_i32_u32_v3 : forall a1 a2 a3, run1 [] (EAsType (tyv 3 SUint) va) (VVec [VI32 a1; VI32 a2; VI32 a3]) = Done (VVec [VU32 (a1); VU32 (a2); VU32 (a3)]).
Proof. intros; ev; reflexivity. Qed.

Lemma msl_bitcast_i32_f32_v3 : forall a1 a2 a3, run1 [] (EAsType (tyv 3 SFloat) va) (VVec [VI32 a1; VI32 a2; VI32 a3]) = Done (VVec [VF32 (a1); VF32 (a2); VF32 (a3)]).
Proof. intros; ev; reflexivity. Qed.

Lemma msl_bitcast_u32_i32_v3 : forall a1 a2 a3, run1 [] (EAsType (tyv 3 SInt) va) (VVec [VU32 a1; VU32 a2; VU32 a3]) = Done (VVec [VI32 (a1); VI32 (a2); VI32 (a3)]).
Proof. intros; ev; reflexivity. Qed.

Lemma msl_bitcast_u32_f32_v3 : forall a1 a2 a3, run1 [] (EAsType (tyv 3 SFloat) va) (VVec [VU32 a1; VU32 a2; VU32 a3]) = Done (VVec [VF32 (a1); VF32 (a2); VF32 (a3)]).
Proof. intros; ev; reflexivity. Qed.

Lemma msl_bitcast_f32_i32_v3 : forall a1 a2 a3, run1 [] (EAsType (tyv 3 SInt) va) (VVec [VF32 a1; VF32 a2; VF32 a3]) = Done (VVec [VI32 (a1); VI32 (a2); VI32 (a3)]).
Proof. intros; ev; reflexivity. Qed.

Lemma msl_bitcast_f32_u32_v3 : forall a1 a2 a3, run1 [] (EAsType (tyv 3 SUint) va) (VVec [VF32 a1; VF32 a2; VF32 a3]) = Done (VVec [VU32 (a1); VU32 (a2); VU32 (a3)]).
Proof. intros; ev; reflexivity. Qed.

Lemma msl_select_i32_v3 : forall a1 a2 a3 b1 b2 b3 c1 c2 c3, run3 [] (t_call3 "metal::select") (VVec [VI32 a1; VI32 a2; VI32 a3]) (VVec [VI32 b1; VI32 b2; VI32 b3]) (VVec [VBool c1; VBool c2; VBool c3]) = Done (VVec [(if c1 then VI32 b1 else VI32 a1); (if c2 then VI32 b2 else VI32 a2); (if c3 then VI32 b3 else VI32 a3)]).
Proof. intros; ev; reflexivity. Qed.

Lemma msl_select_u32_v3 : forall a1 a2 a3 b1 b2 b3 c1 c2 c3, run3 [] (t_call3 "metal::select") (VVec [VU32 a1; VU32 a2; VU32 a3]) (VVec [VU32 b1; VU32 b2; VU32 b3]) (VVec [VBool c1; VBool c2; VBool c3]) = Done (VVec [(if c1 then VU32 b1 else VU32 a1); (if c2 then VU32 b2 else VU32 a2); (if c3 then VU32 b3 else VU32 a3)]).
Proof. intros; ev; reflexivity. Qed.

Lemma msl_select_f32_v3 : forall a1 a2 a3 b1 b2 b3 c1 c2 c3, run3 [] (t_call3 "metal::select") (VVec [VF32 a1; VF32 a2; VF32 a3]) (VVec [VF32 b1; VF32 b2; VF32 b3]) (VVec [VBool c1; VBool c2; VBool c3]) = Done (VVec [(if c1 then VF32 b1 else VF32 a1); (if c2 then VF32 b2 else VF32 a2); (if c3 then VF32 b3 else VF32 a3)]).
Proof. intros; ev; reflexivity. Qed.

Lemma msl_select_bool_v3 : forall a1 a2 a3 b1 b2 b3 c1 c2 c3, run3 [] (t_call3 "metal::select") (VVec [VBool a1; VBool a2; VBool a3]) (VVec [VBool b1; VBool b2; VBool b3]) (VVec [VBool c1; VBool c2; VBool c3]) = Done (VVec [(if c1 then VBool b1 else VBool a1); (if c2 then VBool b2 else VBool a2); (if c3 then VBool b3 else VBool a3)]).
Proof. intros; ev; reflexivity. Qed.

Lemma msl_add_i32_v4 : forall a1 a2 a3 a4 b1 b2 b3 b4, run2 [] (t_wrap_i32 BAdd 4) (VVec [VI32 a1; VI32 a2; VI32 a3; VI32 a4]) (VVec [VI32 b1; VI32 b2; VI32 b3; VI32 b4]) = Done (VVec [VI32 (add32 a1 b1); VI32 (add32 a2 b2); VI32 (add32 a3 b3); VI32 (add32 a4 b4)]).
Proof. intros; ev; reflexivity. Qed.

Lemma msl_add_u32_v4 : forall a1 a2 a3 a4 b1 b2 b3 b4, run2 [] (t_bin BAdd) (VVec [VU32 a1; VU32 a2; VU32 a3; VU32 a4]) (VVec [VU32 b1; VU32 b2; VU32 b3; VU32 b4]) = Done (VVec [VU32 (add32 a1 b1); VU32 (add32 a2 b2); VU32 (add32 a3 b3); VU32 (add32 a4 b4)]).
Proof. intros; ev; reflexivity. Qed.

Lemma msl_sub_i32_v4 : forall a1 a2 a3 a4 b1 b2 b3 b4, run2 [] (t_wrap_i32 BSub 4) (VVec [VI32 a1; VI32 a2; VI32 a3; VI32 a4]) (VVec [VI32 b1; VI32 b2; VI32 b3; VI32 b4]) = Done (VVec [VI32 (sub32 a1 b1); VI32 (sub32 a2 b2); VI32 (sub32 a3 b3); VI32 (sub32 a4 b4)]).
Proof. intros; ev; reflexivity. Qed.

Lemma msl_sub_u32_v4 : forall a1 a2 a3 a4 b1 b2 b3 b4, run2 [] (t_bin BSub) (VVec [VU32 a1; VU32 a2; VU32 a3; VU32 a4]) (VVec [VU32 b1; VU32 b2; VU32 b3; VU32 b4]) = Done (VVec [VU32 (sub32 a1 b1); VU32 (sub32 a2 b2); VU32 (sub32 a3 b3); VU32 (sub32 a4 b4)]).
Proof. intros; ev; reflexivity. Qed.

Lemma msl_mul_i32_v4 : forall a1 a2 a3 a4 b1 b2 b3 b4, run2 [] (t_wrap_i32 BMul 4) (VVec [VI32 a1; VI32 a2; VI32 a3; VI32 a4]) (VVec [VI32 b1; VI32 b2; VI32 b3; VI32 b4]) = Done (VVec [VI32 (mul32 a1 b1); VI32 (mul32 a2 b2); VI32 (mul32 a3 b3); VI32 (mul32 a4 b4)]).
Proof. intros; ev; reflexivity. Qed.

Lemma msl_mul_u32_v4 : forall a1 a2 a3 a4 b1 b2 b3 b4, run2 [] (t_bin BMul) (VVec [VU32 a1; VU32 a2; VU32 a3; VU32 a4]) (VVec [VU32 b1; VU32 b2; VU32 b3; VU32 b4]) = Done (VVec [VU32 (mul32 a1 b1); VU32 (mul32 a2 b2); VU32 (mul32 a3 b3); VU32 (mul32 a4 b4)]).
Proof. intros; ev; reflexivity. Qed.

Lemma msl_add_f32_v4 : forall a1 a2 a3 a4 b1 b2 b3 b4, run2 [] (t_bin BAdd) (VVec [VF32 a1; VF32 a2; VF32 a3; VF32 a4]) (VVec [VF32 b1; VF32 b2; VF32 b3; VF32 b4]) = Done (VVec [VF32 (fadd a1 b1); VF32 (fadd a2 b2); VF32 (fadd a3 b3); VF32 (fadd a4 b4)]).
Proof. intros; ev; reflexivity. Qed.

Lemma msl_sub_f32_v4 : forall a1 a2 a3 a4 b1 b2 b3 b4, run2 [] (t_bin BSub) (VVec [VF32 a1; VF32 a2; VF32 a3; VF32 a4]) (VVec [VF32 b1; VF32 b2; VF32 b3; VF32 b4]) = Done (VVec [VF32 (fsub a1 b1); VF32 (fsub a2 b2); VF32 (fsub a3 b3); VF32 (fsub a4 b4)]).
Proof. intros; ev; reflexivity. Qed.

Lemma msl_mul_f32_v4 : forall a1 a2 a3 a4 b1 b2 b3 b4, run2 [] (t_bin BMul) (VVec [VF32 a1; VF32 a2; VF32 a3; VF32 a4]) (VVec [VF32 b1; VF32 b2; VF32 b3; VF32 b4]) = Done (VVec [VF32 (fmul a1 b1); VF32 (fmul a2 b2); VF32 (fmul a3 b3); VF32 (fmul a4 b4)]).
Proof. intros; ev; reflexivity. Qed.

Lemma msl_div_f32_v4 : forall a1 a2 a3 a4 b1 b2 b3 b4, run2 [] (t_bin BDiv) (VVec [VF32 a1; VF32 a2; VF32 a3; VF32 a4]) (VVec [VF32 b1; VF32 b2; VF32 b3; VF32 b4]) = Done (VVec [VF32 (fdiv a1 b1); VF32 (fdiv a2 b2); VF32 (fdiv a3 b3); VF32 (fdiv a4 b4)]).
Proof. intros; ev; reflexivity. Qed.

Lemma msl_eq_i32_v4 : forall a1 a2 a3 a4 b1 b2 b3 b4, run2 [] (t_bin BEq) (VVec [VI32 a1; VI32 a2; VI32 a3; VI32 a4]) (VVec [VI32 b1; VI32 b2; VI32 b3; VI32 b4]) = Done (VVec [VBool (a1 =? b1); VBool (a2 =? b2); VBool (a3 =? b3); VBool (a4 =? b4)]).
Proof. intros; ev; reflexivity. Qed.

Lemma msl_ne_i32_v4 : forall a1 a2 a3 a4 b1 b2 b3 b4, run2 [] (t_bin BNe) (VVec [VI32 a1; VI32 a2; VI32 a3; VI32 a4]) (VVec [VI32 b1; VI32 b2; VI32 b3; VI32 b4]) = Done (VVec [VBool (negb (a1 =? b1)); VBool (negb (a2 =? b2)); VBool (negb (a3 =? b3)); VBool (negb (a4 =? b4))]).
Proof. intros; ev; reflexivity. Qed.

Lemma msl_lt_i32_v4 : forall a1 a2 a3 a4 b1 b2 b3 b4, run2 [] (t_bin BLt) (VVec [VI32 a1; VI32 a2; VI32 a3; VI32 a4]) (VVec [VI32 b1; VI32 b2; VI32 b3; VI32 b4]) = Done (VVec [VBool (lt_i32 a1 b1); VBool (lt_i32 a2 b2); VBool (lt_i32 a3 b3); VBool (lt_i32 a4 b4)]).
Proof. intros; ev; reflexivity. Qed.

Lemma msl_le_i32_v4 : forall a1 a2 a3 a4 b1 b2 b3 b4, run2 [] (t_bin BLe) (VVec [VI32 a1; VI32 a2; VI32 a3; VI32 a4]) (VVec [VI32 b1; VI32 b2; VI32 b3; VI32 b4]) = Done (VVec [VBool (le_i32 a1 b1); VBool (le_i32 a2 b2); VBool (le_i32 a3 b3); VBool (le_i32 a4 b4)]).
Proof. intros; ev; reflexivity. Qed.

Lemma msl_gt_i32_v4 : forall a1 a2 a3 a4 b1 b2 b3 b4, run2 [] (t_bin BGt) (VVec [VI32 a1; VI32 a2; VI32 a3; VI32 a4]) (VVec [VI32 b1; VI32 b2; VI32 b3; VI32 b4]) = Done (VVec [VBool (lt_i32 b1 a1); VBool (lt_i32 b2 a2); VBool (lt_i32 b3 a3); VBool (lt_i32 b4 a4)]).
Proof. intros; ev; reflexivity. Qed.

Lemma msl_ge_i32_v4 : forall a1 a2 a3 a4 b1 b2 b3 b4, run2 [] (t_bin BGe) (VVec [VI32 a1; VI32 a2; VI32 a3; VI32 a4]) (VVec [VI32 b1; VI32 b2; VI32 b3; VI32 b4]) = Done (VVec [VBool (le_i32 b1 a1); VBool (le_i32 b2 a2); VBool (le_i32 b3 a3); VBool (le_i32 b4 a4)]).
Proof. intros; ev; reflexivity. Qed.

Lemma msl_eq_u32_v4 : forall a1 a2 a3 a4 b1 b2 b3 b4, run2 [] (t_bin BEq) (VVec [VU32 a1; VU32 a2; VU32 a3; VU32 a4]) (VVec [VU32 b1; VU32 b2; VU32 b3; VU32 b4]) = Done (VVec [VBool (a1 =? b1); VBool (a2 =? b2); VBool (a3 =? b3); VBool (a4 =? b4)]).
Proof. intros; ev; reflexivity. Qed.

Lemma msl_ne_u32_v4 : forall a1 a2 a3 a4 b1 b2 b3 b4, run2 [] (t_bin BNe) (VVec [VU32 a1; VU32 a2; VU32 a3; VU32 a4]) (VVec [VU32 b1; VU32 b2; VU32 b3; VU32 b4]) = Done (VVec [VBool (negb (a1 =? b1)); VBool (negb (a2 =? b2)); VBool (negb (a3 =? b3)); VBool (negb (a4 =? b4))]).
Proof. intros; ev; reflexivity. Qed.

Lemma msl_lt_u32_v4 : forall a1 a2 a3 a4 b1 b2 b3 b4, run2 [] (t_bin BLt) (VVec [VU32 a1; VU32 a2; VU32 a3; VU32 a4]) (VVec [VU32 b1; VU32 b2; VU32 b3; VU32 b4]) = Done (VVec [VBool (lt_u32 a1 b1); VBool (lt_u32 a2 b2); VBool (lt_u32 a3 b3); VBool (lt_u32 a4 b4)]).
Proof. intros; ev; reflexivity. Qed.

Lemma msl_le_u32_v4 : forall a1 a2 a3 a4 b1 b2 b3 b4, run2 [] (t_bin BLe) (VVec [VU32 a1; VU32 a2; VU32 a3; VU32 a4]) (VVec [VU32 b1; VU32 b2; VU32 b3; VU32 b4]) = Done (VVec [VBool (le_u32 a1 b1); VBool (le_u32 a2 b2); VBool (le_u32 a3 b3); VBool (le_u32 a4 b4)]).
Proof. intros; ev; reflexivity. Qed.

Lemma msl_gt_u32_v4 : forall a1 a2 a3 a4 b1 b2 b3 b4, run2 [] (t_bin BGt) (VVec [VU32 a1; VU32 a2; VU32 a3; VU32 a4]) (VVec [VU32 b1; VU32 b2; VU32 b3; VU32 b4]) = Done (VVec [VBool (lt_u32 b1 a1); VBool (lt_u32 b2 a2); VBool (lt_u32 b3 a3); VBool (lt_u32 b4 a4)]).
Proof. intros; ev; reflexivity. Qed.

Lemma msl_ge_u32_v4 : forall a1 a2 a3 a4 b1 b2 b3 b4, run2 [] (t_bin BGe) (VVec [VU32 a1; VU32 a2; VU32 a3; VU32 a4]) (VVec [VU32 b1; VU32 b2; VU32 b3; VU32 b4]) = Done (VVec [VBool (le_u32 b1 a1); VBool (le_u32 b2 a2); VBool (le_u32 b3 a3); VBool (le_u32 b4 a4)]).
Proof. intros; ev; reflexivity. Qed.

Lemma msl_eq_f32_v4 : forall a1 a2 a3 a4 b1 b2 b3 b4, run2 [] (t_bin BEq) (VVec [VF32 a1; VF32 a2; VF32 a3; VF32 a4]) (VVec [VF32 b1; VF32 b2; VF32 b3; VF32 b4]) = Done (VVec [VBool (feq a1 b1); VBool (feq a2 b2); VBool (feq a3 b3); VBool (feq a4 b4)]).
Proof. intros; ev; reflexivity. Qed.

Lemma msl_ne_f32_v4 : forall a1 a2 a3 a4 b1 b2 b3 b4, run2 [] (t_bin BNe) (VVec [VF32 a1; VF32 a2; VF32 a3; VF32 a4]) (VVec [VF32 b1; VF32 b2; VF32 b3; VF32 b4]) = Done (VVec [VBool (fne a1 b1); VBool (fne a2 b2); VBool (fne a3 b3); VBool (fne a4 b4)]).
Proof. intros; ev; reflexivity. Qed.

Lemma msl_lt_f32_v4 : forall a1 a2 a3 a4 b1 b2 b3 b4, run2 [] (t_bin BLt) (VVec [VF32 a1; VF32 a2; VF32 a3; VF32 a4]) (VVec [VF32 b1; VF32 b2; VF32 b3; VF32 b4]) = Done (VVec [VBool (flt a1 b1); VBool (flt a2 b2); VBool (flt a3 b3); VBool (flt a4 b4)]).
Proof. intros; ev; reflexivity. Qed.

Lemma msl_le_f32_v4 : forall a1 a2 a3 a4 b1 b2 b3 b4, run2 [] (t_bin BLe) (VVec [VF32 a1; VF32 a2; VF32 a3; VF32 a4]) (VVec [VF32 b1; VF32 b2; VF32 b3; VF32 b4]) = Done (VVec [VBool (fle a1 b1); VBool (fle a2 b2); VBool (fle a3 b3); VBool (fle a4 b4)]).
Proof. intros; ev; reflexivity. Qed.

Lemma msl_gt_f32_v4 : forall a1 a2 a3 a4 b1 b2 b3 b4, run2 [] (t_bin BGt) (VVec [VF32 a1; VF32 a2; VF32 a3; VF32 a4]) (VVec [VF32 b1; VF32 b2; VF32 b3; VF32 b4]) = Done (VVec [VBool (fgt a1 b1); VBool (fgt a2 b2); VBool (fgt a3 b3); VBool (fgt a4 b4)]).
Proof. intros; ev; reflexivity. Qed.

Lemma msl_ge_f32_v4 : forall a1 a2 a3 a4 b1 b2 b3 b4, run2 [] (t_bin BGe) (VVec [VF32 a1; VF32 a2; VF32 a3; VF32 a4]) (VVec [VF32 b1; VF32 b2; VF32 b3; VF32 b4]) = Done (VVec [VBool (fge a1 b1); VBool (fge a2 b2); VBool (fge a3 b3); VBool (fge a4 b4)]).
Proof. intros; ev; reflexivity. Qed.

Lemma msl_and_i32_v4 : forall a1 a2 a3 a4 b1 b2 b3 b4, run2 [] (t_bin BAnd) (VVec [VI32 a1; VI32 a2; VI32 a3; VI32 a4]) (VVec [VI32 b1; VI32 b2; VI32 b3; VI32 b4]) = Done (VVec [VI32 (and32 a1 b1); VI32 (and32 a2 b2); VI32 (and32 a3 b3); VI32 (and32 a4 b4)]).
Proof. intros; ev; reflexivity. Qed.

Lemma msl_or_i32_v4 : forall a1 a2 a3 a4 b1 b2 b3 b4, run2 [] (t_bin BOr) (VVec [VI32 a1; VI32 a2; VI32 a3; VI32 a4]) (VVec [VI32 b1; VI32 b2; VI32 b3; VI32 b4]) = Done (VVec [VI32 (or32 a1 b1); VI32 (or32 a2 b2); VI32 (or32 a3 b3); VI32 (or32 a4 b4)]).
Proof. intros; ev; reflexivity. Qed.

Lemma msl_xor_i32_v4 : forall a1 a2 a3 a4 b1 b2 b3 b4, run2 [] (t_bin BXor) (VVec [VI32 a1; VI32 a2; VI32 a3; VI32 a4]) (VVec [VI32 b1; VI32 b2; VI32 b3; VI32 b4]) = Done (VVec [VI32 (xor32 a1 b1); VI32 (xor32 a2 b2); VI32 (xor32 a3 b3); VI32 (xor32 a4 b4)]).
Proof. intros; ev; reflexivity. Qed.

Lemma msl_shl_i32_v4 : forall a1 a2 a3 a4 b1 b2 b3 b4, run2 [] (t_bin BShl) (VVec [VI32 a1; VI32 a2; VI32 a3; VI32 a4]) (VVec [VU32 b1; VU32 b2; VU32 b3; VU32 b4]) = Done (VVec [VI32 (shl32 a1 b1); VI32 (shl32 a2 b2); VI32 (shl32 a3 b3); VI32 (shl32 a4 b4)]).
Proof. intros; ev; reflexivity. Qed.

Lemma msl_shr_i32_v4 : forall a1 a2 a3 a4 b1 b2 b3 b4, run2 [] (t_bin BShr) (VVec [VI32 a1; VI32 a2; VI32 a3; VI32 a4]) (VVec [VU32 b1; VU32 b2; VU32 b3; VU32 b4]) = Done (VVec [VI32 (shr_i32 a1 b1); VI32 (shr_i32 a2 b2); VI32 (shr_i32 a3 b3); VI32 (shr_i32 a4 b4)]).
Proof. intros; ev; reflexivity. Qed.

Lemma msl_not_i32_v4 : forall a1 a2 a3 a4, run1 [] (EUn UBitNot va) (VVec [VI32 a1; VI32 a2; VI32 a3; VI32 a4]) = Done (VVec [VI32 (not32 a1); VI32 (not32 a2); VI32 (not32 a3); VI32 (not32 a4)]).
Proof. intros; ev; reflexivity. Qed.

Lemma msl_and_u32_v4 : forall a1 a2 a3 a4 b1 b2 b3 b4, run2 [] (t_bin BAnd) (VVec [VU32 a1; VU32 a2; VU32 a3; VU32 a4]) (VVec [VU32 b1; VU32 b2; VU32 b3; VU32 b4]) = Done (VVec [VU32 (and32 a1 b1); VU32 (and32 a2 b2); VU32 (and32 a3 b3); VU32 (and32 a4 b4)]).
Proof. intros; ev; reflexivity. Qed.

Lemma msl_or_u32_v4 : forall a1 a2 a3 a4 b1 b2 b3 b4, run2 [] (t_bin BOr) (VVec [VU32 a1; VU32 a2; VU32 a3; VU32 a4]) (VVec [VU32 b1; VU32 b2; VU32 b3; VU32 b4]) = Done (VVec [VU32 (or32 a1 b1); VU32 (or32 a2 b2); VU32 (or32 a3 b3); VU32 (or32 a4 b4)]).
Proof. intros; ev; reflexivity. Qed.

Lemma msl_xor_u32_v4 : forall a1 a2 a3 a4 b1 b2 b3 b4, run2 [] (t_bin BXor) (VVec [VU32 a1; VU32 a2; VU32 a3; VU32 a4]) (VVec [VU32 b1; VU32 b2; VU32 b3; VU32 b4]) = Done (VVec [VU32 (xor32 a1 b1); VU32 (xor32 a2 b2); VU32 (xor32 a3 b3); VU32 (xor32 a4 b4)]).
Proof. intros; ev; reflexivity. Qed.

Lemma msl_shl_u32_v4 : forall a1 a2 a3 a4 b1 b2 b3 b4, run2 [] (t_bin BShl) (VVec [VU32 a1; VU32 a2; VU32 a3; VU32 a4]) (VVec [VU32 b1; VU32 b2; VU32 b3; VU32 b4]) = Done (VVec [VU32 (shl32 a1 b1); VU32 (shl32 a2 b2); VU32 (shl32 a3 b3); VU32 (shl32 a4 b4)]).
Proof. intros; ev; reflexivity. Qed.

Lemma msl_shr_u32_v4 : forall a1 a2 a3 a4 b1 b2 b3 b4, run2 [] (t_bin BShr) (VVec [VU32 a1; VU32 a2; VU32 a3; VU32 a4]) (VVec [VU32 b1; VU32 b2; VU32 b3; VU32 b4]) = Done (VVec [VU32 (shr_u32 a1 b1); VU32 (shr_u32 a2 b2); VU32 (shr_u32 a3 b3); VU32 (shr_u32 a4 b4)]).
Proof. intros; ev; reflexivity. Qed.

Lemma msl_not_u32_v4 : forall a1 a2 a3 a4, run1 [] (EUn UBitNot va) (VVec [VU32 a1; VU32 a2; VU32 a3; VU32 a4]) = Done (VVec [VU32 (not32 a1); VU32 (not32 a2); VU32 (not32 a3); VU32 (not32 a4)]).
Proof. intros; ev; reflexivity. Qed.

Lemma msl_and_bool_v4 : forall a1 a2 a3 a4 b1 b2 b3 b4, run2 [] (t_bin BAnd) (VVec [VBool a1; VBool a2; VBool a3; VBool a4]) (VVec [VBool b1; VBool b2; VBool b3; VBool b4]) = Done (VVec [VBool (andb a1 b1); VBool (andb a2 b2); VBool (andb a3 b3); VBool (andb a4 b4)]).
Proof. intros; ev; reflexivity. Qed.

Lemma msl_or_bool_v4 : forall a1 a2 a3 a4 b1 b2 b3 b4, run2 [] (t_bin BOr) (VVec [VBool a1; VBool a2; VBool a3; VBool a4]) (VVec [VBool b1; VBool b2; VBool b3; VBool b4]) = Done (VVec [VBool (orb a1 b1); VBool (orb a2 b2); VBool (orb a3 b3); VBool (orb a4 b4)]).
Proof. intros; ev; reflexivity. Qed.

Lemma msl_lnot_bool_v4 : forall a1 a2 a3 a4, run1 [] (EUn UNot va) (VVec [VBool a1; VBool a2; VBool a3; VBool a4]) = Done (VVec [VBool (negb a1); VBool (negb a2); VBool (negb a3); VBool (negb a4)]).
Proof. intros; ev; reflexivity. Qed.

Lemma msl_neg_f32_v4 : forall a1 a2 a3 a4, run1 [] (EUn UNeg va) (VVec [VF32 a1; VF32 a2; VF32 a3; VF32 a4]) = Done (VVec [VF32 (fneg a1); VF32 (fneg a2); VF32 (fneg a3); VF32 (fneg a4)]).
Proof. intros; ev; reflexivity. Qed.

Lemma msl_min_i32_v4 : forall a1 a2 a3 a4 b1 b2 b3 b4, run2 [] (t_call2 "metal::min") (VVec [VI32 a1; VI32 a2; VI32 a3; VI32 a4]) (VVec [VI32 b1; VI32 b2; VI32 b3; VI32 b4]) = Done (VVec [VI32 (min_i32 a1 b1); VI32 (min_i32 a2 b2); VI32 (min_i32 a3 b3); VI32 (min_i32 a4 b4)]).
Proof. intros; ev; reflexivity. Qed.

Lemma msl_max_i32_v4 : forall a1 a2 a3 a4 b1 b2 b3 b4, run2 [] (t_call2 "metal::max") (VVec [VI32 a1; VI32 a2; VI32 a3; VI32 a4]) (VVec [VI32 b1; VI32 b2; VI32 b3; VI32 b4]) = Done (VVec [VI32 (max_i32 a1 b1); VI32 (max_i32 a2 b2); VI32 (max_i32 a3 b3); VI32 (max_i32 a4 b4)]).
Proof. intros; ev; reflexivity. Qed.

Lemma msl_clamp_i32_v4 : forall a1 a2 a3 a4 b1 b2 b3 b4 c1 c2 c3 c4, run3 [] (t_call3 "metal::clamp") (VVec [VI32 a1; VI32 a2; VI32 a3; VI32 a4]) (VVec [VI32 b1; VI32 b2; VI32 b3; VI32 b4]) (VVec [VI32 c1; VI32 c2; VI32 c3; VI32 c4]) = Done (VVec [VI32 (clamp_i32 a1 b1 c1); VI32 (clamp_i32 a2 b2 c2); VI32 (clamp_i32 a3 b3 c3); VI32 (clamp_i32 a4 b4 c4)]).
Proof. intros; ev; reflexivity. Qed.

Lemma msl_min_u32_v4 : forall a1 a2 a3 a4 b1 b2 b3 b4, run2 [] (t_call2 "metal::min") (VVec [VU32 a1; VU32 a2; VU32 a3; VU32 a4]) (VVec [VU32 b1; VU32 b2; VU32 b3; VU32 b4]) = Done (VVec [VU32 (min_u32 a1 b1); VU32 (min_u32 a2 b2); VU32 (min_u32 a3 b3); VU32 (min_u32 a4 b4)]).
Proof. intros; ev; reflexivity. Qed.

Lemma msl_max_u32_v4 : forall a1 a2 a3 a4 b1 b2 b3 b4, run2 [] (t_call2 "metal::max") (VVec [VU32 a1; VU32 a2; VU32 a3; VU32 a4]) (VVec [VU32 b1; VU32 b2; VU32 b3; VU32 b4]) = Done (VVec [VU32 (max_u32 a1 b1); VU32 (max_u32 a2 b2); VU32 (max_u32 a3 b3); VU32 (max_u32 a4 b4)]).
Proof. intros; ev; reflexivity. Qed.

Lemma msl_clamp_u32_v4 : forall a1 a2 a3 a4 b1 b2 b3 b4 c1 c2 c3 c4, run3 [] (t_call3 "metal::clamp") (VVec [VU32 a1; VU32 a2; VU32 a3; VU32 a4]) (VVec [VU32 b1; VU32 b2; VU32 b3; VU32 b4]) (VVec [VU32 c1; VU32 c2; VU32 c3; VU32 c4]) = Done (VVec [VU32 (clamp_u32 a1 b1 c1); VU32 (clamp_u32 a2 b2 c2); VU32 (clamp_u32 a3 b3 c3); VU32 (clamp_u32 a4 b4 c4)]).
Proof. intros; ev; reflexivity. Qed.

Lemma msl_min_f32_v4 : forall a1 a2 a3 a4 b1 b2 b3 b4, run2 [] (t_call2 "metal::min") (VVec [VF32 a1; VF32 a2; VF32 a3; VF32 a4]) (VVec [VF32 b1; VF32 b2; VF32 b3; VF32 b4]) = Done (VVec [VF32 (fmin a1 b1); VF32 (fmin a2 b2); VF32 (fmin a3 b3); VF32 (fmin a4 b4)]).
Proof. intros; ev; reflexivity. Qed.

Lemma msl_max_f32_v4 : forall a1 a2 a3 a4 b1 b2 b3 b4, run2 [] (t_call2 "metal::max") (VVec [VF32 a1; VF32 a2; VF32 a3; VF32 a4]) (VVec [VF32 b1; VF32 b2; VF32 b3; VF32 b4]) = Done (VVec [VF32 (fmax a1 b1); VF32 (fmax a2 b2); VF32 (fmax a3 b3); VF32 (fmax a4 b4)]).
Proof. intros; ev; reflexivity. Qed.

Lemma msl_clamp_f32_v4 : forall a1 a2 a3 a4 b1 b2 b3 b4 c1 c2 c3 c4, run3 [] (t_call3 "metal::clamp") (VVec [VF32 a1; VF32 a2; VF32 a3; VF32 a4]) (VVec [VF32 b1; VF32 b2; VF32 b3; VF32 b4]) (VVec [VF32 c1; VF32 c2; VF32 c3; VF32 c4]) = Done (VVec [VF32 (fmin (fmax a1 b1) c1); VF32 (fmin (fmax a2 b2) c2); VF32 (fmin (fmax a3 b3) c3); VF32 (fmin (fmax a4 b4) c4)]).
Proof. intros; ev; reflexivity. Qed.

Lemma msl_abs_u32_v4 : forall a1 a2 a3 a4, run1 [] (t_call1 "metal::abs") (VVec [VU32 a1; VU32 a2; VU32 a3; VU32 a4]) = Done (VVec [VU32 (a1); VU32 (a2); VU32 (a3); VU32 (a4)]).
Proof. intros; ev; reflexivity. Qed.

Lemma msl_abs_f32_v4 : forall a1 a2 a3 a4, run1 [] (t_call1 "metal::abs") (VVec [VF32 a1; VF32 a2; VF32 a3; VF32 a4]) = Done (VVec [VF32 (fabs a1); VF32 (fabs a2); VF32 (fabs a3); VF32 (fabs a4)]).
Proof. intros; ev; reflexivity. Qed.

Lemma msl_popcount_i32_v4 : forall a1 a2 a3 a4, run1 [] (t_call1 "metal::popcount") (VVec [VI32 a1; VI32 a2; VI32 a3; VI32 a4]) = Done (VVec [VI32 (count_one_bits a1); VI32 (count_one_bits a2); VI32 (count_one_bits a3); VI32 (count_one_bits a4)]).
Proof. intros; ev; reflexivity. Qed.

Lemma msl_clz_i32_v4 : forall a1 a2 a3 a4, run1 [] (t_call1 "metal::clz") (VVec [VI32 a1; VI32 a2; VI32 a3; VI32 a4]) = Done (VVec [VI32 (count_leading_zeros a1); VI32 (count_leading_zeros a2); VI32 (count_leading_zeros a3); VI32 (count_leading_zeros a4)]).
Proof. intros; ev; reflexivity. Qed.

Lemma msl_ctz_i32_v4 : forall a1 a2 a3 a4, run1 [] (t_call1 "metal::ctz") (VVec [VI32 a1; VI32 a2; VI32 a3; VI32 a4]) = Done (VVec [VI32 (count_trailing_zeros a1); VI32 (count_trailing_zeros a2); VI32 (count_trailing_zeros a3); VI32 (count_trailing_zeros a4)]).
Proof. intros; ev; reflexivity. Qed.

Lemma msl_reversebits_i32_v4 : forall a1 a2 a3 a4, run1 [] (t_call1 "metal::reverse_bits") (VVec [VI32 a1; VI32 a2; VI32 a3; VI32 a4]) = Done (VVec [VI32 (reverse_bits a1); VI32 (reverse_bits a2); VI32 (reverse_bits a3); VI32 (reverse_bits a4)]).
Proof. intros; ev; reflexivity. Qed.

Lemma msl_popcount_u32_v4 : forall a1 a2 a3 a4, run1 [] (t_call1 "metal::popcount") (VVec [VU32 a1; VU32 a2; VU32 a3; VU32 a4]) = Done (VVec [VU32 (count_one_bits a1); VU32 (count_one_bits a2); VU32 (count_one_bits a3); VU32 (count_one_bits a4)]).
Proof. intros; ev; reflexivity. Qed.

Lemma msl_clz_u32_v4 : forall a1 a2 a3 a4, run1 [] (t_call1 "metal::clz") (VVec [VU32 a1; VU32 a2; VU32 a3; VU32 a4]) = Done (VVec [VU32 (count_leading_zeros a1); VU32 (count_leading_zeros a2); VU32 (count_leading_zeros a3); VU32 (count_leading_zeros a4)]).
Proof. intros; ev; reflexivity. Qed.

Lemma msl_ctz_u32_v4 : forall a1 a2 a3 a4, run1 [] (t_call1 "metal::ctz") (VVec [VU32 a1; VU32 a2; VU32 a3; VU32 a4]) = Done (VVec [VU32 (count_trailing_zeros a1); VU32 (count_trailing_zeros a2); VU32 (count_trailing_zeros a3); VU32 (count_trailing_zeros a4)]).
Proof. intros; ev; reflexivity. Qed.

Lemma msl_reversebits_u32_v4 : forall a1 a2 a3 a4, run1 [] (t_call1 "metal::reverse_bits") (VVec [VU32 a1; VU32 a2; VU32 a3; VU32 a4]) = Done (VVec [VU32 (reverse_bits a1); VU32 (reverse_bits a2); VU32 (reverse_bits a3); VU32 (reverse_bits a4)]).
Proof. intros; ev; reflexivity. Qed.

Lemma msl_floor_f32_v4 : forall a1 a2 a3 a4, run1 [] (t_call1 "metal::floor") (VVec [VF32 a1; VF32 a2; VF32 a3; VF32 a4]) = Done (VVec [VF32 (ffloor a1); VF32 (ffloor a2); VF32 (ffloor a3); VF32 (ffloor a4)]).
Proof. intros; ev; reflexivity. Qed.

Lemma msl_ceil_f32_v4 : forall a1 a2 a3 a4, run1 [] (t_call1 "metal::ceil") (VVec [VF32 a1; VF32 a2; VF32 a3; VF32 a4]) = Done (VVec [VF32 (fceil a1); VF32 (fceil a2); VF32 (fceil a3); VF32 (fceil a4)]).
Proof. intros; ev; reflexivity. Qed.

Lemma msl_trunc_f32_v4 : forall a1 a2 a3 a4, run1 [] (t_call1 "metal::trunc") (VVec [VF32 a1; VF32 a2; VF32 a3; VF32 a4]) = Done (VVec [VF32 (ftrunc a1); VF32 (ftrunc a2); VF32 (ftrunc a3); VF32 (ftrunc a4)]).
Proof. intros; ev; reflexivity. Qed.

Lemma msl_sqrt_f32_v4 : forall a1 a2 a3 a4, run1 [] (t_call1 "metal::sqrt") (VVec [VF32 a1; VF32 a2; VF32 a3; VF32 a4]) = Done (VVec [VF32 (fsqrt a1); VF32 (fsqrt a2); VF32 (fsqrt a3); VF32 (fsqrt a4)]).
Proof. intros; ev; reflexivity. Qed.

Lemma msl_fma_f32_v4 : forall a1 a2 a3 a4 b1 b2 b3 b4 c1 c2 c3 c4, run3 [] (t_call3 "metal::fma") (VVec [VF32 a1; VF32 a2; VF32 a3; VF32 a4]) (VVec [VF32 b1; VF32 b2; VF32 b3; VF32 b4]) (VVec [VF32 c1; VF32 c2; VF32 c3; VF32 c4]) = Done (VVec [VF32 (ffma a1 b1 c1); VF32 (ffma a2 b2 c2); VF32 (ffma a3 b3 c3); VF32 (ffma a4 b4 c4)]).
Proof. intros; ev; reflexivity. Qed.

Lemma msl_conv_i32_u32_v4 : forall a1 a2 a3 a4, run1 [] (ECast (tyv 4 SUint) va) (VVec [VI32 a1; VI32 a2; VI32 a3; VI32 a4]) = Done (VVec [VU32 (a1); VU32 (a2); VU32 (a3); VU32 (a4)]).
Proof. intros; ev; reflexivity. Qed.

Lemma msl_conv_i32_f32_v4 : forall a1 a2 a3 a4, run1 [] (ECast (tyv 4 SFloat) va) (VVec [VI32 a1; VI32 a2; VI32 a3; VI32 a4]) = Done (VVec [VF32 (f32_of_i32 a1); VF32 (f32_of_i32 a2); VF32 (f32_of_i32 a3); VF32 (f32_of_i32 a4)]).
Proof. intros; ev; reflexivity. Qed.

Lemma msl_conv_i32_bool_v4 : forall a1 a2 a3 a4, run1 [] (ECast (tyv 4 SBool) va) (VVec [VI32 a1; VI32 a2; VI32 a3; VI32 a4]) = Done (VVec [VBool (bool_of_32 a1); VBool (bool_of_32 a2); VBool (bool_of_32 a3); VBool (bool_of_32 a4)]).
Proof. intros; ev; reflexivity. Qed.

Lemma msl_conv_u32_i32_v4 : forall a1 a2 a3 a4, run1 [] (ECast (tyv 4 SInt) va) (VVec [VU32 a1; VU32 a2; VU32 a3; VU32 a4]) = Done (VVec [VI32 (a1); VI32 (a2); VI32 (a3); VI32 (a4)]).
Proof. intros; ev; reflexivity. Qed.

Lemma msl_conv_u32_f32_v4 : forall a1 a2 a3 a4, run1 [] (ECast (tyv 4 SFloat) va) (VVec [VU32 a1; VU32 a2; VU32 a3; VU32 a4]) = Done (VVec [VF32 (f32_of_u32 a1); VF32 (f32_of_u32 a2); VF32 (f32_of_u32 a3); VF32 (f32_of_u32 a4)]).
Proof. intros; ev; reflexivity. Qed.

Lemma msl_conv_u32_bool_v4 : forall a1 a2 a3 a4, run1 [] (ECast (tyv 4 SBool) va) (VVec [VU32 a1; VU32 a2; VU32 a3; VU32 a4]) = Done (VVec [VBool (bool_of_32 a1); VBool (bool_of_32 a2); VBool (bool_of_32 a3); VBool (bool_of_32 a4)]).
Proof. intros; ev; reflexivity. Qed.

Lemma msl_conv_f32_bool_v4 : forall a1 a2 a3 a4, run1 [] (ECast (tyv 4 SBool) va) (VVec [VF32 a1; VF32 a2; VF32 a3; VF32 a4]) = Done (VVec [VBool (negb (feq a1 0)); VBool (negb (feq a2 0)); VBool (negb (feq a3 0)); VBool (negb (feq a4 0))]).
Proof. intros; ev; reflexivity. Qed.

Lemma msl_conv_bool_i32_v4 : forall a1 a2 a3 a4, run1 [] (ECast (tyv 4 SInt) va) (VVec [VBool a1; VBool a2; VBool a3; VBool a4]) = Done (VVec [VI32 (u32_of_bool a1); VI32 (u32_of_bool a2); VI32 (u32_of_bool a3); VI32 (u32_of_bool a4)]).
Proof. intros; ev; reflexivity. Qed.

Lemma msl_conv_bool_u32_v4 : forall a1 a2 a3 a4, run1 [] (ECast (tyv 4 SUint) va) (VVec [VBool a1; VBool a2; VBool a3; VBool a4]) = Done (VVec [VU32 (u32_of_bool a1); VU32 (u32_of_bool a2); VU32 (u32_of_bool a3); VU32 (u32_of_bool a4)]).
Proof. intros; ev; reflexivity. Qed.

Lemma msl_conv_bool_f32_v4 : forall a1 a2 a3 a4, run1 [] (ECast (tyv 4 SFloat) va) (VVec [VBool a1; VBool a2; VBool a3; VBool a4]) = Done (VVec [VF32 (if a1 then 1065353216 else 0); VF32 (if a2 then 1065353216 else 0); VF32 (if a3 then 1065353216 else 0); VF32 (if a4 then 1065353216 else 0)]).
Proof. intros; ev; reflexivity. Qed.

Lemma msl_bitcast_i32_u32_v4 : forall a1 a2 a3 a4, run1 [] (EAsType (tyv 4 SUint) va) (VVec [VI32 a1; VI32 a2; VI32 a3; VI32 a4]) = Done (VVec [VU32 (a1); VU32 (a2); VU32 (a3); VU32 (a4)]).
Proof. intros; ev; reflexivity. Qed.

Lemma msl_bitcast_i32_f32_v4 : forall a1 a2 a3 a4, run1 [] (EAsType (tyv 4 SFloat) va) (VVec [VI32 a1; VI32 a2; VI32 a3; VI32 a4]) = Done (VVec [VF32 (a1); VF32 (a2); VF32 (a3); VF32 (a4)]).
Proof. intros; ev; reflexivity. Qed.

Lemma msl_bitcast_u32_i32_v4 : forall a1 a2 a3 a4, run1 [] (EAsType (tyv 4 SInt) va) (VVec [VU32 a1; VU32 a2; VU32 a3; VU32 a4]) = Done (VVec [VI32 (a1); VI32 (a2); VI32 (a3); VI32 (a4)]).
Proof. intros; ev; reflexivity. Qed.

Lemma msl_bitcast_u32_f32_v4 : forall a1 a2 a3 a4, run1 [] (EAsType (tyv 4 SFloat) va) (VVec [VU32 a1; VU32 a2; VU32 a3; VU32 a4]) = Done (VVec [VF32 (a1); VF32 (a2); VF32 (a3); VF32 (a4)]).
Proof. intros; ev; reflexivity. Qed.

Lemma msl_bitcast_f32_i32_v4 : forall a1 a2 a3 a4, run1 [] (EAsType (tyv 4 SInt) va) (VVec [VF32 a1; VF32 a2; VF32 a3; VF32 a4]) = Done (VVec [VI32 (a1); VI32 (a2); VI32 (a3); VI32 (a4)]).
Proof. intros; ev; reflexivity. Qed.

Lemma msl_bitcast_f32_u32_v4 : forall a1 a2 a3 a4, run1 [] (EAsType (tyv 4 SUint) va) (VVec [VF32 a1; VF32 a2; VF32 a3; VF32 a4]) = Done (VVec [VU32 (a1); VU32 (a2); VU32 (a3); VU32 (a4)]).
Proof. intros; ev; reflexivity. Qed.

Lemma msl_select_i32_v4 : forall a1 a2 a3 a4 b1 b2 b3 b4 c1 c2 c3 c4, run3 [] (t_call3 "metal::select") (VVec [VI32 a1; VI32 a2; VI32 a3; VI32 a4]) (VVec [VI32 b1; VI32 b2; VI32 b3; VI32 b4]) (VVec [VBool c1; VBool c2; VBool c3; VBool c4]) = Done (VVec [(if c1 then VI32 b1 else VI32 a1); (if c2 then VI32 b2 else VI32 a2); (if c3 then VI32 b3 else VI32 a3); (if c4 then VI32 b4 else VI32 a4)]).
Proof. intros; ev; reflexivity. Qed.

Lemma msl_select_u32_v4 : forall a1 a2 a3 a4 b1 b2 b3 b4 c1 c2 c3 c4, run3 [] (t_call3 "metal::select") (VVec [VU32 a1; VU32 a2; VU32 a3; VU32 a4]) (VVec [VU32 b1; VU32 b2; VU32 b3; VU32 b4]) (VVec [VBool c1; VBool c2; VBool c3; VBool c4]) = Done (VVec [(if c1 then VU32 b1 else VU32 a1); (if c2 then VU32 b2 else VU32 a2); (if c3 then VU32 b3 else VU32 a3); (if c4 then VU32 b4 else VU32 a4)]).
Proof. intros; ev; reflexivity. Qed.

Lemma msl_select_f32_v4 : forall a1 a2 a3 a4 b1 b2 b3 b4 c1 c2 c3 c4, run3 [] (t_call3 "metal::select") (VVec [VF32 a1; VF32 a2; VF32 a3; VF32 a4]) (VVec [VF32 b1; VF32 b2; VF32 b3; VF32 b4]) (VVec [VBool c1; VBool c2; VBool c3; VBool c4]) = Done (VVec [(if c1 then VF32 b1 else VF32 a1); (if c2 then VF32 b2 else VF32 a2); (if c3 then VF32 b3 else VF32 a3); (if c4 then VF32 b4 else VF32 a4)]).
Proof. intros; ev; reflexivity. Qed.

Lemma msl_select_bool_v4 : forall a1 a2 a3 a4 b1 b2 b3 b4 c1 c2 c3 c4, run3 [] (t_call3 "metal::select") (VVec [VBool a1; VBool a2; VBool a3; VBool a4]) (VVec [VBool b1; VBool b2; VBool b3; VBool b4]) (VVec [VBool c1; VBool c2; VBool c3; VBool c4]) = Done (VVec [(if c1 then VBool b1 else VBool a1); (if c2 then VBool b2 else VBool a2); (if c3 then VBool b3 else VBool a3); (if c4 then VBool b4 else VBool a4)]).
Proof. intros; ev; reflexivity. Qed.

(* ---- helper functions on vectors ---- *)
Definition guard_i32 (a b : Z) : bool := (a =? 2147483648) && (b =? 4294967295) || (b =? 0).
Definition divisor_val (a b : Z) : value := if guard_i32 a b then VI32 1 else VI32 b.

Lemma div_i32_core a b : in32 a -> in32 b -> m_arith BDiv (VI32 a) (divisor_val a b) = Done (VI32 (div_i32 a b)).
Proof.
  intros Ha Hb. pose proof (msl_div_i32_correct a b Ha Hb) as P. revert P. ev.
  unfold divisor_val, guard_i32. destruct ((a =? 2147483648) && (b =? 4294967295) || (b =? 0)); cbn; auto.
Qed.

Definition dz (a b : Z) : Z := if guard_i32 a b then 1 else b.
Definition qz (a b : Z) : Z := wrap (sgn a ÷ sgn (dz a b)).
Definition pz (a b : Z) : Z := wrap ((sgn a ÷ sgn (dz a b)) * sgn (dz a b)).

Lemma divisor_val_dz a b : divisor_val a b = VI32 (dz a b).
Proof. unfold divisor_val, dz. destruct (guard_i32 a b); reflexivity. Qed.

Lemma dz_facts a b : in32 a -> in32 b ->
  in32 (dz a b) /\ dz a b <> 0 /\ sgn (dz a b) <> 0 /\ ~ (sgn a = -2147483648 /\ sgn (dz a b) = -1).
Proof.
  intros Ha Hb. unfold dz, guard_i32. destruct ((a =? 2147483648) && (b =? 4294967295) || (b =? 0)) eqn:E.
  - change (sgn 1) with 1. split; [unfold in32, M32; lia|split; [lia|split; [lia|lia]]].
  - destruct (guard_false a b Ha Hb E) as (Hb0 & Hs0 & Hn & Hg).
    split; [exact Hb|split; [exact Hb0|split; [exact Hs0|exact Hn]]].
Qed.

Lemma mod_stage1 a b : in32 a -> in32 b -> m_arith BDiv (VI32 a) (divisor_val a b) = Done (VI32 (qz a b)).
Proof.
  intros Ha Hb. rewrite divisor_val_dz. destruct (dz_facts a b Ha Hb) as (Hd & Hd0 & Hs0 & Hn).
  change (m_arith BDiv (VI32 a) (VI32 (dz a b))) with (binop_scalar BDiv (VI32 a) (VI32 (dz a b))). rewrite bs_div_i32.
  destruct (Z.eqb_spec (dz a b) 0); [contradiction|].
  rewrite sint_ok by (apply quot_range; auto using sgn_rng). reflexivity.
Qed.

Lemma mod_stage2 a b : in32 a -> in32 b -> m_arith BMul (VI32 (qz a b)) (divisor_val a b) = Done (VI32 (pz a b)).
Proof.
  intros Ha Hb. rewrite divisor_val_dz. destruct (dz_facts a b Ha Hb) as (Hd & Hd0 & Hs0 & Hn).
  change (m_arith BMul (VI32 (qz a b)) (VI32 (dz a b))) with (binop_scalar BMul (VI32 (qz a b)) (VI32 (dz a b))). rewrite bs_mul_i32.
  unfold qz. rewrite sgn_wrap by (apply quot_range; auto using sgn_rng).
  rewrite sint_ok by (apply quot_mul_range; auto using sgn_rng). reflexivity.
Qed.

Lemma mod_stage3 a b : in32 a -> in32 b -> m_arith BSub (VI32 a) (VI32 (pz a b)) = Done (VI32 (rem_i32 a b)).
Proof.
  intros Ha Hb. destruct (dz_facts a b Ha Hb) as (Hd & Hd0 & Hs0 & Hn). pose proof (sgn_rng a Ha) as Ra.
  change (m_arith BSub (VI32 a) (VI32 (pz a b))) with (binop_scalar BSub (VI32 a) (VI32 (pz a b))). rewrite bs_sub_i32.
  unfold pz. rewrite sgn_wrap by (apply quot_mul_range; auto).
  rewrite rem_eq. rewrite sint_ok by (apply rem_range; assumption). f_equal. f_equal.
  unfold rem_i32, dz, guard_i32, INT_MIN_BITS, ALL_ONES, H32, M32 in *. change (4294967296 - 1) with 4294967295.
  destruct (Z.eqb_spec b 0) as [e0|n0].
  - subst b. rewrite orb_true_r. change (sgn 1) with 1. rewrite Z.rem_1_r. reflexivity.
  - rewrite orb_false_r. destruct ((a =? 2147483648) && (b =? 4294967295)); [change (sgn 1) with 1; rewrite Z.rem_1_r|]; reflexivity.
Qed.

Lemma mod_stage3' a b : in32 a -> in32 b -> sint_result (sgn a - sgn (pz a b)) = Done (VI32 (rem_i32 a b)).
Proof. intros Ha Hb. rewrite <- (mod_stage3 a b Ha Hb). reflexivity. Qed.


Lemma div_u32_core a b : m_arith BDiv (VU32 a) (if b =? 0 then VU32 1 else VU32 b) = Done (VU32 (div_u32 a b)).
Proof.
  unfold div_u32. destruct (Z.eqb_spec b 0); cbn.
  - rewrite Z.div_1_r. reflexivity.
  - destruct (Z.eqb_spec b 0); [contradiction|reflexivity].
Qed.
Lemma mod_u32_core a b : m_arith BMod (VU32 a) (if b =? 0 then VU32 1 else VU32 b) = Done (VU32 (rem_u32 a b)).
Proof.
  unfold rem_u32. destruct (Z.eqb_spec b 0); cbn.
  - rewrite Z.mod_1_r. reflexivity.
  - destruct (Z.eqb_spec b 0); [contradiction|reflexivity].
Qed.
Lemma abs_i32_core a : (if le_i32 0 a then VI32 a else VI32 (neg32 a)) = VI32 (abs_i32 a).
Proof.
  unfold abs_i32, le_i32. change (sgn 0) with 0.
  destruct (Z.leb_spec 0 (sgn a)); destruct (Z.ltb_spec (sgn a) 0); try lia; reflexivity.
Qed.
Lemma sign_i32_core a : in32 a ->
  m_select (if lt_i32 0 a then VI32 1 else VI32 4294967295) (VI32 0) (VBool (a =? 0)) = Done (VI32 (sign_i32 a)).
Proof.
  intros Ha. unfold sign_i32, lt_i32, ALL_ONES, M32. change (sgn 0) with 0. change (4294967296 - 1) with 4294967295.
  assert (S0 : sgn a = 0 <-> a = 0). { unfold sgn, in32, M32, H32 in *. destruct (Z.ltb_spec a 2147483648); lia. }
  destruct (Z.eqb_spec a 0) as [e|e].
  - subst a. reflexivity.
  - destruct (Z.ltb_spec 0 (sgn a)); destruct (Z.ltb_spec (sgn a) 0); try lia; try reflexivity.
Qed.
Lemma sign_i32_core' a : in32 a ->
  (if a =? 0 then VI32 0 else if lt_i32 0 a then VI32 1 else VI32 4294967295) = VI32 (sign_i32 a).
Proof.
  intros Ha. unfold sign_i32, lt_i32, ALL_ONES, M32. change (sgn 0) with 0. change (4294967296 - 1) with 4294967295.
  assert (S0 : sgn a = 0 <-> a = 0). { unfold sgn, in32, M32, H32 in *. destruct (Z.ltb_spec a 2147483648); lia. }
  destruct (Z.eqb_spec a 0) as [e|e].
  - subst a. reflexivity.
  - destruct (Z.ltb_spec 0 (sgn a)); destruct (Z.ltb_spec (sgn a) 0); try lia; try reflexivity.
Qed.

Lemma msl_div_i32_v2 : forall a1 a2 b1 b2, in32 a1 -> in32 a2 -> in32 b1 -> in32 b2 -> run2 [h_div_i32 2] (t_call2 "naga_div") (VVec [VI32 a1; VI32 a2]) (VVec [VI32 b1; VI32 b2]) = Done (VVec [VI32 (div_i32 a1 b1); VI32 (div_i32 a2 b2)]).
Proof. intros. ev. fold (guard_i32 a1 b1). fold (guard_i32 a2 b2). fold (divisor_val a1 b1). fold (divisor_val a2 b2). rewrite !div_i32_core by assumption. reflexivity. Qed.

Lemma msl_mod_i32_v2 : forall a1 a2 b1 b2, in32 a1 -> in32 a2 -> in32 b1 -> in32 b2 -> run2 [h_mod_i32 2] (t_call2 "naga_mod") (VVec [VI32 a1; VI32 a2]) (VVec [VI32 b1; VI32 b2]) = Done (VVec [VI32 (rem_i32 a1 b1); VI32 (rem_i32 a2 b2)]).
Proof. intros. ev. fold (guard_i32 a1 b1). fold (guard_i32 a2 b2). fold (divisor_val a1 b1). fold (divisor_val a2 b2). rewrite !mod_stage1 by assumption. cbn. rewrite !mod_stage2 by assumption. cbn. rewrite ?mod_stage3 by assumption. rewrite ?mod_stage3' by assumption. reflexivity. Qed.

Lemma msl_div_u32_v2 : forall a1 a2 b1 b2, in32 a1 -> in32 a2 -> in32 b1 -> in32 b2 -> run2 [h_div_u32 2] (t_call2 "naga_div") (VVec [VU32 a1; VU32 a2]) (VVec [VU32 b1; VU32 b2]) = Done (VVec [VU32 (div_u32 a1 b1); VU32 (div_u32 a2 b2)]).
Proof. intros. ev. rewrite !div_u32_core. reflexivity. Qed.

Lemma msl_mod_u32_v2 : forall a1 a2 b1 b2, in32 a1 -> in32 a2 -> in32 b1 -> in32 b2 -> run2 [h_mod_u32 2] (t_call2 "naga_mod") (VVec [VU32 a1; VU32 a2]) (VVec [VU32 b1; VU32 b2]) = Done (VVec [VU32 (rem_u32 a1 b1); VU32 (rem_u32 a2 b2)]).
Proof. intros. ev. rewrite !mod_u32_core. reflexivity. Qed.

Lemma msl_neg_i32_v2 : forall a1 a2, in32 a1 -> in32 a2 -> run1 [h_neg_i32 2] (t_call1 "naga_neg") (VVec [VI32 a1; VI32 a2]) = Done (VVec [VI32 (neg32 a1); VI32 (neg32 a2)]).
Proof. intros. ev. reflexivity. Qed.

Lemma msl_abs_i32_v2 : forall a1 a2, in32 a1 -> in32 a2 -> run1 [h_abs_i32 2] (t_call1 "naga_abs") (VVec [VI32 a1; VI32 a2]) = Done (VVec [VI32 (abs_i32 a1); VI32 (abs_i32 a2)]).
Proof. intros. ev. rewrite !abs_i32_core. reflexivity. Qed.

Lemma msl_sign_i32_v2 : forall a1 a2, in32 a1 -> in32 a2 -> run1 [] (t_sign_i32 2) (VVec [VI32 a1; VI32 a2]) = Done (VVec [VI32 (sign_i32 a1); VI32 (sign_i32 a2)]).
Proof. intros. ev. rewrite !sign_i32_core' by assumption. reflexivity. Qed.

Lemma msl_div_i32_v3 : forall a1 a2 a3 b1 b2 b3, in32 a1 -> in32 a2 -> in32 a3 -> in32 b1 -> in32 b2 -> in32 b3 -> run2 [h_div_i32 3] (t_call2 "naga_div") (VVec [VI32 a1; VI32 a2; VI32 a3]) (VVec [VI32 b1; VI32 b2; VI32 b3]) = Done (VVec [VI32 (div_i32 a1 b1); VI32 (div_i32 a2 b2); VI32 (div_i32 a3 b3)]).
Proof. intros. ev. fold (guard_i32 a1 b1). fold (guard_i32 a2 b2). fold (guard_i32 a3 b3). fold (divisor_val a1 b1). fold (divisor_val a2 b2). fold (divisor_val a3 b3). rewrite !div_i32_core by assumption. reflexivity. Qed.

Lemma msl_mod_i32_v3 : forall a1 a2 a3 b1 b2 b3, in32 a1 -> in32 a2 -> in32 a3 -> in32 b1 -> in32 b2 -> in32 b3 -> run2 [h_mod_i32 3] (t_call2 "naga_mod") (VVec [VI32 a1; VI32 a2; VI32 a3]) (VVec [VI32 b1; VI32 b2; VI32 b3]) = Done (VVec [VI32 (rem_i32 a1 b1); VI32 (rem_i32 a2 b2); VI32 (rem_i32 a3 b3)]).
Proof. intros. ev. fold (guard_i32 a1 b1). fold (guard_i32 a2 b2). fold (guard_i32 a3 b3). fold (divisor_val a1 b1). fold (divisor_val a2 b2). fold (divisor_val a3 b3). rewrite !mod_stage1 by assumption. cbn. rewrite !mod_stage2 by assumption. cbn. rewrite ?mod_stage3 by assumption. rewrite ?mod_stage3' by assumption. reflexivity. Qed.

Lemma msl_div_u32_v3 : forall a1 a2 a3 b1 b2 b3, in32 a1 -> in32 a2 -> in32 a3 -> in32 b1 -> in32 b2 -> in32 b3 -> run2 [h_div_u32 3] (t_call2 "naga_div") (VVec [VU32 a1; VU32 a2; VU32 a3]) (VVec [VU32 b1; VU32 b2; VU32 b3]) = Done (VVec [VU32 (div_u32 a1 b1); VU32 (div_u32 a2 b2); VU32 (div_u32 a3 b3)]).
Proof. intros. ev. rewrite !div_u32_core. reflexivity. Qed.

Lemma msl_mod_u32_v3 : forall a1 a2 a3 b1 b2 b3, in32 a1 -> in32 a2 -> in32 a3 -> in32 b1 -> in32 b2 -> in32 b3 -> run2 [h_mod_u32 3] (t_call2 "naga_mod") (VVec [VU32 a1; VU32 a2; VU32 a3]) (VVec [VU32 b1; VU32 b2; VU32 b3]) = Done (VVec [VU32 (rem_u32 a1 b1); VU32 (rem_u32 a2 b2); VU32 (rem_u32 a3 b3)]).
Proof. intros. ev. rewrite !mod_u32_core. reflexivity. Qed.

Lemma msl_neg_i32_v3 : forall a1 a2 a3, in32 a1 -> in32 a2 -> in32 a3 -> run1 [h_neg_i32 3] (t_call1 "naga_neg") (VVec [VI32 a1; VI32 a2; VI32 a3]) = Done (VVec [VI32 (neg32 a1); VI32 (neg32 a2); VI32 (neg32 a3)]).
Proof. intros. ev. reflexivity. Qed.

Lemma msl_abs_i32_v3 : forall a1 a2 a3, in32 a1 -> in32 a2 -> in32 a3 -> run1 [h_abs_i32 3] (t_call1 "naga_abs") (VVec [VI32 a1; VI32 a2; VI32 a3]) = Done (VVec [VI32 (abs_i32 a1); VI32 (abs_i32 a2); VI32 (abs_i32 a3)]).
Proof. intros. ev. rewrite !abs_i32_core. reflexivity. Qed.

Lemma msl_sign_i32_v3 : forall a1 a2 a3, in32 a1 -> in32 a2 -> in32 a3 -> run1 [] (t_sign_i32 3) (VVec [VI32 a1; VI32 a2; VI32 a3]) = Done (VVec [VI32 (sign_i32 a1); VI32 (sign_i32 a2); VI32 (sign_i32 a3)]).
Proof. intros. ev. rewrite !sign_i32_core' by assumption. reflexivity. Qed.

Lemma msl_div_i32_v4 : forall a1 a2 a3 a4 b1 b2 b3 b4, in32 a1 -> in32 a2 -> in32 a3 -> in32 a4 -> in32 b1 -> in32 b2 -> in32 b3 -> in32 b4 -> run2 [h_div_i32 4] (t_call2 "naga_div") (VVec [VI32 a1; VI32 a2; VI32 a3; VI32 a4]) (VVec [VI32 b1; VI32 b2; VI32 b3; VI32 b4]) = Done (VVec [VI32 (div_i32 a1 b1); VI32 (div_i32 a2 b2); VI32 (div_i32 a3 b3); VI32 (div_i32 a4 b4)]).
Proof. intros. ev. fold (guard_i32 a1 b1). fold (guard_i32 a2 b2). fold (guard_i32 a3 b3). fold (guard_i32 a4 b4). fold (divisor_val a1 b1). fold (divisor_val a2 b2). fold (divisor_val a3 b3). fold (divisor_val a4 b4). rewrite !div_i32_core by assumption. reflexivity. Qed.

Lemma msl_mod_i32_v4 : forall a1 a2 a3 a4 b1 b2 b3 b4, in32 a1 -> in32 a2 -> in32 a3 -> in32 a4 -> in32 b1 -> in32 b2 -> in32 b3 -> in32 b4 -> run2 [h_mod_i32 4] (t_call2 "naga_mod") (VVec [VI32 a1; VI32 a2; VI32 a3; VI32 a4]) (VVec [VI32 b1; VI32 b2; VI32 b3; VI32 b4]) = Done (VVec [VI32 (rem_i32 a1 b1); VI32 (rem_i32 a2 b2); VI32 (rem_i32 a3 b3); VI32 (rem_i32 a4 b4)]).
Proof. intros. ev. fold (guard_i32 a1 b1). fold (guard_i32 a2 b2). fold (guard_i32 a3 b3). fold (guard_i32 a4 b4). fold (divisor_val a1 b1). fold (divisor_val a2 b2). fold (divisor_val a3 b3). fold (divisor_val a4 b4). rewrite !mod_stage1 by assumption. cbn. rewrite !mod_stage2 by assumption. cbn. rewrite ?mod_stage3 by assumption. rewrite ?mod_stage3' by assumption. reflexivity. Qed.

Lemma msl_div_u32_v4 : forall a1 a2 a3 a4 b1 b2 b3 b4, in32 a1 -> in32 a2 -> in32 a3 -> in32 a4 -> in32 b1 -> in32 b2 -> in32 b3 -> in32 b4 -> run2 [h_div_u32 4] (t_call2 "naga_div") (VVec [VU32 a1; VU32 a2; VU32 a3; VU32 a4]) (VVec [VU32 b1; VU32 b2; VU32 b3; VU32 b4]) = Done (VVec [VU32 (div_u32 a1 b1); VU32 (div_u32 a2 b2); VU32 (div_u32 a3 b3); VU32 (div_u32 a4 b4)]).
Proof. intros. ev. rewrite !div_u32_core. reflexivity. Qed.

Lemma msl_mod_u32_v4 : forall a1 a2 a3 a4 b1 b2 b3 b4, in32 a1 -> in32 a2 -> in32 a3 -> in32 a4 -> in32 b1 -> in32 b2 -> in32 b3 -> in32 b4 -> run2 [h_mod_u32 4] (t_call2 "naga_mod") (VVec [VU32 a1; VU32 a2; VU32 a3; VU32 a4]) (VVec [VU32 b1; VU32 b2; VU32 b3; VU32 b4]) = Done (VVec [VU32 (rem_u32 a1 b1); VU32 (rem_u32 a2 b2); VU32 (rem_u32 a3 b3); VU32 (rem_u32 a4 b4)]).
Proof. intros. ev. rewrite !mod_u32_core. reflexivity. Qed.

Lemma msl_neg_i32_v4 : forall a1 a2 a3 a4, in32 a1 -> in32 a2 -> in32 a3 -> in32 a4 -> run1 [h_neg_i32 4] (t_call1 "naga_neg") (VVec [VI32 a1; VI32 a2; VI32 a3; VI32 a4]) = Done (VVec [VI32 (neg32 a1); VI32 (neg32 a2); VI32 (neg32 a3); VI32 (neg32 a4)]).
Proof. intros. ev. reflexivity. Qed.

Lemma msl_abs_i32_v4 : forall a1 a2 a3 a4, in32 a1 -> in32 a2 -> in32 a3 -> in32 a4 -> run1 [h_abs_i32 4] (t_call1 "naga_abs") (VVec [VI32 a1; VI32 a2; VI32 a3; VI32 a4]) = Done (VVec [VI32 (abs_i32 a1); VI32 (abs_i32 a2); VI32 (abs_i32 a3); VI32 (abs_i32 a4)]).
Proof. intros. ev. rewrite !abs_i32_core. reflexivity. Qed.

Lemma msl_sign_i32_v4 : forall a1 a2 a3 a4, in32 a1 -> in32 a2 -> in32 a3 -> in32 a4 -> run1 [] (t_sign_i32 4) (VVec [VI32 a1; VI32 a2; VI32 a3; VI32 a4]) = Done (VVec [VI32 (sign_i32 a1); VI32 (sign_i32 a2); VI32 (sign_i32 a3); VI32 (sign_i32 a4)]).
Proof. intros. ev. rewrite !sign_i32_core' by assumption. reflexivity. Qed.
