(* MSL / C++14 meaning of operators, conversions and metal:: intrinsics on the
   shared run-time values (IR/Values.value).  Strict ("trapping") reading:
   everything C++14 or the MSL specification leaves undefined evaluates to
   [Fail "UB: ..."].  The reading of each silent or ambiguous point of the
   MSL specification is listed in Msl/DialectChoices.md.

   Scalars are dynamically kinded (VI32 = int, VU32 = uint, VF32 = float,
   VBool = bool); for the scalar types of this fragment the dynamic kind of a
   value coincides with the static C++ type of the expression that produced
   it, so the usual arithmetic conversions can be decided on the values. *)
From Coq Require Import List ZArith String Bool.
Import ListNotations.
Require Import Naga.Base.Bits32 Naga.Base.F32 Naga.IR.Values Naga.Msl.Syntax.
Open Scope string_scope.
Open Scope Z_scope.

(* ---- integral promotion and usual arithmetic conversions (C++14 [conv.prom], [expr] p11) ---- *)
Definition promote (v : value) : value :=
  match v with VBool b => VI32 (if b then 1 else 0) | _ => v end.

Inductive akind := KI | KU | KF.

Definition arith_conv (a b : value) : result (akind * Z * Z) :=
  match promote a, promote b with
  | VF32 x, VF32 y => Done (KF, x, y)
  | VF32 x, VI32 y => Done (KF, x, f32_of_i32 y)
  | VF32 x, VU32 y => Done (KF, x, f32_of_u32 y)
  | VI32 x, VF32 y => Done (KF, f32_of_i32 x, y)
  | VU32 x, VF32 y => Done (KF, f32_of_u32 x, y)
  | VI32 x, VI32 y => Done (KI, x, y)
  | VI32 x, VU32 y | VU32 x, VI32 y | VU32 x, VU32 y => Done (KU, x, y)
  | _, _ => Fail "operands are not arithmetic scalars"
  end.

(* signed arithmetic: the mathematical result must be representable (C++14 [expr] p4) *)
Definition in_i32 (z : Z) : bool := (- H32 <=? z) && (z <? H32).
Definition sint_result (z : Z) : result value :=
  if in_i32 z then Done (VI32 (wrap z)) else Fail "UB: signed overflow".

Definition arith_int (o : binop) (x y : Z) : result value :=
  match o with
  | BAdd => sint_result (sgn x + sgn y)
  | BSub => sint_result (sgn x - sgn y)
  | BMul => sint_result (sgn x * sgn y)
  | BDiv => if y =? 0 then Fail "UB: division by zero" else sint_result (Z.quot (sgn x) (sgn y))
  | BMod => if y =? 0 then Fail "UB: division by zero"
            else if (x =? INT_MIN_BITS) && (y =? ALL_ONES) then Fail "UB: signed overflow"
            else Done (VI32 (wrap (Z.rem (sgn x) (sgn y))))
  | _ => Fail "arith_int: not an arithmetic operator"
  end.

Definition arith_uint (o : binop) (x y : Z) : result value :=
  match o with
  | BAdd => Done (VU32 (add32 x y))
  | BSub => Done (VU32 (sub32 x y))
  | BMul => Done (VU32 (mul32 x y))
  | BDiv => if y =? 0 then Fail "UB: division by zero" else Done (VU32 (x / y))
  | BMod => if y =? 0 then Fail "UB: division by zero" else Done (VU32 (x mod y))
  | _ => Fail "arith_uint: not an arithmetic operator"
  end.

Definition arith_float (o : binop) (x y : Z) : result value :=
  match o with
  | BAdd => Done (VF32 (fadd x y))
  | BSub => Done (VF32 (fsub x y))
  | BMul => Done (VF32 (fmul x y))
  | BDiv => Done (VF32 (fdiv x y))
  | _ => Fail "operator % on float operands"
  end.

Definition m_arith (o : binop) (a b : value) : result value :=
  c <~ arith_conv a b ;;
  let '(k, x, y) := c in
  match k with KI => arith_int o x y | KU => arith_uint o x y | KF => arith_float o x y end.

Definition m_cmp (o : binop) (a b : value) : result value :=
  c <~ arith_conv a b ;;
  let '(k, x, y) := c in
  match k with
  | KI => match o with
          | BEq => Done (VBool (x =? y)) | BNe => Done (VBool (negb (x =? y)))
          | BLt => Done (VBool (lt_i32 x y)) | BLe => Done (VBool (le_i32 x y))
          | BGt => Done (VBool (lt_i32 y x)) | BGe => Done (VBool (le_i32 y x))
          | _ => Fail "cmp: operator" end
  | KU => match o with
          | BEq => Done (VBool (x =? y)) | BNe => Done (VBool (negb (x =? y)))
          | BLt => Done (VBool (lt_u32 x y)) | BLe => Done (VBool (le_u32 x y))
          | BGt => Done (VBool (lt_u32 y x)) | BGe => Done (VBool (le_u32 y x))
          | _ => Fail "cmp: operator" end
  | KF => match o with
          | BEq => Done (VBool (feq x y)) | BNe => Done (VBool (fne x y))
          | BLt => Done (VBool (flt x y)) | BLe => Done (VBool (fle x y))
          | BGt => Done (VBool (fgt x y)) | BGe => Done (VBool (fge x y))
          | _ => Fail "cmp: operator" end
  end.

Definition bit_z (o : binop) (x y : Z) : Z :=
  match o with BAnd => and32 x y | BOr => or32 x y | _ => xor32 x y end.

(* & | ^ : two bools give a bool (C++ gives the int 0/1; every consumer converts it back,
   so the two readings are indistinguishable - DialectChoices.md) *)
Definition m_bit (o : binop) (a b : value) : result value :=
  match a, b with
  | VBool x, VBool y =>
    Done (VBool (match o with BAnd => andb x y | BOr => orb x y | _ => xorb x y end))
  | _, _ =>
    c <~ arith_conv a b ;;
    let '(k, x, y) := c in
    match k with
    | KI => Done (VI32 (bit_z o x y))
    | KU => Done (VU32 (bit_z o x y))
    | KF => Fail "bitwise operator on float operands"
    end
  end.

(* << >> : MSL 3.1 section 3.1 "the shift amount is the log2(N) least significant bits of E2",
   for signed and unsigned E1 alike; >> on a signed E1 is arithmetic *)
Definition shift_amount (b : value) : result Z :=
  match promote b with
  | VI32 n | VU32 n => Done n
  | _ => Fail "shift amount is not an integer"
  end.

Definition m_shift (o : binop) (a b : value) : result value :=
  n <~ shift_amount b ;;
  match promote a with
  | VI32 x => Done (VI32 (match o with BShl => shl32 x n | _ => shr_i32 x n end))
  | VU32 x => Done (VU32 (match o with BShl => shl32 x n | _ => shr_u32 x n end))
  | _ => Fail "shift of a non-integer"
  end.

Definition to_bool (v : value) : result bool :=
  match v with
  | VBool b => Done b
  | VI32 x | VU32 x => Done (negb (x =? 0))
  | VF32 x => Done (negb (feq x 0))
  | _ => Fail "conversion to bool of a non-scalar"
  end.

Definition binop_scalar (o : binop) (a b : value) : result value :=
  match o with
  | BAdd | BSub | BMul | BDiv | BMod => m_arith o a b
  | BEq | BNe | BLt | BLe | BGt | BGe => m_cmp o a b
  | BAnd | BOr | BXor => m_bit o a b
  | BShl | BShr => m_shift o a b
  | BLAnd => x <~ to_bool a ;; y <~ to_bool b ;; Done (VBool (andb x y))
  | BLOr => x <~ to_bool a ;; y <~ to_bool b ;; Done (VBool (orb x y))
  end.

Definition is_mat (v : value) : bool := match v with VMat _ => true | _ => false end.

(* vectors: component-wise, a scalar operand is broadcast; matrices: linear algebra of IR/Values
   (float only; the float operations are the same correctly rounded ones) *)
Definition binop_val (o : binop) (a b : value) : result value :=
  if is_mat a || is_mat b then
    match o with
    | BMul => mul_value a b
    | BAdd => addsub_value OAdd a b
    | BSub => addsub_value OSub a b
    | _ => Fail "operator on matrices not modelled"
    end
  else lift2 (binop_scalar o) a b.

(* ---- unary ---- *)
Definition unop_scalar (o : unop) (a : value) : result value :=
  match o with
  | UNeg =>
    match promote a with
    | VI32 x => if x =? INT_MIN_BITS then Fail "UB: signed overflow" else Done (VI32 (neg32 x))
    | VU32 x => Done (VU32 (neg32 x))
    | VF32 x => Done (VF32 (fneg x))
    | _ => Fail "unary minus: operand"
    end
  | UNot => b <~ to_bool a ;; Done (VBool (negb b))
  | UBitNot =>
    match promote a with
    | VI32 x => Done (VI32 (not32 x))
    | VU32 x => Done (VU32 (not32 x))
    | _ => Fail "~: operand"
    end
  end.

Definition unop_val (o : unop) (a : value) : result value :=
  match a with
  | VMat cs => r <~ rmap (lift1 (unop_scalar o)) cs ;; Done (VMat r)
  | _ => lift1 (unop_scalar o) a
  end.

(* ---- conversions: static_cast<T>(e), T(e) ---- *)
(* float -> integer: truncation toward zero; undefined if the truncated value is not
   representable (C++14 [conv.fpint]) *)
Definition cast_scalar (s : sty) (v : value) : result value :=
  match s, v with
  | SInt, VI32 x | SInt, VU32 x => Done (VI32 x)
  | SInt, VBool b => Done (VI32 (if b then 1 else 0))
  | SInt, VF32 x =>
    match z_of_f32_trunc x with
    | Some z => if in_i32 z then Done (VI32 (wrap z)) else Fail "UB: float to int conversion out of range"
    | None => Fail "UB: float to int conversion out of range"
    end
  | SUint, VI32 x | SUint, VU32 x => Done (VU32 x)
  | SUint, VBool b => Done (VU32 (if b then 1 else 0))
  | SUint, VF32 x =>
    match z_of_f32_trunc x with
    | Some z => if in32b z then Done (VU32 z) else Fail "UB: float to uint conversion out of range"
    | None => Fail "UB: float to uint conversion out of range"
    end
  | SFloat, VI32 x => Done (VF32 (f32_of_i32 x))
  | SFloat, VU32 x => Done (VF32 (f32_of_u32 x))
  | SFloat, VF32 x => Done (VF32 x)
  | SFloat, VBool b => Done (VF32 (if b then 1065353216 else 0))
  | SBool, _ => b <~ to_bool v ;; Done (VBool b)
  | _, _ => Fail "cast: kinds"
  end.

Definition cast_val (t : ty) (v : value) : result value :=
  match t, v with
  | TyS s, VVec _ => Fail "cast of a vector to a scalar type"
  | TyS s, _ => cast_scalar s v
  | TyV n s _, VVec l =>
    if Nat.eqb (List.length l) n then r <~ rmap (cast_scalar s) l ;; Done (VVec r)
    else Fail "cast: vector size"
  | TyV n s _, _ => x <~ cast_scalar s v ;; Done (VVec (repeat x n))
  | _, _ => Fail "cast: target type not modelled"
  end.

(* implicit conversion to the declared scalar type at initialisation / argument passing *)
Definition implicit_conv (t : ty) (v : value) : result value :=
  match t, v with
  | TyS SChar, _ => Done v
  | TyS s, VBool _ | TyS s, VI32 _ | TyS s, VU32 _ | TyS s, VF32 _ => cast_scalar s v
  | _, _ => Done v
  end.

(* ---- as_type<T>(e): reinterpretation of the bits ---- *)
Definition astype_scalar (s : sty) (v : value) : result value :=
  match v with
  | VI32 x | VU32 x | VF32 x =>
    match s with
    | SInt => Done (VI32 x) | SUint => Done (VU32 x) | SFloat => Done (VF32 x)
    | _ => Fail "as_type: target"
    end
  | _ => Fail "as_type: operand"
  end.

Definition astype_val (t : ty) (v : value) : result value :=
  match t, v with
  | TyS s, VVec _ => Fail "as_type: size mismatch"
  | TyS s, _ => astype_scalar s v
  | TyV n s _, VVec l =>
    if Nat.eqb (List.length l) n then r <~ rmap (astype_scalar s) l ;; Done (VVec r)
    else Fail "as_type: size mismatch"
  | _, _ => Fail "as_type: target type not modelled"
  end.

(* ---- metal:: intrinsics ---- *)
Definition num2m (fi fu ff : Z -> Z -> Z) (a b : value) : result value :=
  c <~ arith_conv a b ;;
  let '(k, x, y) := c in
  match k with KI => Done (VI32 (fi x y)) | KU => Done (VU32 (fu x y)) | KF => Done (VF32 (ff x y)) end.

Definition m_min := num2m min_i32 min_u32 fmin.
Definition m_max := num2m max_i32 max_u32 fmax.
(* MSL 3.1 table 6.2/6.5: clamp(x, lo, hi) = min(max(x, lo), hi) *)
Definition m_clamp (x lo hi : value) : result value := m <~ m_max x lo ;; m_min m hi.

(* metal::select(a, b, c) = c ? b : a  (MSL 3.1 table 6.8) *)
Definition m_select (a b c : value) : result value :=
  t <~ to_bool c ;; Done (if t then b else a).

Definition f32_one : Z := 1065353216.
Definition f32_half : Z := 1056964608.
Definition f32_mone : Z := 3212836864.

(* metal::round: halfway cases away from zero (MSL 3.1 table 6.3) *)
Definition fround_away (a : Z) : Z :=
  if is_nan_bits a then QNAN
  else let t := ftrunc a in
       if fle f32_half (fabs (fsub a t))
       then (if flt a 0 then fsub t f32_one else fadd t f32_one)
       else t.

Definition fsign (x : Z) : Z :=
  if is_nan_bits x then 0 (* MSL: sign(NaN) = 0.0 *)
  else if flt 0 x then f32_one else if flt x 0 then f32_mone else x.

Definition float1m (f : Z -> Z) (v : value) : result value :=
  match v with VF32 x => Done (VF32 (f x)) | _ => Fail "intrinsic: expected float" end.
Definition int1m (f : Z -> Z) (v : value) : result value :=
  match v with VI32 x => Done (VI32 (f x)) | VU32 x => Done (VU32 (f x)) | _ => Fail "intrinsic: expected integer" end.

Definition m_abs (v : value) : result value :=
  match v with
  | VF32 x => Done (VF32 (fabs x))
  | VU32 x => Done (VU32 x)
  | VI32 x => if x =? INT_MIN_BITS then Fail "UB: abs of INT_MIN" else Done (VI32 (abs_i32 x))
  | _ => Fail "abs: operand"
  end.

(* extract_bits / insert_bits: undefined when offset + bits exceeds the width (MSL 3.1 table 6.1) *)
Definition m_extract (e off cnt : value) : result value :=
  match e, promote off, promote cnt with
  | VU32 x, (VU32 o | VI32 o), (VU32 c | VI32 c) =>
    if o + c <=? 32 then Done (VU32 (extract_bits_u32 x o c)) else Fail "UB: extract_bits offset + bits > 32"
  | VI32 x, (VU32 o | VI32 o), (VU32 c | VI32 c) =>
    if o + c <=? 32 then Done (VI32 (extract_bits_i32 x o c)) else Fail "UB: extract_bits offset + bits > 32"
  | _, _, _ => Fail "extract_bits: operands"
  end.

Definition m_insert (e nb off cnt : value) : result value :=
  match e, nb, promote off, promote cnt with
  | VU32 x, VU32 n, (VU32 o | VI32 o), (VU32 c | VI32 c) =>
    if o + c <=? 32 then Done (VU32 (insert_bits x n o c)) else Fail "UB: insert_bits offset + bits > 32"
  | VI32 x, VI32 n, (VU32 o | VI32 o), (VU32 c | VI32 c) =>
    if o + c <=? 32 then Done (VI32 (insert_bits x n o c)) else Fail "UB: insert_bits offset + bits > 32"
  | _, _, _, _ => Fail "insert_bits: operands"
  end.

Definition lift3v (f : value -> value -> value -> result value) (a b c : value) : result value :=
  let n := match a, b, c with
           | VVec l, _, _ | _, VVec l, _ | _, _, VVec l => Some (List.length l)
           | _, _, _ => None end in
  match n with
  | None => f a b c
  | Some n =>
    let comps v := match v with VVec l => l | _ => repeat v n end in
    rbind ((fix go l1 l2 l3 := match l1, l2, l3 with
       | [], [], [] => Done []
       | x :: r1, y :: r2, z :: r3 => v <~ f x y z ;; vs <~ go r1 r2 r3 ;; Done (v :: vs)
       | _, _, _ => Fail "vector length mismatch" end) (comps a) (comps b) (comps c)) (fun vs => Done (VVec vs))
  end.

Definition m_bools_of (v : value) : result (list bool) :=
  match v with
  | VBool b => Done [b]
  | VVec l => rmap (fun x => match x with VBool b => Done b | _ => Fail "expected bool" end) l
  | _ => Fail "expected bool vector"
  end.

Definition intrinsic (f : string) (args : list value) : result value :=
  match args with
  | [a] =>
    if String.eqb f "metal::abs" then lift1 m_abs a
    else if String.eqb f "metal::sign" then lift1 (float1m fsign) a
    else if String.eqb f "metal::popcount" then lift1 (int1m count_one_bits) a
    else if String.eqb f "metal::clz" then lift1 (int1m count_leading_zeros) a
    else if String.eqb f "metal::ctz" then lift1 (int1m count_trailing_zeros) a
    else if String.eqb f "metal::reverse_bits" then lift1 (int1m reverse_bits) a
    else if String.eqb f "metal::floor" then lift1 (float1m ffloor) a
    else if String.eqb f "metal::ceil" then lift1 (float1m fceil) a
    else if String.eqb f "metal::trunc" then lift1 (float1m ftrunc) a
    else if String.eqb f "metal::rint" then lift1 (float1m fround) a
    else if String.eqb f "metal::round" then lift1 (float1m fround_away) a
    else if String.eqb f "metal::sqrt" then lift1 (float1m fsqrt) a
    else if String.eqb f "metal::saturate" then lift1 (fun x => m_clamp x (VF32 0) (VF32 f32_one)) a
    else if String.eqb f "metal::any" then bs <~ m_bools_of a ;; Done (VBool (existsb (fun b => b) bs))
    else if String.eqb f "metal::all" then bs <~ m_bools_of a ;; Done (VBool (forallb (fun b => b) bs))
    else if String.eqb f "metal::isnan" then
      lift1 (fun x => match x with VF32 z => Done (VBool (is_nan_bits z)) | _ => Fail "isnan: operand" end) a
    else if String.eqb f "metal::isinf" then
      lift1 (fun x => match x with VF32 z => Done (VBool (is_inf_bits z)) | _ => Fail "isinf: operand" end) a
    else Fail ("not modelled: intrinsic " ++ f)
  | [a; b] =>
    if String.eqb f "metal::min" then lift2 m_min a b
    else if String.eqb f "metal::max" then lift2 m_max a b
    else if String.eqb f "metal::dot" then
      match a, b with VVec l1, VVec l2 => dot_vals l1 l2 | _, _ => Fail "dot: operands" end
    else Fail ("not modelled: intrinsic " ++ f)
  | [a; b; c] =>
    if String.eqb f "metal::clamp" then lift3v m_clamp a b c
    else if String.eqb f "metal::select" then lift3v m_select a b c
    else if String.eqb f "metal::fma" then
      lift3v (fun x y z => match x, y, z with VF32 p, VF32 q, VF32 r => Done (VF32 (ffma p q r)) | _, _, _ => Fail "fma: operands" end) a b c
    else if String.eqb f "metal::extract_bits" then
      match a with
      | VVec l => vs <~ rmap (fun x => m_extract x b c) l ;; Done (VVec vs)
      | _ => m_extract a b c
      end
    else Fail ("not modelled: intrinsic " ++ f)
  | [a; b; c; d] =>
    if String.eqb f "metal::insert_bits" then
      match a, b with
      | VVec l1, VVec l2 => vs <~ zip_res (fun x y => m_insert x y c d) l1 l2 ;; Done (VVec vs)
      | _, _ => m_insert a b c d
      end
    else Fail ("not modelled: intrinsic " ++ f)
  | _ => Fail ("not modelled: intrinsic " ++ f)
  end.
