(* Vector shapes, second part: extractBits/insertBits, firstTrailingBit/firstLeadingBit and the float->int helpers on
   vec2/vec3/vec4 (component-wise WGSL value; multi-stage templates are rewritten stage by stage). *)
From Coq Require Import List ZArith String Bool Lia.
From Coq Require Import ZifyBool.
Import ListNotations.
Require Import Naga.Base.Bits32 Naga.Base.F32 Naga.IR.Values Naga.Msl.Syntax Naga.Msl.Ops Naga.Msl.Sem Naga.Msl.Catalogue Naga.Msl.CatalogueProofs.
Open Scope string_scope.
Open Scope Z_scope.
Ltac Zify.zify_post_hook ::= Z.to_euclidean_division_equations.
Require Import Naga.Msl.FloatConv Naga.Msl.FloatConvProofs.
Lemma extract_u32_core a b c : in32 b -> in32 c ->
  (if min_u32 b 32 + min_u32 c (sub32 32 (min_u32 b 32)) <=? 32
   then Done (VU32 (extract_bits_u32 a (min_u32 b 32) (min_u32 c (sub32 32 (min_u32 b 32)))))
   else Fail "UB: extract_bits offset + bits > 32") = Done (VU32 (extract_bits_u32 a b c)).
Proof.
  intros Hb Hc. oc_tac b c Hb Hc. f_equal. f_equal. unfold extract_bits_u32. cbv zeta. rewrite Ho, Hk, Ek, Eo. reflexivity.
Qed.
Lemma extract_i32_core a b c : in32 b -> in32 c ->
  (if min_u32 b 32 + min_u32 c (sub32 32 (min_u32 b 32)) <=? 32
   then Done (VI32 (extract_bits_i32 a (min_u32 b 32) (min_u32 c (sub32 32 (min_u32 b 32)))))
   else Fail "UB: extract_bits offset + bits > 32") = Done (VI32 (extract_bits_i32 a b c)).
Proof.
  intros Hb Hc. oc_tac b c Hb Hc. f_equal. f_equal. unfold extract_bits_i32. cbv zeta. rewrite Ho, Hk, Ek, Eo. reflexivity.
Qed.
Lemma insert_u32_core a n c d : in32 c -> in32 d ->
  (if min_u32 c 32 + min_u32 d (sub32 32 (min_u32 c 32)) <=? 32
   then Done (VU32 (insert_bits a n (min_u32 c 32) (min_u32 d (sub32 32 (min_u32 c 32)))))
   else Fail "UB: insert_bits offset + bits > 32") = Done (VU32 (insert_bits a n c d)).
Proof.
  intros Hc Hd. oc_tac c d Hc Hd. f_equal. f_equal. unfold insert_bits. cbv zeta. rewrite Ho, Hk, Ek, Eo. reflexivity.
Qed.
Lemma insert_i32_core a n c d : in32 c -> in32 d ->
  (if min_u32 c 32 + min_u32 d (sub32 32 (min_u32 c 32)) <=? 32
   then Done (VI32 (insert_bits a n (min_u32 c 32) (min_u32 d (sub32 32 (min_u32 c 32)))))
   else Fail "UB: insert_bits offset + bits > 32") = Done (VI32 (insert_bits a n c d)).
Proof.
  intros Hc Hd. oc_tac c d Hc Hd. f_equal. f_equal. unfold insert_bits. cbv zeta. rewrite Ho, Hk, Ek, Eo. reflexivity.
Qed.
Lemma ftb_u32_core a : in32 a -> sub32 (add32 (count_trailing_zeros a) 1 mod 33) 1 = first_trailing_bit a.
Proof.
  intros Ha. pose proof (ctz_range a) as R. unfold first_trailing_bit, ALL_ONES, add32, sub32, wrap, M32.
  destruct (Z.eqb_spec a 0) as [e0|n0].
  - subst a. reflexivity.
  - pose proof (ctz_nonzero a Ha n0). rewrite (Z.mod_small (count_trailing_zeros a + 1)) by lia.
    rewrite (Z.mod_small (count_trailing_zeros a + 1) 33) by lia. rewrite Z.mod_small; lia.
Qed.

Definition f2i32_core (a : Z) : result value :=
  match z_of_f32_trunc (fclamp_i32 a) with
  | Some z => if in_i32 z then Done (VI32 (wrap z)) else Fail "UB: float to int conversion out of range"
  | None => Fail "UB: float to int conversion out of range"
  end.
Definition f2u32_core (a : Z) : result value :=
  match z_of_f32_trunc (fclamp_u32 a) with
  | Some z => if in32b z then Done (VU32 z) else Fail "UB: float to uint conversion out of range"
  | None => Fail "UB: float to uint conversion out of range"
  end.
Lemma f2i32_core_ok a : is_nan_bits a = false -> flt F_HI a = false -> f2i32_core a = Done (VI32 (i32_of_f32 a)).
Proof. intros Hn Hh. unfold f2i32_core. rewrite <- f2i32_eval. apply msl_conv_f32_i32_correct_below_2p31; assumption. Qed.
Lemma f2u32_core_ok a : flt F_UHI a = false -> f2u32_core a = Done (VU32 (u32_of_f32 a)).
Proof. intros Hh. unfold f2u32_core. rewrite <- f2u32_eval. apply msl_conv_f32_u32_correct_below_2p32; assumption. Qed.
Lemma msl_extractbits_i32_v2 : forall a1 a2 b c, in32 b -> in32 c -> run3 [] t_extract (VVec [VI32 a1; VI32 a2]) (VU32 b) (VU32 c) = Done (VVec [VI32 (extract_bits_i32 a1 b c); VI32 (extract_bits_i32 a2 b c)]).
Proof. intros. ev. rewrite !extract_i32_core by assumption. reflexivity. Qed.

Lemma msl_insertbits_i32_v2 : forall a1 a2 b1 b2 c d, in32 c -> in32 d -> run_tmpl [] t_insert (VVec [VI32 a1; VI32 a2]) (VVec [VI32 b1; VI32 b2]) (VU32 c) (VU32 d) = Done (VVec [VI32 (insert_bits a1 b1 c d); VI32 (insert_bits a2 b2 c d)]).
Proof. intros. rewrite run_tmpl_pure by reflexivity; simp. rewrite !insert_i32_core by assumption. reflexivity. Qed.

Lemma msl_extractbits_u32_v2 : forall a1 a2 b c, in32 b -> in32 c -> run3 [] t_extract (VVec [VU32 a1; VU32 a2]) (VU32 b) (VU32 c) = Done (VVec [VU32 (extract_bits_u32 a1 b c); VU32 (extract_bits_u32 a2 b c)]).
Proof. intros. ev. rewrite !extract_u32_core by assumption. reflexivity. Qed.

Lemma msl_insertbits_u32_v2 : forall a1 a2 b1 b2 c d, in32 c -> in32 d -> run_tmpl [] t_insert (VVec [VU32 a1; VU32 a2]) (VVec [VU32 b1; VU32 b2]) (VU32 c) (VU32 d) = Done (VVec [VU32 (insert_bits a1 b1 c d); VU32 (insert_bits a2 b2 c d)]).
Proof. intros. rewrite run_tmpl_pure by reflexivity; simp. rewrite !insert_u32_core by assumption. reflexivity. Qed.

Lemma msl_firsttrailingbit_u32_v2 : forall a1 a2, in32 a1 -> in32 a2 -> run1 [] t_ftb (VVec [VU32 a1; VU32 a2]) = Done (VVec [VU32 (first_trailing_bit a1); VU32 (first_trailing_bit a2)]).
Proof. intros. ev. rewrite !ftb_u32_core by assumption. reflexivity. Qed.

Lemma msl_conv_f32_i32_v2_correct_below_2p31 : forall a1 a2, is_nan_bits a1 = false -> flt F_HI a1 = false -> is_nan_bits a2 = false -> flt F_HI a2 = false -> run1 [h_f2i32 2] (t_call1 "naga_f2i32") (VVec [VF32 a1; VF32 a2]) = Done (VVec [VI32 (i32_of_f32 a1); VI32 (i32_of_f32 a2)]).
Proof. intros. ev. change (fneg 1325400064) with F_LO. change 1325400063 with F_HI. fold (fclamp_i32 a1). fold (fclamp_i32 a2). fold (f2i32_core a1). fold (f2i32_core a2). rewrite !f2i32_core_ok by assumption. reflexivity. Qed.

Lemma msl_conv_f32_u32_v2_correct_below_2p32 : forall a1 a2, flt F_UHI a1 = false -> flt F_UHI a2 = false -> run1 [h_f2u32 2] (t_call1 "naga_f2u32") (VVec [VF32 a1; VF32 a2]) = Done (VVec [VU32 (u32_of_f32 a1); VU32 (u32_of_f32 a2)]).
Proof. intros. ev. change 1333788671 with F_UHI. fold (fclamp_u32 a1). fold (fclamp_u32 a2). fold (f2u32_core a1). fold (f2u32_core a2). rewrite !f2u32_core_ok by assumption. reflexivity. Qed.

Lemma msl_extractbits_i32_v3 : forall a1 a2 a3 b c, in32 b -> in32 c -> run3 [] t_extract (VVec [VI32 a1; VI32 a2; VI32 a3]) (VU32 b) (VU32 c) = Done (VVec [VI32 (extract_bits_i32 a1 b c); VI32 (extract_bits_i32 a2 b c); VI32 (extract_bits_i32 a3 b c)]).
Proof. intros. ev. rewrite !extract_i32_core by assumption. reflexivity. Qed.

Lemma msl_insertbits_i32_v3 : forall a1 a2 a3 b1 b2 b3 c d, in32 c -> in32 d -> run_tmpl [] t_insert (VVec [VI32 a1; VI32 a2; VI32 a3]) (VVec [VI32 b1; VI32 b2; VI32 b3]) (VU32 c) (VU32 d) = Done (VVec [VI32 (insert_bits a1 b1 c d); VI32 (insert_bits a2 b2 c d); VI32 (insert_bits a3 b3 c d)]).
Proof. intros. rewrite run_tmpl_pure by reflexivity; simp. rewrite !insert_i32_core by assumption. reflexivity. Qed.

Lemma msl_extractbits_u32_v3 : forall a1 a2 a3 b c, in32 b -> in32 c -> run3 [] t_extract (VVec [VU32 a1; VU32 a2; VU32 a3]) (VU32 b) (VU32 c) = Done (VVec [VU32 (extract_bits_u32 a1 b c); VU32 (extract_bits_u32 a2 b c); VU32 (extract_bits_u32 a3 b c)]).
Proof. intros. ev. rewrite !extract_u32_core by assumption. reflexivity. Qed.

Lemma msl_insertbits_u32_v3 : forall a1 a2 a3 b1 b2 b3 c d, in32 c -> in32 d -> run_tmpl [] t_insert (VVec [VU32 a1; VU32 a2; VU32 a3]) (VVec [VU32 b1; VU32 b2; VU32 b3]) (VU32 c) (VU32 d) = Done (VVec [VU32 (insert_bits a1 b1 c d); VU32 (insert_bits a2 b2 c d); VU32 (insert_bits a3 b3 c d)]).
Proof. intros. rewrite run_tmpl_pure by reflexivity; simp. rewrite !insert_u32_core by assumption. reflexivity. Qed.

Lemma msl_firsttrailingbit_u32_v3 : forall a1 a2 a3, in32 a1 -> in32 a2 -> in32 a3 -> run1 [] t_ftb (VVec [VU32 a1; VU32 a2; VU32 a3]) = Done (VVec [VU32 (first_trailing_bit a1); VU32 (first_trailing_bit a2); VU32 (first_trailing_bit a3)]).
Proof. intros. ev. rewrite !ftb_u32_core by assumption. reflexivity. Qed.

Lemma msl_conv_f32_i32_v3_correct_below_2p31 : forall a1 a2 a3, is_nan_bits a1 = false -> flt F_HI a1 = false -> is_nan_bits a2 = false -> flt F_HI a2 = false -> is_nan_bits a3 = false -> flt F_HI a3 = false -> run1 [h_f2i32 3] (t_call1 "naga_f2i32") (VVec [VF32 a1; VF32 a2; VF32 a3]) = Done (VVec [VI32 (i32_of_f32 a1); VI32 (i32_of_f32 a2); VI32 (i32_of_f32 a3)]).
Proof. intros. ev. change (fneg 1325400064) with F_LO. change 1325400063 with F_HI. fold (fclamp_i32 a1). fold (fclamp_i32 a2). fold (fclamp_i32 a3). fold (f2i32_core a1). fold (f2i32_core a2). fold (f2i32_core a3). rewrite !f2i32_core_ok by assumption. reflexivity. Qed.

Lemma msl_conv_f32_u32_v3_correct_below_2p32 : forall a1 a2 a3, flt F_UHI a1 = false -> flt F_UHI a2 = false -> flt F_UHI a3 = false -> run1 [h_f2u32 3] (t_call1 "naga_f2u32") (VVec [VF32 a1; VF32 a2; VF32 a3]) = Done (VVec [VU32 (u32_of_f32 a1); VU32 (u32_of_f32 a2); VU32 (u32_of_f32 a3)]).
Proof. intros. ev. change 1333788671 with F_UHI. fold (fclamp_u32 a1). fold (fclamp_u32 a2). fold (fclamp_u32 a3). fold (f2u32_core a1). fold (f2u32_core a2). fold (f2u32_core a3). rewrite !f2u32_core_ok by assumption. reflexivity. Qed.

Lemma msl_extractbits_i32_v4 : forall a1 a2 a3 a4 b c, in32 b -> in32 c -> run3 [] t_extract (VVec [VI32 a1; VI32 a2; VI32 a3; VI32 a4]) (VU32 b) (VU32 c) = Done (VVec [VI32 (extract_bits_i32 a1 b c); VI32 (extract_bits_i32 a2 b c); VI32 (extract_bits_i32 a3 b c); VI32 (extract_bits_i32 a4 b c)]).
Proof. intros. ev. rewrite !extract_i32_core by assumption. reflexivity. Qed.

Lemma msl_insertbits_i32_v4 : forall a1 a2 a3 a4 b1 b2 b3 b4 c d, in32 c -> in32 d -> run_tmpl [] t_insert (VVec [VI32 a1; VI32 a2; VI32 a3; VI32 a4]) (VVec [VI32 b1; VI32 b2; VI32 b3; VI32 b4]) (VU32 c) (VU32 d) = Done (VVec [VI32 (insert_bits a1 b1 c d); VI32 (insert_bits a2 b2 c d); VI32 (insert_bits a3 b3 c d); VI32 (insert_bits a4 b4 c d)]).
Proof. intros. rewrite run_tmpl_pure by reflexivity; simp. rewrite !insert_i32_core by assumption. reflexivity. Qed.

Lemma msl_extractbits_u32_v4 : forall a1 a2 a3 a4 b c, in32 b -> in32 c -> run3 [] t_extract (VVec [VU32 a1; VU32 a2; VU32 a3; VU32 a4]) (VU32 b) (VU32 c) = Done (VVec [VU32 (extract_bits_u32 a1 b c); VU32 (extract_bits_u32 a2 b c); VU32 (extract_bits_u32 a3 b c); VU32 (extract_bits_u32 a4 b c)]).
Proof. intros. ev. rewrite !extract_u32_core by assumption. reflexivity. Qed.

Lemma msl_insertbits_u32_v4 : forall a1 a2 a3 a4 b1 b2 b3 b4 c d, in32 c -> in32 d -> run_tmpl [] t_insert (VVec [VU32 a1; VU32 a2; VU32 a3; VU32 a4]) (VVec [VU32 b1; VU32 b2; VU32 b3; VU32 b4]) (VU32 c) (VU32 d) = Done (VVec [VU32 (insert_bits a1 b1 c d); VU32 (insert_bits a2 b2 c d); VU32 (insert_bits a3 b3 c d); VU32 (insert_bits a4 b4 c d)]).
Proof. intros. rewrite run_tmpl_pure by reflexivity; simp. rewrite !insert_u32_core by assumption. reflexivity. Qed.

Lemma msl_firsttrailingbit_u32_v4 : forall a1 a2 a3 a4, in32 a1 -> in32 a2 -> in32 a3 -> in32 a4 -> run1 [] t_ftb (VVec [VU32 a1; VU32 a2; VU32 a3; VU32 a4]) = Done (VVec [VU32 (first_trailing_bit a1); VU32 (first_trailing_bit a2); VU32 (first_trailing_bit a3); VU32 (first_trailing_bit a4)]).
Proof. intros. ev. rewrite !ftb_u32_core by assumption. reflexivity. Qed.

Lemma msl_conv_f32_i32_v4_correct_below_2p31 : forall a1 a2 a3 a4, is_nan_bits a1 = false -> flt F_HI a1 = false -> is_nan_bits a2 = false -> flt F_HI a2 = false -> is_nan_bits a3 = false -> flt F_HI a3 = false -> is_nan_bits a4 = false -> flt F_HI a4 = false -> run1 [h_f2i32 4] (t_call1 "naga_f2i32") (VVec [VF32 a1; VF32 a2; VF32 a3; VF32 a4]) = Done (VVec [VI32 (i32_of_f32 a1); VI32 (i32_of_f32 a2); VI32 (i32_of_f32 a3); VI32 (i32_of_f32 a4)]).
Proof. intros. ev. change (fneg 1325400064) with F_LO. change 1325400063 with F_HI. fold (fclamp_i32 a1). fold (fclamp_i32 a2). fold (fclamp_i32 a3). fold (fclamp_i32 a4). fold (f2i32_core a1). fold (f2i32_core a2). fold (f2i32_core a3). fold (f2i32_core a4). rewrite !f2i32_core_ok by assumption. reflexivity. Qed.

Lemma msl_conv_f32_u32_v4_correct_below_2p32 : forall a1 a2 a3 a4, flt F_UHI a1 = false -> flt F_UHI a2 = false -> flt F_UHI a3 = false -> flt F_UHI a4 = false -> run1 [h_f2u32 4] (t_call1 "naga_f2u32") (VVec [VF32 a1; VF32 a2; VF32 a3; VF32 a4]) = Done (VVec [VU32 (u32_of_f32 a1); VU32 (u32_of_f32 a2); VU32 (u32_of_f32 a3); VU32 (u32_of_f32 a4)]).
Proof. intros. ev. change 1333788671 with F_UHI. fold (fclamp_u32 a1). fold (fclamp_u32 a2). fold (fclamp_u32 a3). fold (fclamp_u32 a4). fold (f2u32_core a1). fold (f2u32_core a2). fold (f2u32_core a3). fold (f2u32_core a4). rewrite !f2u32_core_ok by assumption. reflexivity. Qed.


(* for the multi-stage integer builtins on vectors, arithmetic steps are kept folded and rewritten stage by stage *)
Arguments m_arith : simpl never.

Lemma ftb_s1 a : m_arith BAdd (VI32 (count_trailing_zeros a)) (VI32 1) = Done (VI32 (count_trailing_zeros a + 1)).
Proof.
  pose proof (ctz_range a) as R. unfold m_arith. cbn [arith_conv promote rbind arith_int].
  rewrite (sgn_small (count_trailing_zeros a)) by lia. change (sgn 1) with 1. rewrite sint_ok by lia.
  rewrite wrap_id by (unfold in32, M32; lia). reflexivity.
Qed.
Lemma ftb_s2 a : m_arith BMod (VI32 (count_trailing_zeros a + 1)) (VI32 33) = Done (VI32 (Z.rem (count_trailing_zeros a + 1) 33)).
Proof.
  pose proof (ctz_range a) as R. unfold m_arith. cbn [arith_conv promote rbind arith_int].
  change (33 =? 0) with false. cbv iota.
  destruct (Z.eqb_spec (count_trailing_zeros a + 1) INT_MIN_BITS) as [e|e]; [unfold INT_MIN_BITS, H32 in e; lia|]. cbn [andb].
  rewrite (sgn_small (count_trailing_zeros a + 1)) by lia. change (sgn 33) with 33.
  assert (Rr : 0 <= Z.rem (count_trailing_zeros a + 1) 33 < 33) by (apply Z.rem_bound_pos; lia).
  rewrite wrap_id by (unfold in32, M32; lia). reflexivity.
Qed.
Lemma ftb_s3 a : in32 a -> m_arith BSub (VI32 (Z.rem (count_trailing_zeros a + 1) 33)) (VI32 1) = Done (VI32 (first_trailing_bit a)).
Proof.
  intros Ha. pose proof (ctz_range a) as R.
  assert (Rr : 0 <= Z.rem (count_trailing_zeros a + 1) 33 < 33) by (apply Z.rem_bound_pos; lia).
  unfold m_arith. cbn [arith_conv promote rbind arith_int]. rewrite sgn_small by lia. change (sgn 1) with 1.
  rewrite sint_ok by lia. f_equal. f_equal. unfold first_trailing_bit, ALL_ONES, M32.
  destruct (Z.eqb_spec a 0) as [e0|n0].
  - subst a. reflexivity.
  - pose proof (ctz_nonzero a Ha n0). rewrite Z.rem_small by lia. unfold wrap, M32. rewrite Z.mod_small; lia.
Qed.

Definition flb_arg (a : Z) : Z := if lt_i32 a 0 then not32 a else a.
Lemma flb_s1 a : int1m count_leading_zeros (if lt_i32 a 0 then VI32 (not32 a) else VI32 a) = Done (VI32 (count_leading_zeros (flb_arg a))).
Proof. unfold flb_arg. destruct (lt_i32 a 0); reflexivity. Qed.
Lemma flb_s2 x : m_arith BSub (VI32 31) (VI32 (count_leading_zeros x)) = Done (VI32 (wrap (31 - count_leading_zeros x))).
Proof.
  pose proof (clz_range x) as R. unfold m_arith. cbn [arith_conv promote rbind arith_int]. change (sgn 31) with 31.
  rewrite sgn_small by lia. rewrite sint_ok by lia. reflexivity.
Qed.
Lemma flb_i32_s3 a : in32 a ->
  (if (a =? 0) || (a =? 4294967295) then VI32 4294967295 else VI32 (wrap (31 - count_leading_zeros (flb_arg a)))) =
  VI32 (first_leading_bit_i32 a).
Proof.
  intros Ha. unfold first_leading_bit_i32, flb_arg, lt_i32, ALL_ONES, M32. change (4294967296 - 1) with 4294967295. change (sgn 0) with 0.
  destruct (Z.eqb_spec a 0) as [e0|n0]; [reflexivity|]. destruct (Z.eqb_spec a 4294967295) as [e1|n1]; [reflexivity|]. cbn [orb].
  destruct (Z.ltb_spec (sgn a) 0).
  - pose proof (clz_range (not32 a)). pose proof (clz_nonzero (not32 a) (not32_in a Ha) (not32_nonzero a Ha n1)).
    rewrite wrap_id by (unfold in32, M32; lia). reflexivity.
  - pose proof (clz_range a). pose proof (clz_nonzero a Ha n0). rewrite wrap_id by (unfold in32, M32; lia). reflexivity.
Qed.
Lemma flbu_s2 x : m_arith BSub (VI32 31) (VU32 (count_leading_zeros x)) = Done (VU32 (sub32 31 (count_leading_zeros x))).
Proof. reflexivity. Qed.
Lemma flb_u32_s3 a : in32 a -> a <> 4294967295 ->
  (if (a =? 0) || (a =? 4294967295) then VU32 4294967295 else VU32 (sub32 31 (count_leading_zeros a))) =
  VU32 (first_leading_bit_u32 a).
Proof.
  intros Ha Hn. unfold first_leading_bit_u32, ALL_ONES, M32. change (4294967296 - 1) with 4294967295.
  destruct (Z.eqb_spec a 0) as [e0|n0]; [reflexivity|]. destruct (Z.eqb_spec a 4294967295) as [e1|n1]; [contradiction|]. cbn [orb].
  pose proof (clz_range a). pose proof (clz_nonzero a Ha n0). unfold sub32. rewrite wrap_id by (unfold in32, M32; lia). reflexivity.
Qed.
Lemma msl_firsttrailingbit_i32_v2 : forall a1 a2, in32 a1 -> in32 a2 -> run1 [] t_ftb (VVec [VI32 a1; VI32 a2]) = Done (VVec [VI32 (first_trailing_bit a1); VI32 (first_trailing_bit a2)]).
Proof. intros. ev. rewrite !ftb_s1. simp. rewrite !ftb_s2. simp. rewrite !ftb_s3 by assumption. reflexivity. Qed.

Lemma msl_firstleadingbit_i32_v2 : forall a1 a2, in32 a1 -> in32 a2 -> run1 [] (t_flb_i32 2) (VVec [VI32 a1; VI32 a2]) = Done (VVec [VI32 (first_leading_bit_i32 a1); VI32 (first_leading_bit_i32 a2)]).
Proof. intros. ev. rewrite !flb_s1. simp. rewrite !flb_s2. simp. rewrite !flb_i32_s3 by assumption. reflexivity. Qed.

Lemma msl_firstleadingbit_u32_v2_correct_except_allones : forall a1 a2, in32 a1 -> a1 <> 4294967295 -> in32 a2 -> a2 <> 4294967295 -> run1 [] (t_flb_u32 2) (VVec [VU32 a1; VU32 a2]) = Done (VVec [VU32 (first_leading_bit_u32 a1); VU32 (first_leading_bit_u32 a2)]).
Proof. intros. ev. rewrite !flbu_s2. simp. rewrite !flb_u32_s3 by assumption. reflexivity. Qed.

Lemma msl_firsttrailingbit_i32_v3 : forall a1 a2 a3, in32 a1 -> in32 a2 -> in32 a3 -> run1 [] t_ftb (VVec [VI32 a1; VI32 a2; VI32 a3]) = Done (VVec [VI32 (first_trailing_bit a1); VI32 (first_trailing_bit a2); VI32 (first_trailing_bit a3)]).
Proof. intros. ev. rewrite !ftb_s1. simp. rewrite !ftb_s2. simp. rewrite !ftb_s3 by assumption. reflexivity. Qed.

Lemma msl_firstleadingbit_i32_v3 : forall a1 a2 a3, in32 a1 -> in32 a2 -> in32 a3 -> run1 [] (t_flb_i32 3) (VVec [VI32 a1; VI32 a2; VI32 a3]) = Done (VVec [VI32 (first_leading_bit_i32 a1); VI32 (first_leading_bit_i32 a2); VI32 (first_leading_bit_i32 a3)]).
Proof. intros. ev. rewrite !flb_s1. simp. rewrite !flb_s2. simp. rewrite !flb_i32_s3 by assumption. reflexivity. Qed.

Lemma msl_firstleadingbit_u32_v3_correct_except_allones : forall a1 a2 a3, in32 a1 -> a1 <> 4294967295 -> in32 a2 -> a2 <> 4294967295 -> in32 a3 -> a3 <> 4294967295 -> run1 [] (t_flb_u32 3) (VVec [VU32 a1; VU32 a2; VU32 a3]) = Done (VVec [VU32 (first_leading_bit_u32 a1); VU32 (first_leading_bit_u32 a2); VU32 (first_leading_bit_u32 a3)]).
Proof. intros. ev. rewrite !flbu_s2. simp. rewrite !flb_u32_s3 by assumption. reflexivity. Qed.

Lemma msl_firsttrailingbit_i32_v4 : forall a1 a2 a3 a4, in32 a1 -> in32 a2 -> in32 a3 -> in32 a4 -> run1 [] t_ftb (VVec [VI32 a1; VI32 a2; VI32 a3; VI32 a4]) = Done (VVec [VI32 (first_trailing_bit a1); VI32 (first_trailing_bit a2); VI32 (first_trailing_bit a3); VI32 (first_trailing_bit a4)]).
Proof. intros. ev. rewrite !ftb_s1. simp. rewrite !ftb_s2. simp. rewrite !ftb_s3 by assumption. reflexivity. Qed.

Lemma msl_firstleadingbit_i32_v4 : forall a1 a2 a3 a4, in32 a1 -> in32 a2 -> in32 a3 -> in32 a4 -> run1 [] (t_flb_i32 4) (VVec [VI32 a1; VI32 a2; VI32 a3; VI32 a4]) = Done (VVec [VI32 (first_leading_bit_i32 a1); VI32 (first_leading_bit_i32 a2); VI32 (first_leading_bit_i32 a3); VI32 (first_leading_bit_i32 a4)]).
Proof. intros. ev. rewrite !flb_s1. simp. rewrite !flb_s2. simp. rewrite !flb_i32_s3 by assumption. reflexivity. Qed.

Lemma msl_firstleadingbit_u32_v4_correct_except_allones : forall a1 a2 a3 a4, in32 a1 -> a1 <> 4294967295 -> in32 a2 -> a2 <> 4294967295 -> in32 a3 -> a3 <> 4294967295 -> in32 a4 -> a4 <> 4294967295 -> run1 [] (t_flb_u32 4) (VVec [VU32 a1; VU32 a2; VU32 a3; VU32 a4]) = Done (VVec [VU32 (first_leading_bit_u32 a1); VU32 (first_leading_bit_u32 a2); VU32 (first_leading_bit_u32 a3); VU32 (first_leading_bit_u32 a4)]).
Proof. intros. ev. rewrite !flbu_s2. simp. rewrite !flb_u32_s3 by assumption. reflexivity. Qed.
