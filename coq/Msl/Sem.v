(* Executable fuel-indexed semantics of the MSL subset of Msl/Syntax.v over the
   shared run-time values.  Strict mode: out-of-object indexing, reads of
   uninitialised variables and every operator-level undefined behaviour of
   Msl/Ops.v evaluate to [Fail "UB: ..."]; constructs outside the fragment
   evaluate to [Fail "not modelled: ..."].

   Memory is a list of cells (one per declared variable / by-value parameter /
   buffer); an lvalue is a cell and a path of component indices; references
   (thread T&, device T&, ...) are bound to the lvalue they were initialised
   with.  Struct values hold the non-padding members only ([_padN] members are
   never accessed; their effect on the layout is checked in Msl/Layout.v).
   Calls with reference parameters, and atomics, happen at statement level
   (naga bakes every call result); calls nested in expressions must be to
   functions with by-value parameters only, whose effect on memory is nil. *)
From Coq Require Import List ZArith String Bool.
Import ListNotations.
Require Import Naga.Base.Bits32 Naga.Base.F32 Naga.IR.Values Naga.Msl.Syntax Naga.Msl.Ops.
Open Scope string_scope.
Open Scope Z_scope.

Record binding := mkbind { b_ty : ty; b_cell : nat; b_path : list nat }.
Definition env := list (string * binding).
Definition memory := list (option value).

Inductive outcome := ONormal | OBreak | OContinue | OReturn (v : option value).

Fixpoint lookup {A} (x : string) (l : list (string * A)) : option A :=
  match l with [] => None | (y, a) :: l' => if String.eqb x y then Some a else lookup x l' end.

Definition nth_res {A} (msg : string) (l : list A) (n : nat) : result A :=
  match nth_error l n with Some x => Done x | None => Fail msg end.

Fixpoint set_nth {A} (l : list A) (n : nat) (x : A) : list A :=
  match l, n with
  | [], _ => []
  | _ :: l', O => x :: l'
  | y :: l', S n' => y :: set_nth l' n' x
  end.

Definition is_pad (name : string) : bool := String.prefix "_pad" name.

(* ---- types ---- *)
Section Types.
Variable P : prog.

Definition find_struct (n : string) : option sdef :=
  find (fun s => String.eqb (sd_name s) n) (p_structs P).

Fixpoint resolve (fuel : nat) (t : ty) : ty :=
  match fuel with
  | O => t
  | S f => match t with
           | TyN n => match lookup n (p_typedefs P) with Some t' => resolve f t' | None => t end
           | _ => t
           end
  end.
Definition resolve_ty (t : ty) : ty := resolve 8 t.

Fixpoint member_index (ms : list (string * ty)) (m : string) (i : nat) : option (nat * ty) :=
  match ms with
  | [] => None
  | (n, t) :: r => if is_pad n then member_index r m i
                   else if String.eqb n m then Some (i, t) else member_index r m (S i)
  end.

Definition real_members (s : sdef) : list (string * ty) :=
  filter (fun m => negb (is_pad (fst m))) (sd_members s).

Definition zero_sty (s : sty) : result value :=
  match s with
  | SInt => Done (VI32 0) | SUint => Done (VU32 0) | SFloat => Done (VF32 0) | SBool => Done (VBool false)
  | SChar => Fail "not modelled: value of type char"
  end.

Fixpoint zero_of (fuel : nat) (t : ty) : result value :=
  match fuel with
  | O => OutOfFuel
  | S f =>
    match resolve_ty t with
    | TyS s => zero_sty s
    | TyAtomic s => zero_sty s
    | TyV n s _ => z <~ zero_sty s ;; Done (VVec (repeat z n))
    | TyM c r => Done (VMat (repeat (VVec (repeat (VF32 0) r)) c))
    | TyA t' n => z <~ zero_of f t' ;; Done (VArr (repeat z n))
    | TyN n =>
      match find_struct n with
      | Some s => vs <~ rmap (fun m => zero_of f (snd m)) (real_members s) ;; Done (VStruct vs)
      | None => Fail ("not modelled: type " ++ n)
      end
    end
  end.

Definition swz_index (c : Ascii.ascii) : option nat :=
  let s := String c EmptyString in
  if String.eqb s "x" || String.eqb s "r" then Some 0%nat
  else if String.eqb s "y" || String.eqb s "g" then Some 1%nat
  else if String.eqb s "z" || String.eqb s "b" then Some 2%nat
  else if String.eqb s "w" || String.eqb s "a" then Some 3%nat
  else None.

Fixpoint swz_indices (m : string) : option (list nat) :=
  match m with
  | EmptyString => Some []
  | String c r => match swz_index c, swz_indices r with Some i, Some l => Some (i :: l) | _, _ => None end
  end.

Definition find_func (f : string) : option fdef :=
  find (fun d => String.eqb (fd_name d) f) (p_funcs P).

(* C++ overloads (naga_div for int/uint/int3..., naga_f2i32 for float/float2...): the candidate whose
   by-value parameter types have the shape of the argument values *)
Definition sty_of_value (v : value) : option sty :=
  match v with VI32 _ => Some SInt | VU32 _ => Some SUint | VF32 _ => Some SFloat | VBool _ => Some SBool | _ => None end.

Definition value_has_ty (t : ty) (v : value) : bool :=
  match t, v with
  | TyS s, _ => match sty_of_value v with Some s' => sty_eqb s s' | None => false end
  | TyV n s _, VVec (x :: l) =>
    Nat.eqb (S (List.length l)) n && match sty_of_value x with Some s' => sty_eqb s s' | None => false end
  | TyV _ _ _, _ => false
  | TyM c _, VMat l => Nat.eqb (List.length l) c
  | TyM _ _, _ => false
  | _, _ => true
  end.

Fixpoint args_match (ps : list param) (vs : list (option value)) : bool :=
  match ps, vs with
  | [], [] => true
  | p :: ps', v :: vs' =>
    (match v with Some x => if pa_ref p then true else value_has_ty (pa_ty p) x | None => true end) && args_match ps' vs'
  | _, _ => false
  end.

Definition find_overload (f : string) (vs : list (option value)) : option fdef :=
  match filter (fun d => String.eqb (fd_name d) f) (p_funcs P) with
  | [] => None
  | [d] => Some d
  | ds => match find (fun d => args_match (fd_params d) vs) ds with Some d => Some d | None => None end
  end.

(* static type of the expression forms that can denote aggregates (needed to resolve member
   names and DefaultConstructible()); None = unknown, the value decides *)
Fixpoint type_of (fuel : nat) (E : env) (e : expr) : option ty :=
  match fuel with
  | O => None
  | S f =>
    match e with
    | EVar x => option_map b_ty (lookup x E)
    | EMember e' m =>
      match type_of f E e' with
      | Some t =>
        match resolve_ty t with
        | TyN s => match find_struct s with
                   | Some sd => option_map snd (member_index (sd_members sd) m 0)
                   | None => None end
        | TyV _ sc _ => let n := String.length m in if Nat.eqb n 1 then Some (TyS sc) else Some (TyV n sc false)
        | _ => None
        end
      | None => None
      end
    | EIndex e' _ =>
      match type_of f E e' with
      | Some t =>
        match resolve_ty t with
        | TyA t' _ => Some t'
        | TyV _ sc _ => Some (TyS sc)
        | TyM _ r => Some (TyV r SFloat false)
        | _ => None
        end
      | None => None
      end
    | ECall fn _ => match find_func fn with Some d => fd_ret d | None => None end
    | ECtor t _ | ECast t _ | EAsType t _ => Some t
    | ECond _ a b => match a with EDC => type_of f E b | _ => type_of f E a end
    | EInt _ => Some (TyS SInt) | EUint _ => Some (TyS SUint) | EFloat _ => Some (TyS SFloat) | EBool _ => Some (TyS SBool)
    | _ => None
    end
  end.

(* ---- composite values ---- *)
Definition elems (v : value) : result (list value) :=
  match v with
  | VVec l | VMat l | VArr l | VStruct l => Done l
  | _ => Fail "access: not a composite"
  end.

Definition rebuild (v : value) (l : list value) : value :=
  match v with VVec _ => VVec l | VMat _ => VMat l | VArr _ => VArr l | VStruct _ => VStruct l | _ => v end.

Definition index_value (v : value) (i : nat) : result value :=
  l <~ elems v ;; nth_res "UB: out of bounds" l i.

Fixpoint load_path (v : value) (p : list nat) : result value :=
  match p with
  | [] => Done v
  | i :: p' => x <~ index_value v i ;; load_path x p'
  end.

Fixpoint store_path (v : value) (p : list nat) (nv : value) : result value :=
  match p with
  | [] => Done nv
  | i :: p' =>
    l <~ elems v ;; x <~ nth_res "UB: out of bounds" l i ;;
    x' <~ store_path x p' nv ;; Done (rebuild v (set_nth l i x'))
  end.

Definition load (M : memory) (c : nat) (p : list nat) : result value :=
  cell <~ nth_res "load: cell" M c ;;
  match cell with
  | Some v => load_path v p
  | None => Fail "UB: read of an uninitialised variable"
  end.

Definition store (M : memory) (c : nat) (p : list nat) (v : value) : result memory :=
  cell <~ nth_res "store: cell" M c ;;
  match p, cell with
  | [], _ => Done (set_nth M c (Some v))
  | _, Some old => nv <~ store_path old p v ;; Done (set_nth M c (Some nv))
  | _, None => Fail "not modelled: partial write to an uninitialised variable"
  end.

(* the index as a number; the comparison with the object's length is made in Z, so that a hostile
   index (2^31, 2^32-1) is rejected without ever being built as a unary nat *)
Definition index_z (v : value) : result Z :=
  match v with
  | VI32 z => if z <? H32 then Done z else Fail "UB: out of bounds (negative index)"
  | VU32 z => Done z
  | _ => Fail "index: not an integer"
  end.

Definition index_in (v : value) (z : Z) : result nat :=
  l <~ elems v ;;
  if (0 <=? z) && (z <? Z.of_nat (List.length l)) then Done (Z.to_nat z) else Fail "UB: out of bounds".

(* ---- constructors T(args) / T {args}; an argument None is a bare {} ---- *)
Definition flatten_scalars (comps : list value) : list value :=
  flat_map (fun c => match c with VVec l => l | _ => [c] end) comps.

Fixpoint chunks (fuel : nat) (n : nat) (l : list value) : list (list value) :=
  match fuel with
  | O => []
  | S f => match l with [] => [] | _ => firstn n l :: chunks f n (skipn n l) end
  end.

Fixpoint all_some {A} (l : list (option A)) : option (list A) :=
  match l with
  | [] => Some []
  | Some x :: r => option_map (cons x) (all_some r)
  | None :: _ => None
  end.

Fixpoint init_members (ms : list (string * ty)) (args : list (option value)) : result (list value) :=
  match ms with
  | [] => match args with [] => Done [] | _ => Fail "constructor: too many initialisers" end
  | (n, t) :: r =>
    if is_pad n then
      match args with
      | [] => init_members r []
      | None :: a' => init_members r a'
      | Some _ :: _ => Fail "constructor: initialiser given for a padding member"
      end
    else
      v <~ match args with
           | Some v :: _ => implicit_conv (resolve_ty t) v
           | _ => zero_of 64 t
           end ;;
      vs <~ init_members r (tl args) ;; Done (v :: vs)
  end.

Definition ctor (t : ty) (args : list (option value)) : result value :=
  match resolve_ty t with
  | TyV n s _ =>
    match all_some args with
    | None => Fail "constructor: {} inside a vector constructor"
    | Some vs =>
      cs <~ rmap (cast_scalar s) (flatten_scalars vs) ;;
      match cs with
      | [x] => Done (VVec (repeat x n))
      | _ => if Nat.eqb (List.length cs) n then Done (VVec cs) else Fail "constructor: vector arity"
      end
    end
  | TyM c r =>
    match all_some args with
    | None => Fail "constructor: {} inside a matrix constructor"
    | Some vs =>
      if Nat.eqb (List.length vs) c && forallb (fun v => match v with VVec l => Nat.eqb (List.length l) r | _ => false end) vs
      then Done (VMat vs)
      else let l := flatten_scalars vs in
           if Nat.eqb (List.length l) (c * r) && negb (Nat.eqb (List.length vs) 1)
           then cs <~ rmap (cast_scalar SFloat) l ;; Done (VMat (map VVec (chunks (S (List.length cs)) r cs)))
           else Fail "not modelled: matrix constructor form"
    end
  | TyN sn =>
    match find_struct sn with
    | None => Fail ("not modelled: type " ++ sn)
    | Some sd =>
      match sd_members sd, args with
      | [(_, mt)], _ :: _ =>
        match resolve_ty mt with
        | TyA et n =>            (* array wrapper: brace elision, the initialisers are the elements *)
          match all_some args with
          | Some vs => (* C++14 aggregate initialisation: fewer initialisers than elements value-initialise
                          (zero) the remaining elements; more are ill-formed *)
                       if Nat.leb (List.length vs) n
                       then cs <~ rmap (implicit_conv (resolve_ty et)) vs ;;
                            (if Nat.eqb (List.length vs) n then Done (VStruct [VArr cs])
                             else z <~ zero_of 64 et ;; Done (VStruct [VArr (cs ++ repeat z (n - List.length vs))]))
                       else Fail "constructor: array arity"
          | None => Fail "not modelled: {} among array initialisers"
          end
        | _ => vs <~ init_members (sd_members sd) args ;; Done (VStruct vs)
        end
      | ms, _ => vs <~ init_members ms args ;; Done (VStruct vs)
      end
    end
  | _ => Fail "not modelled: constructor of this type"
  end.

Definition is_intrinsic (f : string) : bool := String.prefix "metal::" f.
Definition is_atomic_fn (f : string) : bool := String.prefix "metal::atomic_" f.

(* ---- atomics (single invocation: sequential; integer atomics wrap, C++14 [atomics.types.operations]) ---- *)
Definition same_kind (old : value) (z : Z) : value :=
  match old with VI32 _ => VI32 z | _ => VU32 z end.

Definition atomic_new (f : string) (old v : value) : result (option value) :=
  match old, v with
  | (VI32 x | VU32 x), (VI32 y | VU32 y) =>
    let signed := match old with VI32 _ => true | _ => false end in
    if String.eqb f "metal::atomic_fetch_add_explicit" then Done (Some (same_kind old (add32 x y)))
    else if String.eqb f "metal::atomic_fetch_sub_explicit" then Done (Some (same_kind old (sub32 x y)))
    else if String.eqb f "metal::atomic_fetch_and_explicit" then Done (Some (same_kind old (and32 x y)))
    else if String.eqb f "metal::atomic_fetch_or_explicit" then Done (Some (same_kind old (or32 x y)))
    else if String.eqb f "metal::atomic_fetch_xor_explicit" then Done (Some (same_kind old (xor32 x y)))
    else if String.eqb f "metal::atomic_fetch_min_explicit" then
      Done (Some (same_kind old (if signed then min_i32 x y else min_u32 x y)))
    else if String.eqb f "metal::atomic_fetch_max_explicit" then
      Done (Some (same_kind old (if signed then max_i32 x y else max_u32 x y)))
    else if String.eqb f "metal::atomic_exchange_explicit" then Done (Some (same_kind old y))
    else if String.eqb f "metal::atomic_store_explicit" then Done (Some (same_kind old y))
    else Fail ("not modelled: " ++ f)
  | _, _ => Fail "not modelled: atomic on a non-integer"
  end.

(* ---- pure expressions: only literals, variables, operators, casts, constructors, member/index
   access, metal:: intrinsics and calls of *simple* user functions (all parameters by value, body =
   pure declarations followed by one return; these are naga's helper functions naga_div, naga_mod,
   naga_neg, naga_abs, naga_f2i32, naga_dot_intN).  They are evaluated by structural recursion (no fuel)
   by [peval]; the interpreter below delegates to it whenever the whole expression is pure. ---- *)
Section PureCheck.
Variable user_ok : string -> bool.     (* may this user function be called? *)
Fixpoint is_pure_gen (e : expr) : bool :=
  match e with
  | EInt _ | EUint _ | EFloat _ | EBool _ | EVar _ => true
  | EUn _ a => is_pure_gen a
  | EBin _ l r => is_pure_gen l && is_pure_gen r
  | ECond c a b => is_pure_gen c && is_pure_gen a && is_pure_gen b
  | ECast _ a | EAsType _ a => is_pure_gen a
  | ECtor _ args =>
    (fix all (l : list expr) : bool :=
       match l with [] => true | a :: r => (match a with EZero => true | _ => is_pure_gen a end) && all r end) args
  | EZero | EDC | EAddr _ => false
  | EMember a _ => is_pure_gen a
  | EIndex a i => is_pure_gen a && is_pure_gen i
  | ECall fn args =>
    (if is_intrinsic fn then negb (is_atomic_fn fn) else user_ok fn) &&
    (fix all (l : list expr) : bool := match l with [] => true | a :: r => is_pure_gen a && all r end) args
  end.
End PureCheck.

Definition is_pure0 : expr -> bool := is_pure_gen (fun _ => false).

(* body of a simple function: declarations with pure initialisers, then `return e;` *)
Fixpoint simple_body (b : list stmt) : option (list (ty * string * expr) * expr) :=
  match b with
  | [SReturn (Some e)] => if is_pure0 e then Some ([], e) else None
  | SDecl t x (Some e) :: r =>
    if is_pure0 e then match simple_body r with Some (ds, ret) => Some ((t, x, e) :: ds, ret) | None => None end
    else None
  | _ => None
  end.

Definition is_simple_fn (d : fdef) : bool :=
  negb (existsb pa_ref (fd_params d)) && negb (fd_kernel d) &&
  match simple_body (fd_body d) with Some _ => true | None => false end.

Definition user_simple (fn : string) : bool :=
  match filter (fun d => String.eqb (fd_name d) fn) (p_funcs P) with
  | [] => false
  | ds => forallb is_simple_fn ds
  end.

Definition is_pure : expr -> bool := is_pure_gen user_simple.

Definition member_value (E : env) (a : expr) (m : string) (v : value) : result value :=
  match v with
  | VStruct l =>
    match type_of 32 E a with
    | Some t =>
      match resolve_ty t with
      | TyN sn =>
        match find_struct sn with
        | Some sd => match member_index (sd_members sd) m 0 with
                     | Some (i, _) => nth_res "member index" l i
                     | None => Fail ("no member " ++ m)
                     end
        | None => Fail ("not modelled: type " ++ sn)
        end
      | _ => Fail "member access: static type is not a struct"
      end
    | None => Fail "not modelled: member access on a struct value of unknown static type"
    end
  | VVec l =>
    match swz_indices m with
    | Some [i] => nth_res "UB: out of bounds" l i
    | Some is => vs <~ rmap (nth_res "UB: out of bounds" l) is ;; Done (VVec vs)
    | None => Fail ("bad swizzle " ++ m)
    end
  | _ => Fail "member access on a scalar"
  end.

Section Run.
Variable G : env.      (* module-scope constants *)

Definition alloc (M : memory) (v : option value) : memory * nat := ((M ++ [v])%list, List.length M).

Section Pure.
Variable call : string -> list value -> memory -> result value.     (* user-function calls *)
Fixpoint peval_gen (E : env) (M : memory) (e : expr) {struct e} : result value :=
  match e with
  | EInt z => Done (VI32 (wrap z))
  | EUint z => Done (VU32 (wrap z))
  | EFloat b => Done (VF32 b)
  | EBool b => Done (VBool b)
  | EVar x =>
    match lookup x E with
    | Some b => load M (b_cell b) (b_path b)
    | None => Fail ("not modelled: unknown identifier " ++ x)
    end
  | EUn o a => v <~ peval_gen E M a ;; unop_val o v
  | EBin BLAnd l r =>
    a <~ peval_gen E M l ;;
    match a with
    | VVec _ => b <~ peval_gen E M r ;; binop_val BLAnd a b      (* MSL: component-wise on vectors, no short circuit *)
    | _ => x <~ to_bool a ;;
           if x then (b <~ peval_gen E M r ;; y <~ to_bool b ;; Done (VBool y)) else Done (VBool false)
    end
  | EBin BLOr l r =>
    a <~ peval_gen E M l ;;
    match a with
    | VVec _ => b <~ peval_gen E M r ;; binop_val BLOr a b
    | _ => x <~ to_bool a ;;
           if x then Done (VBool true) else (b <~ peval_gen E M r ;; y <~ to_bool b ;; Done (VBool y))
    end
  | EBin o l r => a <~ peval_gen E M l ;; b <~ peval_gen E M r ;; binop_val o a b
  | ECond c a b => cv <~ peval_gen E M c ;; t <~ to_bool cv ;; if t then peval_gen E M a else peval_gen E M b
  | ECast t a => v <~ peval_gen E M a ;; cast_val (resolve_ty t) v
  | EAsType t a => v <~ peval_gen E M a ;; astype_val (resolve_ty t) v
  | ECtor t args =>
    match args with
    | [] => zero_of 64 t
    | _ =>
      vs <~ (fix go (l : list expr) : result (list (option value)) :=
               match l with
               | [] => Done []
               | a :: r =>
                 x <~ match a with EZero => Done None | _ => v <~ peval_gen E M a ;; Done (Some v) end ;;
                 xs <~ go r ;; Done (x :: xs)
               end) args ;;
      ctor t vs
    end
  | EZero => Fail "not modelled: {} in this position"
  | EDC => Fail "not modelled: DefaultConstructible() in this position"
  | EMember a m => v <~ peval_gen E M a ;; member_value E a m v
  | EIndex a i => v <~ peval_gen E M a ;; iv <~ peval_gen E M i ;; z <~ index_z iv ;; n <~ index_in v z ;; index_value v n
  | ECall fn args =>
    vs <~ (fix go (l : list expr) : result (list value) :=
             match l with
             | [] => Done []
             | a :: r => x <~ peval_gen E M a ;; xs <~ go r ;; Done (x :: xs)
             end) args ;;
    if is_intrinsic fn then intrinsic fn vs else call fn vs M
  | EAddr _ => Fail "not modelled: address-of in this position"
  end.

(* ---- the interpreter ---- *)
End Pure.

Definition peval0 := peval_gen (fun _ _ _ => Fail "not modelled: user call inside a simple function").

Fixpoint bind_values (ps : list param) (vs : list value) (E : env) (M : memory) : result (env * memory) :=
  match ps, vs with
  | [], [] => Done (E, M)
  | p :: ps', v :: vs' =>
    v' <~ implicit_conv (resolve_ty (pa_ty p)) v ;;
    bind_values ps' vs' ((pa_name p, mkbind (pa_ty p) (List.length M) []) :: E) (M ++ [Some v'])%list
  | _, _ => Fail "call: arity"
  end.

Fixpoint simple_decls (ds : list (ty * string * expr)) (E : env) (M : memory) : result (env * memory) :=
  match ds with
  | [] => Done (E, M)
  | (t, x, e) :: r =>
    v <~ peval0 E M e ;; v' <~ implicit_conv (resolve_ty t) v ;;
    simple_decls r ((x, mkbind t (List.length M) []) :: E) (M ++ [Some v'])%list
  end.

Definition simple_call (fn : string) (vs : list value) (M : memory) : result value :=
  match find_overload fn (map Some vs) with
  | None => Fail ("not modelled: unknown function " ++ fn)
  | Some d =>
    if is_simple_fn d then
      match simple_body (fd_body d) with
      | Some (ds, ret) =>
        em <~ bind_values (fd_params d) vs G M ;;
        em' <~ simple_decls ds (fst em) (snd em) ;;
        peval0 (fst em') (snd em') ret
      | None => Fail "not a simple function"
      end
    else Fail "not a simple function"
  end.

Definition peval := peval_gen simple_call.

(* leaving a scope (block, loop body, function): the cells allocated inside it die; cells are only ever
   appended, so the surviving memory is the prefix that existed at entry (with its updated contents) *)
Definition leave (M_entry M_now : memory) : memory := firstn (List.length M_entry) M_now.

Definition label_matches (sel lab : value) : bool :=
  match m_cmp BEq sel lab with Done (VBool b) => b | _ => false end.

Fixpoint eval (fuel : nat) (E : env) (M : memory) (e : expr) {struct fuel} : result value :=
  match fuel with
  | O => OutOfFuel
  | S f =>
    if is_pure e then peval E M e else
    match e with
    | EInt z => Done (VI32 (wrap z))
    | EUint z => Done (VU32 (wrap z))
    | EFloat b => Done (VF32 b)
    | EBool b => Done (VBool b)
    | EVar x =>
      match lookup x E with
      | Some b => load M (b_cell b) (b_path b)
      | None => Fail ("not modelled: unknown identifier " ++ x)
      end
    | EUn o a => v <~ eval f E M a ;; unop_val o v
    | EBin BLAnd l r =>
      a <~ eval f E M l ;;
      match a with
      | VVec _ => b <~ eval f E M r ;; binop_val BLAnd a b      (* MSL: component-wise on vectors, no short circuit *)
      | _ => x <~ to_bool a ;;
             if x then (b <~ eval f E M r ;; y <~ to_bool b ;; Done (VBool y)) else Done (VBool false)
      end
    | EBin BLOr l r =>
      a <~ eval f E M l ;;
      match a with
      | VVec _ => b <~ eval f E M r ;; binop_val BLOr a b
      | _ => x <~ to_bool a ;;
             if x then Done (VBool true) else (b <~ eval f E M r ;; y <~ to_bool b ;; Done (VBool y))
      end
    | EBin o l r => a <~ eval f E M l ;; b <~ eval f E M r ;; binop_val o a b
    | ECond c a b =>
      cv <~ eval f E M c ;; t <~ to_bool cv ;;
      let branch (x other : expr) :=
          match x with
          | EDC => match type_of 32 E other with
                   | Some ty => zero_of 64 ty
                   | None => Fail "not modelled: DefaultConstructible() of unknown type"
                   end
          | _ => eval f E M x
          end in
      if t then branch a b else branch b a
    | ECast t a => v <~ eval f E M a ;; cast_val (resolve_ty t) v
    | EAsType t a => v <~ eval f E M a ;; astype_val (resolve_ty t) v
    | ECtor t args =>
      match args with
      | [] => zero_of 64 t
      | _ => vs <~ rmap (fun a => match a with EZero => Done None | _ => v <~ eval f E M a ;; Done (Some v) end) args ;;
             ctor t vs
      end
    | EZero => Fail "not modelled: {} in this position"
    | EDC => Fail "not modelled: DefaultConstructible() in this position"
    | EMember a m => v <~ eval f E M a ;; member_value E a m v
    | EIndex a i =>
      v <~ eval f E M a ;; iv <~ eval f E M i ;; z <~ index_z iv ;; n <~ index_in v z ;; index_value v n
    | ECall fn args =>
      if is_atomic_fn fn then Fail "not modelled: atomic inside an expression"
      else if is_intrinsic fn then vs <~ rmap (eval f E M) args ;; intrinsic fn vs
      else
        vs <~ rmap (eval f E M) args ;;
        match find_overload fn (map Some vs) with
        | None => Fail ("not modelled: unknown function " ++ fn)
        | Some d =>
          if existsb pa_ref (fd_params d) then Fail "not modelled: call with reference parameters inside an expression"
          else
            r <~ run_fn f M d (map (fun v => inl v) vs) ;;
            match fst r with Some v => Done v | None => Fail "call of a void function inside an expression" end
        end
    | EAddr _ => Fail "not modelled: address-of in this position"
    end
  end

with lval (fuel : nat) (E : env) (M : memory) (e : expr) {struct fuel} : result (nat * list nat) :=
  match fuel with
  | O => OutOfFuel
  | S f =>
    match e with
    | EVar x =>
      match lookup x E with
      | Some b => Done (b_cell b, b_path b)
      | None => Fail ("not modelled: unknown identifier " ++ x)
      end
    | EMember a m =>
      loc <~ lval f E M a ;;
      match type_of 32 E a with
      | Some t =>
        match resolve_ty t with
        | TyN sn =>
          match find_struct sn with
          | Some sd => match member_index (sd_members sd) m 0 with
                       | Some (i, _) => Done (fst loc, (snd loc ++ [i])%list)
                       | None => Fail ("no member " ++ m)
                       end
          | None => Fail ("not modelled: type " ++ sn)
          end
        | TyV n _ _ =>
          match swz_indices m with
          | Some [i] => if Nat.ltb i n then Done (fst loc, (snd loc ++ [i])%list) else Fail "UB: out of bounds"
          | _ => Fail "not modelled: store to a multi-component swizzle"
          end
        | _ => Fail "member access: static type is neither struct nor vector"
        end
      | None => Fail "not modelled: lvalue of unknown static type"
      end
    | EIndex a i =>
      loc <~ lval f E M a ;; iv <~ eval f E M i ;; z <~ index_z iv ;;
      (* an element of a variable that was declared without initialiser and never written as a whole (naga's
         element-wise zero-initialisation loops over arrays of atomics): its shape is unknown here *)
      cur <~ match nth_error M (fst loc) with
             | Some None => Fail "not modelled: element access into a variable that was never written as a whole"
             | _ => load M (fst loc) (snd loc)
             end ;;
      n <~ index_in cur z ;;
      Done (fst loc, (snd loc ++ [n])%list)
    | ECond c a b =>        (* C++: a conditional expression whose branches are lvalues is an lvalue (naga: `ok ? x.inner[i] : oob`) *)
      cv <~ eval f E M c ;; t <~ to_bool cv ;; lval f E M (if t then a else b)
    | _ => Fail "not modelled: expression is not an lvalue"
    end
  end

(* arguments: inl v = by value, inr (cell, path) = reference *)
with run_fn (fuel : nat) (M : memory) (d : fdef) (args : list (value + nat * list nat)) {struct fuel}
  : result (option value * memory) :=
  match fuel with
  | O => OutOfFuel
  | S f =>
    let fix bind_params (ps : list param) (as_ : list (value + nat * list nat)) (E : env) (M : memory)
      : result (env * memory) :=
      match ps, as_ with
      | [], [] => Done (E, M)
      | p :: ps', inl v :: as' =>
        if pa_ref p then Fail "call: value passed for a reference parameter"
        else v' <~ implicit_conv (resolve_ty (pa_ty p)) v ;;
             let '(M', c) := alloc M (Some v') in
             bind_params ps' as' ((pa_name p, mkbind (pa_ty p) c []) :: E) M'
      | p :: ps', inr (c, path) :: as' =>
        if pa_ref p then bind_params ps' as' ((pa_name p, mkbind (pa_ty p) c path) :: E) M
        else Fail "call: reference passed for a value parameter"
      | _, _ => Fail "call: arity"
      end in
    em <~ bind_params (fd_params d) args G M ;;
    r <~ exec_block f (fst em) (snd em) (fd_body d) ;;
    match fst r with
    | OReturn v => Done (v, leave M (snd r))
    | ONormal => Done (None, leave M (snd r))
    | _ => Fail "break/continue escaping a function"
    end
  end

(* a call statement / initialiser: user functions (with reference parameters) and atomics *)
with call_stmt (fuel : nat) (E : env) (M : memory) (fn : string) (args : list expr) {struct fuel}
  : result (option value * memory) :=
  match fuel with
  | O => OutOfFuel
  | S f =>
    if is_atomic_fn fn then
      match args with
      | EAddr p :: rest =>
        loc <~ lval f E M p ;;
        if String.eqb fn "metal::atomic_store_explicit" then
          match rest with
          | a :: _ =>
            v <~ eval f E M a ;;
            v' <~ match type_of 32 E p with
                  | Some t => match resolve_ty t with TyAtomic s => cast_scalar s v | _ => Done v end
                  | None => Done v
                  end ;;
            M' <~ store M (fst loc) (snd loc) v' ;; Done (None, M')
          | [] => Fail "atomic: arity"
          end
        else
        old <~ load M (fst loc) (snd loc) ;;
        if String.eqb fn "metal::atomic_load_explicit" then Done (Some old, M)
        else
          match rest with
          | a :: _ =>
            v <~ eval f E M a ;; nw <~ atomic_new fn old v ;;
            M' <~ match nw with Some x => store M (fst loc) (snd loc) x | None => Done M end ;;
            Done (if String.eqb fn "metal::atomic_store_explicit" then None else Some old, M')
          | [] => Fail "atomic: arity"
          end
      | _ => Fail "not modelled: atomic operand form"
      end
    else if is_intrinsic fn then v <~ eval f E M (ECall fn args) ;; Done (Some v, M)
    else
      (* argument values where they can be evaluated (reference arguments of aggregate type need not be) *)
      (* (also of arguments that are not "pure" in the sense of is_pure, e.g. a constructor holding
         `c ? x : DefaultConstructible()`: the value is only used to choose among C++ overloads) *)
      let avs := map (fun a => match eval f E M a with Done v => Some v | _ => None end) args in
      match find_overload fn avs with
      | None => Fail ("not modelled: unknown function " ++ fn)
      | Some d =>
        let fix eval_args (ps : list param) (as_ : list expr) : result (list (value + nat * list nat)) :=
          match ps, as_ with
          | [], [] => Done []
          | p :: ps', a :: as' =>
            x <~ (if pa_ref p then loc <~ lval f E M a ;; Done (inr loc) else v <~ eval f E M a ;; Done (inl v)) ;;
            xs <~ eval_args ps' as' ;; Done (x :: xs)
          | _, _ => Fail "call: arity"
          end in
        xs <~ eval_args (fd_params d) args ;;
        run_fn f M d xs
      end
  end

with exec_block (fuel : nat) (E : env) (M : memory) (b : list stmt) {struct fuel} : result (outcome * memory) :=
  match fuel with
  | O => OutOfFuel
  | S f =>
    match b with
    | [] => Done (ONormal, M)
    | s :: rest =>
      r <~ exec_stmt f E M s ;;
      let '(o, E', M') := r in
      match o with
      | ONormal => exec_block f E' M' rest
      | _ => Done (o, M')
      end
    end
  end

with exec_stmt (fuel : nat) (E : env) (M : memory) (s : stmt) {struct fuel} : result (outcome * env * memory) :=
  match fuel with
  | O => OutOfFuel
  | S f =>
    (* value of an initialiser / right-hand side of declared type t (None: unknown) *)
    let rhs (t : option ty) (e : expr) : result (value * memory) :=
      match e with
      | EZero => match t with
                 | Some ty => z <~ zero_of 64 ty ;; Done (z, M)
                 | None => Fail "not modelled: {} assigned to an lvalue of unknown type"
                 end
      | ECall fn args =>
        r <~ call_stmt f E M fn args ;;
        match fst r with Some v => Done (v, snd r) | None => Fail "void call used as a value" end
      | ECond c (ECall fn args) EDC =>
        (* read-zero-skip-write guard around an atomic: `ok ? atomic_op(&a[i], ..) : DefaultConstructible()` *)
        if is_atomic_fn fn then
          cv <~ eval f E M c ;; b <~ to_bool cv ;;
          if b then
            r <~ call_stmt f E M fn args ;;
            match fst r with Some v => Done (v, snd r) | None => Fail "void call used as a value" end
          else match t with
               | Some ty => z <~ zero_of 64 ty ;; Done (z, M)
               | None => Fail "not modelled: DefaultConstructible() of unknown type"
               end
        else v <~ eval f E M e ;; Done (v, M)
      | _ => v <~ eval f E M e ;; Done (v, M)
      end in
    match s with
    | SDecl t x None =>
      let '(M', c) := alloc M None in Done (ONormal, (x, mkbind t c []) :: E, M')
    | SDecl t x (Some e) =>
      r <~ rhs (Some t) e ;; v <~ implicit_conv (resolve_ty t) (fst r) ;;
      let '(M', c) := alloc (snd r) (Some v) in Done (ONormal, (x, mkbind t c []) :: E, M')
    | SAssign None l e =>
      r <~ rhs (type_of 32 E l) e ;;
      loc <~ lval f E (snd r) l ;; M' <~ store (snd r) (fst loc) (snd loc) (fst r) ;; Done (ONormal, E, M')
    | SAssign (Some o) l e =>
      v <~ eval f E M e ;; loc <~ lval f E M l ;; old <~ load M (fst loc) (snd loc) ;;
      nv <~ binop_val o old v ;; M' <~ store M (fst loc) (snd loc) nv ;; Done (ONormal, E, M')
    | SIf c th el =>
      cv <~ eval f E M c ;; t <~ to_bool cv ;;
      r <~ exec_block f E M (if t then th else el) ;; Done (fst r, E, leave M (snd r))
    | SWhile body =>
      r <~ exec_block f E M body ;;
      match fst r with
      | ONormal | OContinue => exec_stmt f E (leave M (snd r)) (SWhile body)
      | OBreak => Done (ONormal, E, leave M (snd r))
      | OReturn v => Done (OReturn v, E, leave M (snd r))
      end
    | SSwitch e cases =>
      sel <~ eval f E M e ;;
      let fix find_case (cs : list (list (option expr) * list stmt)) : result (option (list (list (option expr) * list stmt))) :=
        match cs with
        | [] => Done None
        | (labs, body) :: rest =>
          hit <~ (fix any_label (ls : list (option expr)) : result bool :=
                    match ls with
                    | [] => Done false
                    | None :: ls' => any_label ls'
                    | Some le :: ls' => lv <~ eval f E M le ;; if label_matches sel lv then Done true else any_label ls'
                    end) labs ;;
          if hit then Done (Some cs) else find_case rest
        end in
      let fix find_default (cs : list (list (option expr) * list stmt)) : option (list (list (option expr) * list stmt)) :=
        match cs with
        | [] => None
        | (labs, body) :: rest => if existsb (fun l => match l with None => true | _ => false end) labs then Some cs else find_default rest
        end in
      hit <~ find_case cases ;;
      match (match hit with Some cs => Some cs | None => find_default cases end) with
      | None => Done (ONormal, E, M)
      | Some cs =>
        r <~ exec_cases f E M cs ;;
        Done (match fst r with OBreak => ONormal | o => o end, E, leave M (snd r))
      end
    | SBreak => Done (OBreak, E, M)
    | SContinue => Done (OContinue, E, M)
    | SReturn None => Done (OReturn None, E, M)
    | SReturn (Some (ECall fn args)) =>
      r <~ call_stmt f E M fn args ;; Done (OReturn (fst r), E, snd r)
    | SReturn (Some e) => v <~ eval f E M e ;; Done (OReturn (Some v), E, M)
    | SBlock b => r <~ exec_block f E M b ;; Done (fst r, E, leave M (snd r))
    | SExpr (ECall fn args) => r <~ call_stmt f E M fn args ;; Done (ONormal, E, snd r)
    | SExpr _ => Fail "not modelled: expression statement"
    | SBarrier => Done (ONormal, E, M)
    end
  end

(* C++ switch: run the selected case body and fall through into the following ones until a break *)
with exec_cases (fuel : nat) (E : env) (M : memory) (cs : list (list (option expr) * list stmt)) {struct fuel}
  : result (outcome * memory) :=
  match fuel with
  | O => OutOfFuel
  | S f =>
    match cs with
    | [] => Done (ONormal, M)
    | (_, body) :: rest =>
      r <~ exec_block f E M body ;;
      match fst r with
      | ONormal => exec_cases f E (snd r) rest
      | _ => Done r
      end
    end
  end.

End Run.

(* ---- module-scope constants: evaluated in order into cells ---- *)
Fixpoint init_consts (fuel : nat) (cs : list (string * ty * expr)) (G : env) (M : memory) : result (env * memory) :=
  match cs with
  | [] => Done (G, M)
  | (x, t, e) :: rest =>
    v <~ match e with
         | EZero => zero_of 64 t
         | _ => eval G fuel G M e
         end ;;
    v' <~ implicit_conv (resolve_ty t) v ;;
    let '(M', c) := alloc M (Some v') in
    init_consts fuel rest ((x, mkbind t c []) :: G) M'
  end.

(* ---- conversion between the IR shape of a buffer value and its MSL shape:
   IR arrays of fixed size are wrapper structs {T inner[n]} in MSL; padding members do not exist in values ---- *)
Fixpoint to_msl (fuel : nat) (t : ty) (v : value) : result value :=
  match fuel with
  | O => OutOfFuel
  | S f =>
    match resolve_ty t, v with
    | TyN sn, _ =>
      match find_struct sn with
      | None => Fail ("not modelled: type " ++ sn)
      | Some sd =>
        match v with
        | VStruct vs =>
          let fix go (ms : list (string * ty)) (xs : list value) : result (list value) :=
            match ms, xs with
            | [], [] => Done []
            | (_, mt) :: ms', x :: xs' => y <~ to_msl f mt x ;; ys <~ go ms' xs' ;; Done (y :: ys)
            | _, _ => Fail "buffer value does not match the MSL struct (member count)"
            end in
          ys <~ go (real_members sd) vs ;; Done (VStruct ys)
        | VArr _ =>
          match real_members sd with
          | [(_, mt)] => y <~ to_msl f mt v ;; Done (VStruct [y])
          | _ => Fail "buffer value is an array but the MSL type is not an array wrapper"
          end
        | _ => Fail "buffer value does not match the MSL struct"
        end
      end
    | TyA et _, VArr xs => ys <~ rmap (to_msl f et) xs ;; Done (VArr ys)
    | TyA _ _, _ => Fail "buffer value does not match the MSL array"
    | _, _ => Done v
    end
  end.

(* back to the IR shape; [shape] is a value of the IR shape of this buffer (its initial contents): an MSL struct
   with one array member is unwrapped exactly where the IR has an array *)
Fixpoint from_msl (fuel : nat) (t : ty) (v : value) (shape : value) : result value :=
  match fuel with
  | O => OutOfFuel
  | S f =>
    match resolve_ty t, v with
    | TyN sn, VStruct vs =>
      match find_struct sn with
      | None => Fail ("not modelled: type " ++ sn)
      | Some sd =>
        match shape with
        | VArr _ =>
          match real_members sd, vs with
          | [(_, mt)], [x] => from_msl f mt x shape                (* unwrap .inner *)
          | _, _ => Fail "MSL struct where the IR has an array, but not an array wrapper"
          end
        | VStruct shs =>
          let fix go (ms : list (string * ty)) (xs shs : list value) : result (list value) :=
            match ms, xs, shs with
            | [], [], [] => Done []
            | (_, mt) :: ms', x :: xs', sh :: shs' => y <~ from_msl f mt x sh ;; ys <~ go ms' xs' shs' ;; Done (y :: ys)
            | _, _, _ => Fail "struct value does not match its type"
            end in
          ys <~ go (real_members sd) vs shs ;; Done (VStruct ys)
        | _ => Fail "struct value where the IR has a scalar"
        end
      end
    | TyA et _, VArr xs =>
      match shape with
      | VArr (sh :: _) => ys <~ rmap (fun x => from_msl f et x sh) xs ;; Done (VArr ys)
      | VArr [] => Done v
      | _ => Fail "array value where the IR has none"
      end
    | _, _ => Done v
    end
  end.

End Types.
