(* Running a compute entry point of an MSL program: buffers by [[buffer(n)]] slot,
   the _mslBufferSizes argument from the given byte sizes, builtin inputs by attribute name. *)
From Coq Require Import List ZArith String Bool.
Import ListNotations.
Require Import Naga.Base.Bits32 Naga.IR.Values Naga.Msl.Syntax Naga.Msl.Ops Naga.Msl.Sem.
Open Scope string_scope.
Open Scope Z_scope.

Fixpoint lookup_z {A} (k : Z) (l : list (Z * A)) : option A :=
  match l with [] => None | (k', a) :: l' => if k =? k' then Some a else lookup_z k l' end.

Definition sizes_struct (P : prog) (sizes : list (string * Z)) : result value :=
  match find_struct P "_mslBufferSizes" with
  | None => Fail "no _mslBufferSizes struct"
  | Some sd =>
    Done (VStruct (map (fun m => VU32 (wrap (match lookup (fst m) sizes with Some z => z | None => 0 end))) (sd_members sd)))
  end.

Definition is_sizes_ty (t : ty) : bool := match t with TyN n => String.eqb n "_mslBufferSizes" | _ => false end.

(* arguments, memory, and the (slot, cell, type) of every buffer *)
Fixpoint bind_entry (P : prog) (ps : list param) (buffers : list (Z * value)) (sizes : list (string * Z))
         (builtins : list (string * value)) (M : memory)
  : result (list (value + nat * list nat) * memory * list (Z * nat * ty * value)) :=
  match ps with
  | [] => Done ([], M, [])
  | p :: ps' =>
    one <~ match pa_attr p with
           | ABuiltin n =>
             match lookup n builtins with
             | Some v => Done (inl v, M, [])
             | None => Fail ("builtin input not supplied: " ++ n)
             end
           | a =>
             if is_sizes_ty (pa_ty p) then
               v <~ sizes_struct P sizes ;;
               Done (inr (List.length M, []), (M ++ [Some v])%list, [])
             else
               match a with
               | ABuffer slot =>
                 match lookup_z slot buffers with
                 | Some v => mv <~ to_msl P 64 (pa_ty p) v ;;
                             Done (inr (List.length M, []), (M ++ [Some mv])%list, [(slot, List.length M, pa_ty p, v)])
                 | None => Fail "buffer not supplied"
                 end
               | _ => Fail ("not modelled: entry point parameter " ++ pa_name p)
               end
           end ;;
    let '(a, M1, o1) := one in
    rest <~ bind_entry P ps' buffers sizes builtins M1 ;;
    let '(as_, M2, o2) := rest in
    Done (a :: as_, M2, (o1 ++ o2)%list)
  end.

Definition run_kernel (fuel : nat) (P : prog) (ep : string) (buffers : list (Z * value)) (sizes : list (string * Z))
           (builtins : list (string * value)) : result (list (Z * value)) :=
  match find_func P ep with
  | None => Fail ("not modelled: entry point " ++ ep ++ " (not parsed)")
  | Some d =>
    if negb (fd_kernel d) then Fail "not a kernel function" else
    gm <~ init_consts P fuel (p_consts P) [] [] ;;
    let '(G, M0) := gm in
    b <~ bind_entry P (fd_params d) buffers sizes builtins M0 ;;
    let '(args, M1, outs) := b in
    r <~ run_fn P G fuel M1 d args ;;
    rmap (fun o => let '(slot, c, t, shape) := o in
                   v <~ load (snd r) c [] ;; iv <~ from_msl P 64 t v shape ;; Done (slot, iv)) outs
  end.
