(* Operator-level agreement of the two interpreters: for every scalar catalogue entry that is correct, the MSL template
   naga emits (Msl/Sem.v, helper functions from their bodies) and the IR expression it was generated from (IR/Sem.v)
   evaluate to the same result, for all 32-bit operands.  (Composition of Msl/CatalogueProofs.v and Msl/IrMeaning.v.) *)
From Coq Require Import List ZArith String Bool.
Import ListNotations.
Require Import Naga.Base.Bits32 Naga.Base.F32 Naga.IR.Values Naga.IR.Sem Naga.Msl.Syntax Naga.Msl.Ops Naga.Msl.Sem
               Naga.Msl.Catalogue Naga.Msl.CatalogueProofs Naga.Msl.IrMeaning.
Open Scope string_scope.
Open Scope Z_scope.

Lemma agree_add_i32 : forall a b, in32 a -> in32 b -> run2 [] (t_wrap_i32 BAdd 1) (VI32 a) (VI32 b) = eval_binary Naga.IR.Syntax.BAdd (VI32 a) (VI32 b).
Proof. intros. rewrite msl_add_i32_correct by assumption. rewrite ir_add_i32. reflexivity. Qed.

Lemma agree_add_u32 : forall a b, in32 a -> in32 b -> run2 [] (t_bin BAdd) (VU32 a) (VU32 b) = eval_binary Naga.IR.Syntax.BAdd (VU32 a) (VU32 b).
Proof. intros. rewrite msl_add_u32_correct by assumption. rewrite ir_add_u32. reflexivity. Qed.

Lemma agree_sub_i32 : forall a b, in32 a -> in32 b -> run2 [] (t_wrap_i32 BSub 1) (VI32 a) (VI32 b) = eval_binary Naga.IR.Syntax.BSub (VI32 a) (VI32 b).
Proof. intros. rewrite msl_sub_i32_correct by assumption. rewrite ir_sub_i32. reflexivity. Qed.

Lemma agree_sub_u32 : forall a b, in32 a -> in32 b -> run2 [] (t_bin BSub) (VU32 a) (VU32 b) = eval_binary Naga.IR.Syntax.BSub (VU32 a) (VU32 b).
Proof. intros. rewrite msl_sub_u32_correct by assumption. rewrite ir_sub_u32. reflexivity. Qed.

Lemma agree_mul_i32 : forall a b, in32 a -> in32 b -> run2 [] (t_wrap_i32 BMul 1) (VI32 a) (VI32 b) = eval_binary Naga.IR.Syntax.BMul (VI32 a) (VI32 b).
Proof. intros. rewrite msl_mul_i32_correct by assumption. rewrite ir_mul_i32. reflexivity. Qed.

Lemma agree_mul_u32 : forall a b, in32 a -> in32 b -> run2 [] (t_bin BMul) (VU32 a) (VU32 b) = eval_binary Naga.IR.Syntax.BMul (VU32 a) (VU32 b).
Proof. intros. rewrite msl_mul_u32_correct by assumption. rewrite ir_mul_u32. reflexivity. Qed.

Lemma agree_add_f32 : forall a b, in32 a -> in32 b -> run2 [] (t_bin BAdd) (VF32 a) (VF32 b) = eval_binary Naga.IR.Syntax.BAdd (VF32 a) (VF32 b).
Proof. intros. rewrite msl_add_f32_correct by assumption. rewrite ir_add_f32. reflexivity. Qed.

Lemma agree_sub_f32 : forall a b, in32 a -> in32 b -> run2 [] (t_bin BSub) (VF32 a) (VF32 b) = eval_binary Naga.IR.Syntax.BSub (VF32 a) (VF32 b).
Proof. intros. rewrite msl_sub_f32_correct by assumption. rewrite ir_sub_f32. reflexivity. Qed.

Lemma agree_mul_f32 : forall a b, in32 a -> in32 b -> run2 [] (t_bin BMul) (VF32 a) (VF32 b) = eval_binary Naga.IR.Syntax.BMul (VF32 a) (VF32 b).
Proof. intros. rewrite msl_mul_f32_correct by assumption. rewrite ir_mul_f32. reflexivity. Qed.

Lemma agree_div_f32 : forall a b, in32 a -> in32 b -> run2 [] (t_bin BDiv) (VF32 a) (VF32 b) = eval_binary Naga.IR.Syntax.BDiv (VF32 a) (VF32 b).
Proof. intros. rewrite msl_div_f32_correct by assumption. rewrite ir_div_f32. reflexivity. Qed.

Lemma agree_eq_i32 : forall a b, in32 a -> in32 b -> run2 [] (t_bin BEq) (VI32 a) (VI32 b) = eval_binary Naga.IR.Syntax.BEq (VI32 a) (VI32 b).
Proof. intros. rewrite msl_eq_i32_correct by assumption. rewrite ir_eq_i32. reflexivity. Qed.

Lemma agree_ne_i32 : forall a b, in32 a -> in32 b -> run2 [] (t_bin BNe) (VI32 a) (VI32 b) = eval_binary Naga.IR.Syntax.BNe (VI32 a) (VI32 b).
Proof. intros. rewrite msl_ne_i32_correct by assumption. rewrite ir_ne_i32. reflexivity. Qed.

Lemma agree_lt_i32 : forall a b, in32 a -> in32 b -> run2 [] (t_bin BLt) (VI32 a) (VI32 b) = eval_binary Naga.IR.Syntax.BLt (VI32 a) (VI32 b).
Proof. intros. rewrite msl_lt_i32_correct by assumption. rewrite ir_lt_i32. reflexivity. Qed.

Lemma agree_le_i32 : forall a b, in32 a -> in32 b -> run2 [] (t_bin BLe) (VI32 a) (VI32 b) = eval_binary Naga.IR.Syntax.BLe (VI32 a) (VI32 b).
Proof. intros. rewrite msl_le_i32_correct by assumption. rewrite ir_le_i32. reflexivity. Qed.

Lemma agree_gt_i32 : forall a b, in32 a -> in32 b -> run2 [] (t_bin BGt) (VI32 a) (VI32 b) = eval_binary Naga.IR.Syntax.BGt (VI32 a) (VI32 b).
Proof. intros. rewrite msl_gt_i32_correct by assumption. rewrite ir_gt_i32. reflexivity. Qed.

Lemma agree_ge_i32 : forall a b, in32 a -> in32 b -> run2 [] (t_bin BGe) (VI32 a) (VI32 b) = eval_binary Naga.IR.Syntax.BGe (VI32 a) (VI32 b).
Proof. intros. rewrite msl_ge_i32_correct by assumption. rewrite ir_ge_i32. reflexivity. Qed.

Lemma agree_eq_u32 : forall a b, in32 a -> in32 b -> run2 [] (t_bin BEq) (VU32 a) (VU32 b) = eval_binary Naga.IR.Syntax.BEq (VU32 a) (VU32 b).
Proof. intros. rewrite msl_eq_u32_correct by assumption. rewrite ir_eq_u32. reflexivity. Qed.

Lemma agree_ne_u32 : forall a b, in32 a -> in32 b -> run2 [] (t_bin BNe) (VU32 a) (VU32 b) = eval_binary Naga.IR.Syntax.BNe (VU32 a) (VU32 b).
Proof. intros. rewrite msl_ne_u32_correct by assumption. rewrite ir_ne_u32. reflexivity. Qed.

Lemma agree_lt_u32 : forall a b, in32 a -> in32 b -> run2 [] (t_bin BLt) (VU32 a) (VU32 b) = eval_binary Naga.IR.Syntax.BLt (VU32 a) (VU32 b).
Proof. intros. rewrite msl_lt_u32_correct by assumption. rewrite ir_lt_u32. reflexivity. Qed.

Lemma agree_le_u32 : forall a b, in32 a -> in32 b -> run2 [] (t_bin BLe) (VU32 a) (VU32 b) = eval_binary Naga.IR.Syntax.BLe (VU32 a) (VU32 b).
Proof. intros. rewrite msl_le_u32_correct by assumption. rewrite ir_le_u32. reflexivity. Qed.

Lemma agree_gt_u32 : forall a b, in32 a -> in32 b -> run2 [] (t_bin BGt) (VU32 a) (VU32 b) = eval_binary Naga.IR.Syntax.BGt (VU32 a) (VU32 b).
Proof. intros. rewrite msl_gt_u32_correct by assumption. rewrite ir_gt_u32. reflexivity. Qed.

Lemma agree_ge_u32 : forall a b, in32 a -> in32 b -> run2 [] (t_bin BGe) (VU32 a) (VU32 b) = eval_binary Naga.IR.Syntax.BGe (VU32 a) (VU32 b).
Proof. intros. rewrite msl_ge_u32_correct by assumption. rewrite ir_ge_u32. reflexivity. Qed.

Lemma agree_eq_f32 : forall a b, in32 a -> in32 b -> run2 [] (t_bin BEq) (VF32 a) (VF32 b) = eval_binary Naga.IR.Syntax.BEq (VF32 a) (VF32 b).
Proof. intros. rewrite msl_eq_f32_correct by assumption. rewrite ir_eq_f32. reflexivity. Qed.

Lemma agree_ne_f32 : forall a b, in32 a -> in32 b -> run2 [] (t_bin BNe) (VF32 a) (VF32 b) = eval_binary Naga.IR.Syntax.BNe (VF32 a) (VF32 b).
Proof. intros. rewrite msl_ne_f32_correct by assumption. rewrite ir_ne_f32. reflexivity. Qed.

Lemma agree_lt_f32 : forall a b, in32 a -> in32 b -> run2 [] (t_bin BLt) (VF32 a) (VF32 b) = eval_binary Naga.IR.Syntax.BLt (VF32 a) (VF32 b).
Proof. intros. rewrite msl_lt_f32_correct by assumption. rewrite ir_lt_f32. reflexivity. Qed.

Lemma agree_le_f32 : forall a b, in32 a -> in32 b -> run2 [] (t_bin BLe) (VF32 a) (VF32 b) = eval_binary Naga.IR.Syntax.BLe (VF32 a) (VF32 b).
Proof. intros. rewrite msl_le_f32_correct by assumption. rewrite ir_le_f32. reflexivity. Qed.

Lemma agree_gt_f32 : forall a b, in32 a -> in32 b -> run2 [] (t_bin BGt) (VF32 a) (VF32 b) = eval_binary Naga.IR.Syntax.BGt (VF32 a) (VF32 b).
Proof. intros. rewrite msl_gt_f32_correct by assumption. rewrite ir_gt_f32. reflexivity. Qed.

Lemma agree_ge_f32 : forall a b, in32 a -> in32 b -> run2 [] (t_bin BGe) (VF32 a) (VF32 b) = eval_binary Naga.IR.Syntax.BGe (VF32 a) (VF32 b).
Proof. intros. rewrite msl_ge_f32_correct by assumption. rewrite ir_ge_f32. reflexivity. Qed.

Lemma agree_eq_bool : forall a b, run2 [] (t_bin BEq) (VBool a) (VBool b) = eval_binary Naga.IR.Syntax.BEq (VBool a) (VBool b).
Proof. intros. rewrite msl_eq_bool_correct by assumption. rewrite ir_eq_bool. reflexivity. Qed.

Lemma agree_ne_bool : forall a b, run2 [] (t_bin BNe) (VBool a) (VBool b) = eval_binary Naga.IR.Syntax.BNe (VBool a) (VBool b).
Proof. intros. rewrite msl_ne_bool_correct by assumption. rewrite ir_ne_bool. reflexivity. Qed.

Lemma agree_and_i32 : forall a b, in32 a -> in32 b -> run2 [] (t_bin BAnd) (VI32 a) (VI32 b) = eval_binary Naga.IR.Syntax.BAnd (VI32 a) (VI32 b).
Proof. intros. rewrite msl_and_i32_correct by assumption. rewrite ir_and_i32. reflexivity. Qed.

Lemma agree_or_i32 : forall a b, in32 a -> in32 b -> run2 [] (t_bin BOr) (VI32 a) (VI32 b) = eval_binary Naga.IR.Syntax.BOr (VI32 a) (VI32 b).
Proof. intros. rewrite msl_or_i32_correct by assumption. rewrite ir_or_i32. reflexivity. Qed.

Lemma agree_xor_i32 : forall a b, in32 a -> in32 b -> run2 [] (t_bin BXor) (VI32 a) (VI32 b) = eval_binary Naga.IR.Syntax.BXor (VI32 a) (VI32 b).
Proof. intros. rewrite msl_xor_i32_correct by assumption. rewrite ir_xor_i32. reflexivity. Qed.

Lemma agree_shl_i32 : forall a b, in32 a -> in32 b -> run2 [] (t_bin BShl) (VI32 a) (VU32 b) = eval_binary Naga.IR.Syntax.BShl (VI32 a) (VU32 b).
Proof. intros. rewrite msl_shl_i32_correct by assumption. rewrite ir_shl_i32. reflexivity. Qed.

Lemma agree_shr_i32 : forall a b, in32 a -> in32 b -> run2 [] (t_bin BShr) (VI32 a) (VU32 b) = eval_binary Naga.IR.Syntax.BShr (VI32 a) (VU32 b).
Proof. intros. rewrite msl_shr_i32_correct by assumption. rewrite ir_shr_i32. reflexivity. Qed.

Lemma agree_not_i32 : forall a, in32 a -> run1 [] (EUn UBitNot va) (VI32 a) = eval_unary Naga.IR.Syntax.UBitwiseNot (VI32 a).
Proof. intros. rewrite msl_not_i32_correct by assumption. rewrite ir_not_i32. reflexivity. Qed.

Lemma agree_and_u32 : forall a b, in32 a -> in32 b -> run2 [] (t_bin BAnd) (VU32 a) (VU32 b) = eval_binary Naga.IR.Syntax.BAnd (VU32 a) (VU32 b).
Proof. intros. rewrite msl_and_u32_correct by assumption. rewrite ir_and_u32. reflexivity. Qed.

Lemma agree_or_u32 : forall a b, in32 a -> in32 b -> run2 [] (t_bin BOr) (VU32 a) (VU32 b) = eval_binary Naga.IR.Syntax.BOr (VU32 a) (VU32 b).
Proof. intros. rewrite msl_or_u32_correct by assumption. rewrite ir_or_u32. reflexivity. Qed.

Lemma agree_xor_u32 : forall a b, in32 a -> in32 b -> run2 [] (t_bin BXor) (VU32 a) (VU32 b) = eval_binary Naga.IR.Syntax.BXor (VU32 a) (VU32 b).
Proof. intros. rewrite msl_xor_u32_correct by assumption. rewrite ir_xor_u32. reflexivity. Qed.

Lemma agree_shl_u32 : forall a b, in32 a -> in32 b -> run2 [] (t_bin BShl) (VU32 a) (VU32 b) = eval_binary Naga.IR.Syntax.BShl (VU32 a) (VU32 b).
Proof. intros. rewrite msl_shl_u32_correct by assumption. rewrite ir_shl_u32. reflexivity. Qed.

Lemma agree_shr_u32 : forall a b, in32 a -> in32 b -> run2 [] (t_bin BShr) (VU32 a) (VU32 b) = eval_binary Naga.IR.Syntax.BShr (VU32 a) (VU32 b).
Proof. intros. rewrite msl_shr_u32_correct by assumption. rewrite ir_shr_u32. reflexivity. Qed.

Lemma agree_not_u32 : forall a, in32 a -> run1 [] (EUn UBitNot va) (VU32 a) = eval_unary Naga.IR.Syntax.UBitwiseNot (VU32 a).
Proof. intros. rewrite msl_not_u32_correct by assumption. rewrite ir_not_u32. reflexivity. Qed.

Lemma agree_and_bool : forall a b, run2 [] (t_bin BAnd) (VBool a) (VBool b) = eval_binary Naga.IR.Syntax.BAnd (VBool a) (VBool b).
Proof. intros. rewrite msl_and_bool_correct by assumption. rewrite ir_and_bool. reflexivity. Qed.

Lemma agree_or_bool : forall a b, run2 [] (t_bin BOr) (VBool a) (VBool b) = eval_binary Naga.IR.Syntax.BOr (VBool a) (VBool b).
Proof. intros. rewrite msl_or_bool_correct by assumption. rewrite ir_or_bool. reflexivity. Qed.

Lemma agree_lnot_bool : forall a, run1 [] (EUn UNot va) (VBool a) = eval_unary Naga.IR.Syntax.ULogicalNot (VBool a).
Proof. intros. rewrite msl_lnot_bool_correct by assumption. rewrite ir_lnot_bool. reflexivity. Qed.

Lemma agree_neg_f32 : forall a, in32 a -> run1 [] (EUn UNeg va) (VF32 a) = eval_unary Naga.IR.Syntax.UNegate (VF32 a).
Proof. intros. rewrite msl_neg_f32_correct by assumption. rewrite ir_neg_f32. reflexivity. Qed.

Lemma agree_select_i32 : forall a b c, run3 [] t_ternary (VI32 a) (VI32 b) (VBool c) = eval_select (VBool c) (VI32 b) (VI32 a).
Proof. intros. rewrite msl_select_i32_correct by assumption. rewrite ir_select_i32. reflexivity. Qed.

Lemma agree_select_u32 : forall a b c, run3 [] t_ternary (VU32 a) (VU32 b) (VBool c) = eval_select (VBool c) (VU32 b) (VU32 a).
Proof. intros. rewrite msl_select_u32_correct by assumption. rewrite ir_select_u32. reflexivity. Qed.

Lemma agree_select_f32 : forall a b c, run3 [] t_ternary (VF32 a) (VF32 b) (VBool c) = eval_select (VBool c) (VF32 b) (VF32 a).
Proof. intros. rewrite msl_select_f32_correct by assumption. rewrite ir_select_f32. reflexivity. Qed.

Lemma agree_select_bool : forall a b c, run3 [] t_ternary (VBool a) (VBool b) (VBool c) = eval_select (VBool c) (VBool b) (VBool a).
Proof. intros. rewrite msl_select_bool_correct by assumption. rewrite ir_select_bool. reflexivity. Qed.

Lemma agree_abs_u32 : forall a, in32 a -> run1 [] (t_call1 "metal::abs") (VU32 a) = eval_math "MathAbs" [VU32 a].
Proof. intros. rewrite msl_abs_u32_correct by assumption. rewrite ir_abs_u32. reflexivity. Qed.

Lemma agree_abs_f32 : forall a, in32 a -> run1 [] (t_call1 "metal::abs") (VF32 a) = eval_math "MathAbs" [VF32 a].
Proof. intros. rewrite msl_abs_f32_correct by assumption. rewrite ir_abs_f32. reflexivity. Qed.

Lemma agree_min_i32 : forall a b, in32 a -> in32 b -> run2 [] (t_call2 "metal::min") (VI32 a) (VI32 b) = eval_math "MathMin" [VI32 a; VI32 b].
Proof. intros. rewrite msl_min_i32_correct by assumption. rewrite ir_min_i32. reflexivity. Qed.

Lemma agree_max_i32 : forall a b, in32 a -> in32 b -> run2 [] (t_call2 "metal::max") (VI32 a) (VI32 b) = eval_math "MathMax" [VI32 a; VI32 b].
Proof. intros. rewrite msl_max_i32_correct by assumption. rewrite ir_max_i32. reflexivity. Qed.

Lemma agree_clamp_i32 : forall a b c, in32 a -> in32 b -> in32 c -> run3 [] (t_call3 "metal::clamp") (VI32 a) (VI32 b) (VI32 c) = eval_math "MathClamp" [VI32 a; VI32 b; VI32 c].
Proof. intros. rewrite msl_clamp_i32_correct by assumption. rewrite ir_clamp_i32. reflexivity. Qed.

Lemma agree_min_u32 : forall a b, in32 a -> in32 b -> run2 [] (t_call2 "metal::min") (VU32 a) (VU32 b) = eval_math "MathMin" [VU32 a; VU32 b].
Proof. intros. rewrite msl_min_u32_correct by assumption. rewrite ir_min_u32. reflexivity. Qed.

Lemma agree_max_u32 : forall a b, in32 a -> in32 b -> run2 [] (t_call2 "metal::max") (VU32 a) (VU32 b) = eval_math "MathMax" [VU32 a; VU32 b].
Proof. intros. rewrite msl_max_u32_correct by assumption. rewrite ir_max_u32. reflexivity. Qed.

Lemma agree_clamp_u32 : forall a b c, in32 a -> in32 b -> in32 c -> run3 [] (t_call3 "metal::clamp") (VU32 a) (VU32 b) (VU32 c) = eval_math "MathClamp" [VU32 a; VU32 b; VU32 c].
Proof. intros. rewrite msl_clamp_u32_correct by assumption. rewrite ir_clamp_u32. reflexivity. Qed.

Lemma agree_min_f32 : forall a b, in32 a -> in32 b -> run2 [] (t_call2 "metal::min") (VF32 a) (VF32 b) = eval_math "MathMin" [VF32 a; VF32 b].
Proof. intros. rewrite msl_min_f32_correct by assumption. rewrite ir_min_f32. reflexivity. Qed.

Lemma agree_max_f32 : forall a b, in32 a -> in32 b -> run2 [] (t_call2 "metal::max") (VF32 a) (VF32 b) = eval_math "MathMax" [VF32 a; VF32 b].
Proof. intros. rewrite msl_max_f32_correct by assumption. rewrite ir_max_f32. reflexivity. Qed.

Lemma agree_clamp_f32 : forall a b c, in32 a -> in32 b -> in32 c -> run3 [] (t_call3 "metal::clamp") (VF32 a) (VF32 b) (VF32 c) = eval_math "MathClamp" [VF32 a; VF32 b; VF32 c].
Proof. intros. rewrite msl_clamp_f32_correct by assumption. rewrite ir_clamp_f32. reflexivity. Qed.

Lemma agree_popcount_i32 : forall a, in32 a -> run1 [] (t_call1 "metal::popcount") (VI32 a) = eval_math "MathCountOneBits" [VI32 a].
Proof. intros. rewrite msl_popcount_i32_correct by assumption. rewrite ir_popcount_i32. reflexivity. Qed.

Lemma agree_clz_i32 : forall a, in32 a -> run1 [] (t_call1 "metal::clz") (VI32 a) = eval_math "MathCountLeadingZeros" [VI32 a].
Proof. intros. rewrite msl_clz_i32_correct by assumption. rewrite ir_clz_i32. reflexivity. Qed.

Lemma agree_ctz_i32 : forall a, in32 a -> run1 [] (t_call1 "metal::ctz") (VI32 a) = eval_math "MathCountTrailingZeros" [VI32 a].
Proof. intros. rewrite msl_ctz_i32_correct by assumption. rewrite ir_ctz_i32. reflexivity. Qed.

Lemma agree_reversebits_i32 : forall a, in32 a -> run1 [] (t_call1 "metal::reverse_bits") (VI32 a) = eval_math "MathReverseBits" [VI32 a].
Proof. intros. rewrite msl_reversebits_i32_correct by assumption. rewrite ir_reversebits_i32. reflexivity. Qed.

Lemma agree_popcount_u32 : forall a, in32 a -> run1 [] (t_call1 "metal::popcount") (VU32 a) = eval_math "MathCountOneBits" [VU32 a].
Proof. intros. rewrite msl_popcount_u32_correct by assumption. rewrite ir_popcount_u32. reflexivity. Qed.

Lemma agree_clz_u32 : forall a, in32 a -> run1 [] (t_call1 "metal::clz") (VU32 a) = eval_math "MathCountLeadingZeros" [VU32 a].
Proof. intros. rewrite msl_clz_u32_correct by assumption. rewrite ir_clz_u32. reflexivity. Qed.

Lemma agree_ctz_u32 : forall a, in32 a -> run1 [] (t_call1 "metal::ctz") (VU32 a) = eval_math "MathCountTrailingZeros" [VU32 a].
Proof. intros. rewrite msl_ctz_u32_correct by assumption. rewrite ir_ctz_u32. reflexivity. Qed.

Lemma agree_reversebits_u32 : forall a, in32 a -> run1 [] (t_call1 "metal::reverse_bits") (VU32 a) = eval_math "MathReverseBits" [VU32 a].
Proof. intros. rewrite msl_reversebits_u32_correct by assumption. rewrite ir_reversebits_u32. reflexivity. Qed.

Lemma agree_floor_f32 : forall a, in32 a -> run1 [] (t_call1 "metal::floor") (VF32 a) = eval_math "MathFloor" [VF32 a].
Proof. intros. rewrite msl_floor_f32_correct by assumption. rewrite ir_floor_f32. reflexivity. Qed.

Lemma agree_ceil_f32 : forall a, in32 a -> run1 [] (t_call1 "metal::ceil") (VF32 a) = eval_math "MathCeil" [VF32 a].
Proof. intros. rewrite msl_ceil_f32_correct by assumption. rewrite ir_ceil_f32. reflexivity. Qed.

Lemma agree_trunc_f32 : forall a, in32 a -> run1 [] (t_call1 "metal::trunc") (VF32 a) = eval_math "MathTrunc" [VF32 a].
Proof. intros. rewrite msl_trunc_f32_correct by assumption. rewrite ir_trunc_f32. reflexivity. Qed.

Lemma agree_sqrt_f32 : forall a, in32 a -> run1 [] (t_call1 "metal::sqrt") (VF32 a) = eval_math "MathSqrt" [VF32 a].
Proof. intros. rewrite msl_sqrt_f32_correct by assumption. rewrite ir_sqrt_f32. reflexivity. Qed.

Lemma agree_saturate_f32 : forall a, in32 a -> run1 [] (t_call1 "metal::saturate") (VF32 a) = eval_math "MathSaturate" [VF32 a].
Proof. intros. rewrite msl_saturate_f32_correct by assumption. rewrite ir_saturate_f32. reflexivity. Qed.

Lemma agree_fma_f32 : forall a b c, in32 a -> in32 b -> in32 c -> run3 [] (t_call3 "metal::fma") (VF32 a) (VF32 b) (VF32 c) = eval_math "MathFma" [VF32 a; VF32 b; VF32 c].
Proof. intros. rewrite msl_fma_f32_correct by assumption. rewrite ir_fma_f32. reflexivity. Qed.

Lemma agree_conv_i32_u32 : forall a, in32 a -> run1 [] (ECast (tyv 1 SUint) va) (VI32 a) = eval_as Naga.IR.Syntax.Uint (Some 4) (VI32 a).
Proof. intros. rewrite msl_conv_i32_u32_correct by assumption. rewrite ir_conv_i32_u32. reflexivity. Qed.

Lemma agree_conv_i32_f32 : forall a, in32 a -> run1 [] (ECast (tyv 1 SFloat) va) (VI32 a) = eval_as Naga.IR.Syntax.Float (Some 4) (VI32 a).
Proof. intros. rewrite msl_conv_i32_f32_correct by assumption. rewrite ir_conv_i32_f32. reflexivity. Qed.

Lemma agree_conv_i32_bool : forall a, in32 a -> run1 [] (ECast (tyv 1 SBool) va) (VI32 a) = eval_as Naga.IR.Syntax.SBool (Some 1) (VI32 a).
Proof. intros. rewrite msl_conv_i32_bool_correct by assumption. rewrite ir_conv_i32_bool. reflexivity. Qed.

Lemma agree_conv_u32_i32 : forall a, in32 a -> run1 [] (ECast (tyv 1 SInt) va) (VU32 a) = eval_as Naga.IR.Syntax.Sint (Some 4) (VU32 a).
Proof. intros. rewrite msl_conv_u32_i32_correct by assumption. rewrite ir_conv_u32_i32. reflexivity. Qed.

Lemma agree_conv_u32_f32 : forall a, in32 a -> run1 [] (ECast (tyv 1 SFloat) va) (VU32 a) = eval_as Naga.IR.Syntax.Float (Some 4) (VU32 a).
Proof. intros. rewrite msl_conv_u32_f32_correct by assumption. rewrite ir_conv_u32_f32. reflexivity. Qed.

Lemma agree_conv_u32_bool : forall a, in32 a -> run1 [] (ECast (tyv 1 SBool) va) (VU32 a) = eval_as Naga.IR.Syntax.SBool (Some 1) (VU32 a).
Proof. intros. rewrite msl_conv_u32_bool_correct by assumption. rewrite ir_conv_u32_bool. reflexivity. Qed.

Lemma agree_conv_f32_bool : forall a, in32 a -> run1 [] (ECast (tyv 1 SBool) va) (VF32 a) = eval_as Naga.IR.Syntax.SBool (Some 1) (VF32 a).
Proof. intros. rewrite msl_conv_f32_bool_correct by assumption. rewrite ir_conv_f32_bool. reflexivity. Qed.

Lemma agree_conv_bool_i32 : forall a, run1 [] (ECast (tyv 1 SInt) va) (VBool a) = eval_as Naga.IR.Syntax.Sint (Some 4) (VBool a).
Proof. intros. rewrite msl_conv_bool_i32_correct by assumption. rewrite ir_conv_bool_i32. reflexivity. Qed.

Lemma agree_conv_bool_u32 : forall a, run1 [] (ECast (tyv 1 SUint) va) (VBool a) = eval_as Naga.IR.Syntax.Uint (Some 4) (VBool a).
Proof. intros. rewrite msl_conv_bool_u32_correct by assumption. rewrite ir_conv_bool_u32. reflexivity. Qed.

Lemma agree_conv_bool_f32 : forall a, run1 [] (ECast (tyv 1 SFloat) va) (VBool a) = eval_as Naga.IR.Syntax.Float (Some 4) (VBool a).
Proof. intros. rewrite msl_conv_bool_f32_correct by assumption. rewrite ir_conv_bool_f32. reflexivity. Qed.

Lemma agree_bitcast_i32_u32 : forall a, in32 a -> run1 [] (EAsType (tyv 1 SUint) va) (VI32 a) = eval_as Naga.IR.Syntax.Uint None (VI32 a).
Proof. intros. rewrite msl_bitcast_i32_u32_correct by assumption. rewrite ir_bitcast_i32_u32. reflexivity. Qed.

Lemma agree_bitcast_i32_f32 : forall a, in32 a -> run1 [] (EAsType (tyv 1 SFloat) va) (VI32 a) = eval_as Naga.IR.Syntax.Float None (VI32 a).
Proof. intros. rewrite msl_bitcast_i32_f32_correct by assumption. rewrite ir_bitcast_i32_f32. reflexivity. Qed.

Lemma agree_bitcast_u32_i32 : forall a, in32 a -> run1 [] (EAsType (tyv 1 SInt) va) (VU32 a) = eval_as Naga.IR.Syntax.Sint None (VU32 a).
Proof. intros. rewrite msl_bitcast_u32_i32_correct by assumption. rewrite ir_bitcast_u32_i32. reflexivity. Qed.

Lemma agree_bitcast_u32_f32 : forall a, in32 a -> run1 [] (EAsType (tyv 1 SFloat) va) (VU32 a) = eval_as Naga.IR.Syntax.Float None (VU32 a).
Proof. intros. rewrite msl_bitcast_u32_f32_correct by assumption. rewrite ir_bitcast_u32_f32. reflexivity. Qed.

Lemma agree_bitcast_f32_i32 : forall a, in32 a -> run1 [] (EAsType (tyv 1 SInt) va) (VF32 a) = eval_as Naga.IR.Syntax.Sint None (VF32 a).
Proof. intros. rewrite msl_bitcast_f32_i32_correct by assumption. rewrite ir_bitcast_f32_i32. reflexivity. Qed.

Lemma agree_bitcast_f32_u32 : forall a, in32 a -> run1 [] (EAsType (tyv 1 SUint) va) (VF32 a) = eval_as Naga.IR.Syntax.Uint None (VF32 a).
Proof. intros. rewrite msl_bitcast_f32_u32_correct by assumption. rewrite ir_bitcast_f32_u32. reflexivity. Qed.

Lemma agree_div_i32 : forall a b, in32 a -> in32 b -> run2 [h_div_i32 1] (t_call2 "naga_div") (VI32 a) (VI32 b) = eval_binary Naga.IR.Syntax.BDiv (VI32 a) (VI32 b).
Proof. intros. rewrite msl_div_i32_correct by assumption. rewrite ir_div_i32. reflexivity. Qed.

Lemma agree_mod_i32 : forall a b, in32 a -> in32 b -> run2 [h_mod_i32 1] (t_call2 "naga_mod") (VI32 a) (VI32 b) = eval_binary Naga.IR.Syntax.BMod (VI32 a) (VI32 b).
Proof. intros. rewrite msl_mod_i32_correct by assumption. rewrite ir_mod_i32. reflexivity. Qed.

Lemma agree_div_u32 : forall a b, in32 a -> in32 b -> run2 [h_div_u32 1] (t_call2 "naga_div") (VU32 a) (VU32 b) = eval_binary Naga.IR.Syntax.BDiv (VU32 a) (VU32 b).
Proof. intros. rewrite msl_div_u32_correct by assumption. rewrite ir_div_u32. reflexivity. Qed.

Lemma agree_mod_u32 : forall a b, in32 a -> in32 b -> run2 [h_mod_u32 1] (t_call2 "naga_mod") (VU32 a) (VU32 b) = eval_binary Naga.IR.Syntax.BMod (VU32 a) (VU32 b).
Proof. intros. rewrite msl_mod_u32_correct by assumption. rewrite ir_mod_u32. reflexivity. Qed.

Lemma agree_neg_i32 : forall a, in32 a -> run1 [h_neg_i32 1] (t_call1 "naga_neg") (VI32 a) = eval_unary Naga.IR.Syntax.UNegate (VI32 a).
Proof. intros. rewrite msl_neg_i32_correct by assumption. rewrite ir_neg_i32. reflexivity. Qed.

Lemma agree_abs_i32 : forall a, in32 a -> run1 [h_abs_i32 1] (t_call1 "naga_abs") (VI32 a) = eval_math "MathAbs" [VI32 a].
Proof. intros. rewrite msl_abs_i32_correct by assumption. rewrite ir_abs_i32. reflexivity. Qed.

Lemma agree_sign_i32 : forall a, in32 a -> run1 [] (t_sign_i32 1) (VI32 a) = eval_math "MathSign" [VI32 a].
Proof. intros. rewrite msl_sign_i32_correct by assumption. rewrite ir_sign_i32. reflexivity. Qed.

Lemma agree_firsttrailingbit_i32 : forall a, in32 a -> run1 [] t_ftb (VI32 a) = eval_math "MathFirstTrailingBit" [VI32 a].
Proof. intros. rewrite msl_firsttrailingbit_i32_correct by assumption. rewrite ir_firsttrailingbit_i32. reflexivity. Qed.

Lemma agree_firsttrailingbit_u32 : forall a, in32 a -> run1 [] t_ftb (VU32 a) = eval_math "MathFirstTrailingBit" [VU32 a].
Proof. intros. rewrite msl_firsttrailingbit_u32_correct by assumption. rewrite ir_firsttrailingbit_u32. reflexivity. Qed.

Lemma agree_firstleadingbit_i32 : forall a, in32 a -> run1 [] (t_flb_i32 1) (VI32 a) = eval_math "MathFirstLeadingBit" [VI32 a].
Proof. intros. rewrite msl_firstleadingbit_i32_correct by assumption. rewrite ir_firstleadingbit_i32. reflexivity. Qed.

Lemma agree_extractbits_u32 : forall a b c, in32 a -> in32 b -> in32 c -> run3 [] t_extract (VU32 a) (VU32 b) (VU32 c) = eval_math "MathExtractBits" [VU32 a; VU32 b; VU32 c].
Proof. intros. rewrite msl_extractbits_u32_correct by assumption. rewrite ir_extractbits_u32. reflexivity. Qed.

Lemma agree_extractbits_i32 : forall a b c, in32 a -> in32 b -> in32 c -> run3 [] t_extract (VI32 a) (VU32 b) (VU32 c) = eval_math "MathExtractBits" [VI32 a; VU32 b; VU32 c].
Proof. intros. rewrite msl_extractbits_i32_correct by assumption. rewrite ir_extractbits_i32. reflexivity. Qed.

Lemma agree_insertbits_u32 : forall a b c d, in32 a -> in32 b -> in32 c -> in32 d -> run_tmpl [] t_insert (VU32 a) (VU32 b) (VU32 c) (VU32 d) = eval_math "MathInsertBits" [VU32 a; VU32 b; VU32 c; VU32 d].
Proof. intros. rewrite msl_insertbits_u32_correct by assumption. rewrite ir_insertbits_u32. reflexivity. Qed.

Lemma agree_insertbits_i32 : forall a b c d, in32 a -> in32 b -> in32 c -> in32 d -> run_tmpl [] t_insert (VI32 a) (VI32 b) (VU32 c) (VU32 d) = eval_math "MathInsertBits" [VI32 a; VI32 b; VU32 c; VU32 d].
Proof. intros. rewrite msl_insertbits_i32_correct by assumption. rewrite ir_insertbits_i32. reflexivity. Qed.
