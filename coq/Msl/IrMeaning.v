(* What the right-hand sides of the catalogue lemmas are: the results of the shared IR interpreter (IR/Sem.v:
   eval_binary, eval_unary, eval_select, eval_math, eval_as) on the same operands.  With Msl/CatalogueProofs.v this
   gives, per operator: MSL template under Msl/Sem.v = IR expression under IR/Sem.v, for all 32-bit operands. *)
From Coq Require Import List ZArith String Bool.
Import ListNotations.
Require Import Naga.Base.Bits32 Naga.Base.F32 Naga.IR.Values Naga.IR.Sem.
Open Scope string_scope.
Open Scope Z_scope.

Lemma ir_add_i32 : forall a b, eval_binary Naga.IR.Syntax.BAdd (VI32 a) (VI32 b) = Done (VI32 (add32 a b)).
Proof. intros; reflexivity. Qed.

Lemma ir_sub_i32 : forall a b, eval_binary Naga.IR.Syntax.BSub (VI32 a) (VI32 b) = Done (VI32 (sub32 a b)).
Proof. intros; reflexivity. Qed.

Lemma ir_mul_i32 : forall a b, eval_binary Naga.IR.Syntax.BMul (VI32 a) (VI32 b) = Done (VI32 (mul32 a b)).
Proof. intros; reflexivity. Qed.

Lemma ir_div_i32 : forall a b, eval_binary Naga.IR.Syntax.BDiv (VI32 a) (VI32 b) = Done (VI32 (div_i32 a b)).
Proof. intros; reflexivity. Qed.

Lemma ir_mod_i32 : forall a b, eval_binary Naga.IR.Syntax.BMod (VI32 a) (VI32 b) = Done (VI32 (rem_i32 a b)).
Proof. intros; reflexivity. Qed.

Lemma ir_add_u32 : forall a b, eval_binary Naga.IR.Syntax.BAdd (VU32 a) (VU32 b) = Done (VU32 (add32 a b)).
Proof. intros; reflexivity. Qed.

Lemma ir_sub_u32 : forall a b, eval_binary Naga.IR.Syntax.BSub (VU32 a) (VU32 b) = Done (VU32 (sub32 a b)).
Proof. intros; reflexivity. Qed.

Lemma ir_mul_u32 : forall a b, eval_binary Naga.IR.Syntax.BMul (VU32 a) (VU32 b) = Done (VU32 (mul32 a b)).
Proof. intros; reflexivity. Qed.

Lemma ir_div_u32 : forall a b, eval_binary Naga.IR.Syntax.BDiv (VU32 a) (VU32 b) = Done (VU32 (div_u32 a b)).
Proof. intros; reflexivity. Qed.

Lemma ir_mod_u32 : forall a b, eval_binary Naga.IR.Syntax.BMod (VU32 a) (VU32 b) = Done (VU32 (rem_u32 a b)).
Proof. intros; reflexivity. Qed.

Lemma ir_add_f32 : forall a b, eval_binary Naga.IR.Syntax.BAdd (VF32 a) (VF32 b) = Done (VF32 (fadd a b)).
Proof. intros; reflexivity. Qed.

Lemma ir_sub_f32 : forall a b, eval_binary Naga.IR.Syntax.BSub (VF32 a) (VF32 b) = Done (VF32 (fsub a b)).
Proof. intros; reflexivity. Qed.

Lemma ir_mul_f32 : forall a b, eval_binary Naga.IR.Syntax.BMul (VF32 a) (VF32 b) = Done (VF32 (fmul a b)).
Proof. intros; reflexivity. Qed.

Lemma ir_div_f32 : forall a b, eval_binary Naga.IR.Syntax.BDiv (VF32 a) (VF32 b) = Done (VF32 (fdiv a b)).
Proof. intros; reflexivity. Qed.

Lemma ir_eq_i32 : forall a b, eval_binary Naga.IR.Syntax.BEq (VI32 a) (VI32 b) = Done (VBool (a =? b)).
Proof. intros; reflexivity. Qed.

Lemma ir_ne_i32 : forall a b, eval_binary Naga.IR.Syntax.BNe (VI32 a) (VI32 b) = Done (VBool (negb (a =? b))).
Proof. intros; reflexivity. Qed.

Lemma ir_lt_i32 : forall a b, eval_binary Naga.IR.Syntax.BLt (VI32 a) (VI32 b) = Done (VBool (lt_i32 a b)).
Proof. intros; reflexivity. Qed.

Lemma ir_le_i32 : forall a b, eval_binary Naga.IR.Syntax.BLe (VI32 a) (VI32 b) = Done (VBool (le_i32 a b)).
Proof. intros; reflexivity. Qed.

Lemma ir_gt_i32 : forall a b, eval_binary Naga.IR.Syntax.BGt (VI32 a) (VI32 b) = Done (VBool (lt_i32 b a)).
Proof. intros; reflexivity. Qed.

Lemma ir_ge_i32 : forall a b, eval_binary Naga.IR.Syntax.BGe (VI32 a) (VI32 b) = Done (VBool (le_i32 b a)).
Proof. intros; reflexivity. Qed.

Lemma ir_eq_u32 : forall a b, eval_binary Naga.IR.Syntax.BEq (VU32 a) (VU32 b) = Done (VBool (a =? b)).
Proof. intros; reflexivity. Qed.

Lemma ir_ne_u32 : forall a b, eval_binary Naga.IR.Syntax.BNe (VU32 a) (VU32 b) = Done (VBool (negb (a =? b))).
Proof. intros; reflexivity. Qed.

Lemma ir_lt_u32 : forall a b, eval_binary Naga.IR.Syntax.BLt (VU32 a) (VU32 b) = Done (VBool (lt_u32 a b)).
Proof. intros; reflexivity. Qed.

Lemma ir_le_u32 : forall a b, eval_binary Naga.IR.Syntax.BLe (VU32 a) (VU32 b) = Done (VBool (le_u32 a b)).
Proof. intros; reflexivity. Qed.

Lemma ir_gt_u32 : forall a b, eval_binary Naga.IR.Syntax.BGt (VU32 a) (VU32 b) = Done (VBool (lt_u32 b a)).
Proof. intros; reflexivity. Qed.

Lemma ir_ge_u32 : forall a b, eval_binary Naga.IR.Syntax.BGe (VU32 a) (VU32 b) = Done (VBool (le_u32 b a)).
Proof. intros; reflexivity. Qed.

Lemma ir_eq_f32 : forall a b, eval_binary Naga.IR.Syntax.BEq (VF32 a) (VF32 b) = Done (VBool (feq a b)).
Proof. intros; reflexivity. Qed.

Lemma ir_ne_f32 : forall a b, eval_binary Naga.IR.Syntax.BNe (VF32 a) (VF32 b) = Done (VBool (fne a b)).
Proof. intros; reflexivity. Qed.

Lemma ir_lt_f32 : forall a b, eval_binary Naga.IR.Syntax.BLt (VF32 a) (VF32 b) = Done (VBool (flt a b)).
Proof. intros; reflexivity. Qed.

Lemma ir_le_f32 : forall a b, eval_binary Naga.IR.Syntax.BLe (VF32 a) (VF32 b) = Done (VBool (fle a b)).
Proof. intros; reflexivity. Qed.

Lemma ir_gt_f32 : forall a b, eval_binary Naga.IR.Syntax.BGt (VF32 a) (VF32 b) = Done (VBool (fgt a b)).
Proof. intros; reflexivity. Qed.

Lemma ir_ge_f32 : forall a b, eval_binary Naga.IR.Syntax.BGe (VF32 a) (VF32 b) = Done (VBool (fge a b)).
Proof. intros; reflexivity. Qed.

Lemma ir_eq_bool : forall a b, eval_binary Naga.IR.Syntax.BEq (VBool a) (VBool b) = Done (VBool (Bool.eqb a b)).
Proof. intros; reflexivity. Qed.

Lemma ir_ne_bool : forall a b, eval_binary Naga.IR.Syntax.BNe (VBool a) (VBool b) = Done (VBool (negb (Bool.eqb a b))).
Proof. intros; reflexivity. Qed.

Lemma ir_and_i32 : forall a b, eval_binary Naga.IR.Syntax.BAnd (VI32 a) (VI32 b) = Done (VI32 (and32 a b)).
Proof. intros; reflexivity. Qed.

Lemma ir_or_i32 : forall a b, eval_binary Naga.IR.Syntax.BOr (VI32 a) (VI32 b) = Done (VI32 (or32 a b)).
Proof. intros; reflexivity. Qed.

Lemma ir_xor_i32 : forall a b, eval_binary Naga.IR.Syntax.BXor (VI32 a) (VI32 b) = Done (VI32 (xor32 a b)).
Proof. intros; reflexivity. Qed.

Lemma ir_shl_i32 : forall a b, eval_binary Naga.IR.Syntax.BShl (VI32 a) (VU32 b) = Done (VI32 (shl32 a b)).
Proof. intros; reflexivity. Qed.

Lemma ir_shr_i32 : forall a b, eval_binary Naga.IR.Syntax.BShr (VI32 a) (VU32 b) = Done (VI32 (shr_i32 a b)).
Proof. intros; reflexivity. Qed.

Lemma ir_not_i32 : forall a, eval_unary Naga.IR.Syntax.UBitwiseNot (VI32 a) = Done (VI32 (not32 a)).
Proof. intros; reflexivity. Qed.

Lemma ir_and_u32 : forall a b, eval_binary Naga.IR.Syntax.BAnd (VU32 a) (VU32 b) = Done (VU32 (and32 a b)).
Proof. intros; reflexivity. Qed.

Lemma ir_or_u32 : forall a b, eval_binary Naga.IR.Syntax.BOr (VU32 a) (VU32 b) = Done (VU32 (or32 a b)).
Proof. intros; reflexivity. Qed.

Lemma ir_xor_u32 : forall a b, eval_binary Naga.IR.Syntax.BXor (VU32 a) (VU32 b) = Done (VU32 (xor32 a b)).
Proof. intros; reflexivity. Qed.

Lemma ir_shl_u32 : forall a b, eval_binary Naga.IR.Syntax.BShl (VU32 a) (VU32 b) = Done (VU32 (shl32 a b)).
Proof. intros; reflexivity. Qed.

Lemma ir_shr_u32 : forall a b, eval_binary Naga.IR.Syntax.BShr (VU32 a) (VU32 b) = Done (VU32 (shr_u32 a b)).
Proof. intros; reflexivity. Qed.

Lemma ir_not_u32 : forall a, eval_unary Naga.IR.Syntax.UBitwiseNot (VU32 a) = Done (VU32 (not32 a)).
Proof. intros; reflexivity. Qed.

Lemma ir_and_bool : forall a b, eval_binary Naga.IR.Syntax.BAnd (VBool a) (VBool b) = Done (VBool (andb a b)).
Proof. intros; reflexivity. Qed.

Lemma ir_or_bool : forall a b, eval_binary Naga.IR.Syntax.BOr (VBool a) (VBool b) = Done (VBool (orb a b)).
Proof. intros; reflexivity. Qed.

Lemma ir_lnot_bool : forall a, eval_unary Naga.IR.Syntax.ULogicalNot (VBool a) = Done (VBool (negb a)).
Proof. intros; reflexivity. Qed.

Lemma ir_neg_i32 : forall a, eval_unary Naga.IR.Syntax.UNegate (VI32 a) = Done (VI32 (neg32 a)).
Proof. intros; reflexivity. Qed.

Lemma ir_neg_f32 : forall a, eval_unary Naga.IR.Syntax.UNegate (VF32 a) = Done (VF32 (fneg a)).
Proof. intros; reflexivity. Qed.

Lemma ir_select_i32 : forall a b c, eval_select (VBool c) (VI32 b) (VI32 a) = Done (if c then VI32 b else VI32 a).
Proof. intros; reflexivity. Qed.

Lemma ir_select_u32 : forall a b c, eval_select (VBool c) (VU32 b) (VU32 a) = Done (if c then VU32 b else VU32 a).
Proof. intros; reflexivity. Qed.

Lemma ir_select_f32 : forall a b c, eval_select (VBool c) (VF32 b) (VF32 a) = Done (if c then VF32 b else VF32 a).
Proof. intros; reflexivity. Qed.

Lemma ir_select_bool : forall a b c, eval_select (VBool c) (VBool b) (VBool a) = Done (if c then VBool b else VBool a).
Proof. intros; reflexivity. Qed.

Lemma ir_abs_i32 : forall a, eval_math "MathAbs" [VI32 a] = Done (VI32 (abs_i32 a)).
Proof. intros; reflexivity. Qed.

Lemma ir_abs_u32 : forall a, eval_math "MathAbs" [VU32 a] = Done (VU32 a).
Proof. intros; reflexivity. Qed.

Lemma ir_abs_f32 : forall a, eval_math "MathAbs" [VF32 a] = Done (VF32 (fabs a)).
Proof. intros; reflexivity. Qed.

Lemma ir_min_i32 : forall a b, eval_math "MathMin" [VI32 a; VI32 b] = Done (VI32 (min_i32 a b)).
Proof. intros; reflexivity. Qed.

Lemma ir_max_i32 : forall a b, eval_math "MathMax" [VI32 a; VI32 b] = Done (VI32 (max_i32 a b)).
Proof. intros; reflexivity. Qed.

Lemma ir_clamp_i32 : forall a b c, eval_math "MathClamp" [VI32 a; VI32 b; VI32 c] = Done (VI32 (clamp_i32 a b c)).
Proof. intros; reflexivity. Qed.

Lemma ir_min_u32 : forall a b, eval_math "MathMin" [VU32 a; VU32 b] = Done (VU32 (min_u32 a b)).
Proof. intros; reflexivity. Qed.

Lemma ir_max_u32 : forall a b, eval_math "MathMax" [VU32 a; VU32 b] = Done (VU32 (max_u32 a b)).
Proof. intros; reflexivity. Qed.

Lemma ir_clamp_u32 : forall a b c, eval_math "MathClamp" [VU32 a; VU32 b; VU32 c] = Done (VU32 (clamp_u32 a b c)).
Proof. intros; reflexivity. Qed.

Lemma ir_min_f32 : forall a b, eval_math "MathMin" [VF32 a; VF32 b] = Done (VF32 (fmin a b)).
Proof. intros; reflexivity. Qed.

Lemma ir_max_f32 : forall a b, eval_math "MathMax" [VF32 a; VF32 b] = Done (VF32 (fmax a b)).
Proof. intros; reflexivity. Qed.

Lemma ir_clamp_f32 : forall a b c, eval_math "MathClamp" [VF32 a; VF32 b; VF32 c] = Done (VF32 (fmin (fmax a b) c)).
Proof. intros; reflexivity. Qed.

Lemma ir_sign_i32 : forall a, eval_math "MathSign" [VI32 a] = Done (VI32 (sign_i32 a)).
Proof. intros; reflexivity. Qed.

Lemma ir_sign_f32 : forall a, eval_math "MathSign" [VF32 a] = Done (VF32 (if is_nan_bits a then a else if flt 0 a then 1065353216 else if flt a 0 then 3212836864 else a)).
Proof. intros; reflexivity. Qed.

Lemma ir_popcount_i32 : forall a, eval_math "MathCountOneBits" [VI32 a] = Done (VI32 (count_one_bits a)).
Proof. intros; reflexivity. Qed.

Lemma ir_clz_i32 : forall a, eval_math "MathCountLeadingZeros" [VI32 a] = Done (VI32 (count_leading_zeros a)).
Proof. intros; reflexivity. Qed.

Lemma ir_ctz_i32 : forall a, eval_math "MathCountTrailingZeros" [VI32 a] = Done (VI32 (count_trailing_zeros a)).
Proof. intros; reflexivity. Qed.

Lemma ir_reversebits_i32 : forall a, eval_math "MathReverseBits" [VI32 a] = Done (VI32 (reverse_bits a)).
Proof. intros; reflexivity. Qed.

Lemma ir_firsttrailingbit_i32 : forall a, eval_math "MathFirstTrailingBit" [VI32 a] = Done (VI32 (first_trailing_bit a)).
Proof. intros; reflexivity. Qed.

Lemma ir_firstleadingbit_i32 : forall a, eval_math "MathFirstLeadingBit" [VI32 a] = Done (VI32 (first_leading_bit_i32 a)).
Proof. intros; reflexivity. Qed.

Lemma ir_extractbits_i32 : forall a b c, eval_math "MathExtractBits" [VI32 a; VU32 b; VU32 c] = Done (VI32 (extract_bits_i32 a b c)).
Proof. intros; reflexivity. Qed.

Lemma ir_insertbits_i32 : forall a b c d, eval_math "MathInsertBits" [VI32 a; VI32 b; VU32 c; VU32 d] = Done (VI32 (insert_bits a b c d)).
Proof. intros; reflexivity. Qed.

Lemma ir_popcount_u32 : forall a, eval_math "MathCountOneBits" [VU32 a] = Done (VU32 (count_one_bits a)).
Proof. intros; reflexivity. Qed.

Lemma ir_clz_u32 : forall a, eval_math "MathCountLeadingZeros" [VU32 a] = Done (VU32 (count_leading_zeros a)).
Proof. intros; reflexivity. Qed.

Lemma ir_ctz_u32 : forall a, eval_math "MathCountTrailingZeros" [VU32 a] = Done (VU32 (count_trailing_zeros a)).
Proof. intros; reflexivity. Qed.

Lemma ir_reversebits_u32 : forall a, eval_math "MathReverseBits" [VU32 a] = Done (VU32 (reverse_bits a)).
Proof. intros; reflexivity. Qed.

Lemma ir_firsttrailingbit_u32 : forall a, eval_math "MathFirstTrailingBit" [VU32 a] = Done (VU32 (first_trailing_bit a)).
Proof. intros; reflexivity. Qed.

Lemma ir_firstleadingbit_u32 : forall a, eval_math "MathFirstLeadingBit" [VU32 a] = Done (VU32 (first_leading_bit_u32 a)).
Proof. intros; reflexivity. Qed.

Lemma ir_extractbits_u32 : forall a b c, eval_math "MathExtractBits" [VU32 a; VU32 b; VU32 c] = Done (VU32 (extract_bits_u32 a b c)).
Proof. intros; reflexivity. Qed.

Lemma ir_insertbits_u32 : forall a b c d, eval_math "MathInsertBits" [VU32 a; VU32 b; VU32 c; VU32 d] = Done (VU32 (insert_bits a b c d)).
Proof. intros; reflexivity. Qed.

Lemma ir_floor_f32 : forall a, eval_math "MathFloor" [VF32 a] = Done (VF32 (ffloor a)).
Proof. intros; reflexivity. Qed.

Lemma ir_ceil_f32 : forall a, eval_math "MathCeil" [VF32 a] = Done (VF32 (fceil a)).
Proof. intros; reflexivity. Qed.

Lemma ir_trunc_f32 : forall a, eval_math "MathTrunc" [VF32 a] = Done (VF32 (ftrunc a)).
Proof. intros; reflexivity. Qed.

Lemma ir_round_f32 : forall a, eval_math "MathRound" [VF32 a] = Done (VF32 (fround a)).
Proof. intros; reflexivity. Qed.

Lemma ir_sqrt_f32 : forall a, eval_math "MathSqrt" [VF32 a] = Done (VF32 (fsqrt a)).
Proof. intros; reflexivity. Qed.

Lemma ir_saturate_f32 : forall a, eval_math "MathSaturate" [VF32 a] = Done (VF32 (fmin (fmax a 0) 1065353216)).
Proof. intros; reflexivity. Qed.

Lemma ir_fma_f32 : forall a b c, eval_math "MathFma" [VF32 a; VF32 b; VF32 c] = Done (VF32 (ffma a b c)).
Proof. intros; reflexivity. Qed.

Lemma ir_dot : forall la lb, eval_math "MathDot" [VVec la; VVec lb] = dot_vals la lb.
Proof. intros; reflexivity. Qed.

Lemma ir_conv_i32_u32 : forall a, eval_as Naga.IR.Syntax.Uint (Some 4) (VI32 a) = Done (VU32 a).
Proof. intros; reflexivity. Qed.

Lemma ir_conv_i32_f32 : forall a, eval_as Naga.IR.Syntax.Float (Some 4) (VI32 a) = Done (VF32 (f32_of_i32 a)).
Proof. intros; reflexivity. Qed.

Lemma ir_conv_i32_bool : forall a, eval_as Naga.IR.Syntax.SBool (Some 1) (VI32 a) = Done (VBool (bool_of_32 a)).
Proof. intros; reflexivity. Qed.

Lemma ir_conv_u32_i32 : forall a, eval_as Naga.IR.Syntax.Sint (Some 4) (VU32 a) = Done (VI32 a).
Proof. intros; reflexivity. Qed.

Lemma ir_conv_u32_f32 : forall a, eval_as Naga.IR.Syntax.Float (Some 4) (VU32 a) = Done (VF32 (f32_of_u32 a)).
Proof. intros; reflexivity. Qed.

Lemma ir_conv_u32_bool : forall a, eval_as Naga.IR.Syntax.SBool (Some 1) (VU32 a) = Done (VBool (bool_of_32 a)).
Proof. intros; reflexivity. Qed.

Lemma ir_conv_f32_i32 : forall a, eval_as Naga.IR.Syntax.Sint (Some 4) (VF32 a) = Done (VI32 (i32_of_f32 a)).
Proof. intros; reflexivity. Qed.

Lemma ir_conv_f32_u32 : forall a, eval_as Naga.IR.Syntax.Uint (Some 4) (VF32 a) = Done (VU32 (u32_of_f32 a)).
Proof. intros; reflexivity. Qed.

Lemma ir_conv_f32_bool : forall a, eval_as Naga.IR.Syntax.SBool (Some 1) (VF32 a) = Done (VBool (negb (feq a 0))).
Proof. intros; reflexivity. Qed.

Lemma ir_conv_bool_i32 : forall a, eval_as Naga.IR.Syntax.Sint (Some 4) (VBool a) = Done (VI32 (u32_of_bool a)).
Proof. intros; reflexivity. Qed.

Lemma ir_conv_bool_u32 : forall a, eval_as Naga.IR.Syntax.Uint (Some 4) (VBool a) = Done (VU32 (u32_of_bool a)).
Proof. intros; reflexivity. Qed.

Lemma ir_conv_bool_f32 : forall a, eval_as Naga.IR.Syntax.Float (Some 4) (VBool a) = Done (VF32 (if a then 1065353216 else 0)).
Proof. intros; reflexivity. Qed.

Lemma ir_bitcast_i32_u32 : forall a, eval_as Naga.IR.Syntax.Uint None (VI32 a) = Done (VU32 a).
Proof. intros; reflexivity. Qed.

Lemma ir_bitcast_i32_f32 : forall a, eval_as Naga.IR.Syntax.Float None (VI32 a) = Done (VF32 a).
Proof. intros; reflexivity. Qed.

Lemma ir_bitcast_u32_i32 : forall a, eval_as Naga.IR.Syntax.Sint None (VU32 a) = Done (VI32 a).
Proof. intros; reflexivity. Qed.

Lemma ir_bitcast_u32_f32 : forall a, eval_as Naga.IR.Syntax.Float None (VU32 a) = Done (VF32 a).
Proof. intros; reflexivity. Qed.

Lemma ir_bitcast_f32_i32 : forall a, eval_as Naga.IR.Syntax.Sint None (VF32 a) = Done (VI32 a).
Proof. intros; reflexivity. Qed.

Lemma ir_bitcast_f32_u32 : forall a, eval_as Naga.IR.Syntax.Uint None (VF32 a) = Done (VU32 a).
Proof. intros; reflexivity. Qed.
